"""Shared machinery for /verif/bin/check (python3 stdlib only)."""
import atexit, hashlib, json, os, re, shutil, subprocess, sys, tempfile, time
from concurrent.futures import ThreadPoolExecutor

VERIF = os.path.dirname(os.path.dirname(os.path.abspath(__file__)))
REPO = os.environ.get("GARR_REPO", "/repo")
LEAN = os.path.join(VERIF, "lean")
HARNESS = os.path.join(VERIF, "harness")
MODEL_BIN = os.path.join(LEAN, ".lake", "build", "bin", "garr_model")
NCPU = os.cpu_count() or 4

GOENV = dict(os.environ, GOFLAGS="-mod=mod", GOPROXY="off", GOSUMDB="off", GOTOOLCHAIN="local", GONOSUMDB="*", GONOSUMCHECK="1")
ALLOWED_AXIOMS = {"propext", "Classical.choice", "Quot.sound"}
FORBIDDEN = re.compile(r"\b(sorry|native_decide|bv_decide|implemented_by)\b|(?<![.\w])admit(?!\s*:)(?!\w)|^\s*axiom\s|unsafe\s|maxHeartbeats\s+0")


def sh(cmd, cwd=None, env=None, timeout=None, input=None):
    p = subprocess.run(cmd, cwd=cwd, env=env, timeout=timeout, input=input, stdout=subprocess.PIPE, stderr=subprocess.STDOUT, text=True)
    return p.returncode, p.stdout


class Problem:
    """something that makes the check fail: kind is 'monitor' (concrete failing input on the implementation),
    'correspondence' (model and implementation disagree / trace rejected / build broke) or 'proof' (theorem no longer checks)"""

    def __init__(self, kind, what, detail=None, key=None):
        self.kind, self.what, self.detail, self.key = kind, what, detail, key

    def to_json(self):
        return {"kind": self.kind, "what": self.what, "detail": self.detail, "key": self.key}


class Result:
    def __init__(self, prop, tier, seed):
        self.prop, self.tier, self.seed = prop, tier, seed
        self.problems = []
        self.coverage = {}
        self.assumptions = []
        self.samples = []
        self.obligations = []  # (theorem, axioms or error)
        self.t0 = time.time()
        self.notes = []

    def add(self, problem):
        self.problems.append(problem)


# ----------------------------------------------------------------------------- Lean side

_lean_built = None


def lean_build():
    """incremental build of the Lean library and the driver; returns (ok, output)"""
    global _lean_built
    if _lean_built is None:
        rc, out = sh(["lake", "build"], cwd=LEAN, timeout=3600)
        _lean_built = (rc == 0 and os.path.exists(MODEL_BIN), out[-4000:])
    return _lean_built


def registry():
    with open(os.path.join(LEAN, "registry.json")) as f:
        return json.load(f)


def source_scan():
    """forbidden constructs in the Lean sources (outside comments)"""
    hits = []
    for root, _, files in os.walk(LEAN):
        if ".lake" in root:
            continue
        for fn in files:
            if not fn.endswith(".lean"):
                continue
            path = os.path.join(root, fn)
            txt = open(path).read()
            # strip block comments and line comments
            txt2 = re.sub(r"/-.*?-/", lambda m: "\n" * m.group(0).count("\n"), txt, flags=re.S)
            for i, line in enumerate(txt2.split("\n"), 1):
                line = line.split("--")[0]
                if FORBIDDEN.search(line):
                    hits.append(f"{os.path.relpath(path, LEAN)}:{i}: {line.strip()}")
    return hits


def audit(res, prop, leanchecker=False):
    """proof obligations: every registered theorem exists and depends only on the allowed axioms"""
    ok, out = lean_build()
    reg = registry().get(prop, {})
    thms = reg.get("theorems", [])
    mods = reg.get("modules", [])
    if not ok:
        res.add(Problem("proof", "lake build of the Lean development failed", out[-1500:]))
        res.obligations = [(t, "build failed") for t in thms]
        return
    hits = source_scan()
    if hits:
        res.add(Problem("proof", "forbidden construct in Lean sources", hits[:10]))
    d = tempfile.mkdtemp(prefix="garraudit-")
    try:
        src = "".join(f"import {m}\n" for m in mods) + "".join(f"#print axioms {t}\n" for t in thms)
        path = os.path.join(d, f"Audit_{prop}.lean")
        open(path, "w").write(src)
        rc, out = sh(["lake", "env", "lean", path], cwd=LEAN, timeout=1800)
    finally:
        shutil.rmtree(d, ignore_errors=True)
    found = {}
    for m in re.finditer(r"'(\S+)' depends on axioms: \[([^\]]*)\]", out.replace("\n", " ")):
        found[m.group(1)] = [a.strip() for a in m.group(2).split(",") if a.strip()]
    for m in re.finditer(r"'(\S+)' does not depend on any axioms", out):
        found[m.group(1)] = []
    for t in thms:
        if t not in found:
            res.obligations.append((t, "MISSING"))
            res.add(Problem("proof", f"theorem {t} does not check", out[-800:]))
        else:
            bad = [a for a in found[t] if a not in ALLOWED_AXIOMS]
            res.obligations.append((t, found[t]))
            if bad:
                res.add(Problem("proof", f"theorem {t} depends on disallowed axioms {bad}"))
    if leanchecker:
        for m in mods:
            rc, out = sh(["lake", "env", "leanchecker", m], cwd=LEAN, timeout=3600)
            res.notes.append(f"leanchecker {m}: rc={rc}")
            if rc != 0:
                res.add(Problem("proof", f"leanchecker rejects {m}", out[-800:]))


# ----------------------------------------------------------------------------- Go side: scratch copy of the working tree

_scratch = None


def scratch_dir():
    global _scratch
    if _scratch is None:
        _scratch = tempfile.mkdtemp(prefix="garrverif-")
        atexit.register(lambda: shutil.rmtree(_scratch, ignore_errors=True))
    return _scratch


ATOMIC_LAYER = {  # package dir -> layer letter of its sync/atomic uses
    "queue": "q", "adder": "a", "circuit-breaker": "b", "retry": "t", "worker-pool": "p",
}


def make_copy(instrument=True, extra_files=None, dst_name="repo", sync_pkgs=("queue", "adder")):
    """copy /repo's CURRENT working tree (non-test sources) into the scratch dir; if `instrument`, rewrite the
    sync/atomic (and, in the mutex files, sync) imports to the shims. Returns (ok, message)."""
    s = scratch_dir()
    dst = os.path.join(s, dst_name)
    shutil.rmtree(dst, ignore_errors=True)
    for root, dirs, files in os.walk(REPO):
        dirs[:] = [d for d in dirs if d not in (".git",)]
        rel = os.path.relpath(root, REPO)
        for fn in files:
            if fn.endswith("_test.go"):
                continue
            if not (fn.endswith(".go") or fn in ("go.mod", "go.sum")):
                continue
            os.makedirs(os.path.join(dst, rel), exist_ok=True)
            shutil.copy2(os.path.join(root, fn), os.path.join(dst, rel, fn))
    shim_dst = os.path.join(s, "shim")
    shutil.rmtree(shim_dst, ignore_errors=True)
    shutil.copytree(os.path.join(HARNESS, "shim"), shim_dst)
    # one vatomic package per layer
    tmpl = open(os.path.join(shim_dst, "vatomic", "vatomic.go")).read()
    for layer in set(ATOMIC_LAYER.values()):
        os.makedirs(os.path.join(shim_dst, "vatomic", layer), exist_ok=True)
        open(os.path.join(shim_dst, "vatomic", layer, "vatomic.go"), "w").write(tmpl.replace('const Layer = "x"', f'const Layer = "{layer}"'))
    rewritten = []
    if instrument:
        for pkg, layer in ATOMIC_LAYER.items():
            pdir = os.path.join(dst, pkg)
            if not os.path.isdir(pdir):
                continue
            for fn in sorted(os.listdir(pdir)):
                if not fn.endswith(".go"):
                    continue
                path = os.path.join(pdir, fn)
                txt = open(path).read()
                new = re.sub(r'^(\s*)"sync/atomic"', rf'\1atomic "garrshim/vatomic/{layer}"', txt, flags=re.M)
                if pkg in sync_pkgs:
                    new = re.sub(r'^(\s*)"sync"\s*$', r'\1sync "garrshim/vsync"', new, flags=re.M)
                if new != txt:
                    open(path, "w").write(new)
                    rewritten.append(f"{pkg}/{fn}")
    for rel, content in (extra_files or {}).items():
        open(os.path.join(dst, rel), "w").write(content)
    gomod = open(os.path.join(dst, "go.mod")).read()
    gomod += "\nrequire garrshim v0.0.0\nreplace garrshim => ../shim\nreplace github.com/valyala/fastrand => ../shim/fastrand\n"
    open(os.path.join(dst, "go.mod"), "w").write(gomod)
    return True, rewritten


EXTRA_ADDER = {"adder/zz_verif.go": "package adder\n\n// VerifSetMaxCells overrides the table-size limit (scratch copy only).\nfunc VerifSetMaxCells(n int) { maxCells = n }\n\n// VerifMaxCells returns the current limit.\nfunc VerifMaxCells() int { return maxCells }\n"}


def build_harness(name, go="go", gover="1.23", test_binary=False, repo_dir="repo", real_fastrand=False, build=True, out_name=None):
    """build /verif/harness/<name> against the scratch copy; returns (binary or None, output)"""
    s = scratch_dir()
    hdst = os.path.join(s, "h_" + (out_name or name))
    shutil.rmtree(hdst, ignore_errors=True)
    shutil.copytree(os.path.join(HARNESS, name), hdst)
    open(os.path.join(hdst, "go.mod"), "w").write(
        f"module garrharness/{name}\n\ngo {gover}\n\nrequire go.linecorp.com/garr v0.0.0\nrequire garrshim v0.0.0\nrequire github.com/valyala/fastrand v1.1.0\n"
        f"replace go.linecorp.com/garr => ../{repo_dir}\n" "replace garrshim => ../shim\n" + ("" if real_fastrand else "replace github.com/valyala/fastrand => ../shim/fastrand\n"))
    shutil.copy2(os.path.join(s, "repo", "go.sum"), os.path.join(hdst, "go.sum")) if os.path.exists(os.path.join(s, "repo", "go.sum")) else None
    binp = os.path.join(s, "bin_" + (out_name or name))
    if not build:
        return binp, ""
    cover = ["-cover", f"-coverpkg=go.linecorp.com/garr/...,garrharness/{name}"] if os.environ.get("VERIF_COVER") else []  # coverage survey (bin/cover_survey)
    cmd = [go, "test", "-c", *cover, "-o", binp, "."] if test_binary else [go, "build", *cover, "-o", binp, "."]
    rc, out = sh(cmd, cwd=hdst, env=GOENV, timeout=900)
    if rc != 0:
        return None, out[-3000:]
    return binp, out


# ----------------------------------------------------------------------------- differential runs (REQ / IMPL / MON protocol)


def run_model(mode, lines):
    p = subprocess.run([MODEL_BIN, mode], input="\n".join(lines) + "\n", stdout=subprocess.PIPE, stderr=subprocess.PIPE, text=True)
    return p.returncode, p.stdout.split("\n"), p.stderr


def diff_shard(binp, mode, seed, count, extra_args=()):
    """run one shard of a sequential differential; returns dict with counts, mismatches, monitor failures"""
    p = subprocess.run([binp, mode, str(seed), str(count), *extra_args], stdout=subprocess.PIPE, stderr=subprocess.PIPE, text=True,
                       env=dict(os.environ, SEQDIFF_STATS="1"))
    out = {"cases": 0, "mismatch": [], "monfail": [], "crash": None, "reqs": [], "impls": [], "stats": {}}
    for line in p.stderr.split("\n"):  # generator statistics: which API routes / states the cases went through
        mm = re.match(r"STAT (.*) (\d+)$", line)
        if mm:
            out["stats"][mm.group(1)] = out["stats"].get(mm.group(1), 0) + int(mm.group(2))
    if p.returncode != 0:
        out["crash"] = f"harness exit {p.returncode}: {p.stderr[-1500:]}"
    reqs, impls, mons = [], [], []
    for line in p.stdout.split("\n"):
        if line.startswith("REQ "):
            reqs.append(line[4:])
        elif line.startswith("IMPL "):
            impls.append(line[5:])
        elif line.startswith("MON "):
            mons.append(line[4:])
    n = min(len(reqs), len(impls), len(mons))
    reqs, impls, mons = reqs[:n], impls[:n], mons[:n]
    rc, model, err = run_model("pure", reqs)
    if rc != 0 or len(model) < n:
        out["crash"] = f"model driver failed rc={rc} lines={len(model)}/{n}: {err[-500:]}"
        model = model + ["<no output>"] * (n - len(model))
    for i in range(n):
        # the case is the (i+1)-th of this shard: running the shard for i+1 cases regenerates and re-executes it (bin/replay does that)
        rp = " ".join(["bin_seqdiff", mode, str(seed), str(i + 1), *extra_args])
        if model[i] != impls[i]:
            out["mismatch"].append({"request": reqs[i], "impl": impls[i], "model": model[i], "monitor": mons[i], "replay_cmd": rp})
        if mons[i] != "ok":
            out["monfail"].append({"request": reqs[i], "impl": impls[i], "model": model[i], "monitor": mons[i], "replay_cmd": rp})
    out["cases"] = n
    out["reqs"], out["impls"] = reqs, impls
    return out


def run_diff(res, binp, mode, seed, total, shards=None, extra_args=(), tag=None, label=None):
    """sharded differential; registers problems on `res`; returns aggregate stats"""
    shards = shards or min(NCPU, max(1, total // 2000))
    per = (total + shards - 1) // shards
    with ThreadPoolExecutor(max_workers=shards) as ex:
        outs = list(ex.map(lambda k: diff_shard(binp, mode, seed * 1000 + k, per, extra_args), range(shards)))
    label = label or mode
    agg = {"cases": 0, "distinct": 0, "mismatches": 0, "monitor_failures": 0, "stats": {}}
    seen = set()
    kinds = {}
    for o in outs:
        agg["cases"] += o["cases"]
        for k, v in o["stats"].items():
            agg["stats"][k] = agg["stats"].get(k, 0) + v
        for r, im in zip(o["reqs"], o["impls"]):
            seen.add(r)
            k = r.split(" ")[0] + ":" + ("err" if im == "err" else "ok")
            kinds[k] = kinds.get(k, 0) + 1
        if o["crash"]:
            res.add(Problem("correspondence", f"{label}: {o['crash']}"))
        for m in o["mismatch"]:
            agg["mismatches"] += 1
            if agg["mismatches"] <= 5:
                res.add(Problem("correspondence", f"{label}: model and implementation disagree", m, key=m["request"]))
        for m in o["monfail"]:
            mt = m["monitor"]
            # "FAIL Cxx reason": only this property's monitor failures are this check's violations
            mm = re.match(r"FAIL (C\d+) (.*)", mt)
            if mm and tag and mm.group(1) != tag:
                continue
            agg["monitor_failures"] += 1
            if agg["monitor_failures"] <= 50:
                res.add(Problem("monitor", f"{label}: {mm.group(2) if mm else mt}", m, key=m["request"]))
    agg["distinct"] = len(seen)
    agg["outcome_kinds"] = kinds
    if outs and outs[0]["reqs"]:
        res.samples.append({"mode": label, "request": outs[0]["reqs"][0], "impl": outs[0]["impls"][0]})
        if len(outs[0]["reqs"]) > 7:
            res.samples.append({"mode": label, "request": outs[0]["reqs"][7], "impl": outs[0]["impls"][7]})
    return agg


# ----------------------------------------------------------------------------- findings, evidence, exit


def known_findings():
    p = os.path.join(VERIF, "known_findings.json")
    if not os.path.exists(p):
        return []
    return json.load(open(p)).get("findings", [])


def match_known(prop, problem):
    """a known finding suppresses only the specific input/history it names (regex on the replay key + message)"""
    for f in known_findings():
        if f.get("status") != "known" or f.get("property") != prop:
            continue
        hay = (problem.key or "") + " || " + problem.what
        if re.search(f["match"], hay):
            return f
    return None


def finish(res, level="proof", checker_cmd="lake build && lake env lean Audit_<id>.lean (#print axioms)", trusted=None, explanation=None):
    prop = res.prop
    evdir = os.environ.get("VERIF_EVIDENCE_DIR", os.path.join(VERIF, "evidence"))
    os.makedirs(os.path.join(evdir, "replays"), exist_ok=True)
    violations, known = [], {}
    for pr in res.problems:
        f = match_known(prop, pr) if pr.kind == "monitor" else None
        if f:
            known.setdefault(f["id"], (f, pr))
        else:
            violations.append(pr)
    for fid, (f, pr) in known.items():
        print(f"KNOWN-FINDING: property={prop} {f['what']}")
    exit_code = 0
    if violations:
        exit_code = 1
        concrete = [p for p in violations if p.kind == "monitor"]
        h = hashlib.sha1(json.dumps([p.to_json() for p in violations], sort_keys=True, default=str).encode()).hexdigest()[:10]
        rp = os.path.join(evdir, "replays", f"{prop}-{h}.json")
        json.dump({"property": prop, "tier": res.tier, "seed": res.seed,
                   "concrete_failing_inputs": [p.to_json() for p in concrete][:20],
                   "broken_obligations_or_correspondence": [p.to_json() for p in violations if p.kind != "monitor"][:20]},
                  open(rp, "w"), indent=1, default=str)
        if concrete:
            print(f"VIOLATION property={prop} replay={rp}")
        else:
            print(f"VIOLATION property={prop} replay={rp} no-failing-input-found")
        for p in violations[:5]:
            print(f"  [{p.kind}] {p.what}")
    nobl = len(res.obligations)
    ndis = sum(1 for _, a in res.obligations if isinstance(a, list) and all(x in ALLOWED_AXIOMS for x in a))
    axioms = sorted({x for _, a in res.obligations if isinstance(a, list) for x in a})
    cov = dict(res.coverage)
    cov.update({
        "obligations": nobl, "discharged": ndis, "checker_cmd": checker_cmd,
        "trusted_base": (trusted or []) + [f"Lean 4 kernel; axioms used by the audited theorems: {axioms}"],
        "theorems": [{"name": t, "axioms": a} for t, a in res.obligations],
        "samples": res.samples[:12] or [{"note": "no correspondence samples in this run"}],
        "notes": res.notes,
    })
    if explanation:
        cov["explanation"] = explanation
    ev = {"property_id": prop, "tier": res.tier, "seed": res.seed, "level": level, "coverage": cov,
          "assumptions": res.assumptions, "wall_s": round(time.time() - res.t0, 2), "violations": len(violations),
          "known_findings_reobserved": sorted(known.keys())}
    json.dump(ev, open(os.path.join(evdir, f"{prop}.json"), "w"), indent=1, default=str)
    return exit_code


# ----------------------------------------------------------------------------- controlled-schedule runs (trace acceptance + monitors)


def conc_shard(binp, mode, acceptor, seed, first, runs, extra, tmpdir, idx):
    monp = os.path.join(tmpdir, f"mon_{mode}_{idx}_{first}.txt")
    cmd = [binp, mode, "-seed", str(seed), "-first", str(first), "-runs", str(runs), "-mon", monp, *extra]
    # (an edited working tree can make the real code block for ever, e.g. on a lock the cooperative scheduler knows nothing about:
    # the harness is killed after a generous time limit and the shard is reported as crashed)
    h = subprocess.Popen(["timeout", "-s", "KILL", str(max(900, runs // 4)), *cmd], stdout=subprocess.PIPE, stderr=subprocess.PIPE)
    if acceptor:
        m = subprocess.Popen([MODEL_BIN, acceptor], stdin=h.stdout, stdout=subprocess.PIPE, stderr=subprocess.PIPE, text=True)
        h.stdout.close()
        mout, merr = m.communicate()
    else:
        mout, merr = "", ""
        h.stdout.read()
    herr = h.stderr.read().decode(errors="replace")
    hrc = h.wait()
    o = {"accepted": 0, "rejected": [], "steps": 0, "cov": {}, "mon_ok": 0, "monfail": [], "crash": None, "progs": {}, "first_accept": None, "cmd": " ".join(cmd)}
    if hrc != 0:
        o["crash"] = f"harness exit {hrc}: {herr[-1200:]}"
    for line in mout.split("\n"):
        if line.startswith("ACCEPT "):
            o["accepted"] += 1
            if o["first_accept"] is None:
                o["first_accept"] = line[:600]
        elif line.startswith("REJECT "):
            o["rejected"].append(line[:900])
        elif line.startswith("COV "):
            _, k, v = line.split(" ")
            o["cov"][k] = o["cov"].get(k, 0) + int(v)
        elif line.startswith("TOTAL "):
            mm = re.search(r"steps=(\d+)", line)
            o["steps"] += int(mm.group(1)) if mm else 0
    if acceptor and "TOTAL" not in mout and not o["crash"]:
        o["crash"] = f"model driver produced no TOTAL line: {merr[-500:]}"
    try:
        for line in open(monp):
            line = line.rstrip("\n")
            f3 = line.split(" ", 2)
            if len(f3) < 3 or not f3[1].lstrip("-").isdigit():
                continue  # a line cut short by a harness that was killed (reported as a crash above)
            if line.startswith("RUN "):
                _, k, d = f3
                o["progs"][int(k)] = d
            elif line.startswith("MON "):
                _, k, rest = f3
                if rest.startswith("ok"):
                    o["mon_ok"] += 1
                else:
                    o["monfail"].append((int(k), rest))
        os.unlink(monp)
    except FileNotFoundError:
        pass
    return o


def run_conc(res, binp, mode, acceptor, seed, total, extra=(), tag=None, label=None, shards=None):
    """sharded controlled-schedule runs; trace acceptance by the Lean model + Go monitors"""
    label = label or f"{mode} {' '.join(extra)}"
    # (runs of the "big" families are ~100x longer than the others: shard them finely)
    shards = shards or (min(NCPU, max(1, total // 8)) if "big" in extra else min(NCPU, max(1, total // 500)))
    per = (total + shards - 1) // shards
    tmpdir = scratch_dir()
    with ThreadPoolExecutor(max_workers=shards) as ex:
        outs = list(ex.map(lambda k: conc_shard(binp, mode, acceptor, seed, k * per, per, list(extra), tmpdir, k), range(shards)))
    agg = {"runs": 0, "accepted": 0, "rejected": 0, "steps": 0, "monitor_ok": 0, "monitor_failures": 0, "cov": {}, "distinct_programs": 0}
    progs = set()
    for o in outs:
        agg["accepted"] += o["accepted"]
        agg["steps"] += o["steps"]
        agg["monitor_ok"] += o["mon_ok"]
        agg["runs"] += len(o["progs"])
        progs.update(o["progs"].values())
        for k, v in o["cov"].items():
            agg["cov"][k] = agg["cov"].get(k, 0) + v
        if o["crash"]:
            res.add(Problem("correspondence", f"{label}: {o['crash']}", {"cmd": o["cmd"]}))
        for line in o["rejected"]:
            agg["rejected"] += 1
            if agg["rejected"] <= 5:
                mm = re.match(r"REJECT (\d+) ", line)
                res.add(Problem("correspondence", f"{label}: implementation trace rejected by the Lean model",
                                {"reject": line, "replay_cmd": o["cmd"], "note": "run index within the shard = REJECT number - 1 + first"}, key=line[:200]))
        for k, rest in o["monfail"]:
            mm = re.match(r"FAIL (C\d+(?:,C\d+)*) (.*)", rest)
            if mm and tag and tag not in mm.group(1).split(","):
                continue
            agg["monitor_failures"] += 1
            if agg["monitor_failures"] <= 30:
                res.add(Problem("monitor", f"{label}: {(mm.group(2) if mm else re.sub('^FAIL ', '', rest))[:700]}",  # no Cxx tag (panic, wrong variant): every check reports it
                                {"program": o["progs"].get(k), "replay_cmd": re.sub(r"-first \d+ -runs \d+", f"-only {k}", o["cmd"])},
                                key=(o["progs"].get(k) or "") + " " + rest[:200]))
    agg["distinct_programs"] = len(progs)
    if outs and outs[0]["progs"]:
        k0 = sorted(outs[0]["progs"])[0]
        res.samples.append({"mode": label, "program": outs[0]["progs"][k0], "model_verdict": outs[0]["first_accept"]})
    return agg


# ----------------------------------------------------------------------------- worker pool: synctest scenarios + subset-construction acceptance


def pool_shard(binp, seed, first, runs, tmpdir, idx, test="TestScenarios", chaos=0):
    trp = os.path.join(tmpdir, f"pooltr_{idx}_{first}_{chaos}.txt")
    monp = os.path.join(tmpdir, f"poolmon_{test}_{idx}_{first}_{chaos}.txt")
    env = dict(os.environ, POOL_SEED=str(seed), POOL_FIRST=str(first), POOL_RUNS=str(runs), POOL_TRACE=trp, POOL_MON=monp, POOL_CHAOS=str(chaos))
    covflag = [f"-test.gocoverdir={os.environ['GOCOVERDIR']}"] if os.environ.get("VERIF_COVER") else []
    # a scenario that hangs (e.g. a goroutine parked on a lock that a panicking call never released) must not hang the check
    tmo = max(120, runs // 15) if test == "TestScenarios" else max(300, 3 * runs // 1000 + 120)
    p = subprocess.run([binp, "-test.run", f"^{test}$", "-test.timeout", f"{tmo}s", *covflag], env=env, stdout=subprocess.PIPE, stderr=subprocess.STDOUT, text=True)
    o = {"accepted": 0, "rejected": [], "mon_ok": 0, "monfail": [], "crash": None, "progs": {}, "first_accept": None,
         "cmd": f"POOL_CHAOS={chaos} POOL_SEED={seed} POOL_FIRST={first} POOL_RUNS={runs} {binp} -test.run ^{test}$", "maxrunning": 0, "inconclusive": 0}
    last_run = None
    try:
        for line in open(monp):
            line = line.rstrip("\n")
            if line.startswith("RUN "):
                _, k, d = line.split(" ", 2)
                o["progs"][int(k)] = d
                last_run = int(k)
            elif line.startswith("MON "):
                _, k, rest = line.split(" ", 2)
                if rest.startswith("ok"):
                    o["mon_ok"] += 1
                    mm = re.search(r"maxrunning=(\d+)", rest)
                    if mm:
                        o["maxrunning"] = max(o["maxrunning"], int(mm.group(1)))
                else:
                    o["monfail"].append((int(k), rest))
        os.unlink(monp)
    except FileNotFoundError:
        pass
    if p.returncode != 0:
        # a panic in a pool goroutine kills the test binary: the scenario that was running is the replay
        o["crash"] = (last_run, p.stdout[-1500:])
    if test == "TestScenarios" and os.path.exists(trp):
        with open(trp) as f:
            m = subprocess.run([MODEL_BIN, "pool"], stdin=f, stdout=subprocess.PIPE, stderr=subprocess.PIPE, text=True)
        for line in m.stdout.split("\n"):
            if line.startswith("ACCEPT "):
                o["accepted"] += 1
                if o["first_accept"] is None:
                    o["first_accept"] = line[:300]
            elif line.startswith("REJECT "):
                if "model exploration budget exceeded" in line:
                    o["inconclusive"] += 1  # the subset construction ran out of budget: neither accepted nor rejected
                else:
                    o["rejected"].append(line[:900])
        os.unlink(trp)
    return o


def run_pool(res, binp, seed, total, tag, test="TestScenarios", shards=None, chaos=0):
    shards = shards or min(NCPU, max(1, total // 100))
    per = (total + shards - 1) // shards
    tmpdir = scratch_dir()
    with ThreadPoolExecutor(max_workers=shards) as ex:
        if test == "TestScenarios":
            outs = list(ex.map(lambda k: pool_shard(binp, seed, k * per, per, tmpdir, k, test), range(shards)))
        else:
            outs = list(ex.map(lambda k: pool_shard(binp, seed * 100 + k, 0, per, tmpdir, k, test, chaos), range(shards)))
    agg = {"runs": 0, "accepted": 0, "rejected": 0, "inconclusive_budget": 0, "monitor_ok": 0, "monitor_failures": 0, "distinct_programs": 0, "max_simultaneously_running": 0}
    progs = set()
    label = "pool-" + test + ("-chaos" if chaos else "")
    for o in outs:
        agg["accepted"] += o["accepted"]
        agg["inconclusive_budget"] += o["inconclusive"]
        agg["monitor_ok"] += o["mon_ok"]
        agg["runs"] += len(o["progs"])
        agg["max_simultaneously_running"] = max(agg["max_simultaneously_running"], o["maxrunning"])
        progs.update(o["progs"].values())
        if o["crash"]:
            k, tail = o["crash"]
            msg = ("the scenario hangs (test binary timed out)" if "test timed out" in tail else
                   "goroutine panic / crash of the test binary" if "panic" in tail else "test binary failed")
            res.add(Problem("monitor", f"{label}: {msg} while running scenario: {o['progs'].get(k)}", {"output_tail": tail, "replay_cmd": o["cmd"]},
                            key=(o["progs"].get(k) or "") + " crash"))
        for line in o["rejected"]:
            agg["rejected"] += 1
            if agg["rejected"] <= 5:
                res.add(Problem("correspondence", f"{label}: observation sequence of the real pool rejected by the Lean model", {"reject": line, "replay_cmd": o["cmd"]}, key=line[:200]))
        for k, rest in o["monfail"]:
            mm = re.match(r"FAIL (C\d+(?:,C\d+)*) (.*)", rest)  # one observation may contradict several properties: "FAIL C04,C12 …"
            if mm and tag and tag not in mm.group(1).split(","):
                continue
            agg["monitor_failures"] += 1
            if agg["monitor_failures"] <= 30:
                res.add(Problem("monitor", f"{label}: {(mm.group(2) if mm else rest)[:600]}", {"scenario": o["progs"].get(k), "replay_cmd": o["cmd"] + f" (POOL_ONLY={k})"},
                                key=(o["progs"].get(k) or "") + " " + rest[:200]))
    agg["distinct_programs"] = len(progs)
    if test == "TestScenarios" and agg["inconclusive_budget"] * 50 > max(1, agg["runs"]):
        res.add(Problem("correspondence", f"{label}: the acceptor ran out of exploration budget on {agg['inconclusive_budget']} of {agg['runs']} scenarios (more than 2%): "
                        "the tie to the model is too weak to be relied on", None, key="pool-budget"))
    if outs and outs[0]["progs"]:
        k0 = sorted(outs[0]["progs"])[0]
        res.samples.append({"mode": label, "scenario": outs[0]["progs"][k0], "model_verdict": outs[0]["first_accept"]})
    return agg


# ----------------------------------------------------------------------------- worker pool: step-level trace acceptance

POOLSTEP_EXTRA = {"worker-pool/zz_verif.go": "package workerpool\n\n// accessors for the step-level harness (scratch copy only)\n\n"
                  "func (p *Pool) VerifQueueLen() int { return p.taskQueue.Len() }\n\nfunc (p *Pool) VerifExpanded() int32 { return p.expanded }\n\n"
                  "func (p *Pool) VerifState() uint32 { return p.state }\n"}


def need_poolstep_harness(res):
    """scratch copy of the working tree whose worker-pool package has (1) sync / sync/atomic rewritten to the shims and (2) its channel,
    select, go, timer and context-cancel constructs rewritten to garrshim/vchan by harness/poolstep/rewrite; the harness built against it.
    Any failure (unknown construct, build error) is a broken correspondence."""
    s = scratch_dir()
    make_copy(instrument=True, dst_name="repo_step", sync_pkgs=("queue", "adder", "worker-pool"))
    rdir = os.path.join(s, "h_poolrewrite")
    shutil.rmtree(rdir, ignore_errors=True)
    shutil.copytree(os.path.join(HARNESS, "poolstep", "rewrite"), rdir)
    open(os.path.join(rdir, "go.mod"), "w").write("module garrharness/poolrewrite\n\ngo 1.23\n")
    rbin = os.path.join(s, "bin_poolrewrite")
    rc, out = sh(["go", "build", "-o", rbin, "."], cwd=rdir, env=GOENV, timeout=600)
    if rc != 0:
        res.add(Problem("correspondence", "the worker-pool instrumenter does not build", out[-1500:]))
        return None
    wp = os.path.join(s, "repo_step", "worker-pool")
    files = sorted(os.path.join(wp, f) for f in os.listdir(wp) if f.endswith(".go")) if os.path.isdir(wp) else []
    if not files:
        res.add(Problem("correspondence", "worker-pool: no source files in the working tree"))
        return None
    rc, out = sh([rbin, *files], env=GOENV, timeout=120)
    if rc != 0:
        res.add(Problem("correspondence", "worker-pool uses a construct the step-level instrumenter does not know: the step-level tie to the model is broken",
                        out[-1500:], key="poolstep-rewrite"))
        return None
    for rel, content in POOLSTEP_EXTRA.items():
        open(os.path.join(s, "repo_step", rel), "w").write(content)
    binp, out2 = build_harness("poolstep", repo_dir="repo_step")
    if not binp:
        res.add(Problem("correspondence", "step-level pool harness does not build against the instrumented copy of the working tree", out2[-2000:], key="poolstep-build"))
        return None
    res.notes.append("poolstep instrumenter: " + out.strip()[-300:])
    return binp


def poolstep_shard(binp, seed, first, runs, tmpdir, idx):
    monp = os.path.join(tmpdir, f"mon_poolstep_{idx}_{first}.txt")
    cmd = [binp, "poolstep", "-seed", str(seed), "-first", str(first), "-runs", str(runs), "-mon", monp]
    h = subprocess.Popen(["timeout", "-s", "KILL", str(max(600, runs // 10)), *cmd], stdout=subprocess.PIPE, stderr=subprocess.PIPE)
    m = subprocess.Popen([MODEL_BIN, "poolstep"], stdin=h.stdout, stdout=subprocess.PIPE, stderr=subprocess.PIPE, text=True)
    h.stdout.close()
    mout, merr = m.communicate()
    herr = h.stderr.read().decode(errors="replace")
    hrc = h.wait()
    o = {"accepted": 0, "rejected": [], "steps": 0, "cov": {}, "mon_ok": 0, "monfail": [], "crash": None, "progs": {}, "first_accept": None,
         "cmd": " ".join(cmd), "opmix": {}, "maxrunning": 0}
    if hrc != 0:
        o["crash"] = f"harness exit {hrc}: {herr[-1200:]}"
    for line in mout.split("\n"):
        if line.startswith("ACCEPT "):
            o["accepted"] += 1
            if o["first_accept"] is None:
                o["first_accept"] = line[:400]
        elif line.startswith("REJECT "):
            o["rejected"].append(line[:900])
        elif line.startswith("COV "):
            _, k, v = line.split(" ")
            o["cov"][k] = o["cov"].get(k, 0) + int(v)
        elif line.startswith("TOTAL "):
            mm = re.search(r"steps=(\d+)", line)
            o["steps"] += int(mm.group(1)) if mm else 0
    if "TOTAL" not in mout and not o["crash"]:
        o["crash"] = f"model driver produced no TOTAL line: {merr[-500:]}"
    try:
        for line in open(monp):
            line = line.rstrip("\n")
            f3 = line.split(" ", 2)
            if len(f3) < 3 or not f3[1].lstrip("-").isdigit():
                continue
            if line.startswith("RUN "):
                o["progs"][int(f3[1])] = f3[2]
            elif line.startswith("OPMIX "):
                for kv in f3[2].split():
                    k, v = kv.split("=")
                    o["opmix"][k] = o["opmix"].get(k, 0) + int(v)
            elif line.startswith("MON "):
                if f3[2].startswith("ok"):
                    o["mon_ok"] += 1
                    mm = re.search(r"maxrunning=(\d+)", f3[2])
                    if mm:
                        o["maxrunning"] = max(o["maxrunning"], int(mm.group(1)))
                else:
                    o["monfail"].append((int(f3[1]), f3[2]))
        os.unlink(monp)
    except FileNotFoundError:
        pass
    return o


def run_poolstep(res, binp, seed, total, tag, shards=None):
    """sharded step-level runs of the instrumented pool: every trace line replayed against Garr.Pool.step + Go monitors"""
    shards = shards or min(NCPU, max(1, total // 100))
    per = (total + shards - 1) // shards
    tmpdir = scratch_dir()
    t0 = time.time()
    with ThreadPoolExecutor(max_workers=shards) as ex:
        outs = list(ex.map(lambda k: poolstep_shard(binp, seed, k * per, per, tmpdir, k), range(shards)))
    wall = max(1e-6, time.time() - t0)
    agg = {"runs": 0, "accepted": 0, "rejected": 0, "steps_accepted": 0, "monitor_ok": 0, "monitor_failures": 0, "model_pc_hits": {}, "op_mix": {},
           "distinct_programs": 0, "max_simultaneously_running": 0}
    progs = set()
    label = "pool-step"
    for o in outs:
        agg["accepted"] += o["accepted"]
        agg["steps_accepted"] += o["steps"]
        agg["monitor_ok"] += o["mon_ok"]
        agg["runs"] += len(o["progs"])
        agg["max_simultaneously_running"] = max(agg["max_simultaneously_running"], o["maxrunning"])
        progs.update(o["progs"].values())
        for k, v in o["cov"].items():
            agg["model_pc_hits"][k] = agg["model_pc_hits"].get(k, 0) + v
        for k, v in o["opmix"].items():
            agg["op_mix"][k] = agg["op_mix"].get(k, 0) + v
        if o["crash"]:
            res.add(Problem("correspondence", f"{label}: {o['crash']}", {"cmd": o["cmd"]}))
        for line in o["rejected"]:
            agg["rejected"] += 1
            if agg["rejected"] <= 5:
                res.add(Problem("correspondence", f"{label}: a step of the instrumented pool is not a step of the Lean model",
                                {"reject": line, "replay_cmd": o["cmd"], "note": "run index = REJECT number - 1 + first; replay with -only <index>"}, key=line[:200]))
        seen_runs = set()
        for k, rest in o["monfail"]:
            mm = re.match(r"FAIL (C\d+(?:,C\d+)*) (.*)", rest)
            if mm and tag and tag not in mm.group(1).split(","):
                continue
            if k not in seen_runs:
                agg["monitor_failures"] += 1
                seen_runs.add(k)
            if agg["monitor_failures"] <= 30:
                res.add(Problem("monitor", f"{label}: {(mm.group(2) if mm else rest)[:600]}",
                                {"program": o["progs"].get(k), "replay_cmd": re.sub(r"-first \d+ -runs \d+", f"-only {k}", o["cmd"])},
                                key=(o["progs"].get(k) or "") + " " + rest[:200]))
    agg["distinct_programs"] = len(progs)
    agg["model_pc_hits"] = dict(sorted(agg["model_pc_hits"].items()))
    agg["runs_per_s"] = round(agg["runs"] / wall, 1)
    agg["steps_per_s"] = round(agg["steps_accepted"] / wall, 1)
    if agg["runs"] and agg["accepted"] + agg["rejected"] != agg["runs"]:
        res.add(Problem("correspondence", f"{label}: {agg['runs']} runs but {agg['accepted']} accepted + {agg['rejected']} rejected traces", None, key="poolstep-count"))
    if outs and outs[0]["progs"]:
        k0 = sorted(outs[0]["progs"])[0]
        res.samples.append({"mode": label, "program": outs[0]["progs"][k0], "model_verdict": outs[0]["first_accept"]})
    return agg


# ----------------------------------------------------------------------------- regenerated access facts (C14, C19)

PKGS = ["queue", "adder", "circuit-breaker", "worker-pool", "retry"]
BRACKETS = {}


def run_race(res, rounds, tag="C14", timeout=1500, pattern=None, only=None):
    """race-detector stress on the UN-instrumented working tree; `pattern`: -test.run; `only`: report races whose stacks mention one of these files"""
    make_copy(instrument=False)
    binp, out = build_harness("race", real_fastrand=True, build=False)
    s = scratch_dir()
    hdst = os.path.join(s, "h_race")
    binp = os.path.join(s, "bin_race")
    rc, out = sh(["go", "test", "-race", "-c", "-o", binp, "."], cwd=hdst, env=GOENV, timeout=900)
    if rc != 0:
        res.add(Problem("correspondence", "race workload does not build against the working tree", out[-1500:]))
        return None
    env = dict(os.environ, RACE_ROUNDS=str(rounds), GORACE="halt_on_error=0")
    p = subprocess.run([binp, "-test.timeout", f"{timeout}s"] + (["-test.run", pattern] if pattern else []), env=env, stdout=subprocess.PIPE, stderr=subprocess.STDOUT, text=True)
    races = re.findall(r"WARNING: DATA RACE\n(.*?)\n==================", p.stdout, flags=re.S)
    if only:
        races = [r for r in races if any(f in r for f in only)]
    for r in races[:5]:
        res.add(Problem("monitor", "race detector: DATA RACE in a workload over the concurrent-safe API: " + " | ".join(l.strip() for l in r.split("\n")[:8])[:700],
                        {"report": r[:3000]}, key=r[:300]))
    # value monitors inside the workloads print `MONFAIL Cxx message`; a check reports those of its own property
    monfails = re.findall(r"MONFAIL (C\d+) (.*)", p.stdout)
    for ptag, msg in monfails:
        if ptag == tag:
            res.add(Problem("monitor", "concurrent workload: " + msg[:600], None, key=msg[:200]))
    if p.returncode != 0 and not races and not monfails:
        res.add(Problem("monitor" if "panic" in p.stdout else "correspondence", "race workload failed: " + p.stdout[-600:], None, key="race-workload-failed"))
    return {"race_rounds": rounds, "races_reported": len(races), "ok": p.returncode == 0}


def lean_str(s):
    return '"' + s.replace("\\", "\\\\").replace('"', '\\"') + '"'


_facts_bin = None


def facts_binary(res):
    """build harness/facts once per process"""
    global _facts_bin
    if _facts_bin:
        return _facts_bin
    s = scratch_dir()
    hdst = os.path.join(s, "h_facts")
    shutil.rmtree(hdst, ignore_errors=True)
    shutil.copytree(os.path.join(HARNESS, "facts"), hdst)
    binp = os.path.join(s, "bin_facts")
    rc, out = sh(["go", "build", "-o", binp, "."], cwd=hdst, env=GOENV, timeout=600)
    if rc != 0:
        res.add(Problem("correspondence", "facts extractor does not build", out[-1000:]))
        return None
    _facts_bin = binp
    return binp


def skeleton_of(res, pkg):
    """{file:function -> canonical text} of every function of <pkg> in the working tree (harness/facts, SKEL lines)"""
    binp = facts_binary(res)
    if not binp:
        return None
    rc, out = sh([binp, os.path.join(REPO, pkg)], cwd=REPO, env=GOENV, timeout=600)
    if rc != 0 or "typecheck:" in out:
        res.add(Problem("correspondence", f"facts extractor failed on package {pkg} (does the working tree type-check?)", out[-1000:]))
        return None
    got = {}
    for line in out.split("\n"):
        f = line.split("\t")
        if f[0] == "SKEL" and len(f) >= 4:
            got[f[2]] = f[3]
    return got


def check_skeleton(res, pkg, expected_path=None, files=None):
    """translator-style tie for the hand-written models: the comment-free, alpha-renamed, whitespace-collapsed text of every
    function of <pkg> (optionally only of the given files) in /repo's working tree must equal the skeleton the models were written
    from (harness/skeleton/<pkg>.expected). Returns True when it matches."""
    expected_path = expected_path or os.path.join(HARNESS, "skeleton", pkg + ".expected")
    got = skeleton_of(res, pkg)
    if got is None:
        return False
    exp = {}
    for line in open(expected_path):
        if line.startswith("#") or not line.strip():
            continue
        fn, _, text = line.rstrip("\n").partition("\t")
        exp[fn] = text
    if files is not None:
        got = {k: v for k, v in got.items() if k.split(":")[0] in files}
        exp = {k: v for k, v in exp.items() if k.split(":")[0] in files}
    diffs = []
    for fn in sorted(set(got) | set(exp)):
        a, b = exp.get(fn), got.get(fn)
        if a == b:
            continue
        if a is None:
            diffs.append({"function": fn, "change": "function added", "now": b[:300]})
        elif b is None:
            diffs.append({"function": fn, "change": "function removed"})
        else:
            i = next((k for k in range(min(len(a), len(b))) if a[k] != b[k]), min(len(a), len(b)))
            diffs.append({"function": fn, "change": "body differs", "modelled": a[max(0, i - 60):i + 100], "now": b[max(0, i - 60):i + 100]})
    sk = res.coverage.setdefault("skeleton", [])
    sk.append({"package": pkg, "files": sorted(files) if files else "all", "functions_compared": len(set(got) | set(exp)), "differences": len(diffs)})
    if diffs:
        res.add(Problem("correspondence", f"{pkg}: the source no longer matches the code the Lean model was written from "
                        f"({', '.join(d['function'] for d in diffs[:6])}): the theorems are about the old code", diffs[:6], key="skeleton"))
    return not diffs


GOMOD_EXPECTED = {"module": "go.linecorp.com/garr", "go": "1.23.5", "require": ["github.com/valyala/fastrand v1.1.0"]}


def check_gomod(res):
    """the language version (timer-channel semantics of Go >= 1.23, which the pool model assumes) and the one dependency (fastrand: the
    adders' probe source, replaced by a scripted one in the controlled runs) are part of what was modelled; formatting is irrelevant"""
    try:
        txt = open(os.path.join(REPO, "go.mod")).read()
    except OSError as e:
        res.add(Problem("correspondence", f"go.mod cannot be read: {e}", None, key="skeleton"))
        return False
    txt = re.sub(r"//[^\n]*", "", txt)
    got = {"module": None, "go": None, "require": [], "other": []}
    block = None
    for line in txt.split("\n"):
        l = " ".join(line.split())
        if not l:
            continue
        if block:
            if l == ")":
                block = None
            elif block == "require":
                got["require"].append(l)
            else:
                got["other"].append(block + " " + l)
            continue
        w = l.split(" ", 1)
        if len(w) == 2 and w[1] == "(":
            block = w[0]
        elif w[0] == "module" and len(w) == 2:
            got["module"] = w[1].strip('"')
        elif w[0] == "go" and len(w) == 2:
            got["go"] = w[1]
        elif w[0] == "require" and len(w) == 2:
            got["require"].append(w[1])
        else:
            got["other"].append(l)  # replace / exclude / toolchain / godebug ... : none was there when the models were written
    got["require"].sort()
    if got["module"] != GOMOD_EXPECTED["module"] or got["go"] != GOMOD_EXPECTED["go"] or got["require"] != GOMOD_EXPECTED["require"] or got["other"]:
        res.add(Problem("correspondence", "go.mod no longer matches the module file the models were written against (language version / dependencies / directives)",
                        {"modelled": GOMOD_EXPECTED, "now": got}, key="skeleton"))
        return False
    return True


def write_skeletons():
    """(maintenance, run by hand after the models were brought up to date with the source) regenerate harness/skeleton/*.expected"""
    res = Result("C00", "quick", 0)
    os.makedirs(os.path.join(HARNESS, "skeleton"), exist_ok=True)
    for pkg in PKGS:
        got = skeleton_of(res, pkg)
        path = os.path.join(HARNESS, "skeleton", pkg + ".expected")
        notes = {}
        if os.path.exists(path):
            key = None
            for line in open(path):
                if line.startswith("#= "):
                    key = line[3:].split(": ", 1)[0]
                    notes[key] = line
        with open(path, "w") as f:
            f.write(f"# Source skeleton of /repo/{pkg} (non-test files) from which the Lean models were written. Regenerated from the working tree on\n"
                    "# every check by harness/facts (SKEL lines: AST printed without comments, function-local names renamed v0, v1, ..., white space\n"
                    "# collapsed) and compared with this file, function by function. '#=' lines name the model entities. Format: <file>:<function>TAB<skeleton>.\n")
            for fn in sorted(got):
                if fn in notes:
                    f.write(notes[fn])
                f.write(f"{fn}\t{got[fn]}\n")
    return res.problems


def extract_facts(res):
    """run the go/types extractor on /repo's current working tree; returns (facts, selects, blocking) or None"""
    binp = facts_binary(res)
    if not binp:
        return None
    facts, selects, blocking = [], [], []
    global BRACKETS
    BRACKETS = {}
    for pkg in PKGS:
        rc, out = sh([binp, os.path.join(REPO, pkg)], cwd=REPO, env=GOENV, timeout=600)
        if rc != 0 or "typecheck:" in out:
            res.add(Problem("correspondence", f"facts extractor failed on package {pkg} (does the working tree type-check?)", out[-1000:]))
            return None
        for line in out.split("\n"):
            f = line.split("\t")
            if f[0] == "FACT":
                locks = [tuple(x.rsplit(":", 1)) for x in f[5].split(",") if x]
                facts.append({"field": f"{f[1]}/{f[2]}", "fn": f[3], "kind": f[4], "locks": locks, "pos": f[6].replace(REPO + "/", "")})
            elif f[0] == "BRACKETS":
                BRACKETS[f"{f[1]}/{f[2]}"] = [x for x in f[3].split(",") if x]
            elif f[0] == "SELECT":
                selects.append({"pkg": f[1], "pos": f[2].replace(REPO + "/", ""), "default": f[3] == "true"})
            elif f[0] == "BLOCKING":
                blocking.append({"pkg": f[1], "pos": f[2].replace(REPO + "/", ""), "what": f[3]})
    return facts, selects, blocking


def check_facts(res, facts, fields_filter=None):
    """generate Facts.lean from the regenerated facts and let Lean decide `Disciplined table facts`"""
    d = os.path.join(scratch_dir(), "gen")
    os.makedirs(d, exist_ok=True)
    sel = [f for f in facts if fields_filter is None or fields_filter(f["field"])]
    rows = []
    for f in sel:
        locks = "[" + ", ".join(f"({lean_str(l)}, .{m})" for l, m in f["locks"]) + "]"
        rows.append(f"  ⟨{lean_str(f['field'])}, {lean_str(f['fn'])}, .{f['kind']}, {locks}, {lean_str(f['pos'])}⟩")
    src = ("import Garr.Disc.Table\nopen Garr.Disc\nnamespace Garr.Disc.Generated\n"
           "def facts : List Fact := [\n" + ",\n".join(rows) + "\n]\n"
           "#eval (offending table facts).map (fun f => s!\"OFFENDING {f.field} | {f.fn} | {repr f.kind} | {f.locks.map (·.1)} | {f.pos}\")\n"
           "#eval s!\"COVERED {Covered table facts}\"\n"
           "theorem facts_disciplined : Disciplined table facts = true := by decide +kernel\n"
           "#print axioms facts_disciplined\n"
           "end Garr.Disc.Generated\n")
    path = os.path.join(d, "Facts.lean")
    open(path, "w").write(src)
    rc, out = sh(["lake", "env", "lean", path], cwd=LEAN, timeout=1800)
    offending = re.findall(r"OFFENDING ([^\"\]]+)", out)
    ok = rc == 0 and not offending and ("COVERED true" in out or fields_filter is not None)
    return ok, offending, out, len(sel)
