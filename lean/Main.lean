import Driver.Pure
import Driver.Accept

partial def pureLoop (h : IO.FS.Stream) (out : IO.FS.Stream) : IO Unit := do
  let line ← h.getLine
  if line.isEmpty then return ()
  out.putStrLn (Driver.handlePure line)
  pureLoop h out

def main (args : List String) : IO UInt32 := do
  let stdin ← IO.getStdin
  let stdout ← IO.getStdout
  match args with
  | ["pure"] => pureLoop stdin stdout; return 0
  | ["adder"] => Driver.acceptLoop Driver.adderAcceptor stdin stdout; return 0
  | ["breaker"] => Driver.acceptLoop Driver.breakerAcceptor stdin stdout; return 0
  | ["poolstep"] => Driver.acceptLoop Driver.poolStepAcceptor stdin stdout; return 0
  | ["pool"] => Driver.acceptLoop Driver.poolAcceptor stdin stdout; return 0
  | ["mqueue"] => Driver.acceptLoop Driver.mqueueAcceptor stdin stdout; return 0
  | ["madder"] => Driver.acceptLoop Driver.madderAcceptor stdin stdout; return 0
  | ["sadder"] => Driver.acceptLoop Driver.sadderAcceptor stdin stdout; return 0
  | ["fine"] => Driver.acceptLoop Driver.fineAcceptor stdin stdout; return 0
  | ["queue"] => Driver.acceptLoop Driver.queueAcceptor stdin stdout; return 0
  | _ => IO.eprintln "usage: garr_model pure|queue|adder|..."; return 2
