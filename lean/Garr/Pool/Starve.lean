import Garr.Pool.FairSubmit
import Garr.Props.Pool
/-!
# Worker-pool model: a weakly fair execution in which a `Do` call on a started pool never returns

`Exec.ofPolicy` builds an infinite execution from a state-dependent scheduler.  `starvePol` is the starvation
scheduler: a competitor keeps submitting, the worker keeps serving, and each time the worker frees the queue slot the
competitor's send fires before the victim's.  The victim's send is enabled at one position per round only.
-/
namespace Garr.Pool.Fair
open Garr.Conc Garr.Pool Garr.Pool.Progress

variable {P : Params}

/-! ## Executions from a scheduler -/

def polNext (pol : Config (M P) → Tid × Act) (c : Config (M P)) : Config (M P) := (run (M P) c [pol c]).1

def polMover (pol : Config (M P) → Tid × Act) (c : Config (M P)) : Option (Tid × Act) :=
  if (step P (pol c).1 c.g (c.l (pol c).1) (pol c).2).isSome then some (pol c) else none

def polCfg (pol : Config (M P) → Tid × Act) (c0 : Config (M P)) : Nat → Config (M P)
  | 0 => c0
  | n + 1 => polNext pol (polCfg pol c0 n)

/-- the execution in which, at every position, the thread and action chosen by `pol` are scheduled (a stutter if that
step is not enabled) -/
def Exec.ofPolicy (pol : Config (M P) → Tid × Act) (c0 : Config (M P)) (h0 : Reach (M P) c0) : Exec P where
  c := polCfg pol c0
  mover := fun n => polMover pol (polCfg pol c0 n)
  init := h0
  next := by
    intro n
    rw [show polCfg pol c0 (n + 1) = polNext pol (polCfg pol c0 n) from rfl]
    generalize polCfg pol c0 n = c
    rcases hp : pol c with ⟨t, a⟩
    cases hs : step P t c.g (c.l t) a with
    | none =>
      left
      have hs' : (M P).step t c.g (c.l t) a = none := hs
      refine ⟨by simp [polMover, hp, hs], ?_⟩
      simp only [polNext, hp, run, hs']
    | some r =>
      obtain ⟨g', l', obs⟩ := r
      right
      have hs' : (M P).step t c.g (c.l t) a = some (g', l', obs) := hs
      refine ⟨t, a, g', l', obs, by simp [polMover, hp, hs], hs, ?_⟩
      simp only [polNext, hp, run, hs']

theorem pol_of_trans {pol : Config (M P) → Tid × Act} {c : Config (M P)} {t : Tid} {a : Act} {g' : G} {l' : L}
    (hp : pol c = (t, a)) (htr : Trans P c.g (c.l t) a g' l') :
    polNext pol c = ⟨g', upd c.l t l'⟩ ∧ polMover pol c = some (t, a) := by
  obtain ⟨obs, hs⟩ := trans_step t htr
  have hs' : (M P).step t c.g (c.l t) a = some (g', l', obs) := hs
  refine ⟨?_, by simp [polMover, hp, hs]⟩
  simp only [polNext, hp, run, hs']

/-! ## Two general facts -/

/-- the context kind of an existing task never changes -/
theorem setTask_ctx (g : G) (u0 u : Nat) (x : Task) (hc : x.ctx = (g.task u0).ctx) :
    ((g.setTask u0 x).task u).ctx = (g.task u).ctx := by
  rw [setTask_task]
  by_cases hh : u = u0 ∧ u0 < g.tasks.length
  · rw [if_pos hh, hh.1]; exact hc
  · rw [if_neg hh]

theorem send_ctx (g : G) (u0 u : Nat) (r : Res) : ((g.send u0 r).task u).ctx = (g.task u).ctx := by
  rw [send_task]
  by_cases hh : u = u0 ∧ u0 < g.tasks.length
  · rw [if_pos hh, hh.1]
  · rw [if_neg hh]

theorem enqueue_ctx (g : G) (u0 u : Nat) : ((enqueue g u0).task u).ctx = (g.task u).ctx := by
  rw [enqueue_task]
  by_cases hh : u = u0 ∧ u0 < g.tasks.length
  · rw [if_pos hh, hh.1]
  · rw [if_neg hh]

theorem runTask_ctx (g : G) (u0 u : Nat) (rest : List Nat) : ((runTask g u0 rest).task u).ctx = (g.task u).ctx := by
  rw [runTask_task]
  by_cases hh : u = u0 ∧ u0 < g.tasks.length
  · rw [if_pos hh, hh.1]
  · rw [if_neg hh]

theorem trans_ctx {g g' : G} {l l' : L} {a : Act} (h : Trans P g l a g' l') (u : Nat) (hu : u < g.tasks.length) :
    (g'.task u).ctx = (g.task u).ctx := by
  cases h
  all_goals first
    | rfl
    | exact send_ctx _ _ _ _
    | exact enqueue_ctx _ _ _
    | exact runTask_ctx _ _ _ _
    | exact setTask_ctx _ _ _ _ rfl
    | (rw [newTask_task, if_neg (by omega)])

/-- a task whose executor has been started is released or still inside its executor -/
def RelInv (c : Config (M P)) : Prop :=
  ∀ u, (c.g.task u).exec = 1 → (c.g.task u).released = true ∨ ∃ t, atExec u (c.l t)

theorem setTask_exec (g : G) (u0 u : Nat) (x : Task) (hc : x.exec = (g.task u0).exec) :
    ((g.setTask u0 x).task u).exec = (g.task u).exec := by
  rw [setTask_task]
  by_cases hh : u = u0 ∧ u0 < g.tasks.length
  · rw [if_pos hh, hh.1]; exact hc
  · rw [if_neg hh]

theorem trans_exec_one {g g' : G} {l l' : L} {a : Act} (h : Trans P g l a g' l') (u : Nat)
    (h1 : (g'.task u).exec = 1) : (g.task u).exec = 1 ∨ atExec u l' := by
  cases h
  all_goals first
    | (left; exact h1; done)
    | (left; rw [send_exec] at h1; exact h1; done)
    | (left; rw [enqueue_exec] at h1; exact h1; done)
    | (left; rw [newTask_exec] at h1; exact h1; done)
    | (left; exact ((SameTasks.cancel _ _).exec u).symm.trans h1; done)
    | (left; exact ((SameTasks.finish _ _).exec u).symm.trans h1; done)
    | skip
  all_goals
    rw [runTask_task] at h1
    split at h1
    · rename_i hh; right; rw [hh.1]; simp [atExec]
    · left; exact h1

theorem trans_atExec {g g' : G} {l l' : L} {a : Act} (h : Trans P g l a g' l') (u : Nat) (hl : atExec u l) :
    (g.task u).released = true := by
  rcases hl with hl | hl <;> subst hl <;> cases h <;> assumption

theorem relinv_reach (P : Params) : ∀ c, Reach (M P) c → RelInv c := by
  refine inv_of_reach (M P) RelInv ?_ ?_
  · intro u h
    simp [Config.init, M, G.task] at h
  · intro c t a g' l' obs ih hs u h1
    have htr : Trans P c.g (c.l t) a g' l' := step_trans (t := t) hs
    have h1' : (g'.task u).exec = 1 := h1
    show (g'.task u).released = true ∨ ∃ t', atExec u ((⟨g', upd c.l t l'⟩ : Config (M P)).l t')
    rcases trans_exec_one htr u h1' with h0 | h0
    · rcases ih u h0 with hr | ⟨t0, ht0⟩
      · exact Or.inl (trans_released htr u hr)
      · by_cases htt : t0 = t
        · subst htt
          exact Or.inl (trans_released htr u (trans_atExec htr u ht0))
        · exact Or.inr ⟨t0, by
            rw [show (⟨g', upd c.l t l'⟩ : Config (M P)).l t0 = c.l t0 from upd_other _ _ _ _ htt]; exact ht0⟩
    · exact Or.inr ⟨t, by rw [show (⟨g', upd c.l t l'⟩ : Config (M P)).l t = l' from upd_same _ _ _]; exact h0⟩

/-! ## The starvation scheduler -/

open Garr.Props.Pool (P10 lOf gOf)

theorem cfg_l_same (c : Config (M P)) (g' : G) (t : Tid) (l' : L) :
    (⟨g', upd c.l t l'⟩ : Config (M P)).l t = l' := upd_same _ _ _

theorem cfg_l_other (c : Config (M P)) (g' : G) (t t' : Tid) (l' : L) (h : t' ≠ t) :
    (⟨g', upd c.l t l'⟩ : Config (M P)).l t' = c.l t' := upd_other _ _ _ _ h

/-- worker = thread 1, competitor = thread 2, victim = thread 3 (blocked in the send of `Do(1)`), thread 0 = harness -/
def starvePol (c : Config (M P10)) : Tid × Act :=
  match c.l 2, c.l 1 with
  | .idle, .w0 => (2, .callDo .never)
  | .d1 _, _ => (2, .tau)
  | .d2 _, _ => (2, .tau)
  | .push _, .w0 => (1, .tau)
  | .push _, _ => (2, .choose 2)
  | .d9 _, _ => (2, .tau)
  | .idle, .wexec v => if (c.g.task v).released then (1, .tau) else (0, .finish v)
  | .idle, .wsend _ => (1, .tau)
  | _, _ => (0, .tau)

/-- what stays true for ever -/
structure J (c : Config (M P10)) : Prop where
  st : c.g.state = 1
  cl : c.g.closed = false
  wr : c.g.writer = false
  wp : c.g.wpending = false
  cx : c.g.ctxDone = false
  sf : c.g.spawnFixed = 0
  se : c.g.spawnExp = 0
  vic : c.l 3 = .push 1
  vctx : (c.g.task 1).ctx = .never
  oth : ∀ t, t ≠ 1 → t ≠ 2 → t ≠ 3 → c.l t = .idle

theorem J.step {c : Config (M P10)} (hJ : J c) (hp : PInv P10 c) {t : Tid} {a : Act} {g' : G} {l' : L}
    (htr : Trans P10 c.g (c.l t) a g' l')
    (h1 : g'.state = c.g.state) (h2 : g'.closed = c.g.closed) (h3 : g'.writer = c.g.writer)
    (h4 : g'.wpending = c.g.wpending) (h5 : g'.ctxDone = c.g.ctxDone) (h6 : g'.spawnFixed = c.g.spawnFixed)
    (h7 : g'.spawnExp = c.g.spawnExp) (ht : t = 1 ∨ t = 2 ∨ (t = 0 ∧ l' = .idle)) :
    J (⟨g', upd c.l t l'⟩ : Config (M P10)) := by
  have hlen : 1 < c.g.tasks.length := (hp.task.ok 1).len (Or.inr ⟨3, .pre, by rw [hJ.vic]; rfl⟩)
  refine ⟨h1.trans hJ.st, h2.trans hJ.cl, h3.trans hJ.wr, h4.trans hJ.wp, h5.trans hJ.cx, h6.trans hJ.sf,
    h7.trans hJ.se, ?_, (trans_ctx htr 1 hlen).trans hJ.vctx, ?_⟩
  · have h3 : (3 : Nat) ≠ t := by rcases ht with h | h | ⟨h, _⟩ <;> subst h <;> decide
    rw [cfg_l_other _ _ _ _ _ h3]; exact hJ.vic
  · intro t' a1 a2 a3
    by_cases htt : t' = t
    · subst htt
      rcases ht with h | h | ⟨_, h⟩
      · exact absurd h a1
      · exact absurd h a2
      · rw [cfg_l_same]; exact h
    · rw [cfg_l_other _ _ _ _ _ htt]; exact hJ.oth t' a1 a2 a3

/-- the nine phases of a round -/
def PhaseAt (c : Config (M P10)) : Nat → Prop
  | 0 => c.l 1 = .w0 ∧ c.l 2 = .idle ∧ c.g.q ≠ []
  | 1 => c.l 1 = .w0 ∧ (∃ w, c.l 2 = .d1 w) ∧ c.g.q ≠ []
  | 2 => c.l 1 = .w0 ∧ (∃ w, c.l 2 = .d2 w) ∧ c.g.q ≠ []
  | 3 => c.l 1 = .w0 ∧ (∃ w, c.l 2 = .push w) ∧ c.g.q ≠ []
  | 4 => (∃ v, c.l 1 = .wexec v) ∧ (∃ w, c.l 2 = .push w) ∧ c.g.q = []
  | 5 => (∃ v, c.l 1 = .wexec v) ∧ (∃ w, c.l 2 = .d9 w) ∧ c.g.q ≠ []
  | 6 => (∃ v, c.l 1 = .wexec v ∧ (c.g.task v).released = false) ∧ c.l 2 = .idle ∧ c.g.q ≠ []
  | 7 => (∃ v, c.l 1 = .wexec v ∧ (c.g.task v).released = true) ∧ c.l 2 = .idle ∧ c.g.q ≠ []
  | 8 => (∃ v, c.l 1 = .wsend v) ∧ c.l 2 = .idle ∧ c.g.q ≠ []
  | _ => False

abbrev snext (c : Config (M P10)) : Config (M P10) := polNext starvePol c
abbrev smover (c : Config (M P10)) : Option (Tid × Act) := polMover starvePol c

theorem T0 {c : Config (M P10)} (hJ : J c) (hp : PInv P10 c) (h : PhaseAt c 0) :
    J (snext c) ∧ PhaseAt (snext c) 1 ∧ smover c = some (2, .callDo .never) := by
  obtain ⟨h1, h2, hq⟩ := h
  have hpol : starvePol c = (2, .callDo .never) := by simp [starvePol, h1, h2]
  have htr : Trans P10 c.g (c.l 2) (.callDo .never) (newTask c.g .never) (.d1 c.g.tasks.length) := by
    rw [h2]; exact Trans.callDo _ _
  obtain ⟨hn, hm⟩ := pol_of_trans hpol htr
  rw [snext, hn]
  refine ⟨hJ.step hp htr rfl rfl rfl rfl rfl rfl rfl (Or.inr (Or.inl rfl)), And.intro ?_ (And.intro ⟨_, cfg_l_same _ _ _ _⟩ hq), hm⟩
  rw [cfg_l_other _ _ _ _ _ (by decide)]; exact h1

theorem T1 {c : Config (M P10)} (hJ : J c) (hp : PInv P10 c) (h : PhaseAt c 1) :
    J (snext c) ∧ PhaseAt (snext c) 2 ∧ smover c = some (2, .tau) := by
  obtain ⟨h1, ⟨w, h2⟩, hq⟩ := h
  have hpol : starvePol c = (2, .tau) := by simp [starvePol, h1, h2]
  have htr : Trans P10 c.g (c.l 2) .tau { c.g with readers := c.g.readers + 1 } (.d2 w) := by
    rw [h2]; exact Trans.d1 _ w hJ.wr hJ.wp
  obtain ⟨hn, hm⟩ := pol_of_trans hpol htr
  rw [snext, hn]
  refine ⟨hJ.step hp htr rfl rfl rfl rfl rfl rfl rfl (Or.inr (Or.inl rfl)), And.intro ?_ (And.intro ⟨_, cfg_l_same _ _ _ _⟩ hq), hm⟩
  rw [cfg_l_other _ _ _ _ _ (by decide)]; exact h1

theorem T2 {c : Config (M P10)} (hJ : J c) (hp : PInv P10 c) (h : PhaseAt c 2) :
    J (snext c) ∧ PhaseAt (snext c) 3 ∧ smover c = some (2, .tau) := by
  obtain ⟨h1, ⟨w, h2⟩, hq⟩ := h
  have hpol : starvePol c = (2, .tau) := by simp [starvePol, h1, h2]
  have htr : Trans P10 c.g (c.l 2) .tau c.g (.push w) := by
    rw [h2]; exact Trans.d2push _ w (by rw [hJ.st]; decide) rfl
  obtain ⟨hn, hm⟩ := pol_of_trans hpol htr
  rw [snext, hn]
  refine ⟨hJ.step hp htr rfl rfl rfl rfl rfl rfl rfl (Or.inr (Or.inl rfl)), And.intro ?_ (And.intro ⟨_, cfg_l_same c c.g _ _⟩ hq), hm⟩
  rw [cfg_l_other c c.g _ _ _ (by decide)]; exact h1

theorem T3 {c : Config (M P10)} (hJ : J c) (hp : PInv P10 c) (h : PhaseAt c 3) :
    J (snext c) ∧ PhaseAt (snext c) 4 ∧ smover c = some (1, .tau) := by
  obtain ⟨h1, ⟨w, h2⟩, hq⟩ := h
  have hpol : starvePol c = (1, .tau) := by simp [starvePol, h1, h2]
  obtain ⟨v, rest, hv⟩ : ∃ v rest, c.g.q = v :: rest := by
    cases hh : c.g.q with
    | nil => exact absurd hh hq
    | cons v rest => exact ⟨v, rest, rfl⟩
  have hrest : rest = [] := q_singleton hp.task.qlen hv
  have htr : Trans P10 c.g (c.l 1) .tau (runTask c.g v rest) (.wexec v) := by
    rw [h1]; exact Trans.w0take _ v rest hv
  obtain ⟨hn, hm⟩ := pol_of_trans hpol htr
  rw [snext, hn]
  refine ⟨hJ.step hp htr rfl rfl rfl rfl rfl rfl rfl (Or.inl rfl), And.intro ⟨_, cfg_l_same _ _ _ _⟩ (And.intro ⟨w, ?_⟩ hrest), hm⟩
  rw [cfg_l_other _ _ _ _ _ (by decide)]; exact h2

theorem T4 {c : Config (M P10)} (hJ : J c) (hp : PInv P10 c) (h : PhaseAt c 4) :
    J (snext c) ∧ PhaseAt (snext c) 5 ∧ smover c = some (2, .choose 2) := by
  obtain ⟨⟨v, h1⟩, ⟨w, h2⟩, hq⟩ := h
  have hpol : starvePol c = (2, .choose 2) := by simp [starvePol, h1, h2]
  have htr : Trans P10 c.g (c.l 2) (.choose 2) (enqueue c.g w) (.d9 w) := by
    rw [h2]; exact Trans.pushEnq _ w hJ.cl hq
  obtain ⟨hn, hm⟩ := pol_of_trans hpol htr
  rw [snext, hn]
  refine ⟨hJ.step hp htr rfl rfl rfl rfl rfl rfl rfl (Or.inr (Or.inl rfl)), And.intro ⟨v, ?_⟩ (And.intro ⟨_, cfg_l_same _ _ _ _⟩ ?_), hm⟩
  · rw [cfg_l_other _ _ _ _ _ (by decide)]; exact h1
  · show (enqueue c.g w).q ≠ []
    simp [enqueue]

theorem T5 {c : Config (M P10)} (hJ : J c) (hp : PInv P10 c) (h : PhaseAt c 5) :
    J (snext c) ∧ (PhaseAt (snext c) 6 ∨ PhaseAt (snext c) 7) ∧ smover c = some (2, .tau) := by
  obtain ⟨⟨v, h1⟩, ⟨w, h2⟩, hq⟩ := h
  have hpol : starvePol c = (2, .tau) := by simp [starvePol, h1, h2]
  have htr : Trans P10 c.g (c.l 2) .tau { c.g with readers := c.g.readers - 1 } .idle := by
    rw [h2]; exact Trans.d9 _ w
  obtain ⟨hn, hm⟩ := pol_of_trans hpol htr
  rw [snext, hn]
  have hl1 : (⟨{ c.g with readers := c.g.readers - 1 }, upd c.l 2 .idle⟩ : Config (M P10)).l 1 = .wexec v := by
    rw [cfg_l_other _ _ _ _ _ (by decide)]; exact h1
  refine ⟨hJ.step hp htr rfl rfl rfl rfl rfl rfl rfl (Or.inr (Or.inl rfl)), ?_, hm⟩
  cases hr : (c.g.task v).released with
  | false => exact Or.inl (And.intro ⟨v, hl1, hr⟩ (And.intro (cfg_l_same _ _ _ _) hq))
  | true => exact Or.inr (And.intro ⟨v, hl1, hr⟩ (And.intro (cfg_l_same _ _ _ _) hq))

theorem T6 {c : Config (M P10)} (hJ : J c) (hp : PInv P10 c) (h : PhaseAt c 6) :
    J (snext c) ∧ PhaseAt (snext c) 7 := by
  obtain ⟨⟨v, h1, hr⟩, h2, hq⟩ := h
  have hpol : starvePol c = (0, .finish v) := by simp [starvePol, h1, h2, hr]
  have h0 : c.l 0 = .idle := hJ.oth 0 (by decide) (by decide) (by decide)
  have htr : Trans P10 c.g (c.l 0) (.finish v) (c.g.setTask v { c.g.task v with released := true }) .idle := by
    rw [h0]; exact Trans.finish _ v hr
  have hlen : v < c.g.tasks.length := (hp.task.ok v).len (Or.inr ⟨1, .run, by rw [h1]; rfl⟩)
  obtain ⟨hn, hm⟩ := pol_of_trans hpol htr
  rw [snext, hn]
  have hs : ∀ (g : G) (x : Task), v < g.tasks.length → (g.setTask v x).task v = x := fun g x h => by
    rw [setTask_task, if_pos ⟨rfl, h⟩]
  refine ⟨hJ.step hp htr rfl rfl rfl rfl rfl rfl rfl (Or.inr (Or.inr ⟨rfl, rfl⟩)), And.intro ⟨v, ?_, ?_⟩ (And.intro ?_ hq)⟩
  · rw [cfg_l_other _ _ _ _ _ (by decide)]; exact h1
  · exact congrArg Task.released (hs c.g _ hlen)
  · rw [cfg_l_other _ _ _ _ _ (by decide)]; exact h2

theorem T7 {c : Config (M P10)} (hJ : J c) (hp : PInv P10 c) (h : PhaseAt c 7) :
    J (snext c) ∧ PhaseAt (snext c) 8 ∧ smover c = some (1, .tau) := by
  obtain ⟨⟨v, h1, hr⟩, h2, hq⟩ := h
  have hpol : starvePol c = (1, .tau) := by simp [starvePol, h1, h2, hr]
  have htr : Trans P10 c.g (c.l 1) .tau c.g (.wsend v) := by
    rw [h1]; exact Trans.wexec _ v hr
  obtain ⟨hn, hm⟩ := pol_of_trans hpol htr
  rw [snext, hn]
  refine ⟨hJ.step hp htr rfl rfl rfl rfl rfl rfl rfl (Or.inl rfl), And.intro ⟨v, cfg_l_same c c.g _ _⟩ (And.intro ?_ hq), hm⟩
  rw [cfg_l_other c c.g _ _ _ (by decide)]; exact h2

theorem T8 {c : Config (M P10)} (hJ : J c) (hp : PInv P10 c) (h : PhaseAt c 8) :
    J (snext c) ∧ PhaseAt (snext c) 0 ∧ smover c = some (1, .tau) := by
  obtain ⟨⟨v, h1⟩, h2, hq⟩ := h
  have hpol : starvePol c = (1, .tau) := by simp [starvePol, h1, h2]
  have hres : (c.g.task v).results = [] := ((hp.task.ok v).run 1 (by rw [h1]; rfl)).2.2
  have htr : Trans P10 c.g (c.l 1) .tau (c.g.send v .val) .w0 := by
    rw [h1]; exact Trans.wsend _ v hres
  obtain ⟨hn, hm⟩ := pol_of_trans hpol htr
  rw [snext, hn]
  refine ⟨hJ.step hp htr rfl rfl rfl rfl rfl rfl rfl (Or.inl rfl), And.intro (cfg_l_same _ _ _ _) (And.intro ?_ hq), hm⟩
  rw [cfg_l_other _ _ _ _ _ (by decide)]; exact h2

theorem starve_step {c : Config (M P10)} (hJ : J c) (hp : PInv P10 c) {k : Nat} (hk : PhaseAt c k) :
    J (snext c) ∧ ∃ k', PhaseAt (snext c) k' ∧ ((k = 8 ∧ k' = 0) ∨ k < k') :=
  match k, hk with
  | 0, hk => let ⟨a, b, _⟩ := T0 hJ hp hk; ⟨a, 1, b, Or.inr (by decide)⟩
  | 1, hk => let ⟨a, b, _⟩ := T1 hJ hp hk; ⟨a, 2, b, Or.inr (by decide)⟩
  | 2, hk => let ⟨a, b, _⟩ := T2 hJ hp hk; ⟨a, 3, b, Or.inr (by decide)⟩
  | 3, hk => let ⟨a, b, _⟩ := T3 hJ hp hk; ⟨a, 4, b, Or.inr (by decide)⟩
  | 4, hk => let ⟨a, b, _⟩ := T4 hJ hp hk; ⟨a, 5, b, Or.inr (by decide)⟩
  | 5, hk => by
    obtain ⟨a, b | b, _⟩ := T5 hJ hp hk
    · exact ⟨a, 6, b, Or.inr (by decide)⟩
    · exact ⟨a, 7, b, Or.inr (by decide)⟩
  | 6, hk => let ⟨a, b⟩ := T6 hJ hp hk; ⟨a, 7, b, Or.inr (by decide)⟩
  | 7, hk => let ⟨a, b, _⟩ := T7 hJ hp hk; ⟨a, 8, b, Or.inr (by decide)⟩
  | 8, hk => let ⟨a, b, _⟩ := T8 hJ hp hk; ⟨a, 0, b, Or.inl ⟨rfl, rfl⟩⟩
  | _ + 9, hk => hk.elim

/-- the set-up: `Start`, the worker, `Do(0)` queued, the victim's `Do(1)` at its send -/
def starveSetup : List (Tid × Act) :=
  [ (0, .callStart), (0, .tau), (0, .tau), (0, .tau), (0, .tau), (1, .beFixed),
    (2, .callDo .never), (2, .tau), (2, .tau), (2, .choose 2), (2, .tau),
    (3, .callDo .never), (3, .tau), (3, .tau) ]

def starveInit : Config (M P10) := schedCfg P10 starveSetup 14

theorem starveInit_reach : Reach (M P10) starveInit := reach_run _ _ Reach.init _

theorem starveInit_J : J starveInit := by
  have hsup : Support 4 starveInit.l :=
    run_support (M P10) (starveSetup.take 14) 4 _ (fun _ _ => rfl) (by decide)
  refine ⟨by decide, by decide, by decide, by decide, by decide, by decide, by decide,
    (by decide : lOf P10 starveInit 3 = L.push 1), by decide, ?_⟩
  intro t a b c
  match t, a, b, c with
  | 0, _, _, _ => exact (by decide : lOf P10 starveInit 0 = L.idle)
  | 1, a, _, _ => exact absurd rfl a
  | 2, _, b, _ => exact absurd rfl b
  | 3, _, _, c => exact absurd rfl c
  | t + 4, _, _, _ => exact hsup (t + 4) (Nat.le_add_left 4 t)

theorem starveInit_phase : PhaseAt starveInit 0 :=
  And.intro (by decide : lOf P10 starveInit 1 = L.w0)
    (And.intro (by decide : lOf P10 starveInit 2 = L.idle) (by decide : (gOf P10 starveInit).q ≠ []))

/-- the starvation execution -/
def starveExec : Exec P10 := Exec.ofPolicy starvePol starveInit starveInit_reach

theorem starveExec_succ (n : Nat) : starveExec.c (n + 1) = snext (starveExec.c n) := rfl
theorem starveExec_mover (n : Nat) : starveExec.mover n = smover (starveExec.c n) := rfl

theorem starve_inv : ∀ n, J (starveExec.c n) ∧ ∃ k, PhaseAt (starveExec.c n) k := by
  intro n
  induction n with
  | zero => exact ⟨starveInit_J, 0, starveInit_phase⟩
  | succ n ih =>
    obtain ⟨hJ, k, hk⟩ := ih
    obtain ⟨a, k', b, _⟩ := starve_step hJ (starveExec.pinv n) hk
    exact ⟨a, k', b⟩

/-- every round comes back to its start -/
theorem starve_recurs : ∀ d n k, PhaseAt (starveExec.c n) k → 9 ≤ k + d →
    ∃ m, n ≤ m ∧ PhaseAt (starveExec.c m) 0 := by
  intro d
  induction d with
  | zero =>
    intro n k hk hd
    obtain ⟨j, rfl⟩ : ∃ j, k = j + 9 := ⟨k - 9, by omega⟩
    exact hk.elim
  | succ d ih =>
    intro n k hk hd
    by_cases h0 : k = 0
    · subst h0; exact ⟨n, Nat.le_refl _, hk⟩
    · obtain ⟨_, k', b, hor⟩ := starve_step (starve_inv n).1 (starveExec.pinv n) hk
      rcases hor with ⟨_, rfl⟩ | hlt
      · exact ⟨n + 1, by omega, b⟩
      · obtain ⟨m, hm, h⟩ := ih (n + 1) k' b (by omega)
        exact ⟨m, by omega, h⟩

theorem starve_phase0 (n : Nat) : ∃ m, n ≤ m ∧ PhaseAt (starveExec.c m) 0 := by
  obtain ⟨k, hk⟩ := (starve_inv n).2
  exact starve_recurs 9 n k hk (by omega)

theorem idle_not_enabled {c : Config (M P)} {t : Tid} (h : c.l t = .idle) : ¬ EnabledInt c t := by
  rintro ⟨a, g', l', obs, ha, hs⟩
  have htr := step_trans (t := t) hs
  rw [h] at htr
  cases htr <;> simp [isInt] at ha

theorem victim_disabled {c : Config (M P10)} (hJ : J c) (hq : c.g.q ≠ []) : ¬ EnabledInt c 3 := by
  rintro ⟨a, g', l', obs, ha, hs⟩
  have htr := step_trans (t := 3) hs
  rw [hJ.vic] at htr
  have h1 := hJ.cx
  have h2 := hJ.cl
  have h3 : taskCtxDone c.g 1 = false := by unfold taskCtxDone; rw [hJ.vctx]
  cases htr <;> simp_all

theorem weakFair_of_disabled (e : Exec P) (t : Tid) (h : ∀ n, ∃ m, n ≤ m ∧ ¬ EnabledInt (e.c m) t) : WeakFair e t := by
  intro n hen
  obtain ⟨m, hm, hne⟩ := h n
  exact absurd (hen m hm) hne

/-- the worker takes a task in every round -/
theorem starve_worker_moves (n : Nat) : ∃ m, n ≤ m ∧ starveExec.mover m = some (1, .tau) := by
  obtain ⟨m, hm, h0⟩ := starve_phase0 n
  obtain ⟨_, p1, _⟩ := T0 (starve_inv m).1 (starveExec.pinv m) h0
  have q1 : PhaseAt (starveExec.c (m + 1)) 1 := p1
  obtain ⟨_, p2, _⟩ := T1 (starve_inv (m + 1)).1 (starveExec.pinv (m + 1)) q1
  have q2 : PhaseAt (starveExec.c (m + 2)) 2 := p2
  obtain ⟨_, p3, _⟩ := T2 (starve_inv (m + 2)).1 (starveExec.pinv (m + 2)) q2
  have q3 : PhaseAt (starveExec.c (m + 3)) 3 := p3
  obtain ⟨_, _, hmv⟩ := T3 (starve_inv (m + 3)).1 (starveExec.pinv (m + 3)) q3
  exact ⟨m + 3, by omega, hmv⟩

theorem starve_fair : Fair starveExec := by
  intro t
  by_cases h1 : t = 1
  · subst h1
    intro n _
    obtain ⟨m, hm, hmv⟩ := starve_worker_moves n
    exact ⟨m, .tau, hm, hmv, rfl⟩
  · refine weakFair_of_disabled _ t (fun n => ?_)
    obtain ⟨m, hm, h0⟩ := starve_phase0 n
    have hJ := (starve_inv m).1
    refine ⟨m, hm, ?_⟩
    by_cases h2 : t = 2
    · subst h2; exact idle_not_enabled h0.2.1
    · by_cases h3 : t = 3
      · subst h3; exact victim_disabled hJ h0.2.2
      · exact idle_not_enabled (hJ.oth t h1 h2 h3)

theorem starve_releases : EnvReleases starveExec := by
  intro n u hx
  obtain ⟨m, hm, h0⟩ := starve_phase0 n
  have hJ := (starve_inv m).1
  refine ⟨m, hm, ?_⟩
  have hle := (starveExec.taskMono hm).exec u
  have hle1 := ((starveExec.pinv m).task.ok u).exec_le
  have hx1 : ((starveExec.c m).g.task u).exec = 1 := by omega
  rcases relinv_reach P10 _ (starveExec.reach m) u hx1 with h | ⟨t, ht⟩
  · exact h
  · exfalso
    have hl : (starveExec.c m).l t = .w0 ∨ (starveExec.c m).l t = .idle ∨ (starveExec.c m).l t = .push 1 := by
      by_cases h1 : t = 1
      · subst h1; exact Or.inl h0.1
      · by_cases h2 : t = 2
        · subst h2; exact Or.inr (Or.inl h0.2.1)
        · by_cases h3 : t = 3
          · subst h3; exact Or.inr (Or.inr hJ.vic)
          · exact Or.inr (Or.inl (hJ.oth t h1 h2 h3))
    rcases hl with hl | hl | hl <;> rw [hl] at ht <;> rcases ht with ht | ht <;> cases ht

theorem starve_starts : EnvStarts starveExec := by
  refine ⟨fun n h => ?_, fun n h => ?_⟩
  · have := (starve_inv n).1.sf; omega
  · have := (starve_inv n).1.se; omega

end Garr.Pool.Fair
