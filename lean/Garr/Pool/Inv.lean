import Garr.Pool.Tasks
/-!
# Invariants of the worker-pool model

`PInv` = lock / state-machine discipline (`LockInv`, `WInv`, `Sp1Inv`, file `Lock.lean`), counter meaning (`CountInv`), task
ownership and exactly-once bookkeeping (`TaskInv`, file `Tasks.lean`), and what holds once the `Stop` caller is past
`wg.Wait()` (`WaitInv`) or has returned (`StopInv`).  `pinv_reach` lifts it to every reachable configuration.

`Start` holds the read side of `submitLock` from before its CAS until after `wg.Add` + spawning (commit eaca25b), so
the `Stop` caller cannot take the write lock — and hence cannot reach `wg.Wait()` — while a `Start` is between its CAS
and its `wg.Add`: a thread at `st1` sees the queue open (`inner`), exactly like a submitter past `stopped()`.
For the code before that fix see `Garr/Pool/OldStartRace.lean`.
-/
namespace Garr.Pool
open Garr.Conc

/-! ## After `Stop` returned -/

/-- once the winning `Stop` caller has returned, the queue is closed and empty -/
def StopInv (g : G) (ls : Tid → L) : Prop :=
  g.state = 2 → (∀ t, stopper (ls t) = false) → g.q = [] ∧ g.closed = true

theorem StopInv.preserve {g g' : G} {ls : Tid → L} {t : Tid} {l' : L} (h : StopInv g ls)
    (hs : g'.state = 2 → g.state = 2 ∨ stopper l' = true)
    (hstop : stopper (ls t) = true → stopper l' = true ∨ (g'.q = [] ∧ g'.closed = true))
    (hq : g.state = 2 → g.q = [] → g.closed = true → stopper (ls t) = false → g'.q = [] ∧ g'.closed = true) :
    StopInv g' (upd ls t l') := by
  intro hs' hno
  have hl' : stopper l' = false := by have := hno t; rwa [upd_same] at this
  have hst : g.state = 2 := by
    rcases hs hs' with h | h
    · exact h
    · rw [hl'] at h; cases h
  cases hold : stopper (ls t) with
  | true =>
    rcases hstop hold with h | h
    · rw [hl'] at h; cases h
    · exact h
  | false =>
    have hall : ∀ a, stopper (ls a) = false := by
      intro a
      by_cases ha : a = t
      · rw [ha]; exact hold
      · have := hno a; rwa [upd_other _ _ _ _ ha] at this
    obtain ⟨a, b⟩ := h hst hall
    exact hq hst a b hold

theorem StopInv.step {P : Params} {g g' : G} {ls : Tid → L} {t : Tid} {l : L} {a : Act} {l' : L}
    (hlock : LockInv g ls) (hinv : StopInv g ls) (hl : ls t = l) (h : Trans P g l a g' l') :
    StopInv g' (upd ls t l') := by
  have hin := hlock.inner_open t
  have hpre := hlock.preclose t
  have hpost := hlock.postclose t
  cases h
  all_goals
    refine hinv.preserve ?_ ?_ ?_ <;>
    first
    | (simp [hl, stopper]; done)
    | (simp_all [stopper, inner, preClose, postClose]; done)

/-! ## Past `wg.Wait()` -/

def preWait : L → Bool
  | .sp2 | .sp3a | .sp3b | .sp3c | .sp3d | .sp4 => true
  | _ => false

/-- once the winning `Stop` caller is past `wg.Wait()`, the wait group stays at zero -/
def WaitInv (g : G) (ls : Tid → L) : Prop :=
  g.state = 2 → (∀ t, preWait (ls t) = false) → g.wg = 0

theorem stopper_of_preWait {l : L} (h : preWait l = true) : stopper l = true := by
  cases l <;> simp_all [preWait, stopper]

theorem postClose_of_stopper {l : L} (h : stopper l = true) (h' : preWait l = false) : postClose l = true := by
  cases l <;> simp_all [preWait, stopper, postClose]

/-- past `wg.Wait()` the queue is closed -/
theorem closed_of_pastWait {g : G} {ls : Tid → L} (hlock : LockInv g ls) (hstop : StopInv g ls)
    (hs : g.state = 2) (hno : ∀ t, preWait (ls t) = false) : g.closed = true := by
  by_cases hex : ∃ t, stopper (ls t) = true
  · obtain ⟨t, ht⟩ := hex
    exact hlock.postclose t (postClose_of_stopper ht (hno t))
  · have : ∀ t, stopper (ls t) = false := by
      intro t
      cases hh : stopper (ls t) with
      | false => rfl
      | true => exact absurd ⟨t, hh⟩ hex
    exact (hstop hs this).2

theorem WaitInv.preserve {g g' : G} {ls : Tid → L} {t : Tid} {l' : L} (h : WaitInv g ls)
    (hs : g'.state = 2 → g.state = 2 ∨ preWait l' = true)
    (hpw : preWait (ls t) = true → preWait l' = true ∨ g'.wg = 0)
    (hwg : g.state = 2 → (∀ a, preWait (ls a) = false) → g.wg = 0 → g'.wg = 0) :
    WaitInv g' (upd ls t l') := by
  intro hs' hno
  have hl' : preWait l' = false := by have := hno t; rwa [upd_same] at this
  have hst : g.state = 2 := by
    rcases hs hs' with h | h
    · exact h
    · rw [hl'] at h; cases h
  cases hold : preWait (ls t) with
  | true =>
    rcases hpw hold with h | h
    · rw [hl'] at h; cases h
    · exact h
  | false =>
    have hall : ∀ a, preWait (ls a) = false := by
      intro a
      by_cases ha : a = t
      · rw [ha]; exact hold
      · have := hno a; rwa [upd_other _ _ _ _ ha] at this
    exact hwg hst hall (h hst hall)

theorem WaitInv.step {P : Params} {g g' : G} {ls : Tid → L} {t : Tid} {l : L} {a : Act} {l' : L}
    (hlock : LockInv g ls) (hstop : StopInv g ls) (hcount : CountInv P g ls)
    (hinv : WaitInv g ls) (hl : ls t = l) (h : Trans P g l a g' l') : WaitInv g' (upd ls t l') := by
  have hcl := closed_of_pastWait hlock hstop
  have hin := hlock.inner_open t
  have hpre := hlock.preclose t
  obtain ⟨f, e, hf, he, hwg⟩ := hcount.wg
  have p1 := hf.pos t
  have p2 := he.pos t
  cases h
  all_goals first
    | (refine hinv.preserve ?_ ?_ ?_ <;>
        first
        | (simp [hl, preWait]; done)
        | (simp_all [preWait, preClose]; done))
    | skip
  case dspawn u =>
    refine hinv.preserve (fun h => Or.inl h) (by simp [hl, preWait]) ?_
    intro hs hno _
    have h1 := hcl hs hno
    have h2 := hin (by rw [hl]; rfl)
    rw [h1] at h2; cases h2
  case w0done hq hc =>
    refine hinv.preserve (fun h => Or.inl h) (by simp [hl, preWait]) ?_
    intro _ _ h0
    have := p1 (by rw [hl]; rfl)
    simp only [h0] at hwg ⊢
    omega
  case eexit =>
    refine hinv.preserve (fun h => Or.inl h) (by simp [hl, preWait]) ?_
    intro _ _ h0
    have := p2 (by rw [hl]; rfl)
    simp only [h0] at hwg ⊢
    omega
  case st1 =>
    refine hinv.preserve (fun h => Or.inl h) (by simp [hl, preWait]) ?_
    intro hs hno _
    have h1 := hcl hs hno
    have h2 := hin (by rw [hl]; rfl)
    rw [h1] at h2; cases h2

/-! ## The invariant of all reachable configurations -/

structure PInv (P : Params) (c : Config (M P)) : Prop where
  lock : LockInv c.g c.l
  count : CountInv P c.g c.l
  task : TaskInv c.g c.l
  stop : StopInv c.g c.l
  wlock : WInv c.g c.l
  wait : WaitInv c.g c.l
  sp1 : Sp1Inv c.g c.l

theorem pinv_init (P : Params) : PInv P (Config.init (M P)) := by
  refine ⟨?_, ?_, ?_, ?_, ?_, ?_, ?_⟩
  · refine ⟨?_, ?_, ?_, ?_, ?_, ?_, ?_, Counts.init _ rfl, ?_, rfl, ?_⟩ <;>
      simp [Config.init, M, stopper, preClose, postClose, hasW, inner, holdsR]
  · exact ⟨⟨0, 0, Counts.init _ rfl, Counts.init _ rfl, rfl⟩,
      ⟨0, 0, 0, 0, Counts.init _ rfl, Counts.init _ rfl, Counts.init _ rfl, Counts.init _ rfl, rfl, Nat.zero_le _⟩,
      ⟨0, 0, Counts.init _ rfl, Counts.init _ rfl, Or.inl ⟨rfl, Nat.zero_le _⟩, fun _ => rfl⟩⟩
  · refine ⟨by simp [Config.init, M], fun u => ?_⟩
    have ht : (Config.init (M P)).g.task u = { ctx := .never } := by
      simp [Config.init, M, G.task]
    have hr : ∀ t, role ((Config.init (M P)).l t) = none := fun t => rfl
    have hq : (Config.init (M P)).g.q = [] := rfl
    refine ⟨?_, ?_, ?_, ?_, ?_, ?_, ?_, ?_, ?_, ?_⟩ <;> simp [ht, hr, hq]
  · intro h; simp [Config.init, M] at h
  · exact ⟨fun h => by simp [Config.init, M] at h, fun h => by simp [Config.init, M] at h⟩
  · intro h; simp [Config.init, M] at h
  · exact ⟨by simp [Config.init, M], fun t h => by simp [Config.init, M, isSp1] at h⟩

theorem pinv_step {P : Params} (c : Config (M P)) (t : Tid) (a : Act) (g' : G) (l' : L) (obs : List Obs)
    (hinv : PInv P c) (h : (M P).step t c.g (c.l t) a = some (g', l', obs)) : PInv P ⟨g', upd c.l t l'⟩ := by
  have ht : Trans P c.g (c.l t) a g' l' := step_trans (t := t) h
  exact ⟨hinv.lock.step rfl ht, hinv.count.step rfl ht, hinv.task.step rfl ht, hinv.stop.step hinv.lock rfl ht,
    hinv.wlock.step hinv.lock rfl ht, hinv.wait.step hinv.lock hinv.stop hinv.count rfl ht, hinv.sp1.step rfl ht⟩

theorem pinv_reach (P : Params) : ∀ c, Reach (M P) c → PInv P c :=
  inv_of_reach (M P) (PInv P) (pinv_init P) (fun c t a g' l' obs hinv h => pinv_step c t a g' l' obs hinv h)

/-! ## "For ever": monotone ghost fields, refused tasks stay refused -/

/-- `c'` is reachable from `c` -/
inductive Steps (M : Machine) : Config M → Config M → Prop
  | refl (c : Config M) : Steps M c c
  | step {c c' : Config M} {t a g' l' obs} : Steps M c c' → M.step t c'.g (c'.l t) a = some (g', l', obs) →
      Steps M c ⟨g', upd c'.l t l'⟩

theorem Steps.reach {M : Machine} {c c' : Config M} (h : Reach M c) (hs : Steps M c c') : Reach M c' := by
  induction hs with
  | refl => exact h
  | step _ hstep ih => exact Reach.step ih hstep

theorem send_enq (g : G) (u v : Nat) (r : Res) : ((g.send u r).task v).enq = (g.task v).enq := by
  rw [send_task]; split
  · rename_i h; rw [h.1]
  · rfl
theorem send_exec (g : G) (u v : Nat) (r : Res) : ((g.send u r).task v).exec = (g.task v).exec := by
  rw [send_task]; split
  · rename_i h; rw [h.1]
  · rfl
theorem enqueue_exec (g : G) (u v : Nat) : ((enqueue g u).task v).exec = (g.task v).exec := by
  rw [enqueue_task]; split
  · rename_i h; rw [h.1]
  · rfl
theorem enqueue_results (g : G) (u v : Nat) : ((enqueue g u).task v).results = (g.task v).results := by
  rw [enqueue_task]; split
  · rename_i h; rw [h.1]
  · rfl
theorem runTask_enq (g : G) (u v : Nat) (rest : List Nat) : ((runTask g u rest).task v).enq = (g.task v).enq := by
  rw [runTask_task]; split
  · rename_i h; rw [h.1]
  · rfl
theorem runTask_results (g : G) (u v : Nat) (rest : List Nat) :
    ((runTask g u rest).task v).results = (g.task v).results := by
  rw [runTask_task]; split
  · rename_i h; rw [h.1]
  · rfl
theorem newTask_enq (g : G) (c : CtxKind) (v : Nat) : ((newTask g c).task v).enq = (g.task v).enq := by
  rw [newTask_task]; split
  · rename_i h; rw [h, task_default (Nat.le_refl _)]
  · rfl
theorem newTask_exec (g : G) (c : CtxKind) (v : Nat) : ((newTask g c).task v).exec = (g.task v).exec := by
  rw [newTask_task]; split
  · rename_i h; rw [h, task_default (Nat.le_refl _)]
  · rfl
theorem newTask_results (g : G) (c : CtxKind) (v : Nat) : ((newTask g c).task v).results = (g.task v).results := by
  rw [newTask_task]; split
  · rename_i h; rw [h, task_default (Nat.le_refl _)]
  · rfl

/-- the ghost fields of a task only grow -/
structure TaskMono (g g' : G) : Prop where
  len : g.tasks.length ≤ g'.tasks.length
  results : ∀ u r, r ∈ (g.task u).results → r ∈ (g'.task u).results
  exec : ∀ u, (g.task u).exec ≤ (g'.task u).exec
  enq : ∀ u, (g.task u).enq = true → (g'.task u).enq = true

theorem TaskMono.of_same {g g' : G} (h : SameTasks g g') : TaskMono g g' :=
  ⟨by rw [h.len]; exact Nat.le_refl _, fun u r hr => by rw [h.results]; exact hr,
   fun u => by rw [h.exec]; exact Nat.le_refl _, fun u he => by rw [h.enq]; exact he⟩

theorem TaskMono.send {g : G} {u0 : Nat} (x : Res) (h0 : (g.task u0).results = []) : TaskMono g (g.send u0 x) := by
  refine ⟨by simp, fun u r hr => ?_, fun u => by rw [send_exec]; exact Nat.le_refl _, fun u he => by rw [send_enq]; exact he⟩
  rw [send_task]; split
  · rename_i h; rw [h.1, h0] at hr; cases hr
  · exact hr

theorem TaskMono.enqueue (g : G) (u0 : Nat) : TaskMono g (enqueue g u0) := by
  refine ⟨by simp, fun u r hr => by rw [enqueue_results]; exact hr, fun u => by rw [enqueue_exec]; exact Nat.le_refl _,
    fun u he => ?_⟩
  rw [enqueue_task]; split
  · rfl
  · exact he

theorem TaskMono.runTask (g : G) (u0 : Nat) (rest : List Nat) : TaskMono g (runTask g u0 rest) := by
  refine ⟨by simp, fun u r hr => by rw [runTask_results]; exact hr, fun u => ?_, fun u he => by rw [runTask_enq]; exact he⟩
  rw [runTask_task]; split
  · rename_i h; rw [h.1]; exact Nat.le_succ _
  · exact Nat.le_refl _

theorem TaskMono.newTask (g : G) (c : CtxKind) : TaskMono g (newTask g c) :=
  ⟨by simp, fun u r hr => by rw [newTask_results]; exact hr, fun u => by rw [newTask_exec]; exact Nat.le_refl _,
   fun u he => by rw [newTask_enq]; exact he⟩

theorem TaskMono.step {P : Params} {g g' : G} {l : L} {a : Act} {l' : L} (h : Trans P g l a g' l') : TaskMono g g' := by
  cases h
  all_goals first
    | exact TaskMono.of_same (SameTasks.of_tasks rfl)
    | exact TaskMono.of_same (SameTasks.cancel _ _)
    | exact TaskMono.of_same (SameTasks.finish _ _)
    | exact TaskMono.newTask _ _
    | exact TaskMono.enqueue _ _
    | exact TaskMono.runTask _ _ _
    | (exact TaskMono.send _ (by assumption))

theorem TaskMono.refl (g : G) : TaskMono g g := TaskMono.of_same (SameTasks.of_tasks rfl)

theorem TaskMono.trans {a b c : G} (h1 : TaskMono a b) (h2 : TaskMono b c) : TaskMono a c :=
  ⟨Nat.le_trans h1.len h2.len, fun u r hr => h2.results u r (h1.results u r hr),
   fun u => Nat.le_trans (h1.exec u) (h2.exec u), fun u he => h2.enq u (h1.enq u he)⟩

theorem TaskMono.steps {P : Params} {c c' : Config (M P)} (h : Steps (M P) c c') : TaskMono c.g c'.g := by
  induction h with
  | refl => exact TaskMono.refl _
  | @step c' t a g' l' obs _ hstep ih => exact ih.trans (TaskMono.step (step_trans (t := t) hstep))

/-- task `u` exists, was never put into the queue, and no submitter is still working on it -/
def Refused (g : G) (ls : Tid → L) (u : Nat) : Prop :=
  u < g.tasks.length ∧ (g.task u).enq = false ∧ ∀ t, role (ls t) ≠ some (.pre, u)

theorem Refused.preserve {g g' : G} {ls : Tid → L} {t : Tid} {l' : L} {u : Nat} (hr : Refused g ls u)
    (h1 : g.tasks.length ≤ g'.tasks.length) (h2 : (g'.task u).enq = (g.task u).enq)
    (h3 : role l' = some (.pre, u) → role (ls t) = some (.pre, u)) : Refused g' (upd ls t l') u := by
  refine ⟨Nat.lt_of_lt_of_le hr.1 h1, by rw [h2]; exact hr.2.1, fun a => ?_⟩
  rcases upd_eq_or ls t l' a with ⟨_, ea⟩ | ⟨_, ea⟩ <;> rw [ea]
  · exact fun h => hr.2.2 t (h3 h)
  · exact hr.2.2 a

theorem Refused.step {P : Params} {g g' : G} {ls : Tid → L} {t : Tid} {l : L} {a : Act} {l' : L} {u : Nat}
    (hr : Refused g ls u) (hl : ls t = l) (h : Trans P g l a g' l') : Refused g' (upd ls t l') u := by
  have hlt := hr.1
  have hno := hr.2.2 t
  cases h
  all_goals refine hr.preserve ?_ ?_ ?_
  all_goals first
    | exact Nat.le_refl _
    | rfl
    | exact (SameTasks.cancel _ _).enq _
    | exact (SameTasks.finish _ _).enq _
    | exact send_enq _ _ _ _
    | exact runTask_enq _ _ _ _
    | exact newTask_enq _ _ _
    | (simp [hl, role]; done)
    | (simp [hl, role]; omega)
    | skip
  all_goals
    rename_i u0 _ _
    have hne : u ≠ u0 := by
      intro e; rw [hl, e] at hno; exact hno rfl
    rw [enqueue_task]; simp [hne]

theorem Refused.steps {P : Params} {c c' : Config (M P)} {u : Nat} (hr : Refused c.g c.l u)
    (h : Steps (M P) c c') : Refused c'.g c'.l u := by
  induction h with
  | refl => exact hr
  | @step c' t a g' l' obs _ hstep ih => exact ih.step rfl (step_trans (t := t) hstep)

/-- a refused task has not been executed -/
theorem Refused.exec {g : G} {ls : Tid → L} {u : Nat} (hr : Refused g ls u) (hinv : TaskInv g ls) :
    (g.task u).exec = 0 := by
  have h1 := (hinv.ok u).exec_le
  have h2 := (hinv.ok u).exec_one
  cases hx : (g.task u).exec with
  | zero => rfl
  | succ n =>
    have : (g.task u).exec = 1 := by omega
    have := (h2 this).1
    rw [hr.2.1] at this; cases this

end Garr.Pool
