import Garr.Pool.Inv
/-!
# Worker-pool model: progress lemmas (stuck states, internal steps, ranking function)

* `internal` – the steps the pool takes on its own: `tau`, `choose k`, and a spawned goroutine starting to run
  (`beFixed`, `beExp`).  Everything else is the environment (new calls, `finish`, cancellation, time).
* `Stuck c` – no thread has an enabled internal step.  `blockedAt g l` is the exact local guard under which a thread at
  program counter `l` has no internal step (`stuck_blocked`, `blocked_stuck`).
* extra invariants: finite support (`Support`), `CtxInv` (once the winning `Stop` caller is past `cancel()` the pool
  context is done), `FullInv` (a started, not yet closed pool has all its `NumberWorker` fixed workers).
* `rank` / `pot` – a ranking function that every internal step decreases (`pot_step`).
-/
namespace Garr.Pool.Progress
open Garr.Conc Garr.Pool

variable {P : Params}

/-! ## Internal steps, stuck configurations -/

/-- steps that the pool takes on its own (no new call, no `finish`, no cancellation, no passing of time) -/
def internal : Act → Bool
  | .tau | .choose _ | .beFixed | .beExp => true
  | _ => false

/-- no thread has an enabled internal step (for an arbitrary step function over the pool's state space) -/
def StuckStep (stp : Tid → G → L → Act → Option (G × L × List Obs)) (g : G) (ls : Tid → L) : Prop :=
  ∀ t a, internal a = true → stp t g (ls t) a = none

/-- no thread has an enabled internal step -/
def Stuck (c : Config (M P)) : Prop := StuckStep (step P) c.g c.l

/-- the local guard under which a thread at `l` has no internal step (given the invariants: result channels of owned
tasks are empty, nobody has panicked) -/
def blockedAt (g : G) : L → Bool
  | .idle => decide (g.spawnFixed = 0) && decide (g.spawnExp = 0)
  | .d1 _ | .st0 | .sp3a => g.writer || g.wpending
  | .push u => !g.ctxDone && !taskCtxDone g u && !g.closed && !g.q.isEmpty
  | .w0 => g.q.isEmpty && !g.closed
  | .wexec u | .eexec u => !(g.task u).released
  | .e0 dl => g.q.isEmpty && !g.closed && decide (g.now < dl)
  | .sp3b => decide (g.readers ≠ 0)
  | .sp4 => decide (g.wg ≠ 0)
  | .exited | .panicked => true
  | _ => false

theorem isEmpty_false_iff {α} (l : List α) : l.isEmpty = false ↔ l ≠ [] := by
  cases l <;> simp

/-- `blockedAt` is sufficient for having no internal step (no invariant needed) -/
theorem blocked_stuck {g : G} {ls : Tid → L} (h : ∀ t, blockedAt g (ls t) = true) : StuckStep (step P) g ls := by
  intro t a ha
  cases hs : step P t g (ls t) a with
  | none => rfl
  | some r =>
    obtain ⟨g', l', obs⟩ := r
    have ht := step_trans hs
    have hb := h t
    generalize ls t = l at ht hb
    clear hs h
    cases ht <;> simp [internal] at ha <;> simp_all [blockedAt]
    omega

theorem Stuck.no_trans {c : Config (M P)} (hs : Stuck c) {t : Tid} {l : L} {a : Act} {g' : G} {l' : L}
    (hl : c.l t = l) (ht : Trans P c.g l a g' l') (ha : internal a = true) : False := by
  obtain ⟨obs, hstep⟩ := trans_step t ht
  have := hs t a ha
  rw [hl] at this
  rw [this] at hstep
  cases hstep

/-- a thread without an enabled internal step sits at a program counter whose guard is false -/
theorem thread_blocked {c : Config (M P)} (hinv : PInv P c) (t : Tid)
    (hs : ∀ a, internal a = true → step P t c.g (c.l t) a = none) : blockedAt c.g (c.l t) = true := by
  have hpre : ∀ u, role (c.l t) = some (.pre, u) → (c.g.task u).results = [] :=
    fun u hr => ((hinv.task.ok u).pre t hr).2.2
  have hrun : ∀ u, role (c.l t) = some (.run, u) → (c.g.task u).results = [] :=
    fun u hr => ((hinv.task.ok u).run t hr).2.2
  have hdrain : ∀ u, role (c.l t) = some (.drain, u) → (c.g.task u).results = [] :=
    fun u hr => ((hinv.task.ok u).drain t hr).2.2.1
  have nt : ∀ {a g' l'}, Trans P c.g (c.l t) a g' l' → internal a = true → False := by
    intro a g' l' h ha
    obtain ⟨obs, hstep⟩ := trans_step t h
    rw [hs a ha] at hstep
    cases hstep
  generalize c.l t = l at hpre hrun hdrain nt
  generalize c.g = g at hpre hrun hdrain nt
  cases l with
  | idle =>
    simp only [blockedAt, Bool.and_eq_true, decide_eq_true_eq]
    refine ⟨?_, ?_⟩
    · cases h : g.spawnFixed with
      | zero => rfl
      | succ n => exact (nt (Trans.beFixed g (by omega)) rfl).elim
    · cases h : g.spawnExp with
      | zero => rfl
      | succ n => exact (nt (Trans.beExp g (by omega)) rfl).elim
  | d1 u =>
    cases hw : g.writer <;> cases hp : g.wpending <;> simp [blockedAt, hw, hp]
    exact nt (Trans.d1 g u hw hp) rfl
  | d2 u =>
    exfalso
    by_cases h2 : g.state = 2
    · exact nt (Trans.d2stop g u h2) rfl
    · by_cases h0 : P.limit = 0
      · exact nt (Trans.d2push g u h2 h0) rfl
      · exact nt (Trans.d2sel g u h2 h0) rfl
  | d3 u => exact (nt (Trans.d3 g u (hpre u rfl)) rfl).elim
  | dsel u =>
    exfalso
    cases hc : g.closed with
    | true => exact nt (Trans.dselPanic g u hc) rfl
    | false =>
      by_cases hq : g.q = []
      · exact nt (Trans.dselEnq g u hc hq) rfl
      · exact nt (Trans.dselFull g u hc hq) rfl
  | dres u =>
    exfalso
    by_cases h : g.expanded + 1 ≤ (P.limit : Int)
    · exact nt (Trans.dresSpawn g u h) rfl
    · exact nt (Trans.dresUndo g u h) rfl
  | dspawn u => exact (nt (Trans.dspawn g u) rfl).elim
  | dundo u => exact (nt (Trans.dundo g u) rfl).elim
  | push u =>
    cases hd : g.ctxDone with
    | true => exact (nt (Trans.pushPool g u hd (hpre u rfl)) rfl).elim
    | false =>
      cases ht : taskCtxDone g u with
      | true => exact (nt (Trans.pushTask g u ht (hpre u rfl)) rfl).elim
      | false =>
        cases hc : g.closed with
        | true => exact (nt (Trans.pushPanic g u hc) rfl).elim
        | false =>
          by_cases hq : g.q = []
          · exact (nt (Trans.pushEnq g u hc hq) rfl).elim
          · simp [blockedAt, hd, ht, hc, hq]
  | d9 u => exact (nt (Trans.d9 g u) rfl).elim
  | t1 u =>
    exfalso
    cases hw : g.writer with
    | true => exact nt (Trans.t1fail g u (Or.inl hw)) rfl
    | false =>
      cases hp : g.wpending with
      | true => exact nt (Trans.t1fail g u (Or.inr hp)) rfl
      | false => exact nt (Trans.t1 g u hw hp) rfl
  | t2 u =>
    exfalso
    by_cases h2 : g.state = 2
    · exact nt (Trans.t2stop g u h2) rfl
    · exact nt (Trans.t2sel g u h2) rfl
  | t3 u b =>
    cases b with
    | true => exact (nt (Trans.t3locked g u (hpre u rfl)) rfl).elim
    | false => exact (nt (Trans.t3free g u (hpre u rfl)) rfl).elim
  | tsel u =>
    exfalso
    cases hd : g.ctxDone with
    | true => exact nt (Trans.tselPool g u hd (hpre u rfl)) rfl
    | false =>
      cases ht : taskCtxDone g u with
      | true => exact nt (Trans.tselTask g u ht (hpre u rfl)) rfl
      | false =>
        cases hc : g.closed with
        | true => exact nt (Trans.tselPanic g u hc) rfl
        | false =>
          by_cases hq : g.q = []
          · exact nt (Trans.tselEnq g u hc hq) rfl
          · refine nt (Trans.tselDefault g u ?_ ?_ ?_) rfl
            · simp [selCase, hd]
            · simp [selCase, ht]
            · simp [selCase, hc, hq]
  | t9 u r => exact (nt (Trans.t9 g u r) rfl).elim
  | w0 =>
    cases hq : g.q with
    | cons u rest => exact (nt (Trans.w0take g u rest hq) rfl).elim
    | nil =>
      cases hc : g.closed with
      | true => exact (nt (Trans.w0done g hq hc) rfl).elim
      | false => simp [blockedAt, hq, hc]
  | wexec u =>
    cases hr : (g.task u).released with
    | true => exact (nt (Trans.wexec g u hr) rfl).elim
    | false => simp [blockedAt, hr]
  | wsend u => exact (nt (Trans.wsend g u (hrun u rfl)) rfl).elim
  | wdone => exact (nt (Trans.wdone g) rfl).elim
  | e0 dl =>
    cases hq : g.q with
    | cons u rest => exact (nt (Trans.e0take g dl u rest hq) rfl).elim
    | nil =>
      cases hc : g.closed with
      | true => exact (nt (Trans.e0closed g dl hq hc) rfl).elim
      | false =>
        by_cases hdl : dl ≤ g.now
        · exact (nt (Trans.e0timer g dl hdl) rfl).elim
        · simp [blockedAt, hq, hc]; omega
  | eexec u =>
    cases hr : (g.task u).released with
    | true => exact (nt (Trans.eexec g u hr) rfl).elim
    | false => simp [blockedAt, hr]
  | esend u => exact (nt (Trans.esend g u (hrun u rfl)) rfl).elim
  | eexit => exact (nt (Trans.eexit g) rfl).elim
  | eexit2 => exact (nt (Trans.eexit2 g) rfl).elim
  | st0 =>
    cases hw : g.writer <;> cases hp : g.wpending <;> simp [blockedAt, hw, hp]
    exact nt (Trans.st0 g hw hp) rfl
  | st0c =>
    exfalso
    by_cases h0 : g.state = 0
    · exact nt (Trans.st0win g h0) rfl
    · exact nt (Trans.st0lose g h0) rfl
  | st1 => exact (nt (Trans.st1 g) rfl).elim
  | st2 => exact (nt (Trans.st2 g) rfl).elim
  | sp0 =>
    exfalso
    by_cases h0 : g.state = 0
    · exact nt (Trans.sp0win g h0) rfl
    · exact nt (Trans.sp0lose g h0) rfl
  | sp1 =>
    exfalso
    by_cases h1 : g.state = 1
    · exact nt (Trans.sp1win g h1) rfl
    · exact nt (Trans.sp1lose g h1) rfl
  | sp2 => exact (nt (Trans.sp2 g) rfl).elim
  | sp3a =>
    cases hw : g.writer <;> cases hp : g.wpending <;> simp [blockedAt, hw, hp]
    exact nt (Trans.sp3a g hw hp) rfl
  | sp3b =>
    by_cases hr : g.readers = 0
    · exact (nt (Trans.sp3b g hr) rfl).elim
    · simp [blockedAt, hr]
  | sp3c =>
    exfalso
    cases hc : g.closed with
    | true => exact nt (Trans.sp3cPanic g hc) rfl
    | false => exact nt (Trans.sp3c g hc) rfl
  | sp3d => exact (nt (Trans.sp3d g) rfl).elim
  | sp4 =>
    by_cases hw : g.wg = 0
    · exact (nt (Trans.sp4 g hw) rfl).elim
    · simp [blockedAt, hw]
  | sp5 =>
    exfalso
    cases hq : g.q with
    | cons u rest => exact nt (Trans.sp5take g u rest hq) rfl
    | nil => exact nt (Trans.sp5done g hq) rfl
  | sp5s u => exact (nt (Trans.sp5s g u (hdrain u rfl)) rfl).elim
  | exited => rfl
  | panicked => rfl

/-- in a stuck configuration every thread sits at a program counter whose guard is false -/
theorem stuck_blocked {c : Config (M P)} (hinv : PInv P c) (hs : Stuck c) (t : Tid) :
    blockedAt c.g (c.l t) = true :=
  thread_blocked hinv t (fun a ha => hs t a ha)

/-- a thread whose guard holds has an enabled internal step -/
theorem enabled_of_not_blocked {c : Config (M P)} (hinv : PInv P c) (t : Tid) (h : blockedAt c.g (c.l t) = false) :
    ∃ a g' l' obs, internal a = true ∧ (M P).step t c.g (c.l t) a = some (g', l', obs) := by
  apply Classical.byContradiction
  intro hne
  have := thread_blocked hinv t (fun a ha => by
    cases hstep : step P t c.g (c.l t) a with
    | none => rfl
    | some r =>
      obtain ⟨g', l', obs⟩ := r
      exact absurd ⟨a, g', l', obs, ha, hstep⟩ hne)
  rw [h] at this
  cases this

/-! ## Extra invariants -/

/-- all threads from `N` on are idle -/
def Support (N : Nat) (ls : Tid → L) : Prop := ∀ t, N ≤ t → ls t = .idle

theorem Support.upd {N : Nat} {ls : Tid → L} (h : Support N ls) (t : Tid) (l' : L) :
    Support (max N (t + 1)) (upd ls t l') := by
  intro a ha
  have h1 : a ≠ t := by omega
  rw [upd_other _ _ _ _ h1]
  exact h a (by omega)

theorem Support.mono {N N' : Nat} {ls : Tid → L} (h : Support N ls) (hle : N ≤ N') : Support N' ls :=
  fun t ht => h t (by omega)

def isSp2 : L → Bool | .sp2 => true | _ => false

/-- once the `Stop` caller that won the state CAS has executed `cancel()`, the pool context is done (for ever) -/
def CtxInv (g : G) (ls : Tid → L) : Prop := g.state = 2 → (∀ t, isSp2 (ls t) = false) → g.ctxDone = true

theorem CtxInv.preserve {g g' : G} {ls : Tid → L} {t : Tid} {l' : L} (h : CtxInv g ls)
    (hs : g'.state = 2 → g.state = 2 ∨ isSp2 l' = true)
    (hsp : isSp2 (ls t) = true → isSp2 l' = true ∨ g'.ctxDone = true)
    (hc : g.ctxDone = true → g'.ctxDone = true) : CtxInv g' (upd ls t l') := by
  intro hs' hno
  have hl' : isSp2 l' = false := by have := hno t; rwa [upd_same] at this
  have hst : g.state = 2 := by
    rcases hs hs' with h | h
    · exact h
    · rw [hl'] at h; cases h
  cases hold : isSp2 (ls t) with
  | true =>
    rcases hsp hold with h | h
    · rw [hl'] at h; cases h
    · exact h
  | false =>
    refine hc (h hst (fun a => ?_))
    by_cases ha : a = t
    · rw [ha]; exact hold
    · have := hno a; rwa [upd_other _ _ _ _ ha] at this

theorem CtxInv.step {g g' : G} {ls : Tid → L} {t : Tid} {l : L} {a : Act} {l' : L}
    (hinv : CtxInv g ls) (hl : ls t = l) (h : Trans P g l a g' l') : CtxInv g' (upd ls t l') := by
  cases h
  all_goals
    refine hinv.preserve ?_ ?_ ?_ <;>
    first
    | (simp [hl, isSp2]; done)
    | (simp_all [isSp2]; done)

/-- a started pool whose queue is not yet closed has all its `NumberWorker` fixed workers (running or about to run),
once `Start` is past its `wg.Add` + spawn step -/
def FullInv (P : Params) (g : G) (ls : Tid → L) : Prop :=
  g.closed = false → g.state = 1 → (∀ t, isSt1 (ls t) = false) →
    ∃ f, Counts fixedLive ls f ∧ f + g.spawnFixed = P.nworker

theorem FullInv.preserve {g g' : G} {ls : Tid → L} {t : Tid} {l' : L} (hinv : FullInv P g ls)
    (hc : g'.closed = false → g.closed = false)
    (hs : g'.state = 1 → isSt1 l' = false → g.state = 1)
    (hk : isSt1 (ls t) = false)
    (hnum : ∀ f, Counts fixedLive ls f → f + g.spawnFixed = P.nworker → g'.closed = false →
      (f + (fixedLive l').toNat - (fixedLive (ls t)).toNat) + g'.spawnFixed = P.nworker) :
    FullInv P g' (upd ls t l') := by
  intro hc' hs' hno
  have hl' : isSt1 l' = false := by have := hno t; rwa [upd_same] at this
  have hall : ∀ a, isSt1 (ls a) = false := by
    intro a
    by_cases ha : a = t
    · rw [ha]; exact hk
    · have := hno a; rwa [upd_other _ _ _ _ ha] at this
  obtain ⟨f, hf, hsum⟩ := hinv (hc hc') (hs hs' hl') hall
  exact ⟨_, hf.upd t l', hnum f hf hsum hc'⟩

theorem FullInv.step {g g' : G} {ls : Tid → L} {t : Tid} {l : L} {a : Act} {l' : L}
    (hcount : CountInv P g ls) (hinv : FullInv P g ls) (hl : ls t = l) (h : Trans P g l a g' l') :
    FullInv P g' (upd ls t l') := by
  cases h
  all_goals first
    | (refine hinv.preserve ?_ ?_ ?_ ?_ <;>
        first
        | (simp [hl, isSt1, fixedLive]; done)
        | (intro f hf; have := hf.pos t; simp [hl, fixedLive] at *; omega)
        | (simp_all [isSt1, fixedLive]; done))
    | skip
  case st1 =>
    intro _ _ _
    obtain ⟨f, k, hf, hk, hfix, _⟩ := hcount.fixed
    have := hk.pos t (by rw [hl]; rfl)
    refine ⟨_, hf.upd t _, ?_⟩
    simp [hl, fixedLive]
    omega

theorem counts_exists {p : L → Bool} {ls : Tid → L} {n : Nat} (h : Counts p ls n) (hn : n ≠ 0) :
    ∃ t, p (ls t) = true := by
  obtain ⟨ts, _, hlen, hmem⟩ := h
  cases ts with
  | nil => exact absurd hlen.symm hn
  | cons a as => exact ⟨a, (hmem a).1 List.mem_cons_self⟩

theorem counts_eq_zero {p : L → Bool} {ls : Tid → L} {n : Nat} (h : Counts p ls n) (hn : ∀ t, p (ls t) = false) :
    n = 0 := by
  cases n with
  | zero => rfl
  | succ k =>
    obtain ⟨t, ht⟩ := counts_exists h (by omega)
    rw [hn t] at ht; cases ht

/-- counting with a pointwise equal predicate -/
theorem counts_congr {p q : L → Bool} {ls : Tid → L} {n : Nat} (h : Counts p ls n)
    (hpq : ∀ t, p (ls t) = q (ls t)) : Counts q ls n := by
  obtain ⟨ts, hnd, hlen, hmem⟩ := h
  exact ⟨ts, hnd, hlen, fun t => by rw [hmem, hpq]⟩

/-- the invariant of this file -/
structure XInv (P : Params) (c : Config (M P)) : Prop where
  pinv : PInv P c
  ctx : CtxInv c.g c.l
  full : FullInv P c.g c.l
  sup : ∃ N, Support N c.l

theorem xinv_init (P : Params) : XInv P (Config.init (M P)) := by
  refine ⟨pinv_init P, ?_, ?_, ⟨0, fun t _ => rfl⟩⟩
  · intro h; simp [Config.init, M] at h
  · intro _ h; simp [Config.init, M] at h

theorem xinv_step {c : Config (M P)} {t : Tid} {a : Act} {g' : G} {l' : L} {obs : List Obs}
    (hinv : XInv P c) (h : (M P).step t c.g (c.l t) a = some (g', l', obs)) : XInv P ⟨g', upd c.l t l'⟩ := by
  have ht : Trans P c.g (c.l t) a g' l' := step_trans (t := t) h
  obtain ⟨N, hN⟩ := hinv.sup
  exact ⟨pinv_step c t a g' l' obs hinv.pinv h, hinv.ctx.step rfl ht, hinv.full.step hinv.pinv.count rfl ht,
    ⟨_, hN.upd t l'⟩⟩

theorem xinv_reach (P : Params) : ∀ c, Reach (M P) c → XInv P c :=
  inv_of_reach (M P) (XInv P) (xinv_init P) (fun _ _ _ _ _ _ hinv h => xinv_step hinv h)

/-! ## Stuck configurations after `Stop` won its CAS -/

theorem writer_false {c : Config (M P)} (hp : PInv P c) (h : ∀ t, hasW (c.l t) = false) : c.g.writer = false := by
  cases hw : c.g.writer with
  | false => rfl
  | true => obtain ⟨t, ht⟩ := hp.wlock.writer hw; rw [h t] at ht; cases ht

theorem wpending_false {c : Config (M P)} (hp : PInv P c) (h : ∀ t, isSp3b (c.l t) = false) :
    c.g.wpending = false := by
  cases hw : c.g.wpending with
  | false => rfl
  | true => obtain ⟨t, ht⟩ := hp.wlock.wpending hw; rw [h t] at ht; cases ht

theorem spawn_zero_of_stuck {c : Config (M P)} (hx : XInv P c) (hs : Stuck c) :
    c.g.spawnFixed = 0 ∧ c.g.spawnExp = 0 := by
  obtain ⟨N, hN⟩ := hx.sup
  have hb := stuck_blocked hx.pinv hs N
  rw [hN N (Nat.le_refl _)] at hb
  simpa [blockedAt] using hb

/-- the heart of deadlock freedom: in a stuck configuration the winning `Stop` caller is not waiting for the write
lock.  At `sp3a` nobody else holds or awaits the write side; at `sp3b` the remaining readers could only be submitters
parked in `push`, and those are released by the context that `Stop` cancelled BEFORE asking for the lock. -/
theorem stuck_stopper_sp4 {c : Config (M P)} (hx : XInv P c) (hs : Stuck c) (t0 : Tid)
    (ht0 : stopper (c.l t0) = true) : c.l t0 = .sp4 := by
  have hp := hx.pinv
  have hB := stuck_blocked hp hs
  have huniq : ∀ t, stopper (c.l t) = true → t = t0 := fun t ht => hp.lock.stop_uniq t t0 ht ht0
  have hb := hB t0
  cases hl0 : c.l t0 <;> rw [hl0] at ht0 hb <;> simp [stopper, blockedAt] at ht0 hb
  case sp3a =>
    exfalso
    rcases hb with hw | hw
    · obtain ⟨t, ht⟩ := hp.wlock.writer hw
      have := huniq t (stopper_of_hasW ht)
      subst this; rw [hl0] at ht; cases ht
    · obtain ⟨t, ht⟩ := hp.wlock.wpending hw
      have hst : stopper (c.l t) = true := by
        cases hl : c.l t <;> rw [hl] at ht <;> simp [isSp3b] at ht <;> rfl
      have := huniq t hst
      subst this; rw [hl0] at ht; cases ht
  case sp3b =>
    exfalso
    obtain ⟨t1, ht1⟩ := counts_exists hp.lock.readers hb
    have hb1 := hB t1
    have hctx : c.g.ctxDone = true := by
      refine hx.ctx (hp.lock.stop_state t0 (by rw [hl0]; rfl)) (fun t => ?_)
      cases hh : isSp2 (c.l t) with
      | false => rfl
      | true =>
        have hst : stopper (c.l t) = true := by
          cases hl : c.l t <;> rw [hl] at hh <;> simp [isSp2] at hh <;> rfl
        have := huniq t hst
        subst this; rw [hl0] at hh; cases hh
    cases hl1 : c.l t1 <;> rw [hl1] at ht1 hb1 <;> simp [holdsR, blockedAt] at ht1 hb1
    rw [hctx] at hb1
    simp at hb1

theorem stuck_stopped_globals {c : Config (M P)} (hx : XInv P c) (hs : Stuck c) (h2 : c.g.state = 2) :
    c.g.closed = true ∧ c.g.ctxDone = true ∧ c.g.writer = false ∧ c.g.wpending = false := by
  have hp := hx.pinv
  have h4 := stuck_stopper_sp4 hx hs
  refine ⟨?_, ?_, ?_, ?_⟩
  · by_cases hex : ∃ t, stopper (c.l t) = true
    · obtain ⟨t, ht⟩ := hex
      exact hp.lock.postclose t (by rw [h4 t ht]; rfl)
    · refine (hp.stop h2 (fun t => ?_)).2
      cases hh : stopper (c.l t) with
      | false => rfl
      | true => exact absurd ⟨t, hh⟩ hex
  · refine hx.ctx h2 (fun t => ?_)
    cases hh : isSp2 (c.l t) with
    | false => rfl
    | true =>
      have hst : stopper (c.l t) = true := by
        cases hl : c.l t <;> rw [hl] at hh <;> simp [isSp2] at hh <;> rfl
      rw [h4 t hst] at hh; cases hh
  · refine writer_false hp (fun t => ?_)
    cases hh : hasW (c.l t) with
    | false => rfl
    | true => rw [h4 t (stopper_of_hasW hh)] at hh; cases hh
  · refine wpending_false hp (fun t => ?_)
    cases hh : isSp3b (c.l t) with
    | false => rfl
    | true =>
      have hst : stopper (c.l t) = true := by
        cases hl : c.l t <;> rw [hl] at hh <;> simp [isSp3b] at hh <;> rfl
      rw [h4 t hst] at hh; cases hh

/-- where a thread can be in a stuck configuration of a stopped pool -/
theorem stuck_stopped_threads {c : Config (M P)} (hx : XInv P c) (hs : Stuck c) (h2 : c.g.state = 2) (t : Tid) :
    c.l t = .idle ∨ c.l t = .exited ∨ c.l t = .sp4 ∨
      ∃ u, (c.l t = .wexec u ∨ c.l t = .eexec u) ∧ (c.g.task u).released = false := by
  obtain ⟨hc, hd, hw, hwp⟩ := stuck_stopped_globals hx hs h2
  have hb := stuck_blocked hx.pinv hs t
  have h4 := stuck_stopper_sp4 hx hs t
  have hnp := hx.pinv.lock.nopanic t
  cases hl : c.l t <;> rw [hl] at hb h4 hnp <;> simp [blockedAt, hc, hd, hw, hwp, stopper] at hb h4 hnp ⊢
  all_goals first | rfl | exact ⟨_, rfl, hb⟩

/-- the `Stop` caller waits at `wg.Wait()` exactly when some worker is inside an executor (necessarily unreleased) -/
theorem stuck_stopped_wait {c : Config (M P)} (hx : XInv P c) (hs : Stuck c) (h2 : c.g.state = 2) :
    (∃ t, c.l t = .sp4) ↔ ∃ t u, c.l t = .wexec u ∨ c.l t = .eexec u := by
  have hp := hx.pinv
  obtain ⟨hsf, hse⟩ := spawn_zero_of_stuck hx hs
  have hcl := stuck_stopped_threads hx hs h2
  obtain ⟨f, e, hf, he, hwg⟩ := hp.count.wg
  constructor
  · rintro ⟨t0, hl0⟩
    have hb := stuck_blocked hp hs t0
    rw [hl0] at hb
    simp [blockedAt] at hb
    rw [hsf, hse] at hwg
    have hfe : f ≠ 0 ∨ e ≠ 0 := by omega
    rcases hfe with h | h
    · obtain ⟨t, ht⟩ := counts_exists hf h
      rcases hcl t with hl | hl | hl | ⟨u, hl, _⟩
      · rw [hl] at ht; cases ht
      · rw [hl] at ht; cases ht
      · rw [hl] at ht; cases ht
      · exact ⟨t, u, hl⟩
    · obtain ⟨t, ht⟩ := counts_exists he h
      rcases hcl t with hl | hl | hl | ⟨u, hl, _⟩
      · rw [hl] at ht; cases ht
      · rw [hl] at ht; cases ht
      · rw [hl] at ht; cases ht
      · exact ⟨t, u, hl⟩
  · rintro ⟨t, u, hl⟩
    by_cases hex : ∃ t, stopper (c.l t) = true
    · obtain ⟨t0, ht0⟩ := hex
      exact ⟨t0, stuck_stopper_sp4 hx hs t0 ht0⟩
    · exfalso
      have hno : ∀ t, preWait (c.l t) = false := by
        intro t
        cases hh : preWait (c.l t) with
        | false => rfl
        | true => exact absurd ⟨t, stopper_of_preWait hh⟩ hex
      have h0 := hp.wait h2 hno
      rw [h0] at hwg
      have hf0 : f = 0 := by omega
      have he0 : e = 0 := by omega
      subst hf0 he0
      rcases hl with hl | hl
      · have := hf.zero t; rw [hl] at this; cases this
      · have := he.zero t; rw [hl] at this; cases this

/-! ## Stuck configurations of a pool that has not been stopped -/

theorem running_globals {c : Config (M P)} (hp : PInv P c) (h2 : c.g.state ≠ 2) :
    c.g.closed = false ∧ c.g.writer = false ∧ c.g.wpending = false ∧ (∀ t, stopper (c.l t) = false) ∧
    (c.g.state = 0 ∨ c.g.state = 1) := by
  have hno : ∀ t, stopper (c.l t) = false := by
    intro t
    cases hh : stopper (c.l t) with
    | false => rfl
    | true => exact absurd (hp.lock.stop_state t hh) h2
  refine ⟨?_, ?_, ?_, hno, ?_⟩
  · cases hc : c.g.closed with
    | false => rfl
    | true => exact absurd (hp.lock.closed_state hc) h2
  · refine writer_false hp (fun t => ?_)
    cases hh : hasW (c.l t) with
    | false => rfl
    | true => have := stopper_of_hasW hh; rw [hno t] at this; cases this
  · refine wpending_false hp (fun t => ?_)
    cases hh : isSp3b (c.l t) with
    | false => rfl
    | true =>
      have hst : stopper (c.l t) = true := by
        cases hl : c.l t <;> rw [hl] at hh <;> simp [isSp3b] at hh <;> rfl
      rw [hno t] at hst; cases hst
  · have := hp.sp1.1
    omega

/-- where a thread can be in a stuck configuration of a pool that was not stopped: at rest; a worker waiting for a
task (`w0`; `e0` with its timer still running) — only if the queue is empty; a worker inside an unreleased executor;
a `Do` parked in `push` — only if the queue is full and neither context is done -/
theorem stuck_running_threads {c : Config (M P)} (hx : XInv P c) (hs : Stuck c) (h2 : c.g.state ≠ 2) (t : Tid) :
    c.l t = .idle ∨ c.l t = .exited ∨ (c.l t = .w0 ∧ c.g.q = []) ∨
      (∃ dl, c.l t = .e0 dl ∧ c.g.q = [] ∧ c.g.now < dl) ∨
      (∃ u, (c.l t = .wexec u ∨ c.l t = .eexec u) ∧ (c.g.task u).released = false) ∨
      (∃ u, c.l t = .push u ∧ c.g.ctxDone = false ∧ taskCtxDone c.g u = false ∧ c.g.q ≠ []) := by
  obtain ⟨hc, hw, hwp, hno, _⟩ := running_globals hx.pinv h2
  have hb := stuck_blocked hx.pinv hs t
  have hst := hno t
  have hnp := hx.pinv.lock.nopanic t
  cases hl : c.l t <;> rw [hl] at hb hst hnp <;> simp [blockedAt, hc, hw, hwp, stopper] at hb hst hnp ⊢
  all_goals first | rfl | exact hb | exact ⟨_, rfl, hb⟩ | exact ⟨rfl, hb⟩ | exact ⟨_, rfl, hb.1.1, hb.1.2, hb.2⟩

def isWexec : L → Bool | .wexec _ => true | _ => false

/-- back-pressure: a `Do` parked in `push` in a stuck configuration of a pool that was not stopped -/
theorem stuck_push {c : Config (M P)} (hx : XInv P c) (hs : Stuck c) (h2 : c.g.state ≠ 2) (t : Tid) (u : Nat)
    (hl : c.l t = .push u) :
    c.g.q.length = 1 ∧ c.g.ctxDone = false ∧ taskCtxDone c.g u = false ∧ c.g.closed = false ∧
    c.g.spawnFixed = 0 ∧ c.g.spawnExp = 0 ∧
    (∀ t', fixedLive (c.l t') = true → ∃ v, c.l t' = .wexec v ∧ (c.g.task v).released = false) ∧
    (∀ t', expPre (c.l t') = true → ∃ v, c.l t' = .eexec v ∧ (c.g.task v).released = false) ∧
    ((c.g.state = 0 ∧ ∀ t', fixedLive (c.l t') = false) ∨ (c.g.state = 1 ∧ Counts isWexec c.l P.nworker)) := by
  have hp := hx.pinv
  obtain ⟨hc, _, _, _, hst⟩ := running_globals hp h2
  obtain ⟨hsf, hse⟩ := spawn_zero_of_stuck hx hs
  have hcl := stuck_running_threads hx hs h2
  have hq : c.g.q ≠ [] := by
    rcases hcl t with h | h | h | ⟨_, h, _⟩ | ⟨_, h | h, _⟩ | ⟨_, _, _, _, h⟩ <;>
      first | exact h | (rw [hl] at h; cases h.1) | (rw [hl] at h; cases h)
  have hd : c.g.ctxDone = false ∧ taskCtxDone c.g u = false := by
    rcases hcl t with h | h | h | ⟨_, h, _⟩ | ⟨_, h | h, _⟩ | ⟨v, h, h1, h2, _⟩ <;>
      first | (rw [hl] at h; cases h; exact ⟨h1, h2⟩) | (rw [hl] at h; cases h.1) | (rw [hl] at h; cases h)
  have hfix : ∀ t', fixedLive (c.l t') = true → ∃ v, c.l t' = .wexec v ∧ (c.g.task v).released = false := by
    intro t' ht'
    rcases hcl t' with h | h | h | ⟨_, h, hq', _⟩ | ⟨v, h | h, hr⟩ | ⟨_, h, _⟩
    · rw [h] at ht'; cases ht'
    · rw [h] at ht'; cases ht'
    · exact absurd h.2 hq
    · exact absurd hq' hq
    · exact ⟨v, h, hr⟩
    · rw [h] at ht'; cases ht'
    · rw [h] at ht'; cases ht'
  have hexp : ∀ t', expPre (c.l t') = true → ∃ v, c.l t' = .eexec v ∧ (c.g.task v).released = false := by
    intro t' ht'
    rcases hcl t' with h | h | h | ⟨_, h, hq', _⟩ | ⟨v, h | h, hr⟩ | ⟨_, h, _⟩
    · rw [h] at ht'; cases ht'
    · rw [h] at ht'; cases ht'
    · exact absurd h.2 hq
    · exact absurd hq' hq
    · rw [h] at ht'; cases ht'
    · exact ⟨v, h, hr⟩
    · rw [h] at ht'; cases ht'
  have hlen : c.g.q.length = 1 := by
    have := hp.task.qlen
    cases hq' : c.g.q with
    | nil => exact absurd hq' hq
    | cons a as => rw [hq'] at this; simp at this ⊢; exact this
  refine ⟨hlen, hd.1, hd.2, hc, hsf, hse, hfix, hexp, ?_⟩
  rcases hst with h0 | h1
  · left
    refine ⟨h0, ?_⟩
    obtain ⟨f, k, hf, _, _, hz⟩ := hp.count.fixed
    have : f = 0 := by have := hz h0; omega
    subst this
    exact hf.zero
  · right
    refine ⟨h1, ?_⟩
    have hno1 : ∀ t', isSt1 (c.l t') = false := by
      intro t'
      have hb := stuck_blocked hp hs t'
      cases hh : c.l t' <;> rw [hh] at hb <;> simp [blockedAt] at hb <;> rfl
    obtain ⟨f, hf, hsum⟩ := hx.full hc h1 hno1
    rw [hsf] at hsum
    have : f = P.nworker := by omega
    subst this
    refine counts_congr hf (fun t' => ?_)
    cases hh : fixedLive (c.l t') with
    | true =>
      obtain ⟨v, hv, _⟩ := hfix t' hh
      rw [hv]; rfl
    | false =>
      cases hh' : c.l t' <;> rw [hh'] at hh <;> simp [fixedLive] at hh <;> rfl

/-! ## A ranking function for internal steps -/

/-- weight of a program counter: an upper bound on the work that the thread can still cause on its own -/
def rank (P : Params) : L → Nat
  | .idle | .exited | .panicked => 0
  | .d1 _ => 14 | .d2 _ => 13 | .dsel _ => 12 | .dres _ => 11 | .dspawn _ => 10 | .dundo _ => 6 | .push _ => 5
  | .d3 _ => 2 | .d9 _ => 1
  | .t1 _ => 7 | .t2 _ => 6 | .tsel _ => 5 | .t3 _ _ => 2 | .t9 _ _ => 1
  | .w0 => 2 | .wexec _ => 4 | .wsend _ => 3 | .wdone => 1
  | .e0 _ => 3 | .eexec _ => 5 | .esend _ => 4 | .eexit => 2 | .eexit2 => 1
  | .st0 => 3 * P.nworker + 4 | .st0c => 3 * P.nworker + 3 | .st1 => 3 * P.nworker + 2 | .st2 => 1
  | .sp0 => 9 | .sp1 => 8 | .sp2 => 7 | .sp3a => 6 | .sp3b => 5 | .sp3c => 4 | .sp3d => 3 | .sp4 => 2 | .sp5 => 1
  | .sp5s _ => 2

theorem rank_le (P : Params) (l : L) : rank P l ≤ 3 * P.nworker + 14 := by
  cases l <;> simp [rank] <;> omega

/-- the shared part of the potential: queued tasks (each costs a worker iteration or a drain iteration) and
spawned goroutines that have not started yet -/
def gpot (g : G) : Nat := 3 * g.q.length + 3 * g.spawnFixed + 4 * g.spawnExp

/-- every internal step strictly decreases (weight of the acting thread) + (shared potential) -/
theorem rank_step {g g' : G} {l l' : L} {a : Act} (h : Trans P g l a g' l') (ha : internal a = true) :
    rank P l' + gpot g' < rank P l + gpot g := by
  cases h <;> simp [internal] at ha <;> simp [rank, gpot, *] <;> omega

/-- sum of the weights of the threads `0 … N-1` -/
def wsum (w : L → Nat) (ls : Tid → L) : Nat → Nat
  | 0 => 0
  | n + 1 => wsum w ls n + w (ls n)

theorem wsum_upd_ge (w : L → Nat) (ls : Tid → L) (t : Nat) (l' : L) (N : Nat) (h : N ≤ t) :
    wsum w (upd ls t l') N = wsum w ls N := by
  induction N with
  | zero => rfl
  | succ n ih =>
    have hne : n ≠ t := by omega
    simp only [wsum, ih (by omega), upd_other _ _ _ _ hne]

theorem wsum_upd_lt (w : L → Nat) (ls : Tid → L) (t : Nat) (l' : L) (N : Nat) (h : t < N) :
    wsum w (upd ls t l') N + w (ls t) = wsum w ls N + w l' := by
  induction N with
  | zero => omega
  | succ n ih =>
    by_cases hn : t = n
    · subst hn
      simp only [wsum, wsum_upd_ge w ls t l' t (Nat.le_refl _), upd_same]
      omega
    · have hne : n ≠ t := fun e => hn e.symm
      simp only [wsum, upd_other _ _ _ _ hne]
      have := ih (by omega)
      omega

theorem wsum_support (w : L → Nat) (hw : w .idle = 0) {ls : Tid → L} {N : Nat} (h : Support N ls) (N' : Nat)
    (hle : N ≤ N') : wsum w ls N' = wsum w ls N := by
  induction N' with
  | zero => have : N = 0 := by omega
            subst this; rfl
  | succ n ih =>
    by_cases hn : N = n + 1
    · rw [hn]
    · simp only [wsum, ih (by omega), h n (by omega), hw]
      omega

/-- the potential of a configuration whose non-idle threads are all below `N` -/
def pot (P : Params) (N : Nat) (c : Config (M P)) : Nat := wsum (rank P) c.l N + gpot c.g

theorem pot_support {c : Config (M P)} {N N' : Nat} (h : Support N c.l) (hle : N ≤ N') : pot P N' c = pot P N c := by
  unfold pot
  rw [wsum_support (rank P) rfl h N' hle]

/-- every internal step strictly decreases the potential -/
theorem pot_step {c : Config (M P)} {N : Nat} (hN : Support N c.l) {t : Tid} {a : Act} {g' : G} {l' : L}
    {obs : List Obs} (ha : internal a = true) (h : (M P).step t c.g (c.l t) a = some (g', l', obs)) :
    Support (max N (t + 1)) (upd c.l t l') ∧
      pot P (max N (t + 1)) (⟨g', upd c.l t l'⟩ : Config (M P)) < pot P N c := by
  refine ⟨hN.upd t l', ?_⟩
  have ht : Trans P c.g (c.l t) a g' l' := step_trans (t := t) h
  have hr := rank_step ht ha
  have h1 := pot_support (P := P) hN (Nat.le_max_left N (t + 1))
  have h2 := wsum_upd_lt (rank P) c.l t l' (max N (t + 1)) (by omega)
  unfold pot at h1 ⊢
  show wsum (rank P) (upd c.l t l') (max N (t + 1)) + gpot g' < wsum (rank P) c.l N + gpot c.g
  omega

/-- `n` internal steps lead from `c` to `c'` -/
inductive ISteps (P : Params) : Nat → Config (M P) → Config (M P) → Prop
  | refl (c : Config (M P)) : ISteps P 0 c c
  | step {n : Nat} {c c' : Config (M P)} {t a g' l' obs} : ISteps P n c c' → internal a = true →
      (M P).step t c'.g (c'.l t) a = some (g', l', obs) → ISteps P (n + 1) c ⟨g', upd c'.l t l'⟩

theorem ISteps.steps {n : Nat} {c c' : Config (M P)} (h : ISteps P n c c') : Steps (M P) c c' := by
  induction h with
  | refl => exact Steps.refl _
  | step _ _ hstep ih => exact Steps.step ih hstep

theorem ISteps.head {n : Nat} {c c' : Config (M P)} {t : Tid} {a : Act} {g1 : G} {l1 : L} {obs : List Obs}
    (ha : internal a = true) (hstep : (M P).step t c.g (c.l t) a = some (g1, l1, obs))
    (h : ISteps P n ⟨g1, upd c.l t l1⟩ c') : ISteps P (n + 1) c c' := by
  generalize hc1 : (⟨g1, upd c.l t l1⟩ : Config (M P)) = c1 at h
  induction h with
  | refl => subst hc1; exact ISteps.step (ISteps.refl c) ha hstep
  | step _ ha' hstep' ih => exact ISteps.step (ih hc1) ha' hstep'

/-- internal runs are bounded by the potential -/
theorem isteps_pot {n : Nat} {c c' : Config (M P)} {N : Nat} (hN : Support N c.l) (h : ISteps P n c c') :
    ∃ N', Support N' c'.l ∧ n + pot P N' c' ≤ pot P N c := by
  induction h with
  | refl => exact ⟨N, hN, by omega⟩
  | @step n c c' t a g' l' obs _ ha hstep ih =>
    obtain ⟨N', hN', hle⟩ := ih hN
    obtain ⟨h1, h2⟩ := pot_step hN' ha hstep
    exact ⟨_, h1, by omega⟩

/-- from every configuration with finite support a stuck configuration is reachable by internal steps -/
theorem exists_stuck (c : Config (M P)) (N : Nat) (hN : Support N c.l) :
    ∃ n c', ISteps P n c c' ∧ Stuck c' := by
  generalize hk : pot P N c = k
  induction k using Nat.strongRecOn generalizing c N with
  | _ k ih =>
    by_cases hs : Stuck c
    · exact ⟨0, c, ISteps.refl c, hs⟩
    · unfold Stuck StuckStep at hs
      have : ∃ t a, internal a = true ∧ step P t c.g (c.l t) a ≠ none := by
        apply Classical.byContradiction
        intro hne
        apply hs
        intro t a ha
        apply Classical.byContradiction
        intro h
        exact hne ⟨t, a, ha, h⟩
      obtain ⟨t, a, ha, hne⟩ := this
      cases hstep : step P t c.g (c.l t) a with
      | none => exact absurd hstep hne
      | some r =>
        obtain ⟨g', l', obs⟩ := r
        have hstep' : (M P).step t c.g (c.l t) a = some (g', l', obs) := hstep
        obtain ⟨h1, h2⟩ := pot_step hN ha hstep'
        obtain ⟨n, c', hrun, hstuck⟩ := ih _ (by rw [← hk]; exact h2) _ _ h1 rfl
        exact ⟨n + 1, c', ISteps.head ha hstep' hrun, hstuck⟩

/-! ## The potential in terms of the number of threads that are not idle -/

def nonIdle : L → Bool | .idle => false | _ => true

theorem wsum_le_counts (P : Params) {ls : Tid → L} {k : Nat} (hk : Counts nonIdle ls k) (N : Nat) :
    wsum (rank P) ls N ≤ (3 * P.nworker + 14) * k := by
  have hW := rank_le P
  generalize 3 * P.nworker + 14 = W at hW ⊢
  suffices h : ∃ ts : List Nat, ts.Nodup ∧ (∀ t ∈ ts, t < N ∧ nonIdle (ls t) = true) ∧
      wsum (rank P) ls N ≤ W * ts.length by
    obtain ⟨ts, hnd, hmem, hle⟩ := h
    have := hk.length_le ts hnd (fun t ht => (hmem t ht).2)
    exact Nat.le_trans hle (Nat.mul_le_mul_left W this)
  induction N with
  | zero => exact ⟨[], List.nodup_nil, fun t ht => (by cases ht), Nat.zero_le _⟩
  | succ n ih =>
    obtain ⟨ts, hnd, hmem, hle⟩ := ih
    cases hn : nonIdle (ls n) with
    | false =>
      have hidle : ls n = .idle := by cases hl : ls n <;> rw [hl] at hn <;> simp [nonIdle] at hn <;> rfl
      refine ⟨ts, hnd, fun t ht => ⟨Nat.lt_succ_of_lt (hmem t ht).1, (hmem t ht).2⟩, ?_⟩
      simp only [wsum, hidle, rank]
      exact hle
    | true =>
      refine ⟨n :: ts, List.nodup_cons.2 ⟨fun hm => Nat.lt_irrefl _ (hmem n hm).1, hnd⟩, fun t ht => ?_, ?_⟩
      · rcases List.mem_cons.1 ht with rfl | hm
        · exact ⟨Nat.lt_succ_self _, hn⟩
        · exact ⟨Nat.lt_succ_of_lt (hmem t hm).1, (hmem t hm).2⟩
      · simp only [wsum, List.length_cons, Nat.mul_succ]
        exact Nat.add_le_add hle (hW _)

theorem pot_le_counts {c : Config (M P)} {k : Nat} (hk : Counts nonIdle c.l k) (N : Nat) :
    pot P N c ≤ (3 * P.nworker + 14) * k + gpot c.g :=
  Nat.add_le_add_right (wsum_le_counts P hk N) _

/-! ## Internal steps neither create tasks nor release gates -/

theorem send_released (g : G) (u v : Nat) (r : Res) : ((g.send u r).task v).released = (g.task v).released := by
  rw [send_task]; split
  · rename_i h; rw [h.1]
  · rfl
theorem enqueue_released (g : G) (u v : Nat) : ((enqueue g u).task v).released = (g.task v).released := by
  rw [enqueue_task]; split
  · rename_i h; rw [h.1]
  · rfl
theorem runTask_released (g : G) (u v : Nat) (rest : List Nat) :
    ((runTask g u rest).task v).released = (g.task v).released := by
  rw [runTask_task]; split
  · rename_i h; rw [h.1]
  · rfl

theorem internal_released {g g' : G} {l l' : L} {a : Act} (h : Trans P g l a g' l') (ha : internal a = true) :
    g'.tasks.length = g.tasks.length ∧ ∀ u, (g'.task u).released = (g.task u).released := by
  cases h <;> simp [internal] at ha
  all_goals first
    | exact ⟨rfl, fun _ => rfl⟩
    | exact ⟨send_length _ _ _, fun _ => send_released _ _ _ _⟩
    | exact ⟨enqueue_length _ _, fun _ => enqueue_released _ _ _⟩
    | exact ⟨runTask_length _ _ _, fun _ => runTask_released _ _ _ _⟩

theorem isteps_released {n : Nat} {c c' : Config (M P)} (h : ISteps P n c c') :
    c'.g.tasks.length = c.g.tasks.length ∧ ∀ u, (c'.g.task u).released = (c.g.task u).released := by
  induction h with
  | refl => exact ⟨rfl, fun _ => rfl⟩
  | @step n c c' t a g' l' obs _ ha hstep ih =>
    obtain ⟨h1, h2⟩ := internal_released (step_trans (t := t) hstep) ha
    exact ⟨h1.trans ih.1, fun u => (h2 u).trans (ih.2 u)⟩

/-! ## After a `Stop` call -/

/-- thread `t` has called `Stop` and either the pool is stopped or `t` is still at one of its two CASes -/
def StopCalled (c : Config (M P)) (t : Tid) : Prop := c.g.state = 2 ∨ c.l t = .sp0 ∨ c.l t = .sp1

theorem trans_state2 {g g' : G} {l l' : L} {a : Act} (h : Trans P g l a g' l') (h2 : g.state = 2) : g'.state = 2 := by
  cases h <;> first | exact h2 | rfl | (simp_all; done)

theorem StopCalled.step {c : Config (M P)} {t : Tid} (hp : PInv P c) (h : StopCalled c t) {t' : Tid} {a : Act}
    {g' : G} {l' : L} {obs : List Obs} (hstep : (M P).step t' c.g (c.l t') a = some (g', l', obs)) :
    StopCalled (⟨g', upd c.l t' l'⟩ : Config (M P)) t := by
  have ht : Trans P c.g (c.l t') a g' l' := step_trans (t := t') hstep
  rcases h with h2 | hl | hl
  · exact Or.inl (trans_state2 ht h2)
  · by_cases htt : t = t'
    · subst htt
      rw [hl] at ht
      cases ht
      · exact Or.inl rfl
      · exact Or.inr (Or.inr (upd_same _ _ _))
    · exact Or.inr (Or.inl ((upd_other c.l t' t l' htt).trans hl))
  · by_cases htt : t = t'
    · subst htt
      have h0 := hp.sp1.2 t (by rw [hl]; rfl)
      have hle := hp.sp1.1
      rw [hl] at ht
      cases ht
      · exact Or.inl rfl
      · rename_i h1
        exact Or.inl (by show c.g.state = 2; omega)
    · exact Or.inr (Or.inr ((upd_other c.l t' t l' htt).trans hl))

theorem StopCalled.steps {c c' : Config (M P)} {t : Tid} (hr : Reach (M P) c) (h : StopCalled c t)
    (hs : Steps (M P) c c') : StopCalled c' t := by
  induction hs with
  | refl => exact h
  | step hprev hstep ih => exact ih.step (pinv_reach P _ (hprev.reach hr)) hstep

theorem StopCalled.stuck {c : Config (M P)} {t : Tid} (hp : PInv P c) (h : StopCalled c t) (hs : Stuck c) :
    c.g.state = 2 := by
  have hb := stuck_blocked hp hs t
  rcases h with h | h | h
  · exact h
  · rw [h] at hb; cases hb
  · rw [h] at hb; cases hb

/-! ## A `Do` call hands its task over or answers it -/

/-- inside `Do(u)`, before the hand-over / the error result -/
def inDo (u : Nat) : L → Bool
  | .d1 v | .d2 v | .d3 v | .dsel v | .dres v | .dspawn v | .dundo v | .push v => v == u
  | _ => false

/-- thread `t` is still inside `Do(u)` before its hand-over, or `u` has been accepted, or `u` has been answered -/
def DoAnswered (c : Config (M P)) (t : Tid) (u : Nat) : Prop :=
  inDo u (c.l t) = true ∨ (c.g.task u).enq = true ∨ (c.g.task u).results ≠ []

theorem inDo_role {u : Nat} {l : L} (h : inDo u l = true) : role l = some (.pre, u) := by
  cases l <;> simp [inDo] at h <;> subst h <;> rfl

theorem send_results_ne (g : G) (u : Nat) (r : Res) (hu : u < g.tasks.length) : ((g.send u r).task u).results ≠ [] := by
  simp [send_task, hu]

theorem enqueue_enq_self (g : G) (u : Nat) (hu : u < g.tasks.length) : ((enqueue g u).task u).enq = true := by
  simp [enqueue_task, hu]

theorem DoAnswered.step {c : Config (M P)} {t : Tid} {u : Nat} (hp : PInv P c) (h : DoAnswered c t u) {t' : Tid}
    {a : Act} {g' : G} {l' : L} {obs : List Obs} (hstep : (M P).step t' c.g (c.l t') a = some (g', l', obs)) :
    DoAnswered (⟨g', upd c.l t' l'⟩ : Config (M P)) t u := by
  have ht : Trans P c.g (c.l t') a g' l' := step_trans (t := t') hstep
  have hmono := TaskMono.step ht
  rcases h with hin | he | hr
  · by_cases htt : t = t'
    · subst htt
      have hu : u < c.g.tasks.length := (hp.task.ok u).len (Or.inr ⟨t, _, inDo_role hin⟩)
      have hopen := hp.lock.inner_open t
      have hsame : upd c.l t l' t = l' := upd_same _ _ _
      generalize c.l t = l at ht hin hopen
      unfold DoAnswered
      rw [show (⟨g', upd c.l t l'⟩ : Config (M P)).l t = l' from hsame]
      show inDo u l' = true ∨ (g'.task u).enq = true ∨ (g'.task u).results ≠ []
      cases ht <;> simp [inDo] at hin <;> subst hin
      all_goals first
        | (left; simp [inDo]; done)
        | (right; right; exact send_results_ne _ _ _ hu)
        | (right; left; exact enqueue_enq_self _ _ hu)
        | (exfalso; simp_all [inner]; done)
    · exact Or.inl ((congrArg (inDo u) (upd_other c.l t' t l' htt)).trans hin)
  · exact Or.inr (Or.inl (hmono.enq u he))
  · refine Or.inr (Or.inr ?_)
    show (g'.task u).results ≠ []
    cases hres : (c.g.task u).results with
    | nil => exact absurd hres hr
    | cons r rs =>
      have := hmono.results u r (by rw [hres]; exact List.mem_cons_self)
      intro hnil
      rw [hnil] at this; cases this

theorem DoAnswered.steps {c c' : Config (M P)} {t : Tid} {u : Nat} (hr : Reach (M P) c) (h : DoAnswered c t u)
    (hs : Steps (M P) c c') : DoAnswered c' t u := by
  induction hs with
  | refl => exact h
  | step hprev hstep ih => exact ih.step (pinv_reach P _ (hprev.reach hr)) hstep

/-! ## Tools for kernel-checked example runs -/

theorem run_support (M : Machine) (s : List (Tid × M.Act)) (N : Nat) :
    ∀ (c : Config M), (∀ t, N ≤ t → c.l t = M.idle) → s.all (fun p => decide (p.1 < N)) = true →
      ∀ t, N ≤ t → (run M c s).1.l t = M.idle := by
  induction s with
  | nil => intro c h _; exact h
  | cons ta rest ih =>
    intro c h hs
    obtain ⟨t0, a⟩ := ta
    simp only [List.all_cons, Bool.and_eq_true, decide_eq_true_eq] at hs
    have h0 : t0 < N := hs.1
    have hrest := hs.2
    simp only [run]
    split
    · exact ih c h hrest
    · refine ih _ (fun t ht => ?_) hrest
      have hne : t ≠ t0 := fun e => by subst e; exact Nat.lt_irrefl _ (Nat.lt_of_lt_of_le h0 ht)
      exact (upd_other c.l t0 t _ hne).trans (h t ht)

/-- a property of all threads, checked on the threads below `N` and on `idle` -/
theorem forall_threads {ls : Tid → L} {N : Nat} (hN : Support N ls) (p : L → Prop) (hidle : p .idle)
    (hlt : ∀ t, t < N → p (ls t)) : ∀ t, p (ls t) := by
  intro t
  rcases Nat.lt_or_ge t N with h | h
  · exact hlt t h
  · rw [hN t h]; exact hidle

/-- the internal actions, as a finite list up to `choose k` with `k ≥ 4` (never enabled) -/
def localStuck (stp : Tid → G → L → Act → Option (G × L × List Obs)) (g : G) (l : L) : Bool :=
  (stp 0 g l .tau).isNone && (stp 0 g l (.choose 0)).isNone && (stp 0 g l (.choose 1)).isNone &&
  (stp 0 g l (.choose 2)).isNone && (stp 0 g l (.choose 3)).isNone && (stp 0 g l .beFixed).isNone &&
  (stp 0 g l .beExp).isNone

theorem stuck_of_local {stp : Tid → G → L → Act → Option (G × L × List Obs)} {g : G} {ls : Tid → L}
    (htid : ∀ t g l a, stp t g l a = stp 0 g l a)
    (hch : ∀ g l k, 4 ≤ k → stp 0 g l (.choose k) = none)
    (h : ∀ t, localStuck stp g (ls t) = true) : StuckStep stp g ls := by
  intro t a ha
  rw [htid]
  have := h t
  simp only [localStuck, Bool.and_eq_true, Option.isNone_iff_eq_none] at this
  obtain ⟨⟨⟨⟨⟨⟨h1, h2⟩, h3⟩, h4⟩, h5⟩, h6⟩, h7⟩ := this
  cases a <;> simp [internal] at ha
  · exact h6
  · exact h7
  · exact h1
  · rename_i k
    match k with
    | 0 => exact h2
    | 1 => exact h3
    | 2 => exact h4
    | 3 => exact h5
    | k + 4 => exact hch _ _ _ (by omega)

end Garr.Pool.Progress
