import Garr.Conc
/-!
# FINDINGS (C08), kept for the record: `Stop` racing with `Start` in the code before commits eaca25b and 7805de8

Before `eaca25b` (`fix: Start racing with Stop misused the WaitGroup`) `Start` was
`if CAS(&state, 0, 1) { wg.Add(n); for … { go worker() } }` without any lock.  A `Stop` running between the CAS and the
`wg.Add` wins its CAS 1→2, cancels, closes the queue and passes `wg.Wait()` with the counter at 0; the workers are
spawned afterwards, and one of them may receive a task that was accepted before the pool was started (`Do` on a pool
created with `DisableAutoStart`) from the closed, non-empty queue while `Stop` is on its way out.  So `Stop` returns while
a task is still being executed, its waiter has no result yet, and `wg ≠ 0`: `stop_drains` (C08) is false of that code.
The Go race detector reports the same interleaving as `wg.Add` concurrent with `wg.Wait`.

This file contains a verbatim copy of the pool model as it was before the two fixes (the differences to
`Garr/Pool/Model.lean`: the two-step, lock-free `Start` — `st0` = CAS 0→1, `st1` = `wg.Add(n)` + spawn — and the order
of `Stop`'s two CASes, 1→2 first) and the `decide`-checked schedules `start_stop_race_witness` and, for the second
defect (commit 7805de8, `Stop` returning without stopping), `stop_noop_witness`.  On that model everything else (C12, C04, C17, C11) and `stop_drains` restricted to
executions in which no thread is at `st1` while `state = 2` were proved as well; those proofs now live, for the fixed
model and without the restriction, in `Garr/Pool/Inv.lean` and `Garr/Props/Pool.lean`.
-/
namespace Garr.Pool.Old
open Garr.Conc

structure Params where
  nworker : Nat
  limit : Nat          -- ExpandableLimit (normalised, ≥ 0)
  lifetime : Nat       -- ExpandedLifetime in virtual-time units (> 0)
deriving Repr, DecidableEq

/-- which context a task carries -/
inductive CtxKind | pool | own | never    -- nil / p.ctx ; its own cancellable context ; context.Background()
deriving Repr, DecidableEq, Hashable

inductive Res | val | errPool | errTask   -- what was sent on the task's result channel
deriving Repr, DecidableEq, Hashable

structure Task where
  ctx : CtxKind
  tdone : Bool := false      -- the task's own context is cancelled
  exec : Nat := 0            -- ghost: executor invocations
  released : Bool := false   -- the environment has released the task's gate: its executor returns as soon as it runs
  results : List Res := []   -- everything ever sent on the result channel (capacity 1: a 2nd send blocks)
  enq : Bool := false        -- ghost: the task was put into the queue
deriving Repr, DecidableEq, Hashable

structure G where
  state : Nat := 0                -- 0 not started, 1 started, 2 stopped
  ctxDone : Bool := false         -- pool context done
  q : List Nat := []              -- task queue buffer (capacity 1), oldest first
  closed : Bool := false
  expanded : Int := 0
  wg : Int := 0
  spawnFixed : Nat := 0           -- `go p.worker()` issued, goroutine not yet running
  spawnExp : Nat := 0
  readers : Nat := 0              -- submitLock
  writer : Bool := false
  wpending : Bool := false
  tasks : List Task := []
  now : Nat := 0
  panics : Nat := 0               -- ghost: number of goroutines that panicked
deriving Repr, DecidableEq, Hashable

inductive L
  | idle
  -- Do(u): RLock, load state, [refuse], [select-default, reserve, spawn/undo], push, RUnlock
  | d1 (u : Nat) | d2 (u : Nat) | d3 (u : Nat) | dsel (u : Nat) | dres (u : Nat) | dspawn (u : Nat) | dundo (u : Nat)
  | push (u : Nat) | d9 (u : Nat)
  -- TryDo(u): TryRLock, load state, [refuse], select-with-default, RUnlock
  | t1 (u : Nat) | t2 (u : Nat) | t3 (u : Nat) (locked : Bool) | tsel (u : Nat) | t9 (u : Nat) (r : Bool)
  -- fixed worker
  | w0 | wexec (u : Nat) | wsend (u : Nat) | wdone
  -- expanded worker (timer deadline)
  | e0 (dl : Nat) | eexec (u : Nat) | esend (u : Nat) | eexit | eexit2
  -- Start / Stop
  | st0 | st1
  | sp0 | sp1 | sp2 | sp3a | sp3b | sp3c | sp3d | sp4 | sp5 | sp5s (u : Nat)
  | exited
  | panicked
deriving DecidableEq, Repr, Hashable

inductive Act
  | callDo (ctx : CtxKind) | callTry (ctx : CtxKind) | callStart | callStop
  | beFixed | beExp                      -- a spawned goroutine starts running
  | tau | choose (k : Nat)               -- internal step / select choice
  | finish (u : Nat)                     -- environment: the gate of task u is released (its executor may return)
  | cancelTask (u : Nat) | cancelParent
  | advance (d : Nat)                    -- environment: virtual time passes
deriving Repr, DecidableEq

inductive Obs
  | retDo (u : Nat) | retTry (u : Nat) (b : Bool) | retStop | retStart
  | execStart (u : Nat)                  -- the executor of u was invoked
deriving Repr, DecidableEq

def G.task (g : G) (u : Nat) : Task := (g.tasks[u]?).getD { ctx := .never }
def G.setTask (g : G) (u : Nat) (t : Task) : G := { g with tasks := g.tasks.set u t }

def taskCtxDone (g : G) (u : Nat) : Bool :=
  match (g.task u).ctx with
  | .pool => g.ctxDone
  | .own => (g.task u).tdone
  | .never => false

def newTask (g : G) (c : CtxKind) : G := { g with tasks := g.tasks ++ [{ ctx := c }] }

/-- send on the task's result channel (capacity 1); `none` = would block -/
def sendRes (g : G) (u : Nat) (r : Res) : Option G :=
  let t := g.task u
  if t.results.length < 1 then some (g.setTask u { t with results := t.results ++ [r] }) else none

def enqueue (g : G) (u : Nat) : G := (g.setTask u { g.task u with enq := true }) |> fun g' => { g' with q := g'.q ++ [u] }

def runTask (g : G) (u : Nat) (rest : List Nat) : G :=
  let t := g.task u
  { (g.setTask u { t with exec := t.exec + 1 }) with q := rest }

/-- the three communicating cases shared by `push` and `TryDo`; `none` = that case is not ready.
`some (g', true)` = the case panics. -/
def selCase (g : G) (u : Nat) (k : Nat) : Option (G × Bool) :=
  match k with
  | 0 => if g.ctxDone then (sendRes g u .errPool).map (·, false) else none
  | 1 => if taskCtxDone g u then (sendRes g u .errTask).map (·, false) else none
  | 2 => if g.closed then some ({ g with panics := g.panics + 1 }, true)          -- send on closed channel
         else if g.q.length < 1 then some (enqueue g u, false) else none
  | _ => none

def step (P : Params) (_t : Tid) (g : G) : L → Act → Option (G × L × List Obs)
  | .idle, .callDo c => some (newTask g c, .d1 g.tasks.length, [])
  | .idle, .callTry c => some (newTask g c, .t1 g.tasks.length, [])
  | .idle, .callStart => some (g, .st0, [])
  | .idle, .callStop => some (g, .sp0, [])
  | .idle, .beFixed => if 0 < g.spawnFixed then some ({ g with spawnFixed := g.spawnFixed - 1 }, .w0, []) else none
  | .idle, .beExp => if 0 < g.spawnExp then some ({ g with spawnExp := g.spawnExp - 1 }, .e0 (g.now + P.lifetime), []) else none
  | .idle, .cancelTask u => some (g.setTask u { g.task u with tdone := true }, .idle, [])
  | .idle, .cancelParent => some ({ g with ctxDone := true }, .idle, [])
  | .idle, .advance d => some ({ g with now := g.now + d }, .idle, [])
  | .idle, .finish u => if (g.task u).released then none else some (g.setTask u { g.task u with released := true }, .idle, [])
  -- Do
  | .d1 u, .tau => if g.writer || g.wpending then none else some ({ g with readers := g.readers + 1 }, .d2 u, [])
  | .d2 u, .tau =>
      if g.state = 2 then some (g, .d3 u, [])
      else if P.limit = 0 then some (g, .push u, []) else some (g, .dsel u, [])
  | .d3 u, .tau => (sendRes g u .errPool).map (·, .d9 u, [])
  | .dsel u, .tau =>                                   -- select { case queue <- t: default: }
      if g.closed then some ({ g with panics := g.panics + 1 }, .panicked, [])
      else if g.q.length < 1 then some (enqueue g u, .d9 u, [])
      else some (g, .dres u, [])
  | .dres u, .tau =>
      let g' := { g with expanded := g.expanded + 1 }
      if g'.expanded ≤ (P.limit : Int) then some (g', .dspawn u, []) else some (g', .dundo u, [])
  | .dspawn u, .tau => some ({ g with wg := g.wg + 1, spawnExp := g.spawnExp + 1 }, .push u, [])
  | .dundo u, .tau => some ({ g with expanded := g.expanded - 1 }, .push u, [])
  | .push u, .choose k =>
      match selCase g u k with
      | some (g', true) => some (g', .panicked, [])
      | some (g', false) => some (g', .d9 u, [])
      | none => none
  | .d9 u, .tau => some ({ g with readers := g.readers - 1 }, .idle, [.retDo u])
  -- TryDo
  | .t1 u, .tau =>
      if g.writer || g.wpending then some (g, .t3 u false, []) else some ({ g with readers := g.readers + 1 }, .t2 u, [])
  | .t2 u, .tau => if g.state = 2 then some (g, .t3 u true, []) else some (g, .tsel u, [])
  | .t3 u locked, .tau =>
      (sendRes g u .errPool).map (fun g' => (g', if locked then .t9 u false else .idle, if locked then [] else [.retTry u false]))
  | .tsel u, .choose k =>
      if k = 3 then
        -- default: only when no communication can proceed
        if (selCase g u 0).isNone && (selCase g u 1).isNone && (selCase g u 2).isNone
        then some (g, .t9 u false, []) else none
      else match selCase g u k with
        | some (g', true) => some (g', .panicked, [])
        | some (g', false) => some (g', .t9 u (k == 2), [])
        | none => none
  | .t9 u r, .tau => some ({ g with readers := g.readers - 1 }, .idle, [.retTry u r])
  -- fixed worker: `for task := range queue { task.Execute() }; wg.Done()`
  | .w0, .tau =>
      match g.q with
      | u :: rest => some (runTask g u rest, .wexec u, [.execStart u])
      | [] => if g.closed then some ({ g with wg := g.wg - 1 }, .wdone, []) else none
  | .wexec u, .tau => if (g.task u).released then some (g, .wsend u, []) else none
  | .wsend u, .tau => (sendRes g u .val).map (·, .w0, [])
  | .wdone, .tau => some (g, .exited, [])
  -- expanded worker
  | .e0 dl, .choose k =>
      if k = 0 then
        match g.q with
        | u :: rest => some (runTask g u rest, .eexec u, [.execStart u])
        | [] => if g.closed then some (g, .eexit, []) else none
      else if k = 1 then (if dl ≤ g.now then some (g, .eexit, []) else none)
      else none
  | .eexec u, .tau => if (g.task u).released then some (g, .esend u, []) else none
  | .esend u, .tau => (sendRes g u .val).map (·, .e0 (g.now + P.lifetime), [])
  | .eexit, .tau => some ({ g with wg := g.wg - 1 }, .eexit2, [])
  | .eexit2, .tau => some ({ g with expanded := g.expanded - 1 }, .exited, [])
  -- Start
  | .st0, .tau =>
      if g.state = 0 then some ({ g with state := 1 }, .st1, []) else some (g, .idle, [.retStart])
  | .st1, .tau => some ({ g with wg := g.wg + P.nworker, spawnFixed := g.spawnFixed + P.nworker }, .idle, [.retStart])
  -- Stop
  | .sp0, .tau => if g.state = 1 then some ({ g with state := 2 }, .sp2, []) else some (g, .sp1, [])
  | .sp1, .tau => if g.state = 0 then some ({ g with state := 2 }, .sp2, []) else some (g, .idle, [.retStop])
  | .sp2, .tau => some ({ g with ctxDone := true }, .sp3a, [])
  | .sp3a, .tau => if g.writer || g.wpending then none else some ({ g with wpending := true }, .sp3b, [])
  | .sp3b, .tau => if g.readers = 0 then some ({ g with wpending := false, writer := true }, .sp3c, []) else none
  | .sp3c, .tau => if g.closed then some ({ g with panics := g.panics + 1 }, .panicked, []) else some ({ g with closed := true }, .sp3d, [])
  | .sp3d, .tau => some ({ g with writer := false }, .sp4, [])
  | .sp4, .tau => if g.wg = 0 then some (g, .sp5, []) else none
  | .sp5, .tau =>
      match g.q with
      | u :: rest => some ({ g with q := rest }, .sp5s u, [])
      | [] => some (g, .idle, [.retStop])           -- the queue is closed here: range ends
  | .sp5s u, .tau => (sendRes g u .errPool).map (·, .sp5, [])
  | _, _ => none

def M (P : Params) : Machine where
  G := G
  L := L
  Act := Act
  Obs := Obs
  init := {}
  idle := .idle
  step := step P



/-! ### The witness -/

def P10 : Params := { nworker := 1, limit := 0, lifetime := 1 }

def lOf (P : Params) (c : Config (M P)) (t : Tid) : L := c.l t
def gOf (P : Params) (c : Config (M P)) : G := c.g
def logOf (P : Params) (r : Config (M P) × List (Tid × (M P).Obs)) : List (Tid × Obs) := r.2

/-- `Do` on a pool created with `DisableAutoStart`, then `Start` and `Stop` concurrently -/
def raceTrace : List (Tid × Act) :=
  [ (3, .callDo .never), (3, .tau), (3, .tau), (3, .choose 2), (3, .tau),   -- Do(task 0): accepted into the buffer, returns
    (1, .callStart), (1, .tau),                                              -- Start: CAS 0→1 …
    (2, .callStop), (2, .tau), (2, .tau),                                    -- Stop: CAS 1→2, cancel
    (2, .tau), (2, .tau), (2, .tau), (2, .tau),                              -- Stop: Lock (2 steps), close, Unlock
    (2, .tau),                                                               -- Stop: wg.Wait() returns, the counter is 0
    (1, .tau),                                                               -- … Start: wg.Add(1); go worker()
    (4, .beFixed), (4, .tau),                                                -- the worker receives task 0 from the closed, non-empty queue
    (2, .tau) ]                                                              -- Stop: queue empty and closed, the drain loop ends, Stop returns

/-- after `raceTrace`, `Stop` has returned (thread 2 is idle again and has emitted `retStop`), nobody is inside `Start` or
`Stop` any more, but a worker (thread 4) is inside the executor of task 0, the accepted task 0 has no result, and
`wg = 1` -/
theorem start_stop_race_witness :
    let r := run (M P10) (Config.init (M P10)) raceTrace
    (2, Obs.retStop) ∈ logOf P10 r ∧ (gOf P10 r.1).state = 2 ∧
    lOf P10 r.1 1 = .idle ∧ lOf P10 r.1 2 = .idle ∧ lOf P10 r.1 3 = .idle ∧
    lOf P10 r.1 4 = .wexec 0 ∧
    ((gOf P10 r.1).task 0).enq = true ∧ ((gOf P10 r.1).task 0).exec = 1 ∧ ((gOf P10 r.1).task 0).results = [] ∧
    (gOf P10 r.1).wg = 1 ∧ (gOf P10 r.1).q = [] ∧ (gOf P10 r.1).closed = true := by
  decide

/-- the race step itself: after the first 9 events `Stop` has won its CAS 1→2 while `Start` (thread 1) is still
between its CAS and its `wg.Add` -/
theorem start_stop_race_point :
    let c := (run (M P10) (Config.init (M P10)) (raceTrace.take 9)).1
    (gOf P10 c).state = 2 ∧ lOf P10 c 1 = .st1 ∧ lOf P10 c 2 = .sp2 ∧ (gOf P10 c).wg = 0 := by
  decide

/-- … and the execution goes on after `Stop` returned: the executor of task 0 finishes and delivers its value -/
theorem start_stop_race_completes :
    let r := run (M P10) (Config.init (M P10)) (raceTrace ++ [(0, .finish 0), (4, .tau), (4, .tau), (4, .tau), (4, .tau)])
    ((gOf P10 r.1).task 0).results = [.val] ∧ lOf P10 r.1 4 = .exited ∧ (gOf P10 r.1).wg = 0 := by
  decide

/-! ### Second defect of the old code (fixed by commit 7805de8): `Stop` returning without stopping

`Stop` tried `CAS(1→2)` and then `CAS(0→2)`.  A `Start` whose `CAS(0→1)` falls between the two attempts makes both
fail: `Stop` returns having done nothing while the pool keeps running. -/

def noopTrace : List (Tid × Act) :=
  [ (2, .callStop), (2, .tau),            -- Stop: CAS 1→2 fails, the state is 0
    (1, .callStart), (1, .tau),           -- Start: CAS 0→1
    (2, .tau),                            -- Stop: CAS 0→2 fails, the state is 1; Stop returns
    (1, .tau) ]                           -- Start: wg.Add(1); go worker()

/-- after `noopTrace`, `Stop` has returned (`retStop` emitted, thread 2 idle) but the pool is running: state 1, context
not cancelled, queue open, a worker goroutine spawned -/
theorem stop_noop_witness :
    let r := run (M P10) (Config.init (M P10)) noopTrace
    (2, Obs.retStop) ∈ logOf P10 r ∧ lOf P10 r.1 2 = .idle ∧ lOf P10 r.1 1 = .idle ∧
    (gOf P10 r.1).state = 1 ∧ (gOf P10 r.1).ctxDone = false ∧ (gOf P10 r.1).closed = false ∧
    (gOf P10 r.1).spawnFixed = 1 ∧ (gOf P10 r.1).wg = 1 := by
  decide

end Garr.Pool.Old
