import Garr.Pool.Trans
/-!
# Counting threads by program counter, and the effect of the task operations on single fields
-/
namespace Garr.Pool
open Garr.Conc

/-! ## Counting: "`n` threads satisfy `p`", via a duplicate-free witness list -/

def Counts (p : L → Bool) (l : Tid → L) (n : Nat) : Prop :=
  ∃ ts : List Tid, ts.Nodup ∧ ts.length = n ∧ ∀ t, t ∈ ts ↔ p (l t) = true

theorem Counts.init (p : L → Bool) (h : p .idle = false) : Counts p (fun _ => L.idle) 0 :=
  ⟨[], List.nodup_nil, rfl, fun t => by simp [h]⟩

theorem Counts.pos {p : L → Bool} {l : Tid → L} {n : Nat} (h : Counts p l n) (t : Tid) (ht : p (l t) = true) : 0 < n := by
  obtain ⟨ts, _, hlen, hmem⟩ := h
  have : t ∈ ts := (hmem t).2 ht
  rw [← hlen]; exact List.length_pos_of_mem this

theorem Counts.zero {p : L → Bool} {l : Tid → L} (h : Counts p l 0) (t : Tid) : p (l t) = false := by
  cases hp : p (l t) with
  | false => rfl
  | true => exact absurd (h.pos t hp) (Nat.lt_irrefl 0)

theorem Counts.upd {p : L → Bool} {l : Tid → L} {n : Nat} (h : Counts p l n) (t : Tid) (l' : L) :
    Counts p (upd l t l') (n + (p l').toNat - (p (l t)).toNat) := by
  have hpos := h.pos t
  obtain ⟨ts, hnd, hlen, hmem⟩ := h
  cases hold : p (l t) <;> cases hnew : p l'
  · refine ⟨ts, hnd, by simp [hlen], fun u => ?_⟩
    by_cases hu : u = t
    · subst hu; simp [hmem, hold, hnew]
    · simp [hmem, Garr.Conc.upd, hu]
  · refine ⟨t :: ts, ?_, by simp [hlen], fun u => ?_⟩
    · refine List.nodup_cons.2 ⟨?_, hnd⟩
      rw [hmem]; simp [hold]
    · by_cases hu : u = t
      · subst hu; simp [hnew]
      · simp [hmem, Garr.Conc.upd, hu]
  · have htm : t ∈ ts := (hmem t).2 hold
    refine ⟨ts.erase t, hnd.erase t, ?_, fun u => ?_⟩
    · rw [List.length_erase_of_mem htm, hlen]; simp
    · rw [hnd.mem_erase_iff]
      by_cases hu : u = t
      · subst hu; simp [hnew]
      · simp [hmem, Garr.Conc.upd, hu]
  · have := hpos hold
    refine ⟨ts, hnd, by simp [hlen], fun u => ?_⟩
    by_cases hu : u = t
    · subst hu; simp [hmem, hold, hnew]
    · simp [hmem, Garr.Conc.upd, hu]

/-- a duplicate-free list of threads satisfying `p` is no longer than the count -/
theorem Counts.length_le {p : L → Bool} {l : Tid → L} {n : Nat} (h : Counts p l n) (ts : List Tid) (hnd : ts.Nodup)
    (hp : ∀ t ∈ ts, p (l t) = true) : ts.length ≤ n := by
  obtain ⟨rs, _, hlen, hmem⟩ := h
  rw [← hlen]
  exact hnd.length_le_of_subset (fun t ht => (hmem t).2 (hp t ht))

theorem Counts.unique {p : L → Bool} {l : Tid → L} {n m : Nat} (h : Counts p l n) (h' : Counts p l m) : n = m := by
  have h1 : n ≤ m := by
    obtain ⟨rs, hnd, hlen, hmem⟩ := h
    rw [← hlen]; exact h'.length_le rs hnd (fun t ht => (hmem t).1 ht)
  have h2 : m ≤ n := by
    obtain ⟨rs, hnd, hlen, hmem⟩ := h'
    rw [← hlen]; exact h.length_le rs hnd (fun t ht => (hmem t).1 ht)
  omega

theorem Counts.or {p q : L → Bool} {l : Tid → L} {n m : Nat} (hp : Counts p l n) (hq : Counts q l m)
    (hd : ∀ x, p x = true → q x = true → False) : Counts (fun x => p x || q x) l (n + m) := by
  obtain ⟨ps, hpn, hpl, hpm⟩ := hp
  obtain ⟨qs, hqn, hql, hqm⟩ := hq
  refine ⟨ps ++ qs, ?_, by simp [hpl, hql], fun t => ?_⟩
  · refine List.nodup_append.2 ⟨hpn, hqn, fun a ha b hb hab => ?_⟩
    subst hab
    exact hd _ ((hpm a).1 ha) ((hqm a).1 hb)
  · simp [hpm, hqm]

/-! ## Field lemmas for the operations on `G` -/

theorem task_default {g : G} {u : Nat} (h : g.tasks.length ≤ u) : g.task u = { ctx := .never } := by
  simp [G.task, List.getElem?_eq_none h]

theorem setTask_task (g : G) (u v : Nat) (x : Task) :
    (g.setTask u x).task v = if v = u ∧ u < g.tasks.length then x else g.task v := by
  unfold G.setTask G.task
  simp only [List.getElem?_set]
  by_cases h : u = v
  · subst h
    by_cases h2 : u < g.tasks.length <;> simp [h2]
  · have : ¬ v = u := fun e => h e.symm
    simp [h, this]

@[simp] theorem setTask_length (g : G) (u : Nat) (x : Task) : (g.setTask u x).tasks.length = g.tasks.length := by
  simp [G.setTask]

theorem newTask_task (g : G) (c : CtxKind) (v : Nat) :
    (newTask g c).task v = if v = g.tasks.length then { ctx := c } else g.task v := by
  unfold newTask G.task
  simp only [List.getElem?_append]
  by_cases h : v < g.tasks.length
  · have : v ≠ g.tasks.length := by omega
    simp [h, this]
  · by_cases h2 : v = g.tasks.length
    · subst h2; simp
    · have h3 : g.tasks.length < v := by omega
      simp [h, h2]
      cases hk : v - g.tasks.length with
      | zero => omega
      | succ k => simp

@[simp] theorem newTask_length (g : G) (c : CtxKind) : (newTask g c).tasks.length = g.tasks.length + 1 := by
  simp [newTask]

@[simp] theorem newTask_state (g : G) (c : CtxKind) : (newTask g c).state = g.state := rfl
@[simp] theorem setTask_state (g : G) (u : Nat) (x : Task) : (g.setTask u x).state = g.state := rfl
@[simp] theorem send_state (g : G) (u : Nat) (r : Res) : (g.send u r).state = g.state := rfl
@[simp] theorem newTask_ctxDone (g : G) (c : CtxKind) : (newTask g c).ctxDone = g.ctxDone := rfl
@[simp] theorem setTask_ctxDone (g : G) (u : Nat) (x : Task) : (g.setTask u x).ctxDone = g.ctxDone := rfl
@[simp] theorem send_ctxDone (g : G) (u : Nat) (r : Res) : (g.send u r).ctxDone = g.ctxDone := rfl
@[simp] theorem newTask_q (g : G) (c : CtxKind) : (newTask g c).q = g.q := rfl
@[simp] theorem setTask_q (g : G) (u : Nat) (x : Task) : (g.setTask u x).q = g.q := rfl
@[simp] theorem send_q (g : G) (u : Nat) (r : Res) : (g.send u r).q = g.q := rfl
@[simp] theorem newTask_closed (g : G) (c : CtxKind) : (newTask g c).closed = g.closed := rfl
@[simp] theorem setTask_closed (g : G) (u : Nat) (x : Task) : (g.setTask u x).closed = g.closed := rfl
@[simp] theorem send_closed (g : G) (u : Nat) (r : Res) : (g.send u r).closed = g.closed := rfl
@[simp] theorem newTask_expanded (g : G) (c : CtxKind) : (newTask g c).expanded = g.expanded := rfl
@[simp] theorem setTask_expanded (g : G) (u : Nat) (x : Task) : (g.setTask u x).expanded = g.expanded := rfl
@[simp] theorem send_expanded (g : G) (u : Nat) (r : Res) : (g.send u r).expanded = g.expanded := rfl
@[simp] theorem newTask_wg (g : G) (c : CtxKind) : (newTask g c).wg = g.wg := rfl
@[simp] theorem setTask_wg (g : G) (u : Nat) (x : Task) : (g.setTask u x).wg = g.wg := rfl
@[simp] theorem send_wg (g : G) (u : Nat) (r : Res) : (g.send u r).wg = g.wg := rfl
@[simp] theorem newTask_spawnFixed (g : G) (c : CtxKind) : (newTask g c).spawnFixed = g.spawnFixed := rfl
@[simp] theorem setTask_spawnFixed (g : G) (u : Nat) (x : Task) : (g.setTask u x).spawnFixed = g.spawnFixed := rfl
@[simp] theorem send_spawnFixed (g : G) (u : Nat) (r : Res) : (g.send u r).spawnFixed = g.spawnFixed := rfl
@[simp] theorem newTask_spawnExp (g : G) (c : CtxKind) : (newTask g c).spawnExp = g.spawnExp := rfl
@[simp] theorem setTask_spawnExp (g : G) (u : Nat) (x : Task) : (g.setTask u x).spawnExp = g.spawnExp := rfl
@[simp] theorem send_spawnExp (g : G) (u : Nat) (r : Res) : (g.send u r).spawnExp = g.spawnExp := rfl
@[simp] theorem newTask_readers (g : G) (c : CtxKind) : (newTask g c).readers = g.readers := rfl
@[simp] theorem setTask_readers (g : G) (u : Nat) (x : Task) : (g.setTask u x).readers = g.readers := rfl
@[simp] theorem send_readers (g : G) (u : Nat) (r : Res) : (g.send u r).readers = g.readers := rfl
@[simp] theorem newTask_writer (g : G) (c : CtxKind) : (newTask g c).writer = g.writer := rfl
@[simp] theorem setTask_writer (g : G) (u : Nat) (x : Task) : (g.setTask u x).writer = g.writer := rfl
@[simp] theorem send_writer (g : G) (u : Nat) (r : Res) : (g.send u r).writer = g.writer := rfl
@[simp] theorem newTask_wpending (g : G) (c : CtxKind) : (newTask g c).wpending = g.wpending := rfl
@[simp] theorem setTask_wpending (g : G) (u : Nat) (x : Task) : (g.setTask u x).wpending = g.wpending := rfl
@[simp] theorem send_wpending (g : G) (u : Nat) (r : Res) : (g.send u r).wpending = g.wpending := rfl
@[simp] theorem newTask_now (g : G) (c : CtxKind) : (newTask g c).now = g.now := rfl
@[simp] theorem setTask_now (g : G) (u : Nat) (x : Task) : (g.setTask u x).now = g.now := rfl
@[simp] theorem send_now (g : G) (u : Nat) (r : Res) : (g.send u r).now = g.now := rfl
@[simp] theorem newTask_panics (g : G) (c : CtxKind) : (newTask g c).panics = g.panics := rfl
@[simp] theorem setTask_panics (g : G) (u : Nat) (x : Task) : (g.setTask u x).panics = g.panics := rfl
@[simp] theorem send_panics (g : G) (u : Nat) (r : Res) : (g.send u r).panics = g.panics := rfl
@[simp] theorem enqueue_state (g : G) (u : Nat) : (enqueue g u).state = g.state := rfl
@[simp] theorem runTask_state (g : G) (u : Nat) (rest : List Nat) : (runTask g u rest).state = g.state := rfl
@[simp] theorem enqueue_ctxDone (g : G) (u : Nat) : (enqueue g u).ctxDone = g.ctxDone := rfl
@[simp] theorem runTask_ctxDone (g : G) (u : Nat) (rest : List Nat) : (runTask g u rest).ctxDone = g.ctxDone := rfl
@[simp] theorem enqueue_closed (g : G) (u : Nat) : (enqueue g u).closed = g.closed := rfl
@[simp] theorem runTask_closed (g : G) (u : Nat) (rest : List Nat) : (runTask g u rest).closed = g.closed := rfl
@[simp] theorem enqueue_expanded (g : G) (u : Nat) : (enqueue g u).expanded = g.expanded := rfl
@[simp] theorem runTask_expanded (g : G) (u : Nat) (rest : List Nat) : (runTask g u rest).expanded = g.expanded := rfl
@[simp] theorem enqueue_wg (g : G) (u : Nat) : (enqueue g u).wg = g.wg := rfl
@[simp] theorem runTask_wg (g : G) (u : Nat) (rest : List Nat) : (runTask g u rest).wg = g.wg := rfl
@[simp] theorem enqueue_spawnFixed (g : G) (u : Nat) : (enqueue g u).spawnFixed = g.spawnFixed := rfl
@[simp] theorem runTask_spawnFixed (g : G) (u : Nat) (rest : List Nat) : (runTask g u rest).spawnFixed = g.spawnFixed := rfl
@[simp] theorem enqueue_spawnExp (g : G) (u : Nat) : (enqueue g u).spawnExp = g.spawnExp := rfl
@[simp] theorem runTask_spawnExp (g : G) (u : Nat) (rest : List Nat) : (runTask g u rest).spawnExp = g.spawnExp := rfl
@[simp] theorem enqueue_readers (g : G) (u : Nat) : (enqueue g u).readers = g.readers := rfl
@[simp] theorem runTask_readers (g : G) (u : Nat) (rest : List Nat) : (runTask g u rest).readers = g.readers := rfl
@[simp] theorem enqueue_writer (g : G) (u : Nat) : (enqueue g u).writer = g.writer := rfl
@[simp] theorem runTask_writer (g : G) (u : Nat) (rest : List Nat) : (runTask g u rest).writer = g.writer := rfl
@[simp] theorem enqueue_wpending (g : G) (u : Nat) : (enqueue g u).wpending = g.wpending := rfl
@[simp] theorem runTask_wpending (g : G) (u : Nat) (rest : List Nat) : (runTask g u rest).wpending = g.wpending := rfl
@[simp] theorem enqueue_now (g : G) (u : Nat) : (enqueue g u).now = g.now := rfl
@[simp] theorem runTask_now (g : G) (u : Nat) (rest : List Nat) : (runTask g u rest).now = g.now := rfl
@[simp] theorem enqueue_panics (g : G) (u : Nat) : (enqueue g u).panics = g.panics := rfl
@[simp] theorem runTask_panics (g : G) (u : Nat) (rest : List Nat) : (runTask g u rest).panics = g.panics := rfl
@[simp] theorem enqueue_q (g : G) (u : Nat) : (enqueue g u).q = g.q ++ [u] := rfl
@[simp] theorem runTask_q (g : G) (u : Nat) (rest : List Nat) : (runTask g u rest).q = rest := rfl
@[simp] theorem send_length (g : G) (u : Nat) (r : Res) : (g.send u r).tasks.length = g.tasks.length := by simp [G.send]
@[simp] theorem enqueue_length (g : G) (u : Nat) : (enqueue g u).tasks.length = g.tasks.length := by simp [enqueue, G.setTask]
@[simp] theorem runTask_length (g : G) (u : Nat) (rest : List Nat) : (runTask g u rest).tasks.length = g.tasks.length := by
  simp [runTask, G.setTask]

theorem send_task (g : G) (u v : Nat) (r : Res) :
    (g.send u r).task v = if v = u ∧ u < g.tasks.length then { g.task u with results := [r] } else g.task v :=
  setTask_task g u v _

theorem enqueue_task (g : G) (u v : Nat) :
    (enqueue g u).task v = if v = u ∧ u < g.tasks.length then { g.task u with enq := true } else g.task v := by
  show (g.setTask u { g.task u with enq := true }).task v = _
  exact setTask_task g u v _

theorem runTask_task (g : G) (u v : Nat) (rest : List Nat) :
    (runTask g u rest).task v =
      if v = u ∧ u < g.tasks.length then { g.task u with exec := (g.task u).exec + 1 } else g.task v := by
  show (g.setTask u { g.task u with exec := (g.task u).exec + 1 }).task v = _
  exact setTask_task g u v _

/-- the three ghost fields of a task that the invariants speak about -/
structure SameTasks (g g' : G) : Prop where
  len : g'.tasks.length = g.tasks.length
  enq : ∀ v, (g'.task v).enq = (g.task v).enq
  exec : ∀ v, (g'.task v).exec = (g.task v).exec
  results : ∀ v, (g'.task v).results = (g.task v).results

theorem SameTasks.of_tasks {g g' : G} (h : g'.tasks = g.tasks) : SameTasks g g' := by
  have : ∀ v, g'.task v = g.task v := fun v => by simp [G.task, h]
  exact ⟨by rw [h], fun v => by rw [this], fun v => by rw [this], fun v => by rw [this]⟩

theorem SameTasks.cancel (g : G) (u : Nat) : SameTasks g (g.setTask u { g.task u with tdone := true }) := by
  refine ⟨by simp, fun v => ?_, fun v => ?_, fun v => ?_⟩ <;>
  · rw [setTask_task]; split
    · rename_i h; rw [h.1]
    · rfl

theorem SameTasks.finish (g : G) (u : Nat) : SameTasks g (g.setTask u { g.task u with released := true }) := by
  refine ⟨by simp, fun v => ?_, fun v => ?_, fun v => ?_⟩ <;>
  · rw [setTask_task]; split
    · rename_i h; rw [h.1]
    · rfl

end Garr.Pool
