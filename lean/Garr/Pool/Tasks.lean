import Garr.Pool.Lock
/-!
# Worker-pool model: task ownership and exactly-once bookkeeping
-/
namespace Garr.Pool
open Garr.Conc

/-! ## Tasks: who holds a task, exactly-once bookkeeping -/

inductive Role | pre | run | drain
deriving DecidableEq, Repr

/-- the task a thread is responsible for: a submitter before its hand-over (`pre`), a worker that has taken
the task from the queue and not yet delivered the result (`run`), `Stop` draining it (`drain`) -/
def role : L → Option (Role × Nat)
  | .d1 u | .d2 u | .d3 u | .dsel u | .dres u | .dspawn u | .dundo u | .push u => some (.pre, u)
  | .t1 u | .t2 u | .t3 u _ | .tsel u => some (.pre, u)
  | .wexec u | .wsend u | .eexec u | .esend u => some (.run, u)
  | .sp5s u => some (.drain, u)
  | _ => none

/-- everything the invariant says about one task -/
structure TaskOK (g : G) (ls : Tid → L) (u : Nat) : Prop where
  len : (u ∈ g.q ∨ ∃ t r, role (ls t) = some (r, u)) → u < g.tasks.length
  pre : ∀ t, role (ls t) = some (.pre, u) →
    (g.task u).enq = false ∧ (g.task u).exec = 0 ∧ (g.task u).results = []
  queued : u ∈ g.q → (g.task u).enq = true ∧ (g.task u).exec = 0 ∧ (g.task u).results = []
  run : ∀ t, role (ls t) = some (.run, u) →
    (g.task u).enq = true ∧ (g.task u).exec = 1 ∧ (g.task u).results = []
  drain : ∀ t, role (ls t) = some (.drain, u) →
    (g.task u).enq = true ∧ (g.task u).exec = 0 ∧ (g.task u).results = [] ∧ u ∉ g.q
  uniq : ∀ t t' r, role (ls t) = some (r, u) → role (ls t') = some (r, u) → t = t'
  located : (g.task u).enq = true →
    u ∈ g.q ∨ (∃ t, role (ls t) = some (.run, u)) ∨ (∃ t, role (ls t) = some (.drain, u)) ∨ (g.task u).results ≠ []
  exec_le : (g.task u).exec ≤ 1
  exec_one : (g.task u).exec = 1 →
    (g.task u).enq = true ∧ ((∃ t, role (ls t) = some (.run, u)) ∨ (g.task u).results = [.val])
  res : (g.task u).results = [] ∨ ((g.task u).results = [.val] ∧ (g.task u).exec = 1) ∨
    (∃ r, r ≠ .val ∧ (g.task u).results = [r] ∧ (g.task u).exec = 0)

structure TaskInv (g : G) (ls : Tid → L) : Prop where
  qlen : g.q.length ≤ 1
  ok : ∀ u, TaskOK g ls u

/-- `TaskOK u` only depends on the three ghost fields of `u`, on `u ∈ q`, and on who has a role on `u`;
a `pre` role may be dropped -/
theorem TaskOK.congr {g g' : G} {ls ls' : Tid → L} {u : Nat} (h : TaskOK g ls u)
    (hlen : g.tasks.length ≤ g'.tasks.length)
    (he : (g'.task u).enq = (g.task u).enq) (hx : (g'.task u).exec = (g.task u).exec)
    (hr : (g'.task u).results = (g.task u).results)
    (hq : u ∈ g'.q ↔ u ∈ g.q)
    (hsub : ∀ t r, role (ls' t) = some (r, u) → role (ls t) = some (r, u))
    (hkeep : ∀ t r, r ≠ .pre → role (ls t) = some (r, u) → role (ls' t) = some (r, u)) : TaskOK g' ls' u := by
  obtain ⟨h0, h1, h2, h3, h4, h5, h6, h7, h8, h9⟩ := h
  refine ⟨?_, ?_, ?_, ?_, ?_, ?_, ?_, ?_, ?_, ?_⟩
  · rintro (hm | ⟨t, r, ht⟩)
    · exact Nat.lt_of_lt_of_le (h0 (Or.inl (hq.1 hm))) hlen
    · exact Nat.lt_of_lt_of_le (h0 (Or.inr ⟨t, r, hsub t r ht⟩)) hlen
  · intro t ht; rw [he, hx, hr]; exact h1 t (hsub t _ ht)
  · intro hm; rw [he, hx, hr]; exact h2 (hq.1 hm)
  · intro t ht; rw [he, hx, hr]; exact h3 t (hsub t _ ht)
  · intro t ht; rw [he, hx, hr, hq]; exact h4 t (hsub t _ ht)
  · intro t t' r ht ht'; exact h5 t t' r (hsub t r ht) (hsub t' r ht')
  · rw [he, hr, hq]
    intro hen
    rcases h6 hen with h | ⟨t, h⟩ | ⟨t, h⟩ | h
    · exact Or.inl h
    · exact Or.inr (Or.inl ⟨t, hkeep t _ (by decide) h⟩)
    · exact Or.inr (Or.inr (Or.inl ⟨t, hkeep t _ (by decide) h⟩))
    · exact Or.inr (Or.inr (Or.inr h))
  · rw [hx]; exact h7
  · rw [hx, he, hr]
    intro h1'
    obtain ⟨ha, hb⟩ := h8 h1'
    refine ⟨ha, ?_⟩
    rcases hb with ⟨t, h⟩ | h
    · exact Or.inl ⟨t, hkeep t _ (by decide) h⟩
    · exact Or.inr h
  · rw [hx, hr]; exact h9

theorem TaskOK.congr_upd {g g' : G} {ls : Tid → L} {t : Tid} {l' : L} {u : Nat} (h : TaskOK g ls u)
    (hlen : g.tasks.length ≤ g'.tasks.length)
    (he : (g'.task u).enq = (g.task u).enq) (hx : (g'.task u).exec = (g.task u).exec)
    (hr : (g'.task u).results = (g.task u).results)
    (hq : u ∈ g'.q ↔ u ∈ g.q)
    (hsub : ∀ r, role l' = some (r, u) → role (ls t) = some (r, u))
    (hkeep : ∀ r, r ≠ .pre → role (ls t) = some (r, u) → role l' = some (r, u)) : TaskOK g' (upd ls t l') u := by
  refine h.congr hlen he hx hr hq ?_ ?_
  · intro a r ha
    rcases upd_eq_or ls t l' a with ⟨xa, ea⟩ | ⟨na, ea⟩ <;> rw [ea] at ha
    · rw [xa]; exact hsub r ha
    · exact ha
  · intro a r hr' ha
    rcases upd_eq_or ls t l' a with ⟨xa, ea⟩ | ⟨na, ea⟩ <;> rw [ea]
    · rw [xa] at ha; exact hkeep r hr' ha
    · exact ha

/-- the same clauses when at most one thread (`t`, with role `ρ`) is concerned with `u` -/
structure LC (e : Bool) (x : Nat) (rs : List Res) (inq : Prop) (ρ : Option Role) : Prop where
  pre : ρ = some .pre → e = false ∧ x = 0 ∧ rs = []
  queued : inq → e = true ∧ x = 0 ∧ rs = []
  run : ρ = some .run → e = true ∧ x = 1 ∧ rs = []
  drain : ρ = some .drain → e = true ∧ x = 0 ∧ rs = [] ∧ ¬ inq
  located : e = true → inq ∨ ρ = some .run ∨ ρ = some .drain ∨ rs ≠ []
  exec_le : x ≤ 1
  exec_one : x = 1 → e = true ∧ (ρ = some .run ∨ rs = [.val])
  res : rs = [] ∨ (rs = [.val] ∧ x = 1) ∨ (∃ r, r ≠ .val ∧ rs = [r] ∧ x = 0)

theorem TaskOK.of_single {g' : G} {ls' : Tid → L} {u : Nat} {t : Tid} {ρ : Option Role}
    (hlen : u < g'.tasks.length)
    (hothers : ∀ t'' r, t'' ≠ t → role (ls' t'') ≠ some (r, u))
    (hself : ∀ r, role (ls' t) = some (r, u) ↔ ρ = some r)
    (hc : LC (g'.task u).enq (g'.task u).exec (g'.task u).results (u ∈ g'.q) ρ) : TaskOK g' ls' u := by
  have hrole : ∀ t'' r, role (ls' t'') = some (r, u) → t'' = t ∧ ρ = some r := by
    intro t'' r h
    by_cases ht : t'' = t
    · subst ht; exact ⟨rfl, (hself r).1 h⟩
    · exact absurd h (hothers t'' r ht)
  obtain ⟨c1, c2, c3, c4, c5, c6, c7, c8⟩ := hc
  refine ⟨fun _ => hlen, ?_, c2, ?_, ?_, ?_, ?_, c6, ?_, c8⟩
  · intro a ha; exact c1 (hrole a _ ha).2
  · intro a ha; exact c3 (hrole a _ ha).2
  · intro a ha; exact c4 (hrole a _ ha).2
  · intro a b r ha hb; exact (hrole a r ha).1.trans (hrole b r hb).1.symm
  · intro he
    rcases c5 he with h | h | h | h
    · exact Or.inl h
    · exact Or.inr (Or.inl ⟨t, (hself _).2 h⟩)
    · exact Or.inr (Or.inr (Or.inl ⟨t, (hself _).2 h⟩))
    · exact Or.inr (Or.inr (Or.inr h))
  · intro hx
    obtain ⟨ha, hb⟩ := c7 hx
    refine ⟨ha, ?_⟩
    rcases hb with h | h
    · exact Or.inl ⟨t, (hself _).2 h⟩
    · exact Or.inr h

theorem TaskOK.fields {g : G} {ls : Tid → L} {u : Nat} (h : TaskOK g ls u) {t : Tid} {ρ : Role}
    (ht : role (ls t) = some (ρ, u)) :
    (g.task u).enq = decide (ρ ≠ .pre) ∧ (g.task u).exec = (if ρ = .run then 1 else 0) ∧
      (g.task u).results = [] ∧ u ∉ g.q ∧ u < g.tasks.length := by
  have hl := h.len (Or.inr ⟨t, ρ, ht⟩)
  cases ρ
  · obtain ⟨a, b, c⟩ := h.pre t ht
    refine ⟨by simp [a], by simp [b], c, fun hq => ?_, hl⟩
    have := (h.queued hq).1; rw [a] at this; cases this
  · obtain ⟨a, b, c⟩ := h.run t ht
    refine ⟨by simp [a], by simp [b], c, fun hq => ?_, hl⟩
    have := (h.queued hq).2.1; rw [b] at this; cases this
  · obtain ⟨a, b, c, d⟩ := h.drain t ht
    exact ⟨by simp [a], by simp [b], c, d, hl⟩

theorem TaskOK.excl_role {g : G} {ls : Tid → L} {u : Nat} (h : TaskOK g ls u) {t t' : Tid} {ρ r : Role}
    (ht : role (ls t) = some (ρ, u)) (hne : t' ≠ t) : role (ls t') ≠ some (r, u) := by
  intro ht'
  obtain ⟨a, b, _⟩ := h.fields ht
  obtain ⟨a', b', _⟩ := h.fields ht'
  rw [a] at a'; rw [b] at b'
  cases ρ <;> cases r <;> simp at a' b'
  all_goals exact hne (h.uniq _ _ _ ht' ht)

theorem TaskOK.excl_q {g : G} {ls : Tid → L} {u : Nat} (h : TaskOK g ls u) (hq : u ∈ g.q) (t' : Tid) (r : Role) :
    role (ls t') ≠ some (r, u) := fun ht' => (h.fields ht').2.2.2.1 hq

theorem LC.mk_pre {inq : Prop} (h : ¬ inq) : LC false 0 [] inq (some .pre) := by
  constructor <;> simp [h]

theorem LC.mk_err {e : Bool} {r : Res} {inq : Prop} (hr : r ≠ .val) (h : ¬ inq) : LC e 0 [r] inq none := by
  constructor <;> simp [h, hr]

theorem LC.mk_queued {inq : Prop} (h : inq) : LC true 0 [] inq none := by
  constructor <;> simp [h]

theorem LC.mk_run {inq : Prop} (h : ¬ inq) : LC true 1 [] inq (some .run) := by
  constructor <;> simp [h]

theorem LC.mk_done {inq : Prop} (h : ¬ inq) : LC true 1 [.val] inq none := by
  constructor <;> simp [h]

theorem LC.mk_drain {inq : Prop} (h : ¬ inq) : LC true 0 [] inq (some .drain) := by
  constructor <;> simp [h]

/-! ### Preservation, by kind of step -/

/-- a step that touches neither the queue nor the ghost fields, and keeps the acting thread's role (or drops
a `pre` role) -/
theorem TaskInv.frame {g g' : G} {ls : Tid → L} {t : Tid} {l' : L} (hinv : TaskInv g ls) (hs : SameTasks g g')
    (hq : g'.q = g.q)
    (hsub : ∀ r u, role l' = some (r, u) → role (ls t) = some (r, u))
    (hkeep : ∀ r u, r ≠ .pre → role (ls t) = some (r, u) → role l' = some (r, u)) :
    TaskInv g' (upd ls t l') :=
  ⟨by rw [hq]; exact hinv.qlen, fun u => (hinv.ok u).congr_upd (by rw [hs.len]; exact Nat.le_refl _)
    (hs.enq u) (hs.exec u) (hs.results u) (by rw [hq]) (fun r => hsub r u) (fun r => hkeep r u)⟩

/-- a step that concerns a single task `u0`, with which no other thread is concerned -/
theorem TaskInv.modify {g g' : G} {ls : Tid → L} {t : Tid} {l' : L} (hinv : TaskInv g ls) (u0 : Nat) (ρ' : Option Role)
    (hlen : g.tasks.length ≤ g'.tasks.length) (hu0 : u0 < g'.tasks.length)
    (hqlen : g'.q.length ≤ 1)
    (hfields : ∀ v, v ≠ u0 → (g'.task v).enq = (g.task v).enq ∧ (g'.task v).exec = (g.task v).exec ∧
      (g'.task v).results = (g.task v).results)
    (hq : ∀ v, v ≠ u0 → (v ∈ g'.q ↔ v ∈ g.q))
    (hold : ∀ r v, role (ls t) = some (r, v) → v = u0)
    (hnew : role l' = ρ'.map (fun r => (r, u0)))
    (hothers : ∀ t'' r, t'' ≠ t → role (ls t'') ≠ some (r, u0))
    (hc : LC (g'.task u0).enq (g'.task u0).exec (g'.task u0).results (u0 ∈ g'.q) ρ') :
    TaskInv g' (upd ls t l') := by
  refine ⟨hqlen, fun u => ?_⟩
  by_cases hu : u = u0
  · subst hu
    refine TaskOK.of_single (t := t) (ρ := ρ') hu0 ?_ ?_ hc
    · intro t'' r hne
      rw [upd_other _ _ _ _ hne]; exact hothers t'' r hne
    · intro r
      rw [upd_same, hnew]
      cases ρ' <;> simp
  · obtain ⟨a, b, c⟩ := hfields u hu
    refine (hinv.ok u).congr_upd hlen a b c (hq u hu) ?_ ?_
    · intro r hr
      rw [hnew] at hr
      cases ρ' <;> simp at hr
      exact absurd hr.2.symm hu
    · intro r _ hr
      exact absurd (hold r u hr) hu

theorem TaskInv.alloc {g : G} {ls : Tid → L} {t : Tid} {l' : L} (hinv : TaskInv g ls) (c : CtxKind)
    (hrole : role (ls t) = none) (hl' : role l' = some (.pre, g.tasks.length)) :
    TaskInv (newTask g c) (upd ls t l') := by
  have hnq : g.tasks.length ∉ g.q := fun h => Nat.lt_irrefl _ ((hinv.ok _).len (Or.inl h))
  refine hinv.modify g.tasks.length (some .pre) (by simp) (by simp) hinv.qlen ?_ (fun v _ => Iff.rfl) ?_ hl' ?_ ?_
  · intro v hv; simp [newTask_task, hv]
  · intro r v h; rw [hrole] at h; cases h
  · intro t'' r _ h
    exact Nat.lt_irrefl _ ((hinv.ok _).len (Or.inr ⟨t'', r, h⟩))
  · have : (newTask g c).task g.tasks.length = { ctx := c } := by simp [newTask_task]
    rw [this]
    exact LC.mk_pre hnq

/-- an error result is sent by the submitter (before hand-over) or by the draining `Stop` -/
theorem TaskInv.errsend {g : G} {ls : Tid → L} {t : Tid} {l' : L} (hinv : TaskInv g ls) (u0 : Nat) (ρ : Role) (r : Res)
    (hrole : role (ls t) = some (ρ, u0)) (hρ : ρ ≠ .run) (hr : r ≠ .val) (hl' : role l' = none) :
    TaskInv (g.send u0 r) (upd ls t l') := by
  obtain ⟨fe, fx, fr, fq, flen⟩ := (hinv.ok u0).fields hrole
  refine hinv.modify u0 none (by simp) (by simpa using flen) hinv.qlen ?_ (fun v _ => Iff.rfl) ?_ hl' ?_ ?_
  · intro v hv; simp [send_task, hv]
  · intro r' v h; rw [hrole] at h; cases h; rfl
  · intro t'' r' hne; exact (hinv.ok u0).excl_role hrole hne
  · have h1 : ((g.send u0 r).task u0).exec = 0 := by
      simp [send_task, flen, fx, hρ]
    have h2 : ((g.send u0 r).task u0).results = [r] := by simp [send_task, flen]
    rw [h1, h2]
    exact LC.mk_err hr fq

theorem TaskInv.enq {g : G} {ls : Tid → L} {t : Tid} {l' : L} (hinv : TaskInv g ls) (u0 : Nat)
    (hrole : role (ls t) = some (.pre, u0)) (hq : g.q = []) (hl' : role l' = none) :
    TaskInv (enqueue g u0) (upd ls t l') := by
  obtain ⟨fe, fx, fr, fq, flen⟩ := (hinv.ok u0).fields hrole
  refine hinv.modify u0 none (by simp) (by simpa using flen) (by simp [hq]) ?_ ?_ ?_ hl' ?_ ?_
  · intro v hv; simp [enqueue_task, hv]
  · intro v hv; simp [hq, hv]
  · intro r' v h; rw [hrole] at h; cases h; rfl
  · intro t'' r' hne; exact (hinv.ok u0).excl_role hrole hne
  · have h0 : ((enqueue g u0).task u0).enq = true := by simp [enqueue_task, flen]
    have h1 : ((enqueue g u0).task u0).exec = 0 := by simpa [enqueue_task, flen] using fx
    have h2 : ((enqueue g u0).task u0).results = [] := by simpa [enqueue_task, flen] using fr
    rw [h0, h1, h2]
    exact LC.mk_queued (by simp)

theorem q_singleton {g : G} {u : Nat} {rest : List Nat} (hlen : g.q.length ≤ 1) (hq : g.q = u :: rest) : rest = [] := by
  rw [hq] at hlen
  cases rest with
  | nil => rfl
  | cons a as => simp at hlen

theorem TaskInv.take {g : G} {ls : Tid → L} {t : Tid} {l' : L} (hinv : TaskInv g ls) (u0 : Nat) (rest : List Nat)
    (hrole : role (ls t) = none) (hq : g.q = u0 :: rest) (hl' : role l' = some (.run, u0)) :
    TaskInv (runTask g u0 rest) (upd ls t l') := by
  have hrest := q_singleton hinv.qlen hq
  subst hrest
  have hmem : u0 ∈ g.q := by simp [hq]
  have flen := (hinv.ok u0).len (Or.inl hmem)
  obtain ⟨fe, fx, fr⟩ := (hinv.ok u0).queued hmem
  refine hinv.modify u0 (some .run) (by simp) (by simpa using flen) (by simp) ?_ ?_ ?_ hl' ?_ ?_
  · intro v hv; simp [runTask_task, hv]
  · intro v hv; simp [hq, hv]
  · intro r' v h; rw [hrole] at h; cases h
  · intro t'' r' _; exact (hinv.ok u0).excl_q hmem t'' r'
  · have h0 : ((runTask g u0 []).task u0).enq = true := by simpa [runTask_task, flen] using fe
    have h1 : ((runTask g u0 []).task u0).exec = 1 := by simp [runTask_task, flen, fx]
    have h2 : ((runTask g u0 []).task u0).results = [] := by simpa [runTask_task, flen] using fr
    rw [h0, h1, h2]
    exact LC.mk_run (by simp)

theorem TaskInv.deliver {g : G} {ls : Tid → L} {t : Tid} {l' : L} (hinv : TaskInv g ls) (u0 : Nat)
    (hrole : role (ls t) = some (.run, u0)) (hl' : role l' = none) :
    TaskInv (g.send u0 .val) (upd ls t l') := by
  obtain ⟨fe, fx, fr, fq, flen⟩ := (hinv.ok u0).fields hrole
  refine hinv.modify u0 none (by simp) (by simpa using flen) hinv.qlen ?_ (fun v _ => Iff.rfl) ?_ hl' ?_ ?_
  · intro v hv; simp [send_task, hv]
  · intro r' v h; rw [hrole] at h; cases h; rfl
  · intro t'' r' hne; exact (hinv.ok u0).excl_role hrole hne
  · have h0 : ((g.send u0 .val).task u0).enq = true := by simpa [send_task, flen] using fe
    have h1 : ((g.send u0 .val).task u0).exec = 1 := by simpa [send_task, flen] using fx
    have h2 : ((g.send u0 .val).task u0).results = [.val] := by simp [send_task, flen]
    rw [h0, h1, h2]
    exact LC.mk_done fq

theorem TaskInv.dtake {g : G} {ls : Tid → L} {t : Tid} {l' : L} (hinv : TaskInv g ls) (u0 : Nat) (rest : List Nat)
    (hrole : role (ls t) = none) (hq : g.q = u0 :: rest) (hl' : role l' = some (.drain, u0)) :
    TaskInv { g with q := rest } (upd ls t l') := by
  have hrest := q_singleton hinv.qlen hq
  subst hrest
  have hmem : u0 ∈ g.q := by simp [hq]
  have flen := (hinv.ok u0).len (Or.inl hmem)
  obtain ⟨fe, fx, fr⟩ := (hinv.ok u0).queued hmem
  have htask : ∀ v, G.task { g with q := [] } v = g.task v := fun v => rfl
  refine hinv.modify u0 (some .drain) (Nat.le_refl _) flen (by simp) ?_ ?_ ?_ hl' ?_ ?_
  · intro v hv; simp [htask]
  · intro v hv; simp [hq, hv]
  · intro r' v h; rw [hrole] at h; cases h
  · intro t'' r' _; exact (hinv.ok u0).excl_q hmem t'' r'
  · rw [htask, fe, fx, fr]
    exact LC.mk_drain (by simp)

theorem TaskInv.step {P : Params} {g g' : G} {ls : Tid → L} {t : Tid} {l : L} {a : Act} {l' : L}
    (hinv : TaskInv g ls) (hl : ls t = l) (h : Trans P g l a g' l') : TaskInv g' (upd ls t l') := by
  cases h
  all_goals first
    | (refine hinv.frame (SameTasks.of_tasks rfl) rfl ?_ ?_ <;>
        first | (simp [hl, role]; done) | (intros; simp_all [role]; done))
    | (refine hinv.frame (SameTasks.cancel _ _) rfl ?_ ?_ <;> simp [hl, role]; done)
    | (refine hinv.frame (SameTasks.finish _ _) rfl ?_ ?_ <;> simp [hl, role]; done)
    | (refine hinv.alloc _ ?_ ?_ <;> simp [hl, role]; done)
    | (refine hinv.errsend _ .pre _ ?_ (by decide) (by decide) ?_ <;> simp [hl, role]; done)
    | (refine hinv.errsend _ .drain _ ?_ (by decide) (by decide) ?_ <;> simp [hl, role]; done)
    | (refine hinv.enq _ ?_ (by assumption) ?_ <;> simp [hl, role]; done)
    | (refine hinv.take _ _ ?_ (by assumption) ?_ <;> simp [hl, role]; done)
    | (refine hinv.deliver _ ?_ ?_ <;> simp [hl, role]; done)
    | (refine hinv.dtake _ _ ?_ (by assumption) ?_ <;> simp [hl, role]; done)

end Garr.Pool
