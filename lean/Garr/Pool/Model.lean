import Garr.Conc
/-!
# Small-step model of `worker-pool/pool.go` (after the `fix:` commits 4ca4c2b, 1d81fc9, eaca25b, 7805de8)

Go semantics modelled from the language specification: a buffered channel of capacity 1 (`taskQueue`) with a
`closed` flag; `select` chooses ANY ready case (`Act.choose k`); a send on a closed channel panics (also inside
`select`); receive on a closed and drained channel yields `!ok`; result channels have capacity 1 (a second
send blocks for ever); `sync.RWMutex` = readers count + writer flag + writer-pending flag (a pending writer
blocks new readers; `TryRLock` fails while a writer holds or awaits the lock); `sync.WaitGroup` = counter;
`context`: the pool context is done after `Stop`'s `cancel()` or when the parent is cancelled; timers of
expanded workers are deadlines in virtual time (`now`), advanced by the environment.
Environment actions: finish a running executor (the harness' gate), cancel a task context / the parent
context, advance time, start a spawned goroutine.
-/
namespace Garr.Pool
open Garr.Conc

structure Params where
  nworker : Nat
  limit : Nat          -- ExpandableLimit (normalised, ≥ 0)
  lifetime : Nat       -- ExpandedLifetime in virtual-time units (> 0)
deriving Repr, DecidableEq

/-- which context a task carries -/
inductive CtxKind | pool | own | never    -- nil / p.ctx ; its own cancellable context ; context.Background()
deriving Repr, DecidableEq, Hashable

inductive Res | val | errPool | errTask   -- what was sent on the task's result channel
deriving Repr, DecidableEq, Hashable

structure Task where
  ctx : CtxKind
  tdone : Bool := false      -- the task's own context is cancelled
  exec : Nat := 0            -- ghost: executor invocations
  released : Bool := false   -- the environment has released the task's gate: its executor returns as soon as it runs
  results : List Res := []   -- everything ever sent on the result channel (capacity 1: a 2nd send blocks)
  enq : Bool := false        -- ghost: the task was put into the queue
deriving Repr, DecidableEq, Hashable

structure G where
  state : Nat := 0                -- 0 not started, 1 started, 2 stopped
  ctxDone : Bool := false         -- pool context done
  q : List Nat := []              -- task queue buffer (capacity 1), oldest first
  closed : Bool := false
  expanded : Int := 0
  wg : Int := 0
  spawnFixed : Nat := 0           -- `go p.worker()` issued, goroutine not yet running
  spawnExp : Nat := 0
  readers : Nat := 0              -- submitLock
  writer : Bool := false
  wpending : Bool := false
  tasks : List Task := []
  now : Nat := 0
  panics : Nat := 0               -- ghost: number of goroutines that panicked
deriving Repr, DecidableEq, Hashable

inductive L
  | idle
  -- Do(u): RLock, load state, [refuse], [select-default, reserve, spawn/undo], push, RUnlock
  | d1 (u : Nat) | d2 (u : Nat) | d3 (u : Nat) | dsel (u : Nat) | dres (u : Nat) | dspawn (u : Nat) | dundo (u : Nat)
  | push (u : Nat) | d9 (u : Nat)
  -- TryDo(u): TryRLock, load state, [refuse], select-with-default, RUnlock
  | t1 (u : Nat) | t2 (u : Nat) | t3 (u : Nat) (locked : Bool) | tsel (u : Nat) | t9 (u : Nat) (r : Bool)
  -- fixed worker
  | w0 | wexec (u : Nat) | wsend (u : Nat) | wdone
  -- expanded worker (timer deadline)
  | e0 (dl : Nat) | eexec (u : Nat) | esend (u : Nat) | eexit | eexit2
  -- Start / Stop
  | st0 | st0c | st1 | st2      -- Start: RLock, CAS 0→1, wg.Add + spawn, RUnlock
  | sp0 | sp1 | sp2 | sp3a | sp3b | sp3c | sp3d | sp4 | sp5 | sp5s (u : Nat)
  | exited
  | panicked
deriving DecidableEq, Repr, Hashable

inductive Act
  | callDo (ctx : CtxKind) | callTry (ctx : CtxKind) | callStart | callStop
  | beFixed | beExp                      -- a spawned goroutine starts running
  | tau | choose (k : Nat)               -- internal step / select choice
  | finish (u : Nat)                     -- environment: the gate of task u is released (its executor may return)
  | cancelTask (u : Nat) | cancelParent
  | advance (d : Nat)                    -- environment: virtual time passes
deriving Repr, DecidableEq

inductive Obs
  | retDo (u : Nat) | retTry (u : Nat) (b : Bool) | retStop | retStart
  | execStart (u : Nat)                  -- the executor of u was invoked
deriving Repr, DecidableEq

def G.task (g : G) (u : Nat) : Task := (g.tasks[u]?).getD { ctx := .never }
def G.setTask (g : G) (u : Nat) (t : Task) : G := { g with tasks := g.tasks.set u t }

def taskCtxDone (g : G) (u : Nat) : Bool :=
  match (g.task u).ctx with
  | .pool => g.ctxDone
  | .own => (g.task u).tdone
  | .never => false

def newTask (g : G) (c : CtxKind) : G := { g with tasks := g.tasks ++ [{ ctx := c }] }

/-- send on the task's result channel (capacity 1); `none` = would block -/
def sendRes (g : G) (u : Nat) (r : Res) : Option G :=
  let t := g.task u
  if t.results.length < 1 then some (g.setTask u { t with results := t.results ++ [r] }) else none

def enqueue (g : G) (u : Nat) : G := (g.setTask u { g.task u with enq := true }) |> fun g' => { g' with q := g'.q ++ [u] }

def runTask (g : G) (u : Nat) (rest : List Nat) : G :=
  let t := g.task u
  { (g.setTask u { t with exec := t.exec + 1 }) with q := rest }

/-- the three communicating cases shared by `push` and `TryDo`; `none` = that case is not ready.
`some (g', true)` = the case panics. -/
def selCase (g : G) (u : Nat) (k : Nat) : Option (G × Bool) :=
  match k with
  | 0 => if g.ctxDone then (sendRes g u .errPool).map (·, false) else none
  | 1 => if taskCtxDone g u then (sendRes g u .errTask).map (·, false) else none
  | 2 => if g.closed then some ({ g with panics := g.panics + 1 }, true)          -- send on closed channel
         else if g.q.length < 1 then some (enqueue g u, false) else none
  | _ => none

def step (P : Params) (_t : Tid) (g : G) : L → Act → Option (G × L × List Obs)
  | .idle, .callDo c => some (newTask g c, .d1 g.tasks.length, [])
  | .idle, .callTry c => some (newTask g c, .t1 g.tasks.length, [])
  | .idle, .callStart => some (g, .st0, [])
  | .idle, .callStop => some (g, .sp0, [])
  | .idle, .beFixed => if 0 < g.spawnFixed then some ({ g with spawnFixed := g.spawnFixed - 1 }, .w0, []) else none
  | .idle, .beExp => if 0 < g.spawnExp then some ({ g with spawnExp := g.spawnExp - 1 }, .e0 (g.now + P.lifetime), []) else none
  | .idle, .cancelTask u => some (g.setTask u { g.task u with tdone := true }, .idle, [])
  | .idle, .cancelParent => some ({ g with ctxDone := true }, .idle, [])
  | .idle, .advance d => some ({ g with now := g.now + d }, .idle, [])
  | .idle, .finish u => if (g.task u).released then none else some (g.setTask u { g.task u with released := true }, .idle, [])
  -- Do
  | .d1 u, .tau => if g.writer || g.wpending then none else some ({ g with readers := g.readers + 1 }, .d2 u, [])
  | .d2 u, .tau =>
      if g.state = 2 then some (g, .d3 u, [])
      else if P.limit = 0 then some (g, .push u, []) else some (g, .dsel u, [])
  | .d3 u, .tau => (sendRes g u .errPool).map (·, .d9 u, [])
  | .dsel u, .tau =>                                   -- select { case queue <- t: default: }
      if g.closed then some ({ g with panics := g.panics + 1 }, .panicked, [])
      else if g.q.length < 1 then some (enqueue g u, .d9 u, [])
      else some (g, .dres u, [])
  | .dres u, .tau =>
      let g' := { g with expanded := g.expanded + 1 }
      if g'.expanded ≤ (P.limit : Int) then some (g', .dspawn u, []) else some (g', .dundo u, [])
  | .dspawn u, .tau => some ({ g with wg := g.wg + 1, spawnExp := g.spawnExp + 1 }, .push u, [])
  | .dundo u, .tau => some ({ g with expanded := g.expanded - 1 }, .push u, [])
  | .push u, .choose k =>
      match selCase g u k with
      | some (g', true) => some (g', .panicked, [])
      | some (g', false) => some (g', .d9 u, [])
      | none => none
  | .d9 u, .tau => some ({ g with readers := g.readers - 1 }, .idle, [.retDo u])
  -- TryDo
  | .t1 u, .tau =>
      if g.writer || g.wpending then some (g, .t3 u false, []) else some ({ g with readers := g.readers + 1 }, .t2 u, [])
  | .t2 u, .tau => if g.state = 2 then some (g, .t3 u true, []) else some (g, .tsel u, [])
  | .t3 u locked, .tau =>
      (sendRes g u .errPool).map (fun g' => (g', if locked then .t9 u false else .idle, if locked then [] else [.retTry u false]))
  | .tsel u, .choose k =>
      if k = 3 then
        -- default: only when no communication can proceed
        if (selCase g u 0).isNone && (selCase g u 1).isNone && (selCase g u 2).isNone
        then some (g, .t9 u false, []) else none
      else match selCase g u k with
        | some (g', true) => some (g', .panicked, [])
        | some (g', false) => some (g', .t9 u (k == 2), [])
        | none => none
  | .t9 u r, .tau => some ({ g with readers := g.readers - 1 }, .idle, [.retTry u r])
  -- fixed worker: `for task := range queue { task.Execute() }; wg.Done()`
  | .w0, .tau =>
      match g.q with
      | u :: rest => some (runTask g u rest, .wexec u, [.execStart u])
      | [] => if g.closed then some ({ g with wg := g.wg - 1 }, .wdone, []) else none
  | .wexec u, .tau => if (g.task u).released then some (g, .wsend u, []) else none
  | .wsend u, .tau => (sendRes g u .val).map (·, .w0, [])
  | .wdone, .tau => some (g, .exited, [])
  -- expanded worker
  | .e0 dl, .choose k =>
      if k = 0 then
        match g.q with
        | u :: rest => some (runTask g u rest, .eexec u, [.execStart u])
        | [] => if g.closed then some (g, .eexit, []) else none
      else if k = 1 then (if dl ≤ g.now then some (g, .eexit, []) else none)
      else none
  | .eexec u, .tau => if (g.task u).released then some (g, .esend u, []) else none
  | .esend u, .tau => (sendRes g u .val).map (·, .e0 (g.now + P.lifetime), [])
  | .eexit, .tau => some ({ g with wg := g.wg - 1 }, .eexit2, [])
  | .eexit2, .tau => some ({ g with expanded := g.expanded - 1 }, .exited, [])
  -- Start
  | .st0, .tau => if g.writer || g.wpending then none else some ({ g with readers := g.readers + 1 }, .st0c, [])
  | .st0c, .tau =>
      if g.state = 0 then some ({ g with state := 1 }, .st1, []) else some (g, .st2, [])
  | .st1, .tau => some ({ g with wg := g.wg + P.nworker, spawnFixed := g.spawnFixed + P.nworker }, .st2, [])
  | .st2, .tau => some ({ g with readers := g.readers - 1 }, .idle, [.retStart])
  -- Stop
  | .sp0, .tau => if g.state = 0 then some ({ g with state := 2 }, .sp2, []) else some (g, .sp1, [])      -- CAS 0→2 first
  | .sp1, .tau => if g.state = 1 then some ({ g with state := 2 }, .sp2, []) else some (g, .idle, [.retStop])
  | .sp2, .tau => some ({ g with ctxDone := true }, .sp3a, [])
  | .sp3a, .tau => if g.writer || g.wpending then none else some ({ g with wpending := true }, .sp3b, [])
  | .sp3b, .tau => if g.readers = 0 then some ({ g with wpending := false, writer := true }, .sp3c, []) else none
  | .sp3c, .tau => if g.closed then some ({ g with panics := g.panics + 1 }, .panicked, []) else some ({ g with closed := true }, .sp3d, [])
  | .sp3d, .tau => some ({ g with writer := false }, .sp4, [])
  | .sp4, .tau => if g.wg = 0 then some (g, .sp5, []) else none
  | .sp5, .tau =>
      match g.q with
      | u :: rest => some ({ g with q := rest }, .sp5s u, [])
      | [] => some (g, .idle, [.retStop])           -- the queue is closed here: range ends
  | .sp5s u, .tau => (sendRes g u .errPool).map (·, .sp5, [])
  | _, _ => none

def M (P : Params) : Machine where
  G := G
  L := L
  Act := Act
  Obs := Obs
  init := {}
  idle := .idle
  step := step P

end Garr.Pool
