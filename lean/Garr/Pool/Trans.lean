import Garr.Pool.Model
/-!
# The transition relation of the pool model, one constructor per branch

`Trans P g l a g' l'` lists every enabled branch of `Garr.Pool.step` with its guard as hypotheses and its
effect in normal form (`sendRes`, `selCase` expanded).  `step_trans` is the (one-off) case analysis of `step`;
`trans_step` is the converse (up to the observation list), so nothing is lost.
-/
namespace Garr.Pool
open Garr.Conc

/-- task `u` after a result `r` was sent on its (empty) result channel -/
def G.send (g : G) (u : Nat) (r : Res) : G := g.setTask u { g.task u with results := [r] }

theorem length_lt_one {α} (l : List α) : l.length < 1 ↔ l = [] := by
  cases l <;> simp

theorem sendRes_eq_some {g : G} {u : Nat} {r : Res} {g' : G} :
    sendRes g u r = some g' ↔ (g.task u).results = [] ∧ g' = g.send u r := by
  unfold sendRes G.send
  by_cases h : (g.task u).results = []
  · simp [h, eq_comm]
  · have : ¬ (g.task u).results.length < 1 := by rw [length_lt_one]; exact h
    simp [h, this]

theorem sendRes_eq_none {g : G} {u : Nat} {r : Res} :
    sendRes g u r = none ↔ (g.task u).results ≠ [] := by
  unfold sendRes
  by_cases h : (g.task u).results = []
  · simp [h]
  · have : ¬ (g.task u).results.length < 1 := by rw [length_lt_one]; exact h
    simp [h, this]

inductive Trans (P : Params) : G → L → Act → G → L → Prop
  | callDo (g c) : Trans P g .idle (.callDo c) (newTask g c) (.d1 g.tasks.length)
  | callTry (g c) : Trans P g .idle (.callTry c) (newTask g c) (.t1 g.tasks.length)
  | callStart (g) : Trans P g .idle .callStart g .st0
  | callStop (g) : Trans P g .idle .callStop g .sp0
  | beFixed (g) : 0 < g.spawnFixed → Trans P g .idle .beFixed { g with spawnFixed := g.spawnFixed - 1 } .w0
  | beExp (g) : 0 < g.spawnExp → Trans P g .idle .beExp { g with spawnExp := g.spawnExp - 1 } (.e0 (g.now + P.lifetime))
  | cancelTask (g u) : Trans P g .idle (.cancelTask u) (g.setTask u { g.task u with tdone := true }) .idle
  | cancelParent (g) : Trans P g .idle .cancelParent { g with ctxDone := true } .idle
  | advance (g d) : Trans P g .idle (.advance d) { g with now := g.now + d } .idle
  | finish (g u) : (g.task u).released = false →
      Trans P g .idle (.finish u) (g.setTask u { g.task u with released := true }) .idle
  -- Do
  | d1 (g u) : g.writer = false → g.wpending = false → Trans P g (.d1 u) .tau { g with readers := g.readers + 1 } (.d2 u)
  | d2stop (g u) : g.state = 2 → Trans P g (.d2 u) .tau g (.d3 u)
  | d2push (g u) : g.state ≠ 2 → P.limit = 0 → Trans P g (.d2 u) .tau g (.push u)
  | d2sel (g u) : g.state ≠ 2 → P.limit ≠ 0 → Trans P g (.d2 u) .tau g (.dsel u)
  | d3 (g u) : (g.task u).results = [] → Trans P g (.d3 u) .tau (g.send u .errPool) (.d9 u)
  | dselPanic (g u) : g.closed = true → Trans P g (.dsel u) .tau { g with panics := g.panics + 1 } .panicked
  | dselEnq (g u) : g.closed = false → g.q = [] → Trans P g (.dsel u) .tau (enqueue g u) (.d9 u)
  | dselFull (g u) : g.closed = false → g.q ≠ [] → Trans P g (.dsel u) .tau g (.dres u)
  | dresSpawn (g u) : g.expanded + 1 ≤ (P.limit : Int) →
      Trans P g (.dres u) .tau { g with expanded := g.expanded + 1 } (.dspawn u)
  | dresUndo (g u) : ¬ g.expanded + 1 ≤ (P.limit : Int) →
      Trans P g (.dres u) .tau { g with expanded := g.expanded + 1 } (.dundo u)
  | dspawn (g u) : Trans P g (.dspawn u) .tau { g with wg := g.wg + 1, spawnExp := g.spawnExp + 1 } (.push u)
  | dundo (g u) : Trans P g (.dundo u) .tau { g with expanded := g.expanded - 1 } (.push u)
  | pushPool (g u) : g.ctxDone = true → (g.task u).results = [] →
      Trans P g (.push u) (.choose 0) (g.send u .errPool) (.d9 u)
  | pushTask (g u) : taskCtxDone g u = true → (g.task u).results = [] →
      Trans P g (.push u) (.choose 1) (g.send u .errTask) (.d9 u)
  | pushPanic (g u) : g.closed = true → Trans P g (.push u) (.choose 2) { g with panics := g.panics + 1 } .panicked
  | pushEnq (g u) : g.closed = false → g.q = [] → Trans P g (.push u) (.choose 2) (enqueue g u) (.d9 u)
  | d9 (g u) : Trans P g (.d9 u) .tau { g with readers := g.readers - 1 } .idle
  -- TryDo
  | t1fail (g u) : (g.writer = true ∨ g.wpending = true) → Trans P g (.t1 u) .tau g (.t3 u false)
  | t1 (g u) : g.writer = false → g.wpending = false → Trans P g (.t1 u) .tau { g with readers := g.readers + 1 } (.t2 u)
  | t2stop (g u) : g.state = 2 → Trans P g (.t2 u) .tau g (.t3 u true)
  | t2sel (g u) : g.state ≠ 2 → Trans P g (.t2 u) .tau g (.tsel u)
  | t3locked (g u) : (g.task u).results = [] → Trans P g (.t3 u true) .tau (g.send u .errPool) (.t9 u false)
  | t3free (g u) : (g.task u).results = [] → Trans P g (.t3 u false) .tau (g.send u .errPool) .idle
  | tselDefault (g u) : selCase g u 0 = none → selCase g u 1 = none → selCase g u 2 = none →
      Trans P g (.tsel u) (.choose 3) g (.t9 u false)
  | tselPool (g u) : g.ctxDone = true → (g.task u).results = [] →
      Trans P g (.tsel u) (.choose 0) (g.send u .errPool) (.t9 u false)
  | tselTask (g u) : taskCtxDone g u = true → (g.task u).results = [] →
      Trans P g (.tsel u) (.choose 1) (g.send u .errTask) (.t9 u false)
  | tselPanic (g u) : g.closed = true → Trans P g (.tsel u) (.choose 2) { g with panics := g.panics + 1 } .panicked
  | tselEnq (g u) : g.closed = false → g.q = [] → Trans P g (.tsel u) (.choose 2) (enqueue g u) (.t9 u true)
  | t9 (g u r) : Trans P g (.t9 u r) .tau { g with readers := g.readers - 1 } .idle
  -- fixed worker
  | w0take (g u rest) : g.q = u :: rest → Trans P g .w0 .tau (runTask g u rest) (.wexec u)
  | w0done (g) : g.q = [] → g.closed = true → Trans P g .w0 .tau { g with wg := g.wg - 1 } .wdone
  | wexec (g u) : (g.task u).released = true → Trans P g (.wexec u) .tau g (.wsend u)
  | wsend (g u) : (g.task u).results = [] → Trans P g (.wsend u) .tau (g.send u .val) .w0
  | wdone (g) : Trans P g .wdone .tau g .exited
  -- expanded worker
  | e0take (g dl u rest) : g.q = u :: rest → Trans P g (.e0 dl) (.choose 0) (runTask g u rest) (.eexec u)
  | e0closed (g dl) : g.q = [] → g.closed = true → Trans P g (.e0 dl) (.choose 0) g .eexit
  | e0timer (g dl) : dl ≤ g.now → Trans P g (.e0 dl) (.choose 1) g .eexit
  | eexec (g u) : (g.task u).released = true → Trans P g (.eexec u) .tau g (.esend u)
  | esend (g u) : (g.task u).results = [] → Trans P g (.esend u) .tau (g.send u .val) (.e0 (g.now + P.lifetime))
  | eexit (g) : Trans P g .eexit .tau { g with wg := g.wg - 1 } .eexit2
  | eexit2 (g) : Trans P g .eexit2 .tau { g with expanded := g.expanded - 1 } .exited
  -- Start
  | st0 (g) : g.writer = false → g.wpending = false → Trans P g .st0 .tau { g with readers := g.readers + 1 } .st0c
  | st0win (g) : g.state = 0 → Trans P g .st0c .tau { g with state := 1 } .st1
  | st0lose (g) : g.state ≠ 0 → Trans P g .st0c .tau g .st2
  | st1 (g) : Trans P g .st1 .tau { g with wg := g.wg + P.nworker, spawnFixed := g.spawnFixed + P.nworker } .st2
  | st2 (g) : Trans P g .st2 .tau { g with readers := g.readers - 1 } .idle
  -- Stop
  | sp0win (g) : g.state = 0 → Trans P g .sp0 .tau { g with state := 2 } .sp2
  | sp0lose (g) : g.state ≠ 0 → Trans P g .sp0 .tau g .sp1
  | sp1win (g) : g.state = 1 → Trans P g .sp1 .tau { g with state := 2 } .sp2
  | sp1lose (g) : g.state ≠ 1 → Trans P g .sp1 .tau g .idle
  | sp2 (g) : Trans P g .sp2 .tau { g with ctxDone := true } .sp3a
  | sp3a (g) : g.writer = false → g.wpending = false → Trans P g .sp3a .tau { g with wpending := true } .sp3b
  | sp3b (g) : g.readers = 0 → Trans P g .sp3b .tau { g with wpending := false, writer := true } .sp3c
  | sp3cPanic (g) : g.closed = true → Trans P g .sp3c .tau { g with panics := g.panics + 1 } .panicked
  | sp3c (g) : g.closed = false → Trans P g .sp3c .tau { g with closed := true } .sp3d
  | sp3d (g) : Trans P g .sp3d .tau { g with writer := false } .sp4
  | sp4 (g) : g.wg = 0 → Trans P g .sp4 .tau g .sp5
  | sp5take (g u rest) : g.q = u :: rest → Trans P g .sp5 .tau { g with q := rest } (.sp5s u)
  | sp5done (g) : g.q = [] → Trans P g .sp5 .tau g .idle
  | sp5s (g u) : (g.task u).results = [] → Trans P g (.sp5s u) .tau (g.send u .errPool) .sp5

theorem selCase_some {g : G} {u k : Nat} {g' : G} {b : Bool} (h : selCase g u k = some (g', b)) :
    (k = 0 ∧ g.ctxDone = true ∧ (g.task u).results = [] ∧ g' = g.send u .errPool ∧ b = false) ∨
    (k = 1 ∧ taskCtxDone g u = true ∧ (g.task u).results = [] ∧ g' = g.send u .errTask ∧ b = false) ∨
    (k = 2 ∧ g.closed = true ∧ g' = { g with panics := g.panics + 1 } ∧ b = true) ∨
    (k = 2 ∧ g.closed = false ∧ g.q = [] ∧ g' = enqueue g u ∧ b = false) := by
  unfold selCase at h
  split at h
  · split at h
    · simp only [Option.map_eq_some_iff, sendRes_eq_some, Prod.mk.injEq] at h
      obtain ⟨_, ⟨hr, rfl⟩, rfl, rfl⟩ := h
      simp_all
    · cases h
  · split at h
    · simp only [Option.map_eq_some_iff, sendRes_eq_some, Prod.mk.injEq] at h
      obtain ⟨_, ⟨hr, rfl⟩, rfl, rfl⟩ := h
      simp_all
    · cases h
  · split at h
    · simp only [Option.some.injEq, Prod.mk.injEq] at h
      obtain ⟨rfl, rfl⟩ := h
      simp_all
    · split at h
      · simp only [Option.some.injEq, Prod.mk.injEq] at h
        obtain ⟨rfl, rfl⟩ := h
        simp_all
      · cases h
  · cases h

set_option maxHeartbeats 1600000 in
theorem step_trans {P : Params} {t : Tid} {g : G} {l : L} {a : Act} {g' : G} {l' : L} {obs : List Obs}
    (h : step P t g l a = some (g', l', obs)) : Trans P g l a g' l' := by
  cases l <;> cases a <;> simp only [step, reduceCtorEq] at h
  all_goals (try simp only [Option.map_eq_some_iff, sendRes_eq_some] at h)
  all_goals (try (repeat' split at h))
  all_goals (try simp only [Option.some.injEq, Prod.mk.injEq, reduceCtorEq] at h)
  all_goals (try (obtain ⟨rfl, rfl, rfl⟩ := h))
  all_goals (try (obtain ⟨_, ⟨hr, rfl⟩, rfl, rfl, rfl⟩ := h))
  all_goals (try subst_vars)
  all_goals (try (constructor <;> simp_all <;> done))
  all_goals (try (rename_i hs; rcases selCase_some hs with ⟨rfl, h1, h2, rfl, hb⟩ | ⟨rfl, h1, h2, rfl, hb⟩ | ⟨rfl, h1, rfl, hb⟩ | ⟨rfl, h1, h2, rfl, hb⟩ <;> simp at hb <;> constructor <;> assumption))
  · rename_i hl; simp only [Bool.not_eq_true] at hl; subst hl; exact Trans.t3free _ _ hr

/-- the two steps that emit `retStop`: `Stop` loses both CASes, or the winner finishes draining -/
theorem retStop_step {P : Params} {t : Tid} {g : G} {l : L} {a : Act} {g' : G} {l' : L} {obs : List Obs}
    (h : step P t g l a = some (g', l', obs)) (hr : Obs.retStop ∈ obs) :
    g' = g ∧ ((l = .sp1 ∧ g.state ≠ 1) ∨ (l = .sp5 ∧ g.q = [])) := by
  cases l <;> cases a <;> simp only [step, reduceCtorEq] at h
  all_goals (try simp only [Option.map_eq_some_iff] at h)
  all_goals (try (repeat' split at h))
  all_goals (try simp only [Option.some.injEq, Prod.mk.injEq, reduceCtorEq] at h)
  all_goals (try (obtain ⟨rfl, rfl, rfl⟩ := h))
  all_goals (try (obtain ⟨_, _, rfl, rfl, rfl⟩ := h))
  all_goals (try (simp at hr; done))
  · rename_i hs; exact ⟨rfl, Or.inl ⟨rfl, hs⟩⟩
  · rename_i hq; exact ⟨rfl, Or.inr ⟨rfl, hq⟩⟩

/-- conversely every `Trans` is a step of the model (for some observation list): `Trans` has no spurious branch -/
theorem trans_step {P : Params} {g : G} {l : L} {a : Act} {g' : G} {l' : L} (t : Tid) (h : Trans P g l a g' l') :
    ∃ obs, step P t g l a = some (g', l', obs) := by
  have hsend : ∀ {u r}, (g.task u).results = [] → sendRes g u r = some (g.send u r) :=
    fun hr => sendRes_eq_some.2 ⟨hr, rfl⟩
  cases h
  all_goals first
    | (simp [step, *]; done)
    | (simp [step, selCase, *]; done)

end Garr.Pool
