import Garr.Pool.Fair
/-!
# Worker-pool model: liveness of the submitting calls (`TryDo`, `Do`, `Start`) under weak fairness

* `measure_leads` – a thread that runs through always-enabled program counters with a decreasing measure reaches its goal.
* `rlock_free` – from some position on nobody holds or awaits the write side of `submitLock` (only the winning `Stop`
  ever does, it returns, and no second `Stop` wins a CAS): `RLock` in `Do` / `Start` eventually succeeds.
* `try_returns` (`TryDo` never blocks; fairness of the caller alone), `start_returns`, `do_returns_cancelled`,
  `do_returns_solo` (back-pressure ends when nobody else competes for the queue slot).
-/
namespace Garr.Pool.Fair
open Garr.Conc Garr.Pool Garr.Pool.Progress

variable {P : Params}

/-! ## Straight-line code -/

/-- thread `t` runs through program counters in `p`, at each of which it is enabled; every step reaches `goal` or stays
in `p` with a smaller measure (a step to `panicked` is excluded by the invariant).  Then `t` reaches `goal`. -/
theorem measure_leads (e : Exec P) {t : Tid} (hf : WeakFair e t) (p : L → Bool) (goal : L → Prop) (μ : L → Nat) (n : Nat)
    (hen : ∀ m, n ≤ m → p ((e.c m).l t) = true → EnabledInt (e.c m) t)
    (hdec : ∀ g l a g' l', p l = true → Trans P g l a g' l' → l' ≠ .panicked → goal l' ∨ (p l' = true ∧ μ l' < μ l)) :
    ∀ k m, n ≤ m → p ((e.c m).l t) = true → μ ((e.c m).l t) < k → ∃ m', m ≤ m' ∧ goal ((e.c m').l t) := by
  intro k
  induction k with
  | zero => intro m _ _ h; omega
  | succ k ih =>
    intro m hm hp hk
    obtain ⟨m1, hm1, hB⟩ := pc_leads e hf m ((e.c m).l t)
      (fun m' => goal ((e.c m').l t) ∨ (p ((e.c m').l t) = true ∧ μ ((e.c m').l t) < μ ((e.c m).l t))) rfl
      (fun m' hm' hA => hen m' (by omega) (by rw [hA]; exact hp))
      (fun m' a g' l' _ hA htr _ hl' => by
        rw [hl']
        refine hdec _ _ a g' l' hp htr ?_
        rw [← hl']
        exact (e.pinv (m' + 1)).lock.nopanic t)
    rcases hB with hB | ⟨h1, h2⟩
    · exact ⟨m1, hm1, hB⟩
    · obtain ⟨m2, hm2, h⟩ := ih m1 (by omega) h1 (by omega)
      exact ⟨m2, by omega, h⟩

/-! ## `TryDo` never blocks -/

/-- inside `TryDo(u)` -/
def inTry (u : Nat) : L → Bool
  | .t1 v | .t2 v | .t3 v _ | .tsel v | .t9 v _ => v == u
  | _ => false

theorem try_dec {u : Nat} {g g' : G} {l l' : L} {a : Act} (hp : inTry u l = true) (h : Trans P g l a g' l')
    (hn : l' ≠ .panicked) : l' = .idle ∨ (inTry u l' = true ∧ rank P l' < rank P l) := by
  cases h <;> simp_all [inTry, rank]

theorem try_enabled {c : Config (M P)} (hp : PInv P c) {t : Tid} {u : Nat} (h : inTry u (c.l t) = true) :
    EnabledInt c t := by
  refine enabled_of_not_blocked' hp t ?_ ?_
  · cases hl : c.l t <;> rw [hl] at h <;> simp [inTry] at h <;> rfl
  · intro hl; rw [hl] at h; cases h

/-- (fairness of `t` alone) a `TryDo` call returns -/
theorem try_returns (e : Exec P) {t : Tid} (hf : WeakFair e t) (n u : Nat) (h : inTry u ((e.c n).l t) = true) :
    ∃ m, n ≤ m ∧ (e.c m).l t = .idle :=
  measure_leads e hf (inTry u) (fun l => l = .idle) (rank P) n
    (fun m _ hp => try_enabled (e.pinv m) hp)
    (fun _ _ _ _ _ hp htr hn => try_dec hp htr hn) _ n (Nat.le_refl _) h (Nat.lt_succ_self _)

/-! ## The write side of `submitLock` is eventually free for ever -/

/-- the winning `Stop` caller has returned -/
def NoStop (c : Config (M P)) : Prop := c.g.state = 2 ∧ ∀ t, stopper (c.l t) = false

theorem trans_stopper_new {g g' : G} {l l' : L} {a : Act} (h : Trans P g l a g' l') (h2 : g.state = 2)
    (hl : stopper l = false) : stopper l' = false := by
  cases h <;> simp_all [stopper]

theorem NoStop.next (e : Exec P) (m : Nat) (h : NoStop (e.c m)) : NoStop (e.c (m + 1)) := by
  refine ⟨?_, fun t' => ?_⟩
  · rcases e.trans m with hc | ⟨t, a, g', l', _, htr, hg, _⟩
    · rw [hc]; exact h.1
    · rw [hg]; exact trans_state2 htr h.1
  · rcases e.cases m t' with ⟨hsame, _, _⟩ | ⟨a, g', l', _, htr, _, _, hl'⟩
    · rw [hsame]; exact h.2 t'
    · rw [hl']; exact trans_stopper_new htr h.1 (h.2 t')

theorem NoStop.mono (e : Exec P) {n m : Nat} (hnm : n ≤ m) (h : NoStop (e.c n)) : NoStop (e.c m) := by
  obtain ⟨d, rfl⟩ : ∃ d, m = n + d := ⟨m - n, by omega⟩
  clear hnm
  induction d with
  | zero => exact h
  | succ d ih => exact NoStop.next e (n + d) ih

theorem NoStop.free {c : Config (M P)} (hp : PInv P c) (h : NoStop c) : c.g.writer = false ∧ c.g.wpending = false := by
  refine ⟨writer_false hp (fun t => ?_), wpending_false hp (fun t => ?_)⟩
  · cases hh : hasW (c.l t) with
    | false => rfl
    | true => have := stopper_of_hasW hh; rw [h.2 t] at this; cases this
  · cases hl : c.l t <;> simp [isSp3b]
    have := h.2 t; rw [hl] at this; cases this

theorem inStop_of_stopper {l : L} (h : stopper l = true) : inStop l = true := by
  cases l <;> simp_all [stopper, inStop]

theorem trans_stopper_next {g g' : G} {l l' : L} {a : Act} (h : Trans P g l a g' l') (hl : stopper l = true)
    (hn : l' ≠ .panicked) : stopper l' = true ∨ l' = .idle := by
  cases h <;> simp_all [stopper]

/-- (fairness, E1, E2) once a `Stop` caller has won its CAS, it eventually has returned -/
theorem stopper_gone (e : Exec P) (hfair : Fair e) (hE1 : EnvReleases e) (hE2 : EnvStarts e) (n : Nat) (t : Tid)
    (ht : stopper ((e.c n).l t) = true) : ∃ m, n ≤ m ∧ NoStop (e.c m) := by
  obtain ⟨m1, hm1, hidle⟩ := stop_returns_fair e hfair hE1 hE2 t n (inStop_of_stopper ht)
  rcases holds_unless (fun m => stopper ((e.c m).l t) = true) (fun m => NoStop (e.c m)) n ht
    (fun m _ hA hnB => by
      rcases e.cases m t with ⟨hsame, _, _⟩ | ⟨a, g', l', _, htr, hg, hl, hl'⟩
      · rw [hsame]; exact hA
      · have hnp : l' ≠ .panicked := by rw [← hl']; exact (e.pinv (m + 1)).lock.nopanic t
        rcases trans_stopper_next htr hA hnp with h | h
        · rw [hl']; exact h
        · exfalso
          apply hnB
          have hp := e.pinv m
          refine ⟨by rw [hg]; exact trans_state2 htr (hp.lock.stop_state t hA), fun t' => ?_⟩
          rw [hl]
          rcases upd_eq_or (e.c m).l t l' t' with ⟨_, ea⟩ | ⟨hne, ea⟩
          · rw [ea, h]; rfl
          · rw [ea]
            cases hh : stopper ((e.c m).l t') with
            | false => rfl
            | true => exact absurd (hp.lock.stop_uniq t' t hh hA) hne) m1 hm1 with h | ⟨k, hk, _, h⟩
  · rw [hidle] at h; cases h
  · exact ⟨k, hk, h⟩

/-- (fairness, E1, E2) from some position on nobody holds or awaits the write lock -/
theorem rlock_free (e : Exec P) (hfair : Fair e) (hE1 : EnvReleases e) (hE2 : EnvStarts e) (n : Nat) :
    ∃ M, n ≤ M ∧ ∀ m, M ≤ m → (e.c m).g.writer = false ∧ (e.c m).g.wpending = false := by
  by_cases hall : ∀ m, n ≤ m → (e.c m).g.writer = false ∧ (e.c m).g.wpending = false
  · exact ⟨n, Nat.le_refl _, hall⟩
  · obtain ⟨m0, hm0, hne⟩ : ∃ m0, n ≤ m0 ∧ ¬ ((e.c m0).g.writer = false ∧ (e.c m0).g.wpending = false) := by
      apply Classical.byContradiction
      intro hno
      exact hall (fun m hm => Classical.byContradiction (fun h => hno ⟨m, hm, h⟩))
    have hp := e.pinv m0
    obtain ⟨t, ht⟩ : ∃ t, stopper ((e.c m0).l t) = true := by
      cases hw : (e.c m0).g.writer with
      | true =>
        obtain ⟨t, ht⟩ := hp.wlock.writer hw
        exact ⟨t, stopper_of_hasW ht⟩
      | false =>
        cases hwp : (e.c m0).g.wpending with
        | true =>
          obtain ⟨t, ht⟩ := hp.wlock.wpending hwp
          refine ⟨t, ?_⟩
          cases hl : (e.c m0).l t <;> rw [hl] at ht <;> simp [isSp3b] at ht
          rfl
        | false => exact absurd ⟨hw, hwp⟩ hne
    obtain ⟨M, hM, hns⟩ := stopper_gone e hfair hE1 hE2 m0 t ht
    exact ⟨M, by omega, fun m hm => NoStop.free (e.pinv m) (NoStop.mono e hm hns)⟩

/-! ## `Start` returns -/

/-- inside `Start` -/
def inStart : L → Bool
  | .st0 | .st0c | .st1 | .st2 => true
  | _ => false

def startStraight : L → Bool
  | .st0c | .st1 | .st2 => true
  | _ => false

theorem start_dec {g g' : G} {l l' : L} {a : Act} (hp : startStraight l = true) (h : Trans P g l a g' l')
    (_hn : l' ≠ .panicked) : l' = .idle ∨ (startStraight l' = true ∧ rank P l' < rank P l) := by
  cases h <;> simp_all [startStraight, rank]

/-- (fairness, E1, E2) a `Start` call returns; only its `RLock` can wait, for a `Stop` holding or awaiting the write lock -/
theorem start_returns (e : Exec P) (hfair : Fair e) (hE1 : EnvReleases e) (hE2 : EnvStarts e) (t : Tid) (n : Nat)
    (h : inStart ((e.c n).l t) = true) : ∃ m, n ≤ m ∧ (e.c m).l t = .idle := by
  have hstraight : ∀ m, startStraight ((e.c m).l t) = true → ∃ m', m ≤ m' ∧ (e.c m').l t = .idle := fun m hm =>
    measure_leads e (hfair t) startStraight (fun l => l = .idle) (rank P) m
      (fun m' _ hp => by
        refine enabled_of_not_blocked' (e.pinv m') t ?_ ?_
        · cases hl : (e.c m').l t <;> rw [hl] at hp <;> simp [startStraight] at hp <;> rfl
        · intro hl; rw [hl] at hp; cases hp)
      (fun _ _ _ _ _ hp htr hn => start_dec hp htr hn) _ m (Nat.le_refl _) hm (Nat.lt_succ_self _)
  by_cases h0 : (e.c n).l t = .st0
  · obtain ⟨m1, hm1, h1⟩ := wait_leads e (hfair t) n .st0 .st0c h0 (fun m a g' l' _ htr => by cases htr; rfl)
      (fun H => by
        obtain ⟨M, hM, hfree⟩ := rlock_free e hfair hE1 hE2 n
        exact ⟨M, hM, fun m hm => enabled_of_trans (H m (by omega)) (Trans.st0 _ (hfree m hm).1 (hfree m hm).2) rfl⟩)
    obtain ⟨m2, hm2, h2⟩ := hstraight m1 (by rw [h1]; rfl)
    exact ⟨m2, by omega, h2⟩
  · refine hstraight n ?_
    cases hl : (e.c n).l t <;> rw [hl] at h <;> simp [inStart] at h <;> first | rfl | exact absurd hl h0

/-! ## Cancellation is stable -/

theorem setTask_tcd (g : G) (u0 u : Nat) (x : Task) (hc : x.ctx = (g.task u0).ctx)
    (hd : (g.task u0).tdone = true → x.tdone = true) (h : taskCtxDone g u = true) :
    taskCtxDone (g.setTask u0 x) u = true := by
  have hcd : (g.setTask u0 x).ctxDone = g.ctxDone := rfl
  unfold taskCtxDone at h ⊢
  rw [setTask_task, hcd]
  by_cases hh : u = u0 ∧ u0 < g.tasks.length
  · rw [if_pos hh]
    obtain ⟨rfl, _⟩ := hh
    rw [hc]
    cases hk : (g.task u).ctx <;> rw [hk] at h <;> simp_all
  · rw [if_neg hh]; exact h

theorem newTask_tcd (g : G) (c : CtxKind) (u : Nat) (h : taskCtxDone g u = true) : taskCtxDone (newTask g c) u = true := by
  have hcd : (newTask g c).ctxDone = g.ctxDone := rfl
  unfold taskCtxDone at h ⊢
  rw [newTask_task, hcd]
  by_cases hh : u = g.tasks.length
  · subst hh
    rw [task_default (Nat.le_refl _)] at h
    simp at h
  · rw [if_neg hh]; exact h

theorem ctx_tcd (g : G) (u : Nat) (h : taskCtxDone g u = true) : taskCtxDone { g with ctxDone := true } u = true := by
  unfold taskCtxDone at h ⊢
  show (match (g.task u).ctx with | .pool => true | .own => (g.task u).tdone | .never => false) = true
  cases hk : (g.task u).ctx <;> rw [hk] at h <;> simp_all

theorem trans_ctxDone {g g' : G} {l l' : L} {a : Act} (h : Trans P g l a g' l') (hc : g.ctxDone = true) :
    g'.ctxDone = true := by
  cases h <;> first | exact hc | rfl

theorem trans_tcd {g g' : G} {l l' : L} {a : Act} (h : Trans P g l a g' l') (u : Nat) (hd : taskCtxDone g u = true) :
    taskCtxDone g' u = true := by
  cases h
  all_goals first
    | exact hd
    | exact setTask_tcd _ _ _ _ rfl id hd
    | exact setTask_tcd _ _ _ _ rfl (fun _ => rfl) hd
    | exact newTask_tcd _ _ _ hd
    | exact ctx_tcd _ _ hd

/-- the pool context or the context of task `u` is done -/
def Cancelled (c : Config (M P)) (u : Nat) : Prop := c.g.ctxDone = true ∨ taskCtxDone c.g u = true

theorem Cancelled.mono (e : Exec P) (u : Nat) {n m : Nat} (hnm : n ≤ m) (h : Cancelled (e.c n) u) :
    Cancelled (e.c m) u := by
  obtain ⟨d, rfl⟩ : ∃ d, m = n + d := ⟨m - n, by omega⟩
  clear hnm
  induction d with
  | zero => exact h
  | succ d ih =>
    rcases e.trans (n + d) with hc | ⟨t, a, g', l', _, htr, hg, _⟩
    · rw [show n + (d + 1) = n + d + 1 from rfl, hc]; exact ih
    · rw [show n + (d + 1) = n + d + 1 from rfl]
      unfold Cancelled
      rw [hg]
      rcases ih with h1 | h1
      · exact Or.inl (trans_ctxDone htr h1)
      · exact Or.inr (trans_tcd htr u h1)

/-! ## `Do`: the stages -/

/-- inside `Do(u)`, from the `RLock` to the `RUnlock` -/
def inDoCall (u : Nat) : L → Bool
  | .d1 v | .d2 v | .d3 v | .dsel v | .dres v | .dspawn v | .dundo v | .push v | .d9 v => v == u
  | _ => false

/-- the program counters of `Do(u)` at which the caller never waits -/
def doStraight (u : Nat) : L → Bool
  | .d2 v | .d3 v | .dsel v | .dres v | .dspawn v | .dundo v | .d9 v => v == u
  | _ => false

theorem do_dec {u : Nat} {g g' : G} {l l' : L} {a : Act} (hp : doStraight u l = true) (h : Trans P g l a g' l')
    (hn : l' ≠ .panicked) : (l' = .idle ∨ l' = .push u) ∨ (doStraight u l' = true ∧ rank P l' < rank P l) := by
  cases h <;> simp_all [doStraight, rank]

/-- (fairness of `t`) from a straight-line program counter of `Do(u)` the caller returns or reaches the blocking send -/
theorem do_straight (e : Exec P) {t : Tid} (hf : WeakFair e t) (n u : Nat) (h : doStraight u ((e.c n).l t) = true) :
    ∃ m, n ≤ m ∧ ((e.c m).l t = .idle ∨ (e.c m).l t = .push u) :=
  measure_leads e hf (doStraight u) (fun l => l = .idle ∨ l = .push u) (rank P) n
    (fun m _ hp => by
      refine enabled_of_not_blocked' (e.pinv m) t ?_ ?_
      · cases hl : (e.c m).l t <;> rw [hl] at hp <;> simp [doStraight] at hp <;> rfl
      · intro hl; rw [hl] at hp; cases hp)
    (fun _ _ _ _ _ hp htr hn => do_dec hp htr hn) _ n (Nat.le_refl _) h (Nat.lt_succ_self _)

theorem d9_returns (e : Exec P) {t : Tid} (hf : WeakFair e t) (n u : Nat) (h : (e.c n).l t = .d9 u) :
    ∃ m, n ≤ m ∧ (e.c m).l t = .idle :=
  pc_leads e hf n (.d9 u) (fun m => (e.c m).l t = .idle) h
    (fun m _ hA => enabled_of_trans hA (Trans.d9 _ u) rfl)
    (fun m a g' l' _ _ htr _ hl' => by cases htr; exact hl')

/-- (fairness, E1, E2) the `RLock` of `Do` succeeds -/
theorem d1_to_d2 (e : Exec P) (hfair : Fair e) (hE1 : EnvReleases e) (hE2 : EnvStarts e) (t : Tid) (n u : Nat)
    (h : (e.c n).l t = .d1 u) : ∃ m, n ≤ m ∧ (e.c m).l t = .d2 u :=
  wait_leads e (hfair t) n (.d1 u) (.d2 u) h (fun m a g' l' _ htr => by cases htr; rfl)
    (fun H => by
      obtain ⟨M, hM, hfree⟩ := rlock_free e hfair hE1 hE2 n
      exact ⟨M, hM, fun m hm => enabled_of_trans (H m (by omega)) (Trans.d1 _ u (hfree m hm).1 (hfree m hm).2) rfl⟩)

/-- (fairness, E1, E2) a `Do` call returns, provided its blocking send is always left eventually -/
theorem do_returns_of_push (e : Exec P) (hfair : Fair e) (hE1 : EnvReleases e) (hE2 : EnvStarts e) (t : Tid) (n u : Nat)
    (Hpush : ∀ m, n ≤ m → (e.c m).l t = .push u → ∃ m', m ≤ m' ∧ (e.c m').l t = .d9 u)
    (h : inDoCall u ((e.c n).l t) = true) : ∃ m, n ≤ m ∧ (e.c m).l t = .idle := by
  have hP : ∀ m, n ≤ m → (e.c m).l t = .push u → ∃ m', m ≤ m' ∧ (e.c m').l t = .idle := by
    intro m hm hl
    obtain ⟨m1, hm1, h1⟩ := Hpush m hm hl
    obtain ⟨m2, hm2, h2⟩ := d9_returns e (hfair t) m1 u h1
    exact ⟨m2, by omega, h2⟩
  have hS : ∀ m, n ≤ m → doStraight u ((e.c m).l t) = true → ∃ m', m ≤ m' ∧ (e.c m').l t = .idle := by
    intro m hm hs
    obtain ⟨m1, hm1, h1⟩ := do_straight e (hfair t) m u hs
    rcases h1 with h1 | h1
    · exact ⟨m1, hm1, h1⟩
    · obtain ⟨m2, hm2, h2⟩ := hP m1 (by omega) h1
      exact ⟨m2, by omega, h2⟩
  cases hl : (e.c n).l t <;> rw [hl] at h <;> simp [inDoCall] at h <;> subst h
  case d1 =>
    obtain ⟨m1, hm1, h1⟩ := d1_to_d2 e hfair hE1 hE2 t n _ hl
    obtain ⟨m2, hm2, h2⟩ := hS m1 hm1 (by rw [h1]; simp [doStraight])
    exact ⟨m2, by omega, h2⟩
  case push => exact hP n (Nat.le_refl _) hl
  all_goals exact hS n (Nat.le_refl _) (by rw [hl]; simp [doStraight])

theorem push_only_d9 (e : Exec P) {t : Tid} {u : Nat} (m : Nat) (a : Act) (g' : G) (l' : L)
    (hl : (e.c m).l t = .push u) (htr : Trans P (e.c m).g (.push u) a g' l') : l' = .d9 u := by
  have hc := (e.pinv m).lock.inner_open t (by rw [hl]; rfl)
  cases htr with
  | pushPanic _ hc' => rw [hc] at hc'; cases hc'
  | _ => rfl

theorem push_enabled_cancelled {c : Config (M P)} (hp : PInv P c) {t : Tid} {u : Nat} (hl : c.l t = .push u)
    (hc : Cancelled c u) : EnabledInt c t := by
  have hr := ((hp.task.ok u).pre t (by rw [hl]; rfl)).2.2
  rcases hc with h | h
  · exact enabled_of_trans hl (Trans.pushPool _ u h hr) rfl
  · exact enabled_of_trans hl (Trans.pushTask _ u h hr) rfl

/-- (fairness of `t`) a blocked submission is released once the pool's or the task's context is done -/
theorem push_cancelled (e : Exec P) {t : Tid} (hf : WeakFair e t) (n u : Nat) (hl : (e.c n).l t = .push u)
    (hc : Cancelled (e.c n) u) : ∃ m, n ≤ m ∧ (e.c m).l t = .d9 u :=
  pc_leads e hf n (.push u) (fun m => (e.c m).l t = .d9 u) hl
    (fun m hm hA => push_enabled_cancelled (e.pinv m) hA (Cancelled.mono e u hm hc))
    (fun m a g' l' _ hA htr _ hl' => by rw [hl']; exact push_only_d9 e m a g' l' hA htr)

/-- (fairness, E1, E2) a `Do` call returns once the pool's or the task's context is done -/
theorem do_returns_cancelled (e : Exec P) (hfair : Fair e) (hE1 : EnvReleases e) (hE2 : EnvStarts e) (t : Tid) (n u : Nat)
    (h : inDoCall u ((e.c n).l t) = true) (hc : Cancelled (e.c n) u) : ∃ m, n ≤ m ∧ (e.c m).l t = .idle :=
  do_returns_of_push e hfair hE1 hE2 t n u
    (fun m hm hl => push_cancelled e (hfair t) m u hl (Cancelled.mono e u hm hc)) h

/-! ## `Do`: the back-pressure ends when nobody else competes for the queue slot -/

/-- the program counters from which a thread may send on the task queue -/
def sender : L → Bool
  | .dsel _ | .push _ | .tsel _ => true
  | _ => false

theorem trans_q_nosender {g g' : G} {l l' : L} {a : Act} (h : Trans P g l a g' l') (hs : sender l = false)
    (hlen : g.q.length ≤ 1) : g'.q = g.q ∨ g'.q = [] := by
  cases h
  all_goals first
    | (left; rfl; done)
    | (simp [sender] at hs; done)
    | skip
  all_goals
    rename_i v rest hv
    right
    exact q_singleton hlen hv

theorem trans_state_ne0 {g g' : G} {l l' : L} {a : Act} (h : Trans P g l a g' l') (h0 : g.state ≠ 0) : g'.state ≠ 0 := by
  cases h <;> simp_all

theorem Exec.state_ne0 (e : Exec P) {n m : Nat} (hnm : n ≤ m) (h : (e.c n).g.state ≠ 0) : (e.c m).g.state ≠ 0 := by
  obtain ⟨d, rfl⟩ : ∃ d, m = n + d := ⟨m - n, by omega⟩
  clear hnm
  induction d with
  | zero => exact h
  | succ d ih =>
    rcases e.trans (n + d) with hc | ⟨t, a, g', l', _, htr, hg, _⟩
    · rw [show n + (d + 1) = n + d + 1 from rfl, hc]; exact ih
    · rw [show n + (d + 1) = n + d + 1 from rfl, hg]; exact trans_state_ne0 htr ih

/-- (fairness, E1, E2) thread `t` blocked in the send of `Do(u)` on a pool that `Start` has been called on
(`state ≠ 0`, `NumberWorker > 0`) leaves the send, provided no other thread is at a program counter from which it can
send on the task queue: the queued task is taken by a worker (or `Stop` / a cancellation intervenes), the slot stays
free, and `t`'s send is enabled for ever after. -/
theorem push_solo (e : Exec P) (hfair : Fair e) (hE1 : EnvReleases e) (hE2 : EnvStarts e) (hpos : 0 < P.nworker)
    (t : Tid) (n u : Nat) (hl : (e.c n).l t = .push u) (hs : (e.c n).g.state ≠ 0)
    (hsolo : ∀ m t', n ≤ m → t' ≠ t → sender ((e.c m).l t') = false) :
    ∃ m, n ≤ m ∧ (e.c m).l t = .d9 u := by
  refine wait_leads e (hfair t) n (.push u) (.d9 u) hl (fun m a g' l' h htr => push_only_d9 e m a g' l' h htr)
    (fun H => ?_)
  have hopen : ∀ m, n ≤ m → (e.c m).g.closed = false := fun m hm =>
    (e.pinv m).lock.inner_open t (by rw [H m hm]; rfl)
  by_cases hcan : ∃ m1, n ≤ m1 ∧ Cancelled (e.c m1) u
  · obtain ⟨m1, hm1, hc⟩ := hcan
    exact ⟨m1, hm1, fun m hm => push_enabled_cancelled (e.pinv m) (H m (by omega)) (Cancelled.mono e u hm hc)⟩
  · have hnc : ∀ m, n ≤ m → ¬ Cancelled (e.c m) u := fun m hm h => hcan ⟨m, hm, h⟩
    -- the pool is never stopped while `t` waits uncancelled
    have hs2 : ∀ m, n ≤ m → (e.c m).g.state ≠ 2 := by
      intro m hm h2
      have hx := e.xinv m
      by_cases hsp : ∀ t', isSp2 ((e.c m).l t') = false
      · exact hnc m hm (Or.inl (hx.ctx h2 hsp))
      · obtain ⟨t', ht'⟩ : ∃ t', stopper ((e.c m).l t') = true := by
          apply Classical.byContradiction
          intro hno
          apply hsp
          intro t'
          cases hh : isSp2 ((e.c m).l t') with
          | false => rfl
          | true =>
            exfalso
            apply hno
            refine ⟨t', ?_⟩
            cases hl' : (e.c m).l t' <;> rw [hl'] at hh <;> simp [isSp2] at hh
            rfl
        obtain ⟨m2, hm2, hns⟩ := stopper_gone e hfair hE1 hE2 m t' ht'
        have := ((e.pinv m2).stop hns.1 hns.2).2
        rw [hopen m2 (by omega)] at this
        cases this
    have hs1 : ∀ m, n ≤ m → (e.c m).g.state = 1 := by
      intro m hm
      have h0 := e.state_ne0 hm hs
      have hle := (e.pinv m).sp1.1
      have := hs2 m hm
      omega
    obtain ⟨m1, hm1, hW⟩ := started_has_fixed e hfair hpos n (hs1 n (Nat.le_refl _))
    -- nobody refills the queue
    have hq : ∀ m0, n ≤ m0 → ∀ d, (e.c (m0 + d)).g.q = (e.c m0).g.q ∨ (e.c (m0 + d)).g.q = [] := by
      intro m0 hm0 d
      induction d with
      | zero => left; rfl
      | succ d ih =>
        have hstep : (e.c (m0 + d + 1)).g.q = (e.c (m0 + d)).g.q ∨ (e.c (m0 + d + 1)).g.q = [] := by
          rcases e.cases (m0 + d) t with ⟨_, _, hoth⟩ | ⟨a, g', l', _, htr, _, _, hl'⟩
          · rcases hoth with hc | ⟨t', a, g', l', hne, htr, hg, _⟩
            · left; rw [hc]
            · rw [hg]
              exact trans_q_nosender htr (hsolo (m0 + d) t' (by omega) hne) (e.pinv (m0 + d)).task.qlen
          · exfalso
            have h1 := H (m0 + d) (by omega)
            have h2 := H (m0 + d + 1) (by omega)
            rw [h1] at htr
            have := push_only_d9 e (m0 + d) a g' l' h1 htr
            rw [hl', this] at h2
            cases h2
        rw [show m0 + (d + 1) = m0 + d + 1 from rfl]
        rcases hstep with h | h
        · rcases ih with ih | ih
          · left; rw [h, ih]
          · right; rw [h, ih]
        · right; exact h
    have hempty : ∀ m0, n ≤ m0 → (e.c m0).g.q = [] → ∃ M, n ≤ M ∧ ∀ m, M ≤ m → EnabledInt (e.c m) t := by
      intro m0 hm0 h0
      refine ⟨m0, hm0, fun m hm => ?_⟩
      have hqm : (e.c m).g.q = [] := by
        have := hq m0 hm0 (m - m0)
        rw [show m0 + (m - m0) = m by omega] at this
        rcases this with h | h
        · rw [h, h0]
        · exact h
      exact enabled_of_trans (H m (by omega)) (Trans.pushEnq _ u (hopen m (by omega)) hqm) rfl
    cases hq1 : (e.c m1).g.q with
    | nil => exact hempty m1 hm1 hq1
    | cons v rest =>
      obtain ⟨m2, hm2, hnot, _⟩ := queued_taken e hfair hE1 hE2 m1 v (by rw [hq1]; simp) hW
      have := hq m1 hm1 (m2 - m1)
      rw [show m1 + (m2 - m1) = m2 by omega] at this
      rcases this with h | h
      · exfalso; apply hnot; rw [h, hq1]; simp
      · exact hempty m2 (by omega) h

theorem inDoCall_next {u : Nat} {g g' : G} {l l' : L} {a : Act} (hp : inDoCall u l = true) (h : Trans P g l a g' l')
    (hn : l' ≠ .panicked) : inDoCall u l' = true ∨ l' = .idle := by
  cases h <;> simp_all [inDoCall]

/-- (fairness, E1, E2) a `Do` call on a pool that `Start` has been called on returns, provided that from some position
`N` on no other thread is at a program counter from which it can send on the task queue -/
theorem do_returns_solo (e : Exec P) (hfair : Fair e) (hE1 : EnvReleases e) (hE2 : EnvStarts e) (hpos : 0 < P.nworker)
    (t : Tid) (n u N : Nat) (h : inDoCall u ((e.c n).l t) = true) (hs : (e.c n).g.state ≠ 0)
    (hsolo : ∀ m t', N ≤ m → t' ≠ t → sender ((e.c m).l t') = false) :
    ∃ m, n ≤ m ∧ (e.c m).l t = .idle := by
  rcases holds_unless (fun m => inDoCall u ((e.c m).l t) = true) (fun m => (e.c m).l t = .idle) n h
    (fun m _ hA hnB => by
      rcases e.cases m t with ⟨hsame, _, _⟩ | ⟨a, g', l', _, htr, _, _, hl'⟩
      · rw [hsame]; exact hA
      · have hnp : l' ≠ .panicked := by rw [← hl']; exact (e.pinv (m + 1)).lock.nopanic t
        rcases inDoCall_next hA htr hnp with h | h
        · rw [hl']; exact h
        · exact absurd (by rw [hl']; exact h) hnB) (max n N) (Nat.le_max_left _ _) with hA | ⟨k, hk, _, hB⟩
  · obtain ⟨m, hm, hidle⟩ := do_returns_of_push e hfair hE1 hE2 t (max n N) u
      (fun m hm hl => push_solo e hfair hE1 hE2 hpos t m u hl
        (e.state_ne0 (Nat.le_trans (Nat.le_max_left n N) hm) hs)
        (fun m' t' hm' hne => hsolo m' t' (Nat.le_trans (Nat.le_max_right n N) (Nat.le_trans hm hm')) hne)) hA
    exact ⟨m, Nat.le_trans (Nat.le_max_left _ _) hm, hidle⟩
  · exact ⟨k, hk, hB⟩

end Garr.Pool.Fair
