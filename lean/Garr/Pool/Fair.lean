import Garr.Pool.Progress
/-!
# Worker-pool model: infinite executions, weak fairness, leads-to

* `Exec P` – an infinite execution of `M P`: a sequence of configurations starting in a reachable one, each position
  either a stutter or one step of one thread; `mover` records who moved.
* `isInt` – the actions a thread takes on its own (`tau`, `choose k`).  `WeakFair e t`: if some internal action of `t`
  is enabled at every position from `n` on, `t` takes an internal step at some position `≥ n`.
* environment assumptions: `EnvReleases` (E1: the gate of every task whose executor was started is eventually released)
  and `EnvStarts` (E2: while a spawned goroutine is pending, some goroutine of that kind eventually starts running).
* `fair_leads` – leads-to by stable enabledness; `holds_unless` – the safety half.
* stage lemmas: a worker inside an executor reaches its send (`exec_to_send`), a worker at its send delivers and returns
  to its loop head (`send_to_home`), `Stop` answers the task it is draining (`drain_to_answer`), a queued task is taken
  (`queued_taken`), and the stages of `Stop`.
-/
namespace Garr.Pool.Fair
open Garr.Conc Garr.Pool Garr.Pool.Progress

variable {P : Params}

/-! ## Executions, fairness, environment assumptions -/

/-- the actions a thread takes on its own: a plain step or a `select` choice -/
def isInt : Act → Bool
  | .tau | .choose _ => true
  | _ => false

/-- an infinite execution: starts in a reachable configuration; every position is a stutter or a step of one thread -/
structure Exec (P : Params) where
  c : Nat → Config (M P)
  mover : Nat → Option (Tid × Act)
  init : Reach (M P) (c 0)
  next : ∀ n, (mover n = none ∧ c (n + 1) = c n) ∨
    ∃ t a g' l' obs, mover n = some (t, a) ∧ (M P).step t (c n).g ((c n).l t) a = some (g', l', obs) ∧
      c (n + 1) = ⟨g', upd (c n).l t l'⟩

/-- some internal action of thread `t` is enabled -/
def EnabledInt (c : Config (M P)) (t : Tid) : Prop :=
  ∃ a g' l' obs, isInt a = true ∧ (M P).step t c.g (c.l t) a = some (g', l', obs)

/-- weak fairness of thread `t` for its internal actions -/
def WeakFair (e : Exec P) (t : Tid) : Prop :=
  ∀ n, (∀ m, n ≤ m → EnabledInt (e.c m) t) → ∃ m a, n ≤ m ∧ e.mover m = some (t, a) ∧ isInt a = true

def Fair (e : Exec P) : Prop := ∀ t, WeakFair e t

/-- (E1) the gate of every task whose executor has been started is eventually released -/
def EnvReleases (e : Exec P) : Prop :=
  ∀ n u, ((e.c n).g.task u).exec = 1 → ∃ m, n ≤ m ∧ ((e.c m).g.task u).released = true

/-- (E2) while a spawned fixed (expanded) worker goroutine is pending, some such goroutine eventually starts -/
def EnvStarts (e : Exec P) : Prop :=
  (∀ n, 0 < (e.c n).g.spawnFixed → ∃ m t, n ≤ m ∧ e.mover m = some (t, .beFixed)) ∧
  (∀ n, 0 < (e.c n).g.spawnExp → ∃ m t, n ≤ m ∧ e.mover m = some (t, .beExp))

theorem Exec.reach (e : Exec P) (n : Nat) : Reach (M P) (e.c n) := by
  induction n with
  | zero => exact e.init
  | succ n ih =>
    rcases e.next n with ⟨_, hc⟩ | ⟨t, a, g', l', obs, _, hs, hc⟩
    · rw [hc]; exact ih
    · rw [hc]; exact Reach.step ih hs

theorem Exec.pinv (e : Exec P) (n : Nat) : PInv P (e.c n) := pinv_reach P _ (e.reach n)
theorem Exec.xinv (e : Exec P) (n : Nat) : XInv P (e.c n) := xinv_reach P _ (e.reach n)

/-- what happens at position `m`, seen from thread `t`: nothing to `t`'s program counter and either a stutter or a
`Trans` step of another thread; or a `Trans` step of `t` itself -/
theorem Exec.cases (e : Exec P) (m : Nat) (t : Tid) :
    ((e.c (m + 1)).l t = (e.c m).l t ∧ (∀ a, e.mover m ≠ some (t, a)) ∧
      (e.c (m + 1) = e.c m ∨
        ∃ t' a g' l', t' ≠ t ∧ Trans P (e.c m).g ((e.c m).l t') a g' l' ∧ (e.c (m + 1)).g = g' ∧
          (e.c (m + 1)).l = upd (e.c m).l t' l')) ∨
    ∃ a g' l', e.mover m = some (t, a) ∧ Trans P (e.c m).g ((e.c m).l t) a g' l' ∧ (e.c (m + 1)).g = g' ∧
      (e.c (m + 1)).l = upd (e.c m).l t l' ∧ (e.c (m + 1)).l t = l' := by
  rcases e.next m with ⟨hm, hc⟩ | ⟨t', a, g', l', obs, hm, hs, hc⟩
  · left
    refine ⟨by rw [hc], fun a => by rw [hm]; simp, Or.inl hc⟩
  · have htr : Trans P (e.c m).g ((e.c m).l t') a g' l' := step_trans (t := t') hs
    by_cases htt : t' = t
    · subst htt
      right
      exact ⟨a, g', l', hm, htr, by rw [hc], by rw [hc], by rw [hc]; exact upd_same _ _ _⟩
    · left
      refine ⟨by rw [hc]; exact upd_other _ _ _ _ (fun h => htt h.symm), fun a' => ?_, Or.inr ⟨t', a, g', l', htt, htr, by rw [hc], by rw [hc]⟩⟩
      rw [hm]
      intro h
      simp only [Option.some.injEq, Prod.mk.injEq] at h
      exact htt h.1

/-- the step at position `m` as a `Trans` (or a stutter) -/
theorem Exec.trans (e : Exec P) (m : Nat) :
    e.c (m + 1) = e.c m ∨
      ∃ t a g' l', e.mover m = some (t, a) ∧ Trans P (e.c m).g ((e.c m).l t) a g' l' ∧ (e.c (m + 1)).g = g' ∧
        (e.c (m + 1)).l t = l' := by
  rcases e.next m with ⟨_, hc⟩ | ⟨t', a, g', l', obs, hm, hs, hc⟩
  · exact Or.inl hc
  · exact Or.inr ⟨t', a, g', l', hm, step_trans (t := t') hs, by rw [hc], by rw [hc]; exact upd_same _ _ _⟩

theorem enabled_of_trans {c : Config (M P)} {t : Tid} {l : L} {a : Act} {g' : G} {l' : L} (hl : c.l t = l)
    (h : Trans P c.g l a g' l') (ha : isInt a = true) : EnabledInt c t := by
  obtain ⟨obs, hs⟩ := trans_step t h
  exact ⟨a, g', l', obs, ha, by rw [hl]; exact hs⟩

/-! ## Leads-to -/

/-- safety half: `A` holds until `B` -/
theorem holds_unless (A B : Nat → Prop) (n : Nat) (hA : A n)
    (hst : ∀ m, n ≤ m → A m → ¬ B (m + 1) → A (m + 1)) :
    ∀ m, n ≤ m → A m ∨ ∃ k, n ≤ k ∧ k ≤ m ∧ B k := by
  intro m hm
  obtain ⟨d, rfl⟩ : ∃ d, m = n + d := ⟨m - n, by omega⟩
  clear hm
  induction d with
  | zero => exact Or.inl hA
  | succ d ih =>
    rcases ih with h | ⟨k, h1, h2, h3⟩
    · by_cases hb : B (n + d + 1)
      · exact Or.inr ⟨n + d + 1, by omega, by omega, hb⟩
      · exact Or.inl (hst (n + d) (by omega) h hb)
    · exact Or.inr ⟨k, h1, by omega, h3⟩

/-- leads-to by stable enabledness: `A` holds at `n` and is stable until `B`; while `A ∧ ¬B`, thread `t` has an enabled
internal action and every internal step of `t` establishes `B`.  Weak fairness of `t` then gives `B` at some `m ≥ n`. -/
theorem fair_leads (e : Exec P) {t : Tid} (hf : WeakFair e t) (A B : Nat → Prop) (n : Nat) (hA : A n)
    (hst : ∀ m, n ≤ m → A m → ¬ B m → ¬ B (m + 1) → A (m + 1))
    (hen : ∀ m, n ≤ m → A m → ¬ B m → EnabledInt (e.c m) t)
    (hmv : ∀ m a, n ≤ m → A m → ¬ B m → e.mover m = some (t, a) → isInt a = true → B (m + 1)) :
    ∃ m, n ≤ m ∧ B m := by
  apply Classical.byContradiction
  intro hno
  have hnb : ∀ m, n ≤ m → ¬ B m := fun m hm hb => hno ⟨m, hm, hb⟩
  have hall : ∀ d, A (n + d) := by
    intro d
    induction d with
    | zero => exact hA
    | succ d ih => exact hst (n + d) (by omega) ih (hnb _ (by omega)) (hnb _ (by omega))
  have hall' : ∀ m, n ≤ m → A m := fun m hm => by
    have := hall (m - n); rwa [show n + (m - n) = m by omega] at this
  obtain ⟨m, a, hm, hmov, hi⟩ := hf n (fun m hm => hen m hm (hall' m hm) (hnb m hm))
  exact hnb (m + 1) (by omega) (hmv m a hm (hall' m hm) (hnb m hm) hmov hi)

/-! ## Monotone facts along an execution -/

theorem newTask_released (g : G) (c : CtxKind) (v : Nat) : ((newTask g c).task v).released = (g.task v).released := by
  rw [newTask_task]; split
  · rename_i h; rw [h, task_default (Nat.le_refl _)]
  · rfl

theorem trans_released {g g' : G} {l l' : L} {a : Act} (h : Trans P g l a g' l') (u : Nat)
    (hr : (g.task u).released = true) : (g'.task u).released = true := by
  cases h
  all_goals first
    | exact hr
    | (rw [send_released]; exact hr)
    | (rw [enqueue_released]; exact hr)
    | (rw [runTask_released]; exact hr)
    | (rw [newTask_released]; exact hr)
    | (rw [setTask_task]; split <;> simp_all)

theorem Exec.released_mono (e : Exec P) (u : Nat) {n m : Nat} (hnm : n ≤ m)
    (h : ((e.c n).g.task u).released = true) : ((e.c m).g.task u).released = true := by
  obtain ⟨d, rfl⟩ : ∃ d, m = n + d := ⟨m - n, by omega⟩
  clear hnm
  induction d with
  | zero => exact h
  | succ d ih =>
    rcases e.trans (n + d) with hc | ⟨t, a, g', l', _, htr, hg, _⟩
    · rw [show n + (d + 1) = n + d + 1 from rfl, hc]; exact ih
    · rw [show n + (d + 1) = n + d + 1 from rfl, hg]; exact trans_released htr u ih

theorem Exec.taskMono (e : Exec P) {n m : Nat} (hnm : n ≤ m) : TaskMono (e.c n).g (e.c m).g := by
  obtain ⟨d, rfl⟩ : ∃ d, m = n + d := ⟨m - n, by omega⟩
  clear hnm
  induction d with
  | zero => exact TaskMono.refl _
  | succ d ih =>
    rcases e.trans (n + d) with hc | ⟨t, a, g', l', _, htr, hg, _⟩
    · rw [show n + (d + 1) = n + d + 1 from rfl, hc]; exact ih
    · rw [show n + (d + 1) = n + d + 1 from rfl, hg]; exact ih.trans (TaskMono.step htr)

/-! ## Worker stages -/

theorem send_results_self (g : G) (u : Nat) (r : Res) (hu : u < g.tasks.length) :
    ((g.send u r).task u).results = [r] := by
  simp [send_task, hu]

def atExec (u : Nat) (l : L) : Prop := l = .wexec u ∨ l = .eexec u
def atSend (u : Nat) (l : L) : Prop := l = .wsend u ∨ l = .esend u
/-- at the head of the worker loop -/
def atHome (l : L) : Prop := l = .w0 ∨ ∃ dl, l = .e0 dl

theorem atExec_role {u : Nat} {l : L} (h : atExec u l) : role l = some (.run, u) := by
  rcases h with h | h <;> rw [h] <;> rfl
theorem atSend_role {u : Nat} {l : L} (h : atSend u l) : role l = some (.run, u) := by
  rcases h with h | h <;> rw [h] <;> rfl
theorem run_role_cases {u : Nat} {l : L} (h : role l = some (.run, u)) : atExec u l ∨ atSend u l := by
  cases l <;> simp [role] at h <;> subst h <;> simp [atExec, atSend]

/-- (E1 + fairness of `t`) a worker inside the executor of `u` reaches its send; it stays a worker of the same kind -/
theorem exec_to_send (e : Exec P) (hE1 : EnvReleases e) {t : Tid} (hf : WeakFair e t) (n u : Nat)
    (hl : atExec u ((e.c n).l t)) :
    ∃ m, n ≤ m ∧ atSend u ((e.c m).l t) ∧ fixedLive ((e.c m).l t) = fixedLive ((e.c n).l t) := by
  have hx := (((e.pinv n).task.ok u).run t (atExec_role hl)).2.1
  obtain ⟨m1, hm1, hrel⟩ := hE1 n u hx
  have hstep : ∀ m, atExec u ((e.c m).l t) ∧ fixedLive ((e.c m).l t) = fixedLive ((e.c n).l t) →
      ((atExec u ((e.c (m + 1)).l t) ∧ fixedLive ((e.c (m + 1)).l t) = fixedLive ((e.c n).l t)) ∧
        ∀ a, e.mover m ≠ some (t, a)) ∨
      (atSend u ((e.c (m + 1)).l t) ∧ fixedLive ((e.c (m + 1)).l t) = fixedLive ((e.c n).l t)) := by
    rintro m ⟨hl, hk⟩
    rcases e.cases m t with ⟨hsame, hnm, _⟩ | ⟨a, g', l', hmv, htr, hg, _, hl'⟩
    · left; rw [hsame]; exact ⟨⟨hl, hk⟩, hnm⟩
    · right
      rw [hl', ← hk]
      rcases hl with h | h <;> rw [h] at htr ⊢ <;> cases htr
      · exact ⟨Or.inl rfl, rfl⟩
      · exact ⟨Or.inr rfl, rfl⟩
  have hU := holds_unless
    (fun m => atExec u ((e.c m).l t) ∧ fixedLive ((e.c m).l t) = fixedLive ((e.c n).l t))
    (fun m => atSend u ((e.c m).l t) ∧ fixedLive ((e.c m).l t) = fixedLive ((e.c n).l t)) n ⟨hl, rfl⟩
    (fun m _ hA hnB => by
      rcases hstep m hA with h | h
      · exact h.1
      · exact absurd h hnB) m1 hm1
  rcases hU with hA | ⟨k, hk1, _, hB⟩
  · obtain ⟨m, hm, hB⟩ := fair_leads e hf
      (fun m => (atExec u ((e.c m).l t) ∧ fixedLive ((e.c m).l t) = fixedLive ((e.c n).l t)) ∧
        ((e.c m).g.task u).released = true)
      (fun m => atSend u ((e.c m).l t) ∧ fixedLive ((e.c m).l t) = fixedLive ((e.c n).l t)) m1 ⟨hA, hrel⟩
      (fun m _ hA _ hnB => by
        rcases hstep m hA.1 with h | h
        · exact ⟨h.1, e.released_mono u (Nat.le_succ m) hA.2⟩
        · exact absurd h hnB)
      (fun m _ hA _ => by
        rcases hA.1.1 with h | h
        · exact enabled_of_trans h (Trans.wexec _ u hA.2) rfl
        · exact enabled_of_trans h (Trans.eexec _ u hA.2) rfl)
      (fun m a _ hA _ hmv _ => by
        rcases hstep m hA.1 with h | h
        · exact absurd hmv (h.2 a)
        · exact h)
    exact ⟨m, by omega, hB⟩
  · exact ⟨k, hk1, hB⟩

/-- (fairness of `t`) a worker at its send delivers the value and is back at the head of its loop -/
theorem send_to_home (e : Exec P) {t : Tid} (hf : WeakFair e t) (n u : Nat) (hl : atSend u ((e.c n).l t)) :
    ∃ m, n ≤ m ∧ ((e.c m).g.task u).results = [.val] ∧ atHome ((e.c m).l t) ∧
      fixedLive ((e.c m).l t) = fixedLive ((e.c n).l t) := by
  have hstep : ∀ m, atSend u ((e.c m).l t) ∧ fixedLive ((e.c m).l t) = fixedLive ((e.c n).l t) →
      ((atSend u ((e.c (m + 1)).l t) ∧ fixedLive ((e.c (m + 1)).l t) = fixedLive ((e.c n).l t)) ∧
        ∀ a, e.mover m ≠ some (t, a)) ∨
      (((e.c (m + 1)).g.task u).results = [.val] ∧ atHome ((e.c (m + 1)).l t) ∧
        fixedLive ((e.c (m + 1)).l t) = fixedLive ((e.c n).l t)) := by
    rintro m ⟨hl, hk⟩
    have hlen := ((e.pinv m).task.ok u).len (Or.inr ⟨t, _, atSend_role hl⟩)
    rcases e.cases m t with ⟨hsame, hnm, _⟩ | ⟨a, g', l', hmv, htr, hg, _, hl'⟩
    · left; rw [hsame]; exact ⟨⟨hl, hk⟩, hnm⟩
    · right
      rw [hl', hg, ← hk]
      rcases hl with h | h <;> rw [h] at htr ⊢ <;> cases htr
      · exact ⟨send_results_self _ _ _ hlen, Or.inl rfl, rfl⟩
      · exact ⟨send_results_self _ _ _ hlen, Or.inr ⟨_, rfl⟩, rfl⟩
  exact fair_leads e hf
    (fun m => atSend u ((e.c m).l t) ∧ fixedLive ((e.c m).l t) = fixedLive ((e.c n).l t))
    (fun m => ((e.c m).g.task u).results = [.val] ∧ atHome ((e.c m).l t) ∧
      fixedLive ((e.c m).l t) = fixedLive ((e.c n).l t)) n ⟨hl, rfl⟩
    (fun m _ hA _ hnB => by
      rcases hstep m hA with h | h
      · exact h.1
      · exact absurd h hnB)
    (fun m _ hA _ => by
      have h0 := (((e.pinv m).task.ok u).run t (atSend_role hA.1)).2.2
      rcases hA.1 with h | h
      · exact enabled_of_trans h (Trans.wsend _ u h0) rfl
      · exact enabled_of_trans h (Trans.esend _ u h0) rfl)
    (fun m a _ hA _ hmv _ => by
      rcases hstep m hA with h | h
      · exact absurd hmv (h.2 a)
      · exact h)

/-- (E1 + fairness of `t`) a worker that holds task `u` delivers its value and returns to the head of its loop -/
theorem run_to_home (e : Exec P) (hE1 : EnvReleases e) {t : Tid} (hf : WeakFair e t) (n u : Nat)
    (hr : role ((e.c n).l t) = some (.run, u)) :
    ∃ m, n ≤ m ∧ ((e.c m).g.task u).results = [.val] ∧ atHome ((e.c m).l t) ∧
      fixedLive ((e.c m).l t) = fixedLive ((e.c n).l t) := by
  rcases run_role_cases hr with h | h
  · obtain ⟨m1, hm1, hs, hk1⟩ := exec_to_send e hE1 hf n u h
    obtain ⟨m, hm, h1, h2, h3⟩ := send_to_home e hf m1 u hs
    exact ⟨m, by omega, h1, h2, h3.trans hk1⟩
  · exact send_to_home e hf n u h

/-- (fairness of `t`) `Stop` answers the task it is draining -/
theorem drain_to_answer (e : Exec P) {t : Tid} (hf : WeakFair e t) (n u : Nat) (hl : (e.c n).l t = .sp5s u) :
    ∃ m, n ≤ m ∧ ((e.c m).g.task u).results = [.errPool] ∧ (e.c m).l t = .sp5 := by
  have hstep : ∀ m, (e.c m).l t = .sp5s u →
      ((e.c (m + 1)).l t = .sp5s u ∧ ∀ a, e.mover m ≠ some (t, a)) ∨
      (((e.c (m + 1)).g.task u).results = [.errPool] ∧ (e.c (m + 1)).l t = .sp5) := by
    intro m hl
    have hlen := ((e.pinv m).task.ok u).len (Or.inr ⟨t, .drain, by rw [hl]; rfl⟩)
    rcases e.cases m t with ⟨hsame, hnm, _⟩ | ⟨a, g', l', hmv, htr, hg, _, hl'⟩
    · left; rw [hsame]; exact ⟨hl, hnm⟩
    · right
      rw [hl', hg]
      rw [hl] at htr
      cases htr
      exact ⟨send_results_self _ _ _ hlen, rfl⟩
  exact fair_leads e hf (fun m => (e.c m).l t = .sp5s u)
    (fun m => ((e.c m).g.task u).results = [.errPool] ∧ (e.c m).l t = .sp5) n hl
    (fun m _ hA _ hnB => by
      rcases hstep m hA with h | h
      · exact h.1
      · exact absurd h hnB)
    (fun m _ hA _ => by
      have h0 := (((e.pinv m).task.ok u).drain t (by rw [hA]; rfl)).2.2.1
      exact enabled_of_trans hA (Trans.sp5s _ u h0) rfl)
    (fun m a _ hA _ hmv _ => by
      rcases hstep m hA with h | h
      · exact absurd hmv (h.2 a)
      · exact h)

/-! ## A queued task is taken -/

/-- task `u` has left the queue and is with a worker, being drained by `Stop`, or already has a result -/
def Taken (c : Config (M P)) (u : Nat) : Prop :=
  u ∉ c.g.q ∧ ((∃ t, role (c.l t) = some (.run, u)) ∨ (∃ t, c.l t = .sp5s u) ∨ (c.g.task u).results ≠ [])

/-- a queued task stays queued or is handed to the thread that steps (a worker, or the draining `Stop`) -/
theorem q_step {g g' : G} {l l' : L} {a : Act} (h : Trans P g l a g' l') (hlen : g.q.length ≤ 1) {u : Nat}
    (hq : u ∈ g.q) : u ∈ g'.q ∨ (u ∉ g'.q ∧ (role l' = some (.run, u) ∨ l' = .sp5s u)) := by
  cases h
  all_goals first
    | (left; exact hq)
    | (exfalso; simp_all; done)
    | skip
  all_goals
    rename_i v rest hv
    have hr := q_singleton hlen hv
    subst hr
    rw [hv] at hq
    simp at hq
    subst hq
    right
    simp [role]

theorem Exec.q_next (e : Exec P) (m u : Nat) (hq : u ∈ (e.c m).g.q) :
    u ∈ (e.c (m + 1)).g.q ∨ Taken (e.c (m + 1)) u := by
  rcases e.trans m with hc | ⟨t, a, g', l', _, htr, hg, hl⟩
  · left; rw [hc]; exact hq
  · rcases q_step htr (e.pinv m).task.qlen hq with h | ⟨h1, h2 | h2⟩
    · left; rw [hg]; exact h
    · exact Or.inr ⟨by rw [hg]; exact h1, Or.inl ⟨t, by rw [hl]; exact h2⟩⟩
    · exact Or.inr ⟨by rw [hg]; exact h1, Or.inr (Or.inl ⟨t, by rw [hl]; exact h2⟩)⟩

/-- fixed workers exist or are about to start -/
def HasFixed (c : Config (M P)) : Prop := (∃ t, fixedLive (c.l t) = true) ∨ 0 < c.g.spawnFixed

/-- (fairness, E1, E2) if fixed workers exist, some thread is eventually at the head of the fixed-worker loop -/
theorem fixed_to_w0 (e : Exec P) (hfair : Fair e) (hE1 : EnvReleases e) (hE2 : EnvStarts e) (n : Nat)
    (hW : HasFixed (e.c n)) : ∃ m t, n ≤ m ∧ (e.c m).l t = .w0 := by
  rcases hW with ⟨tw, htw⟩ | hsp
  · have hrun : ∀ v, role ((e.c n).l tw) = some (.run, v) → ∃ m t, n ≤ m ∧ (e.c m).l t = .w0 := by
      intro v hr
      obtain ⟨m, hm, _, hhome, hk⟩ := run_to_home e hE1 (hfair tw) n v hr
      rw [htw] at hk
      rcases hhome with h | ⟨dl, h⟩
      · exact ⟨m, tw, hm, h⟩
      · rw [h] at hk; cases hk
    cases hl : (e.c n).l tw <;> rw [hl] at htw <;> simp [fixedLive] at htw
    · exact ⟨n, tw, Nat.le_refl _, hl⟩
    · exact hrun _ (by rw [hl]; rfl)
    · exact hrun _ (by rw [hl]; rfl)
  · obtain ⟨m, t, hm, hmv⟩ := hE2.1 n hsp
    rcases e.cases m t with ⟨_, hnm, _⟩ | ⟨a, g', l', hmv', htr, _, _, hl'⟩
    · exact absurd hmv (hnm _)
    · rw [hmv] at hmv'
      simp only [Option.some.injEq, Prod.mk.injEq, true_and] at hmv'
      subst hmv'
      generalize (e.c m).l t = l0 at htr
      cases htr
      exact ⟨m + 1, t, by omega, hl'⟩

/-- (fairness, E1, E2) a queued task is eventually taken out of the queue, provided fixed workers exist -/
theorem queued_taken (e : Exec P) (hfair : Fair e) (hE1 : EnvReleases e) (hE2 : EnvStarts e) (n u : Nat)
    (hq : u ∈ (e.c n).g.q) (hW : HasFixed (e.c n)) : ∃ m, n ≤ m ∧ Taken (e.c m) u := by
  obtain ⟨m1, t1, hm1, hl1⟩ := fixed_to_w0 e hfair hE1 hE2 n hW
  have hU := holds_unless (fun m => u ∈ (e.c m).g.q) (fun m => Taken (e.c m) u) n hq
    (fun m _ hA hnB => by
      rcases e.q_next m u hA with h | h
      · exact h
      · exact absurd h hnB) m1 hm1
  rcases hU with hQ | ⟨k, hk1, _, hB⟩
  · have hstep : ∀ m, (e.c m).l t1 = .w0 ∧ u ∈ (e.c m).g.q →
        (((e.c (m + 1)).l t1 = .w0 ∧ u ∈ (e.c (m + 1)).g.q) ∧ ∀ a, e.mover m ≠ some (t1, a)) ∨
        Taken (e.c (m + 1)) u := by
      rintro m ⟨hl, hq⟩
      rcases e.cases m t1 with ⟨hsame, hnm, _⟩ | ⟨a, g', l', hmv, htr, hg, _, hl'⟩
      · rcases e.q_next m u hq with h | h
        · left; rw [hsame]; exact ⟨⟨hl, h⟩, hnm⟩
        · exact Or.inr h
      · right
        have hlen := (e.pinv m).task.qlen
        rw [hl] at htr
        cases htr with
        | w0take v rest hv =>
          have hr := q_singleton hlen hv
          subst hr
          rw [hv] at hq
          simp at hq
          subst hq
          exact ⟨by rw [hg]; exact (List.not_mem_nil : u ∉ []), Or.inl ⟨t1, by rw [hl']; rfl⟩⟩
        | w0done hv _ =>
          rw [hv] at hq; cases hq
    obtain ⟨m, hm, hB⟩ := fair_leads e (hfair t1)
      (fun m => (e.c m).l t1 = .w0 ∧ u ∈ (e.c m).g.q) (fun m => Taken (e.c m) u) m1 ⟨hl1, hQ⟩
      (fun m _ hA _ hnB => by
        rcases hstep m hA with h | h
        · exact h.1
        · exact absurd h hnB)
      (fun m _ hA _ => by
        obtain ⟨v, rest, hv⟩ : ∃ v rest, (e.c m).g.q = v :: rest := by
          cases hq : (e.c m).g.q with
          | nil => rw [hq] at hA; exact absurd hA.2 (by simp)
          | cons v rest => exact ⟨v, rest, rfl⟩
        exact enabled_of_trans hA.1 (Trans.w0take _ v rest hv) rfl)
      (fun m a _ hA _ hmv _ => by
        rcases hstep m hA with h | h
        · exact absurd hmv (h.2 a)
        · exact h)
    exact ⟨m, by omega, hB⟩
  · exact ⟨k, hk1, hB⟩

/-! ## An accepted task gets its result -/

theorem results_length_one {c : Config (M P)} (hp : PInv P c) {u : Nat} (h : (c.g.task u).results ≠ []) :
    (c.g.task u).results.length = 1 := by
  rcases (hp.task.ok u).res with h1 | ⟨h1, _⟩ | ⟨r, _, h1, _⟩
  · exact absurd h1 h
  · rw [h1]; rfl
  · rw [h1]; rfl

/-- (fairness, E1) a task held by a worker or by the draining `Stop`, or already answered, has exactly one result
eventually -/
theorem held_to_result (e : Exec P) (hfair : Fair e) (hE1 : EnvReleases e) (m u : Nat)
    (h : (∃ t, role ((e.c m).l t) = some (.run, u)) ∨ (∃ t, (e.c m).l t = .sp5s u) ∨
      ((e.c m).g.task u).results ≠ []) :
    ∃ k, m ≤ k ∧ ((e.c k).g.task u).results.length = 1 := by
  rcases h with ⟨t, ht⟩ | ⟨t, ht⟩ | h
  · obtain ⟨k, hk, hres, _⟩ := run_to_home e hE1 (hfair t) m u ht
    exact ⟨k, hk, by rw [hres]; rfl⟩
  · obtain ⟨k, hk, hres, _⟩ := drain_to_answer e (hfair t) m u ht
    exact ⟨k, hk, by rw [hres]; rfl⟩
  · exact ⟨m, Nat.le_refl _, results_length_one (e.pinv m) h⟩

/-- (fairness) the `Start` that won the CAS spawns the fixed workers: a pool in state 1 has fixed workers (running or
about to run) now or soon -/
theorem started_has_fixed (e : Exec P) (hfair : Fair e) (hpos : 0 < P.nworker) (n : Nat)
    (h1 : (e.c n).g.state = 1) : ∃ m, n ≤ m ∧ HasFixed (e.c m) := by
  have hx := e.xinv n
  have hcl : (e.c n).g.closed = false := by
    cases hc : (e.c n).g.closed with
    | false => rfl
    | true => have := hx.pinv.lock.closed_state hc; omega
  by_cases hst : ∀ t, isSt1 ((e.c n).l t) = false
  · obtain ⟨f, hf, hsum⟩ := hx.full hcl h1 hst
    refine ⟨n, Nat.le_refl _, ?_⟩
    by_cases hf0 : f = 0
    · exact Or.inr (by omega)
    · exact Or.inl (counts_exists hf hf0)
  · obtain ⟨t0, ht0⟩ : ∃ t0, (e.c n).l t0 = .st1 := by
      apply Classical.byContradiction
      intro hno
      apply hst
      intro t
      cases hl : (e.c n).l t <;> simp [isSt1]
      exact hno ⟨t, hl⟩
    have hstep : ∀ m, (e.c m).l t0 = .st1 →
        ((e.c (m + 1)).l t0 = .st1 ∧ ∀ a, e.mover m ≠ some (t0, a)) ∨ HasFixed (e.c (m + 1)) := by
      intro m hl
      rcases e.cases m t0 with ⟨hsame, hnm, _⟩ | ⟨a, g', l', hmv, htr, hg, _, hl'⟩
      · left; rw [hsame]; exact ⟨hl, hnm⟩
      · right
        rw [hl] at htr
        cases htr
        refine Or.inr ?_
        rw [hg]
        show 0 < (e.c m).g.spawnFixed + P.nworker
        omega
    exact fair_leads e (hfair t0) (fun m => (e.c m).l t0 = .st1) (fun m => HasFixed (e.c m)) n ht0
      (fun m _ hA _ hnB => by
        rcases hstep m hA with h | h
        · exact h.1
        · exact absurd h hnB)
      (fun m _ hA _ => enabled_of_trans hA (Trans.st1 _) rfl)
      (fun m a _ hA _ hmv _ => by
        rcases hstep m hA with h | h
        · exact absurd hmv (h.2 a)
        · exact h)

/-- (fairness, E1, E2) an accepted task gets exactly one result, provided fixed workers exist -/
theorem accepted_result_of_fixed (e : Exec P) (hfair : Fair e) (hE1 : EnvReleases e) (hE2 : EnvStarts e) (n u : Nat)
    (he : ((e.c n).g.task u).enq = true) (hW : HasFixed (e.c n)) :
    ∃ m, n ≤ m ∧ ((e.c m).g.task u).results.length = 1 := by
  rcases ((e.pinv n).task.ok u).located he with hq | h | ⟨t, ht⟩ | h
  · obtain ⟨m, hm, _, hT⟩ := queued_taken e hfair hE1 hE2 n u hq hW
    obtain ⟨k, hk, hres⟩ := held_to_result e hfair hE1 m u hT
    exact ⟨k, by omega, hres⟩
  · exact held_to_result e hfair hE1 n u (Or.inl h)
  · refine held_to_result e hfair hE1 n u (Or.inr (Or.inl ⟨t, ?_⟩))
    cases hl : (e.c n).l t <;> rw [hl] at ht <;> simp [role] at ht
    rw [ht]
  · exact held_to_result e hfair hE1 n u (Or.inr (Or.inr h))

/-! ## `Stop`: invariants and step lemmas -/

/-- while a `Stop` caller waits for the readers to leave, the writer-pending flag is up -/
def PendInv (c : Config (M P)) : Prop := ∀ t, c.l t = .sp3b → c.g.wpending = true

theorem trans_wpending {g g' : G} {l l' : L} {a : Act} (h : Trans P g l a g' l') (hw : g.wpending = true)
    (hl : l ≠ .sp3b) : g'.wpending = true := by
  cases h <;> first | exact hw | (simp_all; done)

theorem trans_to_sp3b {g g' : G} {l l' : L} {a : Act} (h : Trans P g l a g' l') (hl : l' = .sp3b) :
    g'.wpending = true := by
  cases h <;> first | (cases hl; done) | rfl

theorem pend_reach (P : Params) : ∀ c, Reach (M P) c → PendInv c := by
  intro c hr
  induction hr with
  | init => intro t h; simp [Config.init, M] at h
  | @step c t' a g' l' obs hprev hstep ih =>
    have hp := pinv_reach P c hprev
    have htr : Trans P c.g (c.l t') a g' l' := step_trans (t := t') hstep
    intro t ht
    show g'.wpending = true
    by_cases htt : t = t'
    · subst htt
      rw [show (⟨g', upd c.l t l'⟩ : Config (M P)).l t = l' from upd_same _ _ _] at ht
      exact trans_to_sp3b htr ht
    · rw [show (⟨g', upd c.l t' l'⟩ : Config (M P)).l t = c.l t from upd_other _ _ _ _ htt] at ht
      refine trans_wpending htr (ih t ht) (fun h => htt ?_)
      exact hp.lock.stop_uniq t t' (by rw [ht]; rfl) (by rw [h]; rfl)

theorem Exec.pend (e : Exec P) (n : Nat) : PendInv (e.c n) := pend_reach P _ (e.reach n)

/-- the only stopper -/
theorem no_other_stopper {c : Config (M P)} (hp : PInv P c) {t : Tid} (ht : stopper (c.l t) = true) (p : L → Bool)
    (hps : ∀ l, p l = true → stopper l = true) (hpt : p (c.l t) = false) : ∀ t', p (c.l t') = false := by
  intro t'
  cases h : p (c.l t') with
  | false => rfl
  | true =>
    have := hp.lock.stop_uniq t' t (hps _ h) ht
    subst this
    rw [hpt] at h; cases h

/-- what a waiting `Stop` caller (past `cancel()`) knows -/
theorem stopper_ctx {c : Config (M P)} (hx : XInv P c) {t : Tid} (ht : stopper (c.l t) = true)
    (h2 : isSp2 (c.l t) = false) : c.g.state = 2 ∧ c.g.ctxDone = true := by
  have hs := hx.pinv.lock.stop_state t ht
  refine ⟨hs, hx.ctx hs (no_other_stopper hx.pinv ht isSp2 ?_ h2)⟩
  intro l hl; cases l <;> simp [isSp2] at hl <;> rfl

/-- a thread that is not idle only takes internal actions -/
theorem isInt_of_not_idle {g g' : G} {l l' : L} {a : Act} (h : Trans P g l a g' l') (hl : l ≠ .idle) :
    isInt a = true := by
  cases h <;> first | rfl | exact absurd rfl hl

theorem enabled_of_not_blocked' {c : Config (M P)} (hp : PInv P c) (t : Tid) (h : blockedAt c.g (c.l t) = false)
    (hl : c.l t ≠ .idle) : EnabledInt c t := by
  obtain ⟨a, g', l', obs, _, hs⟩ := enabled_of_not_blocked hp t h
  exact ⟨a, g', l', obs, isInt_of_not_idle (step_trans (t := t) hs) hl, hs⟩

/-! ### Readers leave while a writer is pending -/

theorem trans_readers_le {g g' : G} {l l' : L} {a : Act} (h : Trans P g l a g' l') (hw : g.wpending = true) :
    g'.readers ≤ g.readers := by
  cases h <;> simp_all <;> omega

theorem rank_pos_of_holdsR {l : L} (h : holdsR l = true) : 0 < rank P l := by
  cases l <;> simp [holdsR] at h <;> simp [rank]

/-- a step of a reader: its weight decreases, and it keeps the read lock or gives it back -/
theorem trans_reader {g g' : G} {l l' : L} {a : Act} (h : Trans P g l a g' l') (hr : holdsR l = true)
    (hc : g.closed = false) :
    rank P l' < rank P l ∧ g'.readers ≤ g.readers ∧ (holdsR l' = true ∨ g'.readers = g.readers - 1) := by
  cases h <;> simp [holdsR] at hr <;> simp_all [rank, holdsR] <;> omega

theorem reader_enabled {c : Config (M P)} (hp : PInv P c) {r : Tid} (hr : holdsR (c.l r) = true)
    (hctx : c.g.ctxDone = true) : EnabledInt c r := by
  refine enabled_of_not_blocked' hp r ?_ ?_
  · cases hl : c.l r <;> rw [hl] at hr <;> simp [holdsR] at hr <;> simp [blockedAt, hctx]
  · intro hl; rw [hl] at hr; cases hr

/-- waiting at `l0` for a condition: if the only move from `l0` leads to `l1`, and staying at `l0` for ever would make
`t` enabled from some position on, then (fairness of `t`) `t` reaches `l1` -/
theorem wait_leads (e : Exec P) {t : Tid} (hf : WeakFair e t) (n : Nat) (l0 l1 : L) (hl : (e.c n).l t = l0)
    (hmv : ∀ m a g' l', (e.c m).l t = l0 → Trans P (e.c m).g l0 a g' l' → l' = l1)
    (hev : (∀ m, n ≤ m → (e.c m).l t = l0) → ∃ M, n ≤ M ∧ ∀ m, M ≤ m → EnabledInt (e.c m) t) :
    ∃ m, n ≤ m ∧ (e.c m).l t = l1 := by
  apply Classical.byContradiction
  intro hno
  have hstep : ∀ m, (e.c m).l t = l0 → (e.c (m + 1)).l t = l0 ∨ (e.c (m + 1)).l t = l1 := by
    intro m hm
    rcases e.cases m t with ⟨hsame, _, _⟩ | ⟨a, g', l', _, htr, _, _, hl'⟩
    · left; rw [hsame]; exact hm
    · right; rw [hm] at htr; rw [hl']; exact hmv m a g' l' hm htr
  have H : ∀ m, n ≤ m → (e.c m).l t = l0 := by
    intro m hm
    rcases holds_unless (fun m => (e.c m).l t = l0) (fun m => (e.c m).l t = l1) n hl
      (fun m _ hA hnB => by
        rcases hstep m hA with h | h
        · exact h
        · exact absurd h hnB) m hm with h | ⟨k, hk, _, h⟩
    · exact h
    · exact absurd ⟨k, hk, h⟩ hno
  obtain ⟨M, hM, hen⟩ := hev H
  obtain ⟨m, a, hm, hmov, _⟩ := hf M hen
  rcases e.cases m t with ⟨_, hnm, _⟩ | ⟨a', g', l', _, htr, _, _, hl'⟩
  · exact absurd hmov (hnm a)
  · have h0 := H m (by omega)
    rw [h0] at htr
    exact hno ⟨m + 1, by omega, by rw [hl']; exact hmv m a' g' l' h0 htr⟩

/-- while `Stop` waits at `sp3b`, a reader eventually gives the read lock back (the count drops) -/
theorem reader_leaves (e : Exec P) (hfair : Fair e) {t : Tid} {n : Nat} (H : ∀ m, n ≤ m → (e.c m).l t = .sp3b)
    (k : Nat) :
    ∀ j r m, n ≤ m → (e.c m).g.readers ≤ k + 1 → holdsR ((e.c m).l r) = true → rank P ((e.c m).l r) ≤ j →
      ∃ m', m ≤ m' ∧ (e.c m').g.readers ≤ k := by
  intro j
  induction j with
  | zero =>
    intro r m _ _ hr hj
    have := rank_pos_of_holdsR (P := P) hr
    omega
  | succ j ih =>
    intro r m hm hk hr hj
    have hstep : ∀ m', n ≤ m' → holdsR ((e.c m').l r) = true → rank P ((e.c m').l r) ≤ j + 1 →
        (e.c m').g.readers ≤ k + 1 →
        ((holdsR ((e.c (m' + 1)).l r) = true ∧ rank P ((e.c (m' + 1)).l r) ≤ j + 1 ∧
            (e.c (m' + 1)).g.readers ≤ k + 1) ∧ ∀ a, e.mover m' ≠ some (r, a)) ∨
        ((e.c (m' + 1)).g.readers ≤ k ∨
          (holdsR ((e.c (m' + 1)).l r) = true ∧ rank P ((e.c (m' + 1)).l r) ≤ j ∧
            (e.c (m' + 1)).g.readers ≤ k + 1)) := by
      intro m' hm' hr' hj' hk'
      have hw := (e.pend m') t (H m' hm')
      have hc := (e.pinv m').lock.preclose t (by rw [H m' hm']; rfl)
      rcases e.cases m' r with ⟨hsame, hnm, hoth⟩ | ⟨a, g', l', hmv, htr, hg, _, hl'⟩
      · left
        rw [hsame]
        refine ⟨⟨hr', hj', ?_⟩, hnm⟩
        rcases hoth with hc' | ⟨t', a, g', l', _, htr, hg, _⟩
        · rw [hc']; exact hk'
        · rw [hg]; exact Nat.le_trans (trans_readers_le htr hw) hk'
      · right
        obtain ⟨h1, h2, h3⟩ := trans_reader htr hr' hc
        have hpos := (e.pinv m').lock.readers.pos r hr'
        rw [hl', hg]
        rcases h3 with h3 | h3
        · right; exact ⟨h3, by omega, by omega⟩
        · left; omega
    obtain ⟨m1, hm1, hB⟩ := fair_leads e (hfair r)
      (fun m' => holdsR ((e.c m').l r) = true ∧ rank P ((e.c m').l r) ≤ j + 1 ∧ (e.c m').g.readers ≤ k + 1)
      (fun m' => (e.c m').g.readers ≤ k ∨
        (holdsR ((e.c m').l r) = true ∧ rank P ((e.c m').l r) ≤ j ∧ (e.c m').g.readers ≤ k + 1))
      m ⟨hr, hj, hk⟩
      (fun m' hm' hA _ hnB => by
        rcases hstep m' (by omega) hA.1 hA.2.1 hA.2.2 with h | h
        · exact h.1
        · exact absurd h hnB)
      (fun m' hm' hA _ => reader_enabled (e.pinv m') hA.1
        (stopper_ctx (e.xinv m') (t := t) (by rw [H m' (by omega)]; rfl) (by rw [H m' (by omega)]; rfl)).2)
      (fun m' a hm' hA _ hmv _ => by
        rcases hstep m' (by omega) hA.1 hA.2.1 hA.2.2 with h | h
        · exact absurd hmv (h.2 a)
        · exact h)
    rcases hB with hB | ⟨h1, h2, h3⟩
    · exact ⟨m1, hm1, hB⟩
    · obtain ⟨m2, hm2, h⟩ := ih r m1 (by omega) h3 h1 h2
      exact ⟨m2, by omega, h⟩

theorem readers_drain (e : Exec P) (hfair : Fair e) {t : Tid} {n : Nat} (H : ∀ m, n ≤ m → (e.c m).l t = .sp3b) :
    ∀ k m, n ≤ m → (e.c m).g.readers ≤ k → ∃ m', m ≤ m' ∧ (e.c m').g.readers = 0 := by
  intro k
  induction k with
  | zero => intro m _ h; exact ⟨m, Nat.le_refl _, by omega⟩
  | succ k ih =>
    intro m hm h
    by_cases h0 : (e.c m).g.readers = 0
    · exact ⟨m, Nat.le_refl _, h0⟩
    · obtain ⟨r, hr⟩ := counts_exists (e.pinv m).lock.readers h0
      obtain ⟨m1, hm1, h1⟩ := reader_leaves e hfair H k _ r m hm h hr (Nat.le_refl _)
      obtain ⟨m2, hm2, h2⟩ := ih m1 (by omega) h1
      exact ⟨m2, by omega, h2⟩

/-- (fairness of all threads) `Stop` gets the write lock: the readers drain, because the context was cancelled before
the lock was requested and new readers are held back by the pending writer -/
theorem sp3b_to_sp3c (e : Exec P) (hfair : Fair e) (t : Tid) (n : Nat) (hl : (e.c n).l t = .sp3b) :
    ∃ m, n ≤ m ∧ (e.c m).l t = .sp3c := by
  refine wait_leads e (hfair t) n .sp3b .sp3c hl (fun m a g' l' _ htr => by cases htr; rfl) (fun H => ?_)
  obtain ⟨M, hM, h0⟩ := readers_drain e hfair H _ n (Nat.le_refl _) (Nat.le_refl _)
  have hall : ∀ d, (e.c (M + d)).g.readers = 0 := by
    intro d
    induction d with
    | zero => exact h0
    | succ d ih =>
      have hw := (e.pend (M + d)) t (H (M + d) (by omega))
      rcases e.trans (M + d) with hc | ⟨t', a, g', l', _, htr, hg, _⟩
      · rw [show M + (d + 1) = M + d + 1 from rfl, hc]; exact ih
      · rw [show M + (d + 1) = M + d + 1 from rfl, hg]
        have := trans_readers_le htr hw
        omega
  refine ⟨M, hM, fun m hm => ?_⟩
  have hr : (e.c m).g.readers = 0 := by
    have := hall (m - M); rwa [show M + (m - M) = m by omega] at this
  exact enabled_of_trans (H m (by omega)) (Trans.sp3b _ hr) rfl

/-! ### Workers exit once the queue is closed -/

/-- a worker (fixed or expanded) that has not yet called `wg.Done` -/
def live (l : L) : Bool := fixedLive l || expPre l

/-- weight of a worker: its own remaining steps plus one loop iteration per queued task -/
def wrank (P : Params) (g : G) (l : L) : Nat := rank P l + 3 * g.q.length

theorem trans_wg_le {g g' : G} {l l' : L} {a : Act} (h : Trans P g l a g' l') (hi : inner l = false) :
    g'.wg ≤ g.wg := by
  cases h <;> simp_all [inner] <;> omega

theorem trans_q_le {g g' : G} {l l' : L} {a : Act} (h : Trans P g l a g' l') (hc : g.closed = true) :
    g'.q.length ≤ g.q.length := by
  cases h <;> simp_all

/-- a step of a live worker: its weight decreases, and it stays a live worker or calls `wg.Done` -/
theorem trans_worker {g g' : G} {l l' : L} {a : Act} (h : Trans P g l a g' l') (hl : live l = true) :
    wrank P g' l' < wrank P g l ∧ g'.wg ≤ g.wg ∧ (live l' = true ∨ g'.wg = g.wg - 1) := by
  cases h <;> simp [live, fixedLive, expPre] at hl <;> simp_all [wrank, rank, live, fixedLive, expPre] <;> omega

theorem worker_enabled {c : Config (M P)} (hp : PInv P c) {r : Tid} (hl : live (c.l r) = true)
    (hc : c.g.closed = true) (hne : ∀ v, ¬ atExec v (c.l r)) : EnabledInt c r := by
  refine enabled_of_not_blocked' hp r ?_ ?_
  · cases h : c.l r <;> rw [h] at hl hne <;> simp [live, fixedLive, expPre] at hl <;> simp [blockedAt, hc]
    · exact absurd (Or.inl rfl) (hne _)
    · exact absurd (Or.inr rfl) (hne _)
  · intro h; rw [h] at hl; cases hl

theorem exec_send_rank {v : Nat} {l l' : L} (h : atExec v l) (h' : atSend v l') (hk : fixedLive l' = fixedLive l) :
    rank P l' + 1 = rank P l ∧ live l' = true := by
  rcases h with h | h <;> rcases h' with h' | h' <;> subst h <;> subst h' <;> simp [fixedLive] at hk <;>
    simp [rank, live, fixedLive, expPre]

/-- while `Stop` waits at `sp4` (queue closed), `wg` and the queue length never grow -/
theorem sp4_mono (e : Exec P) {t : Tid} {n : Nat} (H : ∀ m, n ≤ m → (e.c m).l t = .sp4) (m : Nat) (hm : n ≤ m) :
    ∀ d, (e.c (m + d)).g.wg ≤ (e.c m).g.wg ∧ (e.c (m + d)).g.q.length ≤ (e.c m).g.q.length := by
  intro d
  induction d with
  | zero => exact ⟨Int.le_refl _, Nat.le_refl _⟩
  | succ d ih =>
    have hp := e.pinv (m + d)
    have hc : (e.c (m + d)).g.closed = true := hp.lock.postclose t (by rw [H _ (by omega)]; rfl)
    rcases e.trans (m + d) with hc' | ⟨t', a, g', l', _, htr, hg, _⟩
    · rw [show m + (d + 1) = m + d + 1 from rfl, hc']; exact ih
    · rw [show m + (d + 1) = m + d + 1 from rfl, hg]
      have hi : inner ((e.c (m + d)).l t') = false := by
        cases hh : inner ((e.c (m + d)).l t') with
        | false => rfl
        | true => have := hp.lock.inner_open t' hh; rw [hc] at this; cases this
      have h1 := trans_wg_le htr hi
      have h2 := trans_q_le htr hc
      exact ⟨Int.le_trans h1 ih.1, Nat.le_trans h2 ih.2⟩

theorem sp4_mono' (e : Exec P) {t : Tid} {n : Nat} (H : ∀ m, n ≤ m → (e.c m).l t = .sp4) {m m' : Nat} (hm : n ≤ m)
    (hmm : m ≤ m') : (e.c m').g.wg ≤ (e.c m).g.wg ∧ (e.c m').g.q.length ≤ (e.c m).g.q.length := by
  have := sp4_mono e H m hm (m' - m)
  rwa [show m + (m' - m) = m' by omega] at this

/-- while `Stop` waits at `sp4`, a live worker eventually calls `wg.Done` (the count drops) -/
theorem worker_exits (e : Exec P) (hfair : Fair e) (hE1 : EnvReleases e) {t : Tid} {n : Nat}
    (H : ∀ m, n ≤ m → (e.c m).l t = .sp4) (k : Nat) :
    ∀ j r m, n ≤ m → (e.c m).g.wg ≤ (k : Int) + 1 → live ((e.c m).l r) = true →
      wrank P (e.c m).g ((e.c m).l r) ≤ j → ∃ m', m ≤ m' ∧ (e.c m').g.wg ≤ (k : Int) := by
  intro j
  induction j with
  | zero =>
    intro r m _ _ hr hj
    exfalso
    have : 0 < rank P ((e.c m).l r) := by
      cases h : (e.c m).l r <;> rw [h] at hr <;> simp [live, fixedLive, expPre] at hr <;> simp [rank]
    unfold wrank at hj
    omega
  | succ j ih =>
    intro r m hm hk hr hj
    by_cases hex : ∃ v, atExec v ((e.c m).l r)
    · obtain ⟨v, hv⟩ := hex
      obtain ⟨m1, hm1, hs, hk1⟩ := exec_to_send e hE1 (hfair r) m v hv
      obtain ⟨h1, h2⟩ := exec_send_rank (P := P) hv hs hk1
      obtain ⟨h3, h4⟩ := sp4_mono' e H hm hm1
      obtain ⟨m2, hm2, h⟩ := ih r m1 (by omega) (Int.le_trans h3 hk) h2 (by unfold wrank at hj ⊢; omega)
      exact ⟨m2, by omega, h⟩
    · have hstep : ∀ m', n ≤ m' → live ((e.c m').l r) = true → wrank P (e.c m').g ((e.c m').l r) ≤ j + 1 →
          (e.c m').g.wg ≤ (k : Int) + 1 → (∀ v, ¬ atExec v ((e.c m').l r)) →
          ((live ((e.c (m' + 1)).l r) = true ∧ wrank P (e.c (m' + 1)).g ((e.c (m' + 1)).l r) ≤ j + 1 ∧
              (e.c (m' + 1)).g.wg ≤ (k : Int) + 1 ∧ (∀ v, ¬ atExec v ((e.c (m' + 1)).l r))) ∧
            ∀ a, e.mover m' ≠ some (r, a)) ∨
          ((e.c (m' + 1)).g.wg ≤ (k : Int) ∨
            (live ((e.c (m' + 1)).l r) = true ∧ wrank P (e.c (m' + 1)).g ((e.c (m' + 1)).l r) ≤ j ∧
              (e.c (m' + 1)).g.wg ≤ (k : Int) + 1)) := by
        intro m' hm' hr' hj' hk' hne'
        obtain ⟨h3, h4⟩ := sp4_mono e H m' hm' 1
        rcases e.cases m' r with ⟨hsame, hnm, _⟩ | ⟨a, g', l', hmv, htr, hg, _, hl'⟩
        · left
          rw [hsame]
          exact ⟨⟨hr', by unfold wrank at hj' ⊢; omega, Int.le_trans h3 hk', hne'⟩, hnm⟩
        · right
          obtain ⟨h1, h2, h5⟩ := trans_worker htr hr'
          rw [hl', hg]
          rcases h5 with h5 | h5
          · right; exact ⟨h5, by omega, by omega⟩
          · left; omega
      obtain ⟨m1, hm1, hB⟩ := fair_leads e (hfair r)
        (fun m' => live ((e.c m').l r) = true ∧ wrank P (e.c m').g ((e.c m').l r) ≤ j + 1 ∧
          (e.c m').g.wg ≤ (k : Int) + 1 ∧ (∀ v, ¬ atExec v ((e.c m').l r)))
        (fun m' => (e.c m').g.wg ≤ (k : Int) ∨
          (live ((e.c m').l r) = true ∧ wrank P (e.c m').g ((e.c m').l r) ≤ j ∧ (e.c m').g.wg ≤ (k : Int) + 1))
        m ⟨hr, hj, hk, fun v hv => hex ⟨v, hv⟩⟩
        (fun m' hm' hA _ hnB => by
          rcases hstep m' (by omega) hA.1 hA.2.1 hA.2.2.1 hA.2.2.2 with h | h
          · exact h.1
          · exact absurd h hnB)
        (fun m' hm' hA _ => worker_enabled (e.pinv m') hA.1
          ((e.pinv m').lock.postclose t (by rw [H m' (by omega)]; rfl)) hA.2.2.2)
        (fun m' a hm' hA _ hmv _ => by
          rcases hstep m' (by omega) hA.1 hA.2.1 hA.2.2.1 hA.2.2.2 with h | h
          · exact absurd hmv (h.2 a)
          · exact h)
      rcases hB with hB | ⟨h1, h2, h3⟩
      · exact ⟨m1, hm1, hB⟩
      · obtain ⟨m2, hm2, h⟩ := ih r m1 (by omega) h3 h1 h2
        exact ⟨m2, by omega, h⟩

theorem wg_drain (e : Exec P) (hfair : Fair e) (hE1 : EnvReleases e) (hE2 : EnvStarts e) {t : Tid} {n : Nat}
    (H : ∀ m, n ≤ m → (e.c m).l t = .sp4) :
    ∀ (k : Nat) m, n ≤ m → (e.c m).g.wg ≤ (k : Int) → ∃ m', m ≤ m' ∧ (e.c m').g.wg ≤ 0 := by
  intro k
  induction k with
  | zero => intro m _ h; exact ⟨m, Nat.le_refl _, h⟩
  | succ k ih =>
    intro m hm h
    have hexit : ∀ r m0, m ≤ m0 → live ((e.c m0).l r) = true → ∃ m', m ≤ m' ∧ (e.c m').g.wg ≤ 0 := by
      intro r m0 hm0 hr
      have h0 := (sp4_mono' e H hm hm0).1
      obtain ⟨m1, hm1, h1⟩ := worker_exits e hfair hE1 H k _ r m0 (by omega) (by push_cast at h; omega) hr
        (Nat.le_refl _)
      obtain ⟨m2, hm2, h2⟩ := ih m1 (by omega) h1
      exact ⟨m2, by omega, h2⟩
    obtain ⟨f, x, hf, hx, hwg⟩ := (e.pinv m).count.wg
    by_cases hf0 : f = 0
    · by_cases hx0 : x = 0
      · by_cases hsf : 0 < (e.c m).g.spawnFixed
        · obtain ⟨m1, r, hm1, hmv⟩ := hE2.1 m hsf
          rcases e.cases m1 r with ⟨_, hnm, _⟩ | ⟨a, g', l', hmv', htr, _, _, hl'⟩
          · exact absurd hmv (hnm _)
          · rw [hmv] at hmv'
            simp only [Option.some.injEq, Prod.mk.injEq, true_and] at hmv'
            subst hmv'
            generalize (e.c m1).l r = l0 at htr
            cases htr
            exact hexit r (m1 + 1) (by omega) (by rw [hl']; rfl)
        · by_cases hse : 0 < (e.c m).g.spawnExp
          · obtain ⟨m1, r, hm1, hmv⟩ := hE2.2 m hse
            rcases e.cases m1 r with ⟨_, hnm, _⟩ | ⟨a, g', l', hmv', htr, _, _, hl'⟩
            · exact absurd hmv (hnm _)
            · rw [hmv] at hmv'
              simp only [Option.some.injEq, Prod.mk.injEq, true_and] at hmv'
              subst hmv'
              generalize (e.c m1).l r = l0 at htr
              cases htr
              exact hexit r (m1 + 1) (by omega) (by rw [hl']; rfl)
          · exact ⟨m, Nat.le_refl _, by rw [hwg]; omega⟩
      · obtain ⟨r, hr⟩ := counts_exists hx hx0
        exact hexit r m (Nat.le_refl _) (by simp [live, hr])
    · obtain ⟨r, hr⟩ := counts_exists hf hf0
      exact hexit r m (Nat.le_refl _) (by simp [live, hr])

/-- (fairness of all threads, E1, E2) `wg.Wait()` in `Stop` returns: every worker finishes its task, finds the queue
closed and exits -/
theorem sp4_to_sp5 (e : Exec P) (hfair : Fair e) (hE1 : EnvReleases e) (hE2 : EnvStarts e) (t : Tid) (n : Nat)
    (hl : (e.c n).l t = .sp4) : ∃ m, n ≤ m ∧ (e.c m).l t = .sp5 := by
  refine wait_leads e (hfair t) n .sp4 .sp5 hl (fun m a g' l' _ htr => by cases htr; rfl) (fun H => ?_)
  have hnn : ∀ m, 0 ≤ (e.c m).g.wg := by
    intro m
    obtain ⟨f, x, _, _, hwg⟩ := (e.pinv m).count.wg
    rw [hwg]; omega
  obtain ⟨M, hM, h0⟩ := wg_drain e hfair hE1 hE2 H ((e.c n).g.wg.toNat) n (Nat.le_refl _)
    (by have := hnn n; omega)
  refine ⟨M, hM, fun m hm => ?_⟩
  have h1 := (sp4_mono' e H hM hm).1
  have h2 := hnn m
  exact enabled_of_trans (H m (by omega)) (Trans.sp4 _ (by omega)) rfl

/-! ### The straight-line stages of `Stop`, and the whole call -/

/-- leads-to from a program counter at which `t` is always enabled -/
theorem pc_leads (e : Exec P) {t : Tid} (hf : WeakFair e t) (n : Nat) (l0 : L) (B : Nat → Prop)
    (hl : (e.c n).l t = l0)
    (hen : ∀ m, n ≤ m → (e.c m).l t = l0 → EnabledInt (e.c m) t)
    (hmv : ∀ m a g' l', n ≤ m → (e.c m).l t = l0 → Trans P (e.c m).g l0 a g' l' → (e.c (m + 1)).g = g' →
      (e.c (m + 1)).l t = l' → B (m + 1)) :
    ∃ m, n ≤ m ∧ B m := by
  have hstep : ∀ m, n ≤ m → (e.c m).l t = l0 →
      ((e.c (m + 1)).l t = l0 ∧ ∀ a, e.mover m ≠ some (t, a)) ∨ B (m + 1) := by
    intro m hm hA
    rcases e.cases m t with ⟨hsame, hnm, _⟩ | ⟨a, g', l', _, htr, hg, _, hl'⟩
    · left; rw [hsame]; exact ⟨hA, hnm⟩
    · right; rw [hA] at htr; exact hmv m a g' l' hm hA htr hg hl'
  exact fair_leads e hf (fun m => (e.c m).l t = l0) B n hl
    (fun m hm hA _ hnB => by
      rcases hstep m hm hA with h | h
      · exact h.1
      · exact absurd h hnB)
    (fun m hm hA _ => hen m hm hA)
    (fun m a hm hA _ hmv' _ => by
      rcases hstep m hm hA with h | h
      · exact absurd hmv' (h.2 a)
      · exact h)

theorem length_zero_of_le {α} {l l' : List α} (h : l'.length ≤ l.length) (h0 : l = []) : l' = [] := by
  subst h0; cases l' with
  | nil => rfl
  | cons _ _ => simp at h

/-- (fairness of `t`) the drain loop of `Stop` ends: the queue is closed, nobody refills it -/
theorem sp5_to_idle (e : Exec P) {t : Tid} (hf : WeakFair e t) (n : Nat) (hl : (e.c n).l t = .sp5) :
    ∃ m, n ≤ m ∧ (e.c m).l t = .idle := by
  -- first iteration
  obtain ⟨m1, hm1, h1⟩ := pc_leads e hf n .sp5
    (fun m => (e.c m).l t = .idle ∨ ∃ u, (e.c m).l t = .sp5s u ∧ (e.c m).g.q = []) hl
    (fun m _ hA => by
      cases hq : (e.c m).g.q with
      | nil => exact enabled_of_trans hA (Trans.sp5done _ hq) rfl
      | cons u rest => exact enabled_of_trans hA (Trans.sp5take _ u rest hq) rfl)
    (fun m a g' l' _ hA htr hg hl' => by
      have hlen := (e.pinv m).task.qlen
      cases htr with
      | sp5take u rest hq =>
        have hr := q_singleton hlen hq
        subst hr
        exact Or.inr ⟨u, hl', by rw [hg]⟩
      | sp5done hq => exact Or.inl hl')
  -- the queue stays empty from now on, as long as `t` is in the loop
  have hq_stable : ∀ m, postClose ((e.c m).l t) = true → (e.c m).g.q = [] → (e.c (m + 1)).g.q = [] := by
    intro m hpc hq
    have hc := (e.pinv m).lock.postclose t hpc
    rcases e.trans m with hc' | ⟨t', a, g', l', _, htr, hg, _⟩
    · rw [hc']; exact hq
    · rw [hg]; exact length_zero_of_le (trans_q_le htr hc) hq
  rcases h1 with h1 | ⟨u, h1, hq1⟩
  · exact ⟨m1, hm1, h1⟩
  · -- answer the drained task
    have hstep2 : ∀ m, (e.c m).l t = .sp5s u ∧ (e.c m).g.q = [] →
        (((e.c (m + 1)).l t = .sp5s u ∧ (e.c (m + 1)).g.q = []) ∧ ∀ a, e.mover m ≠ some (t, a)) ∨
        ((e.c (m + 1)).l t = .sp5 ∧ (e.c (m + 1)).g.q = []) := by
      rintro m ⟨hA, hq⟩
      have hq' := hq_stable m (by rw [hA]; rfl) hq
      rcases e.cases m t with ⟨hsame, hnm, _⟩ | ⟨a, g', l', _, htr, _, _, hl'⟩
      · left; rw [hsame]; exact ⟨⟨hA, hq'⟩, hnm⟩
      · right
        rw [hA] at htr
        cases htr
        exact ⟨hl', hq'⟩
    obtain ⟨m2, hm2, h2, hq2⟩ := fair_leads e hf
      (fun m => (e.c m).l t = .sp5s u ∧ (e.c m).g.q = []) (fun m => (e.c m).l t = .sp5 ∧ (e.c m).g.q = []) m1
      ⟨h1, hq1⟩
      (fun m _ hA _ hnB => by
        rcases hstep2 m hA with h | h
        · exact h.1
        · exact absurd h hnB)
      (fun m _ hA _ => by
        have h0 := (((e.pinv m).task.ok u).drain t (by rw [hA.1]; rfl)).2.2.1
        exact enabled_of_trans hA.1 (Trans.sp5s _ u h0) rfl)
      (fun m a _ hA _ hmv _ => by
        rcases hstep2 m hA with h | h
        · exact absurd hmv (h.2 a)
        · exact h)
    -- second look at the queue: empty
    have hstep3 : ∀ m, (e.c m).l t = .sp5 ∧ (e.c m).g.q = [] →
        (((e.c (m + 1)).l t = .sp5 ∧ (e.c (m + 1)).g.q = []) ∧ ∀ a, e.mover m ≠ some (t, a)) ∨
        (e.c (m + 1)).l t = .idle := by
      rintro m ⟨hA, hq⟩
      have hq' := hq_stable m (by rw [hA]; rfl) hq
      rcases e.cases m t with ⟨hsame, hnm, _⟩ | ⟨a, g', l', _, htr, _, _, hl'⟩
      · left; rw [hsame]; exact ⟨⟨hA, hq'⟩, hnm⟩
      · right
        rw [hA] at htr
        cases htr with
        | sp5take u rest hq0 => rw [hq] at hq0; cases hq0
        | sp5done _ => exact hl'
    obtain ⟨m3, hm3, h3⟩ := fair_leads e hf
      (fun m => (e.c m).l t = .sp5 ∧ (e.c m).g.q = []) (fun m => (e.c m).l t = .idle) m2 ⟨h2, hq2⟩
      (fun m _ hA _ hnB => by
        rcases hstep3 m hA with h | h
        · exact h.1
        · exact absurd h hnB)
      (fun m _ hA _ => enabled_of_trans hA.1 (Trans.sp5done _ hA.2) rfl)
      (fun m a _ hA _ hmv _ => by
        rcases hstep3 m hA with h | h
        · exact absurd hmv (h.2 a)
        · exact h)
    exact ⟨m3, by omega, h3⟩

/-- inside `Stop` -/
def inStop : L → Bool
  | .sp0 | .sp1 | .sp2 | .sp3a | .sp3b | .sp3c | .sp3d | .sp4 | .sp5 | .sp5s _ => true
  | _ => false

/-- (fairness of all threads, E1, E2) a `Stop` call returns -/
theorem stop_returns_fair (e : Exec P) (hfair : Fair e) (hE1 : EnvReleases e) (hE2 : EnvStarts e) (t : Tid) (n : Nat)
    (hin : inStop ((e.c n).l t) = true) : ∃ m, n ≤ m ∧ (e.c m).l t = .idle := by
  have h5 : ∀ m, (e.c m).l t = .sp5 → ∃ m', m ≤ m' ∧ (e.c m').l t = .idle := fun m h => sp5_to_idle e (hfair t) m h
  have h5s : ∀ m u, (e.c m).l t = .sp5s u → ∃ m', m ≤ m' ∧ (e.c m').l t = .idle := by
    intro m u h
    obtain ⟨m1, hm1, _, h1⟩ := drain_to_answer e (hfair t) m u h
    obtain ⟨m2, hm2, h2⟩ := h5 m1 h1
    exact ⟨m2, by omega, h2⟩
  have h4 : ∀ m, (e.c m).l t = .sp4 → ∃ m', m ≤ m' ∧ (e.c m').l t = .idle := by
    intro m h
    obtain ⟨m1, hm1, h1⟩ := sp4_to_sp5 e hfair hE1 hE2 t m h
    obtain ⟨m2, hm2, h2⟩ := h5 m1 h1
    exact ⟨m2, by omega, h2⟩
  have h3d : ∀ m, (e.c m).l t = .sp3d → ∃ m', m ≤ m' ∧ (e.c m').l t = .idle := by
    intro m h
    obtain ⟨m1, hm1, h1⟩ := pc_leads e (hfair t) m .sp3d (fun m => (e.c m).l t = .sp4) h
      (fun m _ hA => enabled_of_trans hA (Trans.sp3d _) rfl)
      (fun m a g' l' _ _ htr _ hl' => by cases htr; exact hl')
    obtain ⟨m2, hm2, h2⟩ := h4 m1 h1
    exact ⟨m2, by omega, h2⟩
  have h3c : ∀ m, (e.c m).l t = .sp3c → ∃ m', m ≤ m' ∧ (e.c m').l t = .idle := by
    intro m h
    obtain ⟨m1, hm1, h1⟩ := pc_leads e (hfair t) m .sp3c (fun m => (e.c m).l t = .sp3d) h
      (fun m _ hA => enabled_of_trans hA
        (Trans.sp3c _ ((e.pinv m).lock.preclose t (by rw [hA]; rfl))) rfl)
      (fun m a g' l' _ hA htr _ hl' => by
        have hc := (e.pinv m).lock.preclose t (by rw [hA]; rfl)
        cases htr with
        | sp3cPanic hc' => rw [hc] at hc'; cases hc'
        | sp3c _ => exact hl')
    obtain ⟨m2, hm2, h2⟩ := h3d m1 h1
    exact ⟨m2, by omega, h2⟩
  have h3b : ∀ m, (e.c m).l t = .sp3b → ∃ m', m ≤ m' ∧ (e.c m').l t = .idle := by
    intro m h
    obtain ⟨m1, hm1, h1⟩ := sp3b_to_sp3c e hfair t m h
    obtain ⟨m2, hm2, h2⟩ := h3c m1 h1
    exact ⟨m2, by omega, h2⟩
  have h3a : ∀ m, (e.c m).l t = .sp3a → ∃ m', m ≤ m' ∧ (e.c m').l t = .idle := by
    intro m h
    obtain ⟨m1, hm1, h1⟩ := pc_leads e (hfair t) m .sp3a (fun m => (e.c m).l t = .sp3b) h
      (fun m _ hA => by
        have hp := e.pinv m
        have hst : stopper ((e.c m).l t) = true := by rw [hA]; rfl
        have hw := writer_false hp (no_other_stopper hp hst hasW (fun _ => stopper_of_hasW) (by rw [hA]; rfl))
        have hwp := wpending_false hp (no_other_stopper hp hst isSp3b
          (fun l hl => by cases l <;> simp [isSp3b] at hl <;> rfl) (by rw [hA]; rfl))
        exact enabled_of_trans hA (Trans.sp3a _ hw hwp) rfl)
      (fun m a g' l' _ _ htr _ hl' => by cases htr; exact hl')
    obtain ⟨m2, hm2, h2⟩ := h3b m1 h1
    exact ⟨m2, by omega, h2⟩
  have h2 : ∀ m, (e.c m).l t = .sp2 → ∃ m', m ≤ m' ∧ (e.c m').l t = .idle := by
    intro m h
    obtain ⟨m1, hm1, h1⟩ := pc_leads e (hfair t) m .sp2 (fun m => (e.c m).l t = .sp3a) h
      (fun m _ hA => enabled_of_trans hA (Trans.sp2 _) rfl)
      (fun m a g' l' _ _ htr _ hl' => by cases htr; exact hl')
    obtain ⟨m2, hm2, h2⟩ := h3a m1 h1
    exact ⟨m2, by omega, h2⟩
  have h1 : ∀ m, (e.c m).l t = .sp1 → ∃ m', m ≤ m' ∧ (e.c m').l t = .idle := by
    intro m h
    obtain ⟨m1, hm1, h1⟩ := pc_leads e (hfair t) m .sp1 (fun m => (e.c m).l t = .sp2 ∨ (e.c m).l t = .idle) h
      (fun m _ hA => by
        by_cases hs : (e.c m).g.state = 1
        · exact enabled_of_trans hA (Trans.sp1win _ hs) rfl
        · exact enabled_of_trans hA (Trans.sp1lose _ hs) rfl)
      (fun m a g' l' _ _ htr _ hl' => by
        cases htr with
        | sp1win _ => exact Or.inl hl'
        | sp1lose _ => exact Or.inr hl')
    rcases h1 with h1 | h1
    · obtain ⟨m2, hm2, h2⟩ := h2 m1 h1
      exact ⟨m2, by omega, h2⟩
    · exact ⟨m1, hm1, h1⟩
  have h0 : ∀ m, (e.c m).l t = .sp0 → ∃ m', m ≤ m' ∧ (e.c m').l t = .idle := by
    intro m h
    obtain ⟨m1, hm1, h1'⟩ := pc_leads e (hfair t) m .sp0 (fun m => (e.c m).l t = .sp2 ∨ (e.c m).l t = .sp1) h
      (fun m _ hA => by
        by_cases hs : (e.c m).g.state = 0
        · exact enabled_of_trans hA (Trans.sp0win _ hs) rfl
        · exact enabled_of_trans hA (Trans.sp0lose _ hs) rfl)
      (fun m a g' l' _ _ htr _ hl' => by
        cases htr with
        | sp0win _ => exact Or.inl hl'
        | sp0lose _ => exact Or.inr hl')
    rcases h1' with h1' | h1'
    · obtain ⟨m2, hm2, h2⟩ := h2 m1 h1'
      exact ⟨m2, by omega, h2⟩
    · obtain ⟨m2, hm2, h2⟩ := h1 m1 h1'
      exact ⟨m2, by omega, h2⟩
  cases hl : (e.c n).l t <;> rw [hl] at hin <;> simp [inStop] at hin
  · exact h0 n hl
  · exact h1 n hl
  · exact h2 n hl
  · exact h3a n hl
  · exact h3b n hl
  · exact h3c n hl
  · exact h3d n hl
  · exact h4 n hl
  · exact h5 n hl
  · exact h5s n _ hl

/-! ## Executions from a finite schedule (for non-vacuity witnesses) -/

theorem run_append (M : Machine) (s1 s2 : List (Tid × M.Act)) :
    ∀ c : Config M, (run M c (s1 ++ s2)).1 = (run M (run M c s1).1 s2).1 := by
  induction s1 with
  | nil => intro c; rfl
  | cons ta rest ih =>
    intro c
    obtain ⟨t, a⟩ := ta
    cases h : M.step t c.g (c.l t) a with
    | none => simp only [List.cons_append, run, h]; exact ih c
    | some r =>
      obtain ⟨g', l', obs⟩ := r
      simp only [List.cons_append, run, h]
      exact ih _

/-- the configuration after the first `n` entries of the schedule `s` (disabled entries are skipped) -/
def schedCfg (P : Params) (s : List (Tid × (M P).Act)) (n : Nat) : Config (M P) :=
  (run (M P) (Config.init (M P)) (s.take n)).1

def schedMover (P : Params) (s : List (Tid × (M P).Act)) (n : Nat) : Option (Tid × Act) :=
  match s[n]? with
  | none => none
  | some (t, a) =>
    if (step P t (schedCfg P s n).g ((schedCfg P s n).l t) a).isSome then some (t, a) else none

theorem schedCfg_ge (P : Params) (s : List (Tid × (M P).Act)) {n : Nat} (h : s.length ≤ n) :
    schedCfg P s n = schedCfg P s s.length := by
  simp [schedCfg, List.take_of_length_le h]

theorem schedMover_ge (P : Params) (s : List (Tid × (M P).Act)) {n : Nat} (h : s.length ≤ n) : schedMover P s n = none := by
  simp [schedMover, List.getElem?_eq_none h]

/-- run the schedule `s` from the initial configuration, then stutter for ever -/
def Exec.ofSchedule (P : Params) (s : List (Tid × (M P).Act)) : Exec P where
  c := schedCfg P s
  mover := schedMover P s
  init := by
    have : schedCfg P s 0 = Config.init (M P) := by simp [schedCfg, run]
    rw [this]; exact Reach.init
  next := by
    intro n
    cases hn : s[n]? with
    | none =>
      left
      have hlen : s.length ≤ n := by
        rcases Nat.lt_or_ge n s.length with h | h
        · rw [List.getElem?_eq_getElem h] at hn; cases hn
        · exact h
      refine ⟨by simp [schedMover, hn], ?_⟩
      rw [schedCfg_ge P s hlen, schedCfg_ge P s (Nat.le_succ_of_le hlen)]
    | some ta =>
      obtain ⟨t, a⟩ := ta
      have htake : s.take (n + 1) = s.take n ++ [(t, a)] := by
        rw [List.take_add_one, hn]; rfl
      have hcfg : schedCfg P s (n + 1) = (run (M P) (schedCfg P s n) [(t, a)]).1 := by
        unfold schedCfg
        rw [htake, run_append]
      cases hs : step P t (schedCfg P s n).g ((schedCfg P s n).l t) a with
      | none =>
        left
        refine ⟨by simp [schedMover, hn, hs], ?_⟩
        rw [hcfg]
        show (run (M P) (schedCfg P s n) [(t, a)]).1 = _
        have hs' : (M P).step t (schedCfg P s n).g ((schedCfg P s n).l t) a = none := hs
        simp only [run, hs']
      | some r =>
        obtain ⟨g', l', obs⟩ := r
        right
        refine ⟨t, a, g', l', obs, by simp [schedMover, hn, hs], hs, ?_⟩
        rw [hcfg]
        have hs' : (M P).step t (schedCfg P s n).g ((schedCfg P s n).l t) a = some (g', l', obs) := hs
        simp only [run, hs']

/-- a schedule whose final configuration has no enabled internal step yields a fair execution -/
theorem ofSchedule_fair (P : Params) (s : List (Tid × (M P).Act))
    (hb : ∀ t, blockedAt (schedCfg P s s.length).g ((schedCfg P s s.length).l t) = true) :
    Fair (Exec.ofSchedule P s) := by
  intro t n hen
  exfalso
  obtain ⟨a, g', l', obs, ha, hs⟩ := hen (max n s.length) (Nat.le_max_left _ _)
  have hc : (Exec.ofSchedule P s).c (max n s.length) = schedCfg P s s.length :=
    schedCfg_ge P s (Nat.le_max_right _ _)
  rw [hc] at hs
  have hstuck := blocked_stuck (P := P) hb t a (by cases a <;> simp [isInt] at ha <;> rfl)
  have hs' : step P t (schedCfg P s s.length).g ((schedCfg P s s.length).l t) a = some (g', l', obs) := hs
  rw [hstuck] at hs'
  cases hs'

/-- E1 for a schedule execution: every task that exists at the end has been released at the end -/
theorem ofSchedule_releases (P : Params) (s : List (Tid × (M P).Act))
    (hrel : ∀ u, u < (schedCfg P s s.length).g.tasks.length → ((schedCfg P s s.length).g.task u).released = true) :
    EnvReleases (Exec.ofSchedule P s) := by
  intro n u hx
  refine ⟨max n s.length, Nat.le_max_left _ _, ?_⟩
  have hc : (Exec.ofSchedule P s).c (max n s.length) = schedCfg P s s.length :=
    schedCfg_ge P s (Nat.le_max_right _ _)
  have hmono := ((Exec.ofSchedule P s).taskMono (Nat.le_max_left n s.length)).exec u
  rw [hc] at hmono ⊢
  apply hrel
  apply Classical.byContradiction
  intro hlt
  have hd : (schedCfg P s s.length).g.task u = { ctx := .never } := task_default (by omega)
  rw [hd] at hmono
  simp at hmono
  omega

end Garr.Pool.Fair
