import Garr.Pool.Count
/-!
# Worker-pool model: lock / state-machine invariant and counter invariant
-/
namespace Garr.Pool
open Garr.Conc

/-! ## Classification of program counters -/

/-- between a successful `RLock`/`TryRLock` and the `RUnlock` (`Do`, `TryDo`, and `Start`) -/
def holdsR : L → Bool
  | .d2 _ | .d3 _ | .dsel _ | .dres _ | .dspawn _ | .dundo _ | .push _ | .d9 _
  | .t2 _ | .t3 _ true | .tsel _ | .t9 _ _
  | .st0c | .st1 | .st2 => true
  | _ => false

/-- holding the read lock and past a check that the pool is not stopped: `Do`/`TryDo` past `stopped()` (they may still
send on the task queue), `Start` past its successful CAS 0→1 (it still has to `wg.Add` and spawn) -/
def inner : L → Bool
  | .dsel _ | .dres _ | .dspawn _ | .dundo _ | .push _ | .tsel _ | .st1 => true
  | _ => false

/-- the `Stop` caller that won the state CAS, until it returns -/
def stopper : L → Bool
  | .sp2 | .sp3a | .sp3b | .sp3c | .sp3d | .sp4 | .sp5 | .sp5s _ => true
  | _ => false

def preClose : L → Bool
  | .sp2 | .sp3a | .sp3b | .sp3c => true
  | _ => false

def postClose : L → Bool
  | .sp3d | .sp4 | .sp5 | .sp5s _ => true
  | _ => false

/-- holding the write lock -/
def hasW : L → Bool
  | .sp3c | .sp3d => true
  | _ => false

/-- a fixed worker that has not yet called `wg.Done` -/
def fixedLive : L → Bool
  | .w0 | .wexec _ | .wsend _ => true
  | _ => false

/-- an expanded worker that has not yet called `wg.Done` -/
def expPre : L → Bool
  | .e0 _ | .eexec _ | .esend _ | .eexit => true
  | _ => false

def isEexit2 : L → Bool | .eexit2 => true | _ => false
def isDspawn : L → Bool | .dspawn _ => true | _ => false
def isDundo : L → Bool | .dundo _ => true | _ => false
def isSt1 : L → Bool | .st1 => true | _ => false

/-! ## Lock / state-machine invariant -/

structure LockInv (g : G) (ls : Tid → L) : Prop where
  stop_uniq : ∀ t t', stopper (ls t) = true → stopper (ls t') = true → t = t'
  stop_state : ∀ t, stopper (ls t) = true → g.state = 2
  closed_state : g.closed = true → g.state = 2
  preclose : ∀ t, preClose (ls t) = true → g.closed = false
  postclose : ∀ t, postClose (ls t) = true → g.closed = true
  hasw : ∀ t, hasW (ls t) = true → g.writer = true
  inner_open : ∀ t, inner (ls t) = true → g.closed = false
  readers : Counts holdsR ls g.readers
  writer_excl : g.writer = true → ∀ t, holdsR (ls t) = false
  panics : g.panics = 0
  nopanic : ∀ t, ls t ≠ .panicked

/-- a step that neither takes/releases the write lock nor closes the queue -/
structure LockFrame (g g' : G) (ls : Tid → L) (t : Tid) (l' : L) : Prop where
  state : g.state = 2 → g'.state = 2
  closed : g'.closed = g.closed
  writer : g'.writer = g.writer ∨ stopper (ls t) = true
  wexcl : g'.writer = true → g.writer = true ∨ g.readers = 0
  readers : g'.readers = g.readers + (holdsR l').toNat - (holdsR (ls t)).toNat
  panics : g'.panics = g.panics
  stopper : stopper l' = true → stopper (ls t) = true ∨ ((∀ t', stopper (ls t') = false) ∧ g'.state = 2)
  preClose : preClose l' = true → preClose (ls t) = true ∨ g.closed = false
  postClose : postClose l' = true → postClose (ls t) = true
  hasW : hasW l' = true → g'.writer = true
  inner : inner l' = true → inner (ls t) = true ∨ g.closed = false
  holdsR : holdsR l' = true → g'.writer = false ∨ holdsR (ls t) = true
  nopanic : l' ≠ .panicked

theorem stopper_of_hasW {l : L} (h : hasW l = true) : stopper l = true := by
  cases l <;> simp_all [hasW, stopper]

theorem stopper_of_preClose {l : L} (h : preClose l = true) : stopper l = true := by
  cases l <;> simp_all [preClose, stopper]

theorem holdsR_of_inner {l : L} (h : inner l = true) : holdsR l = true := by
  cases l <;> simp_all [inner, holdsR]

theorem upd_eq_or {α} (f : Tid → α) (t : Tid) (v : α) (u : Tid) : (u = t ∧ upd f t v u = v) ∨ (u ≠ t ∧ upd f t v u = f u) := by
  by_cases h : u = t
  · exact Or.inl ⟨h, by simp [upd, h]⟩
  · exact Or.inr ⟨h, by simp [upd, h]⟩

theorem LockInv.frame {g g' : G} {ls : Tid → L} {t : Tid} {l' : L} (hinv : LockInv g ls)
    (hf : LockFrame g g' ls t l') : LockInv g' (upd ls t l') := by
  obtain ⟨h1, h2, h3, h4, h5, h6, h7, h8, h9, h10, h11⟩ := hinv
  obtain ⟨fs, fc, fw, fx, fr, fp, f1, f2, f3, f4, f5, f6, f7⟩ := hf
  refine ⟨?_, ?_, ?_, ?_, ?_, ?_, ?_, ?_, ?_, ?_, ?_⟩
  · intro a b ha hb
    rcases upd_eq_or ls t l' a with ⟨xa, ea⟩ | ⟨na, ea⟩ <;> rcases upd_eq_or ls t l' b with ⟨xb, eb⟩ | ⟨nb, eb⟩ <;>
      rw [ea] at ha <;> rw [eb] at hb
    · exact xa.trans xb.symm
    · rcases f1 ha with h | ⟨h, _⟩
      · exact xa.trans (h1 _ _ h hb)
      · rw [h b] at hb; cases hb
    · rcases f1 hb with h | ⟨h, _⟩
      · exact (h1 _ _ ha h).trans xb.symm
      · rw [h a] at ha; cases ha
    · exact h1 _ _ ha hb
  · intro a ha
    rcases upd_eq_or ls t l' a with ⟨_, ea⟩ | ⟨na, ea⟩ <;> rw [ea] at ha
    · rcases f1 ha with h | ⟨_, h⟩
      · exact fs (h2 _ h)
      · exact h
    · exact fs (h2 _ ha)
  · rw [fc]; exact fun h => fs (h3 h)
  · intro a ha
    rw [fc]
    rcases upd_eq_or ls t l' a with ⟨_, ea⟩ | ⟨na, ea⟩ <;> rw [ea] at ha
    · rcases f2 ha with h | h
      · exact h4 _ h
      · exact h
    · exact h4 _ ha
  · intro a ha
    rw [fc]
    rcases upd_eq_or ls t l' a with ⟨_, ea⟩ | ⟨na, ea⟩ <;> rw [ea] at ha
    · exact h5 _ (f3 ha)
    · exact h5 _ ha
  · intro a ha
    rcases upd_eq_or ls t l' a with ⟨_, ea⟩ | ⟨na, ea⟩ <;> rw [ea] at ha
    · exact f4 ha
    · rcases fw with h | h
      · rw [h]; exact h6 _ ha
      · exact absurd (h1 _ _ (stopper_of_hasW ha) h) na
  · intro a ha
    rw [fc]
    rcases upd_eq_or ls t l' a with ⟨_, ea⟩ | ⟨na, ea⟩ <;> rw [ea] at ha
    · rcases f5 ha with h | h
      · exact h7 _ h
      · exact h
    · exact h7 _ ha
  · rw [fr]; exact h8.upd t l'
  · intro hw a
    have hold : ∀ b, holdsR (ls b) = false := by
      rcases fx hw with h | h
      · exact h9 h
      · rw [h] at h8; exact h8.zero
    rcases upd_eq_or ls t l' a with ⟨_, ea⟩ | ⟨na, ea⟩ <;> rw [ea]
    · cases hh : holdsR l' with
      | false => rfl
      | true =>
        rcases f6 hh with h | h
        · rw [hw] at h; cases h
        · rw [hold t] at h; cases h
    · exact hold _
  · rw [fp]; exact h10
  · intro a
    rcases upd_eq_or ls t l' a with ⟨_, ea⟩ | ⟨na, ea⟩ <;> rw [ea]
    · exact f7
    · exact h11 _

set_option maxHeartbeats 1000000 in
theorem LockInv.step {P : Params} {g g' : G} {ls : Tid → L} {t : Tid} {l : L} {a : Act} {l' : L}
    (hinv : LockInv g ls) (hl : ls t = l) (h : Trans P g l a g' l') : LockInv g' (upd ls t l') := by
  have hcl : g.state ≠ 2 → g.closed = false := fun h => by
    cases hc : g.closed with
    | false => rfl
    | true => exact absurd (hinv.closed_state hc) h
  have hns : g.state ≠ 2 → ∀ t', stopper (ls t') = false := fun h t' => by
    cases hc : stopper (ls t') with
    | false => rfl
    | true => exact absurd (hinv.stop_state t' hc) h
  have hw := hinv.hasw t
  cases h
  all_goals first
    | (refine hinv.frame ?_
       refine ⟨?_, rfl, ?_, ?_, ?_, rfl, ?_, ?_, ?_, ?_, ?_, ?_, ?_⟩ <;>
         first
         | (simp [hl, stopper, preClose, postClose, hasW, inner, holdsR]; done)
         | (simp_all [stopper, preClose, hasW, inner, holdsR]; done))
    | skip
  case dselPanic u hc => exact absurd (hinv.inner_open t (by rw [hl]; rfl)) (by simp [hc])
  case pushPanic u hc => exact absurd (hinv.inner_open t (by rw [hl]; rfl)) (by simp [hc])
  case tselPanic u hc => exact absurd (hinv.inner_open t (by rw [hl]; rfl)) (by simp [hc])
  case sp3cPanic hc => exact absurd (hinv.preclose t (by rw [hl]; rfl)) (by simp [hc])
  case sp3c hc =>
    obtain ⟨h1, h2, h3, h4, h5, h6, h7, h8, h9, h10, h11⟩ := hinv
    have hst : stopper (ls t) = true := by rw [hl]; rfl
    have hwr : g.writer = true := hw (by rw [hl]; rfl)
    refine ⟨?_, ?_, ?_, ?_, ?_, ?_, ?_, ?_, ?_, ?_, ?_⟩
    · intro a b ha hb
      rcases upd_eq_or ls t .sp3d a with ⟨xa, ea⟩ | ⟨na, ea⟩ <;> rcases upd_eq_or ls t .sp3d b with ⟨xb, eb⟩ | ⟨nb, eb⟩ <;>
        rw [ea] at ha <;> rw [eb] at hb
      · exact xa.trans xb.symm
      · exact xa.trans (h1 _ _ hst hb)
      · exact (h1 _ _ ha hst).trans xb.symm
      · exact h1 _ _ ha hb
    · intro a _; exact h2 t hst
    · intro _; exact h2 t hst
    · intro a ha
      rcases upd_eq_or ls t .sp3d a with ⟨_, ea⟩ | ⟨na, ea⟩ <;> rw [ea] at ha
      · cases ha
      · exact absurd (h1 _ _ (stopper_of_preClose ha) hst) na
    · intro a _; rfl
    · intro a ha
      rcases upd_eq_or ls t .sp3d a with ⟨_, ea⟩ | ⟨na, ea⟩ <;> rw [ea] at ha
      · exact hwr
      · exact h6 _ ha
    · intro a ha
      rcases upd_eq_or ls t .sp3d a with ⟨_, ea⟩ | ⟨na, ea⟩ <;> rw [ea] at ha
      · cases ha
      · have := h9 hwr a; rw [holdsR_of_inner ha] at this; cases this
    · have := h8.upd t .sp3d
      simpa [hl, holdsR] using this
    · intro hw' a
      rcases upd_eq_or ls t .sp3d a with ⟨_, ea⟩ | ⟨na, ea⟩ <;> rw [ea]
      · rfl
      · exact h9 hwr a
    · exact h10
    · intro a
      rcases upd_eq_or ls t .sp3d a with ⟨_, ea⟩ | ⟨na, ea⟩ <;> rw [ea]
      · simp
      · exact h11 _

/-! ## The write side of the lock is only held / awaited by the `Stop` caller -/

def isSp3b : L → Bool | .sp3b => true | _ => false

structure WInv (g : G) (ls : Tid → L) : Prop where
  writer : g.writer = true → ∃ t, hasW (ls t) = true
  wpending : g.wpending = true → ∃ t, isSp3b (ls t) = true

theorem exists_preserve {p : L → Bool} {b b' : Bool} {ls : Tid → L} {t : Tid} {l' : L}
    (h : b = true → ∃ a, p (ls a) = true)
    (hflag : b' = true → b = true ∨ p l' = true) (hkeep : p (ls t) = true → p l' = true ∨ b' = false) :
    b' = true → ∃ a, p (upd ls t l' a) = true := by
  intro hb'
  rcases hflag hb' with hb | hp
  · obtain ⟨a, ha⟩ := h hb
    by_cases hat : a = t
    · subst hat
      rcases hkeep ha with h1 | h1
      · exact ⟨a, by rw [upd_same]; exact h1⟩
      · rw [hb'] at h1; cases h1
    · exact ⟨a, by rw [upd_other _ _ _ _ hat]; exact ha⟩
  · exact ⟨t, by rw [upd_same]; exact hp⟩

set_option linter.unusedSimpArgs false in
theorem WInv.step {P : Params} {g g' : G} {ls : Tid → L} {t : Tid} {l : L} {a : Act} {l' : L}
    (hlock : LockInv g ls) (hinv : WInv g ls) (hl : ls t = l) (h : Trans P g l a g' l') : WInv g' (upd ls t l') := by
  have hpre := hlock.preclose t
  cases h
  all_goals
    refine ⟨exists_preserve hinv.writer ?_ ?_, exists_preserve hinv.wpending ?_ ?_⟩ <;>
    first
    | (simp [hl, hasW, isSp3b]; done)
    | (simp_all [hasW, isSp3b, preClose]; done)

/-! ## The state word only moves 0 → 1 → 2: a `Stop` caller whose CAS 0→2 failed knows `state ≠ 0` for ever -/

def isSp1 : L → Bool | .sp1 => true | _ => false

def Sp1Inv (g : G) (ls : Tid → L) : Prop := g.state ≤ 2 ∧ ∀ t, isSp1 (ls t) = true → g.state ≠ 0

theorem pcg_preserve {p : L → Bool} {Q Q' : Prop} {ls : Tid → L} {t : Tid} {l' : L}
    (h : ∀ a, p (ls a) = true → Q) (hQ : Q → Q') (hnew : p l' = true → p (ls t) = true ∨ Q') :
    ∀ a, p (upd ls t l' a) = true → Q' := by
  intro a ha
  rcases upd_eq_or ls t l' a with ⟨_, ea⟩ | ⟨_, ea⟩ <;> rw [ea] at ha
  · rcases hnew ha with h1 | h1
    · exact hQ (h t h1)
    · exact h1
  · exact hQ (h a ha)

theorem Sp1Inv.step {P : Params} {g g' : G} {ls : Tid → L} {t : Tid} {l : L} {a : Act} {l' : L}
    (hinv : Sp1Inv g ls) (hl : ls t = l) (h : Trans P g l a g' l') : Sp1Inv g' (upd ls t l') := by
  have hle := hinv.1
  cases h
  all_goals
    refine ⟨?_, pcg_preserve hinv.2 ?_ ?_⟩ <;>
    first
    | exact hle
    | (simp [hl, isSp1]; done)
    | (simp_all [isSp1]; done)

/-! ## Counters: `wg`, `expanded`, number of fixed workers -/

structure CountInv (P : Params) (g : G) (ls : Tid → L) : Prop where
  wg : ∃ f e, Counts fixedLive ls f ∧ Counts expPre ls e ∧ g.wg = ((f + e + g.spawnFixed + g.spawnExp : Nat) : Int)
  exp : ∃ e x s d, Counts expPre ls e ∧ Counts isEexit2 ls x ∧ Counts isDspawn ls s ∧ Counts isDundo ls d ∧
      g.expanded = ((e + x + s + d + g.spawnExp : Nat) : Int) ∧ e + x + s + g.spawnExp ≤ P.limit
  fixed : ∃ f k, Counts fixedLive ls f ∧ Counts isSt1 ls k ∧
      ((k = 0 ∧ f + g.spawnFixed ≤ P.nworker) ∨ (k = 1 ∧ f + g.spawnFixed = 0)) ∧
      (g.state = 0 → f + g.spawnFixed + k = 0)

set_option maxHeartbeats 1000000 in
theorem CountInv.step {P : Params} {g g' : G} {ls : Tid → L} {t : Tid} {l : L} {a : Act} {l' : L}
    (hinv : CountInv P g ls) (hl : ls t = l) (h : Trans P g l a g' l') : CountInv P g' (upd ls t l') := by
  obtain ⟨⟨f, e, hf, he, hwg⟩, ⟨e2, x, s, d, he2, hx, hs, hd, hexp, hlim⟩, ⟨f3, k, hf3, hk, hfix, hst⟩⟩ := hinv
  have p1 := hf.pos t
  have p2 := he.pos t
  have p3 := he2.pos t
  have p4 := hx.pos t
  have p5 := hs.pos t
  have p6 := hd.pos t
  have p7 := hf3.pos t
  have p8 := hk.pos t
  cases h
  all_goals
    simp only [hl, fixedLive, expPre, isEexit2, isDspawn, isDundo, isSt1, Bool.false_eq_true, false_imp_iff,
      true_imp_iff] at p1 p2 p3 p4 p5 p6 p7 p8
    refine ⟨⟨_, _, hf.upd t _, he.upd t _, ?_⟩, ⟨_, _, _, _, he2.upd t _, hx.upd t _, hs.upd t _, hd.upd t _, ?_, ?_⟩,
      ⟨_, _, hf3.upd t _, hk.upd t _, ?_, ?_⟩⟩ <;>
    simp [hl, fixedLive, expPre, isEexit2, isDspawn, isDundo, isSt1] <;> omega

end Garr.Pool
