import Garr.Conc
import Garr.Num.Wrap
/-!
# Generic model of a mutex-protected object (`queue.MutexLinkedQueue`, `adder.MutexAdder`)

A *program table* gives, per operation, its lock mode and its sequential effect.  Every method is ONE
critical section: acquire (`Lock` for writers, `RLock` for readers), read the guarded state into a local
copy, (writers) write the new state back, release.  The read and the write are separate steps (plain memory
accesses of the guarded fields), so mutual exclusion is what makes the method atomic — without the lock,
interleaved read-modify-write sequences would lose updates.  The `RWMutex` is a writer flag + reader count
(as the cooperative `vsync.RWMutex` of the harness; writer preference is a fairness matter and irrelevant for
safety).
-/
namespace Garr.Locked
open Garr.Conc

structure Prog (S Op Ret : Type) where
  init : S
  writes : Op → Bool             -- the method takes the write lock
  apply : S → Op → S × Ret       -- sequential effect

structure LG (S : Type) where
  st : S
  writer : Bool := false
  readers : Nat := 0

inductive LL (S Op Ret : Type)
  | idle
  | acq (op : Op)                    -- about to Lock / RLock
  | rd (op : Op)                     -- inside: read the guarded state
  | wr (op : Op) (loc : S)           -- inside (writers): write the new state computed from the copy
  | rel (op : Op) (r : Ret)          -- about to Unlock / RUnlock
  | retn (r : Ret)                   -- released; about to return

inductive LAct (Op : Type) | call (op : Op) | tau

inductive LObs (Ret : Type)
  | lp (r : Ret)       -- linearization point
  | ret (r : Ret)      -- response
  | lock | unlock | rlock | runlock

variable {S Op Ret : Type}

def step (P : Prog S Op Ret) (_t : Tid) (g : LG S) : LL S Op Ret → LAct Op → Option (LG S × LL S Op Ret × List (LObs Ret))
  | .idle, .call op => some (g, .acq op, [])
  | .acq op, .tau =>
      if P.writes op then
        (if g.writer || g.readers != 0 then none else some ({ g with writer := true }, .rd op, [.lock]))
      else
        (if g.writer then none else some ({ g with readers := g.readers + 1 }, .rd op, [.rlock]))
  | .rd op, .tau =>
      if P.writes op then some (g, .wr op g.st, [])
      else some (g, .rel op (P.apply g.st op).2, [.lp (P.apply g.st op).2])
  | .wr op loc, .tau => some ({ g with st := (P.apply loc op).1 }, .rel op (P.apply loc op).2, [.lp (P.apply loc op).2])
  | .rel op r, .tau =>
      if P.writes op then some ({ g with writer := false }, .retn r, [.unlock])
      else some ({ g with readers := g.readers - 1 }, .retn r, [.runlock])
  | .retn r, .tau => some (g, .idle, [.ret r])
  | _, _ => none

def M (P : Prog S Op Ret) : Machine where
  G := LG S
  L := LL S Op Ret
  Act := LAct Op
  Obs := LObs Ret
  init := { st := P.init }
  idle := .idle
  step := step P

/-! ## The two instances -/

inductive QOp | offer (v : Nat) | poll | peek | size | isEmpty
deriving Repr, DecidableEq
inductive QRet | unit | nil | val (v : Nat) | int (n : Nat) | bool (b : Bool)
deriving Repr, DecidableEq

/-- `queue.MutexLinkedQueue` over `container/list` -/
def queueProg : Prog (List Nat) QOp QRet where
  init := []
  writes := fun op => match op with | .offer _ | .poll => true | _ => false
  apply := fun s op => match op, s with
    | .offer v, s => (s ++ [v], .unit)
    | .poll, [] => ([], .nil)
    | .poll, v :: rest => (rest, .val v)
    | .peek, [] => ([], .nil)
    | .peek, v :: rest => (v :: rest, .val v)
    | .size, s => (s, .int s.length)
    | .isEmpty, s => (s, .bool s.isEmpty)

inductive AOp | add (x : Int) | sum | reset | sumAndReset | store (v : Int)
deriving Repr, DecidableEq

/-- `adder.MutexAdder` (int64 with two's-complement wrap) -/
def adderProg : Prog Int AOp (Option Int) where
  init := 0
  writes := fun op => match op with | .sum => false | _ => true
  apply := fun s op => match op with
    | .add x => (wrap64 (s + x), none)
    | .sum => (s, some s)
    | .reset => (0, none)
    | .sumAndReset => (0, some s)
    | .store v => (v, none)

end Garr.Locked
