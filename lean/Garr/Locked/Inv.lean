import Garr.Locked.Model
/-!
# The lock invariant of the generic mutex-protected object `Garr.Locked.M P`

For every program table `P` and every reachable configuration (`lockInv_reach`):

* `writer_iff`   — the writer flag is set iff some thread is between its `Lock` and `Unlock` (`inW`);
* `excl`         — at most one thread is `inW`;
* `writer_noreaders`, `LockInv.no_reader` — while a thread is `inW`, the reader count is 0 and no thread
  is between `RLock` and `RUnlock` (`inR`);
* `readers`      — the reader count is the number of threads that are `inR` (finite witness: a duplicate-free
  list of exactly those threads, whose length is the count);
* `wr_ok`        — THE data fact: a thread about to write back (`wr op loc`) is a writer and its local copy
  `loc` still equals the guarded state `g.st`: nobody wrote since its `rd`, by exclusion.

`Prog.ReadsPure` is the well-formedness condition of a table (read-locked methods do not change the
state); it holds for `queueProg` and `adderProg`.
-/
namespace Garr.Locked
open Garr.Conc

variable {S Op Ret : Type}

/-- the thread is a writer between its `Lock` and its `Unlock` -/
def inW (P : Prog S Op Ret) : LL S Op Ret → Prop
  | .rd op => P.writes op = true
  | .wr op _ => P.writes op = true
  | .rel op _ => P.writes op = true
  | _ => False

/-- the thread is a reader between its `RLock` and its `RUnlock` -/
def inR (P : Prog S Op Ret) : LL S Op Ret → Prop
  | .rd op => P.writes op = false
  | .rel op _ => P.writes op = false
  | _ => False

theorem not_inW_inR (P : Prog S Op Ret) (x : LL S Op Ret) : inW P x → ¬ inR P x := by
  cases x <;> simp [inW, inR]

/-- the lock invariant, on the raw components of a configuration -/
structure LockInv (P : Prog S Op Ret) (g : LG S) (l : Tid → LL S Op Ret) : Prop where
  /-- at most one writer inside -/
  excl : ∀ t u, inW P (l t) → inW P (l u) → t = u
  /-- the writer flag says exactly that a writer is inside -/
  writer_iff : g.writer = true ↔ ∃ t, inW P (l t)
  /-- a writer inside excludes readers (count) -/
  writer_noreaders : g.writer = true → g.readers = 0
  /-- the reader count counts the readers inside -/
  readers : ∃ rs : List Tid, rs.Nodup ∧ rs.length = g.readers ∧ ∀ t, t ∈ rs ↔ inR P (l t)
  /-- only writers write back, and the copy they computed from is still the current state -/
  wr_ok : ∀ t op loc, l t = .wr op loc → P.writes op = true ∧ loc = g.st

namespace LockInv

variable {P : Prog S Op Ret} {g g' : LG S} {l : Tid → LL S Op Ret} {t : Tid} {l' : LL S Op Ret}

/-- a reader count of 0 means that no reader is inside -/
theorem no_reader_of_zero (h : LockInv P g l) (h0 : g.readers = 0) : ∀ u, ¬ inR P (l u) := by
  obtain ⟨rs, _, hlen, hmem⟩ := h.readers
  intro u hu
  have : u ∈ rs := (hmem u).mpr hu
  have hnil : rs = [] := List.eq_nil_of_length_eq_zero (hlen.trans h0)
  rw [hnil] at this
  cases this

/-- while a writer is inside, the reader count is 0 -/
theorem readers_zero (h : LockInv P g l) (hw : inW P (l t)) : g.readers = 0 :=
  h.writer_noreaders (h.writer_iff.mpr ⟨t, hw⟩)

/-- while a writer is inside, no reader is inside -/
theorem no_reader (h : LockInv P g l) (hw : inW P (l t)) : ∀ u, ¬ inR P (l u) :=
  h.no_reader_of_zero (h.readers_zero hw)

/-- while the writer flag is clear, no writer is inside -/
theorem no_writer (h : LockInv P g l) (hw : g.writer = false) : ∀ u, ¬ inW P (l u) := by
  intro u hu
  have := h.writer_iff.mpr ⟨u, hu⟩
  rw [hw] at this
  cases this

theorem inW_upd (hW : inW P l' ↔ inW P (l t)) (u : Tid) : inW P (upd l t l' u) ↔ inW P (l u) := by
  by_cases hu : u = t
  · subst hu; simpa using hW
  · rw [upd_other _ _ _ _ hu]

theorem inR_upd (hR : inR P l' ↔ inR P (l t)) (u : Tid) : inR P (upd l t l' u) ↔ inR P (l u) := by
  by_cases hu : u = t
  · subst hu; simpa using hR
  · rw [upd_other _ _ _ _ hu]

/-- the `wr_ok` part for a step that neither writes the state nor enters `wr` -/
theorem wr_frame (h : LockInv P g l) (hst : g'.st = g.st) (hl' : ∀ op loc, l' ≠ .wr op loc) :
    ∀ u op loc, upd l t l' u = .wr op loc → P.writes op = true ∧ loc = g'.st := by
  intro u op loc hu
  by_cases hut : u = t
  · subst hut
    rw [upd_same] at hu
    exact absurd hu (hl' op loc)
  · rw [upd_other _ _ _ _ hut] at hu
    rw [hst]
    exact h.wr_ok u op loc hu

/-- steps that change neither the lock words nor the acting thread's lock status -/
theorem frame (h : LockInv P g l) (hw : g'.writer = g.writer) (hr : g'.readers = g.readers)
    (hW : inW P l' ↔ inW P (l t)) (hR : inR P l' ↔ inR P (l t))
    (hwr : ∀ u op loc, upd l t l' u = .wr op loc → P.writes op = true ∧ loc = g'.st) :
    LockInv P g' (upd l t l') := by
  refine ⟨?_, ?_, ?_, ?_, hwr⟩
  · intro a b ha hb
    exact h.excl a b ((inW_upd hW a).mp ha) ((inW_upd hW b).mp hb)
  · rw [hw, h.writer_iff]
    exact ⟨fun ⟨u, hu⟩ => ⟨u, (inW_upd hW u).mpr hu⟩, fun ⟨u, hu⟩ => ⟨u, (inW_upd hW u).mp hu⟩⟩
  · rw [hw, hr]; exact h.writer_noreaders
  · obtain ⟨rs, hnd, hlen, hmem⟩ := h.readers
    exact ⟨rs, hnd, hlen.trans hr.symm, fun u => (hmem u).trans (inR_upd hR u).symm⟩

theorem init (P : Prog S Op Ret) : LockInv P { st := P.init } (fun _ => .idle) where
  excl := by intro t u h; cases h
  writer_iff := by
    constructor
    · intro h; cases h
    · rintro ⟨t, h⟩; cases h
  writer_noreaders := by intro h; cases h
  readers := ⟨[], List.nodup_nil, rfl, fun t => by simp [inR]⟩
  wr_ok := by intro t op loc h; cases h

/-- the lock invariant is preserved by every step of every thread -/
theorem preserved {a : LAct Op} {obs : List (LObs Ret)} (h : LockInv P g l)
    (hs : Locked.step P t g (l t) a = some (g', l', obs)) : LockInv P g' (upd l t l') := by
  generalize hx : l t = x at hs
  cases x with
  | idle =>
    cases a with
    | tau => simp [Locked.step] at hs
    | call op =>
      simp only [Locked.step, Option.some.injEq, Prod.mk.injEq] at hs
      obtain ⟨rfl, rfl, rfl⟩ := hs
      exact h.frame rfl rfl (by simp [inW, hx]) (by simp [inR, hx])
        (h.wr_frame rfl (by intro _ _ hh; cases hh))
  | acq op =>
    cases a with
    | call _ => simp [Locked.step] at hs
    | tau =>
      simp only [Locked.step] at hs
      by_cases hwop : P.writes op = true
      · -- `Lock`: enabled only if no writer and no reader is inside
        rw [if_pos hwop] at hs
        split at hs
        · cases hs
        · rename_i hfree
          simp only [Option.some.injEq, Prod.mk.injEq] at hs
          obtain ⟨rfl, rfl, rfl⟩ := hs
          have hw0 : g.writer = false := by
            cases hgw : g.writer <;> simp_all
          have hr0 : g.readers = 0 := by
            cases hgw : g.writer <;> simp_all
          have hnoW := h.no_writer hw0
          have hnoR := h.no_reader_of_zero hr0
          have hWiff : ∀ u, inW P (upd l t (LL.rd op) u) ↔ u = t := by
            intro u
            by_cases hu : u = t
            · subst hu; simp [inW, hwop]
            · rw [upd_other _ _ _ _ hu]; simp [hu, hnoW u]
          refine ⟨?_, ?_, ?_, ?_, ?_⟩
          · intro a b ha hb
            rw [(hWiff a).mp ha, (hWiff b).mp hb]
          · exact ⟨fun _ => ⟨t, (hWiff t).mpr rfl⟩, fun _ => rfl⟩
          · intro _; exact hr0
          · refine ⟨[], List.nodup_nil, hr0.symm, fun u => ?_⟩
            rw [inR_upd (l := l) (t := t) (l' := LL.rd op) (by simp [inR, hx, hwop]) u]
            simp [hnoR u]
          · exact h.wr_frame rfl (by intro _ _ hh; cases hh)
      · -- `RLock`: enabled only if no writer is inside
        have hwop' : P.writes op = false := by simpa using hwop
        rw [if_neg hwop] at hs
        split at hs
        · cases hs
        · rename_i hfree
          simp only [Option.some.injEq, Prod.mk.injEq] at hs
          obtain ⟨rfl, rfl, rfl⟩ := hs
          have hw0 : g.writer = false := by simpa using hfree
          have hW : inW P (LL.rd op) ↔ inW P (l t) := by simp [inW, hx, hwop']
          obtain ⟨rs, hnd, hlen, hmem⟩ := h.readers
          refine ⟨?_, ?_, ?_, ?_, ?_⟩
          · intro a b ha hb
            exact h.excl a b ((inW_upd hW a).mp ha) ((inW_upd hW b).mp hb)
          · show g.writer = true ↔ _
            rw [h.writer_iff]
            exact ⟨fun ⟨u, hu⟩ => ⟨u, (inW_upd hW u).mpr hu⟩, fun ⟨u, hu⟩ => ⟨u, (inW_upd hW u).mp hu⟩⟩
          · intro hw1
            have : g.writer = true := hw1
            rw [hw0] at this; cases this
          · have htn : t ∉ rs := by
              intro ht
              have := (hmem t).mp ht
              rw [hx] at this
              exact this
            refine ⟨t :: rs, List.nodup_cons.mpr ⟨htn, hnd⟩, by simp [hlen], fun u => ?_⟩
            by_cases hu : u = t
            · subst hu; simp [inR, hwop']
            · rw [upd_other _ _ _ _ hu, ← hmem u]; simp [hu]
          · exact h.wr_frame rfl (by intro _ _ hh; cases hh)
  | rd op =>
    cases a with
    | call _ => simp [Locked.step] at hs
    | tau =>
      simp only [Locked.step] at hs
      by_cases hwop : P.writes op = true
      · -- a writer copies the guarded state
        rw [if_pos hwop] at hs
        simp only [Option.some.injEq, Prod.mk.injEq] at hs
        obtain ⟨rfl, rfl, rfl⟩ := hs
        refine h.frame rfl rfl (by simp [inW, hx, hwop]) (by simp [inR, hx, hwop]) ?_
        intro u op' loc hu
        by_cases hut : u = t
        · subst hut
          rw [upd_same] at hu
          cases hu
          exact ⟨hwop, rfl⟩
        · rw [upd_other _ _ _ _ hut] at hu
          exact h.wr_ok u op' loc hu
      · -- a reader computes its result
        have hwop' : P.writes op = false := by simpa using hwop
        rw [if_neg hwop] at hs
        simp only [Option.some.injEq, Prod.mk.injEq] at hs
        obtain ⟨rfl, rfl, rfl⟩ := hs
        exact h.frame rfl rfl (by simp [inW, hx, hwop']) (by simp [inR, hx, hwop'])
          (h.wr_frame rfl (by intro _ _ hh; cases hh))
  | wr op loc =>
    cases a with
    | call _ => simp [Locked.step] at hs
    | tau =>
      simp only [Locked.step, Option.some.injEq, Prod.mk.injEq] at hs
      obtain ⟨rfl, rfl, rfl⟩ := hs
      obtain ⟨hwop, _⟩ := h.wr_ok t op loc hx
      have htW : inW P (l t) := by rw [hx]; exact hwop
      refine h.frame rfl rfl (by simp [inW, hx, hwop]) (by simp [inR, hx, hwop]) ?_
      -- no other thread is at `wr` (exclusion), and this one leaves it
      intro u op' loc' hu
      by_cases hut : u = t
      · subst hut
        rw [upd_same] at hu
        cases hu
      · rw [upd_other _ _ _ _ hut] at hu
        have huW : inW P (l u) := by rw [hu]; exact (h.wr_ok u op' loc' hu).1
        exact absurd (h.excl u t huW htW) hut
  | rel op r =>
    cases a with
    | call _ => simp [Locked.step] at hs
    | tau =>
      simp only [Locked.step] at hs
      by_cases hwop : P.writes op = true
      · -- `Unlock`
        rw [if_pos hwop] at hs
        simp only [Option.some.injEq, Prod.mk.injEq] at hs
        obtain ⟨rfl, rfl, rfl⟩ := hs
        have htW : inW P (l t) := by rw [hx]; exact hwop
        have hnoW : ∀ u, ¬ inW P (upd l t (LL.retn r) u) := by
          intro u
          by_cases hu : u = t
          · subst hu; simp [inW]
          · rw [upd_other _ _ _ _ hu]
            intro huW
            exact hu (h.excl u t huW htW)
        refine ⟨?_, ?_, ?_, ?_, ?_⟩
        · intro a b ha _; exact absurd ha (hnoW a)
        · constructor
          · intro hh; cases hh
          · rintro ⟨u, hu⟩; exact absurd hu (hnoW u)
        · intro hh; cases hh
        · obtain ⟨rs, hnd, hlen, hmem⟩ := h.readers
          refine ⟨rs, hnd, hlen, fun u => ?_⟩
          rw [inR_upd (l := l) (t := t) (l' := LL.retn r) (by simp [inR, hx, hwop]) u]
          exact hmem u
        · exact h.wr_frame rfl (by intro _ _ hh; cases hh)
      · -- `RUnlock`
        have hwop' : P.writes op = false := by simpa using hwop
        rw [if_neg hwop] at hs
        simp only [Option.some.injEq, Prod.mk.injEq] at hs
        obtain ⟨rfl, rfl, rfl⟩ := hs
        have htR : inR P (l t) := by rw [hx]; exact hwop'
        have hW : inW P (LL.retn r) ↔ inW P (l t) := by simp [inW, hx, hwop']
        obtain ⟨rs, hnd, hlen, hmem⟩ := h.readers
        refine ⟨?_, ?_, ?_, ?_, ?_⟩
        · intro a b ha hb
          exact h.excl a b ((inW_upd hW a).mp ha) ((inW_upd hW b).mp hb)
        · show g.writer = true ↔ _
          rw [h.writer_iff]
          exact ⟨fun ⟨u, hu⟩ => ⟨u, (inW_upd hW u).mpr hu⟩, fun ⟨u, hu⟩ => ⟨u, (inW_upd hW u).mp hu⟩⟩
        · intro hw1
          show g.readers - 1 = 0
          rw [h.writer_noreaders hw1]
        · have htm : t ∈ rs := (hmem t).mpr htR
          refine ⟨rs.erase t, hnd.erase t, ?_, fun u => ?_⟩
          · show (rs.erase t).length = g.readers - 1
            rw [List.length_erase_of_mem htm, hlen]
          · rw [hnd.mem_erase_iff]
            by_cases hu : u = t
            · subst hu; simp [inR]
            · rw [upd_other _ _ _ _ hu, ← hmem u]; simp [hu]
        · exact h.wr_frame rfl (by intro _ _ hh; cases hh)
  | retn r =>
    cases a with
    | call _ => simp [Locked.step] at hs
    | tau =>
      simp only [Locked.step, Option.some.injEq, Prod.mk.injEq] at hs
      obtain ⟨rfl, rfl, rfl⟩ := hs
      exact h.frame rfl rfl (by simp [inW, hx]) (by simp [inR, hx])
        (h.wr_frame rfl (by intro _ _ hh; cases hh))

end LockInv

/-- the lock invariant of a configuration of the machine `M P` -/
def Inv (P : Prog S Op Ret) (c : Config (M P)) : Prop := LockInv P c.g c.l

/-- **Lock invariant**: every reachable configuration of `M P`, for every program table `P`, satisfies
`LockInv` (mutual exclusion, lock words = ghost counts, and `loc = g.st` for a writer at `wr`). -/
theorem lockInv_reach (P : Prog S Op Ret) : ∀ c, Reach (M P) c → Inv P c := by
  apply inv_of_reach (M P) (Inv P)
  · exact LockInv.init P
  · intro c t a g' l' obs hI hs
    exact LockInv.preserved hI hs

/-- the lock invariant spelled out, for every reachable configuration of `M P` (any `P`) -/
theorem lock_invariant (P : Prog S Op Ret) (c : Config (M P)) (h : Reach (M P) c) :
    let g : LG S := c.g
    let l : Tid → LL S Op Ret := c.l
    (g.writer = true ↔ ∃ t, inW P (l t)) ∧
    (∀ t u, inW P (l t) → inW P (l u) → t = u) ∧
    (∀ t, inW P (l t) → g.readers = 0 ∧ ∀ u, ¬ inR P (l u)) ∧
    (∃ rs : List Tid, rs.Nodup ∧ rs.length = g.readers ∧ ∀ t, t ∈ rs ↔ inR P (l t)) ∧
    (∀ t op loc, l t = .wr op loc → P.writes op = true ∧ loc = g.st) := by
  have hI : LockInv P c.g c.l := lockInv_reach P c h
  exact ⟨hI.writer_iff, hI.excl, fun t ht => ⟨hI.readers_zero ht, hI.no_reader ht⟩, hI.readers, hI.wr_ok⟩

/-! ## The steps of `M P`, as an inductive relation (for case analyses) -/

/-- the nine kinds of steps of the machine -/
inductive StepK (P : Prog S Op Ret) (g : LG S) :
    LL S Op Ret → LAct Op → LG S → LL S Op Ret → List (LObs Ret) → Prop
  | call (op : Op) : StepK P g .idle (.call op) g (.acq op) []
  | lock (op : Op) : P.writes op = true → g.writer = false → g.readers = 0 →
      StepK P g (.acq op) .tau { g with writer := true } (.rd op) [.lock]
  | rlock (op : Op) : P.writes op = false → g.writer = false →
      StepK P g (.acq op) .tau { g with readers := g.readers + 1 } (.rd op) [.rlock]
  | copy (op : Op) : P.writes op = true → StepK P g (.rd op) .tau g (.wr op g.st) []
  | read (op : Op) : P.writes op = false →
      StepK P g (.rd op) .tau g (.rel op (P.apply g.st op).2) [.lp (P.apply g.st op).2]
  | write (op : Op) (loc : S) :
      StepK P g (.wr op loc) .tau { g with st := (P.apply loc op).1 } (.rel op (P.apply loc op).2)
        [.lp (P.apply loc op).2]
  | unlock (op : Op) (r : Ret) : P.writes op = true →
      StepK P g (.rel op r) .tau { g with writer := false } (.retn r) [.unlock]
  | runlock (op : Op) (r : Ret) : P.writes op = false →
      StepK P g (.rel op r) .tau { g with readers := g.readers - 1 } (.retn r) [.runlock]
  | ret (r : Ret) : StepK P g (.retn r) .tau g .idle [.ret r]

theorem stepK_of_step {P : Prog S Op Ret} {t : Tid} {g g' : LG S} {x l' : LL S Op Ret} {a : LAct Op}
    {obs : List (LObs Ret)} (hs : Locked.step P t g x a = some (g', l', obs)) :
    StepK P g x a g' l' obs := by
  cases x <;> cases a <;> simp only [Locked.step] at hs <;> try (cases hs; done)
  · cases hs; exact .call _
  · rename_i op
    by_cases hwop : P.writes op = true
    · rw [if_pos hwop] at hs
      split at hs
      · cases hs
      · rename_i hfree
        cases hs
        have : g.writer = false ∧ g.readers = 0 := by cases hgw : g.writer <;> simp_all
        exact .lock op hwop this.1 this.2
    · rw [if_neg hwop] at hs
      split at hs
      · cases hs
      · rename_i hfree
        cases hs
        exact .rlock op (by simpa using hwop) (by simpa using hfree)
  · rename_i op
    by_cases hwop : P.writes op = true
    · rw [if_pos hwop] at hs; cases hs; exact .copy op hwop
    · rw [if_neg hwop] at hs; cases hs; exact .read op (by simpa using hwop)
  · cases hs; exact .write _ _
  · rename_i op r
    by_cases hwop : P.writes op = true
    · rw [if_pos hwop] at hs; cases hs; exact .unlock op r hwop
    · rw [if_neg hwop] at hs; cases hs; exact .runlock op r (by simpa using hwop)
  · cases hs; exact .ret _

/-! ## Well-formed tables -/

/-- read-locked methods do not change the guarded state -/
def Prog.ReadsPure (P : Prog S Op Ret) : Prop := ∀ s op, P.writes op = false → (P.apply s op).1 = s

theorem queueProg_readsPure : queueProg.ReadsPure := by
  intro s op h
  cases op <;> cases s <;> simp_all [queueProg]

theorem adderProg_readsPure : adderProg.ReadsPure := by
  intro s op h
  cases op <;> simp_all [adderProg]

end Garr.Locked
