import Garr.Breaker.FineSolo
/-!
# Full-stack window counter: a lower bound for every roll

Every roll counts at least the adds that had taken effect, when its traversal started (`iterStart`), on the buckets it
counts — and it counts every bucket archived before the traversal started that has not expired (`RollOK.compl`).
Together with the upper bound: a roll whose traversal is not overlapped by adds on archived buckets is exact on them.
-/
namespace Garr.Breaker.Fine
open Garr Garr.Conc

/-- the partial sums are at least the adds logged before this traversal's `iterStart` on the buckets `kS` / `kF` -/
def Lower (tid : Tid) (g : G) (r : Tr) (kS kF : List Nat) : Prop :=
  ∃ pre mid, g.w.log = pre ++ (tid, Ev.iterStart r.t r.n0) :: mid ∧
    sumAdds true kS pre ≤ r.s ∧ sumAdds false kF pre ≤ r.f

def LowOK (tid : Tid) (g : G) (l : L) : Prop :=
  match l.w with
  | .head r => Lower tid g r r.kl r.kl
  | .next r => Lower tid g r r.kl r.kl
  | .remove r _ => Lower tid g r r.kl r.kl
  | .rdS r b => ∃ kl', r.kl = b :: kl' ∧ Lower tid g r kl' kl'
  | .rdF r b => ∃ kl', r.kl = b :: kl' ∧ Lower tid g r r.kl kl'
  | _ => True

theorem Lower.step {tid : Tid} {g g' : G} {r r' : Tr} {kS kF : List Nat} (h : Lower tid g r kS kF)
    (hlog : ∃ es, g'.w.log = g.w.log ++ es) (h1 : r'.t = r.t) (h2 : r'.n0 = r.n0) (h3 : r.s ≤ r'.s) (h4 : r.f ≤ r'.f) :
    Lower tid g' r' kS kF := by
  obtain ⟨pre, mid, a, b, c⟩ := h
  obtain ⟨es, e⟩ := hlog
  exact ⟨pre, mid ++ es, by rw [e, a, h1, h2]; simp, by omega, by omega⟩

theorem lowOK_stable {tid : Tid} {g g' : G} {l : L} (hlog : ∃ es, g'.w.log = g.w.log ++ es) (h : LowOK tid g l) :
    LowOK tid g' l := by
  cases hw : l.w <;> simp only [LowOK, hw] at h ⊢
  case head r => exact h.step hlog rfl rfl (Nat.le_refl _) (Nat.le_refl _)
  case next r => exact h.step hlog rfl rfl (Nat.le_refl _) (Nat.le_refl _)
  case remove r b => exact h.step hlog rfl rfl (Nat.le_refl _) (Nat.le_refl _)
  case rdS r b =>
    obtain ⟨kl', e, h⟩ := h
    exact ⟨kl', e, h.step hlog rfl rfl (Nat.le_refl _) (Nat.le_refl _)⟩
  case rdF r b =>
    obtain ⟨kl', e, h⟩ := h
    exact ⟨kl', e, h.step hlog rfl rfl (Nat.le_refl _) (Nat.le_refl _)⟩

@[simp] theorem sumAdds_nil (k : Bool) (lg : List (Tid × Ev)) : sumAdds k [] lg = 0 := rfl
@[simp] theorem sumAdds_cons (k : Bool) (b : Nat) (kl : List Nat) (lg : List (Tid × Ev)) :
    sumAdds k (b :: kl) lg = cntAddsTo k b lg + sumAdds k kl lg := by simp [sumAdds]

theorem cntAddsTo_prefix (k : Bool) (b : Nat) (pre rest : List (Tid × Ev)) :
    cntAddsTo k b pre ≤ cntAddsTo k b (pre ++ rest) := by
  rw [cntAddsTo_append]; omega

theorem lowOK_eff {cfg : Cfg} {tid : Tid} {g g' : G} {ls : Tid → L} {l' : L} (hb : Base g ls) (hf : Full cfg g ls)
    (h : LowOK tid g (ls tid)) (he : Eff cfg tid g (ls tid) g' l') : LowOK tid g' l' := by
  have htr := hf.trav tid
  have hlog := (eff_guar hb hf.own hf.cnt he).log
  generalize hl : ls tid = l at he h htr
  cases he
  case call succ hw => simp [LowOK]
  case tick succ t hw => simp [LowOK]
  case ldBs succ t hw _ => simp [LowOK]
  case ldSame succ t hw _ _ => simp [LowOK]
  case ldRoll succ t hw _ _ => simp [LowOK]
  case bsAdd succ t b hw hq => simp [LowOK]
  case addSame succ t b hw => simp [LowOK]
  case rollAdd succ t old nw hw => simp [LowOK]
  case casWin t old nw hw hq hc => simp [LowOK]
  case casLose t old nw hw hq hc => simp [LowOK]
  case store e hw => simp [LowOK]
  case headExit r it hw hq hp => simp [LowOK]
  case offerRet b gq1 o hw hs => simp [LowOK]
  case offerCont b gq1 ql1 o hw hs hne => rcases hw with hw | hw | ⟨t, hw⟩ <;> simp [LowOK, hw]
  case winRet t b gq1 o hw hs => simp [LowOK]
  case mkIterCont t n0 gq1 ql1 o hw hs hni => simp [LowOK, hw]
  case mkIterRet t n0 gq1 it o hw hs =>
    simp only [TravOK, hw] at htr
    obtain ⟨pre, mid, e⟩ := List.append_of_mem htr.2.2
    simp only [LowOK]
    exact ⟨pre, mid, e, by simp, by simp⟩
  case headNext r it p hw hq hp =>
    simp only [LowOK, hw] at h ⊢; exact h
  case nextCont r gq1 ql1 o hw hs hni =>
    simp only [LowOK, hw] at h ⊢; exact h.step hlog rfl rfl (Nat.le_refl _) (Nat.le_refl _)
  case nextRemove r gq1 it pos b hw hs hlt hlr =>
    simp only [LowOK, hw] at h ⊢; exact h.step hlog rfl rfl (Nat.le_refl _) (Nat.le_refl _)
  case nextKeep r gq1 it pos b hw hs hlt hlr =>
    simp only [LowOK, hw] at h ⊢
    exact ⟨r.kl, rfl, h.step hlog rfl rfl (Nat.le_refl _) (Nat.le_refl _)⟩
  case removeRet r b gq1 it o hw hs =>
    simp only [LowOK, hw] at h ⊢; exact h.step hlog rfl rfl (Nat.le_refl _) (Nat.le_refl _)
  case rdS r b hw =>
    simp only [LowOK, hw] at h ⊢
    obtain ⟨kl', e, pre, mid, a, b1, b2⟩ := h
    refine ⟨kl', e, pre, mid ++ [(tid, Ev.cntS b (g.w.sc b))], by simp [a], ?_, b2⟩
    show sumAdds true r.kl pre ≤ r.s + g.w.sc b
    rw [e, sumAdds_cons]
    have h1 : g.w.sc b = cntAddsTo true b g.w.log := hf.cnt.per true b
    have h2 := cntAddsTo_prefix true b pre ((tid, Ev.iterStart r.t r.n0) :: mid)
    rw [← a] at h2
    omega
  case rdF r b hw =>
    simp only [LowOK, hw] at h ⊢
    obtain ⟨kl', e, pre, mid, a, b1, b2⟩ := h
    refine ⟨pre, mid ++ [(tid, Ev.cntF b (g.w.fc b))], by simp [a], b1, ?_⟩
    show sumAdds false r.kl pre ≤ r.f + g.w.fc b
    rw [e, sumAdds_cons]
    have h1 : g.w.fc b = cntAddsTo false b g.w.log := hf.cnt.per false b
    have h2 := cntAddsTo_prefix false b pre ((tid, Ev.iterStart r.t r.n0) :: mid)
    rw [← a] at h2
    omega

/-- what holds of a `rolled` entry: the lower bound -/
def LowEntry (pre : List (Tid × Ev)) (e : Tid × Ev) : Prop :=
  match e.2 with
  | .rolled t s f n0 kl => ∃ p1 p2, pre = p1 ++ (e.1, Ev.iterStart t n0) :: p2 ∧ sumAdds true kl p1 ≤ s ∧ sumAdds false kl p1 ≤ f
  | _ => True

/-- the new entries of a micro-step: no `rolled`, or exactly the one of the loop exit -/
theorem leff_new {cfg : Cfg} {tid : Tid} {g g' : G} {l l' : L} (he : LEff cfg tid g l g' l') :
    (∃ es, g'.w.log = g.w.log ++ tagE tid es ∧ ∀ e ∈ es, e.isRolled = false) ∨
    (∃ r, l.w = .head r ∧ g'.w.log = g.w.log ++ [(tid, Ev.rolled r.t r.s r.f r.n0 r.kl)]) := by
  cases he with
  | quiet es a b c =>
    exact Or.inl ⟨es, a, fun e he => by have := b e he; cases e <;> simp [Ev.inert] at this <;> rfl⟩
  | swap t old nw hw hcur a b c => exact Or.inl ⟨[_], a, by simp [Ev.isRolled]⟩
  | link b es' hh a hes hn hvn hv hln hlv =>
    refine Or.inl ⟨_, a, ?_⟩
    rcases hes with rfl | ⟨t, rfl, _⟩ <;> simp [Ev.isRolled]
  | start t a b c => exact Or.inl ⟨[_], a, by simp [Ev.isRolled]⟩
  | cntS r b hw a c => exact Or.inl ⟨[_], a, by simp [Ev.isRolled]⟩
  | cntF r b hw a c => exact Or.inl ⟨[_], a, by simp [Ev.isRolled]⟩
  | kill r b it k hw hq a c =>
    cases hl : g.q.live k
    · exact Or.inl ⟨[], by rw [c, hl]; simp, by simp⟩
    · exact Or.inl ⟨[_], by rw [c, hl]; rfl, by simp [Ev.isRolled]⟩
  | roll r it hw hq hnn a c => exact Or.inr ⟨r, hw, a⟩

structure LowInv (g : G) (ls : Tid → L) : Prop where
  pcs : ∀ t, LowOK t g (ls t)
  entries : SplitInv LowEntry g.w.log

theorem low_eff {cfg : Cfg} {tid : Tid} {g g' : G} {ls : Tid → L} {l' : L} (hb : Base g ls) (hf : Full cfg g ls)
    (h : LowInv g ls) (he : Eff cfg tid g (ls tid) g' l') : LowInv g' (upd ls tid l') := by
  have hlog := (eff_guar hb hf.own hf.cnt he).log
  refine ⟨fun u => ?_, ?_⟩
  · by_cases hu : u = tid
    · subst hu; simpa using lowOK_eff hb hf (h.pcs u) he
    · simpa [upd, hu] using lowOK_stable hlog (h.pcs u)
  · rcases leff_new (eff_leff hb he) with ⟨es, e1, e2⟩ | ⟨r, hw, e1⟩
    · rw [e1]
      apply h.entries.append_all
      intro pre e hm
      simp only [tagE, List.mem_map] at hm
      obtain ⟨ev, hev, rfl⟩ := hm
      have := e2 ev hev
      cases ev <;> simp [Ev.isRolled] at this <;> trivial
    · rw [e1]
      apply h.entries.append_one
      have := h.pcs tid
      simp only [LowOK, hw] at this
      exact this

/-- every invariant, in every reachable configuration -/
theorem reach_low {cfg : Cfg} {t0 : Int} (c : Config (M cfg t0)) (h : Reach (M cfg t0) c) :
    Base c.g c.l ∧ Full cfg c.g c.l ∧ LowInv c.g c.l :=
  reach_ind (cfg := cfg) (t0 := t0) (fun g ls => Full cfg g ls ∧ LowInv g ls)
    ⟨full_init cfg t0, fun _ => trivial, SplitInv.nil _⟩
    (fun _ _ _ _ _ hb _ ⟨hf, hl⟩ he => ⟨full_eff hb hf he, low_eff hb hf hl he⟩) c h


/-! ## The snapshot (what `Count()` loads) is the count of some roll -/

def storeOK (tid : Tid) (g : G) (l : L) : Prop :=
  match l.w with
  | .store e => ∃ t n0 kl, (tid, Ev.rolled t e.1 e.2 n0 kl) ∈ g.w.log
  | _ => True

structure SnapInv (g : G) (ls : Tid → L) : Prop where
  snap : g.w.snap = (0, 0) ∨ ∃ u t n0 kl, (u, Ev.rolled t g.w.snap.1 g.w.snap.2 n0 kl) ∈ g.w.log
  pcs : ∀ t, storeOK t g (ls t)

theorem snap_eff {cfg : Cfg} {tid : Tid} {g g' : G} {ls : Tid → L} {l' : L} (hb : Base g ls) (hf : Full cfg g ls)
    (h : SnapInv g ls) (he : Eff cfg tid g (ls tid) g' l') : SnapInv g' (upd ls tid l') := by
  obtain ⟨es, hlog⟩ := (eff_guar hb hf.own hf.cnt he).log
  have hmem : ∀ e ∈ g.w.log, e ∈ g'.w.log := fun e he => by rw [hlog]; exact List.mem_append_left _ he
  have hpc := h.pcs tid
  have key : storeOK tid g' l' ∧
      (g'.w.snap = g.w.snap ∨ ∃ e, (ls tid).w = .store e ∧ g'.w.snap = e ∧ g'.w.log = g.w.log) := by
    generalize hl : ls tid = l at he hpc
    cases he
    case headExit r it hw hq hp =>
      exact ⟨⟨r.t, r.n0, r.kl, by simp⟩, Or.inl rfl⟩
    case store e hw => exact ⟨by simp [storeOK], Or.inr ⟨e, hw, rfl, rfl⟩⟩
    case offerCont b gq1 ql1 o hw hs hne =>
      exact ⟨by rcases hw with hw | hw | ⟨t, hw⟩ <;> simp [storeOK, hw], Or.inl rfl⟩
    case mkIterCont t n0 gq1 ql1 o hw hs hni => exact ⟨by simp [storeOK, hw], Or.inl rfl⟩
    case nextCont r gq1 ql1 o hw hs hni => exact ⟨by simp [storeOK, hw], Or.inl rfl⟩
    case bsAdd => exact ⟨by simp [storeOK], Or.inl (by simp [addTo_snap])⟩
    case addSame => exact ⟨by simp [storeOK], Or.inl (by simp [addTo_snap])⟩
    case rollAdd => exact ⟨by simp [storeOK], Or.inl (by simp [addTo_snap])⟩
    all_goals exact ⟨by simp [storeOK], Or.inl rfl⟩
  refine ⟨?_, fun u => ?_⟩
  · rcases key.2 with e | ⟨e, hw, e1, e2⟩
    · rw [e]
      rcases h.snap with h' | ⟨u, t, n0, kl, h'⟩
      · exact Or.inl h'
      · exact Or.inr ⟨u, t, n0, kl, hmem _ h'⟩
    · have := h.pcs tid
      simp only [storeOK, hw] at this
      obtain ⟨t, n0, kl, hm⟩ := this
      exact Or.inr ⟨tid, t, n0, kl, by rw [e1]; exact hmem _ hm⟩
  · by_cases hu : u = tid
    · subst hu; simpa using key.1
    · have := h.pcs u
      simp only [upd, hu, if_false]
      unfold storeOK at this ⊢
      split
      · rename_i e hw
        simp only [hw] at this
        obtain ⟨t, n0, kl, hm⟩ := this
        exact ⟨t, n0, kl, hmem _ hm⟩
      · trivial

theorem reach_snap {cfg : Cfg} {t0 : Int} (c : Config (M cfg t0)) (h : Reach (M cfg t0) c) :
    Base c.g c.l ∧ Full cfg c.g c.l ∧ SnapInv c.g c.l :=
  reach_ind (cfg := cfg) (t0 := t0) (fun g ls => Full cfg g ls ∧ SnapInv g ls)
    ⟨full_init cfg t0, Or.inl rfl, fun _ => trivial⟩
    (fun _ _ _ _ _ hb _ ⟨hf, hl⟩ he => ⟨full_eff hb hf he, snap_eff hb hf hl he⟩) c h

/-! ## Auxiliary list lemmas used by the property file -/

def isLinkOf (b : Nat) (e : Tid × Ev) : Bool :=
  match e.2 with
  | .linked b' _ => b' == b
  | _ => false

theorem countP_le_one_of_nodup {α β : Type} (f : α → Option β) (x : β) (p : α → Bool) :
    ∀ l : List α, (∀ a ∈ l, p a = true → f a = some x) → (l.filterMap f).Nodup → l.countP p ≤ 1 := by
  intro l
  induction l with
  | nil => intro _ _; simp
  | cons a l ih =>
    intro hp hnd
    have hp' : ∀ a' ∈ l, p a' = true → f a' = some x := fun a' ha' => hp a' (List.mem_cons_of_mem _ ha')
    rw [List.filterMap_cons] at hnd
    rw [List.countP_cons]
    cases hpa : p a with
    | false =>
      simp
      split at hnd
      · exact ih hp' hnd
      · exact ih hp' (List.nodup_cons.1 hnd).2
    | true =>
      have hfa := hp a (List.mem_cons_self ..) hpa
      rw [hfa] at hnd
      simp only at hnd
      obtain ⟨hx, hnd'⟩ := List.nodup_cons.1 hnd
      have : l.countP p = 0 := by
        rw [List.countP_eq_zero]
        intro a' ha' hpa'
        exact hx (List.mem_filterMap.2 ⟨a', ha', hp' a' ha' (by simpa using hpa')⟩)
      simp [this]

theorem nodup_filterMap_inj {α β : Type} (f : α → Option β) (x : β) : ∀ (l : List α), (l.filterMap f).Nodup →
    ∀ a a', a ∈ l → a' ∈ l → f a = some x → f a' = some x → a = a' := by
  intro l
  induction l with
  | nil => intro _ a a' h; cases h
  | cons c l ih =>
    intro hnd a a' ha ha' hfa hfa'
    rw [List.filterMap_cons] at hnd
    have hnd' : (l.filterMap f).Nodup := by
      split at hnd
      · exact hnd
      · exact (List.nodup_cons.1 hnd).2
    rcases List.mem_cons.1 ha with h1 | h1
    · rcases List.mem_cons.1 ha' with h2 | h2
      · rw [h1, h2]
      · subst h1
        rw [hfa] at hnd; simp only at hnd
        exact absurd (List.mem_filterMap.2 ⟨a', h2, hfa'⟩) (List.nodup_cons.1 hnd).1
    · rcases List.mem_cons.1 ha' with h2 | h2
      · subst h2
        rw [hfa'] at hnd; simp only at hnd
        exact absurd (List.mem_filterMap.2 ⟨a, h1, hfa⟩) (List.nodup_cons.1 hnd).1
      · exact ih hnd' a a' h1 h2 hfa hfa'

set_option backward.isDefEq.respectTransparency false in
/-- threads that are not scheduled do not move -/
theorem run_other {cfg : Cfg} {t0 : Int} (u : Tid) (s : List (Tid × (M cfg t0).Act)) : ∀ (c : Config (M cfg t0)),
    (∀ e ∈ s, e.1 ≠ u) → (run (M cfg t0) c s).1.l u = c.l u := by
  induction s with
  | nil => intro c _; rfl
  | cons ta rest ih =>
    intro c hs
    obtain ⟨t, a⟩ := ta
    have ht : t ≠ u := hs (t, a) (List.mem_cons_self ..)
    have hrest : ∀ e ∈ rest, e.1 ≠ u := fun e he => hs e (List.mem_cons_of_mem _ he)
    cases he : (M cfg t0).step t c.g (c.l t) a with
    | none => rw [Queue.run_cons_none he]; exact ih c hrest
    | some r =>
      obtain ⟨g', l', obs⟩ := r
      rw [Queue.run_cons_some he]
      simp only
      rw [ih _ hrest]
      simp [upd, Ne.symm ht]

end Garr.Breaker.Fine
