import Garr.Breaker.FineSwap
import Garr.Breaker.FineRun
/-!
# Full-stack window counter: exactness of a roll that runs alone from a quiescent configuration
-/
namespace Garr.Breaker.Fine
open Garr Garr.Conc

/-! ## A list of distinct buckets that is exactly the set summed by `bsum` -/

theorem sumK_eq_bsum (w : W) (k : Bool) (lim : Int) : ∀ (n : Nat) (kl : List Nat), kl.Nodup →
    (∀ b, b ∈ kl ↔ b < n ∧ lim ≤ w.ts b) → sumK w k kl = bsum w k lim n := by
  intro n
  induction n with
  | zero =>
    intro kl _ h
    cases kl with
    | nil => simp [bsum]
    | cons b kl => have := ((h b).1 (List.mem_cons_self ..)).1; omega
  | succ n ih =>
    intro kl hnd h
    rw [sumK_filter_ne w k n kl hnd, bsum]
    have h1 := ih (kl.filter (· != n)) (hnd.filter _) (by
      intro b
      rw [List.mem_filter, h b]
      simp
      constructor
      · rintro ⟨⟨a, b'⟩, c⟩; exact ⟨by omega, b'⟩
      · rintro ⟨a, b'⟩; exact ⟨⟨by omega, b'⟩, by omega⟩)
    rw [h1]
    by_cases hn : lim ≤ w.ts n
    · have : n ∈ kl := (h n).2 ⟨by omega, hn⟩
      simp [hn, this]
    · have : n ∉ kl := fun hm => hn ((h n).1 hm).2
      simp [hn, this]

theorem sumK_congr {w w' : W} {k : Bool} {kl : List Nat} (h : ∀ b ∈ kl, w'.sel k b = w.sel k b) :
    sumK w' k kl = sumK w k kl := by
  unfold sumK; congr 1; exact List.map_congr_left h

/-! ## The assertions of the solo run -/

def Ev.isRolled : Ev → Bool | .rolled .. => true | _ => false

/-- the state after the roll branch allocated bucket `g0.w.nb` with timestamp `t`: the older buckets are untouched -/
structure Frame (g0 g : G) (t : Int) : Prop where
  nb : g.w.nb = g0.w.nb + 1
  ts : ∀ b, b < g0.w.nb → g.w.ts b = g0.w.ts b
  sel : ∀ k b, b < g0.w.nb → g.w.sel k b = g0.w.sel k b
  tsn : g.w.ts g0.w.nb = t

/-- nothing was rolled since `g0`; all new events are `tid`'s -/
def NoRoll (g0 g : G) (tid : Tid) : Prop :=
  ∃ ext, g.w.log = g0.w.log ++ tagE tid ext ∧ ∀ e ∈ ext, e.isRolled = false

/-- every roll since `g0` is by `tid`, at tick `t`, and reports exactly the adds logged at `g0` with stamp `≥ t - window` -/
def Exact (cfg : Cfg) (g0 g : G) (tid : Tid) (t : Int) : Prop :=
  ∃ ext, g.w.log = g0.w.log ++ tagE tid ext ∧ ∀ t' s f n0 kl, Ev.rolled t' s f n0 kl ∈ ext →
    t' = t ∧ s = cntAdds true (t - cfg.window) g0.w.log ∧ f = cntAdds false (t - cfg.window) g0.w.log

theorem NoRoll.exact {cfg : Cfg} {g0 g : G} {tid : Tid} {t : Int} (h : NoRoll g0 g tid) : Exact cfg g0 g tid t := by
  obtain ⟨ext, h1, h2⟩ := h
  exact ⟨ext, h1, fun t' s f n0 kl hm => by have := h2 _ hm; simp [Ev.isRolled] at this⟩

/-- every live node of the reservoir is inside the window of tick `t` -/
def Trimmed (cfg : Cfg) (g : G) (t : Int) : Prop :=
  ∀ p, 1 ≤ p → p < g.q.n → g.q.live p = true → t - cfg.window ≤ g.w.ts (g.q.val p)

/-- common part of the assertions at the pcs of `trimAndSum` -/
structure SoloTr (g0 g : G) (tid : Tid) (t : Int) (r : Tr) : Prop where
  tick : r.t = t
  cur : g.w.cur = g0.w.nb
  frame : Frame g0 g t
  noroll : NoRoll g0 g tid
  n0 : r.n0 = g.q.n

def SoloPc (cfg : Cfg) (g0 : G) (tid : Tid) (t : Int) (g : G) (l : L) : Prop :=
  match l.w with
  | .tick _ => False
  | .ldCur _ t' => t' = t ∧ g = g0
  | .rollAdd _ t' old nw => t' = t ∧ old = g0.w.cur ∧ nw = g0.w.nb ∧ g.w.cur = g0.w.cur ∧ Frame g0 g t ∧ NoRoll g0 g tid
  | .cas t' old nw => t' = t ∧ old = g0.w.cur ∧ nw = g0.w.nb ∧ g.w.cur = g0.w.cur ∧ Frame g0 g t ∧ NoRoll g0 g tid
  | .winOffer t' _ => t' = t ∧ g.w.cur = g0.w.nb ∧ Frame g0 g t ∧ NoRoll g0 g tid
  | .mkIter t' n0 => t' = t ∧ g.w.cur = g0.w.nb ∧ Frame g0 g t ∧ NoRoll g0 g tid ∧ n0 = g.q.n
  | .head r => SoloTr g0 g tid t r ∧ r.s = sumK g.w true r.kl ∧ r.f = sumK g.w false r.kl
  | .next r => SoloTr g0 g tid t r ∧ r.s = sumK g.w true r.kl ∧ r.f = sumK g.w false r.kl
  | .remove r _ => SoloTr g0 g tid t r ∧ r.s = sumK g.w true r.kl ∧ r.f = sumK g.w false r.kl
  | .rdS r b => SoloTr g0 g tid t r ∧ ∃ kl', r.kl = b :: kl' ∧ r.s = sumK g.w true kl' ∧ r.f = sumK g.w false kl'
  | .rdF r b => SoloTr g0 g tid t r ∧ ∃ kl', r.kl = b :: kl' ∧ r.s = sumK g.w true r.kl ∧ r.f = sumK g.w false kl'
  | .store e => Exact cfg g0 g tid t ∧ Trimmed cfg g t ∧
      e = (cntAdds true (t - cfg.window) g0.w.log, cntAdds false (t - cfg.window) g0.w.log)
  | .idle => NoRoll g0 g tid ∨ (Exact cfg g0 g tid t ∧ Trimmed cfg g t ∧
      g.w.snap = (cntAdds true (t - cfg.window) g0.w.log, cntAdds false (t - cfg.window) g0.w.log))
  | _ => NoRoll g0 g tid


/-! ## The end of the traversal -/

theorem held_of_idle {l : L} (h : l.w = .idle) : held l = none := by simp [held, h]

/-- at the end of a traversal that ran alone from a quiescent state: the kept buckets are exactly the buckets that
existed at the quiescent state and lie inside the window, and the reservoir is trimmed -/
theorem exit_exact {cfg : Cfg} {g0 g : G} {ls : Tid → L} {tid : Tid} {t : Int} {r : Tr} {it : Queue.Iter}
    (hf : Full cfg g ls) (hm : Mono cfg g ls) (hoth : ∀ u, u ≠ tid → (ls u).w = .idle)
    (hw : (ls tid).w = .head r) (hq : (ls tid).q = .idleIt it) (hnn : it.nextNode = none)
    (hs : SoloTr g0 g tid t r) :
    (∀ b, b ∈ r.kl ↔ b < g0.w.nb ∧ t - cfg.window ≤ g0.w.ts b) ∧ Trimmed cfg g t := by
  obtain ⟨ho, hc, ht, hi⟩ := hf
  obtain ⟨h1, h2, hfr, _, h5⟩ := hs
  have htr := ht tid
  simp only [TravOK, hw] at htr
  obtain ⟨hk, _⟩ := htr
  have hcompl : ∀ p, 1 ≤ p → p < g.q.n → g.q.live p = true → g.q.val p ∈ r.kl := by
    intro p p1 p2 p3
    rcases hk.compl p p1 (by omega) p3 with h | h | ⟨it', h⟩
    · exact h
    · rw [hq] at h; obtain ⟨q, hq', _⟩ := h; rw [hnn] at hq'; cases hq'
    · rw [hq] at h; cases h
  refine ⟨fun b => ⟨fun hb => ?_, fun ⟨hb1, hb2⟩ => ?_⟩, fun p p1 p2 p3 => ?_⟩
  · obtain ⟨a, p, p1, p2, p3, _⟩ := hk.kept b hb
    obtain ⟨x, y, _⟩ := ho.res_lt p p1 p2
    rw [p3] at x y
    have hb' : b < g0.w.nb := by rw [hfr.nb] at x; rw [h2] at y; omega
    exact ⟨hb', by rw [← hfr.ts b hb', ← h1]; exact a⟩
  · have hbg : b < g.w.nb := by rw [hfr.nb]; omega
    rcases ho.cover b hbg with h | ⟨u, h⟩ | ⟨p, p1, p2, p3⟩
    · rw [h2] at h; omega
    · by_cases hu : u = tid
      · subst hu; simp [held, hw] at h
      · rw [held_of_idle (hoth u hu)] at h; cases h
    · have hlive : g.q.live p = true := by
        cases e : g.q.live p with
        | true => rfl
        | false =>
          obtain ⟨u, lim, hrm⟩ := hi.dead.dead p p1 p2 e
          rw [p3] at hrm
          have a1 := (hi.dead.removed u b lim hrm).1
          have a2 := hm.removed u b lim hrm
          rw [h2, hfr.tsn] at a2
          rw [hfr.ts b hb1] at a1
          omega
      have := hcompl p p1 p2 hlive
      rw [p3] at this; exact this
  · have := (hk.kept _ (hcompl p p1 p2 p3)).1
    rw [h1] at this; exact this

/-! ## The new events of a micro-step -/

theorem eff_new_noroll {cfg : Cfg} {tid : Tid} {g g' : G} {ls : Tid → L} {l' : L} (hb : Base g ls)
    (he : Eff cfg tid g (ls tid) g' l') (hnh : ∀ r, (ls tid).w ≠ .head r) :
    ∃ es, g'.w.log = g.w.log ++ tagE tid es ∧ ∀ e ∈ es, e.isRolled = false := by
  cases eff_leff hb he with
  | quiet es a b c =>
    exact ⟨es, a, fun e he => by have := b e he; cases e <;> simp [Ev.inert] at this <;> rfl⟩
  | swap t old nw hw hcur a b c => exact ⟨[_], a, by simp [Ev.isRolled]⟩
  | link b es' hh a hes hn hvn hv hln hlv =>
    refine ⟨_, a, ?_⟩
    rcases hes with rfl | ⟨t, rfl, _⟩ <;> simp [Ev.isRolled]
  | start t a b c => exact ⟨[_], a, by simp [Ev.isRolled]⟩
  | cntS r b hw a c => exact ⟨[_], a, by simp [Ev.isRolled]⟩
  | cntF r b hw a c => exact ⟨[_], a, by simp [Ev.isRolled]⟩
  | kill r b it k hw hq a c =>
    cases hl : g.q.live k
    · exact ⟨[], by rw [c, hl]; simp, by simp⟩
    · exact ⟨[_], by rw [c, hl]; rfl, by simp [Ev.isRolled]⟩
  | roll r it hw hq hnn a c => exact absurd hw (hnh r)

theorem NoRoll.step {g0 g g' : G} {tid : Tid} (h : NoRoll g0 g tid)
    (hn : ∃ es, g'.w.log = g.w.log ++ tagE tid es ∧ ∀ e ∈ es, e.isRolled = false) : NoRoll g0 g' tid := by
  obtain ⟨ext, h1, h2⟩ := h
  obtain ⟨es, h3, h4⟩ := hn
  refine ⟨ext ++ es, by rw [h3, h1]; simp [tagE], fun e he => ?_⟩
  rcases List.mem_append.1 he with he | he
  · exact h2 e he
  · exact h4 e he


theorem Frame.emit {g0 g : G} {t : Int} (h : Frame g0 g t) (tid : Tid) (es : List Ev) (gq : Queue.G) :
    Frame g0 ⟨g.w.emit tid es, gq⟩ t := ⟨h.1, h.2, h.3, h.4⟩

theorem Frame.q {g0 g : G} {t : Int} (h : Frame g0 g t) (gq : Queue.G) : Frame g0 ⟨g.w, gq⟩ t := ⟨h.1, h.2, h.3, h.4⟩

theorem SoloTr.step {g0 g g' : G} {tid : Tid} {t : Int} {r r' : Tr} (h : SoloTr g0 g tid t r)
    (h1 : r'.t = r.t) (h2 : r'.n0 = r.n0) (hcur : g'.w.cur = g.w.cur) (hfr : Frame g0 g t → Frame g0 g' t)
    (hn : g'.q.n = g.q.n) (hlog : ∃ es, g'.w.log = g.w.log ++ tagE tid es ∧ ∀ e ∈ es, e.isRolled = false) :
    SoloTr g0 g' tid t r' :=
  ⟨by rw [h1]; exact h.tick, by rw [hcur]; exact h.cur, hfr h.frame, h.noroll.step hlog, by rw [h2, hn]; exact h.n0⟩

/-- **The solo step.**  Thread `tid` runs alone (all others idle) one operation `onEvent` with ticker reading `t` from the
quiescent state `g0`: every micro-step preserves the assertion `SoloPc`. -/
theorem solo_eff {cfg : Cfg} {g0 g g' : G} {ls : Tid → L} {tid : Tid} {t : Int} {l' : L}
    (hA : ∀ k, cntAdds k (t - cfg.window) g0.w.log = bsum g0.w k (t - cfg.window) g0.w.nb) (hcur0 : g0.w.cur < g0.w.nb)
    (hb : Base g ls) (hf : Full cfg g ls) (hm : Mono cfg g ls) (hoth : ∀ u, u ≠ tid → (ls u).w = .idle)
    (hP : SoloPc cfg g0 tid t g (ls tid)) (hne : (ls tid).w ≠ .idle) (hnt : ∀ s, (ls tid).w ≠ .tick s)
    (he : Eff cfg tid g (ls tid) g' l') : SoloPc cfg g0 tid t g' l' := by
  have hwf := hb.wf tid
  have hL := hb.linv tid
  have hnew := eff_new_noroll hb he
  generalize hl : ls tid = l at he hwf hL hP hne hnt hnew
  cases he
  case call succ hw => exact absurd hw hne
  case tick succ t' hw => exact absurd hw (hnt succ)
  case ldBs succ t' hw _ =>
    simp only [SoloPc, hw] at hP ⊢
    obtain ⟨rfl, rfl⟩ := hP
    exact ⟨[], by simp [W.alloc], by simp⟩
  case ldSame succ t' hw _ _ =>
    simp only [SoloPc, hw] at hP ⊢
    obtain ⟨rfl, rfl⟩ := hP
    exact ⟨[], by simp, by simp⟩
  case ldRoll succ t' hw _ _ =>
    simp only [SoloPc, hw] at hP ⊢
    obtain ⟨rfl, rfl⟩ := hP
    refine ⟨rfl, rfl, rfl, rfl, ⟨rfl, fun b hb' => ?_, fun k b hb' => ?_, by simp [W.alloc]⟩, [], by simp [W.alloc], by simp⟩
    · have : b ≠ g.w.nb := by omega
      simp [W.alloc, this]
    · have : b ≠ g.w.nb := by omega
      cases k <;> simp [W.alloc, W.sel, this]
  case bsAdd succ t' b hw hq =>
    simp only [SoloPc, hw] at hP ⊢
    exact hP.step (hnew (by simp [hw]))
  case addSame succ t' b hw =>
    simp only [SoloPc, hw] at hP ⊢
    exact Or.inl (hP.step (hnew (by simp [hw])))
  case rollAdd succ t' old nw hw =>
    simp only [SoloPc, hw] at hP ⊢
    obtain ⟨h1, h2, h3, h4, h5, h6⟩ := hP
    refine ⟨h1, h2, h3, by simpa [addTo_cur] using h4, ⟨by simpa [addTo_nb] using h5.nb, fun b hb' => ?_, fun k b hb' => ?_, ?_⟩,
      h6.step (hnew (by simp [hw]))⟩
    · simpa [addTo_ts] using h5.ts b hb'
    · have : b ≠ nw := by omega
      have e : ((g.w.addTo nw succ).emit tid [Ev.added t' succ nw (g.w.ts nw)]).sel k b = (g.w.addTo nw succ).sel k b := rfl
      rw [e, sel_addTo]; simp [this]; exact h5.sel k b hb'
    · simpa [addTo_ts] using h5.tsn
  case casWin t' old nw hw hq hc =>
    simp only [SoloPc, hw] at hP ⊢
    obtain ⟨h1, h2, h3, h4, h5, h6⟩ := hP
    exact ⟨h1, h3, ⟨h5.1, h5.2, h5.3, h5.4⟩, h6.step (hnew (by simp [hw]))⟩
  case casLose t' old nw hw hq hc =>
    simp only [SoloPc, hw] at hP
    obtain ⟨h1, h2, h3, h4, h5, h6⟩ := hP
    exact absurd (by rw [h4, h2]) hc
  case rdS r b hw =>
    simp only [SoloPc, hw] at hP ⊢
    obtain ⟨h1, kl', e, h2, h3⟩ := hP
    refine ⟨h1.step rfl rfl rfl (fun h => h.emit _ _ _) rfl (hnew (by simp [hw])), kl', e, ?_, h3⟩
    show r.s + g.w.sc b = sumK g.w true r.kl
    rw [e, sumK_cons, h2]
    have : g.w.sel true b = g.w.sc b := rfl
    omega
  case rdF r b hw =>
    simp only [SoloPc, hw] at hP ⊢
    obtain ⟨h1, kl', e, h2, h3⟩ := hP
    refine ⟨h1.step rfl rfl rfl (fun h => h.emit _ _ _) rfl (hnew (by simp [hw])), h2, ?_⟩
    show r.f + g.w.fc b = sumK g.w false r.kl
    rw [e, sumK_cons, h3]
    have : g.w.sel false b = g.w.fc b := rfl
    omega
  case store e hw =>
    simp only [SoloPc, hw] at hP ⊢
    obtain ⟨h1, h2, h3⟩ := hP
    exact Or.inr ⟨h1, h2, h3⟩
  case headNext r it p hw hq hp =>
    simp only [SoloPc, hw] at hP ⊢
    exact hP
  case headExit r it hw hq hp =>
    simp only [SoloPc, hw] at hP ⊢
    obtain ⟨h1, h2, h3⟩ := hP
    obtain ⟨hiff, htrim⟩ := exit_exact hf hm hoth (by rw [hl]; exact hw) (by rw [hl]; exact hq) hp h1
    have hsum : ∀ k, sumK g.w k r.kl = cntAdds k (t - cfg.window) g0.w.log := by
      intro k
      have hnd : r.kl.Nodup := by
        have := hf.trav tid; rw [hl] at this; simp only [TravOK, hw] at this; exact this.1.nodup
      rw [hA k, ← sumK_eq_bsum g0.w k _ _ r.kl hnd hiff]
      exact sumK_congr (fun b hb' => h1.frame.sel k b ((hiff b).1 hb').1)
    refine ⟨?_, htrim, by rw [h2, h3, hsum, hsum]⟩
    obtain ⟨ext, e1, e2⟩ := h1.noroll
    refine ⟨ext ++ [Ev.rolled r.t r.s r.f r.n0 r.kl], by simp [e1, tagE], ?_⟩
    intro t' s f n0 kl hmem
    rcases List.mem_append.1 hmem with hmem | hmem
    · have := e2 _ hmem; simp [Ev.isRolled] at this
    · simp at hmem
      obtain ⟨rfl, rfl, rfl, _, _⟩ := hmem
      exact ⟨h1.tick, by rw [h2, hsum], by rw [h3, hsum]⟩
  case offerCont b gq1 ql1 o hw hs hne' =>
    rcases hw with hw | hw | ⟨t', hw⟩
    · simp only [SoloPc, hw] at hP ⊢; exact hP.step (hnew (by simp [hw]))
    · simp only [SoloPc, hw] at hP ⊢; exact hP.step (hnew (by simp [hw]))
    · simp only [SoloPc, hw] at hP ⊢
      obtain ⟨h1, h2, h3, h4⟩ := hP
      exact ⟨h1, h2, h3.emit _ _ _, h4.step (hnew (by simp [hw]))⟩
  case offerRet b gq1 o hw hs =>
    rcases hw with hw | hw
    · simp only [SoloPc, hw] at hP ⊢; exact Or.inl (hP.step (hnew (by simp [hw])))
    · simp only [SoloPc, hw] at hP ⊢; exact Or.inl (hP.step (hnew (by simp [hw])))
  case winRet t' b gq1 o hw hs =>
    simp only [SoloPc, hw] at hP ⊢
    obtain ⟨h1, h2, h3, h4⟩ := hP
    exact ⟨h1, h2, h3.emit _ _ _, h4.step (hnew (by simp [hw])), trivial⟩
  case mkIterCont t' n0 gq1 ql1 o hw hs hni =>
    obtain ⟨hsame, _⟩ := trav_tau_same hL (Or.inl (by simpa [Wf, hw] using hwf)) hs
    simp only [SoloPc, hw] at hP ⊢
    obtain ⟨h1, h2, h3, h4, h5⟩ := hP
    exact ⟨h1, h2, h3.q _, h4.step (hnew (by simp [hw])), by rw [h5]; exact hsame.1.symm⟩
  case mkIterRet t' n0 gq1 it o hw hs =>
    obtain ⟨hsame, _⟩ := trav_tau_same hL (Or.inl (by simpa [Wf, hw] using hwf)) hs
    simp only [SoloPc, hw] at hP ⊢
    obtain ⟨h1, h2, h3, h4, h5⟩ := hP
    exact ⟨⟨h1, h2, h3.q _, h4.step (hnew (by simp [hw])), by show n0 = gq1.n; rw [h5]; exact hsame.1.symm⟩, rfl, rfl⟩
  case nextCont r gq1 ql1 o hw hs hni =>
    obtain ⟨hsame, _⟩ := trav_tau_same hL (Or.inr (by simpa [Wf, hw] using hwf)) hs
    simp only [SoloPc, hw] at hP ⊢
    exact ⟨hP.1.step rfl rfl rfl (fun h => h.q _) hsame.1 (hnew (by simp [hw])), hP.2⟩
  case nextRemove r gq1 it pos b hw hs hlt hlr =>
    obtain ⟨hsame, _⟩ := trav_tau_same hL (Or.inr (by simpa [Wf, hw] using hwf)) hs
    simp only [SoloPc, hw] at hP ⊢
    exact ⟨hP.1.step rfl rfl rfl (fun h => h.q _) hsame.1 (hnew (by simp [hw])), hP.2⟩
  case nextKeep r gq1 it pos b hw hs hlt hlr =>
    obtain ⟨hsame, _⟩ := trav_tau_same hL (Or.inr (by simpa [Wf, hw] using hwf)) hs
    simp only [SoloPc, hw] at hP ⊢
    exact ⟨hP.1.step rfl rfl rfl (fun h => h.q _) hsame.1 (hnew (by simp [hw])), r.kl, rfl, hP.2⟩
  case removeRet r b gq1 it o hw hs =>
    obtain ⟨it0, k, _, rfl, _, _⟩ := remove_tau_eff (by simpa [Wf, hw] using hwf) hs
    simp only [SoloPc, hw] at hP ⊢
    exact ⟨hP.1.step rfl rfl rfl (fun h => h.emit _ _ _) rfl (hnew (by simp [hw])), hP.2⟩


theorem SoloPc.exact {cfg : Cfg} {g0 g : G} {tid : Tid} {t : Int} {l : L} (h : SoloPc cfg g0 tid t g l) :
    Exact cfg g0 g tid t := by
  cases hw : l.w <;> simp only [SoloPc, hw] at h
  case idle => exact h.elim NoRoll.exact (fun h => h.1)
  case ldCur => obtain ⟨_, rfl⟩ := h; exact ⟨[], by simp, by simp⟩
  case bsAdd => exact h.exact
  case bsOffer => exact h.exact
  case add => exact h.exact
  case rollAdd => exact h.2.2.2.2.2.exact
  case cas => exact h.2.2.2.2.2.exact
  case winOffer => exact h.2.2.2.exact
  case mkIter => exact h.2.2.2.1.exact
  case next => exact h.1.noroll.exact
  case remove => exact h.1.noroll.exact
  case rdS => exact h.1.noroll.exact
  case rdF => exact h.1.noroll.exact
  case store => exact h.1
  case head => exact h.1.noroll.exact
  case loseOffer => exact h.exact

/-- actions `.b` and `.q` are not enabled at the pcs `idle` and `tick` -/
theorem step_bq_pc {cfg : Cfg} {tid : Tid} {g : G} {l : L} {a : Act} {res} (ha : a = .b ∨ a = .q)
    (h : step cfg tid g l a = some res) : l.w ≠ .idle ∧ ∀ s, l.w ≠ .tick s := by
  refine ⟨fun hw => ?_, fun s hw => ?_⟩ <;> rcases ha with rfl | rfl <;> simp [step, hw] at h

set_option backward.isDefEq.respectTransparency false

/-- the solo run after the ticker reading: `.b`/`.q` steps of `tid` only -/
theorem solo_rest {cfg : Cfg} (h0 : 0 ≤ cfg.interval) {t0 : Int} {g0 : G} {tid : Tid} {t : Int}
    (hA : ∀ k, cntAdds k (t - cfg.window) g0.w.log = bsum g0.w k (t - cfg.window) g0.w.nb) (hcur0 : g0.w.cur < g0.w.nb)
    (rest : List (Tid × (M cfg t0).Act)) (hrest : ∀ e ∈ rest, e.1 = tid ∧ (e.2 = Act.b ∨ e.2 = Act.q)) :
    ∀ c : Config (M cfg t0), Reach (M cfg t0) c → (∀ u, u ≠ tid → (c.l u).w = .idle) →
      SoloPc cfg g0 tid t c.g (c.l tid) →
      SoloPc cfg g0 tid t (run (M cfg t0) c rest).1.g ((run (M cfg t0) c rest).1.l tid) ∧
      ∀ u, u ≠ tid → (run (M cfg t0) c rest).1.l u = c.l u := by
  induction rest with
  | nil => intro c _ _ hP; exact ⟨hP, fun _ _ => rfl⟩
  | cons ta rest ih =>
    intro c hc hoth hP
    obtain ⟨u, a⟩ := ta
    obtain ⟨hu, ha⟩ := hrest (u, a) (List.mem_cons_self ..)
    simp only at hu ha
    subst hu
    have hrest' : ∀ e ∈ rest, e.1 = u ∧ (e.2 = Act.b ∨ e.2 = Act.q) := fun e he => hrest e (List.mem_cons_of_mem _ he)
    cases he : (M cfg t0).step u c.g (c.l u) a with
    | none => rw [Queue.run_cons_none he]; exact ih hrest' c hc hoth hP
    | some r =>
      obtain ⟨g', l', obs⟩ := r
      rw [Queue.run_cons_some he]
      have hs : step cfg u c.g (c.l u) a = some (g', l', obs) := he
      obtain ⟨hb, hf, hm, _⟩ := reach_all h0 c hc
      obtain ⟨hne, hnt⟩ := step_bq_pc ha hs
      have hP' : SoloPc cfg g0 u t g' l' := by
        cases step_eff (hb.wf u) (hb.iinv u) hs with
        | one e => exact solo_eff hA hcur0 hb hf hm hoth hP hne hnt e
        | two e1 hh e2 =>
          rename_i g1 l1
          have hb1 := base_eff hb e1
          have hf1 := full_eff hb hf e1
          have hm1 := mono_eff h0 hb hf hm e1
          have hP1 := solo_eff hA hcur0 hb hf hm hoth hP hne hnt e1
          have e2' : Eff cfg u g1 (upd c.l u l1 u) g' l' := by simpa using e2
          have hoth1 : ∀ v, v ≠ u → (upd c.l u l1 v).w = .idle := fun v hv => by simpa [upd, hv] using hoth v hv
          have hw1 : (upd c.l u l1 u).w ≠ .idle ∧ ∀ s, (upd c.l u l1 u).w ≠ .tick s := by
            simp only [upd_same]
            cases hlw : l1.w <;> simp [WPc.isHead, hlw] at hh ⊢
          exact solo_eff hA hcur0 hb1 hf1 hm1 hoth1 (by simpa using hP1) hw1.1 hw1.2 e2'
      have hc1 : Reach (M cfg t0) ⟨g', upd c.l u l'⟩ := Reach.step hc he
      obtain ⟨k1, k2⟩ := ih hrest' ⟨g', upd c.l u l'⟩ hc1 (fun v hv => by simpa [upd, hv] using hoth v hv)
        (by simpa using hP')
      exact ⟨k1, fun v hv => by rw [k2 v hv]; simp [upd, hv]⟩

/-- **Exactness of a solo roll from quiescence.**  `c` reachable, every thread idle; thread `tid` alone runs one
`onEvent(succ)` with ticker reading `t` (schedule: the call, the reading, then any number of own steps).  At every
moment of that run (every `rest`): nobody else has moved; every `rolled` entry logged since `c` is `tid`'s, at tick `t`,
and its count is EXACTLY the number of successes / failures whose add is logged at `c` (all reports so far — the
triggering event, which goes to the new current bucket, excluded) with bucket timestamp `≥ t - window`; when the count
has been computed (`store e`) it is that count and every live node of the reservoir is inside the window (the older
buckets have been removed); when the operation has returned it either did not roll, or the snapshot is that count. -/
theorem solo_exact {cfg : Cfg} (h0 : 0 ≤ cfg.interval) {t0 : Int} (c : Config (M cfg t0)) (hc : Reach (M cfg t0) c)
    (hq : ∀ u, (c.l u).w = .idle) (tid : Tid) (succ : Bool) (t : Int)
    (rest : List (Tid × (M cfg t0).Act)) (hrest : ∀ e ∈ rest, e.1 = tid ∧ (e.2 = Act.b ∨ e.2 = Act.q)) :
    let c' := (run (M cfg t0) c ((tid, Act.call succ) :: (tid, Act.tick t) :: rest)).1
    let A := fun k => cntAdds k (t - cfg.window) c.g.w.log
    (∀ u, u ≠ tid → c'.l u = c.l u) ∧
    Exact cfg c.g c'.g tid t ∧
    (∀ e, (c'.l tid).w = .store e → e = (A true, A false) ∧ Trimmed cfg c'.g t) ∧
    ((c'.l tid).w = .idle → NoRoll c.g c'.g tid ∨ (c'.g.w.snap = (A true, A false) ∧ Trimmed cfg c'.g t)) := by
  intro c' A
  obtain ⟨hb, hf, hm, _⟩ := reach_all h0 c hc
  have hw := hq tid
  -- the call and the ticker reading
  have s1 : (M cfg t0).step tid c.g (c.l tid) (Act.call succ) = some (c.g, { c.l tid with w := .tick succ }, [Obs.call succ]) := by
    show step cfg tid c.g (c.l tid) (Act.call succ) = _
    simp [step, hw]
  let c1 : Config (M cfg t0) := ⟨c.g, upd c.l tid { c.l tid with w := .tick succ }⟩
  have hc1 : Reach (M cfg t0) c1 := Reach.step hc s1
  have s2 : (M cfg t0).step tid c1.g (c1.l tid) (Act.tick t) = some (c.g, { c.l tid with w := .ldCur succ t }, []) := by
    show step cfg tid c.g (upd c.l tid _ tid) (Act.tick t) = _
    simp [step]
  let c2 : Config (M cfg t0) := ⟨c.g, upd c1.l tid { c.l tid with w := .ldCur succ t }⟩
  have hc2 : Reach (M cfg t0) c2 := Reach.step hc1 s2
  have hrun : c' = (run (M cfg t0) c2 rest).1 := by
    show (run (M cfg t0) c _).1 = _
    rw [Queue.run_cons_some s1]
    show (run (M cfg t0) c1 _).1 = _
    rw [Queue.run_cons_some s2]
  have hoth2 : ∀ u, u ≠ tid → (c2.l u).w = .idle := fun u hu => by
    show (upd (upd c.l tid _) tid _ u).w = _
    simp [upd, hu, hq u]
  have hP2 : SoloPc cfg c.g tid t c2.g (c2.l tid) := by
    show SoloPc cfg c.g tid t c.g (upd (upd c.l tid _) tid _ tid)
    simp [SoloPc]
  obtain ⟨k1, k2⟩ := solo_rest h0 (g0 := c.g) (fun k => hf.cnt.sum k _) hf.own.cur_lt rest hrest c2 hc2 hoth2 hP2
  rw [← hrun] at k1 k2
  refine ⟨fun u hu => ?_, k1.exact, fun e he => ?_, fun he => ?_⟩
  · rw [k2 u hu]; show upd (upd c.l tid _) tid _ u = _; simp [upd, hu]
  · simp only [SoloPc, he] at k1; exact ⟨k1.2.2, k1.2.1⟩
  · simp only [SoloPc, he] at k1
    exact k1.elim Or.inl (fun h => Or.inr ⟨h.2.2, h.2.1⟩)

end Garr.Breaker.Fine
