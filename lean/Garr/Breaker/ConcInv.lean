import Garr.Breaker.Conc
/-!
# Invariants of the concurrent circuit-breaker machine

* `StepR`: the step function of `Garr.Breaker.step` as a relation, one constructor per branch of the
  breaker layer (the window steps `w1…w3` are summarised by their frame condition: they do not touch
  `objs`, `cur`, `casWins`).  `step_sound` : every enabled step is a `StepR` step.
* `objs_prefix`: state objects are immutable and only appended.
* `BInv`: the invariant of all reachable configurations (`binv_reach`).
-/
namespace Garr.Breaker
open Garr Garr.Conc

/-! ## Observations: the window layer's ghost markers are neither callbacks nor responses -/

def Obs.isWinGhost : Obs → Bool
  | .recorded .. => true
  | .rolled .. => true
  | _ => false

/-- the observations of a step without the window layer's ghost markers -/
def core (obs : List Obs) : List Obs := obs.filter (fun o => !o.isWinGhost)

/-- the window steps leave the breaker-level state alone -/
def Frame (g g' : CG) : Prop := g'.objs = g.objs ∧ g'.cur = g.cur ∧ g'.casWins = g.casWins

theorem Frame.refl (g : CG) : Frame g g := ⟨rfl, rfl, rfl⟩

/-- the step function, branch by branch -/
inductive StepR (cfg : Config) (g : CG) : L → Act → CG → L → List Obs → Prop
  | call (c : Call) : StepR cfg g .idle (.call c) g (.b0 c) []
  | b0ClosedCan : (g.obj g.cur).kind = .closed →
      StepR cfg g (.b0 .can) .tau g .idle [.ret (some true)]
  | b0ClosedRep (c : Call) : (g.obj g.cur).kind = .closed → c ≠ .can →
      StepR cfg g (.b0 c) .tau g (.w0 c g.cur (g.obj g.cur).win) []
  | b0TimedCan : (g.obj g.cur).kind ≠ .closed → (g.obj g.cur).dur > 0 →
      StepR cfg g (.b0 .can) .tau g (.c1 g.cur) []
  | b0TimedRej : (g.obj g.cur).kind ≠ .closed → ¬ (g.obj g.cur).dur > 0 →
      StepR cfg g (.b0 .can) .tau g .idle [.cbRejected, .ret (some false)]
  | b0OpenRep (c : Call) : (g.obj g.cur).kind = .opn → c ≠ .can →
      StepR cfg g (.b0 c) .tau g .idle [.ret none]
  | b0HalfRep (c : Call) : (g.obj g.cur).kind = .half → c ≠ .can →
      StepR cfg g (.b0 c) .tau g (.h1 c g.cur) []
  | c1Pass (o : Nat) (t1 : Int) : (g.obj o).timeout ≤ t1 →
      StepR cfg g (.c1 o) (.tick t1) g (.c2 o t1) []
  | c1Rej (o : Nat) (t1 : Int) : t1 < (g.obj o).timeout →
      StepR cfg g (.c1 o) (.tick t1) g .idle [.cbRejected, .ret (some false)]
  | c2 (o : Nat) (t1 t2 : Int) : StepR cfg g (.c2 o t1) (.tick t2) g (.c3 o t1 t2) []
  | c3Win (o : Nat) (t1 t2 : Int) : g.cur = o →
      StepR cfg g (.c3 o t1 t2) .tau (publish g o ⟨.half, wrap64 (t2 + cfg.trial), cfg.trial, 0⟩) .idle
        [.transition o .half, .admitted o t1, .cbState .half, .ret (some true)]
  | c3Lose (o : Nat) (t1 t2 : Int) : g.cur ≠ o →
      StepR cfg g (.c3 o t1 t2) .tau g .idle [.cbRejected, .ret (some false)]
  | w0 (c : Call) (o w : Nat) (t : Int) : StepR cfg g (.w0 c o w) (.tick t) g (.w1 c o w t) []
  | w1Done (c : Call) (o w : Nat) (t : Int) (g' : CG) (obs : List Obs) : Frame g g' → core obs = [.ret none] →
      StepR cfg g (.w1 c o w t) .tau g' .idle obs
  | w1Next (c : Call) (o w : Nat) (t : Int) :
      StepR cfg g (.w1 c o w t) .tau g (.w2 c o w t (g.win w).cur) []
  | w2Win (c : Call) (o w : Nat) (t : Int) (b : Nat) (g' : CG) (e : Int × Int) (obs : List Obs) :
      Frame g g' → core obs = [] → StepR cfg g (.w2 c o w t b) .tau g' (.w3 c o w e) obs
  | w2Lose (c : Call) (o w : Nat) (t : Int) (b : Nat) (g' : CG) (obs : List Obs) :
      Frame g g' → core obs = [.ret none] → StepR cfg g (.w2 c o w t b) .tau g' .idle obs
  | w3Trip (o w : Nat) (e : Int × Int) (g' : CG) : Frame g g' → exceeds cfg e.1 e.2 = true →
      StepR cfg g (.w3 .fail o w e) .tau g' (.f1 o e) []
  | w3Done (c : Call) (o w : Nat) (e : Int × Int) (g' : CG) : Frame g g' →
      StepR cfg g (.w3 c o w e) .tau g' .idle [.cbCount e.1 e.2, .ret none]
  | f1 (o : Nat) (e : Int × Int) (t : Int) : StepR cfg g (.f1 o e) (.tick t) g (.f2 o e t) []
  | f2Win (o : Nat) (e : Int × Int) (t : Int) : g.cur = o →
      StepR cfg g (.f2 o e t) .tau (publish g o ⟨.opn, wrap64 (t + cfg.openW), cfg.openW, 0⟩) .idle
        [.transition o .opn, .cbState .opn, .ret none]
  | f2Lose (o : Nat) (e : Int × Int) (t : Int) : g.cur ≠ o →
      StepR cfg g (.f2 o e t) .tau g .idle [.cbCount e.1 e.2, .ret none]
  | h1Succ (o : Nat) (t1 : Int) : StepR cfg g (.h1 .succ o) (.tick t1) g (.h1s o t1) []
  | h1Other (c : Call) (o : Nat) (t1 : Int) : c ≠ .succ →
      StepR cfg g (.h1 c o) (.tick t1) g (.h3 c o t1 0) []
  | h1s (o : Nat) (t1 : Int) : StepR cfg g (.h1s o t1) .tau g (.h2 o t1) []
  | h2 (o : Nat) (t1 t2 : Int) : StepR cfg g (.h2 o t1) (.tick t2) g (.h3 .succ o t1 t2) []
  | h3SuccWin (o : Nat) (t1 t2 : Int) : g.cur = o →
      StepR cfg g (.h3 .succ o t1 t2) .tau
        (publish { g with wins := g.wins ++ [⟨g.buckets.length, [], (0, 0)⟩],
                          buckets := g.buckets ++ [⟨t1, 0, 0⟩] }
          o ⟨.closed, wrap64 (t2 + 0), 0, g.wins.length⟩) .idle
        [.transition o .closed, .cbState .closed, .ret none]
  | h3SuccLose (o : Nat) (t1 t2 : Int) : g.cur ≠ o →
      StepR cfg g (.h3 .succ o t1 t2) .tau g .idle [.ret none]
  | h3OtherWin (c : Call) (o : Nat) (t1 t2 : Int) : c ≠ .succ → g.cur = o →
      StepR cfg g (.h3 c o t1 t2) .tau (publish g o ⟨.opn, wrap64 (t1 + cfg.openW), cfg.openW, 0⟩) .idle
        [.transition o .opn, .cbState .opn, .ret none]
  | h3OtherLose (c : Call) (o : Nat) (t1 t2 : Int) : c ≠ .succ → g.cur ≠ o →
      StepR cfg g (.h3 c o t1 t2) .tau g .idle [.ret none]

local macro "inj_at " h:ident : tactic =>
  `(tactic| (simp only [Option.some.injEq, Prod.mk.injEq] at $h:ident; obtain ⟨h1, h2, h3⟩ := $h:ident; subst h1 h2 h3))
theorem step_sound {cfg : Config} {t : Tid} {g : CG} {l : L} {a : Act} {g' : CG} {l' : L} {obs : List Obs}
    (h : step cfg t g l a = some (g', l', obs)) : StepR cfg g l a g' l' obs := by
  cases l with
  | idle =>
    cases a <;> simp [step] at h
    obtain ⟨rfl, rfl, rfl⟩ := h; exact .call _
  | b0 c =>
    cases a <;> simp only [step] at h <;> try (simp at h; done)
    split at h
    · inj_at h; exact .b0ClosedCan ‹_›
    · inj_at h; exact .b0ClosedRep _ ‹_› (fun hc => ‹_ → False› hc)
    · split at h <;> inj_at h
      · exact .b0TimedCan (by simp [*]) ‹_›
      · exact .b0TimedRej (by simp [*]) ‹_›
    · split at h <;> inj_at h
      · exact .b0TimedCan (by simp [*]) ‹_›
      · exact .b0TimedRej (by simp [*]) ‹_›
    · inj_at h; exact .b0OpenRep _ ‹_› (fun hc => ‹_ → False› hc)
    · inj_at h; exact .b0HalfRep _ ‹_› (fun hc => ‹_ → False› hc)
  | c1 o =>
    cases a <;> simp only [step] at h <;> try (simp at h; done)
    split at h <;> inj_at h
    · exact .c1Pass _ _ ‹_›
    · exact .c1Rej _ _ (by omega)
  | c2 o t1 =>
    cases a <;> simp [step] at h
    obtain ⟨rfl, rfl, rfl⟩ := h; exact .c2 _ _ _
  | c3 o t1 t2 =>
    cases a <;> simp only [step] at h <;> try (simp at h; done)
    split at h <;> inj_at h
    · exact .c3Win _ _ _ ‹_›
    · exact .c3Lose _ _ _ ‹_›
  | w0 c o w =>
    cases a <;> simp [step] at h
    obtain ⟨rfl, rfl, rfl⟩ := h; exact .w0 _ _ _ _
  | w1 c o w t =>
    cases a <;> simp only [step] at h <;> try (simp at h; done)
    split at h
    · inj_at h
      exact .w1Done _ _ _ _ _ _ ⟨rfl, rfl, rfl⟩ (by simp [core, Obs.isWinGhost])
    · split at h
      · inj_at h
        exact .w1Done _ _ _ _ _ _ ⟨rfl, rfl, rfl⟩ (by simp [core, Obs.isWinGhost])
      · inj_at h
        exact .w1Next _ _ _ _
  | w2 c o w t b =>
    cases a <;> simp only [step] at h <;> try (simp at h; done)
    split at h
    · inj_at h
      exact .w2Win _ _ _ _ _ _ _ _ ⟨rfl, rfl, rfl⟩ (by simp [core, Obs.isWinGhost])
    · inj_at h
      exact .w2Lose _ _ _ _ _ _ _ ⟨rfl, rfl, rfl⟩ (by simp [core, Obs.isWinGhost])
  | w3 c o w e =>
    cases a <;> simp only [step] at h <;> try (simp at h; done)
    obtain ⟨s, f⟩ := e
    cases c <;> simp only [afterReport] at h
    · inj_at h; exact .w3Done _ _ _ _ _ ⟨rfl, rfl, rfl⟩
    · inj_at h; exact .w3Done _ _ _ _ _ ⟨rfl, rfl, rfl⟩
    · split at h <;> inj_at h
      · exact .w3Trip _ _ _ _ ⟨rfl, rfl, rfl⟩ ‹_›
      · exact .w3Done _ _ _ _ _ ⟨rfl, rfl, rfl⟩
  | f1 o e =>
    cases a <;> simp [step] at h
    obtain ⟨rfl, rfl, rfl⟩ := h; exact .f1 _ _ _
  | f2 o e t =>
    cases a <;> simp only [step] at h <;> try (simp at h; done)
    split at h <;> inj_at h
    · exact .f2Win _ _ _ ‹_›
    · exact .f2Lose _ _ _ ‹_›
  | h1 c o =>
    cases c <;> cases a <;> simp [step] at h <;> obtain ⟨rfl, rfl, rfl⟩ := h
    · exact .h1Other _ _ _ (by simp)
    · exact .h1Succ _ _
    · exact .h1Other _ _ _ (by simp)
  | h1s o t1 =>
    cases a <;> simp [step] at h
    obtain ⟨rfl, rfl, rfl⟩ := h; exact .h1s _ _
  | h2 o t1 =>
    cases a <;> simp [step] at h
    obtain ⟨rfl, rfl, rfl⟩ := h; exact .h2 _ _ _
  | h3 c o t1 t2 =>
    cases c <;> cases a <;> simp only [step] at h <;> try (simp at h; done)
    all_goals (split at h <;> inj_at h)
    · exact .h3OtherWin _ _ _ _ (by simp) ‹_›
    · exact .h3OtherLose _ _ _ _ (by simp) ‹_›
    · exact .h3SuccWin _ _ _ ‹_›
    · exact .h3SuccLose _ _ _ ‹_›
    · exact .h3OtherWin _ _ _ _ (by simp) ‹_›
    · exact .h3OtherLose _ _ _ _ (by simp) ‹_›

/-! ## What a step does to the breaker-level state: nothing, or one publication -/

/-- the `(source, kind)` pairs of the `transition` observations of a step -/
def transOf (obs : List Obs) : List (Nat × Kind) :=
  obs.filterMap (fun x => match x with | .transition o k => some (o, k) | _ => none)

/-- the `(source, reading)` pairs of the `admitted` observations of a step -/
def admOf (obs : List Obs) : List (Nat × Int) :=
  obs.filterMap (fun x => match x with | .admitted o t => some (o, t) | _ => none)

theorem transOf_core (obs : List Obs) : transOf (core obs) = transOf obs := by
  induction obs with
  | nil => rfl
  | cons x xs ih => cases x <;> simp_all [transOf, core, Obs.isWinGhost]

theorem admOf_core (obs : List Obs) : admOf (core obs) = admOf obs := by
  induction obs with
  | nil => rfl
  | cons x xs ih => cases x <;> simp_all [admOf, core, Obs.isWinGhost]

/-- effect of a step on `objs`, `cur`, `casWins` and the `transition` observations -/
inductive Eff (g g' : CG) (obs : List Obs) : Prop
  | frame : Frame g g' → transOf obs = [] → admOf obs = [] → Eff g g' obs
  | pub (n : Obj) : g'.objs = g.objs ++ [n] → g'.cur = g.objs.length → g'.casWins = g.cur :: g.casWins →
      transOf obs = [(g.cur, n.kind)] → Eff g g' obs

theorem StepR.eff {cfg : Config} {g : CG} {l : L} {a : Act} {g' : CG} {l' : L} {obs : List Obs}
    (h : StepR cfg g l a g' l' obs) : Eff g g' obs := by
  have hc : ∀ {obs : List Obs} {r : List Obs}, core obs = r → transOf r = [] → admOf r = [] →
      transOf obs = [] ∧ admOf obs = [] := by
    intro obs r h1 h2 h3
    subst h1
    exact ⟨by rw [← transOf_core]; exact h2, by rw [← admOf_core]; exact h3⟩
  cases h
  case c3Win h => subst h; exact .pub _ rfl rfl rfl rfl
  case f2Win h => subst h; exact .pub _ rfl rfl rfl rfl
  case h3SuccWin h => subst h; exact .pub _ rfl rfl rfl rfl
  case h3OtherWin h => subst h; exact .pub _ rfl rfl rfl rfl
  case w1Done hf ho => exact .frame hf (hc ho rfl rfl).1 (hc ho rfl rfl).2
  case w2Win hf ho => exact .frame hf (hc ho rfl rfl).1 (hc ho rfl rfl).2
  case w2Lose hf ho => exact .frame hf (hc ho rfl rfl).1 (hc ho rfl rfl).2
  case w3Trip => exact .frame ‹Frame g g'› rfl rfl
  case w3Done => exact .frame ‹Frame g g'› rfl rfl
  all_goals exact .frame (Frame.refl _) rfl rfl

/-- state objects are immutable and only appended: a step extends `objs` -/
theorem objs_prefix {cfg : Config} {t : Tid} {g : CG} {l : L} {a : Act} {g' : CG} {l' : L} {obs : List Obs}
    (h : step cfg t g l a = some (g', l', obs)) : ∃ extra, g'.objs = g.objs ++ extra := by
  cases (step_sound h).eff with
  | frame hf _ _ => exact ⟨[], by simp [hf.1]⟩
  | pub n h1 _ _ _ => exact ⟨[n], h1⟩

theorem obj_append_left (g g' : CG) (extra : List Obj) (h : g'.objs = g.objs ++ extra) (o : Nat)
    (ho : o < g.objs.length) : g'.obj o = g.obj o := by
  simp [CG.obj, getD', h, List.getElem?_append_left ho]

/-! ## The global invariant -/

/-- `cur` designates the newest object; the expected values of successful CASes are exactly the
objects below `cur`, each once -/
def GInv (g : CG) : Prop :=
  g.cur + 1 = g.objs.length ∧ (∀ o ∈ g.casWins, o < g.cur) ∧ g.casWins.Nodup ∧ (∀ o, o < g.cur → o ∈ g.casWins)

theorem Eff.ginv {g g' : CG} {obs : List Obs} (h : Eff g g' obs) (hi : GInv g) : GInv g' := by
  obtain ⟨h1, h2, h3, h4⟩ := hi
  cases h with
  | frame hf _ _ =>
    obtain ⟨f1, f2, f3⟩ := hf
    exact ⟨by rw [f1, f2]; exact h1, by rw [f2, f3]; exact h2, by rw [f3]; exact h3, by rw [f2, f3]; exact h4⟩
  | pub n p1 p2 p3 _ =>
    refine ⟨by rw [p1, p2]; simp, ?_, ?_, ?_⟩
    · intro o ho
      rw [p3] at ho
      rw [p2]
      rcases List.mem_cons.mp ho with rfl | ho
      · omega
      · have := h2 o ho; omega
    · rw [p3]
      refine List.nodup_cons.mpr ⟨fun hm => ?_, h3⟩
      have := h2 _ hm; omega
    · intro o ho
      rw [p2] at ho
      rw [p3]
      by_cases hlt : o < g.cur
      · exact List.mem_cons_of_mem _ (h4 o hlt)
      · have : o = g.cur := by omega
        subst this; exact List.mem_cons_self

/-- `cur` never decreases, and objects up to the old `cur` keep their contents -/
theorem Eff.mono {g g' : CG} {obs : List Obs} (h : Eff g g' obs) (hi : GInv g) :
    g.cur ≤ g'.cur ∧ ∀ o, o ≤ g.cur → g'.obj o = g.obj o := by
  cases h with
  | frame hf _ _ => exact ⟨by rw [hf.2.1]; exact Nat.le_refl _, fun o _ => by simp [CG.obj, hf.1]⟩
  | pub n p1 p2 _ _ =>
    exact ⟨by rw [p2]; have := hi.1; omega, fun o ho => obj_append_left g g' [n] p1 o (by have := hi.1; omega)⟩

/-! ## The per-thread invariant -/

/-- what a thread's local state says about the object it loaded: the object exists (`o ≤ cur`) and
its immutable fields are what the control flow has tested -/
def LInv (g : CG) : L → Prop
  | .idle => True
  | .b0 _ => True
  | .c1 o => o ≤ g.cur ∧ (g.obj o).kind ≠ .closed ∧ (g.obj o).dur > 0
  | .c2 o t1 => o ≤ g.cur ∧ (g.obj o).kind ≠ .closed ∧ (g.obj o).dur > 0 ∧ (g.obj o).timeout ≤ t1
  | .c3 o t1 _ => o ≤ g.cur ∧ (g.obj o).kind ≠ .closed ∧ (g.obj o).dur > 0 ∧ (g.obj o).timeout ≤ t1
  | .w0 c o w => o ≤ g.cur ∧ (g.obj o).kind = .closed ∧ c ≠ .can ∧ w = (g.obj o).win
  | .w1 c o w _ => o ≤ g.cur ∧ (g.obj o).kind = .closed ∧ c ≠ .can ∧ w = (g.obj o).win
  | .w2 c o w _ _ => o ≤ g.cur ∧ (g.obj o).kind = .closed ∧ c ≠ .can ∧ w = (g.obj o).win
  | .w3 c o w _ => o ≤ g.cur ∧ (g.obj o).kind = .closed ∧ c ≠ .can ∧ w = (g.obj o).win
  | .f1 o _ => o ≤ g.cur ∧ (g.obj o).kind = .closed
  | .f2 o _ _ => o ≤ g.cur ∧ (g.obj o).kind = .closed
  | .h1 c o => o ≤ g.cur ∧ (g.obj o).kind = .half ∧ c ≠ .can
  | .h1s o _ => o ≤ g.cur ∧ (g.obj o).kind = .half
  | .h2 o _ => o ≤ g.cur ∧ (g.obj o).kind = .half
  | .h3 c o _ _ => o ≤ g.cur ∧ (g.obj o).kind = .half ∧ c ≠ .can

/-- stability: the per-thread facts survive the steps of other threads -/
theorem LInv.mono {g g' : CG} (hc : g.cur ≤ g'.cur) (ho : ∀ o, o ≤ g.cur → g'.obj o = g.obj o) {l : L}
    (h : LInv g l) : LInv g' l := by
  cases l <;> simp only [LInv] at h ⊢
  all_goals (obtain ⟨hle, hrest⟩ := h; rw [ho _ hle]; exact ⟨Nat.le_trans hle hc, hrest⟩)

/-- the stepping thread's new local state satisfies its invariant in the new shared state -/
theorem StepR.linv {cfg : Config} {g : CG} {l : L} {a : Act} {g' : CG} {l' : L} {obs : List Obs}
    (h : StepR cfg g l a g' l' obs) (hg : GInv g) (hl : LInv g l) : LInv g' l' := by
  have hm := h.eff.mono hg
  -- first in the old state, then transported
  suffices LInv g l' from this.mono hm.1 hm.2
  cases h <;> simp only [LInv] at hl ⊢ <;> simp_all

/-! ## The invariant of all reachable configurations -/

def BInv {cfg : Config} {t1 t2 : Int} (c : Garr.Conc.Config (M cfg t1 t2)) : Prop :=
  GInv c.g ∧ ∀ t, LInv c.g (c.l t)

theorem binv_step {cfg : Config} {t1 t2 : Int} (c : Garr.Conc.Config (M cfg t1 t2)) (t : Tid) (a : Act)
    (g' : CG) (l' : L) (obs : List Obs) (hi : BInv c)
    (hs : step cfg t c.g (c.l t) a = some (g', l', obs)) :
    BInv (⟨g', upd c.l t l'⟩ : Garr.Conc.Config (M cfg t1 t2)) := by
  have hr := step_sound hs
  have hm := hr.eff.mono hi.1
  refine ⟨hr.eff.ginv hi.1, fun u => ?_⟩
  by_cases hu : u = t
  · subst hu
    have e : upd c.l u l' u = l' := upd_same _ _ _
    exact (congrArg (LInv g') e).mpr (hr.linv hi.1 (hi.2 u))
  · have e : upd c.l t l' u = c.l u := upd_other _ _ _ _ hu
    exact (congrArg (LInv g') e).mpr ((hi.2 u).mono hm.1 hm.2)

theorem binv_reach {cfg : Config} {t1 t2 : Int} :
    ∀ c, Reach (M cfg t1 t2) c → BInv c := by
  apply inv_of_reach
  · refine ⟨⟨rfl, ?_, ?_, ?_⟩, fun _ => trivial⟩
    · intro o ho; exact absurd ho (by simp [Config.init, M, initG])
    · simp [Config.init, M, initG]
    · intro o ho; exact absurd ho (by simp [Config.init, M, initG])
  · intro c t a g' l' obs hi hs
    exact binv_step c t a g' l' obs hi hs

/-- reachable configurations, with the step relation: the form in which the property theorems use the invariant -/
theorem reach_step {cfg : Config} {t1 t2 : Int} {c : Garr.Conc.Config (M cfg t1 t2)} (hr : Reach (M cfg t1 t2) c)
    {t : Tid} {a : Act} {g' : CG} {l' : L} {obs : List Obs}
    (hs : step cfg t c.g (c.l t) a = some (g', l', obs)) :
    GInv c.g ∧ LInv c.g (c.l t) ∧ StepR cfg c.g (c.l t) a g' l' obs :=
  ⟨(binv_reach c hr).1, (binv_reach c hr).2 t, step_sound hs⟩

/-! ## The object a thread holds -/

/-- the state object a thread has loaded and is working on -/
def L.held : L → Option Nat
  | .idle => none
  | .b0 _ => none
  | .c1 o => some o
  | .c2 o _ => some o
  | .c3 o _ _ => some o
  | .w0 _ o _ => some o
  | .w1 _ o _ _ => some o
  | .w2 _ o _ _ _ => some o
  | .w3 _ o _ _ => some o
  | .f1 o _ => some o
  | .f2 o _ _ => some o
  | .h1 _ o => some o
  | .h1s o _ => some o
  | .h2 o _ => some o
  | .h3 _ o _ _ => some o

theorem LInv.held_le {g : CG} {l : L} {o : Nat} (h : LInv g l) (ho : l.held = some o) : o ≤ g.cur := by
  cases l <;> simp only [L.held, Option.some.injEq] at ho <;> (try exact absurd ho (by simp)) <;>
    (subst ho; exact h.1)

/-- an object below `cur` has been replaced by a successful CAS -/
theorem GInv.replaced {g : CG} (h : GInv g) {o : Nat} (hle : o ≤ g.cur) (hne : g.cur ≠ o) : o ∈ g.casWins :=
  h.2.2.2 o (by omega)

theorem obj_publish_cur (g : CG) (o : Nat) (n : Obj) : (publish g o n).obj (publish g o n).cur = n := by
  simp [publish, CG.obj, getD']

/-! ## The shape of a step's observations -/

def Obs.isCb : Obs → Bool
  | .cbState _ => true
  | .cbCount .. => true
  | .cbRejected => true
  | _ => false

/-- the observation list of a step is one of these (the window layer's ghost markers `recorded`/`rolled`,
which occur only in window steps, are ignored there) -/
inductive Shape : List Obs → Prop
  | quiet (obs : List Obs) : core obs = [] → Shape obs                 -- internal step
  | retNone (obs : List Obs) : core obs = [.ret none] → Shape obs      -- a report returns without notification
  | admitClosed : Shape [.ret (some true)]                              -- CanRequest on CLOSED
  | rejected : Shape [.cbRejected, .ret (some false)]
  | count (s f : Int) : Shape [.cbCount s f, .ret none]
  | moved (o : Nat) (k : Kind) : k ≠ .half → Shape [.transition o k, .cbState k, .ret none]
  | trial (o : Nat) (t1 : Int) : Shape [.transition o .half, .admitted o t1, .cbState .half, .ret (some true)]

theorem StepR.shape {cfg : Config} {g : CG} {l : L} {a : Act} {g' : CG} {l' : L} {obs : List Obs}
    (h : StepR cfg g l a g' l' obs) : Shape obs := by
  cases h
  case b0ClosedCan => exact .admitClosed
  case b0TimedRej => exact .rejected
  case c1Rej => exact .rejected
  case c3Lose => exact .rejected
  case c3Win => exact .trial _ _
  case f2Win => exact .moved _ _ (by simp)
  case h3SuccWin => exact .moved _ _ (by simp)
  case h3OtherWin => exact .moved _ _ (by simp)
  case w3Done => exact .count _ _
  case f2Lose => exact .count _ _
  case w1Done ho => exact .retNone _ ho
  case w2Lose ho => exact .retNone _ ho
  case w2Win ho => exact .quiet _ ho
  case b0OpenRep => exact .retNone _ rfl
  case h3SuccLose => exact .retNone _ rfl
  case h3OtherLose => exact .retNone _ rfl
  all_goals exact .quiet _ rfl

theorem mem_core {obs : List Obs} {x : Obs} (h : x ∈ obs) (hx : x.isWinGhost = false) : x ∈ core obs := by
  simp [core, List.mem_filter, h, hx]

theorem filter_isCb_core (obs : List Obs) : (core obs).filter Obs.isCb = obs.filter Obs.isCb := by
  unfold core
  rw [List.filter_filter]
  apply List.filter_congr
  intro x _
  cases x <;> rfl

/-! ## Runs -/

section Runs
variable {cfg : Config} {t1 t2 : Int}

local notation "MM" => M cfg t1 t2

theorem run_cons_none {c : Garr.Conc.Config MM} {t : Tid} {a : (MM).Act} {rest : List (Tid × (MM).Act)}
    (h : step cfg t c.g (c.l t) a = none) :
    run MM c ((t, a) :: rest) = run MM c rest := by
  have h' : (MM).step t c.g (c.l t) a = none := h
  simp only [run, h']

theorem run_cons_some {c : Garr.Conc.Config MM} {t : Tid} {a : (MM).Act} {rest : List (Tid × (MM).Act)}
    {g' : (MM).G} {l' : (MM).L} {obs : List (MM).Obs} (h : step cfg t c.g (c.l t) a = some (g', l', obs)) :
    run MM c ((t, a) :: rest) =
      ((run MM ⟨g', upd c.l t l'⟩ rest).1,
        obs.map (fun o => (t, o)) ++ (run MM ⟨g', upd c.l t l'⟩ rest).2) := by
  have h' : (MM).step t c.g (c.l t) a = some (g', l', obs) := h
  simp only [run, h']

/-- induction over the steps of a run from a reachable configuration -/
theorem run_induct {P : Garr.Conc.Config MM → List (Tid × (MM).Obs) → Garr.Conc.Config MM → Prop}
    (hnil : ∀ c, Reach MM c → P c [] c)
    (hstep : ∀ (c : Garr.Conc.Config MM) (t : Tid) (a : (MM).Act) (g' : (MM).G) (l' : (MM).L) (obs : List (MM).Obs)
      (log : List (Tid × (MM).Obs)) (cf : Garr.Conc.Config MM),
      Reach MM c → step cfg t c.g (c.l t) a = some (g', l', obs) →
      P ⟨g', upd c.l t l'⟩ log cf → P c (obs.map (fun o => (t, o)) ++ log) cf) :
    ∀ (s : List (Tid × (MM).Act)) (c : Garr.Conc.Config MM), Reach MM c →
      P c (run MM c s).2 (run MM c s).1 := by
  intro s
  induction s with
  | nil => intro c hc; exact hnil c hc
  | cons ta rest ih =>
    intro c hc
    obtain ⟨t, a⟩ := ta
    cases hs : step cfg t c.g (c.l t) a with
    | none => rw [run_cons_none hs]; exact ih c hc
    | some r =>
      obtain ⟨g', l', obs⟩ := r
      rw [run_cons_some hs]
      exact hstep c t a g' l' obs _ _ hc hs (ih _ (Reach.step hc hs))

/-- `run_induct` with the component types of `M` spelled out (`CG`, `L`, `Obs`, `Act`) -/
theorem run_induct' {P : Garr.Conc.Config MM → List (Tid × Obs) → Garr.Conc.Config MM → Prop}
    (hnil : ∀ c, Reach MM c → P c [] c)
    (hstep : ∀ (c : Garr.Conc.Config MM) (t : Tid) (a : Act) (g' : CG) (l' : L) (obs : List Obs)
      (log : List (Tid × Obs)) (cf : Garr.Conc.Config MM),
      Reach MM c → step cfg t c.g (c.l t) a = some (g', l', obs) →
      P ⟨g', upd c.l t l'⟩ log cf → P c (obs.map (fun o => (t, o)) ++ log) cf)
    (s : List (Tid × Act)) (c : Garr.Conc.Config MM) (hc : Reach MM c) :
    P c (run MM c s).2 (run MM c s).1 :=
  run_induct (P := P) hnil hstep s c hc

/-! ## The log of a run: sources of transitions and admissions -/

/-- the expected-object ids of the successful state CASes in a log, oldest first -/
def transSrcs (log : List (Tid × Obs)) : List Nat :=
  log.filterMap (fun p => match p.2 with | .transition o _ => some o | _ => none)

/-- the object ids from which a trial was admitted, oldest first -/
def admSrcs (log : List (Tid × Obs)) : List Nat :=
  log.filterMap (fun p => match p.2 with | .admitted o _ => some o | _ => none)

theorem transSrcs_step (t : Tid) (obs : List Obs) (log : List (Tid × Obs)) :
    transSrcs (obs.map (fun o => (t, o)) ++ log) = (transOf obs).map Prod.fst ++ transSrcs log := by
  induction obs with
  | nil => rfl
  | cons x xs ih =>
    have ih' : transSrcs (xs.map (fun o => (t, o)) ++ log) = (transOf xs).map Prod.fst ++ transSrcs log := ih
    cases x <;> simp [transSrcs, transOf] at ih' ⊢ <;> exact ih'

theorem admSrcs_step (t : Tid) (obs : List Obs) (log : List (Tid × Obs)) :
    admSrcs (obs.map (fun o => (t, o)) ++ log) = (admOf obs).map Prod.fst ++ admSrcs log := by
  induction obs with
  | nil => rfl
  | cons x xs ih =>
    have ih' : admSrcs (xs.map (fun o => (t, o)) ++ log) = (admOf xs).map Prod.fst ++ admSrcs log := ih
    cases x <;> simp [admSrcs, admOf] at ih' ⊢ <;> exact ih'

/-- in one step, trials are admitted only from the source of a transition of that step -/
theorem Shape.adm_sub {obs : List Obs} (h : Shape obs) :
    ((admOf obs).map Prod.fst).Sublist ((transOf obs).map Prod.fst) := by
  cases h
  case quiet ho => rw [← admOf_core, ho]; exact List.nil_sublist _
  case retNone ho => rw [← admOf_core, ho]; exact List.nil_sublist _
  all_goals simp [admOf, transOf]

/-- along a run from a reachable configuration: `cur` only grows, the sources of the transitions in the
log are exactly the objects from the old `cur` up to the new one, in order, and `casWins` records them -/
theorem run_transitions (s : List (Tid × Act)) (c : Garr.Conc.Config MM) (hc : Reach MM c) :
    c.g.cur ≤ (run MM c s).1.g.cur ∧
    transSrcs (run MM c s).2 = List.range' c.g.cur ((run MM c s).1.g.cur - c.g.cur) ∧
    (run MM c s).1.g.casWins = (transSrcs (run MM c s).2).reverse ++ c.g.casWins ∧
    (admSrcs (run MM c s).2).Sublist (transSrcs (run MM c s).2) := by
  refine run_induct' (P := fun c log cf => c.g.cur ≤ cf.g.cur ∧
      transSrcs log = List.range' c.g.cur (cf.g.cur - c.g.cur) ∧
      cf.g.casWins = (transSrcs log).reverse ++ c.g.casWins ∧ (admSrcs log).Sublist (transSrcs log)) ?_ ?_ s c hc
  · intro c _
    refine ⟨Nat.le_refl _, ?_, ?_, ?_⟩
    · show ([] : List Nat) = _
      simp
    · rfl
    · exact List.Sublist.refl _
  · intro c t a g' l' obs log cf hc hs ih
    obtain ⟨hg, _, hr⟩ := reach_step hc hs
    obtain ⟨i1, i2, i3, i4⟩ := ih
    have hsub := hr.shape.adm_sub
    have i1' : CG.cur g' ≤ CG.cur cf.g := i1
    have i2' : transSrcs log = List.range' (CG.cur g') (CG.cur cf.g - CG.cur g') := i2
    have i3' : CG.casWins cf.g = (transSrcs log).reverse ++ CG.casWins g' := i3
    refine ⟨?_, ?_, ?_, ?_⟩
    · have := (hr.eff.mono hg).1
      exact Nat.le_trans this i1'
    · rw [transSrcs_step]
      cases hr.eff with
      | frame hf ht _ =>
        rw [ht, i2', hf.2.1]; rfl
      | pub n p1 p2 p3 ht =>
        rw [ht, i2', p2]
        have h1 := hg.1
        have : CG.cur cf.g - CG.cur c.g = (CG.cur cf.g - (CG.objs c.g).length) + 1 := by
          rw [p2] at i1'; omega
        rw [this, List.range'_succ, ← h1]; rfl
    · rw [transSrcs_step]
      cases hr.eff with
      | frame hf ht _ => rw [ht, i3', hf.2.2]; rfl
      | pub n p1 p2 p3 ht => rw [ht, i3', p3]; simp
    · rw [transSrcs_step, admSrcs_step]
      exact List.Sublist.append hsub i4

/-- an `admitted` observation occurs only in the step shape `trial` -/
theorem Shape.of_admitted {obs : List Obs} (h : Shape obs) {o : Nat} {r : Int} (hm : Obs.admitted o r ∈ obs) :
    obs = [.transition o .half, .admitted o r, .cbState .half, .ret (some true)] := by
  cases h
  case quiet ho => have := mem_core hm rfl; rw [ho] at this; simp at this
  case retNone ho => have := mem_core hm rfl; rw [ho] at this; simp at this
  case trial o' r' => simp at hm; obtain ⟨rfl, rfl⟩ := hm; rfl
  all_goals simp at hm

/-- in the log of a run, every `admitted o r` entry is immediately preceded by the entry
`transition o HALF_OPEN` of the same thread (they are emitted by the same step) -/
theorem run_admitted_after_transition (s : List (Tid × Act)) (c : Garr.Conc.Config MM) (hc : Reach MM c)
    (pre post : List (Tid × Obs)) (t : Tid) (o : Nat) (r : Int)
    (h : (run MM c s).2 = pre ++ (t, Obs.admitted o r) :: post) :
    ∃ pre', pre = pre' ++ [(t, Obs.transition o .half)] := by
  revert pre post t o r
  refine run_induct' (P := fun _ log _ => ∀ (pre post : List (Tid × Obs)) (t : Tid) (o : Nat) (r : Int),
      log = pre ++ (t, Obs.admitted o r) :: post → ∃ pre', pre = pre' ++ [(t, Obs.transition o .half)]) ?_ ?_ s c hc
  · intro c _ pre post t o r h
    exact absurd h (by simp)
  · intro c u a g' l' obs log cf hc hs ih pre post t o r h
    rcases List.append_eq_append_iff.mp h with ⟨as, h1, h2⟩ | ⟨bs, h1, h2⟩
    · obtain ⟨pre', hp⟩ := ih as post t o r h2
      exact ⟨obs.map (fun o => (u, o)) ++ pre', by rw [h1, hp, List.append_assoc]⟩
    · cases bs with
      | nil =>
        obtain ⟨pre', hp⟩ := ih [] post t o r (by simpa using h2.symm)
        exact absurd hp (by simp)
      | cons b bs' =>
        have hb : b = (t, Obs.admitted o r) := by
          have := h2; simp only [List.cons_append, List.cons.injEq] at this; exact this.1.symm
        subst hb
        have hmem : (t, Obs.admitted o r) ∈ obs.map (fun o => (u, o)) := by rw [h1]; simp
        obtain ⟨x, hx, hxe⟩ := List.mem_map.mp hmem
        simp only [Prod.mk.injEq] at hxe
        obtain ⟨rfl, rfl⟩ := hxe
        have hobs := (step_sound hs).shape.of_admitted hx
        rw [hobs] at h1
        rcases pre with _ | ⟨p1, _ | ⟨p2, _ | ⟨p3, _ | ⟨p4, pre⟩⟩⟩⟩ <;> simp at h1
        obtain ⟨rfl, _⟩ := h1
        exact ⟨[], rfl⟩

/-- objects are immutable along a run: every object that exists keeps its contents, whatever is scheduled -/
theorem run_obj_stable (s : List (Tid × Act)) (c : Garr.Conc.Config MM) (hc : Reach MM c) (o : Nat)
    (ho : o ≤ c.g.cur) : (run MM c s).1.g.obj o = c.g.obj o := by
  revert o
  refine run_induct' (P := fun c _ cf => ∀ o, o ≤ c.g.cur → cf.g.obj o = c.g.obj o) ?_ ?_ s c hc
  · intro c _ o _; rfl
  · intro c t a g' l' obs log cf hc hs ih o ho
    obtain ⟨hg, _, hr⟩ := reach_step hc hs
    have hm := hr.eff.mono hg
    have h1 : CG.obj cf.g o = CG.obj g' o := ih o (Nat.le_trans ho hm.1)
    rw [h1, hm.2 o ho]

end Runs

end Garr.Breaker
