import Garr.Breaker.FineOwn
/-!
# Full-stack window counter: the bucket counters are exactly the logged adds
-/
namespace Garr.Breaker.Fine
open Garr Garr.Conc

/-- counter `k` (`true`: successes, `false`: failures) of bucket `b` -/
def W.sel (w : W) (k : Bool) (b : Nat) : Nat := if k then w.sc b else w.fc b

/-- sum of counter `k` over the buckets `< n` with timestamp `≥ lim` -/
def bsum (w : W) (k : Bool) (lim : Int) : Nat → Nat
  | 0 => 0
  | n + 1 => bsum w k lim n + (if lim ≤ w.ts n then w.sel k n else 0)

/-- `e` is the add of a report of kind `k` to a bucket with timestamp `≥ lim` -/
def isAdd (k : Bool) (lim : Int) (e : Tid × Ev) : Bool :=
  match e.2 with
  | .added _ s _ st => s == k && decide (lim ≤ st)
  | _ => false

/-- `e` is the add of a report of kind `k` to bucket `b` -/
def isAddTo (k : Bool) (b : Nat) (e : Tid × Ev) : Bool :=
  match e.2 with
  | .added _ s b' _ => s == k && b' == b
  | _ => false

def Ev.isAdded : Ev → Bool | .added .. => true | _ => false

/-- number of reports of kind `k` in the log whose add took effect on a bucket with timestamp `≥ lim` -/
def cntAdds (k : Bool) (lim : Int) (lg : List (Tid × Ev)) : Nat := lg.countP (isAdd k lim)
/-- number of reports of kind `k` in the log whose add took effect on bucket `b` -/
def cntAddsTo (k : Bool) (b : Nat) (lg : List (Tid × Ev)) : Nat := lg.countP (isAddTo k b)

abbrev tagE (tid : Tid) (es : List Ev) : List (Tid × Ev) := es.map (fun e => (tid, e))

theorem cntAdds_append (k : Bool) (lim : Int) (a b : List (Tid × Ev)) :
    cntAdds k lim (a ++ b) = cntAdds k lim a + cntAdds k lim b := by simp [cntAdds]
theorem cntAddsTo_append (k : Bool) (x : Nat) (a b : List (Tid × Ev)) :
    cntAddsTo k x (a ++ b) = cntAddsTo k x a + cntAddsTo k x b := by simp [cntAddsTo]

theorem cntAdds_quiet {es : List Ev} (h : ∀ e ∈ es, e.isAdded = false) (tid : Tid) (k : Bool) (lim : Int) :
    cntAdds k lim (tagE tid es) = 0 := by
  simp only [cntAdds, List.countP_eq_zero, tagE, List.mem_map]
  rintro _ ⟨e, he, rfl⟩
  have := h e he
  cases e <;> simp [isAdd, Ev.isAdded] at this ⊢

theorem cntAddsTo_quiet {es : List Ev} (h : ∀ e ∈ es, e.isAdded = false) (tid : Tid) (k : Bool) (b : Nat) :
    cntAddsTo k b (tagE tid es) = 0 := by
  simp only [cntAddsTo, List.countP_eq_zero, tagE, List.mem_map]
  rintro _ ⟨e, he, rfl⟩
  have := h e he
  cases e <;> simp [isAddTo, Ev.isAdded] at this ⊢

theorem bsum_congr {w w' : W} {k : Bool} {lim : Int} {n : Nat}
    (h : ∀ b, b < n → w'.ts b = w.ts b ∧ w'.sel k b = w.sel k b) : bsum w' k lim n = bsum w k lim n := by
  induction n with
  | zero => rfl
  | succ n ih =>
    simp only [bsum]
    rw [ih (fun b hb => h b (by omega)), (h n (by omega)).1, (h n (by omega)).2]

theorem sel_addTo (w : W) (b : Nat) (s k : Bool) (c : Nat) :
    (w.addTo b s).sel k c = w.sel k c + (if c = b ∧ s = k then 1 else 0) := by
  unfold W.addTo W.sel
  cases s <;> cases k <;> by_cases h : c = b <;> simp [h]

theorem bsum_addTo (w : W) (b : Nat) (s k : Bool) (lim : Int) (n : Nat) :
    bsum (w.addTo b s) k lim n = bsum w k lim n + (if b < n ∧ s = k ∧ lim ≤ w.ts b then 1 else 0) := by
  induction n with
  | zero => simp [bsum]
  | succ n ih =>
    simp only [bsum, ih, addTo_ts, sel_addTo]
    by_cases hb : n = b
    · subst hb
      by_cases h1 : s = k <;> by_cases h2 : lim ≤ w.ts n <;> simp [h1, h2] <;> omega
    · have h3 : (b < n + 1) ↔ (b < n) := by omega
      simp only [h3, hb, false_and, if_false, Nat.add_zero]
      omega

/-- buckets mentioned in the locals exist -/
def refsOK (g : G) (l : L) : Prop :=
  match l.w with
  | .add _ _ b => b < g.w.nb
  | .rollAdd _ _ old _ => old < g.w.nb
  | .cas _ old _ => old < g.w.nb
  | _ => True

structure Cnt (g : G) (ls : Tid → L) : Prop where
  refs : ∀ t, refsOK g (ls t)
  sum : ∀ k lim, cntAdds k lim g.w.log = bsum g.w k lim g.w.nb
  per : ∀ k b, g.w.sel k b = cntAddsTo k b g.w.log
  stamp : ∀ tid t s b st, (tid, Ev.added t s b st) ∈ g.w.log → b < g.w.nb ∧ g.w.ts b = st

/-- what a micro-step does to the counters -/
inductive CntEff (tid : Tid) : G → L → G → L → Prop
  | quiet {g l g' l'} (es : List Ev) : g'.w.nb = g.w.nb → g'.w.ts = g.w.ts → g'.w.sc = g.w.sc → g'.w.fc = g.w.fc →
      g'.w.log = g.w.log ++ tagE tid es → (∀ e ∈ es, e.isAdded = false) →
      (refsOK g l → g.w.cur < g.w.nb → refsOK g' l') → CntEff tid g l g' l'
  | alloc {g l g' l'} (t : Int) : g'.w = g.w.alloc t → (g.w.cur < g.w.nb → refsOK g' l') → CntEff tid g l g' l'
  | add {g l g' l'} (t : Int) (s : Bool) (b : Nat) : b < g.w.nb →
      g'.w = (g.w.addTo b s).emit tid [.added t s b (g.w.ts b)] → (refsOK g l → refsOK g' l') → CntEff tid g l g' l'

theorem eff_cnt {cfg : Cfg} {tid : Tid} {g g' : G} {ls : Tid → L} {l' : L} (ho : Own g ls) (hr : refsOK g (ls tid))
    (he : Eff cfg tid g (ls tid) g' l') : CntEff tid g (ls tid) g' l' := by
  have hh := ho.held_lt tid
  generalize hl : ls tid = l at he hh hr
  cases he
  case call succ hw => exact .quiet [] rfl rfl rfl rfl (by simp) (by simp) (fun _ _ => by simp [refsOK])
  case tick succ t hw => exact .quiet [] rfl rfl rfl rfl (by simp) (by simp) (fun _ _ => by simp [refsOK])
  case ldBs succ t hw _ => exact .alloc t rfl (fun _ => by simp [refsOK])
  case ldSame succ t hw _ _ => exact .quiet [] rfl rfl rfl rfl (by simp) (by simp) (fun _ h => by simpa [refsOK] using h)
  case ldRoll succ t hw _ _ => exact .alloc t rfl (fun h => by simp [refsOK, W.alloc]; omega)
  case bsAdd succ t b hw hq => exact .add t succ b (hh b (by simp [held, hw])).1 rfl (fun _ => by simp [refsOK])
  case addSame succ t b hw => exact .add t succ b (by simpa [refsOK, hw] using hr) rfl (fun _ => by simp [refsOK])
  case rollAdd succ t old nw hw =>
    exact .add t succ nw (hh nw (by simp [held, hw])).1 rfl (fun h => by simpa [refsOK, hw, addTo_nb] using h)
  case casWin t old nw hw hq hc =>
    exact .quiet [.swapped old nw] rfl rfl rfl rfl rfl (by simp [Ev.isAdded]) (fun _ _ => by simp [refsOK])
  case casLose t old nw hw hq hc =>
    exact .quiet [.lost nw] rfl rfl rfl rfl rfl (by simp [Ev.isAdded]) (fun _ _ => by simp [refsOK])
  case rdS r b hw => exact .quiet [.cntS b (g.w.sc b)] rfl rfl rfl rfl rfl (by simp [Ev.isAdded]) (fun _ _ => by simp [refsOK])
  case rdF r b hw => exact .quiet [.cntF b (g.w.fc b)] rfl rfl rfl rfl rfl (by simp [Ev.isAdded]) (fun _ _ => by simp [refsOK])
  case store e hw => exact .quiet [] rfl rfl rfl rfl (by simp) (by simp) (fun _ _ => by simp [refsOK])
  case headNext r it p hw hq hp => exact .quiet [] rfl rfl rfl rfl (by simp) (by simp) (fun _ _ => by simp [refsOK])
  case headExit r it hw hq hp => exact .quiet [_] rfl rfl rfl rfl rfl (by simp [Ev.isAdded]) (fun _ _ => by simp [refsOK])
  case offerCont b gq1 ql1 o hw hs hne =>
    refine .quiet (linkedEv g b o) rfl rfl rfl rfl rfl ?_ (fun _ _ => ?_)
    · unfold linkedEv; split <;> simp [Ev.isAdded]
    · rcases hw with hw | hw | ⟨t, hw⟩ <;> simp [refsOK, hw]
  case offerRet b gq1 o hw hs =>
    refine .quiet (linkedEv g b o) rfl rfl rfl rfl rfl ?_ (fun _ _ => by simp [refsOK])
    unfold linkedEv; split <;> simp [Ev.isAdded]
  case winRet t b gq1 o hw hs =>
    refine .quiet _ rfl rfl rfl rfl rfl ?_ (fun _ _ => by simp [refsOK])
    unfold linkedEv; split <;> simp [Ev.isAdded]
  case mkIterCont t n0 gq1 ql1 o hw hs hni =>
    exact .quiet [] rfl rfl rfl rfl (by simp) (by simp) (fun _ _ => by simp [refsOK, hw])
  case mkIterRet t n0 gq1 it o hw hs => exact .quiet [] rfl rfl rfl rfl (by simp) (by simp) (fun _ _ => by simp [refsOK])
  case nextCont r gq1 ql1 o hw hs hni =>
    exact .quiet [] rfl rfl rfl rfl (by simp) (by simp) (fun _ _ => by simp [refsOK, hw])
  case nextRemove r gq1 it pos b hw hs hlt hlr =>
    exact .quiet [] rfl rfl rfl rfl (by simp) (by simp) (fun _ _ => by simp [refsOK])
  case nextKeep r gq1 it pos b hw hs hlt hlr =>
    exact .quiet [] rfl rfl rfl rfl (by simp) (by simp) (fun _ _ => by simp [refsOK])
  case removeRet r b gq1 it o hw hs =>
    refine .quiet _ rfl rfl rfl rfl rfl ?_ (fun _ _ => by simp [refsOK])
    split <;> simp [Ev.isAdded]

theorem refsOK_mono {g g' : G} {l : L} (h : g.w.nb ≤ g'.w.nb) (hr : refsOK g l) : refsOK g' l := by
  unfold refsOK at hr ⊢
  split <;> simp_all <;> omega

theorem cnt_pres {g g' : G} {ls : Tid → L} {tid : Tid} {l' : L} (ho : Own g ls) (hc : Cnt g ls)
    (he : CntEff tid g (ls tid) g' l') : Cnt g' (upd ls tid l') := by
  obtain ⟨c1, c2, c3, c4⟩ := hc
  have hrefs : g.w.nb ≤ g'.w.nb → refsOK g' l' → ∀ u, refsOK g' (upd ls tid l' u) := by
    intro hn h u
    by_cases hu : u = tid
    · subst hu; simpa using h
    · simpa [upd, hu] using refsOK_mono hn (c1 u)
  cases he with
  | quiet es a b c d e f h =>
    have hsel : ∀ k x, g'.w.sel k x = g.w.sel k x := by intro k x; simp [W.sel, c, d]
    refine ⟨hrefs (by omega) (h (c1 tid) ho.cur_lt), ?_, ?_, ?_⟩
    · intro k lim
      rw [e, cntAdds_append, cntAdds_quiet f, a, Nat.add_zero, c2]
      exact (bsum_congr (fun x _ => ⟨by rw [b], hsel k x⟩)).symm
    · intro k x; rw [e, cntAddsTo_append, cntAddsTo_quiet f, hsel, c3]; rfl
    · intro u t s x st hm
      rw [e] at hm
      rcases List.mem_append.1 hm with hm | hm
      · rw [a, b]; exact c4 u t s x st hm
      · simp only [tagE, List.mem_map] at hm
        obtain ⟨e', he', heq⟩ := hm
        have := f e' he'
        cases heq
        simp [Ev.isAdded] at this
  | alloc t a h =>
    have hnb : g'.w.nb = g.w.nb + 1 := by rw [a]; rfl
    refine ⟨hrefs (by omega) (h ho.cur_lt), ?_, ?_, ?_⟩
    · intro k lim
      rw [hnb, bsum]
      have e1 : g'.w.log = g.w.log := by rw [a]; rfl
      have e2 : g'.w.sel k g.w.nb = 0 := by rw [a]; unfold W.sel W.alloc; cases k <;> simp
      rw [e1, c2, e2]
      have : bsum g'.w k lim g.w.nb = bsum g.w k lim g.w.nb := by
        apply bsum_congr
        intro x hx
        have hne : x ≠ g.w.nb := by omega
        rw [a]; unfold W.sel W.alloc; cases k <;> simp [hne]
      rw [this]; simp
    · intro k x
      have e1 : g'.w.log = g.w.log := by rw [a]; rfl
      rw [e1, ← c3]
      by_cases hx : x = g.w.nb
      · subst hx
        have : g.w.sel k g.w.nb = 0 := by
          rw [c3, cntAddsTo, List.countP_eq_zero]
          intro e he
          obtain ⟨u, ev⟩ := e
          cases ev <;> simp [isAddTo]
          rename_i t' s' b' st'
          have := (c4 u t' s' b' st' he).1
          intro _; omega
        rw [this, a]; unfold W.sel W.alloc; cases k <;> simp
      · rw [a]; unfold W.sel W.alloc; cases k <;> simp [hx]
    · intro u t' s x st hm
      have e1 : g'.w.log = g.w.log := by rw [a]; rfl
      rw [e1] at hm
      obtain ⟨h1, h2⟩ := c4 u t' s x st hm
      have hne : x ≠ g.w.nb := by omega
      rw [a]; simp [W.alloc, hne]; exact ⟨by omega, h2⟩
  | add t s b hb a h =>
    have hnb : g'.w.nb = g.w.nb := by rw [a]; simp [addTo_nb]
    have hts : g'.w.ts = g.w.ts := by rw [a]; simp [addTo_ts]
    have hlog : g'.w.log = g.w.log ++ [(tid, .added t s b (g.w.ts b))] := by rw [a]; simp [addTo_log]
    refine ⟨hrefs (by omega) (h (c1 tid)), ?_, ?_, ?_⟩
    · intro k lim
      have : bsum g'.w k lim g.w.nb = bsum (g.w.addTo b s) k lim g.w.nb :=
        bsum_congr (fun x _ => by rw [a]; exact ⟨rfl, rfl⟩)
      rw [hnb, this, bsum_addTo, hlog, cntAdds_append, c2]
      congr 1
      simp only [cntAdds, List.countP_cons, List.countP_nil, isAdd, hb, true_and]
      by_cases h1 : s = k <;> by_cases h2 : lim ≤ g.w.ts b <;> simp [h1, h2]
    · intro k x
      have : g'.w.sel k x = (g.w.addTo b s).sel k x := by rw [a]; rfl
      rw [this, sel_addTo, hlog, cntAddsTo_append, c3]
      congr 1
      simp only [cntAddsTo, List.countP_cons, List.countP_nil, isAddTo]
      by_cases h1 : s = k <;> by_cases h2 : x = b
      · subst h1 h2; simp
      · have : ¬ b = x := fun e => h2 e.symm
        simp [h2, this]
      · simp [h1]
      · simp [h1]
    · intro u t' s' x st hm
      rw [hlog] at hm
      rw [hnb, hts]
      rcases List.mem_append.1 hm with hm | hm
      · exact c4 u t' s' x st hm
      · simp at hm; obtain ⟨_, _, _, rfl, rfl⟩ := hm; exact ⟨hb, rfl⟩

theorem cnt_init (t0 : Int) : Cnt ⟨initW t0, Queue.init⟩ (fun _ => ⟨.idle, .idle⟩) := by
  refine ⟨fun _ => trivial, ?_, ?_, ?_⟩
  · intro k lim; simp [cntAdds, initW, bsum, W.sel]
  · intro k b; simp [cntAddsTo, initW, W.sel]
  · intro tid t s b st h; simp [initW] at h

/-- ownership and counting hold in every reachable configuration -/
theorem reach_cnt {cfg : Cfg} {t0 : Int} (c : Config (M cfg t0)) (h : Reach (M cfg t0) c) :
    Base c.g c.l ∧ Own c.g c.l ∧ Cnt c.g c.l :=
  reach_ind (cfg := cfg) (t0 := t0) (fun g ls => Own g ls ∧ Cnt g ls) ⟨own_init t0, cnt_init t0⟩
    (fun _ _ _ _ _ hb _ ⟨ho, hc⟩ he =>
      ⟨own_pres hb.ginv.npos ho (eff_own hb he), cnt_pres ho hc (eff_cnt ho (hc.refs _) he)⟩) c h

end Garr.Breaker.Fine
