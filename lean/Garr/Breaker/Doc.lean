import Garr.Breaker.Seq
/-!
# The documented circuit-breaker machine over an event log, and the refinement proof

`docStep` transcribes the reference `docMachine` of `harness/seqdiff/breaker.go` (functions `closeFresh`,
`report`, `canRequest`, `notifyState`): the state is a kind, a deadline, the list of reports since the last
close (each stamped with the start tick of the update interval it was recorded in, or with its own tick when
the ticker had stepped back) and the start tick of the current interval.  Arithmetic is exact (`Int`, no
wrap), counts are `List.length ∘ List.filter`.

`C06_refines_doc`: under the explicit no-wrap guard `NoWrap`, one call of the code-shaped model
(`stepOp`, `Garr/Breaker/Seq.lean`) and one call of the documented machine produce the same result, the same
callbacks, consume the same readings and end in related states.  `C06_run_refines_doc` lifts this to every
operation sequence and every ticker trace.
-/
namespace Garr.Breaker
open Garr

/-! ## 1. The documented machine -/

structure DocEv where
  stamp : Int
  succ : Bool
deriving Repr, DecidableEq

structure Doc where
  kind : Kind
  deadline : Int
  events : List DocEv
  curStart : Int
deriving Repr, DecidableEq

/-- `closeFresh`: CLOSED with an empty log; first reading is the start of the interval, second is discarded -/
def docCloseFresh (d : Doc) (ts : List Int) : Doc × List Int :=
  let (t1, ts1) := pop ts
  let (_, ts2) := pop ts1
  ({ d with kind := .closed, events := [], curStart := t1 }, ts2)

/-- the documented initial state (what `execBreaker` builds: `closeFresh` then `notifyState("C")`) -/
def docCreate (cfg : Config) (ts : List Int) : Doc × List Int × List Cb :=
  let (d, ts1) := docCloseFresh { kind := .closed, deadline := 0, events := [], curStart := 0 } ts
  (d, ts1, fanState cfg.listeners .closed)

/-- reports of the log that lie inside the window ending at tick `t` -/
def docKept (window t : Int) (es : List DocEv) : List DocEv :=
  es.filter (fun e => decide (e.stamp ≥ t - window))

def docSucc (es : List DocEv) : Int := ((es.filter (fun e => e.succ)).length : Nat)
def docFail (es : List DocEv) : Int := ((es.filter (fun e => !e.succ)).length : Nat)

/-- the documented trip rule on exact counts: non-empty, at least the minimum, rate strictly above the threshold -/
def docTrips (cfg : Config) (s f : Int) : Bool :=
  decide (s + f > 0) && decide (s + f ≥ cfg.minReq) &&
    F64.lt cfg.thr (F64.div (F64.ofInt f) (F64.ofInt (s + f)))

/-- the sliding-window part of `report` in CLOSED (the same code is the reference tally of the `window` mode):
log, start of the current interval ↦ new log, new start, the count if this report completes the interval -/
def docOnEvent (window interval : Int) (es : List DocEv) (cur : Int) (t : Int) (succ : Bool) :
    List DocEv × Int × Option (Int × Int) :=
  if t < cur then (es ++ [⟨t, succ⟩], cur, none)
  else if t < cur + interval then (es ++ [⟨cur, succ⟩], cur, none)
  else
    -- the interval is complete: count what the sliding window holds (this report opens the next interval)
    let kept := docKept window t es
    (kept ++ [⟨t, succ⟩], t, some (docSucc kept, docFail kept))

/-- `report(succ)` -/
def docReport (cfg : Config) (d : Doc) (ts : List Int) (succ : Bool) : Doc × List Int × List Cb :=
  match d.kind with
  | .closed =>
    let (t, ts1) := pop ts
    let (es, cur, e) := docOnEvent cfg.window cfg.interval d.events d.curStart t succ
    let d1 : Doc := { d with events := es, curStart := cur }
    match e with
    | none => (d1, ts1, [])
    | some (s, f) =>
      if !succ && docTrips cfg s f then
        let (t2, ts2) := pop ts1
        ({ d1 with kind := .opn, deadline := t2 + cfg.openW }, ts2, fanState cfg.listeners .opn)
      else (d1, ts1, fanCount cfg.listeners s f)
  | .half =>
    if succ then
      let (d', ts1) := docCloseFresh d ts
      (d', ts1, fanState cfg.listeners .closed)
    else
      let (t, ts1) := pop ts
      ({ d with kind := .opn, deadline := t + cfg.openW }, ts1, fanState cfg.listeners .opn)
  | .opn => (d, ts, [])

/-- `canRequest()` -/
def docCan (cfg : Config) (d : Doc) (ts : List Int) : Doc × List Int × Bool × List Cb :=
  match d.kind with
  | .closed => (d, ts, true, [])
  | _ =>
    let (t1, ts1) := pop ts
    if d.deadline ≤ t1 then
      let (t2, ts2) := pop ts1
      ({ d with kind := .half, deadline := t2 + cfg.trial }, ts2, true, fanState cfg.listeners .half)
    else (d, ts1, false, fanRejected cfg.listeners)

def docStep (cfg : Config) (d : Doc) (ts : List Int) : Op → Doc × List Int × Out
  | .can => let r := docCan cfg d ts; (r.1, r.2.1, ⟨some r.2.2.1, r.2.2.2⟩)
  | .succ => let r := docReport cfg d ts true; (r.1, r.2.1, ⟨none, r.2.2⟩)
  | .fail => let r := docReport cfg d ts false; (r.1, r.2.1, ⟨none, r.2.2⟩)

def docRun (cfg : Config) : Doc → List Int → List Op → List Out × Doc × List Int
  | d, ts, [] => ([], d, ts)
  | d, ts, op :: ops =>
    let r := docStep cfg d ts op
    let rest := docRun cfg r.1 r.2.1 ops
    (r.2.2 :: rest.1, rest.2.1, rest.2.2)

/-! ## 2. The no-wrap guard -/

/-- a ticker reading far enough from the `int64` limits that no deadline / window limit wraps -/
def InRange (t : Int) : Prop := -(2^62) ≤ t ∧ t ≤ 2^62

/-- the four durations are positive and at most `2^61` -/
def CfgOK (cfg : Config) : Prop :=
  (0 < cfg.interval ∧ cfg.interval ≤ 2^61) ∧ (0 < cfg.window ∧ cfg.window ≤ 2^61) ∧
  (0 < cfg.openW ∧ cfg.openW ≤ 2^61) ∧ (0 < cfg.trial ∧ cfg.trial ≤ 2^61)

/-- the explicit guard under which `wrap64` is the identity on every sum the code forms
(the bound on the number of reports is a separate hypothesis `… < 2^62` of the theorems) -/
def NoWrap (cfg : Config) (ts : List Int) : Prop := CfgOK cfg ∧ ∀ t ∈ ts, InRange t

instance (t : Int) : Decidable (InRange t) := by unfold InRange; infer_instance
instance (cfg : Config) : Decidable (CfgOK cfg) := by unfold CfgOK; infer_instance
instance (cfg : Config) (ts : List Int) : Decidable (NoWrap cfg ts) := by unfold NoWrap; infer_instance

theorem wrap_id {x : Int} (h1 : -(2^63) ≤ x) (h2 : x < 2^63) : wrap64 x = x := by
  unfold wrap64; omega

theorem pop_range {ts : List Int} (h : ∀ t ∈ ts, InRange t) :
    InRange (pop ts).1 ∧ ∀ t ∈ (pop ts).2, InRange t := by
  cases ts with
  | nil => refine ⟨?_, ?_⟩
           · show InRange 0
             unfold InRange; omega
           · intro t ht; cases ht
  | cons a as =>
    refine ⟨h a (List.mem_cons_self ..), fun t ht => h t (List.mem_cons_of_mem _ ht)⟩

theorem NoWrap.pop {cfg : Config} {ts : List Int} (h : NoWrap cfg ts) :
    InRange (pop ts).1 ∧ NoWrap cfg (pop ts).2 :=
  ⟨(pop_range h.2).1, h.1, (pop_range h.2).2⟩

/-! ## 3. The counting invariant -/

/-- number of logged successes whose stamp satisfies `p` -/
def cntS (p : Int → Bool) (es : List DocEv) : Nat := (es.filter (fun e => e.succ && p e.stamp)).length
/-- number of logged failures whose stamp satisfies `p` -/
def cntF (p : Int → Bool) (es : List DocEv) : Nat := (es.filter (fun e => !e.succ && p e.stamp)).length

/-- exact sum of the success counts of the buckets whose start tick satisfies `p` -/
def bsumS (p : Int → Bool) : List Bucket → Int
  | [] => 0
  | b :: bs => (if p b.ts then b.s else 0) + bsumS p bs
/-- exact sum of the failure counts of the buckets whose start tick satisfies `p` -/
def bsumF (p : Int → Bool) : List Bucket → Int
  | [] => 0
  | b :: bs => (if p b.ts then b.f else 0) + bsumF p bs

theorem cntS_append (p : Int → Bool) (es : List DocEv) (e : DocEv) :
    cntS p (es ++ [e]) = cntS p es + (if (e.succ && p e.stamp) = true then 1 else 0) := by
  unfold cntS
  rw [List.filter_append, List.length_append]
  by_cases h : (e.succ && p e.stamp) = true <;> simp [h]

theorem cntF_append (p : Int → Bool) (es : List DocEv) (e : DocEv) :
    cntF p (es ++ [e]) = cntF p es + (if (!e.succ && p e.stamp) = true then 1 else 0) := by
  unfold cntF
  rw [List.filter_append, List.length_append]
  by_cases h : (!e.succ && p e.stamp) = true <;> simp [h]

theorem bsumS_append (p : Int → Bool) (bs cs : List Bucket) : bsumS p (bs ++ cs) = bsumS p bs + bsumS p cs := by
  induction bs with
  | nil => simp [bsumS]
  | cons b bs ih => simp only [List.cons_append, bsumS, ih]; omega

theorem bsumF_append (p : Int → Bool) (bs cs : List Bucket) : bsumF p (bs ++ cs) = bsumF p bs + bsumF p cs := by
  induction bs with
  | nil => simp [bsumF]
  | cons b bs ih => simp only [List.cons_append, bsumF, ih]; omega

theorem bsumS_single (p : Int → Bool) (b : Bucket) : bsumS p [b] = if p b.ts then b.s else 0 := by
  simp [bsumS]
theorem bsumF_single (p : Int → Bool) (b : Bucket) : bsumF p [b] = if p b.ts then b.f else 0 := by
  simp [bsumF]

/-- filtering the log by a stamp predicate = conjoining the predicate -/
theorem cntS_filter (p q : Int → Bool) (es : List DocEv) :
    cntS p (es.filter (fun e => q e.stamp)) = cntS (fun x => q x && p x) es := by
  unfold cntS
  rw [List.filter_filter]
  congr 2
  funext e
  show (_ && p e.stamp && q e.stamp) = (_ && (q e.stamp && p e.stamp))
  cases e.succ <;> cases q e.stamp <;> cases p e.stamp <;> rfl

theorem cntF_filter (p q : Int → Bool) (es : List DocEv) :
    cntF p (es.filter (fun e => q e.stamp)) = cntF (fun x => q x && p x) es := by
  unfold cntF
  rw [List.filter_filter]
  congr 2
  funext e
  show (_ && p e.stamp && q e.stamp) = (_ && (q e.stamp && p e.stamp))
  cases e.succ <;> cases q e.stamp <;> cases p e.stamp <;> rfl

/-- filtering the buckets by a start-tick predicate = conjoining the predicate -/
theorem bsumS_filter (p q : Int → Bool) (bs : List Bucket) :
    bsumS p (bs.filter (fun b => q b.ts)) = bsumS (fun x => q x && p x) bs := by
  induction bs with
  | nil => rfl
  | cons b bs ih =>
    by_cases h : q b.ts = true
    · simp [h, bsumS, ih]
    · simp [h, bsumS, ih]

theorem bsumF_filter (p q : Int → Bool) (bs : List Bucket) :
    bsumF p (bs.filter (fun b => q b.ts)) = bsumF (fun x => q x && p x) bs := by
  induction bs with
  | nil => rfl
  | cons b bs ih =>
    by_cases h : q b.ts = true
    · simp [h, bsumF, ih]
    · simp [h, bsumF, ih]

theorem cntS_le (p : Int → Bool) (es : List DocEv) : cntS p es ≤ es.length := List.length_filter_le _ _
theorem cntF_le (p : Int → Bool) (es : List DocEv) : cntF p es ≤ es.length := List.length_filter_le _ _

theorem bsumS_nonneg (p : Int → Bool) (bs : List Bucket) (h : ∀ b ∈ bs, 0 ≤ b.s) : 0 ≤ bsumS p bs := by
  induction bs with
  | nil => simp [bsumS]
  | cons b bs ih =>
    have h1 := h b (List.mem_cons_self ..)
    have h2 := ih (fun c hc => h c (List.mem_cons_of_mem _ hc))
    simp only [bsumS]; split <;> omega

theorem bsumF_nonneg (p : Int → Bool) (bs : List Bucket) (h : ∀ b ∈ bs, 0 ≤ b.f) : 0 ≤ bsumF p bs := by
  induction bs with
  | nil => simp [bsumF]
  | cons b bs ih =>
    have h1 := h b (List.mem_cons_self ..)
    have h2 := ih (fun c hc => h c (List.mem_cons_of_mem _ hc))
    simp only [bsumF]; split <;> omega

/-- the code's wrapping sum is the wrap of the exact sum -/
theorem sumS_eq (bs : List Bucket) : sumS bs = wrap64 (bsumS (fun _ => true) bs) := by
  have gen : ∀ (bs : List Bucket) (a : Int),
      bs.foldl (fun acc b => wrap64 (acc + b.s)) (wrap64 a) = wrap64 (a + bsumS (fun _ => true) bs) := by
    intro bs
    induction bs with
    | nil => intro a; simp [bsumS]
    | cons b bs ih =>
      intro a
      simp only [List.foldl_cons, bsumS, if_true]
      rw [wrap64_add, ih]
      congr 1; omega
  have h0 : (0 : Int) = wrap64 0 := by decide
  unfold sumS
  rw [h0, gen]; simp

theorem sumF_eq (bs : List Bucket) : sumF bs = wrap64 (bsumF (fun _ => true) bs) := by
  have gen : ∀ (bs : List Bucket) (a : Int),
      bs.foldl (fun acc b => wrap64 (acc + b.f)) (wrap64 a) = wrap64 (a + bsumF (fun _ => true) bs) := by
    intro bs
    induction bs with
    | nil => intro a; simp [bsumF]
    | cons b bs ih =>
      intro a
      simp only [List.foldl_cons, bsumF, if_true]
      rw [wrap64_add, ih]
      congr 1; omega
  have h0 : (0 : Int) = wrap64 0 := by decide
  unfold sumF
  rw [h0, gen]; simp

theorem docSucc_eq (es : List DocEv) : docSucc es = (cntS (fun _ => true) es : Nat) := by
  simp [docSucc, cntS]
theorem docFail_eq (es : List DocEv) : docFail es = (cntF (fun _ => true) es : Nat) := by
  simp [docFail, cntF]

/-- the window counter `w` represents the log `es` with current interval start `cur`:
for every predicate on stamps, the logged successes / failures with that stamp are exactly the bucket counts
of the buckets with that start tick (plus what the no-wrap argument needs: range of `cur`, non-negative buckets) -/
structure WinRel (w : Win) (es : List DocEv) (cur : Int) : Prop where
  start : cur = w.cur.ts
  range : InRange cur
  nonneg : ∀ b ∈ w.res ++ [w.cur], 0 ≤ b.s ∧ 0 ≤ b.f
  countS : ∀ p : Int → Bool, ((cntS p es : Nat) : Int) = bsumS p (w.res ++ [w.cur])
  countF : ∀ p : Int → Bool, ((cntF p es : Nat) : Int) = bsumF p (w.res ++ [w.cur])

theorem trim_filter_eq (L : Int) :
    (fun b : Bucket => !(decide (b.ts < L))) = (fun b : Bucket => (fun x : Int => decide (x ≥ L)) b.ts) := by
  funext b
  by_cases h : b.ts < L
  · have h' : ¬ b.ts ≥ L := by omega
    simp [h, h']
  · have h' : b.ts ≥ L := by omega
    simp [h, h']

theorem mkBucket_ts (t : Int) (succ : Bool) : (mkBucket t succ).ts = t := by cases succ <;> rfl
theorem mkBucket_s (t : Int) (succ : Bool) : (mkBucket t succ).s = if succ then 1 else 0 := by cases succ <;> rfl
theorem mkBucket_f (t : Int) (succ : Bool) : (mkBucket t succ).f = if succ then 0 else 1 := by cases succ <;> rfl

theorem add_ts (b : Bucket) (succ : Bool) : (b.add succ).ts = b.ts := by cases succ <;> rfl
theorem add_s (b : Bucket) (succ : Bool) (h0 : 0 ≤ b.s) (h1 : b.s < 2^62) :
    (b.add succ).s = b.s + (if succ then 1 else 0) := by
  cases succ
  · simp [Bucket.add]
  · simp only [Bucket.add, if_true]; exact wrap_id (by omega) (by omega)
theorem add_f (b : Bucket) (succ : Bool) (h0 : 0 ≤ b.f) (h1 : b.f < 2^62) :
    (b.add succ).f = b.f + (if succ then 0 else 1) := by
  cases succ
  · simp only [Bucket.add, Bool.false_eq_true, if_false]; exact wrap_id (by omega) (by omega)
  · simp [Bucket.add]

/-- **window_refines_log**: one report handled by the sliding-window counter (`onEvent`, wrapping `int64`
arithmetic, buckets + reservoir) and by the documented log (`docOnEvent`, exact arithmetic) returns the same count
(`trimAndSum`'s sums are the numbers of logged successes / failures stamped inside the window) and re-establishes
the counting invariant. -/
theorem window_refines_log (cfg : Config) (w : Win) (es : List DocEv) (cur t : Int) (succ : Bool)
    (hc : CfgOK cfg) (ht : InRange t) (hn : es.length < 2^62) (hr : WinRel w es cur) :
    (onEvent cfg.window cfg.interval w t succ).2 = (docOnEvent cfg.window cfg.interval es cur t succ).2.2 ∧
    WinRel (onEvent cfg.window cfg.interval w t succ).1 (docOnEvent cfg.window cfg.interval es cur t succ).1
      (docOnEvent cfg.window cfg.interval es cur t succ).2.1 ∧
    (docOnEvent cfg.window cfg.interval es cur t succ).1.length ≤ es.length + 1 := by
  obtain ⟨hs, hrg, hnn, hcs, hcf⟩ := hr
  obtain ⟨⟨hi1, hi2⟩, ⟨hw1, hw2⟩, _, _⟩ := hc
  have hrg' := hrg
  have ht' := ht
  unfold InRange at ht' hrg'
  have hwi : wrap64 (w.cur.ts + cfg.interval) = cur + cfg.interval := by
    rw [← hs]; exact wrap_id (by omega) (by omega)
  have hwl : wrap64 (t - cfg.window) = t - cfg.window := wrap_id (by omega) (by omega)
  by_cases h1 : t < cur
  · -- the ticker stepped back: a bucket of its own / a log entry with its own stamp
    have h1' : t < w.cur.ts := hs ▸ h1
    have er : onEvent cfg.window cfg.interval w t succ = ({ w with res := w.res ++ [mkBucket t succ] }, none) := by
      simp [onEvent, h1']
    have er' : docOnEvent cfg.window cfg.interval es cur t succ = (es ++ [⟨t, succ⟩], cur, none) := by
      simp [docOnEvent, h1]
    rw [er, er']
    refine ⟨rfl, ⟨hs, hrg, ?_, ?_, ?_⟩, by simp⟩
    · intro b hb
      simp only [List.mem_append, List.mem_singleton] at hb
      rcases hb with (hb | hb) | hb
      · exact hnn b (by simp [hb])
      · subst hb; cases succ <;> simp [mkBucket]
      · exact hnn b (by simp [hb])
    · intro p
      have := hcs p
      simp only [bsumS_append] at this ⊢
      rw [cntS_append, bsumS_single p (mkBucket t succ), mkBucket_ts, mkBucket_s]
      cases succ <;> cases p t <;> simp <;> omega
    · intro p
      have := hcf p
      simp only [bsumF_append] at this ⊢
      rw [cntF_append, bsumF_single p (mkBucket t succ), mkBucket_ts, mkBucket_f]
      cases succ <;> cases p t <;> simp <;> omega
  · have h1' : ¬ t < w.cur.ts := hs ▸ h1
    -- bounds on the current bucket
    have hcur := hnn w.cur (by simp)
    have hres : ∀ b ∈ w.res, 0 ≤ b.s ∧ 0 ≤ b.f := fun b hb => hnn b (by simp [hb])
    have hS := hcs (fun _ => true)
    have hF := hcf (fun _ => true)
    rw [bsumS_append, bsumS_single] at hS
    rw [bsumF_append, bsumF_single] at hF
    simp only [if_true] at hS hF
    have hS0 := bsumS_nonneg (fun _ => true) w.res (fun b hb => (hres b hb).1)
    have hF0 := bsumF_nonneg (fun _ => true) w.res (fun b hb => (hres b hb).2)
    have hSl := cntS_le (fun _ => true) es
    have hFl := cntF_le (fun _ => true) es
    by_cases h2 : t < cur + cfg.interval
    · -- inside the update interval: the current bucket / a log entry stamped with the interval start
      have h2' : t < wrap64 (w.cur.ts + cfg.interval) := hwi ▸ h2
      have er : onEvent cfg.window cfg.interval w t succ = ({ w with cur := w.cur.add succ }, none) := by
        simp [onEvent, h1', h2']
      have er' : docOnEvent cfg.window cfg.interval es cur t succ = (es ++ [⟨cur, succ⟩], cur, none) := by
        simp [docOnEvent, h1, h2]
      have as := add_s w.cur succ hcur.1 (by omega)
      have af := add_f w.cur succ hcur.2 (by omega)
      rw [er, er']
      refine ⟨rfl, ⟨?_, hrg, ?_, ?_, ?_⟩, by simp⟩
      · show cur = (w.cur.add succ).ts
        rw [add_ts]; exact hs
      · intro b hb
        simp only [List.mem_append, List.mem_singleton] at hb
        rcases hb with hb | hb
        · exact hres b hb
        · subst hb; rw [as, af]; cases succ <;> simp <;> omega
      · intro p
        have := hcs p
        simp only [bsumS_append, bsumS_single] at this ⊢
        rw [cntS_append, add_ts, as, ← hs]
        rw [← hs] at this
        cases succ <;> cases hp : p cur <;> simp [hp] at this ⊢ <;> omega
      · intro p
        have := hcf p
        simp only [bsumF_append, bsumF_single] at this ⊢
        rw [cntF_append, add_ts, af, ← hs]
        rw [← hs] at this
        cases succ <;> cases hp : p cur <;> simp [hp] at this ⊢ <;> omega
    · -- the interval is complete: trim, count, open the next interval
      have h2' : ¬ t < wrap64 (w.cur.ts + cfg.interval) := hwi ▸ h2
      let q : Int → Bool := fun x => decide (x ≥ t - cfg.window)
      let keptB := (w.res ++ [w.cur]).filter (fun b => q b.ts)
      let keptE := es.filter (fun e => q e.stamp)
      have er : onEvent cfg.window cfg.interval w t succ =
          ({ cur := mkBucket t succ, res := keptB, snap := (sumS keptB, sumF keptB) }, some (sumS keptB, sumF keptB)) := by
        simp only [onEvent, h1', h2', if_false, trimAndSum, hwl, trim_filter_eq, keptB, q]
      have er' : docOnEvent cfg.window cfg.interval es cur t succ =
          (keptE ++ [⟨t, succ⟩], t, some (docSucc keptE, docFail keptE)) := by
        simp only [docOnEvent, h1, h2, if_false, docKept, keptE, q]
      have kS : ∀ p : Int → Bool, ((cntS p keptE : Nat) : Int) = bsumS p keptB := by
        intro p; rw [cntS_filter, bsumS_filter]; exact hcs _
      have kF : ∀ p : Int → Bool, ((cntF p keptE : Nat) : Int) = bsumF p keptB := by
        intro p; rw [cntF_filter, bsumF_filter]; exact hcf _
      have kl : keptE.length ≤ es.length := List.length_filter_le _ _
      have eS : sumS keptB = docSucc keptE := by
        rw [sumS_eq, ← kS, docSucc_eq]
        have := cntS_le (fun _ => true) keptE
        exact wrap_id (by omega) (by omega)
      have eF : sumF keptB = docFail keptE := by
        rw [sumF_eq, ← kF, docFail_eq]
        have := cntF_le (fun _ => true) keptE
        exact wrap_id (by omega) (by omega)
      rw [er, er']
      refine ⟨by simp only [eS, eF], ⟨?_, ht, ?_, ?_, ?_⟩, by simp; omega⟩
      · show t = (mkBucket t succ).ts
        rw [mkBucket_ts]
      · intro b hb
        simp only [List.mem_append, List.mem_singleton] at hb
        rcases hb with hb | hb
        · exact hnn b (List.mem_filter.mp hb).1
        · subst hb; cases succ <;> simp [mkBucket]
      · intro p
        have := kS p
        simp only [bsumS_append] at this ⊢
        rw [cntS_append, bsumS_single p (mkBucket t succ), mkBucket_ts, mkBucket_s]
        cases succ <;> cases p t <;> simp <;> omega
      · intro p
        have := kF p
        simp only [bsumF_append] at this ⊢
        rw [cntF_append, bsumF_single p (mkBucket t succ), mkBucket_ts, mkBucket_f]
        cases succ <;> cases p t <;> simp <;> omega

/-! ## 4. Unfolding equations of the two machines -/

theorem canRequest_closed (cfg : Config) (st : St) (ts : List Int) (h : st.kind = .closed) :
    canRequest cfg st ts = (st, ts, true, []) := by
  simp [canRequest, h]

theorem canRequest_wait (cfg : Config) (st : St) (ts : List Int)
    (hk : st.kind ≠ .closed) (hd : st.dur > 0) (ht : ¬ st.timeout ≤ (pop ts).1) :
    canRequest cfg st ts = (st, (pop ts).2, false, fanRejected cfg.listeners) := by
  unfold canRequest
  cases hkind : st.kind with
  | closed => exact absurd hkind hk
  | opn => simp [hd, ht]
  | half => simp [hd, ht]

theorem canRequest_trial (cfg : Config) (st : St) (ts : List Int)
    (hk : st.kind ≠ .closed) (hd : st.dur > 0) (ht : st.timeout ≤ (pop ts).1) :
    canRequest cfg st ts =
      ({ kind := .half, timeout := wrap64 ((pop (pop ts).2).1 + cfg.trial), dur := cfg.trial, win := st.win },
       (pop (pop ts).2).2, true, fanState cfg.listeners .half) := by
  unfold canRequest
  cases hkind : st.kind with
  | closed => exact absurd hkind hk
  | opn => simp [hd, ht, newTimed]
  | half => simp [hd, ht, newTimed]

theorem docCan_closed (cfg : Config) (d : Doc) (ts : List Int) (h : d.kind = .closed) :
    docCan cfg d ts = (d, ts, true, []) := by
  simp [docCan, h]

theorem docCan_wait (cfg : Config) (d : Doc) (ts : List Int)
    (hk : d.kind ≠ .closed) (ht : ¬ d.deadline ≤ (pop ts).1) :
    docCan cfg d ts = (d, (pop ts).2, false, fanRejected cfg.listeners) := by
  unfold docCan
  cases hkind : d.kind with
  | closed => exact absurd hkind hk
  | opn => simp [ht]
  | half => simp [ht]

theorem docCan_trial (cfg : Config) (d : Doc) (ts : List Int)
    (hk : d.kind ≠ .closed) (ht : d.deadline ≤ (pop ts).1) :
    docCan cfg d ts =
      ({ d with kind := .half, deadline := (pop (pop ts).2).1 + cfg.trial },
       (pop (pop ts).2).2, true, fanState cfg.listeners .half) := by
  unfold docCan
  cases hkind : d.kind with
  | closed => exact absurd hkind hk
  | opn => simp [ht]
  | half => simp [ht]

theorem onSuccess_closed_none (cfg : Config) (st : St) (ts : List Int) (h : st.kind = .closed)
    (he : (onEvent cfg.window cfg.interval st.win (pop ts).1 true).2 = none) :
    onSuccess cfg st ts =
      ({ st with win := (onEvent cfg.window cfg.interval st.win (pop ts).1 true).1 }, (pop ts).2, []) := by
  simp [onSuccess, h, he]

theorem onSuccess_closed_some (cfg : Config) (st : St) (ts : List Int) (s f : Int) (h : st.kind = .closed)
    (he : (onEvent cfg.window cfg.interval st.win (pop ts).1 true).2 = some (s, f)) :
    onSuccess cfg st ts =
      ({ st with win := (onEvent cfg.window cfg.interval st.win (pop ts).1 true).1 }, (pop ts).2,
       fanCount cfg.listeners s f) := by
  simp [onSuccess, h, he]

theorem onFailure_closed_none (cfg : Config) (st : St) (ts : List Int) (h : st.kind = .closed)
    (he : (onEvent cfg.window cfg.interval st.win (pop ts).1 false).2 = none) :
    onFailure cfg st ts =
      ({ st with win := (onEvent cfg.window cfg.interval st.win (pop ts).1 false).1 }, (pop ts).2, []) := by
  simp [onFailure, h, he]

theorem onFailure_closed_ok (cfg : Config) (st : St) (ts : List Int) (s f : Int) (h : st.kind = .closed)
    (he : (onEvent cfg.window cfg.interval st.win (pop ts).1 false).2 = some (s, f))
    (hx : exceeds cfg s f = false) :
    onFailure cfg st ts =
      ({ st with win := (onEvent cfg.window cfg.interval st.win (pop ts).1 false).1 }, (pop ts).2,
       fanCount cfg.listeners s f) := by
  simp [onFailure, h, he, hx]

theorem onFailure_closed_trip (cfg : Config) (st : St) (ts : List Int) (s f : Int) (h : st.kind = .closed)
    (he : (onEvent cfg.window cfg.interval st.win (pop ts).1 false).2 = some (s, f))
    (hx : exceeds cfg s f = true) :
    onFailure cfg st ts =
      ({ kind := .opn, timeout := wrap64 ((pop (pop ts).2).1 + cfg.openW), dur := cfg.openW,
         win := (onEvent cfg.window cfg.interval st.win (pop ts).1 false).1 },
       (pop (pop ts).2).2, fanState cfg.listeners .opn) := by
  simp [onFailure, h, he, hx, newTimed]

theorem docReport_closed_none (cfg : Config) (d : Doc) (ts : List Int) (succ : Bool) (h : d.kind = .closed)
    (he : (docOnEvent cfg.window cfg.interval d.events d.curStart (pop ts).1 succ).2.2 = none) :
    docReport cfg d ts succ =
      ({ d with events := (docOnEvent cfg.window cfg.interval d.events d.curStart (pop ts).1 succ).1,
                curStart := (docOnEvent cfg.window cfg.interval d.events d.curStart (pop ts).1 succ).2.1 },
       (pop ts).2, []) := by
  simp [docReport, h, he]

theorem docReport_closed_ok (cfg : Config) (d : Doc) (ts : List Int) (succ : Bool) (s f : Int)
    (h : d.kind = .closed)
    (he : (docOnEvent cfg.window cfg.interval d.events d.curStart (pop ts).1 succ).2.2 = some (s, f))
    (hx : (!succ && docTrips cfg s f) = false) :
    docReport cfg d ts succ =
      ({ d with events := (docOnEvent cfg.window cfg.interval d.events d.curStart (pop ts).1 succ).1,
                curStart := (docOnEvent cfg.window cfg.interval d.events d.curStart (pop ts).1 succ).2.1 },
       (pop ts).2, fanCount cfg.listeners s f) := by
  simp only [docReport, h, he, hx]
  simp

theorem docReport_closed_trip (cfg : Config) (d : Doc) (ts : List Int) (succ : Bool) (s f : Int)
    (h : d.kind = .closed)
    (he : (docOnEvent cfg.window cfg.interval d.events d.curStart (pop ts).1 succ).2.2 = some (s, f))
    (hx : (!succ && docTrips cfg s f) = true) :
    docReport cfg d ts succ =
      ({ kind := .opn, deadline := (pop (pop ts).2).1 + cfg.openW,
         events := (docOnEvent cfg.window cfg.interval d.events d.curStart (pop ts).1 succ).1,
         curStart := (docOnEvent cfg.window cfg.interval d.events d.curStart (pop ts).1 succ).2.1 },
       (pop (pop ts).2).2, fanState cfg.listeners .opn) := by
  simp only [docReport, h, he, hx]
  simp

theorem docOnEvent_count_bound (window interval : Int) (es : List DocEv) (cur t : Int) (succ : Bool) (s f : Int)
    (h : (docOnEvent window interval es cur t succ).2.2 = some (s, f)) :
    0 ≤ s ∧ 0 ≤ f ∧ s ≤ es.length ∧ f ≤ es.length := by
  unfold docOnEvent at h
  split at h
  · simp at h
  · split at h
    · simp at h
    · simp only [Option.some.injEq, Prod.mk.injEq] at h
      obtain ⟨rfl, rfl⟩ := h
      have h1 : (docKept window t es).length ≤ es.length := List.length_filter_le _ _
      have h2 : ((docKept window t es).filter (fun e => e.succ)).length ≤ (docKept window t es).length :=
        List.length_filter_le _ _
      have h3 : ((docKept window t es).filter (fun e => !e.succ)).length ≤ (docKept window t es).length :=
        List.length_filter_le _ _
      unfold docSucc docFail
      omega

/-- under the guard the code's trip test (on wrapped `int64` totals) is the documented trip rule -/
theorem exceeds_eq_docTrips (cfg : Config) (s f : Int) (h1 : -(2^63) ≤ s + f) (h2 : s + f < 2^63) :
    exceeds cfg s f = docTrips cfg s f := by
  unfold exceeds docTrips
  simp only [wrap_id h1 h2]
  by_cases h0 : s + f = 0
  · simp [h0]
  · simp [h0]

/-! ## 5. The refinement relation and the main theorem -/

/-- the code-shaped state `st` represents the documented state `d` -/
structure Rel (st : St) (d : Doc) : Prop where
  kind : st.kind = d.kind
  closed : d.kind = .closed → WinRel st.win d.events d.curStart
  timed : d.kind ≠ .closed → st.timeout = d.deadline ∧ st.dur > 0

theorem winRel_new (t : Int) (ht : InRange t) : WinRel (newWin t) [] t := by
  refine ⟨rfl, ht, ?_, ?_, ?_⟩
  · intro b hb
    simp only [newWin, List.nil_append, List.mem_singleton] at hb
    subst hb; simp
  · intro p; simp [cntS, newWin, bsumS]
  · intro p; simp [cntF, newWin, bsumF]

/-- **C06_refines_doc** (one call).  Under the no-wrap guard, from related states, every call
(`CanRequest`, `OnSuccess`, `OnFailure`) of the code-shaped model and of the documented machine returns the same
result and callback log, consumes the same ticker readings, and ends in related states
(the last two conjuncts re-establish the guard for the next call). -/
theorem C06_refines_doc (cfg : Config) (st : St) (d : Doc) (ts : List Int) (op : Op)
    (hg : NoWrap cfg ts) (hn : d.events.length < 2^62) (hr : Rel st d) :
    (stepOp cfg st ts op).2.2 = (docStep cfg d ts op).2.2 ∧
    (stepOp cfg st ts op).2.1 = (docStep cfg d ts op).2.1 ∧
    Rel (stepOp cfg st ts op).1 (docStep cfg d ts op).1 ∧
    (docStep cfg d ts op).1.events.length ≤ d.events.length + 1 ∧
    NoWrap cfg (docStep cfg d ts op).2.1 := by
  obtain ⟨hk, hcl, htm⟩ := hr
  obtain ⟨htr, hg1⟩ := hg.pop
  obtain ⟨htr2, hg2⟩ := hg1.pop
  obtain ⟨_, _, ⟨ho1, ho2⟩, ⟨ht1, ht2⟩⟩ := hg.1
  have htr2' := htr2
  unfold InRange at htr2'
  cases op with
  | can =>
    simp only [stepOp, docStep]
    by_cases hd : d.kind = .closed
    · rw [canRequest_closed _ _ _ (hk.trans hd), docCan_closed _ _ _ hd]
      exact ⟨rfl, rfl, ⟨hk, hcl, htm⟩, Nat.le_succ _, hg⟩
    · have hsk : st.kind ≠ .closed := hk ▸ hd
      obtain ⟨hto, hdur⟩ := htm hd
      by_cases hw : d.deadline ≤ (pop ts).1
      · rw [canRequest_trial _ _ _ hsk hdur (hto ▸ hw), docCan_trial _ _ _ hd hw]
        refine ⟨rfl, rfl, ⟨rfl, ?_, fun _ => ⟨wrap_id (by omega) (by omega), ht1⟩⟩, by simp, hg2⟩
        intro h; simp at h
      · rw [canRequest_wait _ _ _ hsk hdur (hto ▸ hw), docCan_wait _ _ _ hd hw]
        exact ⟨rfl, rfl, ⟨hk, hcl, htm⟩, Nat.le_succ _, hg1⟩
  | succ =>
    simp only [stepOp, docStep]
    cases hd : d.kind with
    | closed =>
      have hsk := hk.trans hd
      obtain ⟨k1, k2, k3⟩ :=
        window_refines_log cfg st.win d.events d.curStart (pop ts).1 true hg.1 htr hn (hcl hd)
      cases he' : (docOnEvent cfg.window cfg.interval d.events d.curStart (pop ts).1 true).2.2 with
      | none =>
        rw [onSuccess_closed_none _ _ _ hsk (k1.trans he'), docReport_closed_none _ _ _ _ hd he']
        exact ⟨rfl, rfl, ⟨hk, fun _ => k2, fun h => absurd hd h⟩, k3, hg1⟩
      | some sf =>
        obtain ⟨s, f⟩ := sf
        rw [onSuccess_closed_some _ _ _ s f hsk (k1.trans he'),
          docReport_closed_ok _ _ _ _ s f hd he' (by simp)]
        exact ⟨rfl, rfl, ⟨hk, fun _ => k2, fun h => absurd hd h⟩, k3, hg1⟩
    | opn =>
      have hsk := hk.trans hd
      have e1 : onSuccess cfg st ts = (st, ts, []) := by simp [onSuccess, hsk]
      have e2 : docReport cfg d ts true = (d, ts, []) := by simp [docReport, hd]
      rw [e1, e2]; exact ⟨rfl, rfl, ⟨hk, hcl, htm⟩, Nat.le_succ _, hg⟩
    | half =>
      have hsk := hk.trans hd
      have e1 : onSuccess cfg st ts =
          ({ kind := .closed, timeout := wrap64 ((pop (pop ts).2).1 + 0), dur := 0, win := newWin (pop ts).1 },
           (pop (pop ts).2).2, fanState cfg.listeners .closed) := by simp [onSuccess, hsk, newClosed]
      have e2 : docReport cfg d ts true =
          ({ d with kind := .closed, events := [], curStart := (pop ts).1 },
           (pop (pop ts).2).2, fanState cfg.listeners .closed) := by simp [docReport, hd, docCloseFresh]
      rw [e1, e2]
      refine ⟨rfl, rfl, ⟨rfl, fun _ => winRel_new _ htr, ?_⟩, by simp, hg2⟩
      intro h; simp at h
  | fail =>
    simp only [stepOp, docStep]
    cases hd : d.kind with
    | closed =>
      have hsk := hk.trans hd
      obtain ⟨k1, k2, k3⟩ :=
        window_refines_log cfg st.win d.events d.curStart (pop ts).1 false hg.1 htr hn (hcl hd)
      cases he' : (docOnEvent cfg.window cfg.interval d.events d.curStart (pop ts).1 false).2.2 with
      | none =>
        rw [onFailure_closed_none _ _ _ hsk (k1.trans he'), docReport_closed_none _ _ _ _ hd he']
        exact ⟨rfl, rfl, ⟨hk, fun _ => k2, fun h => absurd hd h⟩, k3, hg1⟩
      | some sf =>
        obtain ⟨s, f⟩ := sf
        obtain ⟨b1, b2, b3, b4⟩ := docOnEvent_count_bound _ _ _ _ _ _ s f he'
        have hx := exceeds_eq_docTrips cfg s f (by omega) (by omega)
        cases htrip : docTrips cfg s f with
        | true =>
          rw [onFailure_closed_trip _ _ _ s f hsk (k1.trans he') (hx.trans htrip),
            docReport_closed_trip _ _ _ _ s f hd he' (by simp [htrip])]
          refine ⟨rfl, rfl, ⟨rfl, ?_, fun _ => ⟨wrap_id (by omega) (by omega), ho1⟩⟩, k3, hg2⟩
          intro h; simp at h
        | false =>
          rw [onFailure_closed_ok _ _ _ s f hsk (k1.trans he') (hx.trans htrip),
            docReport_closed_ok _ _ _ _ s f hd he' (by simp [htrip])]
          exact ⟨rfl, rfl, ⟨hk, fun _ => k2, fun h => absurd hd h⟩, k3, hg1⟩
    | opn =>
      have hsk := hk.trans hd
      have e1 : onFailure cfg st ts = (st, ts, []) := by simp [onFailure, hsk]
      have e2 : docReport cfg d ts false = (d, ts, []) := by simp [docReport, hd]
      rw [e1, e2]; exact ⟨rfl, rfl, ⟨hk, hcl, htm⟩, Nat.le_succ _, hg⟩
    | half =>
      have hsk := hk.trans hd
      have htr' := htr
      unfold InRange at htr'
      have e1 : onFailure cfg st ts =
          ({ kind := .opn, timeout := wrap64 ((pop ts).1 + cfg.openW), dur := cfg.openW, win := st.win },
           (pop ts).2, fanState cfg.listeners .opn) := by simp [onFailure, hsk, newTimed]
      have e2 : docReport cfg d ts false =
          ({ d with kind := .opn, deadline := (pop ts).1 + cfg.openW },
           (pop ts).2, fanState cfg.listeners .opn) := by simp [docReport, hd]
      rw [e1, e2]
      refine ⟨rfl, rfl, ⟨rfl, ?_, fun _ => ⟨wrap_id (by omega) (by omega), ho1⟩⟩, by simp, hg1⟩
      intro h; simp at h

/-- the constructor and the documented initial state (CLOSED, empty log, `curStart` = first reading, second
reading discarded) are related, notify identically and consume the same two readings -/
theorem create_refines_doc (cfg : Config) (ts : List Int) (hg : NoWrap cfg ts) :
    (create cfg ts).2.2 = (docCreate cfg ts).2.2 ∧
    (create cfg ts).2.1 = (docCreate cfg ts).2.1 ∧
    Rel (create cfg ts).1 (docCreate cfg ts).1 ∧
    (docCreate cfg ts).1.events = [] ∧
    NoWrap cfg (docCreate cfg ts).2.1 := by
  obtain ⟨htr, hg1⟩ := hg.pop
  obtain ⟨_, hg2⟩ := hg1.pop
  have e1 : create cfg ts =
      ({ kind := .closed, timeout := wrap64 ((pop (pop ts).2).1 + 0), dur := 0, win := newWin (pop ts).1 },
       (pop (pop ts).2).2, fanState cfg.listeners .closed) := by simp [create, newClosed]
  have e2 : docCreate cfg ts =
      ({ kind := .closed, deadline := 0, events := [], curStart := (pop ts).1 },
       (pop (pop ts).2).2, fanState cfg.listeners .closed) := by simp [docCreate, docCloseFresh]
  rw [e1, e2]
  refine ⟨rfl, rfl, ⟨rfl, fun _ => winRel_new _ htr, ?_⟩, rfl, hg2⟩
  intro h; simp at h

/-- **C06_refines_doc** (runs).  From related states, every operation sequence produces the same outputs, leaves
the same readings and ends in related states. -/
theorem C06_run_refines_doc (cfg : Config) (ops : List Op) : ∀ (st : St) (d : Doc) (ts : List Int),
    NoWrap cfg ts → d.events.length + ops.length < 2^62 → Rel st d →
    (runOps cfg st ts ops).1 = (docRun cfg d ts ops).1 ∧
    (runOps cfg st ts ops).2.2 = (docRun cfg d ts ops).2.2 ∧
    Rel (runOps cfg st ts ops).2.1 (docRun cfg d ts ops).2.1 := by
  induction ops with
  | nil => intro st d ts _ _ hr; exact ⟨rfl, rfl, hr⟩
  | cons op ops ih =>
    intro st d ts hg hn hr
    simp only [List.length_cons] at hn
    obtain ⟨h1, h2, h3, h4, h5⟩ := C06_refines_doc cfg st d ts op hg (by omega) hr
    obtain ⟨i1, i2, i3⟩ := ih _ _ _ h5 (by omega) h3
    simp only [runOps, docRun]
    rw [h2, h1, i1]
    exact ⟨rfl, i2, i3⟩

/-- **C06** end to end: a breaker built by the constructor and the documented machine started in its initial
state agree on the constructor's callbacks, on the result and callback log of every call of every operation
sequence, and on the readings consumed — for every ticker trace (advancing, standing still, stepping
backwards) within the guard. -/
theorem C06_breaker_follows_doc (cfg : Config) (ts : List Int) (ops : List Op)
    (hg : NoWrap cfg ts) (hlen : ops.length < 2^62) :
    (create cfg ts).2.2 = (docCreate cfg ts).2.2 ∧
    (runOps cfg (create cfg ts).1 (create cfg ts).2.1 ops).1 =
      (docRun cfg (docCreate cfg ts).1 (docCreate cfg ts).2.1 ops).1 ∧
    (runOps cfg (create cfg ts).1 (create cfg ts).2.1 ops).2.2 =
      (docRun cfg (docCreate cfg ts).1 (docCreate cfg ts).2.1 ops).2.2 ∧
    Rel (runOps cfg (create cfg ts).1 (create cfg ts).2.1 ops).2.1
      (docRun cfg (docCreate cfg ts).1 (docCreate cfg ts).2.1 ops).2.1 := by
  obtain ⟨c1, c2, c3, c4, c5⟩ := create_refines_doc cfg ts hg
  rw [c2]
  obtain ⟨r1, r2, r3⟩ := C06_run_refines_doc cfg ops _ _ _ c5 (by rw [c4]; simpa using hlen) c3
  exact ⟨c1, r1, r2, r3⟩

end Garr.Breaker
