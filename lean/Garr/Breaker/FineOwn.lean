import Garr.Breaker.FineInv
/-!
# Full-stack window counter: who owns a bucket

`Own`: every allocated bucket is exactly one of: the current bucket; held by exactly one thread that is about to offer
it (a fresh instant bucket of a back-stepper or of a CAS loser, a fresh `nextBucket` before the CAS, or the bucket
swapped out by the CAS winner that is not yet linked); a node of the reservoir (exactly one).
-/
namespace Garr.Breaker.Fine
open Garr Garr.Conc

/-- the queue step leaves number, values and liveness of the nodes alone -/
def QSame (gq gq1 : Queue.G) : Prop := gq1.n = gq.n ∧ gq1.val = gq.val ∧ gq1.live = gq.live

theorem QSame.rfl' (gq : Queue.G) : QSame gq gq := ⟨rfl, rfl, rfl⟩

/-- a step inside `Offer(b)`: either nothing happens to the nodes and the thread still carries `b`, or `b` is linked as
the new last node and the thread no longer carries it; after the link only `tail` moves -/
theorem offer_tau_eff {tid : Tid} {gq gq1 : Queue.G} {ql ql1 : Queue.L} {o : List Queue.Obs} {b : Nat}
    (hin : InOffer b ql) (hs : Queue.step tid gq ql .tau = some (gq1, ql1, o)) :
    (offVal ql = some b ∧ offVal ql1 = some b ∧ QSame gq gq1 ∧ o.any isLpOffer = false) ∨
    (offVal ql = some b ∧ offVal ql1 = none ∧ (∃ p, gq1 = Queue.link gq p b) ∧ o.any isLpOffer = true) ∨
    (offVal ql = none ∧ ql1 = .idle ∧ QSame gq gq1 ∧ o.any isLpOffer = false) := by
  rcases hin with hv | h3
  · cases ql <;> simp [offVal] at hv <;> subst hv <;> simp only [Queue.step] at hs
    all_goals ((repeat' split at hs) <;> simp at hs <;> obtain ⟨rfl, rfl, rfl⟩ := hs <;>
      simp [offVal, QSame, isLpOffer])
    all_goals exact ⟨_, rfl⟩
  · cases ql <;> simp [isO3] at h3
    simp only [Queue.step] at hs
    simp at hs; obtain ⟨rfl, rfl, rfl⟩ := hs
    refine Or.inr (Or.inr ⟨rfl, rfl, ?_, rfl⟩)
    split <;> exact ⟨rfl, rfl, rfl⟩


/-- steps of `Iterator()` and `Next()` leave number, values and liveness of the nodes alone -/
theorem trav_tau_same {tid : Tid} {gq gq1 : Queue.G} {ql ql1 : Queue.L} {o : List Queue.Obs}
    (hL : Queue.LInv gq ql) (h : inMkIter ql = true ∨ inNext ql = true)
    (hs : Queue.step tid gq ql .tau = some (gq1, ql1, o)) : QSame gq gq1 ∧ Queue.NoAcct o := by
  rcases Queue.step_effect hL hs with ⟨v, tl, p, rfl, _⟩ | ⟨h', p, rfl, _⟩ | ⟨it, k, rfl, _⟩ | ⟨h1, h2, h3, h4⟩
  · simp [inMkIter, inNext] at h
  · simp [inMkIter, inNext] at h
  · simp [inMkIter, inNext] at h
  · exact ⟨⟨h1, h2, h3⟩, h4⟩

theorem remove_tau_eff {tid : Tid} {gq gq1 : Queue.G} {ql ql1 : Queue.L} {o : List Queue.Obs}
    (h : isR0 ql = true) (hs : Queue.step tid gq ql .tau = some (gq1, ql1, o)) :
    ∃ it k, ql = .r0 it k ∧ gq1 = Queue.kill gq k ∧ ql1 = .idleIt { it with lastRet := none } ∧
      o = [.lpRemove k (gq.live k), .ret .unit] := by
  cases ql <;> simp [isR0] at h
  rename_i it k
  simp [Queue.step] at hs
  obtain ⟨rfl, rfl, rfl⟩ := hs
  exact ⟨it, k, rfl, rfl, rfl, rfl⟩

/-! ## Ownership -/

/-- the bucket a thread holds privately and is going to offer -/
def held (l : L) : Option Nat :=
  match l.w with
  | .bsAdd _ _ b => some b
  | .rollAdd _ _ _ nw => some nw
  | .cas _ _ nw => some nw
  | .bsOffer _ | .loseOffer _ | .winOffer _ _ => offVal l.q
  | _ => none

/-- bucket `b` is (the value of) a node of the reservoir -/
def InRes (g : G) (b : Nat) : Prop := ∃ p, 1 ≤ p ∧ p < g.q.n ∧ g.q.val p = b

structure Own (g : G) (ls : Tid → L) : Prop where
  cur_lt : g.w.cur < g.w.nb
  held_lt : ∀ t b, held (ls t) = some b → b < g.w.nb ∧ b ≠ g.w.cur
  held_inj : ∀ t u b, held (ls t) = some b → held (ls u) = some b → t = u
  res_lt : ∀ p, 1 ≤ p → p < g.q.n → g.q.val p < g.w.nb ∧ g.q.val p ≠ g.w.cur ∧ ∀ t, held (ls t) ≠ some (g.q.val p)
  res_inj : ∀ p p', 1 ≤ p → p < g.q.n → 1 ≤ p' → p' < g.q.n → g.q.val p = g.q.val p' → p = p'
  cover : ∀ b, b < g.w.nb → b = g.w.cur ∨ (∃ t, held (ls t) = some b) ∨ InRes g b

/-- how a micro-step moves buckets between owners -/
inductive OwnEff : G → L → G → L → Prop
  | same {g l g' l'} : g'.w.cur = g.w.cur → g'.w.nb = g.w.nb → held l' = held l → g'.q.n = g.q.n → g'.q.val = g.q.val →
      OwnEff g l g' l'
  | alloc {g l g' l'} : g'.w.cur = g.w.cur → g'.w.nb = g.w.nb + 1 → held l = none → held l' = some g.w.nb →
      g'.q.n = g.q.n → g'.q.val = g.q.val → OwnEff g l g' l'
  | swap {g l g' l'} (nw : Nat) : g'.w.cur = nw → g'.w.nb = g.w.nb → held l = some nw → held l' = some g.w.cur →
      g'.q.n = g.q.n → g'.q.val = g.q.val → OwnEff g l g' l'
  | link {g l g' l'} (b : Nat) : g'.w.cur = g.w.cur → g'.w.nb = g.w.nb → held l = some b → held l' = none →
      g'.q.n = g.q.n + 1 → g'.q.val g.q.n = b → (∀ p, p ≠ g.q.n → g'.q.val p = g.q.val p) → OwnEff g l g' l'

theorem addTo_cur (w : W) (b : Nat) (s : Bool) : (w.addTo b s).cur = w.cur := by unfold W.addTo; split <;> rfl
theorem addTo_nb (w : W) (b : Nat) (s : Bool) : (w.addTo b s).nb = w.nb := by unfold W.addTo; split <;> rfl
theorem addTo_ts (w : W) (b : Nat) (s : Bool) : (w.addTo b s).ts = w.ts := by unfold W.addTo; split <;> rfl
theorem addTo_log (w : W) (b : Nat) (s : Bool) : (w.addTo b s).log = w.log := by unfold W.addTo; split <;> rfl
theorem addTo_snap (w : W) (b : Nat) (s : Bool) : (w.addTo b s).snap = w.snap := by unfold W.addTo; split <;> rfl
@[simp] theorem emit_cur (w : W) (t : Tid) (es : List Ev) : (w.emit t es).cur = w.cur := rfl
@[simp] theorem emit_nb (w : W) (t : Tid) (es : List Ev) : (w.emit t es).nb = w.nb := rfl
@[simp] theorem emit_ts (w : W) (t : Tid) (es : List Ev) : (w.emit t es).ts = w.ts := rfl
@[simp] theorem emit_sc (w : W) (t : Tid) (es : List Ev) : (w.emit t es).sc = w.sc := rfl
@[simp] theorem emit_fc (w : W) (t : Tid) (es : List Ev) : (w.emit t es).fc = w.fc := rfl
@[simp] theorem emit_snap (w : W) (t : Tid) (es : List Ev) : (w.emit t es).snap = w.snap := rfl
@[simp] theorem emit_log (w : W) (t : Tid) (es : List Ev) : (w.emit t es).log = w.log ++ es.map (fun e => (t, e)) := rfl

theorem offer_own {g : G} {l : L} {tid : Tid} {b : Nat} {gq1 : Queue.G} {ql1 : Queue.L} {o : List Queue.Obs} {es : List Ev}
    {pc : WPc} (hw : l.w = .bsOffer b ∨ l.w = .loseOffer b ∨ ∃ t, l.w = .winOffer t b) (hwf : Wf l)
    (hs : Queue.step tid g.q l.q .tau = some (gq1, ql1, o))
    (hpc : ql1 = .idle ∨ pc = l.w) (hh' : offVal ql1 = none → held (⟨pc, ql1⟩ : L) = none) :
    OwnEff g l ⟨g.w.emit tid es, gq1⟩ ⟨pc, ql1⟩ := by
  have hin : InOffer b l.q := by rcases hw with hw | hw | ⟨t, hw⟩ <;> simpa [Wf, hw] using hwf
  have hh : held l = offVal l.q := by rcases hw with hw | hw | ⟨t, hw⟩ <;> simp [held, hw]
  rcases offer_tau_eff hin hs with ⟨h1, h2, ⟨a, b', _⟩, _⟩ | ⟨h1, h2, ⟨p, rfl⟩, _⟩ | ⟨h1, h2, ⟨a, b', _⟩, _⟩
  · refine .same rfl rfl ?_ a b'
    rw [hh, h1]
    rcases hpc with rfl | rfl
    · simp [offVal] at h2
    · rcases hw with hw | hw | ⟨t, hw⟩ <;> simp [held, hw, h2]
  · exact .link b rfl rfl (by rw [hh, h1]) (hh' h2) rfl (by simp [Queue.link]) (fun p' hp' => by simp [Queue.link, hp'])
  · refine .same rfl rfl ?_ a b'
    rw [hh, h1]; exact hh' (by rw [h2]; rfl)

theorem eff_own {cfg : Cfg} {tid : Tid} {g g' : G} {ls : Tid → L} {l' : L} (hb : Base g ls)
    (he : Eff cfg tid g (ls tid) g' l') : OwnEff g (ls tid) g' l' := by
  have hwf := hb.wf tid
  have hL := hb.linv tid
  generalize hl : ls tid = l at he hwf hL
  cases he
  case call succ hw => exact .same rfl rfl (by simp [held, hw]) rfl rfl
  case tick succ t hw => exact .same rfl rfl (by simp [held, hw]) rfl rfl
  case ldBs succ t hw _ => exact .alloc rfl rfl (by simp [held, hw]) (by simp [held]) rfl rfl
  case ldSame succ t hw _ _ => exact .same rfl rfl (by simp [held, hw]) rfl rfl
  case ldRoll succ t hw _ _ => exact .alloc rfl rfl (by simp [held, hw]) (by simp [held]) rfl rfl
  case bsAdd succ t b hw hq =>
    exact .same (by simp [addTo_cur]) (by simp [addTo_nb]) (by simp [held, hw, offVal]) rfl rfl
  case addSame succ t b hw =>
    exact .same (by simp [addTo_cur]) (by simp [addTo_nb]) (by simp [held, hw]) rfl rfl
  case rollAdd succ t old nw hw =>
    exact .same (by simp [addTo_cur]) (by simp [addTo_nb]) (by simp [held, hw]) rfl rfl
  case casWin t old nw hw hq hc =>
    exact .swap nw rfl rfl (by simp [held, hw]) (by simp [held, offVal, hc]) rfl rfl
  case casLose t old nw hw hq hc => exact .same rfl rfl (by simp [held, hw, offVal]) rfl rfl
  case rdS r b hw => exact .same rfl rfl (by simp [held, hw]) rfl rfl
  case rdF r b hw => exact .same rfl rfl (by simp [held, hw]) rfl rfl
  case store e hw => exact .same rfl rfl (by simp [held, hw]) rfl rfl
  case headNext r it p hw hq hp => exact .same rfl rfl (by simp [held, hw]) rfl rfl
  case headExit r it hw hq hp => exact .same rfl rfl (by simp [held, hw]) rfl rfl
  case offerCont b gq1 ql1 o hw hs hne =>
    refine offer_own hw hwf hs (Or.inr rfl) (fun hn => ?_)
    rcases hw with hw | hw | ⟨t, hw⟩ <;> simp [held, hw, hn]
  case offerRet b gq1 o hw hs =>
    exact offer_own (hw.elim Or.inl (fun h => Or.inr (Or.inl h))) hwf hs (Or.inl rfl) (fun _ => rfl)
  case winRet t b gq1 o hw hs =>
    have := offer_own (es := linkedEv g b o ++ [.iterStart t gq1.n]) (pc := .mkIter t gq1.n)
      (Or.inr (Or.inr ⟨t, hw⟩)) hwf hs (Or.inl rfl) (fun _ => rfl)
    -- the queue pc after the invocation of `Iterator()` holds nothing either
    cases this with
    | same a b' c d e => exact .same a b' (by rw [← c]; simp [held]) d e
    | alloc a b' c d e f => simp [held] at d
    | swap nw a b' c d e f => simp [held] at d
    | link b a b' c d e f g => exact .link b a b' c (by simp [held]) e f g
  case mkIterCont t n0 gq1 ql1 o hw hs hni =>
    obtain ⟨⟨a, b, _⟩, _⟩ := trav_tau_same hL (Or.inl (by simpa [Wf, hw] using hwf)) hs
    exact .same rfl rfl (by simp [held, hw]) a b
  case mkIterRet t n0 gq1 it o hw hs =>
    obtain ⟨⟨a, b, _⟩, _⟩ := trav_tau_same hL (Or.inl (by simpa [Wf, hw] using hwf)) hs
    exact .same rfl rfl (by simp [held, hw]) a b
  case nextCont r gq1 ql1 o hw hs hni =>
    obtain ⟨⟨a, b, _⟩, _⟩ := trav_tau_same hL (Or.inr (by simpa [Wf, hw] using hwf)) hs
    exact .same rfl rfl (by simp [held, hw]) a b
  case nextRemove r gq1 it pos b hw hs hlt hlr =>
    obtain ⟨⟨a, b, _⟩, _⟩ := trav_tau_same hL (Or.inr (by simpa [Wf, hw] using hwf)) hs
    exact .same rfl rfl (by simp [held, hw]) a b
  case nextKeep r gq1 it pos b hw hs hlt hlr =>
    obtain ⟨⟨a, b, _⟩, _⟩ := trav_tau_same hL (Or.inr (by simpa [Wf, hw] using hwf)) hs
    exact .same rfl rfl (by simp [held, hw]) a b
  case removeRet r b gq1 it o hw hs =>
    obtain ⟨it0, k, _, rfl, _, _⟩ := remove_tau_eff (by simpa [Wf, hw] using hwf) hs
    exact .same rfl rfl (by simp [held, hw]) rfl rfl


theorem held_upd_same (ls : Tid → L) (tid : Tid) (l' : L) : held (upd ls tid l' tid) = held l' := by simp
theorem held_upd_other (ls : Tid → L) (tid : Tid) (l' : L) {u : Tid} (h : u ≠ tid) :
    held (upd ls tid l' u) = held (ls u) := by simp [upd, h]

theorem own_pres {g g' : G} {ls : Tid → L} {tid : Tid} {l' : L} (hn : 0 < g.q.n) (ho : Own g ls)
    (he : OwnEff g (ls tid) g' l') : Own g' (upd ls tid l') := by
  obtain ⟨o1, o2, o3, o4, o5, o6⟩ := ho
  cases he with
  | same a b c d e =>
    have hh : ∀ u, held (upd ls tid l' u) = held (ls u) := by
      intro u
      by_cases hu : u = tid
      · subst hu; simp [c]
      · exact held_upd_other _ _ _ hu
    refine ⟨by rw [a, b]; exact o1, ?_, ?_, ?_, ?_, ?_⟩
    · intro t x hx; rw [hh] at hx; rw [a, b]; exact o2 t x hx
    · intro t u x ht hu; rw [hh] at ht hu; exact o3 t u x ht hu
    · intro p h1 h2; rw [d] at h2; rw [e, a, b]
      obtain ⟨x, y, z⟩ := o4 p h1 h2
      exact ⟨x, y, fun t => by rw [hh]; exact z t⟩
    · intro p p' h1 h2 h3 h4; rw [d] at h2 h4; rw [e]; exact o5 p p' h1 h2 h3 h4
    · intro x hx; rw [b] at hx; rw [a]
      rcases o6 x hx with h | ⟨t, h⟩ | ⟨p, h1, h2, h3⟩
      · exact Or.inl h
      · exact Or.inr (Or.inl ⟨t, by rw [hh]; exact h⟩)
      · exact Or.inr (Or.inr ⟨p, h1, by rw [d]; exact h2, by rw [e]; exact h3⟩)
  | alloc a b c c' d e =>
    have hh : ∀ u, u ≠ tid → held (upd ls tid l' u) = held (ls u) := fun u hu => held_upd_other _ _ _ hu
    have hs : held (upd ls tid l' tid) = some g.w.nb := by simp [c']
    refine ⟨by rw [a, b]; omega, ?_, ?_, ?_, ?_, ?_⟩
    · intro t x hx
      by_cases ht : t = tid
      · subst ht; rw [hs] at hx; cases hx; rw [a, b]; exact ⟨by omega, by omega⟩
      · rw [hh t ht] at hx; rw [a, b]; have := o2 t x hx; exact ⟨by omega, this.2⟩
    · intro t u x ht hu
      by_cases h1 : t = tid <;> by_cases h2 : u = tid
      · rw [h1, h2]
      · subst h1; rw [hs] at ht; cases ht; rw [hh u h2] at hu; have := (o2 u _ hu).1; omega
      · subst h2; rw [hs] at hu; cases hu; rw [hh t h1] at ht; have := (o2 t _ ht).1; omega
      · rw [hh t h1] at ht; rw [hh u h2] at hu; exact o3 t u x ht hu
    · intro p h1 h2; rw [d] at h2; rw [e, a, b]
      obtain ⟨x, y, z⟩ := o4 p h1 h2
      refine ⟨by omega, y, fun t => ?_⟩
      by_cases ht : t = tid
      · subst ht; rw [hs]; intro hc; have := Option.some.inj hc; omega
      · rw [hh t ht]; exact z t
    · intro p p' h1 h2 h3 h4; rw [d] at h2 h4; rw [e]; exact o5 p p' h1 h2 h3 h4
    · intro x hx; rw [b] at hx; rw [a]
      by_cases hxn : x = g.w.nb
      · subst hxn; exact Or.inr (Or.inl ⟨tid, hs⟩)
      · rcases o6 x (by omega) with h | ⟨t, h⟩ | ⟨p, h1, h2, h3⟩
        · exact Or.inl h
        · have ht : t ≠ tid := by intro e; subst e; rw [c] at h; cases h
          exact Or.inr (Or.inl ⟨t, by rw [hh t ht]; exact h⟩)
        · exact Or.inr (Or.inr ⟨p, h1, by rw [d]; exact h2, by rw [e]; exact h3⟩)
  | swap nw a b c c' d e =>
    have hh : ∀ u, u ≠ tid → held (upd ls tid l' u) = held (ls u) := fun u hu => held_upd_other _ _ _ hu
    have hs : held (upd ls tid l' tid) = some g.w.cur := by simp [c']
    have hnw := o2 tid nw c
    refine ⟨by rw [a, b]; exact hnw.1, ?_, ?_, ?_, ?_, ?_⟩
    · intro t x hx
      by_cases ht : t = tid
      · subst ht; rw [hs] at hx; cases hx; rw [a, b]; exact ⟨o1, fun h => hnw.2 h.symm⟩
      · rw [hh t ht] at hx; rw [a, b]
        exact ⟨(o2 t x hx).1, fun h => ht (o3 t tid x hx (by rw [c, h]))⟩
    · intro t u x ht hu
      by_cases h1 : t = tid <;> by_cases h2 : u = tid
      · rw [h1, h2]
      · subst h1; rw [hs] at ht; cases ht; rw [hh u h2] at hu; exact absurd rfl (o2 u _ hu).2
      · subst h2; rw [hs] at hu; cases hu; rw [hh t h1] at ht; exact absurd rfl (o2 t _ ht).2
      · rw [hh t h1] at ht; rw [hh u h2] at hu; exact o3 t u x ht hu
    · intro p h1 h2; rw [d] at h2; rw [e, a, b]
      obtain ⟨x, y, z⟩ := o4 p h1 h2
      refine ⟨x, fun h => z tid (by rw [c, h]), fun t => ?_⟩
      by_cases ht : t = tid
      · subst ht; rw [hs]; intro hc; exact y (Option.some.inj hc).symm
      · rw [hh t ht]; exact z t
    · intro p p' h1 h2 h3 h4; rw [d] at h2 h4; rw [e]; exact o5 p p' h1 h2 h3 h4
    · intro x hx; rw [b] at hx; rw [a]
      rcases o6 x hx with h | ⟨t, h⟩ | ⟨p, h1, h2, h3⟩
      · exact Or.inr (Or.inl ⟨tid, by rw [hs, h]⟩)
      · by_cases ht : t = tid
        · subst ht; rw [c] at h; cases h; exact Or.inl rfl
        · exact Or.inr (Or.inl ⟨t, by rw [hh t ht]; exact h⟩)
      · exact Or.inr (Or.inr ⟨p, h1, by rw [d]; exact h2, by rw [e]; exact h3⟩)
  | link x a b c c' d e f =>
    have hh : ∀ u, u ≠ tid → held (upd ls tid l' u) = held (ls u) := fun u hu => held_upd_other _ _ _ hu
    have hs : held (upd ls tid l' tid) = none := by simp [c']
    have hx := o2 tid x c
    refine ⟨by rw [a, b]; exact o1, ?_, ?_, ?_, ?_, ?_⟩
    · intro t y hy
      by_cases ht : t = tid
      · subst ht; rw [hs] at hy; cases hy
      · rw [hh t ht] at hy; rw [a, b]; exact o2 t y hy
    · intro t u y ht hu
      by_cases h1 : t = tid
      · subst h1; rw [hs] at ht; cases ht
      · by_cases h2 : u = tid
        · subst h2; rw [hs] at hu; cases hu
        · rw [hh t h1] at ht; rw [hh u h2] at hu; exact o3 t u y ht hu
    · intro p h1 h2; rw [d] at h2; rw [a, b]
      by_cases hp : p = g.q.n
      · subst hp; rw [e]
        refine ⟨hx.1, hx.2, fun t => ?_⟩
        by_cases ht : t = tid
        · subst ht; rw [hs]; intro hc; cases hc
        · rw [hh t ht]; intro hc; exact ht (o3 t tid x hc c)
      · rw [f p hp]
        obtain ⟨x', y, z⟩ := o4 p h1 (by omega)
        refine ⟨x', y, fun t => ?_⟩
        by_cases ht : t = tid
        · subst ht; rw [hs]; intro hc; cases hc
        · rw [hh t ht]; exact z t
    · intro p p' h1 h2 h3 h4 hv; rw [d] at h2 h4
      by_cases hp : p = g.q.n <;> by_cases hp' : p' = g.q.n
      · rw [hp, hp']
      · subst hp; rw [e, f p' hp'] at hv
        exact absurd (by rw [c, hv]) ((o4 p' h3 (by omega)).2.2 tid)
      · subst hp'; rw [e, f p hp] at hv
        exact absurd (by rw [c, hv]) ((o4 p h1 (by omega)).2.2 tid)
      · rw [f p hp, f p' hp'] at hv; exact o5 p p' h1 (by omega) h3 (by omega) hv
    · intro y hy; rw [b] at hy; rw [a]
      rcases o6 y hy with h | ⟨t, h⟩ | ⟨p, h1, h2, h3⟩
      · exact Or.inl h
      · by_cases ht : t = tid
        · subst ht; rw [c] at h; cases h
          exact Or.inr (Or.inr ⟨g.q.n, hn, by rw [d]; omega, e⟩)
        · exact Or.inr (Or.inl ⟨t, by rw [hh t ht]; exact h⟩)
      · exact Or.inr (Or.inr ⟨p, h1, by rw [d]; omega, by rw [f p (by omega)]; exact h3⟩)

theorem own_init (t0 : Int) : Own ⟨initW t0, Queue.init⟩ (fun _ => ⟨.idle, .idle⟩) := by
  refine ⟨by simp [initW], ?_, ?_, ?_, ?_, ?_⟩
  · intro t b h; simp [held] at h
  · intro t u b h; simp [held] at h
  · intro p h1 h2; simp [Queue.init] at h2; omega
  · intro p p' h1 h2; simp [Queue.init] at h2; omega
  · intro b hb; simp [initW] at hb ⊢; exact Or.inl hb

/-- **Ownership** holds in every reachable configuration -/
theorem reach_own {cfg : Cfg} {t0 : Int} (c : Config (M cfg t0)) (h : Reach (M cfg t0) c) : Base c.g c.l ∧ Own c.g c.l :=
  reach_ind (cfg := cfg) (t0 := t0) Own (own_init t0)
    (fun _ _ _ _ _ hb _ ho he => own_pres hb.ginv.npos ho (eff_own hb he)) c h

end Garr.Breaker.Fine
