import Garr.Breaker.Fine
import Garr.Queue.Iter
/-!
# Full-stack window counter: projection onto the queue model
-/
namespace Garr.Breaker.Fine
open Garr Garr.Conc

/-! ## Projection onto the queue component -/

/-- perform a list of queue actions of one thread (disabled ones are skipped) -/
def qrun (tid : Tid) (x : QX) (as : List Queue.Act) : QX := as.foldl (qdo tid) x

/-- the queue observations of a step -/
def qobs (obs : List Obs) : List Queue.Obs := obs.filterMap (fun o => match o with | .q o => some o | _ => none)

/-- `x` is obtained from the queue component of `(g, l)` by queue steps of thread `tid` -/
def IsQ (tid : Tid) (g : G) (l : L) (x : QX) : Prop := ∃ as, qrun tid (g.q, l.q, []) as = x

theorem IsQ.refl (tid : Tid) (g : G) (l : L) : IsQ tid g l (g.q, l.q, []) := ⟨[], rfl⟩

theorem IsQ.app {tid : Tid} {g : G} {l : L} {x : QX} (h : IsQ tid g l x) (a : Queue.Act) : IsQ tid g l (qdo tid x a) := by
  obtain ⟨as, rfl⟩ := h
  exact ⟨as ++ [a], by simp [qrun]⟩

theorem IsQ.of_qtau {tid : Tid} {g : G} {l : L} {x : QX} (h : qtau tid g l = some x) : IsQ tid g l x := by
  refine ⟨[.tau], ?_⟩
  cases he : Queue.step tid g.q l.q .tau with
  | none => simp [qtau, he] at h
  | some r =>
    obtain ⟨g', l', o⟩ := r
    simp [qtau, he] at h
    subst h
    simp [qrun, qdo, he]

@[simp] theorem qobs_nil : qobs [] = [] := rfl
theorem qobs_append (a b : List Obs) : qobs (a ++ b) = qobs a ++ qobs b := by simp [qobs]
@[simp] theorem qobs_ev (es : List Ev) : qobs (es.map Obs.ev) = [] := by
  simp [qobs]
@[simp] theorem qobs_q (o : List Queue.Obs) : qobs (o.map Obs.q) = o := by
  induction o with
  | nil => rfl
  | cons a r ih => simp [qobs] at ih ⊢; exact ih
@[simp] theorem qobs_ret (r : Option (Nat × Nat)) : qobs [Obs.ret r] = [] := rfl
@[simp] theorem qobs_call (b : Bool) : qobs [Obs.call b] = [] := rfl

/-- the components of a step result built by `mk` -/
theorem mk_eq {tid : Tid} {w : W} {es : List Ev} {pc : WPc} {x : QX} {resp : List Obs} {g' : G} {l' : L} {obs : List Obs}
    (h : mk tid w es pc x resp = some (g', l', obs)) :
    g' = ⟨w.emit tid es, x.1⟩ ∧ l' = ⟨pc, x.2.1⟩ ∧ obs = es.map Obs.ev ++ x.2.2.map Obs.q ++ resp := by
  simp only [mk, Option.some.injEq, Prod.mk.injEq] at h
  exact ⟨h.1.symm, h.2.1.symm, h.2.2.symm⟩

def Resp (resp : List Obs) : Prop := qobs resp = []

/-- what the projection lemma says about one step result -/
def ProjOK (tid : Tid) (g : G) (l : L) (r : G × L × List Obs) : Prop := IsQ tid g l (r.1.q, r.2.1.q, qobs r.2.2)

theorem projOK_mk {tid : Tid} {g : G} {l : L} {w : W} {es : List Ev} {pc : WPc} {x : QX} {resp : List Obs} {r}
    (hx : IsQ tid g l x) (hr : qobs resp = []) (h : mk tid w es pc x resp = some r) : ProjOK tid g l r := by
  obtain ⟨g', l', obs⟩ := r
  obtain ⟨rfl, rfl, rfl⟩ := mk_eq h
  simp [ProjOK, qobs_append, hr]
  exact hx

theorem projOK_loopHead {tid : Tid} {g : G} {l : L} {w : W} {es : List Ev} {r : Tr} {x : QX} {res}
    (hx : IsQ tid g l x) (h : loopHead tid w es r x = some res) : ProjOK tid g l res := by
  unfold loopHead at h
  split at h
  · split at h
    · exact projOK_mk ((hx.app _).app _) rfl h
    · exact projOK_mk ((hx.app _).app _) rfl h
  · contradiction

theorem projOK_offerStep {tid : Tid} {g : G} {l : L} {b : Nat} {res}
    (h : offerStep tid g l b = some res) : ProjOK tid g l res := by
  unfold offerStep at h
  split at h
  · contradiction
  · rename_i x hx
    split at h
    · exact projOK_mk (IsQ.of_qtau hx) rfl h
    · exact projOK_mk (IsQ.of_qtau hx) rfl h

/-- **Projection, one step.**  The queue component of a step of the composed machine is obtained from the queue
component before it by queue steps (`Garr.Queue.step`, unchanged) of the same thread. -/
theorem step_proj {cfg : Cfg} {tid : Tid} {g : G} {l : L} {a : Act} {res}
    (h : step cfg tid g l a = some res) : ProjOK tid g l res := by
  unfold step at h
  split at h
  · split at h
    · simp at h; subst h; exact IsQ.refl tid g l
    · contradiction
  · split at h
    · simp at h; subst h; exact IsQ.refl tid g l
    · contradiction
  · split at h
    · simp only at h
      split at h
      · simp at h; subst h; exact IsQ.refl tid g l
      · split at h <;> (simp at h; subst h; exact IsQ.refl tid g l)
    · exact projOK_mk ((IsQ.refl tid g l).app _) rfl h
    · exact projOK_mk (IsQ.refl tid g l) rfl h
    · exact projOK_mk (IsQ.refl tid g l) rfl h
    · split at h
      · exact projOK_mk ((IsQ.refl tid g l).app _) rfl h
      · exact projOK_mk ((IsQ.refl tid g l).app _) rfl h
    · exact projOK_mk (IsQ.refl tid g l) rfl h
    · exact projOK_loopHead (IsQ.refl tid g l) h
    · exact projOK_mk (IsQ.refl tid g l) rfl h
    · contradiction
  · split at h
    · exact projOK_offerStep h
    · exact projOK_offerStep h
    · split at h
      · contradiction
      · rename_i x hx
        split at h
        · exact projOK_mk ((IsQ.of_qtau hx).app _) rfl h
        · exact projOK_mk (IsQ.of_qtau hx) rfl h
    · split at h
      · contradiction
      · rename_i x hx
        split at h
        · exact projOK_loopHead (IsQ.of_qtau hx) h
        · exact projOK_mk (IsQ.of_qtau hx) rfl h
    · split at h
      · contradiction
      · rename_i x hx
        split at h
        · split at h
          · split at h
            · exact projOK_mk ((IsQ.of_qtau hx).app _) rfl h
            · exact projOK_mk (IsQ.of_qtau hx) rfl h
          · exact projOK_loopHead (IsQ.of_qtau hx) h
        · exact projOK_mk (IsQ.of_qtau hx) rfl h
    · split at h
      · contradiction
      · rename_i x hx
        split at h
        · exact projOK_loopHead (IsQ.of_qtau hx) h
        · exact projOK_mk (IsQ.of_qtau hx) rfl h
    · contradiction


/-! ## Projection of configurations and runs -/

-- `M.G`/`M.L`/… are `G`/`L`/… only after unfolding `M`
set_option backward.isDefEq.respectTransparency false

/-- the queue component of a configuration of the composed machine -/
def proj {cfg : Cfg} {t0 : Int} (c : Config (M cfg t0)) : Config Queue.M := ⟨c.g.q, fun t => (c.l t).q⟩

def tagA (tid : Tid) (as : List Queue.Act) : List (Tid × Queue.M.Act) := as.map (fun a => (tid, a))
def tagO (tid : Tid) (os : List Queue.Obs) : List (Tid × Queue.M.Obs) := os.map (fun o => (tid, o))

/-- the queue observations of a log -/
def qlog {cfg : Cfg} {t0 : Int} (lg : List (Tid × (M cfg t0).Obs)) : List (Tid × Queue.M.Obs) :=
  lg.filterMap (fun e => match e.2 with | Obs.q o => some (e.1, o) | _ => none)

theorem qlog_append {cfg : Cfg} {t0 : Int} (a b : List (Tid × (M cfg t0).Obs)) :
    qlog (a ++ b) = qlog a ++ qlog b := by simp [qlog]

theorem qlog_tag {cfg : Cfg} {t0 : Int} (tid : Tid) (obs : List Obs) :
    qlog (cfg := cfg) (t0 := t0) (obs.map (fun o => (tid, o))) = tagO tid (qobs obs) := by
  induction obs with
  | nil => rfl
  | cons o r ih =>
    simp only [qlog, qobs, tagO, List.map_cons, List.filterMap_cons] at ih ⊢
    cases o <;> simp [ih]

theorem upd_upd {α : Type} (f : Tid → α) (t : Tid) (a b : α) : upd (upd f t a) t b = upd f t b := by
  funext u; simp only [upd]; split <;> rfl

theorem upd_self {α : Type} (f : Tid → α) (t : Tid) : upd f t (f t) = f := by
  funext u; simp only [upd]; split
  · rename_i h; rw [h]
  · rfl

theorem run_app {M : Machine} (c : Config M) (s1 s2 : List (Tid × M.Act)) :
    run M c (s1 ++ s2) = ((run M (run M c s1).1 s2).1, (run M c s1).2 ++ (run M (run M c s1).1 s2).2) := by
  induction s1 generalizing c with
  | nil => simp [run]
  | cons ta rest ih =>
    obtain ⟨t, a⟩ := ta
    cases h : M.step t c.g (c.l t) a with
    | none => simp only [List.cons_append, Queue.run_cons_none h]; exact ih c
    | some r =>
      obtain ⟨g', l', obs⟩ := r
      simp only [List.cons_append, Queue.run_cons_some h, ih, List.append_assoc]

/-- queue actions of one thread, executed by `qrun`, are a run of `Garr.Queue.M` -/
theorem qrun_run (tid : Tid) (as : List Queue.Act) : ∀ (gq : Queue.G) (ls : Tid → Queue.L) (o0 : List Queue.Obs),
    ∃ o', (qrun tid (gq, ls tid, o0) as).2.2 = o0 ++ o' ∧
      run Queue.M ⟨gq, ls⟩ (tagA tid as) =
        (⟨(qrun tid (gq, ls tid, o0) as).1, upd ls tid (qrun tid (gq, ls tid, o0) as).2.1⟩, tagO tid o') := by
  induction as with
  | nil =>
    intro gq ls o0
    exact ⟨[], by simp [qrun], by simp only [qrun, tagA, tagO, List.map_nil, List.foldl_nil, run, upd_self]⟩
  | cons a rest ih =>
    intro gq ls o0
    cases he : Queue.step tid gq (ls tid) a with
    | none =>
      have e1 : qdo tid (gq, ls tid, o0) a = (gq, ls tid, o0) := by simp [qdo, he]
      obtain ⟨o', h1, h2⟩ := ih gq ls o0
      refine ⟨o', ?_, ?_⟩
      · simp only [qrun, List.foldl_cons, e1]; exact h1
      · have e2 : tagA tid (a :: rest) = (tid, a) :: tagA tid rest := rfl
        rw [e2, Queue.run_cons_none (M := Queue.M) (c := ⟨gq, ls⟩) (by exact he)]
        simp only [qrun, List.foldl_cons, e1]; exact h2
    | some r =>
      obtain ⟨g1, l1, o1⟩ := r
      have e1 : qdo tid (gq, ls tid, o0) a = (g1, l1, o0 ++ o1) := by simp [qdo, he]
      obtain ⟨o', h1, h2⟩ := ih g1 (upd ls tid l1) (o0 ++ o1)
      simp only [upd_same] at h1 h2
      have e3 : qrun tid (gq, ls tid, o0) (a :: rest) = qrun tid (g1, l1, o0 ++ o1) rest := by
        simp only [qrun, List.foldl_cons, e1]
      refine ⟨o1 ++ o', ?_, ?_⟩
      · rw [e3, h1]; simp
      · have e2 : tagA tid (a :: rest) = (tid, a) :: tagA tid rest := rfl
        rw [e2, Queue.run_cons_some (M := Queue.M) (c := ⟨gq, ls⟩) (by exact he), e3, h2]
        simp [upd_upd, tagO]

theorem proj_step {cfg : Cfg} {t0 : Int} {c : Config (M cfg t0)} {tid : Tid} {a : Act} {g' : G} {l' : L} {obs : List Obs}
    (h : step cfg tid c.g (c.l tid) a = some (g', l', obs)) :
    ∃ as : List Queue.Act, run Queue.M (proj c) (tagA tid as) =
      (proj (⟨g', upd c.l tid l'⟩ : Config (M cfg t0)), tagO tid (qobs obs)) := by
  obtain ⟨as, has⟩ := step_proj h
  obtain ⟨o', h1, h2⟩ := qrun_run tid as c.g.q (fun t => (c.l t).q) []
  refine ⟨as, ?_⟩
  simp only at h1 h2 has
  rw [has] at h1 h2
  simp only [List.nil_append] at h1
  subst h1
  show run Queue.M ⟨c.g.q, fun t => (c.l t).q⟩ _ = _
  rw [h2]
  simp only [proj]
  congr 2
  funext u
  simp only [upd]; by_cases hu : u = tid <;> simp [hu]

/-- **Projection lemma.**  The projection of any run of the composed machine onto the queue component is a run of
`Garr.Queue.M` (same queue states, same queue pcs, same queue observations in the same order): every theorem of
`Garr/Queue/*.lean` about runs and reachable configurations transfers. -/
theorem proj_run {cfg : Cfg} {t0 : Int} (s : List (Tid × (M cfg t0).Act)) : ∀ (c : Config (M cfg t0)),
    ∃ s' : List (Tid × Queue.M.Act),
      run Queue.M (proj c) s' = (proj (run (M cfg t0) c s).1, qlog (run (M cfg t0) c s).2) := by
  induction s with
  | nil => intro c; exact ⟨[], rfl⟩
  | cons ta rest ih =>
    intro c
    obtain ⟨tid, a⟩ := ta
    cases he : (M cfg t0).step tid c.g (c.l tid) a with
    | none => rw [Queue.run_cons_none he]; exact ih c
    | some r =>
      obtain ⟨g', l', obs⟩ := r
      rw [Queue.run_cons_some he]
      obtain ⟨as, h1⟩ := proj_step (c := c) he
      obtain ⟨s2, h2⟩ := ih ⟨g', upd c.l tid l'⟩
      refine ⟨tagA tid as ++ s2, ?_⟩
      rw [run_app, h1]
      simp only
      rw [h2, qlog_append, qlog_tag]

theorem proj_init (cfg : Cfg) (t0 : Int) : proj (Config.init (M cfg t0)) = Config.init Queue.M := rfl

/-- the projection of a reachable configuration is a reachable configuration of the queue machine -/
theorem proj_reach {cfg : Cfg} {t0 : Int} {c : Config (M cfg t0)} (h : Reach (M cfg t0) c) : Reach Queue.M (proj c) := by
  induction h with
  | init => exact Reach.init
  | @step c tid a g' l' obs hc hs ih =>
    obtain ⟨as, h1⟩ := proj_step (c := c) hs
    have := reach_run Queue.M _ ih (tagA tid as)
    rw [h1] at this
    exact this

end Garr.Breaker.Fine
