import Garr.Breaker.FineCount
/-!
# Full-stack window counter: the guarantee of every micro-step; invariants of the traversal `trimAndSum`
-/
namespace Garr.Breaker.Fine
open Garr Garr.Conc

/-! ## What every micro-step guarantees to the other threads -/

structure Guar (g g' : G) : Prop where
  nb : g.w.nb ≤ g'.w.nb
  ts : ∀ b, b < g.w.nb → g'.w.ts b = g.w.ts b
  sel : ∀ k b, b < g.w.nb → g.w.sel k b ≤ g'.w.sel k b
  log : ∃ es, g'.w.log = g.w.log ++ es
  n : g.q.n ≤ g'.q.n
  val : ∀ p, p < g.q.n → g'.q.val p = g.q.val p
  live : ∀ p, p < g.q.n → g.q.live p = false → g'.q.live p = false

/-- the shared queue state after a micro-step: unchanged, or the result of one atomic queue step -/
theorem eff_q {cfg : Cfg} {tid : Tid} {g g' : G} {l l' : L} (he : Eff cfg tid g l g' l') :
    g'.q = g.q ∨ ∃ ql1 o, Queue.step tid g.q l.q .tau = some (g'.q, ql1, o) := by
  cases he
  case offerCont b gq1 ql1 o hw hs hne => exact Or.inr ⟨_, _, hs⟩
  case offerRet b gq1 o hw hs => exact Or.inr ⟨_, _, hs⟩
  case winRet t b gq1 o hw hs => exact Or.inr ⟨_, _, hs⟩
  case mkIterCont t n0 gq1 ql1 o hw hs hni => exact Or.inr ⟨_, _, hs⟩
  case mkIterRet t n0 gq1 it o hw hs => exact Or.inr ⟨_, _, hs⟩
  case nextCont r gq1 ql1 o hw hs hni => exact Or.inr ⟨_, _, hs⟩
  case nextRemove r gq1 it pos b hw hs hlt hlr => exact Or.inr ⟨_, _, hs⟩
  case nextKeep r gq1 it pos b hw hs hlt hlr => exact Or.inr ⟨_, _, hs⟩
  case removeRet r b gq1 it o hw hs => exact Or.inr ⟨_, _, hs⟩
  all_goals exact Or.inl rfl

theorem eff_guar {cfg : Cfg} {tid : Tid} {g g' : G} {ls : Tid → L} {l' : L} (hb : Base g ls) (ho : Own g ls)
    (hc : Cnt g ls) (he : Eff cfg tid g (ls tid) g' l') : Guar g g' := by
  have hq : g.q.n ≤ g'.q.n ∧ (∀ p, p < g.q.n → g'.q.val p = g.q.val p) ∧
      (∀ p, p < g.q.n → g.q.live p = false → g'.q.live p = false) := by
    rcases eff_q he with h | ⟨ql1, o, hs⟩
    · rw [h]; exact ⟨Nat.le_refl _, fun _ _ => rfl, fun _ _ h => h⟩
    · exact ⟨Queue.n_mono_step hs, Queue.val_stable hs, Queue.live_only_dies hb.ginv (hb.linv tid) hs⟩
  obtain ⟨q1, q2, q3⟩ := hq
  cases eff_cnt ho (hc.refs tid) he with
  | quiet es a b c d e f h =>
    exact ⟨by omega, fun x _ => by rw [b], fun k x _ => by simp [W.sel, c, d], ⟨_, e⟩, q1, q2, q3⟩
  | alloc t a h =>
    refine ⟨by rw [a]; simp [W.alloc], fun x hx => ?_, fun k x hx => ?_, ⟨[], by rw [a]; simp [W.alloc]⟩, q1, q2, q3⟩
    · have : x ≠ g.w.nb := by omega
      rw [a]; simp [W.alloc, this]
    · have : x ≠ g.w.nb := by omega
      rw [a]; cases k <;> simp [W.alloc, W.sel, this]
  | add t s b hb' a h =>
    refine ⟨by rw [a]; simp [addTo_nb], fun x _ => by rw [a]; simp [addTo_ts], fun k x _ => ?_,
      ⟨_, by rw [a]; simp [addTo_log]; rfl⟩, q1, q2, q3⟩
    have : g'.w.sel k x = (g.w.addTo b s).sel k x := by rw [a]; rfl
    rw [this, sel_addTo]; omega


/-! ## The traversal invariant -/

/-- sum of counter `k` over a list of buckets -/
def sumK (w : W) (k : Bool) (kl : List Nat) : Nat := (kl.map (w.sel k)).sum

@[simp] theorem sumK_nil (w : W) (k : Bool) : sumK w k [] = 0 := rfl
@[simp] theorem sumK_cons (w : W) (k : Bool) (b : Nat) (kl : List Nat) : sumK w k (b :: kl) = w.sel k b + sumK w k kl := by
  simp [sumK]

theorem sumK_mono {w w' : W} {k : Bool} {kl : List Nat} (h : ∀ b ∈ kl, w.sel k b ≤ w'.sel k b) :
    sumK w k kl ≤ sumK w' k kl := by
  induction kl with
  | nil => simp
  | cons b kl ih =>
    simp only [sumK_cons]
    have := h b (List.mem_cons_self ..)
    have := ih (fun x hx => h x (List.mem_cons_of_mem _ hx))
    omega

/-- what a traversal with locals `r` and queue pc `ql` has established: the kept buckets are distinct nodes of the
reservoir, inside the window, at positions the iterator has returned; every node that was there when `Iterator()` was
invoked and is still live has been kept, or is still ahead of the iterator, or is the one being removed right now -/
structure TrK (cfg : Cfg) (tid : Tid) (g : G) (r : Tr) (ql : Queue.L) : Prop where
  n0 : r.n0 ≤ g.q.n
  nodup : r.kl.Nodup
  kept : ∀ b ∈ r.kl, r.t - cfg.window ≤ g.w.ts b ∧ ∃ p, 1 ≤ p ∧ p < g.q.n ∧ g.q.val p = b ∧ Queue.Below p ql
  compl : ∀ p, 1 ≤ p → p < r.n0 → g.q.live p = true →
    g.q.val p ∈ r.kl ∨ Queue.Ahead p ql ∨ ∃ it, ql = .r0 it p
  started : (tid, Ev.iterStart r.t r.n0) ∈ g.w.log

def Sums (w : W) (r : Tr) (kS kF : List Nat) : Prop := r.s ≤ sumK w true kS ∧ r.f ≤ sumK w false kF

def TravOK (cfg : Cfg) (tid : Tid) (g : G) (l : L) : Prop :=
  match l.w with
  | .mkIter t n0 => n0 ≤ g.q.n ∧ (∀ p, 1 ≤ p → p < n0 → g.q.live p = true → Queue.Ahead p l.q) ∧
      (tid, Ev.iterStart t n0) ∈ g.w.log
  | .head r => TrK cfg tid g r l.q ∧ Sums g.w r r.kl r.kl
  | .next r => TrK cfg tid g r l.q ∧ Sums g.w r r.kl r.kl
  | .remove r b => TrK cfg tid g r l.q ∧ Sums g.w r r.kl r.kl ∧
      (∃ it k, l.q = .r0 it k ∧ g.q.val k = b ∧ 1 ≤ k) ∧ g.w.ts b < r.t - cfg.window
  | .rdS r b => TrK cfg tid g r l.q ∧ ∃ kl', r.kl = b :: kl' ∧ Sums g.w r kl' kl'
  | .rdF r b => TrK cfg tid g r l.q ∧ ∃ kl', r.kl = b :: kl' ∧ Sums g.w r r.kl kl'
  | _ => True

theorem TrK.transfer {cfg : Cfg} {tid : Tid} {g g' : G} {r : Tr} {ql ql' : Queue.L} (h : TrK cfg tid g r ql)
    (hn : g.q.n ≤ g'.q.n) (hval : ∀ p, p < g.q.n → g'.q.val p = g.q.val p)
    (hlive : ∀ p, p < g.q.n → g'.q.live p = true → g.q.live p = true)
    (hts : ∀ b ∈ r.kl, g'.w.ts b = g.w.ts b) (hlog : ∀ e ∈ g.w.log, e ∈ g'.w.log)
    (hB : ∀ x, Queue.Below x ql → Queue.Below x ql')
    (hA : ∀ p, 1 ≤ p → p < r.n0 → g'.q.live p = true → (Queue.Ahead p ql ∨ ∃ it, ql = .r0 it p) →
      g.q.val p ∈ r.kl ∨ Queue.Ahead p ql' ∨ ∃ it, ql' = .r0 it p) : TrK cfg tid g' r ql' := by
  obtain ⟨h1, h2, h3, h4, h5⟩ := h
  refine ⟨by omega, h2, ?_, ?_, hlog _ h5⟩
  · intro b hb
    obtain ⟨a, p, p1, p2, p3, p4⟩ := h3 b hb
    exact ⟨by rw [hts b hb]; exact a, p, p1, by omega, by rw [hval p p2]; exact p3, hB p p4⟩
  · intro p p1 p2 p3
    have hp : p < g.q.n := by omega
    rw [hval p hp]
    rcases h4 p p1 p2 (hlive p hp p3) with h | h | h
    · exact Or.inl h
    · exact hA p p1 p2 p3 (Or.inl h)
    · exact hA p p1 p2 p3 (Or.inr h)

theorem Sums.mono {w w' : W} {r : Tr} {kS kF : List Nat} (h : Sums w r kS kF)
    (hS : ∀ b ∈ kS, w.sel true b ≤ w'.sel true b) (hF : ∀ b ∈ kF, w.sel false b ≤ w'.sel false b) : Sums w' r kS kF :=
  ⟨Nat.le_trans h.1 (sumK_mono hS), Nat.le_trans h.2 (sumK_mono hF)⟩

/-- the buckets a traversal keeps exist -/
theorem TrK.kl_lt {cfg : Cfg} {tid : Tid} {g : G} {ls : Tid → L} {r : Tr} {ql : Queue.L} (h : TrK cfg tid g r ql)
    (ho : Own g ls) : ∀ b ∈ r.kl, b < g.w.nb := by
  intro b hb
  obtain ⟨_, p, p1, p2, p3, _⟩ := h.kept b hb
  rw [← p3]; exact (ho.res_lt p p1 p2).1

/-- the traversal invariant of a thread is stable under the micro-steps of the others -/
theorem travOK_stable {cfg : Cfg} {tid : Tid} {g g' : G} {ls : Tid → L} {l : L} (ho : Own g ls)
    (hL : Queue.LInv g.q l.q) (hg : Guar g g') (h : TravOK cfg tid g l) : TravOK cfg tid g' l := by
  obtain ⟨g1, g2, g3, ⟨es, g4⟩, g5, g6, g7⟩ := hg
  have hlog : ∀ e ∈ g.w.log, e ∈ g'.w.log := fun e he => by rw [g4]; exact List.mem_append_left _ he
  have hlive : ∀ p, p < g.q.n → g'.q.live p = true → g.q.live p = true := by
    intro p hp hl
    cases e : g.q.live p with
    | true => rfl
    | false => rw [g7 p hp e] at hl; contradiction
  have htr : ∀ {r : Tr}, TrK cfg tid g r l.q → TrK cfg tid g' r l.q := by
    intro r hk
    exact hk.transfer g5 g6 hlive (fun b hb => g2 b (hk.kl_lt ho b hb)) hlog (fun _ h => h)
      (fun p _ _ _ h => Or.inr h)
  have hsum : ∀ {r : Tr} {kS kF : List Nat}, TrK cfg tid g r l.q → (∀ b ∈ kS, b ∈ r.kl) → (∀ b ∈ kF, b ∈ r.kl) →
      Sums g.w r kS kF → Sums g'.w r kS kF := by
    intro r kS kF hk h1 h2 hs
    exact hs.mono (fun b hb => g3 true b (hk.kl_lt ho b (h1 b hb))) (fun b hb => g3 false b (hk.kl_lt ho b (h2 b hb)))
  unfold TravOK at h ⊢
  split
  · rename_i t n0 hw
    simp only [hw] at h
    obtain ⟨a, b, c⟩ := h
    exact ⟨by omega, fun p p1 p2 p3 => b p p1 p2 (hlive p (by omega) p3), hlog _ c⟩
  · rename_i r hw; simp only [hw] at h
    exact ⟨htr h.1, hsum h.1 (fun _ h => h) (fun _ h => h) h.2⟩
  · rename_i r hw; simp only [hw] at h
    exact ⟨htr h.1, hsum h.1 (fun _ h => h) (fun _ h => h) h.2⟩
  · rename_i r b hw; simp only [hw] at h
    obtain ⟨a, b', ⟨it, k, hq, e1, e2⟩, d⟩ := h
    have hk : k < g.q.n := by rw [hq] at hL; exact hL.1
    refine ⟨htr a, hsum a (fun _ h => h) (fun _ h => h) b', ⟨it, k, hq, by rw [g6 k hk]; exact e1, e2⟩, ?_⟩
    rw [g2 b (by rw [← e1]; exact (ho.res_lt k e2 hk).1)]; exact d
  · rename_i r b hw; simp only [hw] at h
    obtain ⟨a, kl', e, c⟩ := h
    exact ⟨htr a, kl', e, hsum a (fun x hx => by rw [e]; exact List.mem_cons_of_mem _ hx)
      (fun x hx => by rw [e]; exact List.mem_cons_of_mem _ hx) c⟩
  · rename_i r b hw; simp only [hw] at h
    obtain ⟨a, kl', e, c⟩ := h
    exact ⟨htr a, kl', e, hsum a (fun _ h => h) (fun x hx => by rw [e]; exact List.mem_cons_of_mem _ hx) c⟩
  · trivial


theorem TrK.congr {cfg : Cfg} {tid : Tid} {g : G} {r r' : Tr} {ql : Queue.L} (h : TrK cfg tid g r ql)
    (h1 : r'.t = r.t) (h2 : r'.n0 = r.n0) (h3 : r'.kl = r.kl) : TrK cfg tid g r' ql := by
  obtain ⟨a, b, c, d, e⟩ := h
  exact ⟨by rw [h2]; exact a, by rw [h3]; exact b, by rw [h3, h1]; exact c, by rw [h3, h2]; exact d,
    by rw [h1, h2]; exact e⟩

theorem quiet_itPos {o : Queue.Obs} (h : o.quiet = true) : o.itPos = none := by
  cases o <;> simp [Queue.Obs.quiet] at h <;> rfl

theorem filterMap_itPos_quiet {o : List Queue.Obs} (h : ∀ x ∈ o, x.quiet = true) : o.filterMap Queue.Obs.itPos = [] := by
  rw [List.filterMap_eq_nil_iff]
  exact fun x hx => quiet_itPos (h x hx)

theorem quiet_append {a b : List Queue.Obs} (ha : ∀ x ∈ a, x.quiet = true) (hb : ∀ x ∈ b, x.quiet = true) :
    ∀ x ∈ a ++ b, x.quiet = true := by
  intro x hx
  rcases List.mem_append.1 hx with h | h
  · exact ha x h
  · exact hb x h

/-- the construction of the iterator returns nothing -/
theorem mkIter_no_itPos {tid : Tid} {gq gq1 : Queue.G} {ql ql1 : Queue.L} {o : List Queue.Obs}
    (hin : inMkIter ql = true) (hs : Queue.step tid gq ql .tau = some (gq1, ql1, o)) :
    o.filterMap Queue.Obs.itPos = [] := by
  apply filterMap_itPos_quiet
  cases ql <;> try (simp [inMkIter] at hin; done)
  case k0 m => simp [Queue.step] at hs; obtain ⟨_, _, rfl⟩ := hs; simp
  case k1 m h p =>
    simp only [Queue.step] at hs
    split at hs
    · simp at hs; obtain ⟨_, _, rfl⟩ := hs
      exact quiet_append (Queue.foundLive_quiet _ _ _) (Queue.goUpd_quiet _ _ _)
    · simp at hs; obtain ⟨_, _, rfl⟩ := hs; simp
  case k2 m h p =>
    simp only [Queue.step] at hs
    split at hs
    · simp at hs; obtain ⟨_, _, rfl⟩ := hs
      exact quiet_append (Queue.foundNone_quiet _) (Queue.goUpd_quiet _ _ _)
    · split at hs <;> (simp at hs; obtain ⟨_, _, rfl⟩ := hs; simp)
  case u1 h tgt k =>
    simp only [Queue.step] at hs
    split at hs
    · simp at hs; obtain ⟨_, _, rfl⟩ := hs; simp
    · simp at hs; obtain ⟨_, _, rfl⟩ := hs; exact Queue.finish_quiet _
  case u2 h k =>
    simp [Queue.step] at hs; obtain ⟨_, _, rfl⟩ := hs; exact Queue.finish_quiet _

/-- a step that emits `itNext` is the return of `Next()` -/
theorem itNext_is_ret {tid : Tid} {gq gq1 : Queue.G} {ql ql1 : Queue.L} {o : List Queue.Obs} {pos v : Nat}
    (hG : Queue.GInv gq) (hL : Queue.LInv gq ql) (hI : Queue.IterInv gq ql)
    (hs : Queue.step tid gq ql .tau = some (gq1, ql1, o)) (hm : Queue.Obs.itNext pos v ∈ o) : isIdleIt ql1 = true := by
  obtain ⟨_, _, it, it', _, h, _⟩ := Queue.itNext_step hG hL hI hs hm
  rw [h]; rfl

theorem mem_itPos {o : List Queue.Obs} {k : Nat} (h : k ∈ o.filterMap Queue.Obs.itPos) : ∃ v, Queue.Obs.itNext k v ∈ o := by
  obtain ⟨x, hx, e⟩ := List.mem_filterMap.1 h
  cases x <;> simp [Queue.Obs.itPos] at e
  subst e; exact ⟨_, hx⟩


theorem live_of_same {gq gq1 : Queue.G} (h : QSame gq gq1) (p : Nat) : gq1.live p = gq.live p := by rw [h.2.2]

/-- the traversal invariant of the acting thread -/
theorem travOK_eff {cfg : Cfg} {tid : Tid} {g g' : G} {ls : Tid → L} {l' : L} (hb : Base g ls) (ho : Own g ls)
    (h : TravOK cfg tid g (ls tid)) (he : Eff cfg tid g (ls tid) g' l') : TravOK cfg tid g' l' := by
  have hwf := hb.wf tid
  have hG := hb.ginv
  have hL := hb.linv tid
  have hI := hb.iinv tid
  generalize hl : ls tid = l at he hwf hL hI h
  cases he
  case call succ hw => simp [TravOK]
  case tick succ t hw => simp [TravOK]
  case ldBs succ t hw _ => simp [TravOK]
  case ldSame succ t hw _ _ => simp [TravOK]
  case ldRoll succ t hw _ _ => simp [TravOK]
  case bsAdd succ t b hw hq => simp [TravOK]
  case addSame succ t b hw => simp [TravOK]
  case rollAdd succ t old nw hw => simp [TravOK]
  case casWin t old nw hw hq hc => simp [TravOK]
  case casLose t old nw hw hq hc => simp [TravOK]
  case store e hw => simp [TravOK]
  case headExit r it hw hq hp => simp [TravOK]
  case offerRet b gq1 o hw hs => simp [TravOK]
  case offerCont b gq1 ql1 o hw hs hne =>
    rcases hw with hw | hw | ⟨t, hw⟩ <;> simp [TravOK, hw]
  case winRet t b gq1 o hw hs =>
    simp only [TravOK]
    exact ⟨Nat.le_refl _, fun _ _ _ _ => trivial, by simp⟩
  case mkIterCont t n0 gq1 ql1 o hw hs hni =>
    have hin : inMkIter l.q = true := by simpa [Wf, hw] using hwf
    obtain ⟨hsame, _⟩ := trav_tau_same hL (Or.inl hin) hs
    simp only [TravOK, hw] at h ⊢
    obtain ⟨a, b, c⟩ := h
    refine ⟨by rw [hsame.1]; exact a, fun p p1 p2 p3 => ?_, c⟩
    rw [live_of_same hsame] at p3
    rcases Queue.ahead_step hG hL hI hs (by omega) p3 (b p p1 p2 p3) with h | h
    · rw [mkIter_no_itPos hin hs] at h; cases h
    · exact h
  case mkIterRet t n0 gq1 it o hw hs =>
    have hin : inMkIter l.q = true := by simpa [Wf, hw] using hwf
    obtain ⟨hsame, _⟩ := trav_tau_same hL (Or.inl hin) hs
    simp only [TravOK, hw] at h ⊢
    obtain ⟨a, b, c⟩ := h
    refine ⟨⟨by rw [hsame.1]; exact a, List.nodup_nil, fun _ hb => (by cases hb), fun p p1 p2 p3 => ?_, c⟩, by simp [Sums]⟩
    have p2 : p < n0 := p2
    rw [live_of_same hsame] at p3
    rcases Queue.ahead_step hG hL hI hs (by omega) p3 (b p p1 p2 p3) with h | h
    · rw [mkIter_no_itPos hin hs] at h; cases h
    · exact Or.inr (Or.inl h)
  case headNext r it p hw hq hp =>
    simp only [TravOK, hw] at h ⊢
    refine ⟨h.1.transfer (Nat.le_refl _) (fun _ _ => rfl) (fun _ _ h => h) (fun _ _ => rfl) (fun _ h => h) ?_ ?_, h.2⟩
    · intro x hx; rw [hq] at hx; exact hx
    · intro k _ _ _ hk
      rw [hq] at hk
      rcases hk with hk | ⟨it', hk⟩
      · exact Or.inr (Or.inl hk)
      · cases hk
  case nextCont r gq1 ql1 o hw hs hni =>
    have hin : inNext l.q = true := by simpa [Wf, hw] using hwf
    obtain ⟨hsame, _⟩ := trav_tau_same hL (Or.inr hin) hs
    have hno : ∀ pos v, Queue.Obs.itNext pos v ∉ o := fun pos v hm => by
      have := itNext_is_ret hG hL hI hs hm; rw [hni] at this; contradiction
    simp only [TravOK, hw] at h ⊢
    refine ⟨h.1.transfer (by rw [hsame.1]; exact Nat.le_refl _) (fun _ _ => by rw [hsame.2.1])
      (fun p _ h => by rw [← live_of_same hsame]; exact h) (fun _ _ => rfl) (fun _ h => h) ?_ ?_, h.2⟩
    · intro x hx; exact Queue.below_step hs (by simp) hno hx
    · intro k k1 k2 k3 hk
      rw [live_of_same hsame] at k3
      rcases hk with hk | ⟨it', hk⟩
      · rcases Queue.ahead_step hG hL hI hs (by have := h.1.n0; omega) k3 hk with h' | h'
        · obtain ⟨v, hv⟩ := mem_itPos h'; exact absurd hv (hno _ _)
        · exact Or.inr (Or.inl h')
      · rw [hk] at hin; simp [inNext] at hin
  case nextRemove r gq1 it pos b hw hs hlt hlr =>
    have hin : inNext l.q = true := by simpa [Wf, hw] using hwf
    obtain ⟨hsame, _⟩ := trav_tau_same hL (Or.inr hin) hs
    obtain ⟨_, _, it0, it', hio, hl', _, _, hpos0, hposn, hbv, hprev, hprev', _, _, _⟩ :=
      Queue.itNext_step hG hL hI hs (List.mem_cons_self ..)
    cases hl'
    simp only [TravOK, hw] at h ⊢
    refine ⟨h.1.transfer (by rw [hsame.1]; exact Nat.le_refl _) (fun _ _ => by rw [hsame.2.1])
      (fun p _ h => by rw [← live_of_same hsame]; exact h) (fun _ _ => rfl) (fun _ h => h) ?_ ?_, h.2,
      ⟨_, _, rfl, by rw [hsame.2.1]; exact hbv.symm, hpos0⟩, hlt⟩
    · intro x hx
      obtain ⟨r', hr1, hr2⟩ := Queue.Below_iterOf hio hx
      exact ⟨pos, hprev', by have := hprev r' hr1; omega⟩
    · intro k k1 k2 k3 hk
      rw [live_of_same hsame] at k3
      rcases hk with hk | ⟨it', hk⟩
      · rcases Queue.ahead_step hG hL hI hs (by have := h.1.n0; omega) k3 hk with h' | h'
        · simp [Queue.Obs.itPos] at h'; subst h'; exact Or.inr (Or.inr ⟨_, rfl⟩)
        · exact Or.inr (Or.inl h')
      · rw [hk] at hin; simp [inNext] at hin
  case nextKeep r gq1 it pos b hw hs hlt hlr =>
    have hin : inNext l.q = true := by simpa [Wf, hw] using hwf
    obtain ⟨hsame, _⟩ := trav_tau_same hL (Or.inr hin) hs
    obtain ⟨_, _, it0, it', hio, hl', _, _, hpos0, hposn, hbv, hprev, hprev', _, _, _⟩ :=
      Queue.itNext_step hG hL hI hs (List.mem_cons_self ..)
    cases hl'
    simp only [TravOK, hw] at h ⊢
    obtain ⟨⟨k1, k2, k3, k4, k5⟩, hsum⟩ := h
    have hlt' : ∀ x, Queue.Below x l.q → x < pos := by
      intro x hx
      obtain ⟨r', hr1, hr2⟩ := Queue.Below_iterOf hio hx
      have := hprev r' hr1; omega
    refine ⟨⟨by rw [hsame.1]; exact k1, ?_, ?_, ?_, k5⟩, r.kl, rfl, hsum⟩
    · -- the new bucket is not among the kept ones: those sit at positions before `pos`
      refine List.nodup_cons.2 ⟨fun hmem => ?_, k2⟩
      obtain ⟨_, p, p1, p2, p3, p4⟩ := k3 b hmem
      have := ho.res_inj p pos p1 p2 hpos0 hposn (by rw [p3, hbv])
      have := hlt' p p4; omega
    · intro x hx
      rcases List.mem_cons.1 hx with rfl | hx
      · exact ⟨by simp only; omega, pos, hpos0, by rw [hsame.1]; exact hposn, by rw [hsame.2.1]; exact hbv.symm,
          ⟨pos, hprev', Nat.le_refl _⟩⟩
      · obtain ⟨a, p, p1, p2, p3, p4⟩ := k3 x hx
        exact ⟨a, p, p1, by rw [hsame.1]; exact p2, by rw [hsame.2.1]; exact p3, ⟨pos, hprev', by have := hlt' p p4; omega⟩⟩
    · intro k kk1 kk2 kk3
      have kk2 : k < r.n0 := kk2
      rw [live_of_same hsame] at kk3
      rw [hsame.2.1]
      rcases k4 k kk1 kk2 kk3 with hk | hk | ⟨it', hk⟩
      · exact Or.inl (List.mem_cons_of_mem _ hk)
      · rcases Queue.ahead_step hG hL hI hs (by omega) kk3 hk with h' | h'
        · simp [Queue.Obs.itPos] at h'; subst h'; rw [← hbv]; exact Or.inl (List.mem_cons_self ..)
        · exact Or.inr (Or.inl h')
      · rw [hk] at hin; simp [inNext] at hin
  case removeRet r b gq1 it o hw hs =>
    obtain ⟨it0, k, hq, rfl, hq1, _⟩ := remove_tau_eff (by simpa [Wf, hw] using hwf) hs
    cases hq1
    simp only [TravOK, hw] at h ⊢
    obtain ⟨hk, hsum, _, _⟩ := h
    refine ⟨hk.transfer (Nat.le_refl _) (fun _ _ => rfl) ?_ (fun _ _ => rfl)
      (fun e he => by simp only [emit_log]; exact List.mem_append_left _ he) ?_ ?_, hsum⟩
    · intro p _ hp
      simp only [Queue.kill] at hp
      split at hp
      · contradiction
      · exact hp
    · intro x hx; rw [hq] at hx; exact hx
    · intro p _ _ p3 hp
      rw [hq] at hp
      rcases hp with hp | ⟨it', hp⟩
      · exact Or.inr (Or.inl hp)
      · cases hp
        simp [Queue.kill] at p3
  case rdS r b hw =>
    simp only [TravOK, hw] at h ⊢
    obtain ⟨hk, kl', e, hs1, hs2⟩ := h
    refine ⟨(hk.transfer (g' := ⟨g.w.emit tid [Ev.cntS b (g.w.sc b)], g.q⟩) (Nat.le_refl _) (fun _ _ => rfl) (fun _ _ h => h) (fun _ _ => rfl)
      (fun e he => by simp only [emit_log]; exact List.mem_append_left _ he) (fun _ h => h) (fun _ _ _ _ h => Or.inr h)).congr
        rfl rfl rfl, kl', e, ?_, hs2⟩
    show r.s + g.w.sc b ≤ sumK _ true r.kl
    rw [e, sumK_cons]
    have : (g.w.emit tid [Ev.cntS b (g.w.sc b)]).sel true b = g.w.sc b := rfl
    have : sumK (g.w.emit tid [Ev.cntS b (g.w.sc b)]) true kl' = sumK g.w true kl' := rfl
    omega
  case rdF r b hw =>
    simp only [TravOK, hw] at h ⊢
    obtain ⟨hk, kl', e, hs1, hs2⟩ := h
    refine ⟨(hk.transfer (g' := ⟨g.w.emit tid [Ev.cntF b (g.w.fc b)], g.q⟩) (Nat.le_refl _) (fun _ _ => rfl) (fun _ _ h => h) (fun _ _ => rfl)
      (fun e he => by simp only [emit_log]; exact List.mem_append_left _ he) (fun _ h => h) (fun _ _ _ _ h => Or.inr h)).congr
        rfl rfl rfl, hs1, ?_⟩
    show r.f + g.w.fc b ≤ sumK _ false r.kl
    rw [e, sumK_cons]
    have : (g.w.emit tid [Ev.cntF b (g.w.fc b)]).sel false b = g.w.fc b := rfl
    have : sumK (g.w.emit tid [Ev.cntF b (g.w.fc b)]) false kl' = sumK g.w false kl' := rfl
    omega

end Garr.Breaker.Fine
