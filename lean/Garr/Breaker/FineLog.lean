import Garr.Breaker.FineTrav
/-!
# Full-stack window counter: invariants of the ghost log
-/
namespace Garr.Breaker.Fine
open Garr Garr.Conc

/-- events that matter only for the counting invariant -/
def Ev.inert : Ev → Bool | .added .. => true | .lost _ => true | _ => false

/-- how a micro-step extends the log and changes the nodes of the reservoir -/
inductive LEff (cfg : Cfg) (tid : Tid) : G → L → G → L → Prop
  | quiet {g l g' l'} (es : List Ev) : g'.w.log = g.w.log ++ tagE tid es → (∀ e ∈ es, e.inert = true) →
      QSame g.q g'.q → LEff cfg tid g l g' l'
  | swap {g l g' l'} (t : Int) (old nw : Nat) : l.w = .cas t old nw → g.w.cur = old →
      g'.w.log = g.w.log ++ [(tid, .swapped old nw)] → g'.q = g.q → l' = ⟨.winOffer t old, .o0 old⟩ →
      LEff cfg tid g l g' l'
  | link {g l g' l'} (b : Nat) (es' : List Ev) : held l = some b →
      g'.w.log = g.w.log ++ tagE tid (.linked b g.q.n :: es') →
      (es' = [] ∨ ∃ t, es' = [.iterStart t (g.q.n + 1)] ∧ l'.w = .mkIter t (g.q.n + 1)) →
      g'.q.n = g.q.n + 1 → g'.q.val g.q.n = b → (∀ p, p ≠ g.q.n → g'.q.val p = g.q.val p) →
      g'.q.live g.q.n = true → (∀ p, p ≠ g.q.n → g'.q.live p = g.q.live p) → LEff cfg tid g l g' l'
  | start {g l g' l'} (t : Int) : g'.w.log = g.w.log ++ [(tid, .iterStart t g.q.n)] → QSame g.q g'.q →
      l'.w = .mkIter t g.q.n → LEff cfg tid g l g' l'
  | cntS {g l g' l'} (r : Tr) (b : Nat) : l.w = .rdS r b → g'.w.log = g.w.log ++ [(tid, .cntS b (g.w.sc b))] →
      g'.q = g.q → LEff cfg tid g l g' l'
  | cntF {g l g' l'} (r : Tr) (b : Nat) : l.w = .rdF r b → g'.w.log = g.w.log ++ [(tid, .cntF b (g.w.fc b))] →
      g'.q = g.q → LEff cfg tid g l g' l'
  | kill {g l g' l'} (r : Tr) (b : Nat) (it : Queue.Iter) (k : Nat) : l.w = .remove r b → l.q = .r0 it k →
      g'.q = Queue.kill g.q k →
      g'.w.log = g.w.log ++ (if g.q.live k then [(tid, .removed b (r.t - cfg.window))] else []) →
      LEff cfg tid g l g' l'
  | roll {g l g' l'} (r : Tr) (it : Queue.Iter) : l.w = .head r → l.q = .idleIt it → it.nextNode = none →
      g'.w.log = g.w.log ++ [(tid, .rolled r.t r.s r.f r.n0 r.kl)] → g'.q = g.q → LEff cfg tid g l g' l'

theorem offer_leff {cfg : Cfg} {g : G} {l : L} {tid : Tid} {b : Nat} {gq1 : Queue.G} {ql1 : Queue.L} {o : List Queue.Obs}
    {l' : L} (hw : l.w = .bsOffer b ∨ l.w = .loseOffer b ∨ ∃ t, l.w = .winOffer t b) (hwf : Wf l)
    (hs : Queue.step tid g.q l.q .tau = some (gq1, ql1, o)) :
    LEff cfg tid g l ⟨g.w.emit tid (linkedEv g b o), gq1⟩ l' := by
  have hin : InOffer b l.q := by rcases hw with hw | hw | ⟨t, hw⟩ <;> simpa [Wf, hw] using hwf
  have hh : held l = offVal l.q := by rcases hw with hw | hw | ⟨t, hw⟩ <;> simp [held, hw]
  rcases offer_tau_eff hin hs with ⟨h1, h2, h3, h4⟩ | ⟨h1, h2, ⟨p, rfl⟩, h4⟩ | ⟨h1, h2, h3, h4⟩
  · exact .quiet [] (by simp [linkedEv, h4]) (by simp) h3
  · exact .link b [] (by rw [hh, h1]) (by simp [linkedEv, h4]) (Or.inl rfl) rfl (by simp [Queue.link])
      (fun p' hp' => by simp [Queue.link, hp']) (by simp [Queue.link]) (fun p' hp' => by simp [Queue.link, hp'])
  · exact .quiet [] (by simp [linkedEv, h4]) (by simp) h3

theorem eff_leff {cfg : Cfg} {tid : Tid} {g g' : G} {ls : Tid → L} {l' : L} (hb : Base g ls)
    (he : Eff cfg tid g (ls tid) g' l') : LEff cfg tid g (ls tid) g' l' := by
  have hwf := hb.wf tid
  have hL := hb.linv tid
  generalize hl : ls tid = l at he hwf hL
  cases he
  case call succ hw => exact .quiet [] (by simp) (by simp) (QSame.rfl' _)
  case tick succ t hw => exact .quiet [] (by simp) (by simp) (QSame.rfl' _)
  case ldBs succ t hw _ => exact .quiet [] (by simp [W.alloc]) (by simp) (QSame.rfl' _)
  case ldSame succ t hw _ _ => exact .quiet [] (by simp) (by simp) (QSame.rfl' _)
  case ldRoll succ t hw _ _ => exact .quiet [] (by simp [W.alloc]) (by simp) (QSame.rfl' _)
  case bsAdd succ t b hw hq => exact .quiet [_] (by simp [addTo_log]; rfl) (by simp [Ev.inert]) (QSame.rfl' _)
  case addSame succ t b hw => exact .quiet [_] (by simp [addTo_log]; rfl) (by simp [Ev.inert]) (QSame.rfl' _)
  case rollAdd succ t old nw hw => exact .quiet [_] (by simp [addTo_log]; rfl) (by simp [Ev.inert]) (QSame.rfl' _)
  case casWin t old nw hw hq hc => exact .swap t old nw hw hc rfl rfl rfl
  case casLose t old nw hw hq hc => exact .quiet [.lost nw] rfl (by simp [Ev.inert]) (QSame.rfl' _)
  case rdS r b hw => exact .cntS r b hw rfl rfl
  case rdF r b hw => exact .cntF r b hw rfl rfl
  case store e hw => exact .quiet [] (by simp) (by simp) (QSame.rfl' _)
  case headNext r it p hw hq hp => exact .quiet [] (by simp) (by simp) (QSame.rfl' _)
  case headExit r it hw hq hp => exact .roll r it hw hq hp rfl rfl
  case offerCont b gq1 ql1 o hw hs hne => exact offer_leff hw hwf hs
  case offerRet b gq1 o hw hs => exact offer_leff (hw.elim Or.inl (fun h => Or.inr (Or.inl h))) hwf hs
  case winRet t b gq1 o hw hs =>
    have hin : InOffer b l.q := by simpa [Wf, hw] using hwf
    have hh : held l = offVal l.q := by simp [held, hw]
    rcases offer_tau_eff hin hs with ⟨h1, h2, h3, h4⟩ | ⟨h1, h2, ⟨p, rfl⟩, h4⟩ | ⟨h1, h2, h3, h4⟩
    · simp [offVal] at h2
    · exact .link b [.iterStart t (g.q.n + 1)] (by rw [hh, h1]) (by simp [linkedEv, h4, Queue.link])
        (Or.inr ⟨t, rfl, rfl⟩) rfl (by simp [Queue.link])
        (fun p' hp' => by simp [Queue.link, hp']) (by simp [Queue.link]) (fun p' hp' => by simp [Queue.link, hp'])
    · exact .start t (by simp [linkedEv, h4, h3.1]) h3 (by simp [h3.1])
  case mkIterCont t n0 gq1 ql1 o hw hs hni =>
    exact .quiet [] (by simp) (by simp) (trav_tau_same hL (Or.inl (by simpa [Wf, hw] using hwf)) hs).1
  case mkIterRet t n0 gq1 it o hw hs =>
    exact .quiet [] (by simp) (by simp) (trav_tau_same hL (Or.inl (by simpa [Wf, hw] using hwf)) hs).1
  case nextCont r gq1 ql1 o hw hs hni =>
    exact .quiet [] (by simp) (by simp) (trav_tau_same hL (Or.inr (by simpa [Wf, hw] using hwf)) hs).1
  case nextRemove r gq1 it pos b hw hs hlt hlr =>
    exact .quiet [] (by simp) (by simp) (trav_tau_same hL (Or.inr (by simpa [Wf, hw] using hwf)) hs).1
  case nextKeep r gq1 it pos b hw hs hlt hlr =>
    exact .quiet [] (by simp) (by simp) (trav_tau_same hL (Or.inr (by simpa [Wf, hw] using hwf)) hs).1
  case removeRet r b gq1 it o hw hs =>
    obtain ⟨it0, k, hq, rfl, _, rfl⟩ := remove_tau_eff (by simpa [Wf, hw] using hwf) hs
    refine .kill r b it0 k hw hq rfl ?_
    cases hlive : g.q.live k <;> simp [isLpRemoveLive]


/-! ## Invariants over all splits of a log -/

/-- `P pre e` holds for every entry `e` of the log, `pre` being the log before it -/
def SplitInv {α : Type} (P : List α → α → Prop) (lg : List α) : Prop := ∀ pre e post, lg = pre ++ e :: post → P pre e

theorem SplitInv.nil {α : Type} (P : List α → α → Prop) : SplitInv P [] := by
  intro pre e post h; simp at h

theorem split_snoc {α : Type} {lg es pre post : List α} {e : α} (h : lg ++ es = pre ++ e :: post) :
    (∃ post0, lg = pre ++ e :: post0 ∧ post = post0 ++ es) ∨ (∃ pre1, pre = lg ++ pre1 ∧ es = pre1 ++ e :: post) := by
  rcases List.append_eq_append_iff.1 h with ⟨a', h1, h2⟩ | ⟨c', h1, h2⟩
  · exact Or.inr ⟨a', h1, h2⟩
  · cases c' with
    | nil => simp at h1 h2; exact Or.inr ⟨[], by simp [h1], h2.symm⟩
    | cons x c'' =>
      simp at h2
      obtain ⟨rfl, rfl⟩ := h2
      exact Or.inl ⟨c'', h1, rfl⟩

theorem SplitInv.append {α : Type} {P : List α → α → Prop} {lg es : List α} (h : SplitInv P lg)
    (h2 : ∀ pre1 e post1, es = pre1 ++ e :: post1 → P (lg ++ pre1) e) : SplitInv P (lg ++ es) := by
  intro pre e post he
  rcases split_snoc he with ⟨post0, h3, _⟩ | ⟨pre1, h3, h4⟩
  · exact h pre e post0 h3
  · rw [h3]; exact h2 pre1 e post h4

theorem SplitInv.append_one {α : Type} {P : List α → α → Prop} {lg : List α} {e : α} (h : SplitInv P lg)
    (h2 : P lg e) : SplitInv P (lg ++ [e]) := by
  apply h.append
  intro pre1 e' post1 he
  cases pre1 with
  | nil => simp at he; rw [he.1] at h2; simpa using h2
  | cons x r => simp at he

theorem SplitInv.append_all {α : Type} {P : List α → α → Prop} {lg es : List α} (h : SplitInv P lg)
    (h2 : ∀ pre e, e ∈ es → P pre e) : SplitInv P (lg ++ es) := by
  apply h.append
  intro pre1 e post1 he
  exact h2 _ e (by rw [he]; simp)

/-! ## The log invariants -/

def linkPos : Tid × Ev → Option Nat
  | (_, .linked _ pos) => some pos
  | _ => none

/-- the `linked` entries of the log are exactly the nodes of the reservoir (position 0 is the dummy) -/
structure LinkLog (g : G) : Prop where
  sound : ∀ u b pos, (u, Ev.linked b pos) ∈ g.w.log → 1 ≤ pos ∧ pos < g.q.n ∧ g.q.val pos = b
  compl : ∀ pos, 1 ≤ pos → pos < g.q.n → ∃ u, (u, Ev.linked (g.q.val pos) pos) ∈ g.w.log
  uniq : (g.w.log.filterMap linkPos).Nodup

/-- the dead nodes of the reservoir are exactly the buckets removed as expired -/
structure DeadLog (g : G) : Prop where
  dead : ∀ p, 1 ≤ p → p < g.q.n → g.q.live p = false → ∃ u lim, (u, Ev.removed (g.q.val p) lim) ∈ g.w.log
  removed : ∀ u b lim, (u, Ev.removed b lim) ∈ g.w.log →
    g.w.ts b < lim ∧ ∃ p, 1 ≤ p ∧ p < g.q.n ∧ g.q.val p = b ∧ g.q.live p = false

/-- sum over a list of buckets of the logged adds of kind `k` -/
def sumAdds (k : Bool) (kl : List Nat) (lg : List (Tid × Ev)) : Nat := (kl.map (fun b => cntAddsTo k b lg)).sum

/-- what holds of a `rolled` entry with respect to the log before it -/
structure RollOK (cfg : Cfg) (pre : List (Tid × Ev)) (tid : Tid) (t : Int) (s f n0 : Nat) (kl : List Nat) : Prop where
  upperS : s ≤ cntAdds true (t - cfg.window) pre
  upperF : f ≤ cntAdds false (t - cfg.window) pre
  tightS : s ≤ sumAdds true kl pre
  tightF : f ≤ sumAdds false kl pre
  nodup : kl.Nodup
  linked : ∀ b ∈ kl, ∃ u pos, (u, Ev.linked b pos) ∈ pre
  compl : ∀ u b pos, (u, Ev.linked b pos) ∈ pre → pos < n0 → (∀ u' lim, (u', Ev.removed b lim) ∉ pre) → b ∈ kl
  started : (tid, Ev.iterStart t n0) ∈ pre

/-- what holds of a `cntS`/`cntF` entry: an atomic read of the counter of a bucket that is in the reservoir -/
def CntOK (pre : List (Tid × Ev)) (k : Bool) (b n : Nat) : Prop :=
  n = cntAddsTo k b pre ∧ ∃ u pos, (u, Ev.linked b pos) ∈ pre

def EntryOK (cfg : Cfg) (pre : List (Tid × Ev)) (e : Tid × Ev) : Prop :=
  match e.2 with
  | .rolled t s f n0 kl => RollOK cfg pre e.1 t s f n0 kl
  | .cntS b n => CntOK pre true b n
  | .cntF b n => CntOK pre false b n
  | .iterStart _ n0 => ∀ u b pos, (u, Ev.linked b pos) ∈ pre → pos < n0
  | .swapped old _ => ∀ u pos, (u, Ev.linked old pos) ∉ pre
  | _ => True

structure LogInv (cfg : Cfg) (g : G) : Prop where
  link : LinkLog g
  dead : DeadLog g
  entries : SplitInv (EntryOK cfg) g.w.log

theorem entryOK_inert {cfg : Cfg} {pre : List (Tid × Ev)} {tid : Tid} {e : Ev} (h : e.inert = true) :
    EntryOK cfg pre (tid, e) := by
  cases e <;> simp [Ev.inert] at h <;> trivial

theorem linkPos_inert {tid : Tid} {es : List Ev} (h : ∀ e ∈ es, e.inert = true) : (tagE tid es).filterMap linkPos = [] := by
  rw [List.filterMap_eq_nil_iff]
  intro x hx
  simp only [tagE, List.mem_map] at hx
  obtain ⟨e, he, rfl⟩ := hx
  have := h e he
  cases e <;> simp [Ev.inert] at this <;> rfl

theorem mem_tagE_inert {tid u : Tid} {es : List Ev} {e : Ev} (h : ∀ e ∈ es, e.inert = true) (hm : (u, e) ∈ tagE tid es) :
    e.inert = true := by
  simp only [tagE, List.mem_map] at hm
  obtain ⟨e', he', heq⟩ := hm
  cases heq; exact h e he'


/-! ## Sums over kept buckets -/

theorem sumK_filter_ne (w : W) (k : Bool) (x : Nat) : ∀ (kl : List Nat), kl.Nodup →
    sumK w k kl = sumK w k (kl.filter (· != x)) + (if x ∈ kl then w.sel k x else 0) := by
  intro kl
  induction kl with
  | nil => intro _; simp
  | cons b kl ih =>
    intro hnd
    obtain ⟨hb, hnd'⟩ := List.nodup_cons.1 hnd
    have := ih hnd'
    by_cases hbx : b = x
    · subst hbx
      have hf : kl.filter (· != b) = kl := by
        rw [List.filter_eq_self]; intro y hy; simp; intro e; subst e; exact hb hy
      simp [hb, hf]; omega
    · have hxb : ¬ x = b := fun e => hbx e.symm
      simp [hbx, hxb, this]; omega

theorem sumK_le_bsum (w : W) (k : Bool) (lim : Int) : ∀ (n : Nat) (kl : List Nat), kl.Nodup →
    (∀ b ∈ kl, b < n ∧ lim ≤ w.ts b) → sumK w k kl ≤ bsum w k lim n := by
  intro n
  induction n with
  | zero =>
    intro kl _ h
    cases kl with
    | nil => simp [bsum]
    | cons b kl => have := (h b (List.mem_cons_self ..)).1; omega
  | succ n ih =>
    intro kl hnd h
    rw [sumK_filter_ne w k n kl hnd, bsum]
    have h1 := ih (kl.filter (· != n)) (hnd.filter _) (by
      intro b hb
      obtain ⟨hb1, hb2⟩ := List.mem_filter.1 hb
      have := h b hb1
      simp at hb2
      exact ⟨by omega, this.2⟩)
    by_cases hn : n ∈ kl
    · simp [hn, (h n hn).2]; omega
    · simp [hn]; omega

theorem sumK_eq_sumAdds {g : G} {ls : Tid → L} (hc : Cnt g ls) (k : Bool) (kl : List Nat) :
    sumK g.w k kl = sumAdds k kl g.w.log := by
  unfold sumK sumAdds
  congr 1
  apply List.map_congr_left
  intro b _
  exact hc.per k b

/-! ## Preservation of the log invariants -/

def Ev.isLinked : Ev → Bool | .linked .. => true | _ => false
def Ev.isRemoved : Ev → Bool | .removed .. => true | _ => false

theorem mem_linkPos {lg : List (Tid × Ev)} {x : Nat} (h : x ∈ lg.filterMap linkPos) : ∃ u b, (u, Ev.linked b x) ∈ lg := by
  obtain ⟨e, he, hx⟩ := List.mem_filterMap.1 h
  obtain ⟨u, ev⟩ := e
  cases ev <;> simp [linkPos] at hx
  subst hx; exact ⟨_, _, he⟩

/-- a step that leaves the nodes alone and logs neither `linked` nor `removed` -/
theorem logInv_same {cfg : Cfg} {g g' : G} {ls : Tid → L} {new : List (Tid × Ev)} (ho : Own g ls) (hg : Guar g g')
    (hi : LogInv cfg g) (hlog : g'.w.log = g.w.log ++ new) (hn : g'.q.n = g.q.n) (hv : g'.q.val = g.q.val)
    (hl : ∀ p, g'.q.live p = g.q.live p)
    (h1 : ∀ e ∈ new, e.2.isLinked = false) (h2 : ∀ e ∈ new, e.2.isRemoved = false)
    (h3 : ∀ pre1 e post1, new = pre1 ++ e :: post1 → EntryOK cfg (g.w.log ++ pre1) e) : LogInv cfg g' := by
  obtain ⟨⟨a1, a2, a3⟩, ⟨b1, b2⟩, c⟩ := hi
  refine ⟨⟨?_, ?_, ?_⟩, ⟨?_, ?_⟩, ?_⟩
  · intro u b pos hm
    rw [hlog] at hm; rw [hn, hv]
    rcases List.mem_append.1 hm with hm | hm
    · exact a1 u b pos hm
    · have := h1 _ hm; simp [Ev.isLinked] at this
  · intro pos p1 p2
    rw [hn] at p2; rw [hv, hlog]
    obtain ⟨u, hu⟩ := a2 pos p1 p2
    exact ⟨u, List.mem_append_left _ hu⟩
  · rw [hlog, List.filterMap_append]
    have : new.filterMap linkPos = [] := by
      rw [List.filterMap_eq_nil_iff]
      intro e he
      have := h1 e he
      obtain ⟨u, ev⟩ := e
      cases ev <;> simp [Ev.isLinked] at this <;> rfl
    rw [this, List.append_nil]; exact a3
  · intro p p1 p2 p3
    rw [hn] at p2; rw [hl] at p3; rw [hv, hlog]
    obtain ⟨u, lim, h⟩ := b1 p p1 p2 p3
    exact ⟨u, lim, List.mem_append_left _ h⟩
  · intro u b lim hm
    rw [hlog] at hm
    rcases List.mem_append.1 hm with hm | hm
    · obtain ⟨x, p, p1, p2, p3, p4⟩ := b2 u b lim hm
      have hb : b < g.w.nb := by rw [← p3]; exact (ho.res_lt p p1 p2).1
      exact ⟨by rw [hg.ts b hb]; exact x, p, p1, by rw [hn]; exact p2, by rw [hv]; exact p3, by rw [hl]; exact p4⟩
    · have := h2 _ hm; simp [Ev.isRemoved] at this
  · rw [hlog]; exact c.append h3


theorem one_split {α : Type} {x e : α} {pre1 post1 : List α} (h : [x] = pre1 ++ e :: post1) : pre1 = [] ∧ e = x := by
  cases pre1 with
  | nil => simp at h; exact ⟨rfl, h.1.symm⟩
  | cons y r => simp at h

theorem logInv_pres {cfg : Cfg} {tid : Tid} {g g' : G} {ls : Tid → L} {l' : L} (hb : Base g ls) (ho : Own g ls)
    (hc : Cnt g ls) (ht : TravOK cfg tid g (ls tid)) (hg : Guar g g') (hi : LogInv cfg g)
    (he : LEff cfg tid g (ls tid) g' l') : LogInv cfg g' := by
  have hL := hb.linv tid
  generalize hl : ls tid = l at he ht hL
  cases he with
  | quiet es a b c =>
    refine logInv_same ho hg hi a c.1 c.2.1 (fun p => by rw [c.2.2]) ?_ ?_ ?_
    · intro e he
      obtain ⟨u, ev⟩ := e
      have := mem_tagE_inert b he
      cases ev <;> simp [Ev.inert] at this <;> rfl
    · intro e he
      obtain ⟨u, ev⟩ := e
      have := mem_tagE_inert b he
      cases ev <;> simp [Ev.inert] at this <;> rfl
    · intro pre1 e post1 h
      obtain ⟨u, ev⟩ := e
      exact entryOK_inert (mem_tagE_inert (u := u) b (by rw [h]; simp))
  | swap t old nw hw hcur a b c =>
    refine logInv_same ho hg hi a (by rw [b]) (by rw [b]) (fun p => by rw [b]) (by simp [Ev.isLinked])
      (by simp [Ev.isRemoved]) ?_
    intro pre1 e post1 h
    obtain ⟨rfl, rfl⟩ := one_split h
    intro u pos hm
    simp only [List.append_nil] at hm
    obtain ⟨p1, p2, p3⟩ := hi.link.sound u old pos hm
    exact (ho.res_lt pos p1 p2).2.1 (by rw [p3, hcur])
  | start t a b c =>
    refine logInv_same ho hg hi a b.1 b.2.1 (fun p => by rw [b.2.2]) (by simp [Ev.isLinked])
      (by simp [Ev.isRemoved]) ?_
    intro pre1 e post1 h
    obtain ⟨rfl, rfl⟩ := one_split h
    intro u x pos hm
    simp only [List.append_nil] at hm
    exact (hi.link.sound u x pos hm).2.1
  | cntS r b hw a c =>
    refine logInv_same ho hg hi a (by rw [c]) (by rw [c]) (fun p => by rw [c]) (by simp [Ev.isLinked])
      (by simp [Ev.isRemoved]) ?_
    intro pre1 e post1 h
    obtain ⟨rfl, rfl⟩ := one_split h
    simp only [TravOK, hw] at ht
    obtain ⟨hk, kl', ekl, _⟩ := ht
    obtain ⟨_, p, p1, p2, p3, _⟩ := hk.kept b (by rw [ekl]; exact List.mem_cons_self ..)
    obtain ⟨u, hu⟩ := hi.link.compl p p1 p2
    rw [p3] at hu
    exact ⟨by simpa [W.sel] using hc.per true b, u, p, by simpa using hu⟩
  | cntF r b hw a c =>
    refine logInv_same ho hg hi a (by rw [c]) (by rw [c]) (fun p => by rw [c]) (by simp [Ev.isLinked])
      (by simp [Ev.isRemoved]) ?_
    intro pre1 e post1 h
    obtain ⟨rfl, rfl⟩ := one_split h
    simp only [TravOK, hw] at ht
    obtain ⟨hk, kl', ekl, _⟩ := ht
    obtain ⟨_, p, p1, p2, p3, _⟩ := hk.kept b (by rw [ekl]; exact List.mem_cons_self ..)
    obtain ⟨u, hu⟩ := hi.link.compl p p1 p2
    rw [p3] at hu
    exact ⟨by simpa [W.sel] using hc.per false b, u, p, by simpa using hu⟩
  | roll r it hw hq hnn a c =>
    refine logInv_same ho hg hi a (by rw [c]) (by rw [c]) (fun p => by rw [c]) (by simp [Ev.isLinked])
      (by simp [Ev.isRemoved]) ?_
    intro pre1 e post1 h
    obtain ⟨rfl, rfl⟩ := one_split h
    simp only [TravOK, hw] at ht
    obtain ⟨hk, hs1, hs2⟩ := ht
    simp only [List.append_nil]
    have hkl : ∀ x ∈ r.kl, x < g.w.nb ∧ r.t - cfg.window ≤ g.w.ts x :=
      fun x hx => ⟨hk.kl_lt ho x hx, (hk.kept x hx).1⟩
    refine ⟨?_, ?_, ?_, ?_, hk.nodup, ?_, ?_, hk.started⟩
    · rw [hc.sum]; exact Nat.le_trans hs1 (sumK_le_bsum _ _ _ _ _ hk.nodup hkl)
    · rw [hc.sum]; exact Nat.le_trans hs2 (sumK_le_bsum _ _ _ _ _ hk.nodup hkl)
    · rw [← sumK_eq_sumAdds hc]; exact hs1
    · rw [← sumK_eq_sumAdds hc]; exact hs2
    · intro x hx
      obtain ⟨_, p, p1, p2, p3, _⟩ := hk.kept x hx
      obtain ⟨u, hu⟩ := hi.link.compl p p1 p2
      rw [p3] at hu
      exact ⟨u, p, hu⟩
    · intro u x pos hm hpos hnr
      obtain ⟨p1, p2, p3⟩ := hi.link.sound u x pos hm
      have hlive : g.q.live pos = true := by
        cases e : g.q.live pos with
        | true => rfl
        | false =>
          obtain ⟨u', lim, h'⟩ := hi.dead.dead pos p1 p2 e
          rw [p3] at h'
          exact absurd h' (hnr u' lim)
      rcases hk.compl pos p1 hpos hlive with h' | h' | ⟨it', h'⟩
      · rw [p3] at h'; exact h'
      · rw [hq] at h'
        obtain ⟨q, hq', _⟩ := h'
        rw [hnn] at hq'; cases hq'
      · rw [hq] at h'; cases h'
  | kill r b it k hw hq a c =>
    simp only [TravOK, hw] at ht
    obtain ⟨hk, _, ⟨it', k', hq', hv, hk1⟩, hts⟩ := ht
    rw [hq] at hq'; cases hq'
    have hkn : k < g.q.n := by rw [hq] at hL; exact hL.1
    cases hlive : g.q.live k with
    | false =>
      have hl' : ∀ p, g'.q.live p = g.q.live p := by
        intro p; rw [a]; simp only [Queue.kill]; split
        · rename_i e; rw [e, hlive]
        · rfl
      refine logInv_same (new := []) ho hg hi (by rw [c, hlive]; simp) (by rw [a]; rfl) (by rw [a]; rfl) hl'
        (by simp) (by simp) ?_
      intro pre1 e post1 h; simp at h
    | true =>
      rw [hlive] at c
      simp only [if_true] at c
      obtain ⟨⟨a1, a2, a3⟩, ⟨b1, b2⟩, c'⟩ := hi
      have hn : g'.q.n = g.q.n := by rw [a]; rfl
      have hv' : g'.q.val = g.q.val := by rw [a]; rfl
      refine ⟨⟨?_, ?_, ?_⟩, ⟨?_, ?_⟩, ?_⟩
      · intro u x pos hm
        rw [c] at hm; rw [hn, hv']
        rcases List.mem_append.1 hm with hm | hm
        · exact a1 u x pos hm
        · simp at hm
      · intro pos p1 p2
        rw [hn] at p2; rw [hv', c]
        obtain ⟨u, hu⟩ := a2 pos p1 p2
        exact ⟨u, List.mem_append_left _ hu⟩
      · rw [c, List.filterMap_append]
        have : List.filterMap linkPos [(tid, Ev.removed b (r.t - cfg.window))] = [] := rfl
        rw [this, List.append_nil]; exact a3
      · intro p p1 p2 p3
        rw [hn] at p2; rw [hv', c]
        by_cases hpk : p = k
        · subst hpk; rw [hv]; exact ⟨tid, r.t - cfg.window, List.mem_append_right _ (List.mem_singleton.2 rfl)⟩
        · rw [a] at p3; simp [Queue.kill, hpk] at p3
          obtain ⟨u, lim, h⟩ := b1 p p1 p2 p3
          exact ⟨u, lim, List.mem_append_left _ h⟩
      · intro u x lim hm
        rw [c] at hm
        have hdead : ∀ p, g.q.live p = false → g'.q.live p = false := by
          intro p hp; rw [a]; simp only [Queue.kill]; split
          · rfl
          · exact hp
        rcases List.mem_append.1 hm with hm | hm
        · obtain ⟨y, p, p1, p2, p3, p4⟩ := b2 u x lim hm
          have hx : x < g.w.nb := by rw [← p3]; exact (ho.res_lt p p1 p2).1
          exact ⟨by rw [hg.ts x hx]; exact y, p, p1, by rw [hn]; exact p2, by rw [hv']; exact p3, hdead p p4⟩
        · simp at hm
          obtain ⟨_, e1, e2⟩ := hm
          rw [e1, e2]
          have hx : b < g.w.nb := by rw [← hv]; exact (ho.res_lt k hk1 hkn).1
          refine ⟨by rw [hg.ts b hx]; exact hts, k, hk1, by rw [hn]; exact hkn, by rw [hv']; exact hv, ?_⟩
          rw [a]; simp [Queue.kill]
      · rw [c]; exact c'.append_one trivial
  | link b es' hh a hes hn hvn hv hln hlv =>
    obtain ⟨⟨a1, a2, a3⟩, ⟨b1, b2⟩, c'⟩ := hi
    have hnpos : 1 ≤ g.q.n := hb.ginv.npos
    have hmem : ∀ u x pos, (u, Ev.linked x pos) ∈ g'.w.log →
        (u, Ev.linked x pos) ∈ g.w.log ∨ (u = tid ∧ x = b ∧ pos = g.q.n) := by
      intro u x pos hm
      rw [a] at hm
      rcases List.mem_append.1 hm with hm | hm
      · exact Or.inl hm
      · simp only [tagE, List.map_cons, List.mem_cons] at hm
        rcases hm with hm | hm
        · simp at hm; exact Or.inr ⟨hm.1, hm.2.1, hm.2.2⟩
        · rcases hes with rfl | ⟨t, rfl, _⟩ <;> simp at hm
    refine ⟨⟨?_, ?_, ?_⟩, ⟨?_, ?_⟩, ?_⟩
    · intro u x pos hm
      rcases hmem u x pos hm with hm | ⟨_, rfl, rfl⟩
      · obtain ⟨p1, p2, p3⟩ := a1 u x pos hm
        exact ⟨p1, by omega, by rw [hv pos (by omega)]; exact p3⟩
      · exact ⟨hnpos, by omega, hvn⟩
    · intro pos p1 p2
      by_cases hp : pos = g.q.n
      · subst hp; rw [hvn, a]; exact ⟨tid, by simp [tagE]⟩
      · obtain ⟨u, hu⟩ := a2 pos p1 (by omega)
        rw [hv pos hp, a]; exact ⟨u, List.mem_append_left _ hu⟩
    · rw [a, List.filterMap_append]
      have : (tagE tid (Ev.linked b g.q.n :: es')).filterMap linkPos = [g.q.n] := by
        rcases hes with rfl | ⟨t, rfl, _⟩ <;> simp [tagE, linkPos]
      rw [this]
      refine List.nodup_append.2 ⟨a3, by simp, ?_⟩
      intro x hx y hy
      simp at hy; subst hy
      obtain ⟨u, x', hx'⟩ := mem_linkPos hx
      have := (a1 u x' x hx').2.1
      omega
    · intro p p1 p2 p3
      have hp : p ≠ g.q.n := by intro e; rw [e, hln] at p3; contradiction
      rw [hlv p hp] at p3
      obtain ⟨u, lim, h⟩ := b1 p p1 (by omega) p3
      rw [hv p hp, a]; exact ⟨u, lim, List.mem_append_left _ h⟩
    · intro u x lim hm
      rw [a] at hm
      rcases List.mem_append.1 hm with hm | hm
      · obtain ⟨y, p, p1, p2, p3, p4⟩ := b2 u x lim hm
        have hx : x < g.w.nb := by rw [← p3]; exact (ho.res_lt p p1 p2).1
        have hp : p ≠ g.q.n := by omega
        exact ⟨by rw [hg.ts x hx]; exact y, p, p1, by omega, by rw [hv p hp]; exact p3, by rw [hlv p hp]; exact p4⟩
      · simp only [tagE, List.map_cons, List.mem_cons] at hm
        rcases hm with hm | hm
        · simp at hm
        · rcases hes with rfl | ⟨t, rfl, _⟩ <;> simp at hm
    · rw [a]
      apply c'.append
      intro pre1 e post1 h
      rcases hes with rfl | ⟨t, rfl, _⟩
      · obtain ⟨_, rfl⟩ := one_split h; trivial
      · cases pre1 with
        | nil => simp [tagE] at h; rw [← h.1]; trivial
        | cons y r =>
          simp [tagE] at h
          obtain ⟨rfl, h⟩ := h
          obtain ⟨rfl, rfl⟩ := one_split h
          intro u x pos hm
          rcases List.mem_append.1 hm with hm | hm
          · have := (a1 u x pos hm).2.1; omega
          · simp at hm; omega


/-! ## All invariants together -/

structure Full (cfg : Cfg) (g : G) (ls : Tid → L) : Prop where
  own : Own g ls
  cnt : Cnt g ls
  trav : ∀ t, TravOK cfg t g (ls t)
  log : LogInv cfg g

theorem full_init (cfg : Cfg) (t0 : Int) : Full cfg ⟨initW t0, Queue.init⟩ (fun _ => ⟨.idle, .idle⟩) := by
  refine ⟨own_init t0, cnt_init t0, fun _ => trivial, ⟨⟨?_, ?_, ?_⟩, ⟨?_, ?_⟩, SplitInv.nil _⟩⟩
  · intro u b pos h; simp [initW] at h
  · intro pos h1 h2; simp [Queue.init] at h2; omega
  · simp [initW]
  · intro p h1 h2; simp [Queue.init] at h2; omega
  · intro u b lim h; simp [initW] at h

theorem full_eff {cfg : Cfg} {tid : Tid} {g g' : G} {ls : Tid → L} {l' : L} (hb : Base g ls) (hf : Full cfg g ls)
    (he : Eff cfg tid g (ls tid) g' l') : Full cfg g' (upd ls tid l') := by
  obtain ⟨ho, hc, ht, hi⟩ := hf
  have hg := eff_guar hb ho hc he
  refine ⟨own_pres hb.ginv.npos ho (eff_own hb he), cnt_pres ho hc (eff_cnt ho (hc.refs _) he), fun u => ?_,
    logInv_pres hb ho hc (ht tid) hg hi (eff_leff hb he)⟩
  by_cases hu : u = tid
  · subst hu; simpa using travOK_eff hb ho (ht u) he
  · simpa [upd, hu] using travOK_stable ho (hb.linv u) hg (ht u)

/-- **All invariants hold in every reachable configuration.** -/
theorem reach_full {cfg : Cfg} {t0 : Int} (c : Config (M cfg t0)) (h : Reach (M cfg t0) c) :
    Base c.g c.l ∧ Full cfg c.g c.l :=
  reach_ind (cfg := cfg) (t0 := t0) (Full cfg) (full_init cfg t0) (fun _ _ _ _ _ hb _ hf he => full_eff hb hf he) c h

end Garr.Breaker.Fine
