import Garr.Breaker.FineLog
/-!
# Full-stack window counter: the ghost log is the sequence of `ev` observations of the run
-/
namespace Garr.Breaker.Fine
open Garr Garr.Conc

/-- the ghost events of a step -/
def evs (obs : List Obs) : List Ev := obs.filterMap (fun o => match o with | .ev e => some e | _ => none)

theorem evs_append (a b : List Obs) : evs (a ++ b) = evs a ++ evs b := by simp [evs]
@[simp] theorem evs_ev (es : List Ev) : evs (es.map Obs.ev) = es := by
  induction es with
  | nil => rfl
  | cons a r ih => simp [evs] at ih ⊢; exact ih
@[simp] theorem evs_q (o : List Queue.Obs) : evs (o.map Obs.q) = [] := by simp [evs]
@[simp] theorem evs_nil : evs [] = [] := rfl
@[simp] theorem evs_ret (r : Option (Nat × Nat)) : evs [Obs.ret r] = [] := rfl
@[simp] theorem evs_call (b : Bool) : evs [Obs.call b] = [] := rfl

def LogOK (tid : Tid) (lg : List (Tid × Ev)) (res : G × L × List Obs) : Prop :=
  res.1.w.log = lg ++ tagE tid (evs res.2.2)

theorem logOK_mk {tid : Tid} {lg : List (Tid × Ev)} {w : W} {es : List Ev} {pc : WPc} {x : QX} {resp : List Obs} {r}
    (h : mk tid w es pc x resp = some r) (hw : w.log = lg) (hr : evs resp = []) : LogOK tid lg r := by
  obtain ⟨g', l', obs⟩ := r
  obtain ⟨rfl, rfl, rfl⟩ := mk_eq h
  simp [LogOK, evs_append, hr, hw]

theorem logOK_loopHead {tid : Tid} {lg : List (Tid × Ev)} {w : W} {es : List Ev} {r : Tr} {x : QX} {res}
    (hw : w.log = lg) (h : loopHead tid w es r x = some res) : LogOK tid lg res := by
  unfold loopHead at h
  split at h
  · split at h
    · exact logOK_mk h hw rfl
    · exact logOK_mk h hw rfl
  · contradiction

theorem logOK_offerStep {tid : Tid} {g : G} {l : L} {b : Nat} {res}
    (h : offerStep tid g l b = some res) : LogOK tid g.w.log res := by
  unfold offerStep at h
  split at h
  · contradiction
  · split at h
    · exact logOK_mk h rfl rfl
    · exact logOK_mk h rfl rfl

/-- the ghost log grows by exactly the `ev` observations of the step -/
theorem step_log {cfg : Cfg} {tid : Tid} {g : G} {l : L} {a : Act} {res}
    (h : step cfg tid g l a = some res) : LogOK tid g.w.log res := by
  unfold step at h
  split at h
  · split at h
    · simp at h; subst h; simp [LogOK]
    · contradiction
  · split at h
    · simp at h; subst h; simp [LogOK]
    · contradiction
  · split at h
    · simp only at h
      split at h
      · simp at h; subst h; simp [LogOK, W.alloc]
      · split at h <;> (simp at h; subst h; simp [LogOK, W.alloc])
    · exact logOK_mk h (addTo_log ..) rfl
    · exact logOK_mk h (addTo_log ..) rfl
    · exact logOK_mk h (addTo_log ..) rfl
    · split at h
      · exact logOK_mk h rfl rfl
      · exact logOK_mk h rfl rfl
    · exact logOK_mk h rfl rfl
    · exact logOK_loopHead rfl h
    · exact logOK_mk h rfl rfl
    · contradiction
  · split at h
    · exact logOK_offerStep h
    · exact logOK_offerStep h
    · split at h
      · contradiction
      · split at h
        · exact logOK_mk h rfl rfl
        · exact logOK_mk h rfl rfl
    · split at h
      · contradiction
      · split at h
        · exact logOK_loopHead rfl h
        · exact logOK_mk h rfl rfl
    · split at h
      · contradiction
      · split at h
        · split at h
          · split at h
            · exact logOK_mk h rfl rfl
            · exact logOK_mk h rfl rfl
          · exact logOK_loopHead rfl h
        · exact logOK_mk h rfl rfl
    · split at h
      · contradiction
      · split at h
        · exact logOK_loopHead rfl h
        · exact logOK_mk h rfl rfl
    · contradiction

/-! ## The response `some e` -/

def NoRet (res : G × L × List Obs) : Prop := ∀ e, Obs.ret (some e) ∉ res.2.2

theorem noRet_mk {tid : Tid} {w : W} {es : List Ev} {pc : WPc} {x : QX} {resp : List Obs} {r}
    (h : mk tid w es pc x resp = some r) (hr : ∀ e, Obs.ret (some e) ∉ resp) : NoRet r := by
  obtain ⟨g', l', obs⟩ := r
  obtain ⟨rfl, rfl, rfl⟩ := mk_eq h
  intro e hm
  simp at hm
  exact hr e hm

theorem noRet_loopHead {tid : Tid} {w : W} {es : List Ev} {r : Tr} {x : QX} {res}
    (h : loopHead tid w es r x = some res) : NoRet res := by
  unfold loopHead at h
  split at h
  · split at h
    · exact noRet_mk h (by simp)
    · exact noRet_mk h (by simp)
  · contradiction

theorem noRet_offerStep {tid : Tid} {g : G} {l : L} {b : Nat} {res}
    (h : offerStep tid g l b = some res) : NoRet res := by
  unfold offerStep at h
  split at h
  · contradiction
  · split at h
    · exact noRet_mk h (by simp)
    · exact noRet_mk h (by simp)

/-- the only step that responds `some e` is `snapshot.Store(e)`: it stores `e` and returns -/
theorem step_ret_some {cfg : Cfg} {tid : Tid} {g : G} {l : L} {a : Act} {g' : G} {l' : L} {obs : List Obs} {e : Nat × Nat}
    (h : step cfg tid g l a = some (g', l', obs)) (hm : Obs.ret (some e) ∈ obs) :
    l.w = .store e ∧ g'.w.snap = e ∧ l'.w = .idle := by
  have key : NoRet (g', l', obs) ∨ (l.w = .store e ∧ g'.w.snap = e ∧ l'.w = .idle) := by
    unfold step at h
    split at h
    · split at h
      · simp at h; obtain ⟨_, _, rfl⟩ := h; left; intro e; simp
      · contradiction
    · split at h
      · simp at h; obtain ⟨_, _, rfl⟩ := h; left; intro e; simp
      · contradiction
    · split at h
      · simp only at h
        split at h
        · simp at h; obtain ⟨_, _, rfl⟩ := h; left; intro e; simp
        · split at h <;> (simp at h; obtain ⟨_, _, rfl⟩ := h; left; intro e; simp)
      · exact Or.inl (noRet_mk h (by simp))
      · exact Or.inl (noRet_mk h (by simp))
      · exact Or.inl (noRet_mk h (by simp))
      · split at h
        · exact Or.inl (noRet_mk h (by simp))
        · exact Or.inl (noRet_mk h (by simp))
      · exact Or.inl (noRet_mk h (by simp))
      · exact Or.inl (noRet_loopHead h)
      · rename_i e' hw
        obtain ⟨rfl, rfl, rfl⟩ := mk_eq h
        simp at hm
        subst hm
        exact Or.inr ⟨hw, rfl, rfl⟩
      · contradiction
    · split at h
      · exact Or.inl (noRet_offerStep h)
      · exact Or.inl (noRet_offerStep h)
      · split at h
        · contradiction
        · split at h
          · exact Or.inl (noRet_mk h (by simp))
          · exact Or.inl (noRet_mk h (by simp))
      · split at h
        · contradiction
        · split at h
          · exact Or.inl (noRet_loopHead h)
          · exact Or.inl (noRet_mk h (by simp))
      · split at h
        · contradiction
        · split at h
          · split at h
            · split at h
              · exact Or.inl (noRet_mk h (by simp))
              · exact Or.inl (noRet_mk h (by simp))
            · exact Or.inl (noRet_loopHead h)
          · exact Or.inl (noRet_mk h (by simp))
      · split at h
        · contradiction
        · split at h
          · exact Or.inl (noRet_loopHead h)
          · exact Or.inl (noRet_mk h (by simp))
      · contradiction
  rcases key with h' | h'
  · exact absurd hm (h' e)
  · exact h'

set_option backward.isDefEq.respectTransparency false

/-- the ghost events of a run log, tagged with their threads -/
def elog {cfg : Cfg} {t0 : Int} (lg : List (Tid × (M cfg t0).Obs)) : List (Tid × Ev) :=
  lg.filterMap (fun e => match e.2 with | Obs.ev x => some (e.1, x) | _ => none)

theorem elog_append {cfg : Cfg} {t0 : Int} (a b : List (Tid × (M cfg t0).Obs)) :
    elog (a ++ b) = elog a ++ elog b := by simp [elog]

theorem elog_tag {cfg : Cfg} {t0 : Int} (tid : Tid) (obs : List Obs) :
    elog (cfg := cfg) (t0 := t0) (obs.map (fun o => (tid, o))) = tagE tid (evs obs) := by
  induction obs with
  | nil => rfl
  | cons o r ih =>
    simp only [elog, evs, tagE, List.map_cons, List.filterMap_cons] at ih ⊢
    cases o <;> simp [ih]

/-- **The ghost log of the final configuration of a run is the initial one followed by the `ev` observations of the
run**, in order -/
theorem run_log {cfg : Cfg} {t0 : Int} (s : List (Tid × (M cfg t0).Act)) : ∀ (c : Config (M cfg t0)),
    (run (M cfg t0) c s).1.g.w.log = c.g.w.log ++ elog (run (M cfg t0) c s).2 := by
  induction s with
  | nil => intro c; simp [run, elog]
  | cons ta rest ih =>
    intro c
    obtain ⟨tid, a⟩ := ta
    cases he : (M cfg t0).step tid c.g (c.l tid) a with
    | none => rw [Queue.run_cons_none he]; exact ih c
    | some r =>
      obtain ⟨g', l', obs⟩ := r
      rw [Queue.run_cons_some he]
      have h1 : g'.w.log = c.g.w.log ++ tagE tid (evs obs) :=
        step_log (cfg := cfg) (tid := tid) (g := c.g) (l := c.l tid) (a := a) (res := (g', l', obs)) he
      simp only
      rw [ih ⟨g', upd c.l tid l'⟩, elog_append, elog_tag]
      show g'.w.log ++ _ = _
      rw [h1, List.append_assoc]

theorem run_log_init {cfg : Cfg} {t0 : Int} (s : List (Tid × (M cfg t0).Act)) :
    (run (M cfg t0) (Config.init (M cfg t0)) s).1.g.w.log = elog (run (M cfg t0) (Config.init (M cfg t0)) s).2 := by
  rw [run_log]; rfl

end Garr.Breaker.Fine
