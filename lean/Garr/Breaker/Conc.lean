import Garr.Conc
import Garr.Breaker.Seq
/-!
# Small-step model of the non-blocking circuit breaker and its sliding-window counter under concurrency

One step per atomic access of package `circuit-breaker` (`nb.s` load / CAS, `SlidingWindowCounter.cur` load / CAS,
`snapshot` store) and per ticker reading (`Tick()` is an input).  The lower layers are used through their
proven sequential specifications (layered proof, DESIGN.md §6 C10): the reservoir is an abstract FIFO list
with "delete if present" (what C01/C13 prove of `queue.JDKLinkedQueue` and its iterator), the bucket counters are
numbers (what C02/C09 prove of `adder.JDKAdder` for unit increments); their operations take effect atomically
together with the breaker-layer access that precedes them in program order.
State objects, windows and buckets are never freed; identity = allocation index.
-/
namespace Garr.Breaker
open Garr Garr.Conc

structure Obj where
  kind : Kind
  timeout : Int
  dur : Int
  win : Nat          -- window id (meaningful for CLOSED objects)
deriving Repr, DecidableEq

structure CWin where
  cur : Nat                 -- current bucket id
  res : List Nat            -- reservoir (bucket ids, queue order)
  snap : Int × Int
deriving Repr, DecidableEq

structure CG where
  objs : List Obj           -- all state objects ever published (id = index); index 0 is the constructor's
  cur : Nat                 -- nb.s
  wins : List CWin          -- windows (id = index)
  buckets : List Bucket     -- buckets (id = index)
  casWins : List Nat        -- ghost: expected-object ids of successful state CASes, newest first
deriving Repr

inductive Call | can | succ | fail
deriving Repr, DecidableEq

/-- what a finished window report hands back to the breaker -/
abbrev Cnt := Option (Int × Int)

inductive L
  | idle
  | b0 (c : Call)                                   -- load nb.s
  -- CanRequest on an OPEN/HALF_OPEN object o
  | c1 (o : Nat)                                    -- tick (checkTimeout)
  | c2 (o : Nat) (t1 : Int)                         -- tick (newHalfOpenState)
  | c3 (o : Nat) (t1 t2 : Int)                      -- casState(o, new HALF_OPEN)
  -- report on a CLOSED object o with window w
  | w0 (c : Call) (o w : Nat)                       -- tick (onEvent)
  | w1 (c : Call) (o w : Nat) (t : Int)             -- load cur
  | w2 (c : Call) (o w : Nat) (t : Int) (b : Nat)   -- casCurrent(b, next)
  | w3 (c : Call) (o w : Nat) (e : Int × Int)       -- snapshot.Store(e)
  -- OnFailure tripping: new OPEN state
  | f1 (o : Nat) (e : Int × Int)                    -- tick (newOpenState)
  | f2 (o : Nat) (e : Int × Int) (t : Int)          -- casState(o, new OPEN)
  -- report on a HALF_OPEN object o
  | h1 (c : Call) (o : Nat)                         -- success: tick (new window's bucket) / failure: tick (newOpenState)
  | h1s (o : Nat) (t1 : Int)                        -- success: new window's snapshot.Store(zero) (private object)
  | h2 (o : Nat) (t1 : Int)                         -- success: tick (closed state object)
  | h3 (c : Call) (o : Nat) (t1 t2 : Int)           -- casState(o, new)
deriving Repr, DecidableEq

inductive Act
  | call (c : Call)
  | tau
  | tick (t : Int)
deriving Repr, DecidableEq

inductive Obs
  | ret (b : Option Bool)
  | cbState (k : Kind) | cbCount (s f : Int) | cbRejected      -- one per notification (fan-out to listeners is sequential code)
  | admitted (o : Nat) (t1 : Int)                               -- ghost: CanRequest admitted as the trial from object o having read t1
  | transition (o : Nat) (k : Kind)                             -- ghost: successful CAS from o to a new object of kind k
  | recorded (w : Nat) (stamp : Int) (succ : Bool)              -- ghost: a report was recorded in window w in a bucket with this timestamp
  | rolled (w : Nat) (t : Int) (s f : Int)                      -- ghost: the roll of window w at tick t computed this count
deriving Repr, DecidableEq

def getD' {α} (l : List α) (i : Nat) (d : α) : α := (l[i]?).getD d

def dfltObj : Obj := ⟨.closed, 0, 0, 0⟩
def dfltWin : CWin := ⟨0, [], (0, 0)⟩
def dfltBucket : Bucket := ⟨0, 0, 0⟩

def CG.obj (g : CG) (o : Nat) : Obj := getD' g.objs o dfltObj
def CG.win (g : CG) (w : Nat) : CWin := getD' g.wins w dfltWin
def CG.bucket (g : CG) (b : Nat) : Bucket := getD' g.buckets b dfltBucket

def setAt {α} (l : List α) (i : Nat) (x : α) : List α := l.set i x

/-- successful state CAS from `o`: publish a new object -/
def publish (g : CG) (o : Nat) (n : Obj) : CG :=
  { g with objs := g.objs ++ [n], cur := g.objs.length, casWins := o :: g.casWins }

/-- sum over the reservoir after dropping buckets older than the limit (sequential spec of iterator + Remove + Sum) -/
def trimIds (g : CG) (limit : Int) (res : List Nat) : List Nat :=
  res.filter (fun b => !(decide ((g.bucket b).ts < limit)))
def sumIdsS (g : CG) (ids : List Nat) : Int := ids.foldl (fun acc b => wrap64 (acc + (g.bucket b).s)) 0
def sumIdsF (g : CG) (ids : List Nat) : Int := ids.foldl (fun acc b => wrap64 (acc + (g.bucket b).f)) 0

def retOf (c : Call) : Option Bool := match c with | .can => some true | _ => none

/-- after a window report finished with count `e` (or none): what the breaker does next -/
def afterReport (cfg : Config) (c : Call) (o : Nat) (e : Cnt) : L × List Obs :=
  match e with
  | none => (.idle, [.ret none])
  | some (s, f) =>
    match c with
    | .fail => if exceeds cfg s f then (.f1 o (s, f), []) else (.idle, [.cbCount s f, .ret none])
    | _ => (.idle, [.cbCount s f, .ret none])

def step (cfg : Config) (_t : Tid) (g : CG) : L → Act → Option (CG × L × List Obs)
  | .idle, .call c => some (g, .b0 c, [])
  | .b0 c, .tau =>
      let o := g.cur
      let ob := g.obj o
      match ob.kind, c with
      | .closed, .can => some (g, .idle, [.ret (some true)])
      | .closed, c => some (g, .w0 c o ob.win, [])
      | .opn, .can => if ob.dur > 0 then some (g, .c1 o, []) else some (g, .idle, [.cbRejected, .ret (some false)])
      | .half, .can => if ob.dur > 0 then some (g, .c1 o, []) else some (g, .idle, [.cbRejected, .ret (some false)])
      | .opn, _ => some (g, .idle, [.ret none])
      | .half, c => some (g, .h1 c o, [])
  -- CanRequest
  | .c1 o, .tick t1 =>
      if (g.obj o).timeout ≤ t1 then some (g, .c2 o t1, []) else some (g, .idle, [.cbRejected, .ret (some false)])
  | .c2 o t1, .tick t2 => some (g, .c3 o t1 t2, [])
  | .c3 o t1 t2, .tau =>
      if g.cur = o then
        some (publish g o ⟨.half, wrap64 (t2 + cfg.trial), cfg.trial, 0⟩, .idle,
              [.transition o .half, .admitted o t1, .cbState .half, .ret (some true)])
      else some (g, .idle, [.cbRejected, .ret (some false)])
  -- window report
  | .w0 c o w, .tick t => some (g, .w1 c o w t, [])
  | .w1 c o w t, .tau =>
      let wn := g.win w
      let b := wn.cur
      let bk := g.bucket b
      let succ := decide (c = .succ)
      if t < bk.ts then
        -- instant bucket straight into the reservoir
        let g' := { g with buckets := g.buckets ++ [mkBucket t succ],
                           wins := setAt g.wins w { wn with res := wn.res ++ [g.buckets.length] } }
        some (g', .idle, [.recorded w t succ, .ret none])
      else if t < wrap64 (bk.ts + cfg.interval) then
        some ({ g with buckets := setAt g.buckets b (bk.add succ) }, .idle, [.recorded w bk.ts succ, .ret none])
      else some (g, .w2 c o w t b, [])
  | .w2 c o w t b, .tau =>
      let wn := g.win w
      let succ := decide (c = .succ)
      let nb := g.buckets.length
      let g1 := { g with buckets := g.buckets ++ [mkBucket t succ] }
      if wn.cur = b then
        -- won: swap, archive the old bucket, trim and sum
        let res1 := wn.res ++ [b]
        let kept := trimIds g1 (wrap64 (t - cfg.window)) res1
        let e := (sumIdsS g1 kept, sumIdsF g1 kept)
        some ({ g1 with wins := setAt g1.wins w { wn with cur := nb, res := kept } }, .w3 c o w e,
              [.rolled w t e.1 e.2, .recorded w t succ])
      else
        -- lost: archive the own fresh bucket as an instant bucket
        some ({ g1 with wins := setAt g1.wins w { wn with res := wn.res ++ [nb] } }, .idle, [.recorded w t succ, .ret none])
  | .w3 c o w e, .tau =>
      let wn := g.win w
      let (l, obs) := afterReport cfg c o (some e)
      some ({ g with wins := setAt g.wins w { wn with snap := e } }, l, obs)
  -- tripping
  | .f1 o e, .tick t => some (g, .f2 o e t, [])
  | .f2 o e t, .tau =>
      if g.cur = o then
        some (publish g o ⟨.opn, wrap64 (t + cfg.openW), cfg.openW, 0⟩, .idle, [.transition o .opn, .cbState .opn, .ret none])
      else some (g, .idle, [.cbCount e.1 e.2, .ret none])
  -- report in HALF_OPEN
  | .h1 .succ o, .tick t1 => some (g, .h1s o t1, [])
  | .h1 c o, .tick t1 => some (g, .h3 c o t1 0, [])
  | .h1s o t1, .tau => some (g, .h2 o t1, [])
  | .h2 o t1, .tick t2 => some (g, .h3 .succ o t1 t2, [])
  | .h3 .succ o t1 t2, .tau =>
      if g.cur = o then
        let w := g.wins.length
        let b := g.buckets.length
        let g1 := { g with wins := g.wins ++ [⟨b, [], (0, 0)⟩], buckets := g.buckets ++ [⟨t1, 0, 0⟩] }
        some (publish g1 o ⟨.closed, wrap64 (t2 + 0), 0, w⟩, .idle, [.transition o .closed, .cbState .closed, .ret none])
      else some (g, .idle, [.ret none])
  | .h3 c o t1 _, .tau =>
      if g.cur = o then
        some (publish g o ⟨.opn, wrap64 (t1 + cfg.openW), cfg.openW, 0⟩, .idle, [.transition o .opn, .cbState .opn, .ret none])
      else some (g, .idle, [.ret none])
  | _, _ => none

/-- the constructor's state: a CLOSED object whose window starts at the first reading -/
def initG (t1 t2 : Int) : CG :=
  { objs := [⟨.closed, wrap64 (t2 + 0), 0, 0⟩], cur := 0, wins := [⟨0, [], (0, 0)⟩], buckets := [⟨t1, 0, 0⟩], casWins := [] }

def M (cfg : Config) (t1 t2 : Int) : Machine where
  G := CG
  L := L
  Act := Act
  Obs := Obs
  init := initG t1 t2
  idle := .idle
  step := step cfg

end Garr.Breaker
