import Garr.Conc
import Garr.Queue.Model
/-!
# Full-stack small-step model of `SlidingWindowCounter` (circuit-breaker/slidingWindowCounter.go)

The window counter composed with the faithful small-step model of the lock-free queue (`Garr.Queue`): the reservoir
is a `Garr.Queue.G` whose values are bucket ids, and a thread that is inside a reservoir operation (`Offer`,
`Iterator()`, `Next`, `Remove`) carries the embedded `Garr.Queue.L` program counter and steps with `Garr.Queue.step`
UNCHANGED, one atomic queue access per step.  In particular

* the roller (winner of `casCurrent`) performs `reservoir.Offer(old)` as a separate sequence of queue steps after the
  CAS: it can be delayed arbitrarily long between swapping the bucket and archiving it;
* `trimAndSum` is a weakly consistent traversal: other threads' `Offer`s, `Remove`s and bucket increments interleave
  with every single step of it.

Layers.  Action `.b` = one window-layer atomic access (`cur` load / CAS, bucket counter add / read, `snapshot.Store`),
`.tick t` = one ticker reading (any `Int`: the ticker may stand still or step back), `.q` = one queue-layer atomic
access (the `tau` of `Garr.Queue.step`), `.call succ` = invocation of `onEvent(succ)`.  Thread-local actions of the queue
model that touch no shared memory (invocations `offer v` / `iterator` / `next` / `remove`, `hasNext`, `drop`) are
executed together with the atomic access that precedes them in program order (`qdo`); `Garr.Queue.run` of the list of
queue actions of a step is exactly the queue component of that step (`Garr/Breaker/FineInv.lean`, `step_chain`).

The bucket counters receive unit increments only, so they are atomic numbers (`Garr/Adder/SumBounds.lean`: a striped
`Sum` under unit increments is equivalent to an atomic read).  Timestamps and ticks are `Int` (no wrap-around; the
`int64` wrap near the limits is the recorded finding F7).  Buckets are never freed; identity = allocation index
(`newBucket` allocates at the step that decides the branch; a fresh bucket is private until published).

Ghost state: `W.log` (events `Ev`, tagged with the acting thread, oldest first; the same events are emitted as
observations), and in the locals of `trimAndSum` the number `n0` of reservoir nodes at the start of the traversal and
the list `kl` of the buckets it has decided to count.
-/
namespace Garr.Breaker.Fine
open Garr Garr.Conc

structure Cfg where
  window : Int
  interval : Int
deriving Repr, DecidableEq

/-- ghost events -/
inductive Ev
  | added (tick : Int) (succ : Bool) (b : Nat) (stamp : Int)  -- a report (ticker reading `tick`) took effect: `add` on bucket `b` (timestamp `stamp`)
  | swapped (old new : Nat)                                   -- `casCurrent(old, new)` succeeded
  | lost (b : Nat)                                            -- `casCurrent` failed; own fresh bucket `b` goes to the reservoir
  | linked (b : Nat) (pos : Nat)                              -- `Offer(b)` took effect: node `pos` of the reservoir
  | iterStart (tick : Int) (n0 : Nat)                         -- `trimAndSum(tick)` invokes `Iterator()`; the reservoir has `n0` nodes
  | cntS (b : Nat) (n : Nat)                                  -- `b.success()` read `n`
  | cntF (b : Nat) (n : Nat)                                  -- `b.failure()` read `n`
  | removed (b : Nat) (lim : Int)                             -- `Remove()` deleted bucket `b` (`timestamp < lim`)
  | rolled (tick : Int) (s f : Nat) (n0 : Nat) (kl : List Nat) -- `trimAndSum(tick)` is over: the count, and (ghost) the buckets counted
deriving Repr, DecidableEq

/-- the window part of the shared state -/
structure W where
  cur : Nat                 -- id of the current bucket
  nb : Nat                  -- number of buckets allocated
  ts : Nat → Int            -- bucket timestamps (immutable after allocation)
  sc : Nat → Nat            -- success counters
  fc : Nat → Nat            -- failure counters
  snap : Nat × Nat
  log : List (Tid × Ev)     -- ghost

structure G where
  w : W
  q : Queue.G

/-- locals (and ghosts) of `trimAndSum` -/
structure Tr where
  t : Int
  s : Nat
  f : Nat
  n0 : Nat           -- ghost: reservoir nodes when `Iterator()` was invoked
  kl : List Nat      -- ghost: buckets kept (to be counted), newest first
deriving Repr, DecidableEq

/-- window-layer program counter: names the next access of `onEvent` / `trimAndSum` -/
inductive WPc
  | idle
  | tick (succ : Bool)                            -- `ticker.Tick()`
  | ldCur (succ : Bool) (t : Int)                 -- `current()`
  | bsAdd (succ : Bool) (t : Int) (b : Nat)       -- back-step branch: `bucket.add(succ)` on the fresh instant bucket `b`
  | bsOffer (b : Nat)                             -- … inside `reservoir.Offer(b)`
  | add (succ : Bool) (t : Int) (b : Nat)         -- same-interval branch: `currentBucket.add(succ)`
  | rollAdd (succ : Bool) (t : Int) (old nw : Nat)  -- roll branch: `nextBucket.add(succ)`
  | cas (t : Int) (old nw : Nat)                  -- `casCurrent(currentBucket, nextBucket)`
  | winOffer (t : Int) (old : Nat)                -- winner: inside `reservoir.Offer(currentBucket)`
  | mkIter (t : Int) (n0 : Nat)                   -- `trimAndSum`: inside `reservoir.Iterator()`
  | next (r : Tr)                                 -- inside `iterator.Next()`
  | remove (r : Tr) (b : Nat)                     -- inside `iterator.Remove()` (of bucket `b`)
  | rdS (r : Tr) (b : Nat)                        -- `bck.success()`
  | rdF (r : Tr) (b : Nat)                        -- `bck.failure()`
  | store (e : Nat × Nat)                         -- `snapshot.Store(e)`
  | head (r : Tr)                                 -- transient: top of `for iterator.HasNext()`; left within the same step (`loopHead`), never the pc of a configuration — it only serves to split steps in proofs
  | loseOffer (b : Nat)                           -- loser: inside `reservoir.Offer(nextBucket)`
deriving Repr, DecidableEq

/-- a thread: window pc and embedded queue pc (`idle` outside reservoir operations, `idleIt it` while it holds the
iterator between calls) -/
structure L where
  w : WPc
  q : Queue.L
deriving Repr

inductive Act
  | call (succ : Bool)   -- invoke `onEvent(succ)`
  | tick (t : Int)       -- the ticker reading
  | b                    -- the next window-layer atomic access
  | q                    -- the next queue-layer atomic access
deriving Repr, DecidableEq

inductive Obs
  | call (succ : Bool)
  | ev (e : Ev)
  | q (o : Queue.Obs)
  | ret (r : Option (Nat × Nat))
deriving Repr, DecidableEq

/-! ## Window-state updates -/

def W.emit (w : W) (tid : Tid) (es : List Ev) : W := { w with log := w.log ++ es.map (fun e => (tid, e)) }

/-- `newBucket(t)`: bucket `w.nb` -/
def W.alloc (w : W) (t : Int) : W :=
  { w with nb := w.nb + 1,
           ts := fun b => if b = w.nb then t else w.ts b,
           sc := fun b => if b = w.nb then 0 else w.sc b,
           fc := fun b => if b = w.nb then 0 else w.fc b }

/-- `b.add(succ)` -/
def W.addTo (w : W) (b : Nat) (succ : Bool) : W :=
  if succ then { w with sc := fun c => if c = b then w.sc b + 1 else w.sc c }
  else { w with fc := fun c => if c = b then w.fc b + 1 else w.fc c }

/-! ## Embedded queue steps -/

/-- the queue component under construction during one step: shared queue state, own queue pc, observations -/
abbrev QX := Queue.G × Queue.L × List Queue.Obs

/-- perform queue action `a` (skipped if not enabled, as `Garr.Conc.run` does) -/
def qdo (tid : Tid) (x : QX) (a : Queue.Act) : QX :=
  match Queue.step tid x.1 x.2.1 a with
  | none => x
  | some (g', l', o) => (g', l', x.2.2 ++ o)

def isLpOffer : Queue.Obs → Bool | .lpOffer _ => true | _ => false
def isLpRemoveLive : Queue.Obs → Bool | .lpRemove _ true => true | _ => false
def itVal : Queue.Obs → Option Nat | .itNext _ v => some v | _ => none

/-- result of a step: new window state (events already appended), new pc, queue component, response -/
def mk (tid : Tid) (w : W) (es : List Ev) (pc : WPc) (x : QX) (resp : List Obs) : Option (G × L × List Obs) :=
  some (⟨w.emit tid es, x.1⟩, ⟨pc, x.2.1⟩, es.map Obs.ev ++ x.2.2.map Obs.q ++ resp)

/-- top of `for iterator.HasNext()`: taken whenever the thread holds the iterator between two calls.
`HasNext` is local to the iterator object; if true `Next()` is invoked, else the loop is over: the count is complete
(ghost event `rolled`), the iterator is dropped and `snapshot.Store` is next. -/
def loopHead (tid : Tid) (w : W) (es : List Ev) (r : Tr) (x : QX) : Option (G × L × List Obs) :=
  match x.2.1 with
  | .idleIt it =>
    if it.nextNode.isSome then mk tid w es (.next r) (qdo tid (qdo tid x .hasNext) .next) []
    else mk tid w (es ++ [.rolled r.t r.s r.f r.n0 r.kl]) (.store (r.s, r.f)) (qdo tid (qdo tid x .hasNext) .drop) []
  | _ => none

/-- one queue-layer atomic access of the running reservoir operation -/
def qtau (tid : Tid) (g : G) (l : L) : Option QX :=
  match Queue.step tid g.q l.q .tau with
  | none => none
  | some (g', l', o) => some (g', l', o)

def linkedEv (g : G) (b : Nat) (o : List Queue.Obs) : List Ev := if o.any isLpOffer then [.linked b g.q.n] else []

/-- a step inside `Offer(b)` of the back-step branch or of the CAS loser; on return `onEvent` returns nil -/
def offerStep (tid : Tid) (g : G) (l : L) (b : Nat) : Option (G × L × List Obs) :=
  match qtau tid g l with
  | none => none
  | some x =>
    match x.2.1 with
    | .idle => mk tid g.w (linkedEv g b x.2.2) .idle x [.ret none]
    | _ => mk tid g.w (linkedEv g b x.2.2) l.w x []

def step (cfg : Cfg) (tid : Tid) (g : G) (l : L) : Act → Option (G × L × List Obs)
  | .call succ =>
      match l.w with
      | .idle => some (g, { l with w := .tick succ }, [.call succ])
      | _ => none
  | .tick t =>
      match l.w with
      | .tick succ => some (g, { l with w := .ldCur succ t }, [])
      | _ => none
  | .b =>
      match l.w with
      | .ldCur succ t =>
          let c := g.w.cur
          if t < g.w.ts c then
            some ({ g with w := g.w.alloc t }, { l with w := .bsAdd succ t g.w.nb }, [])
          else if t < g.w.ts c + cfg.interval then
            some (g, { l with w := .add succ t c }, [])
          else some ({ g with w := g.w.alloc t }, { l with w := .rollAdd succ t c g.w.nb }, [])
      | .bsAdd succ t b =>
          mk tid (g.w.addTo b succ) [.added t succ b (g.w.ts b)] (.bsOffer b) (qdo tid (g.q, l.q, []) (.offer b)) []
      | .add succ t b =>
          mk tid (g.w.addTo b succ) [.added t succ b (g.w.ts b)] .idle (g.q, l.q, []) [.ret none]
      | .rollAdd succ t old nw =>
          mk tid (g.w.addTo nw succ) [.added t succ nw (g.w.ts nw)] (.cas t old nw) (g.q, l.q, []) []
      | .cas t old nw =>
          if g.w.cur = old then
            mk tid { g.w with cur := nw } [.swapped old nw] (.winOffer t old) (qdo tid (g.q, l.q, []) (.offer old)) []
          else mk tid g.w [.lost nw] (.loseOffer nw) (qdo tid (g.q, l.q, []) (.offer nw)) []
      | .rdS r b =>
          mk tid g.w [.cntS b (g.w.sc b)] (.rdF { r with s := r.s + g.w.sc b } b) (g.q, l.q, []) []
      | .rdF r b =>
          loopHead tid g.w [.cntF b (g.w.fc b)] { r with f := r.f + g.w.fc b } (g.q, l.q, [])
      | .store e =>
          mk tid { g.w with snap := e } [] .idle (g.q, l.q, []) [.ret (some e)]
      | _ => none
  | .q =>
      match l.w with
      | .bsOffer b => offerStep tid g l b
      | .loseOffer b => offerStep tid g l b
      | .winOffer t old =>
          match qtau tid g l with
          | none => none
          | some x =>
            match x.2.1 with
            | .idle => mk tid g.w (linkedEv g old x.2.2 ++ [.iterStart t x.1.n]) (.mkIter t x.1.n) (qdo tid x .iterator) []
            | _ => mk tid g.w (linkedEv g old x.2.2) l.w x []
      | .mkIter t n0 =>
          match qtau tid g l with
          | none => none
          | some x =>
            match x.2.1 with
            | .idleIt _ => loopHead tid g.w [] ⟨t, 0, 0, n0, []⟩ x
            | _ => mk tid g.w [] l.w x []
      | .next r =>
          match qtau tid g l with
          | none => none
          | some x =>
            match x.2.1 with
            | .idleIt _ =>
              match x.2.2.findSome? itVal with
              | some b =>
                if g.w.ts b < r.t - cfg.window then mk tid g.w [] (.remove r b) (qdo tid x .remove) []
                else mk tid g.w [] (.rdS { r with kl := b :: r.kl } b) x []
              | none => loopHead tid g.w [] r x
            | _ => mk tid g.w [] l.w x []
      | .remove r b =>
          match qtau tid g l with
          | none => none
          | some x =>
            match x.2.1 with
            | .idleIt _ =>
              loopHead tid g.w (if x.2.2.any isLpRemoveLive then [.removed b (r.t - cfg.window)] else []) r x
            | _ => mk tid g.w [] l.w x []
      | _ => none

/-- the constructor: `cur = newBucket(ticker.Tick())` (reading `t0`), empty reservoir -/
def initW (t0 : Int) : W :=
  { cur := 0, nb := 1, ts := fun _ => t0, sc := fun _ => 0, fc := fun _ => 0, snap := (0, 0), log := [] }

def M (cfg : Cfg) (t0 : Int) : Machine where
  G := G
  L := L
  Act := Act
  Obs := Obs
  init := ⟨initW t0, Queue.init⟩
  idle := ⟨.idle, .idle⟩
  step := step cfg

/-! ## Views (for `Repr`, tests and trace acceptors) -/

/-- bucket table `(timestamp, successes, failures)` of the allocated buckets -/
def W.table (w : W) : List (Int × Nat × Nat) := (List.range w.nb).map (fun b => (w.ts b, w.sc b, w.fc b))

/-- reservoir content: `(position, bucket id)` of the live nodes, in queue order -/
def G.reservoir (g : G) : List (Nat × Nat) :=
  ((List.range g.q.n).filter g.q.live).map (fun i => (i, g.q.val i))

instance : Repr G where
  reprPrec g _ :=
    "{ cur := " ++ repr g.w.cur ++ ", buckets := " ++ repr g.w.table ++ ", snap := " ++ repr g.w.snap ++
    ", reservoir := " ++ repr g.reservoir ++ ", head := " ++ repr g.q.head ++ ", tail := " ++ repr g.q.tail ++
    ", log := " ++ repr g.w.log ++ " }"

/-- the layer of an action: `b` window atomics and ticker, `q` queue atomics (`none`: the invocation) -/
def WPc.isHead : WPc → Bool | .head _ => true | _ => false

def Act.layer : Act → Option Char
  | .call _ => none
  | .tick _ => some 'b'
  | .b => some 'b'
  | .q => some 'q'

end Garr.Breaker.Fine
