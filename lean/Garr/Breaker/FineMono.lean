import Garr.Breaker.FineLog
/-!
# Full-stack window counter: roll ticks and trim limits never exceed the current bucket's timestamp

Needs `0 ≤ interval`.  The winner of `casCurrent` installs a bucket whose timestamp is its own tick `t`, and it won
because `t ≥ cur.timestamp + interval`; so the timestamp of the current bucket never decreases, every roller's tick is
`≤` it, and every bucket removed so far is older than `cur.timestamp - window`.
-/
namespace Garr.Breaker.Fine
open Garr Garr.Conc

def monoPc (cfg : Cfg) (g : G) (l : L) : Prop :=
  match l.w with
  | .rollAdd _ t old nw => g.w.ts nw = t ∧ g.w.ts old + cfg.interval ≤ t
  | .cas t old nw => g.w.ts nw = t ∧ g.w.ts old + cfg.interval ≤ t
  | .winOffer t _ => t ≤ g.w.ts g.w.cur
  | .mkIter t _ => t ≤ g.w.ts g.w.cur
  | .head r => r.t ≤ g.w.ts g.w.cur
  | .next r => r.t ≤ g.w.ts g.w.cur
  | .remove r _ => r.t ≤ g.w.ts g.w.cur
  | .rdS r _ => r.t ≤ g.w.ts g.w.cur
  | .rdF r _ => r.t ≤ g.w.ts g.w.cur
  | _ => True

structure Mono (cfg : Cfg) (g : G) (ls : Tid → L) : Prop where
  pcs : ∀ u, monoPc cfg g (ls u)
  removed : ∀ u b lim, (u, Ev.removed b lim) ∈ g.w.log → lim + cfg.window ≤ g.w.ts g.w.cur

theorem monoPc_stable {cfg : Cfg} {g g' : G} {ls : Tid → L} {u : Tid} (ho : Own g ls) (hc : Cnt g ls)
    (hts : ∀ b, b < g.w.nb → g'.w.ts b = g.w.ts b) (hcur : g.w.ts g.w.cur ≤ g'.w.ts g'.w.cur)
    (h : monoPc cfg g (ls u)) : monoPc cfg g' (ls u) := by
  have hh := ho.held_lt u
  have hr := hc.refs u
  cases hw : (ls u).w <;> simp only [monoPc, hw] at h ⊢ <;> try trivial
  case rollAdd s t old nw =>
    have hr' : old < g.w.nb := by simpa [refsOK, hw] using hr
    rw [hts nw (hh nw (by simp [held, hw])).1, hts old hr']; exact h
  case cas t old nw =>
    have hr' : old < g.w.nb := by simpa [refsOK, hw] using hr
    rw [hts nw (hh nw (by simp [held, hw])).1, hts old hr']; exact h
  all_goals omega

theorem mono_eff {cfg : Cfg} (h0 : 0 ≤ cfg.interval) {tid : Tid} {g g' : G} {ls : Tid → L} {l' : L} (hb : Base g ls)
    (hf : Full cfg g ls) (hm : Mono cfg g ls) (he : Eff cfg tid g (ls tid) g' l') : Mono cfg g' (upd ls tid l') := by
  obtain ⟨ho, hc, ht, hi⟩ := hf
  have hg := eff_guar hb ho hc he
  have hts := hg.ts
  have hpc := hm.pcs tid
  have hh := ho.held_lt tid
  have hr := hc.refs tid
  have hcurlt := ho.cur_lt
  -- the acting thread's new pc, the monotonicity of `cur.timestamp`, and the new `removed` entries
  have key : monoPc cfg g' l' ∧ g.w.ts g.w.cur ≤ g'.w.ts g'.w.cur ∧
      (∀ u b lim, (u, Ev.removed b lim) ∈ g'.w.log → (u, Ev.removed b lim) ∈ g.w.log ∨ lim + cfg.window ≤ g'.w.ts g'.w.cur) := by
    generalize hl : ls tid = l at he hpc hh hr
    have hsame : ∀ {w' : W}, w'.cur = g.w.cur → w'.ts g.w.cur = g.w.ts g.w.cur → g.w.ts g.w.cur ≤ w'.ts w'.cur := by
      intro w' e1 e2; rw [e1, e2]; exact Int.le_refl _
    cases he
    case call succ hw => exact ⟨by simp [monoPc], Int.le_refl _, fun _ _ _ h => Or.inl h⟩
    case tick succ t hw => exact ⟨by simp [monoPc], Int.le_refl _, fun _ _ _ h => Or.inl h⟩
    case ldBs succ t hw _ =>
      refine ⟨by simp [monoPc], hsame rfl (hts _ hcurlt), fun _ _ _ h => Or.inl (by simpa [W.alloc] using h)⟩
    case ldSame succ t hw _ _ => exact ⟨by simp [monoPc], Int.le_refl _, fun _ _ _ h => Or.inl h⟩
    case ldRoll succ t hw h1 h2 =>
      refine ⟨?_, hsame rfl (hts _ hcurlt), fun _ _ _ h => Or.inl (by simpa [W.alloc] using h)⟩
      have hne : g.w.cur ≠ g.w.nb := by omega
      simp only [monoPc, W.alloc, hne, if_true, if_false]
      exact ⟨trivial, by omega⟩
    case bsAdd succ t b hw hq =>
      exact ⟨by simp [monoPc], by simp [addTo_cur, addTo_ts], fun _ _ _ h => Or.inl (by simpa [addTo_log] using h)⟩
    case addSame succ t b hw =>
      exact ⟨by simp [monoPc], by simp [addTo_cur, addTo_ts], fun _ _ _ h => Or.inl (by simpa [addTo_log] using h)⟩
    case rollAdd succ t old nw hw =>
      refine ⟨?_, by simp [addTo_cur, addTo_ts], fun _ _ _ h => Or.inl (by simpa [addTo_log] using h)⟩
      simpa [monoPc, hw, addTo_ts] using hpc
    case casWin t old nw hw hq hcur =>
      simp only [monoPc, hw] at hpc
      refine ⟨?_, ?_, fun _ _ _ h => Or.inl (by simpa using h)⟩
      · simp only [monoPc, emit_ts, emit_cur]; omega
      · simp only [emit_ts, emit_cur]; rw [hcur]; omega
    case casLose t old nw hw hq hcur => exact ⟨by simp [monoPc], Int.le_refl _, fun _ _ _ h => Or.inl (by simpa using h)⟩
    case rdS r b hw => exact ⟨by simpa [monoPc, hw] using hpc, Int.le_refl _, fun _ _ _ h => Or.inl (by simpa using h)⟩
    case rdF r b hw => exact ⟨by simpa [monoPc, hw] using hpc, Int.le_refl _, fun _ _ _ h => Or.inl (by simpa using h)⟩
    case store e hw => exact ⟨by simp [monoPc], Int.le_refl _, fun _ _ _ h => Or.inl h⟩
    case headNext r it p hw hq hp => exact ⟨by simpa [monoPc, hw] using hpc, Int.le_refl _, fun _ _ _ h => Or.inl h⟩
    case headExit r it hw hq hp => exact ⟨by simp [monoPc], Int.le_refl _, fun _ _ _ h => Or.inl (by simpa using h)⟩
    case offerCont b gq1 ql1 o hw hs hne =>
      refine ⟨?_, Int.le_refl _, fun u x lim h => Or.inl ?_⟩
      · rcases hw with hw | hw | ⟨t, hw⟩
        · simp [monoPc, hw]
        · simp [monoPc, hw]
        · simpa [monoPc, hw] using hpc
      · unfold linkedEv at h; split at h <;> simpa using h
    case offerRet b gq1 o hw hs =>
      refine ⟨by simp [monoPc], Int.le_refl _, fun u x lim h => Or.inl ?_⟩
      unfold linkedEv at h; split at h <;> simpa using h
    case winRet t b gq1 o hw hs =>
      refine ⟨by simpa [monoPc, hw] using hpc, Int.le_refl _, fun u x lim h => Or.inl ?_⟩
      unfold linkedEv at h; split at h <;> simpa using h
    case mkIterCont t n0 gq1 ql1 o hw hs hni =>
      exact ⟨by simpa [monoPc, hw] using hpc, Int.le_refl _, fun _ _ _ h => Or.inl h⟩
    case mkIterRet t n0 gq1 it o hw hs =>
      exact ⟨by simpa [monoPc, hw] using hpc, Int.le_refl _, fun _ _ _ h => Or.inl h⟩
    case nextCont r gq1 ql1 o hw hs hni =>
      exact ⟨by simpa [monoPc, hw] using hpc, Int.le_refl _, fun _ _ _ h => Or.inl h⟩
    case nextRemove r gq1 it pos b hw hs hlt hlr =>
      exact ⟨by simpa [monoPc, hw] using hpc, Int.le_refl _, fun _ _ _ h => Or.inl h⟩
    case nextKeep r gq1 it pos b hw hs hlt hlr =>
      exact ⟨by simpa [monoPc, hw] using hpc, Int.le_refl _, fun _ _ _ h => Or.inl h⟩
    case removeRet r b gq1 it o hw hs =>
      have hpc' : r.t ≤ g.w.ts g.w.cur := by simpa [monoPc, hw] using hpc
      refine ⟨by simp [monoPc]; exact hpc', Int.le_refl _, fun u x lim h => ?_⟩
      simp only [emit_log] at h
      rcases List.mem_append.1 h with h | h
      · exact Or.inl h
      · split at h
        · simp at h; obtain ⟨_, _, rfl⟩ := h
          right; simp only [emit_ts, emit_cur]; omega
        · simp at h
  obtain ⟨k1, k2, k3⟩ := key
  refine ⟨fun u => ?_, fun u b lim h => ?_⟩
  · by_cases hu : u = tid
    · subst hu; simpa using k1
    · simpa [upd, hu] using monoPc_stable ho hc hts k2 (hm.pcs u)
  · rcases k3 u b lim h with h | h
    · have := hm.removed u b lim h; omega
    · exact h

theorem mono_init (cfg : Cfg) (t0 : Int) : Mono cfg ⟨initW t0, Queue.init⟩ (fun _ => ⟨.idle, .idle⟩) :=
  ⟨fun _ => trivial, fun u b lim h => by simp [initW] at h⟩

/-- all invariants, including `Mono`, in every reachable configuration -/
theorem reach_mono {cfg : Cfg} (h0 : 0 ≤ cfg.interval) {t0 : Int} (c : Config (M cfg t0)) (h : Reach (M cfg t0) c) :
    Base c.g c.l ∧ Full cfg c.g c.l ∧ Mono cfg c.g c.l :=
  reach_ind (cfg := cfg) (t0 := t0) (fun g ls => Full cfg g ls ∧ Mono cfg g ls) ⟨full_init cfg t0, mono_init cfg t0⟩
    (fun _ _ _ _ _ hb _ ⟨hf, hm⟩ he => ⟨full_eff hb hf he, mono_eff h0 hb hf hm he⟩) c h

end Garr.Breaker.Fine
