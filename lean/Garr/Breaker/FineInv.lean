import Garr.Breaker.FineProj
/-!
# Full-stack window counter: classification of steps, structural invariants

`Eff` lists the micro-steps of the composed machine (each contains at most one shared queue access); every step of
`Fine.step` is one micro-step or two (the second being the loop head, through the transient pc `head`): `step_eff`.
All invariants are proved per micro-step.
-/
namespace Garr.Breaker.Fine
open Garr Garr.Conc

/-! ## Well-formedness of a thread: the queue pc fits the window pc -/

/-- inside `Offer`, before the linking CAS (the pc still carries the value) -/
def preLinkB : Queue.L → Bool
  | .o0 _ | .o1 _ _ _ | .o2 _ _ _ | .o4 _ _ _ | .o4b _ _ | .o5 _ _ _ _ => true
  | _ => false

/-- the value carried by a pc of `Offer` before the linking CAS -/
def offVal : Queue.L → Option Nat
  | .o0 v | .o1 v _ _ | .o2 v _ _ | .o4 v _ _ | .o4b v _ | .o5 v _ _ _ => some v
  | _ => none

def isO3 : Queue.L → Bool | .o3 _ _ => true | _ => false

/-- inside `Offer(b)` -/
def InOffer (b : Nat) (ql : Queue.L) : Prop := offVal ql = some b ∨ isO3 ql = true

def inMkIter : Queue.L → Bool
  | .k0 .iter | .k1 .iter _ _ | .k2 .iter _ _ | .u1 _ _ (.iter _) | .u2 _ (.iter _) => true
  | _ => false

def inNext : Queue.L → Bool
  | .n0 _ _ | .n0h _ _ | .n1 _ _ _ | .n2 _ _ _ | .n2h _ _ _ | .n3 _ _ _ _ => true
  | _ => false

def isIdleIt : Queue.L → Bool | .idleIt _ => true | _ => false
def isR0 : Queue.L → Bool | .r0 _ _ => true | _ => false
def isIdle : Queue.L → Bool | .idle => true | _ => false

def Wf (l : L) : Prop :=
  match l.w with
  | .idle | .tick _ | .ldCur _ _ | .bsAdd _ _ _ | .add _ _ _ | .rollAdd _ _ _ _ | .cas _ _ _ | .store _ => l.q = .idle
  | .bsOffer b | .loseOffer b | .winOffer _ b => InOffer b l.q
  | .mkIter _ _ => inMkIter l.q = true
  | .next _ => inNext l.q = true
  | .remove _ _ => isR0 l.q = true
  | .rdS _ _ | .rdF _ _ | .head _ => isIdleIt l.q = true

/-! ## Micro-steps -/

@[simp] theorem emit_nil (w : W) (tid : Tid) : w.emit tid [] = w := by simp [W.emit]
theorem emit_emit (w : W) (tid : Tid) (a b : List Ev) : (w.emit tid a).emit tid b = w.emit tid (a ++ b) := by
  simp [W.emit]

inductive Eff (cfg : Cfg) (tid : Tid) : G → L → G → L → Prop
  | call {g l} (succ : Bool) : l.w = .idle → Eff cfg tid g l g { l with w := .tick succ }
  | tick {g l} (succ : Bool) (t : Int) : l.w = .tick succ → Eff cfg tid g l g { l with w := .ldCur succ t }
  | ldBs {g l} (succ : Bool) (t : Int) : l.w = .ldCur succ t → t < g.w.ts g.w.cur →
      Eff cfg tid g l { g with w := g.w.alloc t } { l with w := .bsAdd succ t g.w.nb }
  | ldSame {g l} (succ : Bool) (t : Int) : l.w = .ldCur succ t → ¬ t < g.w.ts g.w.cur → t < g.w.ts g.w.cur + cfg.interval →
      Eff cfg tid g l g { l with w := .add succ t g.w.cur }
  | ldRoll {g l} (succ : Bool) (t : Int) : l.w = .ldCur succ t → ¬ t < g.w.ts g.w.cur → ¬ t < g.w.ts g.w.cur + cfg.interval →
      Eff cfg tid g l { g with w := g.w.alloc t } { l with w := .rollAdd succ t g.w.cur g.w.nb }
  | bsAdd {g l} (succ : Bool) (t : Int) (b : Nat) : l.w = .bsAdd succ t b → l.q = .idle →
      Eff cfg tid g l ⟨(g.w.addTo b succ).emit tid [.added t succ b (g.w.ts b)], g.q⟩ ⟨.bsOffer b, .o0 b⟩
  | addSame {g l} (succ : Bool) (t : Int) (b : Nat) : l.w = .add succ t b →
      Eff cfg tid g l ⟨(g.w.addTo b succ).emit tid [.added t succ b (g.w.ts b)], g.q⟩ ⟨.idle, l.q⟩
  | rollAdd {g l} (succ : Bool) (t : Int) (old nw : Nat) : l.w = .rollAdd succ t old nw →
      Eff cfg tid g l ⟨(g.w.addTo nw succ).emit tid [.added t succ nw (g.w.ts nw)], g.q⟩ ⟨.cas t old nw, l.q⟩
  | casWin {g l} (t : Int) (old nw : Nat) : l.w = .cas t old nw → l.q = .idle → g.w.cur = old →
      Eff cfg tid g l ⟨({ g.w with cur := nw } : W).emit tid [.swapped old nw], g.q⟩ ⟨.winOffer t old, .o0 old⟩
  | casLose {g l} (t : Int) (old nw : Nat) : l.w = .cas t old nw → l.q = .idle → g.w.cur ≠ old →
      Eff cfg tid g l ⟨g.w.emit tid [.lost nw], g.q⟩ ⟨.loseOffer nw, .o0 nw⟩
  | rdS {g l} (r : Tr) (b : Nat) : l.w = .rdS r b →
      Eff cfg tid g l ⟨g.w.emit tid [.cntS b (g.w.sc b)], g.q⟩ ⟨.rdF { r with s := r.s + g.w.sc b } b, l.q⟩
  | rdF {g l} (r : Tr) (b : Nat) : l.w = .rdF r b →
      Eff cfg tid g l ⟨g.w.emit tid [.cntF b (g.w.fc b)], g.q⟩ ⟨.head { r with f := r.f + g.w.fc b }, l.q⟩
  | store {g l} (e : Nat × Nat) : l.w = .store e → Eff cfg tid g l ⟨{ g.w with snap := e }, g.q⟩ ⟨.idle, l.q⟩
  | headNext {g l} (r : Tr) (it : Queue.Iter) (p : Nat) : l.w = .head r → l.q = .idleIt it → it.nextNode = some p →
      Eff cfg tid g l g ⟨.next r, .n0 { it with lastRet := some p } p⟩
  | headExit {g l} (r : Tr) (it : Queue.Iter) : l.w = .head r → l.q = .idleIt it → it.nextNode = none →
      Eff cfg tid g l ⟨g.w.emit tid [.rolled r.t r.s r.f r.n0 r.kl], g.q⟩ ⟨.store (r.s, r.f), .idle⟩
  | offerCont {g l} (b : Nat) (gq1 : Queue.G) (ql1 : Queue.L) (o : List Queue.Obs) :
      (l.w = .bsOffer b ∨ l.w = .loseOffer b ∨ ∃ t, l.w = .winOffer t b) →
      Queue.step tid g.q l.q .tau = some (gq1, ql1, o) → ql1 ≠ .idle →
      Eff cfg tid g l ⟨g.w.emit tid (linkedEv g b o), gq1⟩ ⟨l.w, ql1⟩
  | offerRet {g l} (b : Nat) (gq1 : Queue.G) (o : List Queue.Obs) : (l.w = .bsOffer b ∨ l.w = .loseOffer b) →
      Queue.step tid g.q l.q .tau = some (gq1, .idle, o) →
      Eff cfg tid g l ⟨g.w.emit tid (linkedEv g b o), gq1⟩ ⟨.idle, .idle⟩
  | winRet {g l} (t : Int) (b : Nat) (gq1 : Queue.G) (o : List Queue.Obs) : l.w = .winOffer t b →
      Queue.step tid g.q l.q .tau = some (gq1, .idle, o) →
      Eff cfg tid g l ⟨g.w.emit tid (linkedEv g b o ++ [.iterStart t gq1.n]), gq1⟩ ⟨.mkIter t gq1.n, .k0 .iter⟩
  | mkIterCont {g l} (t : Int) (n0 : Nat) (gq1 : Queue.G) (ql1 : Queue.L) (o : List Queue.Obs) : l.w = .mkIter t n0 →
      Queue.step tid g.q l.q .tau = some (gq1, ql1, o) → isIdleIt ql1 = false →
      Eff cfg tid g l ⟨g.w, gq1⟩ ⟨l.w, ql1⟩
  | mkIterRet {g l} (t : Int) (n0 : Nat) (gq1 : Queue.G) (it : Queue.Iter) (o : List Queue.Obs) : l.w = .mkIter t n0 →
      Queue.step tid g.q l.q .tau = some (gq1, .idleIt it, o) →
      Eff cfg tid g l ⟨g.w, gq1⟩ ⟨.head ⟨t, 0, 0, n0, []⟩, .idleIt it⟩
  | nextCont {g l} (r : Tr) (gq1 : Queue.G) (ql1 : Queue.L) (o : List Queue.Obs) : l.w = .next r →
      Queue.step tid g.q l.q .tau = some (gq1, ql1, o) → isIdleIt ql1 = false →
      Eff cfg tid g l ⟨g.w, gq1⟩ ⟨l.w, ql1⟩
  | nextRemove {g l} (r : Tr) (gq1 : Queue.G) (it : Queue.Iter) (pos b : Nat) : l.w = .next r →
      Queue.step tid g.q l.q .tau = some (gq1, .idleIt it, [.itNext pos b, .retAux (.val b)]) →
      g.w.ts b < r.t - cfg.window → it.lastRet = some pos →
      Eff cfg tid g l ⟨g.w, gq1⟩ ⟨.remove r b, .r0 it pos⟩
  | nextKeep {g l} (r : Tr) (gq1 : Queue.G) (it : Queue.Iter) (pos b : Nat) : l.w = .next r →
      Queue.step tid g.q l.q .tau = some (gq1, .idleIt it, [.itNext pos b, .retAux (.val b)]) →
      ¬ g.w.ts b < r.t - cfg.window → it.lastRet = some pos →
      Eff cfg tid g l ⟨g.w, gq1⟩ ⟨.rdS { r with kl := b :: r.kl } b, .idleIt it⟩
  | removeRet {g l} (r : Tr) (b : Nat) (gq1 : Queue.G) (it : Queue.Iter) (o : List Queue.Obs) : l.w = .remove r b →
      Queue.step tid g.q l.q .tau = some (gq1, .idleIt it, o) →
      Eff cfg tid g l ⟨g.w.emit tid (if o.any isLpRemoveLive then [.removed b (r.t - cfg.window)] else []), gq1⟩
        ⟨.head r, .idleIt it⟩

/-- one step of the machine = one micro-step, or a micro-step followed by the loop head -/
inductive Steps (cfg : Cfg) (tid : Tid) : G → L → G → L → Prop
  | one {g l g' l'} : Eff cfg tid g l g' l' → Steps cfg tid g l g' l'
  | two {g l g1 l1 g' l'} : Eff cfg tid g l g1 l1 → l1.w.isHead = true → Eff cfg tid g1 l1 g' l' → Steps cfg tid g l g' l'


/-! ## Classification -/

/-- `Next()` returns: the step emits `itNext pos b` and `lastRet` is the returned position -/
theorem next_ret {tid : Tid} {gq gq1 : Queue.G} {ql : Queue.L} {it : Queue.Iter} {o : List Queue.Obs}
    (hn : inNext ql = true) (hI : Queue.IterInv gq ql)
    (hs : Queue.step tid gq ql .tau = some (gq1, .idleIt it, o)) :
    ∃ pos b, o = [.itNext pos b, .retAux (.val b)] ∧ it.lastRet = some pos := by
  cases ql <;> simp [inNext] at hn <;> simp only [Queue.step] at hs
  case n0 it0 pred =>
    obtain ⟨_, b, _⟩ := hI
    split at hs
    · simp at hs; obtain ⟨_, rfl, rfl⟩ := hs; exact ⟨_, _, rfl, b⟩
    · split at hs <;> simp at hs
  case n0h => simp at hs
  case n1 it0 pred p =>
    obtain ⟨_, b, _⟩ := hI
    split at hs
    · simp at hs; obtain ⟨_, rfl, rfl⟩ := hs; exact ⟨_, _, rfl, b⟩
    · simp at hs
  case n2 it0 pred p =>
    obtain ⟨_, b, _⟩ := hI
    split at hs
    · simp at hs; obtain ⟨_, rfl, rfl⟩ := hs; exact ⟨_, _, rfl, b⟩
    · split at hs <;> simp at hs
  case n2h => simp at hs
  case n3 => simp at hs

theorem loopHead_cases {tid : Tid} {w : W} {es : List Ev} {r : Tr} {x : QX} {g' : G} {l' : L} {obs : List Obs}
    (h : loopHead tid w es r x = some (g', l', obs)) :
    ∃ it, x.2.1 = .idleIt it ∧
      ((∃ p, it.nextNode = some p ∧ g' = ⟨w.emit tid es, x.1⟩ ∧ l' = ⟨.next r, .n0 { it with lastRet := some p } p⟩) ∨
       (it.nextNode = none ∧ g' = ⟨w.emit tid (es ++ [.rolled r.t r.s r.f r.n0 r.kl]), x.1⟩ ∧ l' = ⟨.store (r.s, r.f), .idle⟩)) := by
  obtain ⟨gq, ql, o⟩ := x
  unfold loopHead at h
  split at h
  · rename_i it hit
    simp only at hit
    subst hit
    refine ⟨it, rfl, ?_⟩
    split at h
    · rename_i hsome
      obtain ⟨p, hp⟩ := Option.isSome_iff_exists.mp hsome
      obtain ⟨rfl, rfl, _⟩ := mk_eq h
      exact Or.inl ⟨p, hp, by simp [qdo, Queue.step, hp], by simp [qdo, Queue.step, hp]⟩
    · rename_i hnone
      have hn : it.nextNode = none := by simpa using hnone
      obtain ⟨rfl, rfl, _⟩ := mk_eq h
      exact Or.inr ⟨hn, by simp [qdo, Queue.step], by simp [qdo, Queue.step]⟩
  · contradiction

/-- the loop head as a micro-step from the transient pc -/
theorem loopHead_eff {cfg : Cfg} {tid : Tid} {w : W} {es : List Ev} {r : Tr} {x : QX} {g' : G} {l' : L} {obs : List Obs}
    (h : loopHead tid w es r x = some (g', l', obs)) :
    Eff cfg tid ⟨w.emit tid es, x.1⟩ ⟨.head r, x.2.1⟩ g' l' := by
  obtain ⟨it, hit, ⟨p, hp, rfl, rfl⟩ | ⟨hn, rfl, rfl⟩⟩ := loopHead_cases h
  · exact Eff.headNext r it p rfl hit hp
  · have := Eff.headExit (cfg := cfg) (tid := tid) (g := ⟨w.emit tid es, x.1⟩) (l := ⟨.head r, x.2.1⟩) r it rfl hit hn
    simpa [emit_emit] using this

theorem qtau_eq {tid : Tid} {g : G} {l : L} {x : QX} (h : qtau tid g l = some x) :
    Queue.step tid g.q l.q .tau = some (x.1, x.2.1, x.2.2) := by
  unfold qtau at h
  split at h
  · contradiction
  · rename_i g' l' o he
    simp only [Option.some.injEq] at h; subst h; exact he

theorem isIdleIt_false {ql : Queue.L} (h : ∀ it, ql = .idleIt it → False) : isIdleIt ql = false := by
  cases ql <;> simp [isIdleIt] <;> exact h _ rfl

theorem offerStep_eff {cfg : Cfg} {tid : Tid} {g : G} {l : L} {b : Nat} {g' : G} {l' : L} {obs : List Obs}
    (hw : l.w = .bsOffer b ∨ l.w = .loseOffer b) (h : offerStep tid g l b = some (g', l', obs)) :
    Eff cfg tid g l g' l' := by
  unfold offerStep at h
  split at h
  · contradiction
  · rename_i x hx
    have hq := qtau_eq hx
    split at h
    · rename_i hidle
      obtain ⟨rfl, rfl, _⟩ := mk_eq h
      rw [hidle] at hq ⊢
      exact Eff.offerRet b _ _ hw hq
    · rename_i hnid
      obtain ⟨rfl, rfl, _⟩ := mk_eq h
      exact Eff.offerCont b _ _ _ (hw.elim Or.inl (fun h => Or.inr (Or.inl h))) hq (fun e => hnid e)

/-- **Classification.**  Every step is a micro-step, or a micro-step to the transient loop head followed by the loop
head. -/
theorem step_eff {cfg : Cfg} {tid : Tid} {g : G} {l : L} {a : Act} {g' : G} {l' : L} {obs : List Obs}
    (hwf : Wf l) (hI : Queue.IterInv g.q l.q) (h : step cfg tid g l a = some (g', l', obs)) :
    Steps cfg tid g l g' l' := by
  unfold step at h
  split at h
  · split at h
    · rename_i hw
      simp at h; obtain ⟨rfl, rfl, _⟩ := h; exact .one (Eff.call _ hw)
    · contradiction
  · split at h
    · rename_i hw
      simp at h; obtain ⟨rfl, rfl, _⟩ := h; exact .one (Eff.tick _ _ hw)
    · contradiction
  · split at h
    · rename_i succ t hw
      simp only at h
      split at h
      · rename_i h1
        simp at h; obtain ⟨rfl, rfl, _⟩ := h; exact .one (Eff.ldBs _ _ hw h1)
      · rename_i h1
        split at h
        · rename_i h2
          simp at h; obtain ⟨rfl, rfl, _⟩ := h; exact .one (Eff.ldSame _ _ hw h1 h2)
        · rename_i h2
          simp at h; obtain ⟨rfl, rfl, _⟩ := h; exact .one (Eff.ldRoll _ _ hw h1 h2)
    · rename_i succ t b hw
      have hq : l.q = .idle := by simpa [Wf, hw] using hwf
      obtain ⟨rfl, rfl, _⟩ := mk_eq h
      have := Eff.bsAdd (cfg := cfg) (tid := tid) (g := g) succ t b hw hq
      simpa [qdo, hq, Queue.step] using Steps.one this
    · rename_i succ t b hw
      obtain ⟨rfl, rfl, _⟩ := mk_eq h
      exact .one (Eff.addSame succ t b hw)
    · rename_i succ t old nw hw
      obtain ⟨rfl, rfl, _⟩ := mk_eq h
      exact .one (Eff.rollAdd succ t old nw hw)
    · rename_i t old nw hw
      have hq : l.q = .idle := by simpa [Wf, hw] using hwf
      split at h
      · rename_i hc
        obtain ⟨rfl, rfl, _⟩ := mk_eq h
        have := Eff.casWin (cfg := cfg) (tid := tid) (g := g) t old nw hw hq hc
        simpa [qdo, hq, Queue.step] using Steps.one this
      · rename_i hc
        obtain ⟨rfl, rfl, _⟩ := mk_eq h
        have := Eff.casLose (cfg := cfg) (tid := tid) (g := g) t old nw hw hq hc
        simpa [qdo, hq, Queue.step] using Steps.one this
    · rename_i r b hw
      obtain ⟨rfl, rfl, _⟩ := mk_eq h
      exact .one (Eff.rdS r b hw)
    · rename_i r b hw
      exact .two (Eff.rdF r b hw) rfl (loopHead_eff h)
    · rename_i e hw
      obtain ⟨rfl, rfl, _⟩ := mk_eq h
      simpa using Steps.one (Eff.store (cfg := cfg) (tid := tid) (g := g) e hw)
    · contradiction
  · split at h
    · rename_i b hw
      exact .one (offerStep_eff (Or.inl hw) h)
    · rename_i b hw
      exact .one (offerStep_eff (Or.inr hw) h)
    · rename_i t old hw
      split at h
      · contradiction
      · rename_i x hx
        have hq := qtau_eq hx
        split at h
        · rename_i hidle
          obtain ⟨rfl, rfl, _⟩ := mk_eq h
          rw [hidle] at hq
          have := Eff.winRet (cfg := cfg) t old _ _ hw hq
          simpa [qdo, hidle, Queue.step] using Steps.one this
        · rename_i hnid
          obtain ⟨rfl, rfl, _⟩ := mk_eq h
          exact .one (Eff.offerCont old _ _ _ (Or.inr (Or.inr ⟨t, hw⟩)) hq (fun e => hnid e))
    · rename_i t n0 hw
      split at h
      · contradiction
      · rename_i x hx
        have hq := qtau_eq hx
        split at h
        · rename_i it hit
          rw [hit] at hq
          have e1 := Eff.mkIterRet (cfg := cfg) t n0 _ _ _ hw hq
          have e2 := loopHead_eff (cfg := cfg) h
          rw [hit] at e2
          simp only [emit_nil] at e2
          exact .two e1 rfl e2
        · rename_i hnit
          obtain ⟨rfl, rfl, _⟩ := mk_eq h
          simpa using Steps.one (Eff.mkIterCont (cfg := cfg) t n0 _ _ _ hw hq (isIdleIt_false (fun it e => hnit it e)))
    · rename_i r hw
      have hn : inNext l.q = true := by simpa [Wf, hw] using hwf
      split at h
      · contradiction
      · rename_i x hx
        have hq := qtau_eq hx
        split at h
        · rename_i it hit
          rw [hit] at hq
          obtain ⟨pos, b, ho, hlr⟩ := next_ret hn hI hq
          rw [ho] at hq
          simp only [ho, List.findSome?, itVal] at h
          split at h
          · rename_i hlt
            obtain ⟨rfl, rfl, _⟩ := mk_eq h
            have := Eff.nextRemove (cfg := cfg) r _ _ pos b hw hq hlt hlr
            obtain ⟨gq1, ql1, o1⟩ := x
            simp only at hit ho
            subst hit
            simpa [qdo, Queue.step, hlr] using Steps.one this
          · rename_i hlt
            obtain ⟨rfl, rfl, _⟩ := mk_eq h
            have := Eff.nextKeep (cfg := cfg) r _ _ pos b hw hq hlt hlr
            rw [hit]
            simpa using Steps.one this
        · rename_i hnit
          obtain ⟨rfl, rfl, _⟩ := mk_eq h
          simpa using Steps.one (Eff.nextCont (cfg := cfg) r _ _ _ hw hq (isIdleIt_false (fun it e => hnit it e)))
    · rename_i r b hw
      split at h
      · contradiction
      · rename_i x hx
        have hq := qtau_eq hx
        split at h
        · rename_i it hit
          rw [hit] at hq
          have e1 := Eff.removeRet (cfg := cfg) r b _ _ _ hw hq
          have e2 := loopHead_eff (cfg := cfg) h
          rw [hit] at e2
          exact .two e1 rfl e2
        · rename_i hnit
          -- `Remove` returns in one step
          have hr : isR0 l.q = true := by simpa [Wf, hw] using hwf
          exfalso
          cases hl : l.q <;> simp [isR0, hl] at hr
          rw [hl] at hq
          simp [Queue.step] at hq
          exact hnit _ hq.2.1.symm
    · contradiction


/-! ## Shape of the queue pc along the embedded operations -/

theorem offer_tau_shape {tid : Tid} {gq gq1 : Queue.G} {ql ql1 : Queue.L} {o : List Queue.Obs} {b : Nat}
    (hin : InOffer b ql) (hs : Queue.step tid gq ql .tau = some (gq1, ql1, o)) :
    InOffer b ql1 ∨ ql1 = .idle := by
  rcases hin with hv | h3
  · cases ql <;> simp [offVal] at hv <;> subst hv <;> simp only [Queue.step] at hs
    all_goals ((repeat' split at hs) <;> simp at hs <;> obtain ⟨_, rfl, _⟩ := hs <;> simp [InOffer, offVal, isO3])
  · cases ql <;> simp [isO3] at h3
    simp [Queue.step] at hs
    exact Or.inr hs.2.1.symm

theorem finish_iter (it : Queue.Iter) : (Queue.finish (.iter it)).1 = .idleIt it := rfl

theorem goUpd_iter_shape (h tgt : Nat) (it : Queue.Iter) :
    inMkIter (Queue.goUpd h tgt (.iter it)).1 = true ∨ isIdleIt (Queue.goUpd h tgt (.iter it)).1 = true := by
  unfold Queue.goUpd; split
  · exact Or.inr rfl
  · exact Or.inl rfl

theorem mkIter_tau_shape {tid : Tid} {gq gq1 : Queue.G} {ql ql1 : Queue.L} {o : List Queue.Obs}
    (hin : inMkIter ql = true) (hs : Queue.step tid gq ql .tau = some (gq1, ql1, o)) :
    inMkIter ql1 = true ∨ isIdleIt ql1 = true := by
  cases ql <;> try (simp [inMkIter] at hin; done)
  case k0 m => cases m <;> simp [inMkIter] at hin; simp [Queue.step] at hs; obtain ⟨_, rfl, _⟩ := hs; exact Or.inl rfl
  case k1 m h p =>
    cases m <;> simp [inMkIter] at hin; simp only [Queue.step] at hs
    split at hs
    · simp [Queue.foundLive] at hs; obtain ⟨_, rfl, _⟩ := hs; exact goUpd_iter_shape _ _ _
    · simp at hs; obtain ⟨_, rfl, _⟩ := hs; exact Or.inl rfl
  case k2 m h p =>
    cases m <;> simp [inMkIter] at hin; simp only [Queue.step] at hs
    split at hs
    · simp [Queue.foundNone] at hs; obtain ⟨_, rfl, _⟩ := hs; exact goUpd_iter_shape _ _ _
    · split at hs <;> (simp at hs; obtain ⟨_, rfl, _⟩ := hs; exact Or.inl rfl)
  case u1 h tgt k =>
    cases k <;> simp [inMkIter] at hin
    simp only [Queue.step] at hs
    split at hs
    · simp at hs; obtain ⟨_, rfl, _⟩ := hs; exact Or.inl rfl
    · simp at hs; obtain ⟨_, rfl, _⟩ := hs; exact Or.inr rfl
  case u2 h k =>
    cases k <;> simp [inMkIter] at hin
    simp [Queue.step] at hs; obtain ⟨_, rfl, _⟩ := hs; exact Or.inr rfl

theorem next_tau_shape {tid : Tid} {gq gq1 : Queue.G} {ql ql1 : Queue.L} {o : List Queue.Obs}
    (hin : inNext ql = true) (hs : Queue.step tid gq ql .tau = some (gq1, ql1, o)) :
    inNext ql1 = true ∨ isIdleIt ql1 = true := by
  cases ql <;> simp [inNext] at hin <;> simp only [Queue.step] at hs
  all_goals ((repeat' split at hs) <;> simp at hs <;> obtain ⟨_, rfl, _⟩ := hs <;> simp [inNext, isIdleIt])

/-! ## The base invariant: the queue component is reachable in `Garr.Queue.M`, every thread is well-formed -/

set_option backward.isDefEq.respectTransparency false

/-- the queue component -/
def pq (g : G) (ls : Tid → L) : Config Queue.M := ⟨g.q, fun t => (ls t).q⟩

theorem pq_same {g g' : G} {ls : Tid → L} {tid : Tid} {l' : L} (hg : g'.q = g.q) (hl : l'.q = (ls tid).q) :
    pq g' (upd ls tid l') = pq g ls := by
  simp only [pq, hg]
  congr 1
  funext u
  by_cases hu : u = tid
  · subst hu; simp [hl]
  · simp [upd, hu]

theorem pq_step {g g' : G} {ls : Tid → L} {tid : Tid} {l' : L} {a : Queue.Act} {o : List Queue.Obs}
    (hs : Queue.step tid g.q (ls tid).q a = some (g'.q, l'.q, o)) (hr : Reach Queue.M (pq g ls)) :
    Reach Queue.M (pq g' (upd ls tid l')) := by
  have := Reach.step (M := Queue.M) (c := pq g ls) (t := tid) (a := a) hr (by exact hs)
  have e : pq g' (upd ls tid l') = ⟨g'.q, upd (pq g ls).l tid l'.q⟩ := by
    simp only [pq]
    congr 1
    funext u
    by_cases hu : u = tid
    · subst hu; simp
    · simp [upd, hu]
  rw [e]; exact this

structure Base (g : G) (ls : Tid → L) : Prop where
  qreach : Reach Queue.M (pq g ls)
  wf : ∀ t, Wf (ls t)

theorem Base.ginv {g : G} {ls : Tid → L} (h : Base g ls) : Queue.GInv g.q := (Queue.reach_invs h.qreach 0).1
theorem Base.linv {g : G} {ls : Tid → L} (h : Base g ls) (t : Tid) : Queue.LInv g.q (ls t).q :=
  (Queue.reach_invs h.qreach t).2.1
theorem Base.iinv {g : G} {ls : Tid → L} (h : Base g ls) (t : Tid) : Queue.IterInv g.q (ls t).q :=
  (Queue.reach_invs h.qreach t).2.2

/-- two queue steps of the same thread -/
theorem pq_step2 {g g' : G} {ls : Tid → L} {tid : Tid} {l' : L} {a1 a2 : Queue.Act} {o1 o2 : List Queue.Obs}
    {ql1 : Queue.L}
    (hs1 : Queue.step tid g.q (ls tid).q a1 = some (g'.q, ql1, o1))
    (hs2 : Queue.step tid g'.q ql1 a2 = some (g'.q, l'.q, o2)) (hr : Reach Queue.M (pq g ls)) :
    Reach Queue.M (pq g' (upd ls tid l')) := by
  have h1 := pq_step (g' := g') (l' := ⟨l'.w, ql1⟩) hs1 hr
  have h2 := pq_step (g := g') (g' := g') (ls := upd ls tid ⟨l'.w, ql1⟩) (tid := tid) (l' := l')
    (by simpa using hs2) h1
  rwa [upd_upd] at h2

theorem base_eff {cfg : Cfg} {tid : Tid} {g g' : G} {ls : Tid → L} {l' : L} (hb : Base g ls)
    (he : Eff cfg tid g (ls tid) g' l') : Base g' (upd ls tid l') := by
  have hwf := hb.wf tid
  have key : Reach Queue.M (pq g' (upd ls tid l')) ∧ Wf l' := by
    generalize hl : ls tid = l at he hwf
    cases he
    case call succ hw => exact ⟨by rw [pq_same rfl (by rw [hl])]; exact hb.qreach, by simpa [Wf, hw] using hwf⟩
    case tick succ t hw => exact ⟨by rw [pq_same rfl (by rw [hl])]; exact hb.qreach, by simpa [Wf, hw] using hwf⟩
    case ldBs succ t hw _ => exact ⟨by rw [pq_same rfl (by rw [hl])]; exact hb.qreach, by simpa [Wf, hw] using hwf⟩
    case ldSame succ t hw _ _ => exact ⟨by rw [pq_same rfl (by rw [hl])]; exact hb.qreach, by simpa [Wf, hw] using hwf⟩
    case ldRoll succ t hw _ _ => exact ⟨by rw [pq_same rfl (by rw [hl])]; exact hb.qreach, by simpa [Wf, hw] using hwf⟩
    case bsAdd succ t b hw hq =>
      refine ⟨pq_step (a := .offer b) (o := []) (by rw [hl, hq]; rfl) hb.qreach, ?_⟩
      simp [Wf, InOffer, offVal]
    case addSame succ t b hw =>
      exact ⟨by rw [pq_same rfl (by rw [hl])]; exact hb.qreach, by simpa [Wf, hw] using hwf⟩
    case rollAdd succ t old nw hw =>
      exact ⟨by rw [pq_same rfl (by rw [hl])]; exact hb.qreach, by simpa [Wf, hw] using hwf⟩
    case casWin t old nw hw hq _ =>
      refine ⟨pq_step (a := .offer old) (o := []) (by rw [hl, hq]; rfl) hb.qreach, ?_⟩
      simp [Wf, InOffer, offVal]
    case casLose t old nw hw hq _ =>
      refine ⟨pq_step (a := .offer nw) (o := []) (by rw [hl, hq]; rfl) hb.qreach, ?_⟩
      simp [Wf, InOffer, offVal]
    case rdS r b hw => exact ⟨by rw [pq_same rfl (by rw [hl])]; exact hb.qreach, by simpa [Wf, hw] using hwf⟩
    case rdF r b hw => exact ⟨by rw [pq_same rfl (by rw [hl])]; exact hb.qreach, by simpa [Wf, hw] using hwf⟩
    case store e hw =>
      exact ⟨by rw [pq_same rfl (by rw [hl])]; exact hb.qreach, by simpa [Wf, hw] using hwf⟩
    case headNext r it p hw hq hp =>
      refine ⟨pq_step (a := .next) (o := []) (by rw [hl, hq]; simp [Queue.step, hp]) hb.qreach, ?_⟩
      simp [Wf, inNext]
    case headExit r it hw hq hp =>
      refine ⟨pq_step (a := .drop) (o := []) (by rw [hl, hq]; simp [Queue.step]) hb.qreach, ?_⟩
      simp [Wf]
    case offerCont b gq1 ql1 o hw hs hne =>
      refine ⟨pq_step (a := .tau) (by rw [hl]; exact hs) hb.qreach, ?_⟩
      have hin : InOffer b l.q := by
        rcases hw with hw | hw | ⟨t, hw⟩ <;> simpa [Wf, hw] using hwf
      rcases offer_tau_shape hin hs with h | h
      · rcases hw with hw | hw | ⟨t, hw⟩ <;> simpa [Wf, hw] using h
      · exact absurd h hne
    case offerRet b gq1 o hw hs =>
      exact ⟨pq_step (a := .tau) (by rw [hl]; exact hs) hb.qreach, by simp [Wf]⟩
    case winRet t b gq1 o hw hs =>
      refine ⟨pq_step2 (a1 := .tau) (a2 := .iterator) (o2 := []) (by rw [hl]; exact hs) (by simp [Queue.step]) hb.qreach, ?_⟩
      simp [Wf, inMkIter]
    case mkIterCont t n0 gq1 ql1 o hw hs hni =>
      refine ⟨pq_step (a := .tau) (by rw [hl]; exact hs) hb.qreach, ?_⟩
      have hin : inMkIter l.q = true := by simpa [Wf, hw] using hwf
      rcases mkIter_tau_shape hin hs with h | h
      · simpa [Wf, hw] using h
      · rw [hni] at h; contradiction
    case mkIterRet t n0 gq1 it o hw hs =>
      exact ⟨pq_step (a := .tau) (by rw [hl]; exact hs) hb.qreach, by simp [Wf, isIdleIt]⟩
    case nextCont r gq1 ql1 o hw hs hni =>
      refine ⟨pq_step (a := .tau) (by rw [hl]; exact hs) hb.qreach, ?_⟩
      have hin : inNext l.q = true := by simpa [Wf, hw] using hwf
      rcases next_tau_shape hin hs with h | h
      · simpa [Wf, hw] using h
      · rw [hni] at h; contradiction
    case nextRemove r gq1 it pos b hw hs hlt hlr =>
      refine ⟨pq_step2 (a1 := .tau) (a2 := .remove) (o2 := []) (by rw [hl]; exact hs) (by simp [Queue.step, hlr]) hb.qreach, ?_⟩
      simp [Wf, isR0]
    case nextKeep r gq1 it pos b hw hs hlt hlr =>
      exact ⟨pq_step (a := .tau) (by rw [hl]; exact hs) hb.qreach, by simp [Wf, isIdleIt]⟩
    case removeRet r b gq1 it o hw hs =>
      exact ⟨pq_step (a := .tau) (by rw [hl]; exact hs) hb.qreach, by simp [Wf, isIdleIt]⟩
  refine ⟨key.1, fun u => ?_⟩
  by_cases hu : u = tid
  · subst hu; simpa using key.2
  · simpa [upd, hu] using hb.wf u


/-! ## Induction over reachable configurations, by micro-steps -/

theorem base_init (t0 : Int) : Base ⟨initW t0, Queue.init⟩ (fun _ => ⟨.idle, .idle⟩) :=
  ⟨Reach.init, fun _ => rfl⟩

theorem base_steps {cfg : Cfg} {tid : Tid} {g g' : G} {ls : Tid → L} {l' : L} (hb : Base g ls)
    (he : Steps cfg tid g (ls tid) g' l') : Base g' (upd ls tid l') := by
  cases he with
  | one e => exact base_eff hb e
  | two e1 hh e2 =>
    rename_i g1 l1
    have h1 := base_eff hb e1
    have h2 := base_eff (ls := upd ls tid l1) (tid := tid) h1 (by simpa using e2)
    rwa [upd_upd] at h2

/-- **Invariant rule.**  A predicate that holds initially and is preserved by every micro-step (from states satisfying
the base invariant) holds in every reachable configuration. -/
theorem reach_ind {cfg : Cfg} {t0 : Int} (I : G → (Tid → L) → Prop)
    (h0 : I ⟨initW t0, Queue.init⟩ (fun _ => ⟨.idle, .idle⟩))
    (hstep : ∀ g ls tid g' l', Base g ls → Base g' (upd ls tid l') → I g ls → Eff cfg tid g (ls tid) g' l' →
      I g' (upd ls tid l')) :
    ∀ c, Reach (M cfg t0) c → Base c.g c.l ∧ I c.g c.l := by
  apply inv_of_reach
  · exact ⟨base_init t0, h0⟩
  · intro c tid a g' l' obs ⟨hb, hi⟩ hs
    have hs' : step cfg tid c.g (c.l tid) a = some (g', l', obs) := hs
    have hst := step_eff (hb.wf tid) (hb.iinv tid) hs'
    refine ⟨base_steps hb hst, ?_⟩
    cases hst with
    | one e => exact hstep _ _ _ _ _ hb (base_eff hb e) hi e
    | two e1 hh e2 =>
      rename_i g1 l1
      have hb1 := base_eff hb e1
      have hi1 := hstep _ _ _ _ _ hb hb1 hi e1
      have e2' : Eff cfg tid g1 (upd c.l tid l1 tid) g' l' := by simpa using e2
      have hb2 := base_eff hb1 e2'
      have hi2 := hstep _ _ _ _ _ hb1 hb2 hi1 e2'
      rwa [upd_upd] at hi2

theorem reach_base {cfg : Cfg} {t0 : Int} (c : Config (M cfg t0)) (h : Reach (M cfg t0) c) : Base c.g c.l :=
  (reach_ind (cfg := cfg) (t0 := t0) (fun _ _ => True) trivial (fun _ _ _ _ _ _ _ _ _ => trivial) c h).1

end Garr.Breaker.Fine
