import Garr.Conc
import Garr.Breaker.Conc
/-!
# Invariants of the sliding-window counter under concurrency (C10, breaker layer)

Invariants and lemmas about the window part of `Garr.Breaker.M` (`Garr/Breaker/Conc.lean`): the steps `w0 … w3` of
a report on a CLOSED state object and the creation of a new window by `h3 .succ`.  The property theorems built on
them are in `Garr/Props/C10.lean`.

**Layer.**  The model takes the reservoir (lock-free queue with iterator/`Remove`) and the bucket counters (striped
adders) through their sequential specifications, atomically with the breaker-layer access that precedes them
(layered proof; the linearizability of the lower layers is C01/C13/C02/C09).  AT THIS LAYER every roll counts
*exactly* the events recorded so far in buckets whose interval began within the sliding window.  The full stack of
the real code is weaker — the roller can be delayed between swapping the bucket and archiving it, and a concurrent
`Sum` may miss in-flight increments — which is why the first sentence of property C10 is an upper bound; the upper
bound and the equality after quiescence for the full stack are checked on the real code by monitors, not here.

**Ghost log.**  `Obs.recorded w stamp succ`: a report was recorded in window `w` in a bucket with timestamp `stamp`;
`Obs.rolled w t s f`: the roll of window `w` at tick `t` computed `s/f` (emitted in the same step, before the
roller's own `recorded w t succ`).

* §A `getD'` lemmas.  §B counting: `inWin g w` (bucket ids of window `w`: reservoir, then current), `bsum`/`bktS`/`bktF`
  (sum of the counters of the buckets with `ts ≥ x`, in `Int`), `recN`/`recS`/`recF` (number of `recorded w stamp k`
  log entries with `stamp ≥ x`), `lastRoll w lg` (tick of the last roll), `lim cfg w lg` (its trim limit).
* §C `WEff`/`step_eff`: the effect of one step on windows and buckets, in six classes (quiet, back-in-time reporter,
  CAS loser, add to the current bucket, winning roll, new window).
* §D `SInv` (structure, no guard needed, for every `Reach`able configuration): bucket ids of a window exist, no id
  twice in `inWin g w` (each bucket at most once in the reservoir, the current bucket not in it), different windows
  share no bucket.
* §E–F log and bucket-sum lemmas; `fold_trim`: the model's wrapped fold over the trimmed reservoir is the exact sum.
* §G the guard (`WNoWrap`, `TB`, `SchedOK`: readings within `±2^61`, `0 < interval, window ≤ 2^61`, fewer than `2^61`
  schedule entries), the per-thread promise `LOk` (a pending roller read `t ≥ ts(loaded bucket) + interval`), the
  global invariant `WGInv` with the counting equation
  `∀ x ≥ lim w, bsum g k (inWin g w) x = recN w k x lg`, "the current bucket's timestamp is the last roll's tick",
  and `RollsOK`: every `rolled w t s f` entry has `s/f =` the `recorded` entries before it with stamp `≥ t - window`
  and `t ≥ (previous roll tick of w) + interval`.
* §H `WInv`, `winv_step`, `run_ind_n` (forward induction over `run` carrying log and step count), `winv_run`.
* §I one `recorded` per report (`recorded_once_step`, `OpPath`, `opPath_conserves`).
* §J `backstep_step`, `loser_step`.  §K `bucket_ts_is_reading`.  §L the stored snapshot is the roll's count.
-/
namespace Garr.Breaker
open Garr Garr.Conc

/-! ## A. Lists with default lookup -/

theorem getD'_set_eq {α} (l : List α) (i : Nat) (x d : α) (h : i < l.length) : getD' (l.set i x) i d = x := by
  simp [getD', h]

theorem getD'_set_ne {α} (l : List α) (i j : Nat) (x d : α) (h : i ≠ j) : getD' (l.set i x) j d = getD' l j d := by
  simp [getD', List.getElem?_set_ne h]

theorem getD'_append_lt {α} (l : List α) (i : Nat) (x d : α) (h : i < l.length) :
    getD' (l ++ [x]) i d = getD' l i d := by
  simp [getD', List.getElem?_append_left h]

theorem getD'_append_eq {α} (l : List α) (x d : α) : getD' (l ++ [x]) l.length d = x := by
  simp [getD']

theorem getD'_ge {α} (l : List α) (i : Nat) (d : α) (h : l.length ≤ i) : getD' l i d = d := by
  simp [getD', List.getElem?_eq_none h]

/-! ## B. What the buckets hold, what the log says -/

/-- the success (`true`) or failure (`false`) counter of a bucket -/
def selB (k : Bool) (bk : Bucket) : Int := match k with | true => bk.s | false => bk.f

/-- the bucket ids of window `w`: reservoir, then the current bucket -/
def inWin (g : CG) (w : Nat) : List Nat := (g.win w).res ++ [(g.win w).cur]

/-- `Σ` of the `k`-counters of the buckets `b ∈ ids` with `ts ≥ x` (in `Int`, no wrap) -/
def bsum (g : CG) (k : Bool) : List Nat → Int → Int
  | [], _ => 0
  | b :: ids, x => (if x ≤ (g.bucket b).ts then selB k (g.bucket b) else 0) + bsum g k ids x

def bktS (g : CG) (ids : List Nat) (x : Int) : Int := bsum g true ids x
def bktF (g : CG) (ids : List Nat) (x : Int) : Int := bsum g false ids x

def recHit (w : Nat) (k : Bool) (x : Int) (e : Tid × Obs) : Bool :=
  match e.2 with
  | .recorded w' stamp k' => decide (w' = w) && decide (k' = k) && decide (x ≤ stamp)
  | _ => false

/-- number of entries `recorded w stamp k` with `stamp ≥ x` -/
def recN (w : Nat) (k : Bool) (x : Int) (lg : List (Tid × Obs)) : Int := ((lg.countP (recHit w k x) : Nat) : Int)

def recS (w : Nat) (x : Int) (lg : List (Tid × Obs)) : Int := recN w true x lg
def recF (w : Nat) (x : Int) (lg : List (Tid × Obs)) : Int := recN w false x lg

def Obs.isRec : Obs → Bool | .recorded .. => true | _ => false
def Obs.isRolled : Obs → Bool | .rolled .. => true | _ => false

/-- number of `recorded` entries (any window) -/
def nrec (lg : List (Tid × Obs)) : Nat := lg.countP (fun e => e.2.isRec)

def rollTick (w : Nat) (e : Tid × Obs) : Option Int :=
  match e.2 with
  | .rolled w' t _ _ => if w' = w then some t else none
  | _ => none

/-- the tick of the last roll of window `w` in the log -/
def lastRoll (w : Nat) (lg : List (Tid × Obs)) : Option Int := (lg.filterMap (rollTick w)).getLast?

/-- the trim limit of the last roll of window `w`; by `RollsOK` (roll ticks increase) it is the largest so far -/
def lim (cfg : Config) (w : Nat) (lg : List (Tid × Obs)) : Option Int := (lastRoll w lg).map (· - cfg.window)

/-- the step's observations contain no window ghost -/
def noW (obs : List Obs) : Bool := obs.all (fun o => !o.isRec && !o.isRolled)

/-! ## C. Effect of one step on windows and buckets -/

def SameWins (g g' : CG) : Prop :=
  g'.wins.length = g.wins.length ∧ ∀ w, (g'.win w).cur = (g.win w).cur ∧ (g'.win w).res = (g.win w).res

def ObjsStep (g g' : CG) : Prop :=
  g'.objs = g.objs ∨ ∃ n, g'.objs = g.objs ++ [n] ∧ (n.win = 0 ∨ n.win < g'.wins.length)

inductive WEff (cfg : Config) (g : CG) : L → CG → List Obs → Prop
  | quiet {l g' obs} : g'.buckets = g.buckets → SameWins g g' → noW obs = true → WEff cfg g l g' obs
  | back {g'} (c : Call) (o w : Nat) (t : Int) :
      t < (g.bucket (g.win w).cur).ts →
      g'.buckets = g.buckets ++ [mkBucket t (decide (c = .succ))] →
      g'.wins = setAt g.wins w { g.win w with res := (g.win w).res ++ [g.buckets.length] } →
      WEff cfg g (.w1 c o w t) g' [.recorded w t (decide (c = .succ)), .ret none]
  | lose {g'} (c : Call) (o w : Nat) (t : Int) (b : Nat) :
      (g.win w).cur ≠ b →
      g'.buckets = g.buckets ++ [mkBucket t (decide (c = .succ))] →
      g'.wins = setAt g.wins w { g.win w with res := (g.win w).res ++ [g.buckets.length] } →
      WEff cfg g (.w2 c o w t b) g' [.recorded w t (decide (c = .succ)), .ret none]
  | add {g'} (c : Call) (o w : Nat) (t : Int) :
      ¬ t < (g.bucket (g.win w).cur).ts →
      t < wrap64 ((g.bucket (g.win w).cur).ts + cfg.interval) →
      g'.buckets = setAt g.buckets (g.win w).cur ((g.bucket (g.win w).cur).add (decide (c = .succ))) →
      g'.wins = g.wins →
      WEff cfg g (.w1 c o w t) g' [.recorded w (g.bucket (g.win w).cur).ts (decide (c = .succ)), .ret none]
  | roll {g'} (c : Call) (o w : Nat) (t : Int) (g1 : CG) (kept : List Nat) :
      g1.buckets = g.buckets ++ [mkBucket t (decide (c = .succ))] →
      kept = trimIds g1 (wrap64 (t - cfg.window)) ((g.win w).res ++ [(g.win w).cur]) →
      g'.buckets = g1.buckets →
      g'.wins = setAt g.wins w { g.win w with cur := g.buckets.length, res := kept } →
      WEff cfg g (.w2 c o w t (g.win w).cur) g'
        [.rolled w t (sumIdsS g1 kept) (sumIdsF g1 kept), .recorded w t (decide (c = .succ))]
  | new {g' obs} (o : Nat) (t1 t2 : Int) :
      g'.buckets = g.buckets ++ [⟨t1, 0, 0⟩] →
      g'.wins = g.wins ++ [⟨g.buckets.length, [], (0, 0)⟩] →
      noW obs = true →
      WEff cfg g (.h3 .succ o t1 t2) g' obs

theorem sameWins_refl (g : CG) : SameWins g g := ⟨rfl, fun _ => ⟨rfl, rfl⟩⟩

theorem sameWins_of_wins {g g' : CG} (h : g'.wins = g.wins) : SameWins g g' := by
  refine ⟨by rw [h], fun w => ?_⟩
  simp [CG.win, h]

theorem sameWins_snap (g g' : CG) (w : Nat) (e : Int × Int)
    (h : g'.wins = setAt g.wins w { g.win w with snap := e }) : SameWins g g' := by
  refine ⟨by simp [h, setAt], fun w' => ?_⟩
  simp only [CG.win, h, setAt]
  by_cases hw : w = w'
  · subst hw
    by_cases hl : w < g.wins.length
    · rw [getD'_set_eq _ _ _ _ hl]; exact ⟨rfl, rfl⟩
    · rw [List.set_eq_of_length_le (by omega)]; exact ⟨rfl, rfl⟩
  · rw [getD'_set_ne _ _ _ _ _ hw]; exact ⟨rfl, rfl⟩

theorem afterReport_noW (cfg : Config) (c : Call) (o : Nat) (e : Cnt) : noW (afterReport cfg c o e).2 = true := by
  unfold afterReport
  split
  · rfl
  · split
    · split <;> simp [noW, Obs.isRec, Obs.isRolled]
    · simp [noW, Obs.isRec, Obs.isRolled]

set_option hygiene false in
local macro "fin_quiet" : tactic => `(tactic| (
  simp only [Option.some.injEq, Prod.mk.injEq] at hs
  obtain ⟨rfl, rfl, rfl⟩ := hs
  exact ⟨Or.inl rfl, WEff.quiet rfl (sameWins_refl _) (by simp [noW, Obs.isRec, Obs.isRolled])⟩))

set_option hygiene false in
local macro "fin_publish" : tactic => `(tactic| (
  simp only [Option.some.injEq, Prod.mk.injEq] at hs
  obtain ⟨rfl, rfl, rfl⟩ := hs
  exact ⟨Or.inr ⟨_, rfl, Or.inl rfl⟩, WEff.quiet rfl (sameWins_refl _) (by simp [noW, Obs.isRec, Obs.isRolled])⟩))

theorem step_eff {cfg : Config} {t : Tid} {g g' : CG} {l l' : L} {a : Act} {obs : List Obs}
    (hs : step cfg t g l a = some (g', l', obs)) : ObjsStep g g' ∧ WEff cfg g l g' obs := by
  unfold step at hs
  split at hs
  case h_1 => fin_quiet
  case h_2 =>
    dsimp only at hs
    split at hs
    · fin_quiet
    · fin_quiet
    · split at hs <;> fin_quiet
    · split at hs <;> fin_quiet
    · fin_quiet
    · fin_quiet
  case h_3 => split at hs <;> fin_quiet
  case h_4 => fin_quiet
  case h_5 =>
    split at hs
    · fin_publish
    · fin_quiet
  case h_6 => fin_quiet
  case h_7 c o w t =>
    dsimp only at hs
    split at hs
    · rename_i h1
      simp only [Option.some.injEq, Prod.mk.injEq] at hs
      obtain ⟨rfl, rfl, rfl⟩ := hs
      exact ⟨Or.inl rfl, WEff.back c o w t h1 rfl rfl⟩
    · rename_i h1
      split at hs
      · rename_i h2
        simp only [Option.some.injEq, Prod.mk.injEq] at hs
        obtain ⟨rfl, rfl, rfl⟩ := hs
        exact ⟨Or.inl rfl, WEff.add c o w t h1 h2 rfl rfl⟩
      · fin_quiet
  case h_8 c o w t b =>
    dsimp only at hs
    split at hs
    · rename_i h1
      simp only [Option.some.injEq, Prod.mk.injEq] at hs
      obtain ⟨rfl, rfl, rfl⟩ := hs
      subst h1
      exact ⟨Or.inl rfl, WEff.roll c o w t _ _ rfl rfl rfl rfl⟩
    · rename_i h1
      simp only [Option.some.injEq, Prod.mk.injEq] at hs
      obtain ⟨rfl, rfl, rfl⟩ := hs
      exact ⟨Or.inl rfl, WEff.lose c o w t b h1 rfl rfl⟩
  case h_9 c o w e =>
    dsimp only at hs
    have hn := afterReport_noW cfg c o (some e)
    generalize afterReport cfg c o (some e) = r at hs hn
    obtain ⟨l1, ob1⟩ := r
    simp only [Option.some.injEq, Prod.mk.injEq] at hs
    obtain ⟨rfl, rfl, rfl⟩ := hs
    exact ⟨Or.inl rfl, WEff.quiet rfl (sameWins_snap _ _ w e rfl) hn⟩
  case h_10 => fin_quiet
  case h_11 =>
    split at hs
    · fin_publish
    · fin_quiet
  case h_12 => fin_quiet
  case h_13 => fin_quiet
  case h_14 => fin_quiet
  case h_15 => fin_quiet
  case h_16 o t1 t2 =>
    split at hs
    · simp only [Option.some.injEq, Prod.mk.injEq] at hs
      obtain ⟨rfl, rfl, rfl⟩ := hs
      refine ⟨Or.inr ⟨_, rfl, Or.inr ?_⟩, WEff.new o t1 t2 rfl rfl (by simp [noW, Obs.isRec, Obs.isRolled])⟩
      simp [publish]
    · fin_quiet
  case h_17 =>
    split at hs
    · fin_publish
    · fin_quiet
  case h_18 => cases hs

/-! ## D. Structure: every bucket is in at most one window, at most once -/

theorem win_set_eq {g g' : CG} {w : Nat} {x : CWin} (h : g'.wins = setAt g.wins w x) (hw : w < g.wins.length) :
    g'.win w = x := by
  simp only [CG.win, h, setAt]; exact getD'_set_eq _ _ _ _ hw

theorem win_set_ne {g g' : CG} {w w' : Nat} {x : CWin} (h : g'.wins = setAt g.wins w x) (hne : w ≠ w') :
    g'.win w' = g.win w' := by
  simp only [CG.win, h, setAt]; exact getD'_set_ne _ _ _ _ _ hne

theorem wins_set_ge {g g' : CG} {w : Nat} {x : CWin} (h : g'.wins = setAt g.wins w x) (hw : g.wins.length ≤ w) :
    g'.wins = g.wins := by
  rw [h, setAt, List.set_eq_of_length_le hw]

theorem wins_set_length {g g' : CG} {w : Nat} {x : CWin} (h : g'.wins = setAt g.wins w x) :
    g'.wins.length = g.wins.length := by
  rw [h, setAt, List.length_set]

theorem inWin_of_wins {g g' : CG} (h : g'.wins = g.wins) (w : Nat) : inWin g' w = inWin g w := by
  simp [inWin, CG.win, h]

theorem inWin_of_sameWins {g g' : CG} (h : SameWins g g') (w : Nat) : inWin g' w = inWin g w := by
  simp [inWin, (h.2 w).1, (h.2 w).2]

theorem inWin_set_ne {g g' : CG} {w w' : Nat} {x : CWin} (h : g'.wins = setAt g.wins w x) (hne : w ≠ w') :
    inWin g' w' = inWin g w' := by
  simp [inWin, win_set_ne h hne]

structure SInv (g : CG) : Prop where
  rng : ∀ w, w < g.wins.length → ∀ b ∈ inWin g w, b < g.buckets.length
  nodup : ∀ w, w < g.wins.length → (inWin g w).Nodup
  disj : ∀ w1 w2, w1 < g.wins.length → w2 < g.wins.length → w1 ≠ w2 → ∀ b, b ∈ inWin g w1 → b ∉ inWin g w2

theorem sinv_init (t1 t2 : Int) : SInv (initG t1 t2) := by
  constructor
  · intro w hw b hb
    have : w = 0 := by simp [initG] at hw; omega
    subst this
    simp [inWin, CG.win, getD', initG] at hb
    simp [hb, initG]
  · intro w hw
    have : w = 0 := by simp [initG] at hw; omega
    subst this
    simp [inWin, CG.win, getD', initG]
  · intro w1 w2 h1 h2 hne
    simp [initG] at h1 h2; omega

theorem sinv_grow {g g' : CG} (h : SInv g) (hw : g'.wins = g.wins) (hb : g.buckets.length ≤ g'.buckets.length) :
    SInv g' := by
  constructor
  · intro w hwl b hbm
    rw [inWin_of_wins hw] at hbm; rw [hw] at hwl
    exact Nat.lt_of_lt_of_le (h.rng w hwl b hbm) hb
  · intro w hwl
    rw [inWin_of_wins hw]; rw [hw] at hwl
    exact h.nodup w hwl
  · intro w1 w2 h1 h2 hne b
    rw [inWin_of_wins hw, inWin_of_wins hw]; rw [hw] at h1 h2
    exact h.disj w1 w2 h1 h2 hne b

/-- window `w` gets the new id list `ids'`, made of old ids of `w` (each at most once) and the fresh bucket id -/
theorem sinv_replace {g g' : CG} {w : Nat} {x : CWin} (h : SInv g) (hw : w < g.wins.length)
    (hwins : g'.wins = setAt g.wins w x) (hbl : g'.buckets.length = g.buckets.length + 1)
    (hsub : ∀ b ∈ x.res ++ [x.cur], b ∈ inWin g w ∨ b = g.buckets.length)
    (hnd : (x.res ++ [x.cur]).Nodup) : SInv g' := by
  have hlen := wins_set_length hwins
  have hx : inWin g' w = x.res ++ [x.cur] := by simp [inWin, win_set_eq hwins hw]
  constructor
  · intro w' hw' b hb
    rw [hlen] at hw'
    by_cases hne : w = w'
    · subst hne
      rw [hx] at hb
      rcases hsub b hb with h1 | h1
      · have := h.rng w hw b h1; omega
      · omega
    · rw [inWin_set_ne hwins hne] at hb
      have := h.rng w' hw' b hb; omega
  · intro w' hw'
    rw [hlen] at hw'
    by_cases hne : w = w'
    · subst hne; rw [hx]; exact hnd
    · rw [inWin_set_ne hwins hne]; exact h.nodup w' hw'
  · intro w1 w2 h1 h2 hne b hb1 hb2
    rw [hlen] at h1 h2
    by_cases e1 : w = w1
    · subst e1
      rw [hx] at hb1
      rw [inWin_set_ne hwins hne] at hb2
      rcases hsub b hb1 with h3 | h3
      · exact h.disj w w2 h1 h2 hne b h3 hb2
      · have := h.rng w2 h2 b hb2; omega
    · rw [inWin_set_ne hwins e1] at hb1
      by_cases e2 : w = w2
      · subst e2
        rw [hx] at hb2
        rcases hsub b hb2 with h3 | h3
        · exact h.disj w1 w h1 h2 hne b hb1 h3
        · have := h.rng w1 h1 b hb1; omega
      · rw [inWin_set_ne hwins e2] at hb2
        exact h.disj w1 w2 h1 h2 hne b hb1 hb2

theorem mem_trimIds {g : CG} {L : Int} {ids : List Nat} {b : Nat} (h : b ∈ trimIds g L ids) : b ∈ ids :=
  (List.mem_filter.mp h).1

theorem sinv_push {g g' : CG} {w : Nat} {bk : Bucket} (h : SInv g)
    (hb : g'.buckets = g.buckets ++ [bk])
    (hwins : g'.wins = setAt g.wins w { g.win w with res := (g.win w).res ++ [g.buckets.length] }) : SInv g' := by
  have hbl : g'.buckets.length = g.buckets.length + 1 := by simp [hb]
  by_cases hw : w < g.wins.length
  · refine sinv_replace h hw hwins hbl ?_ ?_
    · intro b hb
      simp only [List.mem_append, List.mem_singleton] at hb
      simp only [inWin, List.mem_append, List.mem_singleton]
      rcases hb with (hb | hb) | hb
      · exact Or.inl (Or.inl hb)
      · exact Or.inr hb
      · exact Or.inl (Or.inr hb)
    · have hnd := h.nodup w hw
      have hr := h.rng w hw
      simp only [inWin] at hnd hr
      rw [List.nodup_append] at hnd ⊢
      obtain ⟨n1, n2, n3⟩ := hnd
      refine ⟨?_, n2, ?_⟩
      · rw [List.nodup_append]
        refine ⟨n1, by simp, ?_⟩
        intro a ha b hb
        simp only [List.mem_singleton] at hb
        have := hr a (List.mem_append_left _ ha); omega
      · intro a ha b hb
        simp only [List.mem_singleton] at hb
        simp only [List.mem_append, List.mem_singleton] at ha
        rcases ha with ha | ha
        · exact n3 a ha b (by simp [hb])
        · have := hr b (by simp [hb]); omega
  · exact sinv_grow h (wins_set_ge hwins (by omega)) (by omega)

theorem sinv_step {cfg : Config} {g g' : CG} {l : L} {obs : List Obs} (h : SInv g) (he : WEff cfg g l g' obs) :
    SInv g' := by
  cases he with
  | quiet hb hw _ =>
    constructor
    · intro w hwl b hbm
      rw [inWin_of_sameWins hw] at hbm; rw [hw.1] at hwl; rw [hb]
      exact h.rng w hwl b hbm
    · intro w hwl
      rw [inWin_of_sameWins hw]; rw [hw.1] at hwl
      exact h.nodup w hwl
    · intro w1 w2 h1 h2 hne b
      rw [inWin_of_sameWins hw, inWin_of_sameWins hw]; rw [hw.1] at h1 h2
      exact h.disj w1 w2 h1 h2 hne b
  | back c o w t _ hb hw => exact sinv_push h hb hw
  | lose c o w t b _ hb hw => exact sinv_push h hb hw
  | add c o w t _ _ hb hw => exact sinv_grow h hw (by simp [hb, setAt])
  | roll c o w t g1 kept hg1 hk hb hwins =>
    have hbl : g'.buckets.length = g.buckets.length + 1 := by simp [hb, hg1]
    by_cases hw : w < g.wins.length
    · refine sinv_replace h hw hwins hbl ?_ ?_
      · intro b hbm
        simp only [List.mem_append, List.mem_singleton] at hbm
        rcases hbm with hbm | hbm
        · rw [hk] at hbm; exact Or.inl (mem_trimIds hbm)
        · exact Or.inr hbm
      · show (kept ++ [g.buckets.length]).Nodup
        rw [List.nodup_append]
        refine ⟨?_, by simp, ?_⟩
        · rw [hk]; exact (h.nodup w hw).sublist List.filter_sublist
        · intro a ha b hb'
          simp only [List.mem_singleton] at hb'
          rw [hk] at ha
          have := h.rng w hw a (mem_trimIds ha); omega
    · exact sinv_grow h (wins_set_ge hwins (by omega)) (by omega)
  | new o t1 t2 hb hw _ =>
    have hwl : g'.wins.length = g.wins.length + 1 := by simp [hw]
    have hbl : g'.buckets.length = g.buckets.length + 1 := by simp [hb]
    have hold : ∀ w, w < g.wins.length → inWin g' w = inWin g w := by
      intro w hwlt
      simp only [inWin, CG.win, hw]
      rw [getD'_append_lt _ _ _ _ hwlt]
    have hnew : inWin g' g.wins.length = [g.buckets.length] := by
      simp only [inWin, CG.win, hw]
      rw [getD'_append_eq]; rfl
    constructor
    · intro w hwlt b hbm
      by_cases e : w < g.wins.length
      · rw [hold w e] at hbm; have := h.rng w e b hbm; omega
      · have : w = g.wins.length := by omega
        subst this; rw [hnew] at hbm; simp at hbm; omega
    · intro w hwlt
      by_cases e : w < g.wins.length
      · rw [hold w e]; exact h.nodup w e
      · have : w = g.wins.length := by omega
        subst this; rw [hnew]; simp
    · intro w1 w2 h1 h2 hne b hb1 hb2
      by_cases e1 : w1 < g.wins.length
      · rw [hold w1 e1] at hb1
        by_cases e2 : w2 < g.wins.length
        · rw [hold w2 e2] at hb2; exact h.disj w1 w2 e1 e2 hne b hb1 hb2
        · have : w2 = g.wins.length := by omega
          subst this; rw [hnew] at hb2; simp at hb2
          have := h.rng w1 e1 b hb1; omega
      · have : w1 = g.wins.length := by omega
        subst this; rw [hnew] at hb1; simp at hb1
        have e2 : w2 < g.wins.length := by omega
        rw [hold w2 e2] at hb2
        have := h.rng w2 e2 b hb2; omega

theorem sinv_reach (cfg : Config) (t1 t2 : Int) (c : Conc.Config (M cfg t1 t2)) (h : Reach (M cfg t1 t2) c) : SInv c.g := by
  refine inv_of_reach (M cfg t1 t2) (fun c => SInv c.g) (sinv_init t1 t2) ?_ c h
  intro c t a g' l' obs hi hs
  have hs' : step cfg t c.g (c.l t) a = some (g', l', obs) := hs
  exact sinv_step hi (step_eff hs').2

/-! ## E. Log functions along a step -/

theorem recN_append (w : Nat) (k : Bool) (x : Int) (l1 l2 : List (Tid × Obs)) :
    recN w k x (l1 ++ l2) = recN w k x l1 + recN w k x l2 := by
  simp [recN, List.countP_append]

theorem recN_nonneg (w : Nat) (k : Bool) (x : Int) (lg : List (Tid × Obs)) : 0 ≤ recN w k x lg := by
  simp [recN]

theorem recHit_isRec {w : Nat} {k : Bool} {x : Int} {e : Tid × Obs} (h : recHit w k x e = true) : e.2.isRec = true := by
  obtain ⟨t, o⟩ := e
  cases o <;> simp_all [recHit, Obs.isRec]

theorem recN_le_nrec (w : Nat) (k : Bool) (x : Int) (lg : List (Tid × Obs)) : recN w k x lg ≤ nrec lg := by
  unfold recN nrec
  exact Int.ofNat_le.mpr (List.countP_mono_left (fun e _ h => recHit_isRec h))

theorem nrec_append (l1 l2 : List (Tid × Obs)) : nrec (l1 ++ l2) = nrec l1 + nrec l2 := by
  simp [nrec, List.countP_append]

theorem lastRoll_append (w : Nat) (l1 l2 : List (Tid × Obs)) :
    lastRoll w (l1 ++ l2) = (lastRoll w l2).or (lastRoll w l1) := by
  simp [lastRoll, List.filterMap_append, List.getLast?_append]

/-- the log entries of one step -/
abbrev tag (t : Tid) (obs : List Obs) : List (Tid × Obs) := obs.map (fun o => (t, o))

theorem noW_mem {obs : List Obs} (h : noW obs = true) {o : Obs} (ho : o ∈ obs) : o.isRec = false ∧ o.isRolled = false := by
  have := List.all_eq_true.mp h o ho
  simpa using this

theorem recN_quiet {obs : List Obs} (h : noW obs = true) (t : Tid) (w : Nat) (k : Bool) (x : Int) :
    recN w k x (tag t obs) = 0 := by
  unfold recN
  have : List.countP (recHit w k x) (tag t obs) = 0 := by
    rw [List.countP_eq_zero]
    intro e he
    obtain ⟨o, ho, rfl⟩ := List.mem_map.mp he
    intro hh
    have := recHit_isRec hh
    simp [(noW_mem h ho).1] at this
  simp [this]

theorem nrec_quiet {obs : List Obs} (h : noW obs = true) (t : Tid) : nrec (tag t obs) = 0 := by
  unfold nrec
  rw [List.countP_eq_zero]
  intro e he
  obtain ⟨o, ho, rfl⟩ := List.mem_map.mp he
  simp [(noW_mem h ho).1]

theorem rollTick_isRolled {w : Nat} {e : Tid × Obs} {t : Int} (h : rollTick w e = some t) : e.2.isRolled = true := by
  obtain ⟨t, o⟩ := e
  cases o <;> simp_all [rollTick, Obs.isRolled]

theorem lastRoll_noRoll {l : List (Tid × Obs)} (h : ∀ e ∈ l, e.2.isRolled = false) (w : Nat) : lastRoll w l = none := by
  unfold lastRoll
  have : l.filterMap (rollTick w) = [] := by
    rw [List.filterMap_eq_nil_iff]
    intro e he
    cases hr : rollTick w e with
    | none => rfl
    | some t => have := rollTick_isRolled hr; simp [h e he] at this
  simp [this]

theorem lastRoll_quiet {obs : List Obs} (h : noW obs = true) (t : Tid) (w : Nat) : lastRoll w (tag t obs) = none := by
  apply lastRoll_noRoll
  intro e he
  obtain ⟨o, ho, rfl⟩ := List.mem_map.mp he
  exact (noW_mem h ho).2

/-- what a `rolled w t s f` entry must satisfy with respect to the log before it -/
def RollOK (cfg : Config) (pre : List (Tid × Obs)) (w : Nat) (t s f : Int) : Prop :=
  s = recN w true (t - cfg.window) pre ∧ f = recN w false (t - cfg.window) pre ∧
  ∀ t', lastRoll w pre = some t' → t' + cfg.interval ≤ t

def RollsOK (cfg : Config) (lg : List (Tid × Obs)) : Prop :=
  ∀ pre tid w t s f post, lg = pre ++ (tid, Obs.rolled w t s f) :: post → RollOK cfg pre w t s f

theorem rollsOK_nil (cfg : Config) : RollsOK cfg [] := by
  intro pre tid w t s f post h
  simp at h

theorem rollsOK_append {cfg : Config} {lg l2 : List (Tid × Obs)} (h : RollsOK cfg lg)
    (h2 : ∀ pre' tid w t s f post', l2 = pre' ++ (tid, Obs.rolled w t s f) :: post' → RollOK cfg (lg ++ pre') w t s f) :
    RollsOK cfg (lg ++ l2) := by
  intro pre tid w t s f post he
  rw [List.append_eq_append_iff] at he
  rcases he with ⟨as, h3, h4⟩ | ⟨bs, h3, h4⟩
  · rw [h3]; exact h2 _ _ _ _ _ _ _ h4
  · cases bs with
    | nil =>
      simp only [List.append_nil, List.nil_append] at h3 h4
      have := h2 [] tid w t s f post h4.symm
      simpa [h3] using this
    | cons b bs =>
      simp only [List.cons_append, List.cons.injEq] at h4
      obtain ⟨rfl, _⟩ := h4
      exact h _ _ _ _ _ _ _ h3

theorem rollsOK_noRoll {cfg : Config} {lg l2 : List (Tid × Obs)} (h : RollsOK cfg lg)
    (h2 : ∀ e ∈ l2, e.2.isRolled = false) : RollsOK cfg (lg ++ l2) := by
  apply rollsOK_append h
  intro pre' tid w t s f post' he
  have := h2 (tid, Obs.rolled w t s f) (by rw [he]; simp)
  simp [Obs.isRolled] at this

theorem rollsOK_quiet {cfg : Config} {lg : List (Tid × Obs)} {obs : List Obs} (h : RollsOK cfg lg)
    (hq : noW obs = true) (t : Tid) : RollsOK cfg (lg ++ tag t obs) := by
  apply rollsOK_noRoll h
  intro e he
  obtain ⟨o, ho, rfl⟩ := List.mem_map.mp he
  exact (noW_mem hq ho).2

theorem recN_tag_rec (lg : List (Tid × Obs)) (t : Tid) (w : Nat) (st : Int) (b : Bool) (w' : Nat) (k : Bool) (x : Int) :
    recN w' k x (lg ++ tag t [.recorded w st b, .ret none]) =
      recN w' k x lg + (if w = w' ∧ b = k ∧ x ≤ st then 1 else 0) := by
  rw [recN_append]
  congr 1
  simp only [recN, tag, List.map_cons, List.map_nil, List.countP_cons, List.countP_nil, recHit]
  by_cases h : w = w' ∧ b = k ∧ x ≤ st
  · simp [h]
  · rw [if_neg h]
    simp only [Bool.and_eq_true, decide_eq_true_eq, ← and_assoc] at h ⊢
    simp [h]

theorem recN_tag_roll (lg : List (Tid × Obs)) (t : Tid) (w : Nat) (tt s f st : Int) (b : Bool) (w' : Nat) (k : Bool) (x : Int) :
    recN w' k x (lg ++ tag t [.rolled w tt s f, .recorded w st b]) =
      recN w' k x lg + (if w = w' ∧ b = k ∧ x ≤ st then 1 else 0) := by
  rw [recN_append]
  congr 1
  simp only [recN, tag, List.map_cons, List.map_nil, List.countP_cons, List.countP_nil, recHit]
  by_cases h : w = w' ∧ b = k ∧ x ≤ st
  · simp [h]
  · rw [if_neg h]
    simp only [Bool.and_eq_true, decide_eq_true_eq, ← and_assoc] at h ⊢
    simp [h]

theorem nrec_tag_rec (lg : List (Tid × Obs)) (t : Tid) (w : Nat) (st : Int) (b : Bool) :
    nrec (lg ++ tag t [.recorded w st b, .ret none]) = nrec lg + 1 := by
  rw [nrec_append]; simp [nrec, tag, Obs.isRec]

theorem nrec_tag_roll (lg : List (Tid × Obs)) (t : Tid) (w : Nat) (tt s f st : Int) (b : Bool) :
    nrec (lg ++ tag t [.rolled w tt s f, .recorded w st b]) = nrec lg + 1 := by
  rw [nrec_append]; simp [nrec, tag, Obs.isRec]

theorem lastRoll_tag_rec (lg : List (Tid × Obs)) (t : Tid) (w : Nat) (st : Int) (b : Bool) (w' : Nat) :
    lastRoll w' (lg ++ tag t [.recorded w st b, .ret none]) = lastRoll w' lg := by
  have h1 : lastRoll w' (tag t [.recorded w st b, .ret none]) = none :=
    lastRoll_noRoll (by simp [tag, Obs.isRolled]) w'
  rw [lastRoll_append, h1, Option.none_or]

theorem lastRoll_tag_roll (lg : List (Tid × Obs)) (t : Tid) (w : Nat) (tt s f st : Int) (b : Bool) (w' : Nat) :
    lastRoll w' (lg ++ tag t [.rolled w tt s f, .recorded w st b]) = if w = w' then some tt else lastRoll w' lg := by
  rw [lastRoll_append]
  by_cases h : w = w'
  · have : List.filterMap (rollTick w') (tag t [.rolled w tt s f, .recorded w st b]) = [tt] := by
      simp [tag, List.filterMap_cons, rollTick, h]
    rw [if_pos h, lastRoll, this]; rfl
  · have : List.filterMap (rollTick w') (tag t [.rolled w tt s f, .recorded w st b]) = [] := by
      simp [tag, List.filterMap_cons, rollTick, h]
    rw [if_neg h, lastRoll, this]; rfl

/-! ## F. Bucket sums -/

theorem bucket_app_lt {g g' : CG} {bk : Bucket} (h : g'.buckets = g.buckets ++ [bk]) {b : Nat}
    (hb : b < g.buckets.length) : g'.bucket b = g.bucket b := by
  simp only [CG.bucket, h]; exact getD'_append_lt _ _ _ _ hb

theorem bucket_app_eq {g g' : CG} {bk : Bucket} (h : g'.buckets = g.buckets ++ [bk]) :
    g'.bucket g.buckets.length = bk := by
  simp only [CG.bucket, h]; exact getD'_append_eq _ _ _

theorem bucket_app_gt {g g' : CG} {bk : Bucket} (h : g'.buckets = g.buckets ++ [bk]) {b : Nat}
    (hb : g.buckets.length < b) : g'.bucket b = dfltBucket := by
  simp only [CG.bucket, h]; exact getD'_ge _ _ _ (by simp; omega)

theorem bucket_ge {g : CG} {b : Nat} (hb : g.buckets.length ≤ b) : g.bucket b = dfltBucket :=
  getD'_ge _ _ _ hb

theorem bucket_set_eq {g g' : CG} {b : Nat} {bk : Bucket} (h : g'.buckets = setAt g.buckets b bk)
    (hb : b < g.buckets.length) : g'.bucket b = bk := by
  simp only [CG.bucket, h, setAt]; exact getD'_set_eq _ _ _ _ hb

theorem bucket_set_ne {g g' : CG} {b b' : Nat} {bk : Bucket} (h : g'.buckets = setAt g.buckets b bk)
    (hb : b ≠ b') : g'.bucket b' = g.bucket b' := by
  simp only [CG.bucket, h, setAt]; exact getD'_set_ne _ _ _ _ _ hb

theorem bsum_append (g : CG) (k : Bool) (l1 l2 : List Nat) (x : Int) :
    bsum g k (l1 ++ l2) x = bsum g k l1 x + bsum g k l2 x := by
  induction l1 with
  | nil => simp [bsum]
  | cons b l ih => simp only [List.cons_append, bsum, ih]; omega

theorem bsum_single (g : CG) (k : Bool) (b : Nat) (x : Int) :
    bsum g k [b] x = if x ≤ (g.bucket b).ts then selB k (g.bucket b) else 0 := by
  simp [bsum]

theorem bsum_congr {g g' : CG} (k : Bool) {ids : List Nat} (x : Int) (h : ∀ b ∈ ids, g'.bucket b = g.bucket b) :
    bsum g' k ids x = bsum g k ids x := by
  induction ids with
  | nil => rfl
  | cons b l ih =>
    simp only [bsum]
    rw [h b (by simp), ih (fun b' hb' => h b' (by simp [hb']))]

theorem bsum_nonneg {g : CG} {k : Bool} {ids : List Nat} (x : Int) (h : ∀ b, 0 ≤ selB k (g.bucket b)) :
    0 ≤ bsum g k ids x := by
  induction ids with
  | nil => simp [bsum]
  | cons b l ih =>
    simp only [bsum]
    have := h b
    split <;> omega

theorem bsum_trim (g : CG) (k : Bool) (L x : Int) (hx : L ≤ x) (ids : List Nat) :
    bsum g k (trimIds g L ids) x = bsum g k ids x := by
  induction ids with
  | nil => rfl
  | cons b l ih =>
    unfold trimIds at ih ⊢
    rw [List.filter_cons]
    by_cases hb : (g.bucket b).ts < L
    · have : ¬ x ≤ (g.bucket b).ts := by omega
      simp only [hb, decide_true, Bool.not_true, Bool.false_eq_true, if_false, bsum, this, ih]
      omega
    · simp only [hb, decide_false, Bool.not_false, if_true, bsum, ih]

theorem trimIds_congr {g g' : CG} (L : Int) {ids : List Nat} (h : ∀ b ∈ ids, g'.bucket b = g.bucket b) :
    trimIds g' L ids = trimIds g L ids := by
  unfold trimIds
  apply List.filter_congr
  intro b hb
  rw [h b hb]

/-- the wrapped fold over the trimmed list is the exact sum, when nothing overflows -/
theorem fold_trim (g : CG) (k : Bool) (L : Int) (hnn : ∀ b, 0 ≤ selB k (g.bucket b)) (ids : List Nat) :
    ∀ acc : Int, 0 ≤ acc → acc + bsum g k ids L < 2^62 →
      (trimIds g L ids).foldl (fun acc b => wrap64 (acc + selB k (g.bucket b))) acc = acc + bsum g k ids L := by
  induction ids with
  | nil => intro acc _ _; simp [trimIds, bsum]
  | cons b l ih =>
    intro acc h0 h1
    unfold trimIds at ih ⊢
    rw [List.filter_cons]
    have hb0 := hnn b
    have hl0 : 0 ≤ bsum g k l L := bsum_nonneg L hnn
    by_cases hb : (g.bucket b).ts < L
    · have : ¬ L ≤ (g.bucket b).ts := by omega
      simp only [hb, decide_true, Bool.not_true, Bool.false_eq_true, if_false, bsum, this] at h1 ⊢
      rw [ih acc h0 (by omega)]
      omega
    · have : L ≤ (g.bucket b).ts := by omega
      simp only [hb, decide_false, Bool.not_false, if_true, bsum, this, List.foldl_cons] at h1 ⊢
      have hw : wrap64 (acc + selB k (g.bucket b)) = acc + selB k (g.bucket b) := by
        unfold wrap64; omega
      rw [hw, ih _ (by omega) (by omega)]
      omega

theorem sumIdsS_eq (g : CG) (ids : List Nat) :
    sumIdsS g ids = ids.foldl (fun acc b => wrap64 (acc + selB true (g.bucket b))) 0 := rfl
theorem sumIdsF_eq (g : CG) (ids : List Nat) :
    sumIdsF g ids = ids.foldl (fun acc b => wrap64 (acc + selB false (g.bucket b))) 0 := rfl

theorem selB_mk (k : Bool) (t : Int) (b : Bool) : selB k (mkBucket t b) = if b = k then 1 else 0 := by
  cases k <;> cases b <;> rfl

theorem ts_mk (t : Int) (b : Bool) : (mkBucket t b).ts = t := by cases b <;> rfl

theorem ts_add (bk : Bucket) (b : Bool) : (bk.add b).ts = bk.ts := by cases b <;> rfl

theorem selB_add (k : Bool) (bk : Bucket) (b : Bool) (h : 0 ≤ selB b bk ∧ selB b bk < 2^62) :
    selB k (bk.add b) = selB k bk + if b = k then 1 else 0 := by
  cases k <;> cases b <;> simp [selB, Bucket.add] at h ⊢ <;> (unfold wrap64; omega)

/-! ## G. The no-wrap guard, the per-thread and the global invariant -/

/-- a ticker reading in the guarded range -/
def TB (t : Int) : Prop := -(2^61) ≤ t ∧ t ≤ 2^61

def WNoWrap (cfg : Config) : Prop :=
  0 < cfg.interval ∧ cfg.interval ≤ 2^61 ∧ 0 < cfg.window ∧ cfg.window ≤ 2^61

def TickOK : Act → Prop
  | .tick t => TB t
  | _ => True

/-- guard on the inputs of a run: the constructor's readings, every reading in the schedule, the schedule length -/
structure SchedOK (t1 t2 : Int) (s : List (Tid × Act)) : Prop where
  t1 : TB t1
  t2 : TB t2
  ticks : ∀ e ∈ s, TickOK e.2
  len : s.length < 2^61

/-- what a thread's locals promise -/
def LOk (cfg : Config) (g : CG) : L → Prop
  | .w0 _ _ w => w < g.wins.length
  | .w1 _ _ w t => w < g.wins.length ∧ TB t
  | .w2 _ _ w t b => w < g.wins.length ∧ TB t ∧ b < g.buckets.length ∧ (g.bucket b).ts + cfg.interval ≤ t
  | .w3 _ _ w _ => w < g.wins.length
  | .h1s _ t1 => TB t1
  | .h2 _ t1 => TB t1
  | .h3 _ _ t1 _ => TB t1
  | _ => True

/-- the state never shrinks and bucket timestamps never change -/
def Mono (g g' : CG) : Prop :=
  g.wins.length ≤ g'.wins.length ∧ g.buckets.length ≤ g'.buckets.length ∧
  ∀ b, b < g.buckets.length → (g'.bucket b).ts = (g.bucket b).ts

theorem lok_mono {cfg : Config} {g g' : CG} {l : L} (hm : Mono g g') (h : LOk cfg g l) : LOk cfg g' l := by
  obtain ⟨m1, m2, m3⟩ := hm
  cases l <;> simp only [LOk] at h ⊢ <;> try exact h
  · omega
  · exact ⟨by omega, h.2⟩
  · obtain ⟨h1, h2, h3, h4⟩ := h
    exact ⟨by omega, h2, by omega, by rw [m3 _ h3]; exact h4⟩
  · omega

theorem mono_of_eff {cfg : Config} {g g' : CG} {l : L} {obs : List Obs} (he : WEff cfg g l g' obs) : Mono g g' := by
  cases he with
  | quiet hb hw _ => exact ⟨by rw [hw.1]; exact Nat.le_refl _, by rw [hb]; exact Nat.le_refl _, fun b _ => by simp [CG.bucket, hb]⟩
  | back c o w t _ hb hw =>
    exact ⟨by rw [wins_set_length hw]; exact Nat.le_refl _, by simp [hb], fun b h => by rw [bucket_app_lt hb h]⟩
  | lose c o w t b _ hb hw =>
    exact ⟨by rw [wins_set_length hw]; exact Nat.le_refl _, by simp [hb], fun b h => by rw [bucket_app_lt hb h]⟩
  | add c o w t _ _ hb hw =>
    refine ⟨by rw [hw]; exact Nat.le_refl _, by simp [hb, setAt], fun b h => ?_⟩
    by_cases e : (g.win w).cur = b
    · subst e; rw [bucket_set_eq hb h, ts_add]
    · rw [bucket_set_ne hb e]
  | roll c o w t g1 kept hg1 hk hb hw =>
    exact ⟨by rw [wins_set_length hw]; exact Nat.le_refl _, by simp [hb, hg1],
      fun b h => by rw [bucket_app_lt (hb.trans hg1) h]⟩
  | new o t1 t2 hb hw _ =>
    exact ⟨by simp [hw], by simp [hb], fun b h => by rw [bucket_app_lt hb h]⟩

structure WGInv (cfg : Config) (n : Nat) (lg : List (Tid × Obs)) (g : CG) : Prop where
  objw : ∀ o, (g.obj o).win < g.wins.length
  cnt : ∀ b k, 0 ≤ selB k (g.bucket b) ∧ selB k (g.bucket b) ≤ n
  ts : ∀ b, TB (g.bucket b).ts
  nrec : nrec lg ≤ n
  fresh : ∀ w, g.wins.length ≤ w → lastRoll w lg = none ∧ ∀ k x, recN w k x lg = 0
  curts : ∀ w, w < g.wins.length → ∀ t, lastRoll w lg = some t → (g.bucket (g.win w).cur).ts = t
  count : ∀ w, w < g.wins.length → ∀ k x, (∀ t, lastRoll w lg = some t → t - cfg.window ≤ x) →
      bsum g k (inWin g w) x = recN w k x lg
  rolls : RollsOK cfg lg

theorem objw_step {g g' : CG} (h : ∀ o, (g.obj o).win < g.wins.length) (ho : ObjsStep g g')
    (hl : g.wins.length ≤ g'.wins.length) : ∀ o, (g'.obj o).win < g'.wins.length := by
  have h0 : 0 < g.wins.length := Nat.lt_of_le_of_lt (Nat.zero_le _) (h 0)
  intro o
  rcases ho with ho | ⟨n, ho, hn⟩
  · have : g'.obj o = g.obj o := by simp [CG.obj, ho]
    rw [this]; exact Nat.lt_of_lt_of_le (h o) hl
  · simp only [CG.obj, ho]
    by_cases e1 : o < g.objs.length
    · rw [getD'_append_lt _ _ _ _ e1]; exact Nat.lt_of_lt_of_le (h o) hl
    · by_cases e2 : o = g.objs.length
      · subst e2; rw [getD'_append_eq]
        rcases hn with hn | hn
        · omega
        · exact hn
      · rw [getD'_ge _ _ _ (by simp; omega)]
        show 0 < _
        omega

theorem ginv_init (cfg : Config) (t1 t2 : Int) (h1 : TB t1) : WGInv cfg 0 [] (initG t1 t2) := by
  have hb : ∀ b, (initG t1 t2).bucket b = ⟨t1, 0, 0⟩ ∨ (initG t1 t2).bucket b = dfltBucket := by
    intro b
    cases b with
    | zero => left; rfl
    | succ b => right; exact bucket_ge (by simp [initG])
  constructor
  · intro o
    cases o with
    | zero => simp [CG.obj, getD', initG]
    | succ o => simp [CG.obj, getD', initG, dfltObj]
  · intro b k
    rcases hb b with h | h <;> rw [h] <;> cases k <;> simp [selB, dfltBucket]
  · intro b
    rcases hb b with h | h <;> rw [h]
    · exact h1
    · simp [dfltBucket, TB]
  · simp [nrec]
  · intro w _; exact ⟨rfl, fun _ _ => rfl⟩
  · intro w _ t h; simp [lastRoll] at h
  · intro w hw k x _
    have : w = 0 := by simp [initG] at hw; omega
    subst this
    have : inWin (initG t1 t2) 0 = [0] := rfl
    rw [this, bsum_single]
    have : (initG t1 t2).bucket 0 = ⟨t1, 0, 0⟩ := rfl
    rw [this]
    cases k <;> simp [selB, recN]
  · exact rollsOK_nil cfg

theorem lastRoll_quiet_append {obs : List Obs} (h : noW obs = true) (lg : List (Tid × Obs)) (t : Tid) (w : Nat) :
    lastRoll w (lg ++ tag t obs) = lastRoll w lg := by
  rw [lastRoll_append, lastRoll_quiet h, Option.none_or]

theorem recN_quiet_append {obs : List Obs} (h : noW obs = true) (lg : List (Tid × Obs)) (t : Tid) (w : Nat)
    (k : Bool) (x : Int) : recN w k x (lg ++ tag t obs) = recN w k x lg := by
  rw [recN_append, recN_quiet h]; omega

theorem ginv_quiet {cfg : Config} {n : Nat} {lg : List (Tid × Obs)} {g g' : CG} {obs : List Obs} (t : Tid)
    (hG : WGInv cfg n lg g) (ho : ObjsStep g g') (hb : g'.buckets = g.buckets) (hw : SameWins g g')
    (hq : noW obs = true) : WGInv cfg (n + 1) (lg ++ tag t obs) g' := by
  have hbk : ∀ b, g'.bucket b = g.bucket b := fun b => by simp [CG.bucket, hb]
  constructor
  · exact objw_step hG.objw ho (by rw [hw.1]; exact Nat.le_refl _)
  · intro b k; rw [hbk]; have := hG.cnt b k; omega
  · intro b; rw [hbk]; exact hG.ts b
  · rw [nrec_append, nrec_quiet hq]; have := hG.nrec; omega
  · intro w hwl
    rw [hw.1] at hwl
    rw [lastRoll_quiet_append hq]
    refine ⟨(hG.fresh w hwl).1, fun k x => ?_⟩
    rw [recN_quiet_append hq]; exact (hG.fresh w hwl).2 k x
  · intro w hwl t' ht
    rw [hw.1] at hwl
    rw [lastRoll_quiet_append hq] at ht
    rw [(hw.2 w).1, hbk]; exact hG.curts w hwl t' ht
  · intro w hwl k x hx
    rw [hw.1] at hwl
    rw [lastRoll_quiet_append hq] at hx
    rw [recN_quiet_append hq, inWin_of_sameWins hw, bsum_congr k x (fun b _ => hbk b)]
    exact hG.count w hwl k x hx
  · exact rollsOK_quiet hG.rolls hq t

theorem selB_dflt (k : Bool) : selB k dfltBucket = 0 := by cases k <;> rfl

theorem bucket_app_cases {g g' : CG} {bk : Bucket} (h : g'.buckets = g.buckets ++ [bk]) (b : Nat) :
    g'.bucket b = g.bucket b ∨ g'.bucket b = bk := by
  by_cases e1 : b < g.buckets.length
  · exact Or.inl (bucket_app_lt h e1)
  · by_cases e2 : b = g.buckets.length
    · subst e2; exact Or.inr (bucket_app_eq h)
    · left; rw [bucket_app_gt h (by omega), bucket_ge (by omega)]

theorem bsum_old {g g' : CG} {bk : Bucket} (hS : SInv g) (hb : g'.buckets = g.buckets ++ [bk]) {w : Nat}
    (hw : w < g.wins.length) (k : Bool) (x : Int) {ids : List Nat} (hsub : ∀ b ∈ ids, b ∈ inWin g w) :
    bsum g' k ids x = bsum g k ids x :=
  bsum_congr k x (fun b hb' => bucket_app_lt hb (hS.rng w hw b (hsub b hb')))

theorem ginv_push {cfg : Config} {n : Nat} {lg : List (Tid × Obs)} {g g' : CG} (t : Tid) {w : Nat} {tt : Int}
    {sc : Bool} (hS : SInv g) (hG : WGInv cfg n lg g) (hw : w < g.wins.length) (ht : TB tt) (ho : ObjsStep g g')
    (hb : g'.buckets = g.buckets ++ [mkBucket tt sc])
    (hwins : g'.wins = setAt g.wins w { g.win w with res := (g.win w).res ++ [g.buckets.length] }) :
    WGInv cfg (n + 1) (lg ++ tag t [.recorded w tt sc, .ret none]) g' := by
  have hlen := wins_set_length hwins
  have hcur : ∀ w', (g'.win w').cur = (g.win w').cur := by
    intro w'
    by_cases e : w = w'
    · subst e; rw [win_set_eq hwins hw]
    · rw [win_set_ne hwins e]
  constructor
  · exact objw_step hG.objw ho (by rw [hlen]; exact Nat.le_refl _)
  · intro b k
    rcases bucket_app_cases hb b with h | h <;> rw [h]
    · have := hG.cnt b k; omega
    · rw [selB_mk]; split <;> omega
  · intro b
    rcases bucket_app_cases hb b with h | h <;> rw [h]
    · exact hG.ts b
    · rw [ts_mk]; exact ht
  · rw [nrec_tag_rec]; have := hG.nrec; omega
  · intro w' hw'
    rw [hlen] at hw'
    rw [lastRoll_tag_rec]
    refine ⟨(hG.fresh w' hw').1, fun k x => ?_⟩
    rw [recN_tag_rec, (hG.fresh w' hw').2 k x, if_neg (by omega)]; rfl
  · intro w' hw' t' ht'
    rw [hlen] at hw'
    rw [lastRoll_tag_rec] at ht'
    rw [hcur, bucket_app_lt hb (hS.rng w' hw' _ (by simp [inWin]))]
    exact hG.curts w' hw' t' ht'
  · intro w' hw' k x hx
    rw [hlen] at hw'
    rw [lastRoll_tag_rec] at hx
    rw [recN_tag_rec, ← hG.count w' hw' k x hx]
    by_cases e : w = w'
    · subst e
      have hin : inWin g' w = ((g.win w).res ++ [g.buckets.length]) ++ [(g.win w).cur] := by
        simp [inWin, win_set_eq hwins hw]
      rw [hin, bsum_append, bsum_append, bsum_single, bsum_single,
        bsum_old hS hb hw k x (fun b hb' => by simp [inWin, hb']),
        bucket_app_eq hb, bucket_app_lt hb (hS.rng w hw _ (by simp [inWin])), selB_mk, ts_mk]
      simp only [inWin, bsum_append, bsum_single, true_and]
      by_cases h1 : x ≤ tt <;> by_cases h2 : sc = k <;> simp [h1, h2] <;> omega
    · rw [inWin_set_ne hwins e, if_neg (by simp [e]), bsum_old hS hb hw' k x (fun b hb' => hb')]
      omega
  · apply rollsOK_noRoll hG.rolls
    simp [tag, Obs.isRolled]

theorem ginv_add {cfg : Config} {n : Nat} {lg : List (Tid × Obs)} {g g' : CG} (t : Tid) {w : Nat} {sc : Bool}
    (hS : SInv g) (hG : WGInv cfg n lg g) (hn : n < 2^61) (hw : w < g.wins.length) (ho : ObjsStep g g')
    (hb : g'.buckets = setAt g.buckets (g.win w).cur ((g.bucket (g.win w).cur).add sc))
    (hwins : g'.wins = g.wins) :
    WGInv cfg (n + 1) (lg ++ tag t [.recorded w (g.bucket (g.win w).cur).ts sc, .ret none]) g' := by
  have hbl : (g.win w).cur < g.buckets.length := hS.rng w hw _ (by simp [inWin])
  have hsw := sameWins_of_wins hwins
  have hsel : ∀ k, selB k (g'.bucket (g.win w).cur) = selB k (g.bucket (g.win w).cur) + if sc = k then 1 else 0 := by
    intro k
    rw [bucket_set_eq hb hbl]
    apply selB_add
    have := hG.cnt (g.win w).cur sc
    omega
  have hts : ∀ b, (g'.bucket b).ts = (g.bucket b).ts := by
    intro b
    by_cases e : (g.win w).cur = b
    · subst e; rw [bucket_set_eq hb hbl, ts_add]
    · rw [bucket_set_ne hb e]
  constructor
  · exact objw_step hG.objw ho (by rw [hwins]; exact Nat.le_refl _)
  · intro b k
    by_cases e : (g.win w).cur = b
    · subst e; rw [hsel]; have := hG.cnt (g.win w).cur k; split <;> omega
    · rw [bucket_set_ne hb e]; have := hG.cnt b k; omega
  · intro b; rw [hts]; exact hG.ts b
  · rw [nrec_tag_rec]; have := hG.nrec; omega
  · intro w' hw'
    rw [hwins] at hw'
    rw [lastRoll_tag_rec]
    refine ⟨(hG.fresh w' hw').1, fun k x => ?_⟩
    rw [recN_tag_rec, (hG.fresh w' hw').2 k x, if_neg (by omega)]; rfl
  · intro w' hw' t' ht'
    rw [hwins] at hw'
    rw [lastRoll_tag_rec] at ht'
    rw [hts, (hsw.2 w').1]
    exact hG.curts w' hw' t' ht'
  · intro w' hw' k x hx
    rw [hwins] at hw'
    rw [lastRoll_tag_rec] at hx
    rw [recN_tag_rec, ← hG.count w' hw' k x hx, inWin_of_wins hwins]
    by_cases e : w = w'
    · subst e
      have hnd := hS.nodup w hw
      simp only [inWin] at hnd ⊢
      rw [List.nodup_append] at hnd
      have hne : ∀ b ∈ (g.win w).res, (g.win w).cur ≠ b := fun b hb' => (hnd.2.2 b hb' _ (by simp)).symm
      rw [bsum_append, bsum_append, bsum_single, bsum_single, hts, hsel,
        bsum_congr k x (fun b hb' => bucket_set_ne hb (hne b hb'))]
      by_cases h1 : x ≤ (g.bucket (g.win w).cur).ts <;> by_cases h2 : sc = k <;> simp [h1, h2] <;> omega
    · have hni : (g.win w).cur ∉ inWin g w' := hS.disj w w' hw hw' e _ (by simp [inWin])
      rw [if_neg (by simp [e]), bsum_congr k x (fun b hb' => bucket_set_ne hb (fun h => hni (h ▸ hb')))]
      omega
  · apply rollsOK_noRoll hG.rolls
    simp [tag, Obs.isRolled]

theorem ginv_roll {cfg : Config} {n : Nat} {lg : List (Tid × Obs)} {g g' g1 : CG} (t : Tid) {w : Nat} {tt : Int}
    {sc : Bool} {kept : List Nat}
    (hS : SInv g) (hG : WGInv cfg n lg g) (hn : n < 2^61) (hcfg : WNoWrap cfg) (hw : w < g.wins.length) (ht : TB tt)
    (hint : (g.bucket (g.win w).cur).ts + cfg.interval ≤ tt) (ho : ObjsStep g g')
    (hg1 : g1.buckets = g.buckets ++ [mkBucket tt sc])
    (hk : kept = trimIds g1 (wrap64 (tt - cfg.window)) ((g.win w).res ++ [(g.win w).cur]))
    (hb1 : g'.buckets = g1.buckets)
    (hwins : g'.wins = setAt g.wins w { g.win w with cur := g.buckets.length, res := kept }) :
    WGInv cfg (n + 1) (lg ++ tag t [.rolled w tt (sumIdsS g1 kept) (sumIdsF g1 kept), .recorded w tt sc]) g' := by
  obtain ⟨c1, c2, c3, c4⟩ := hcfg
  have hlen := wins_set_length hwins
  have hb : g'.buckets = g.buckets ++ [mkBucket tt sc] := hb1.trans hg1
  have hL : wrap64 (tt - cfg.window) = tt - cfg.window := by
    have := ht.1; have := ht.2; unfold wrap64; omega
  rw [hL] at hk
  have hkin : ∀ b ∈ kept, b ∈ inWin g w := fun b hb' => by rw [hk] at hb'; exact mem_trimIds hb'
  have hk2 : kept = trimIds g (tt - cfg.window) (inWin g w) := by
    rw [hk]; exact trimIds_congr _ (fun b hb' => bucket_app_lt hg1 (hS.rng w hw b hb'))
  have hold : ∀ t', lastRoll w lg = some t' → t' + cfg.interval ≤ tt := by
    intro t' ht'; rw [← hG.curts w hw t' ht']; exact hint
  -- the roll's count
  have hsum : ∀ k, (kept.foldl (fun acc b => wrap64 (acc + selB k (g1.bucket b))) 0) = recN w k (tt - cfg.window) lg := by
    intro k
    have hnn : ∀ b, 0 ≤ selB k (g1.bucket b) := by
      intro b
      rcases bucket_app_cases hg1 b with h | h <;> rw [h]
      · exact (hG.cnt b k).1
      · rw [selB_mk]; split <;> omega
    have hcount := hG.count w hw k (tt - cfg.window) (fun t' ht' => by have := hold t' ht'; omega)
    have heq : bsum g1 k ((g.win w).res ++ [(g.win w).cur]) (tt - cfg.window) = recN w k (tt - cfg.window) lg := by
      rw [← hcount]; exact bsum_old hS hg1 hw k _ (fun b hb' => hb')
    have hle := recN_le_nrec w k (tt - cfg.window) lg
    have := hG.nrec
    rw [hk, fold_trim g1 k _ hnn _ 0 (Int.le_refl 0) (by rw [heq]; omega), heq]
    omega
  constructor
  · exact objw_step hG.objw ho (by rw [hlen]; exact Nat.le_refl _)
  · intro b k
    rcases bucket_app_cases hb b with h | h <;> rw [h]
    · have := hG.cnt b k; omega
    · rw [selB_mk]; split <;> omega
  · intro b
    rcases bucket_app_cases hb b with h | h <;> rw [h]
    · exact hG.ts b
    · rw [ts_mk]; exact ht
  · rw [nrec_tag_roll]; have := hG.nrec; omega
  · intro w' hw'
    rw [hlen] at hw'
    rw [lastRoll_tag_roll, if_neg (by omega)]
    refine ⟨(hG.fresh w' hw').1, fun k x => ?_⟩
    rw [recN_tag_roll, (hG.fresh w' hw').2 k x, if_neg (by omega)]; rfl
  · intro w' hw' t' ht'
    rw [hlen] at hw'
    rw [lastRoll_tag_roll] at ht'
    by_cases e : w = w'
    · subst e
      rw [if_pos rfl] at ht'
      rw [win_set_eq hwins hw]
      show (g'.bucket g.buckets.length).ts = t'
      rw [bucket_app_eq hb, ts_mk]
      exact Option.some.inj ht'
    · rw [if_neg e] at ht'
      rw [win_set_ne hwins e, bucket_app_lt hb (hS.rng w' hw' _ (by simp [inWin]))]
      exact hG.curts w' hw' t' ht'
  · intro w' hw' k x hx
    rw [hlen] at hw'
    rw [lastRoll_tag_roll] at hx
    rw [recN_tag_roll]
    by_cases e : w = w'
    · subst e
      rw [if_pos rfl] at hx
      have hLx : tt - cfg.window ≤ x := hx tt rfl
      have hcount := hG.count w hw k x (fun t' ht' => by have := hold t' ht'; omega)
      have hin : inWin g' w = kept ++ [g.buckets.length] := by simp [inWin, win_set_eq hwins hw]
      rw [hin, bsum_append, bsum_single, bsum_old hS hb hw k x hkin, bucket_app_eq hb, selB_mk, ts_mk, ← hcount,
        hk2, bsum_trim g k _ x hLx]
      simp only [inWin, true_and]
      by_cases h1 : x ≤ tt <;> by_cases h2 : sc = k <;> simp [h1, h2]
    · rw [if_neg e] at hx
      rw [← hG.count w' hw' k x hx, inWin_set_ne hwins e, if_neg (by simp [e]),
        bsum_old hS hb hw' k x (fun b hb' => hb')]
      omega
  · apply rollsOK_append hG.rolls
    intro pre' tid w' t' s f post' he
    cases pre' with
    | nil =>
      simp only [tag, List.map_cons, List.map_nil, List.nil_append, List.cons.injEq, Prod.mk.injEq,
        Obs.rolled.injEq] at he
      obtain ⟨⟨_, rfl, rfl, rfl, rfl⟩, _⟩ := he
      rw [List.append_nil]
      exact ⟨hsum true, hsum false, hold⟩
    | cons e1 pre'' =>
      cases pre'' with
      | nil => simp [tag] at he
      | cons e2 pre3 => simp [tag] at he

theorem ginv_new {cfg : Config} {n : Nat} {lg : List (Tid × Obs)} {g g' : CG} {obs : List Obs} (t : Tid) {t1 : Int}
    (hS : SInv g) (hG : WGInv cfg n lg g) (ht1 : TB t1) (ho : ObjsStep g g')
    (hb : g'.buckets = g.buckets ++ [⟨t1, 0, 0⟩])
    (hwins : g'.wins = g.wins ++ [⟨g.buckets.length, [], (0, 0)⟩]) (hq : noW obs = true) :
    WGInv cfg (n + 1) (lg ++ tag t obs) g' := by
  have hlen : g'.wins.length = g.wins.length + 1 := by simp [hwins]
  have hwold : ∀ w, w < g.wins.length → g'.win w = g.win w := by
    intro w hw; simp only [CG.win, hwins]; exact getD'_append_lt _ _ _ _ hw
  have hwnew : g'.win g.wins.length = ⟨g.buckets.length, [], (0, 0)⟩ := by
    simp only [CG.win, hwins]; exact getD'_append_eq _ _ _
  constructor
  · exact objw_step hG.objw ho (by omega)
  · intro b k
    rcases bucket_app_cases hb b with h | h <;> rw [h]
    · have := hG.cnt b k; omega
    · cases k <;> simp [selB] <;> omega
  · intro b
    rcases bucket_app_cases hb b with h | h <;> rw [h]
    · exact hG.ts b
    · exact ht1
  · rw [nrec_append, nrec_quiet hq]; have := hG.nrec; omega
  · intro w hw
    rw [hlen] at hw
    rw [lastRoll_quiet_append hq]
    refine ⟨(hG.fresh w (by omega)).1, fun k x => ?_⟩
    rw [recN_quiet_append hq]; exact (hG.fresh w (by omega)).2 k x
  · intro w hw t' ht'
    rw [hlen] at hw
    rw [lastRoll_quiet_append hq] at ht'
    by_cases e : w < g.wins.length
    · rw [hwold w e, bucket_app_lt hb (hS.rng w e _ (by simp [inWin]))]
      exact hG.curts w e t' ht'
    · rw [(hG.fresh w (by omega)).1] at ht'; cases ht'
  · intro w hw k x hx
    rw [hlen] at hw
    rw [lastRoll_quiet_append hq] at hx
    rw [recN_quiet_append hq]
    by_cases e : w < g.wins.length
    · rw [← hG.count w e k x hx]
      have : inWin g' w = inWin g w := by simp [inWin, hwold w e]
      rw [this]
      exact bsum_old hS hb e k x (fun b hb' => hb')
    · have : w = g.wins.length := by omega
      subst this
      have : inWin g' g.wins.length = [g.buckets.length] := by simp [inWin, hwnew]
      rw [this, bsum_single, bucket_app_eq hb, (hG.fresh _ (Nat.le_refl _)).2 k x]
      cases k <;> simp [selB]
  · exact rollsOK_quiet hG.rolls hq t

/-- the stepping thread's next locals are justified -/
theorem step_lok {cfg : Config} {t : Tid} {g g' : CG} {l l' : L} {a : Act} {obs : List Obs}
    (hcfg : WNoWrap cfg) (hS : SInv g) (hobj : ∀ o, (g.obj o).win < g.wins.length) (hts : ∀ b, TB (g.bucket b).ts)
    (hl : LOk cfg g l) (ha : TickOK a)
    (hs : step cfg t g l a = some (g', l', obs)) : LOk cfg g' l' := by
  unfold step at hs
  split at hs
  case h_2 =>
    dsimp only at hs
    split at hs <;> (try split at hs) <;>
      (simp only [Option.some.injEq, Prod.mk.injEq] at hs; obtain ⟨rfl, rfl, rfl⟩ := hs) <;>
      simp only [LOk]
    exact hobj _
  case h_7 c o w t =>
    dsimp only at hs
    split at hs
    · simp only [Option.some.injEq, Prod.mk.injEq] at hs; obtain ⟨rfl, rfl, rfl⟩ := hs; trivial
    · split at hs
      · simp only [Option.some.injEq, Prod.mk.injEq] at hs; obtain ⟨rfl, rfl, rfl⟩ := hs; trivial
      · rename_i h1 h2
        simp only [Option.some.injEq, Prod.mk.injEq] at hs; obtain ⟨rfl, rfl, rfl⟩ := hs
        obtain ⟨hw, ht⟩ := hl
        refine ⟨hw, ht, hS.rng w hw _ (by simp [inWin]), ?_⟩
        have := hts (g.win w).cur
        obtain ⟨c1, c2, _, _⟩ := hcfg
        unfold TB at this ht
        unfold wrap64 at h2
        omega
  case h_8 =>
    dsimp only at hs
    split at hs <;> (simp only [Option.some.injEq, Prod.mk.injEq] at hs; obtain ⟨rfl, rfl, rfl⟩ := hs)
    · simp only [LOk, setAt, List.length_set]; exact hl.1
    · trivial
  case h_9 c o w e =>
    dsimp only at hs
    have : LOk cfg g' (afterReport cfg c o (some e)).1 := by
      unfold afterReport
      dsimp only
      split <;> (try split) <;> trivial
    generalize afterReport cfg c o (some e) = r at hs this
    obtain ⟨l1, ob1⟩ := r
    simp only [Option.some.injEq, Prod.mk.injEq] at hs
    obtain ⟨rfl, rfl, rfl⟩ := hs
    exact this
  case h_18 => cases hs
  all_goals
    (try split at hs) <;>
    (simp only [Option.some.injEq, Prod.mk.injEq] at hs; obtain ⟨rfl, rfl, rfl⟩ := hs) <;>
    (first | trivial | exact hl | exact ha | exact ⟨hl, ha⟩)

/-! ## H. The invariant along runs -/

theorem ginv_step {cfg : Config} {n : Nat} {lg : List (Tid × Obs)} {g g' : CG} {l : L} {obs : List Obs} (t : Tid)
    (hcfg : WNoWrap cfg) (hn : n < 2^61) (hS : SInv g) (hG : WGInv cfg n lg g) (hl : LOk cfg g l)
    (ho : ObjsStep g g') (he : WEff cfg g l g' obs) : WGInv cfg (n + 1) (lg ++ tag t obs) g' := by
  cases he with
  | quiet hb hw hq => exact ginv_quiet t hG ho hb hw hq
  | back c o w tt _ hb hw => exact ginv_push t hS hG hl.1 hl.2 ho hb hw
  | lose c o w tt b _ hb hw => exact ginv_push t hS hG hl.1 hl.2.1 ho hb hw
  | add c o w tt _ _ hb hw => exact ginv_add t hS hG hn hl.1 ho hb hw
  | roll c o w tt g1 kept hg1 hk hb hw =>
    exact ginv_roll t hS hG hn hcfg hl.1 hl.2.1 hl.2.2.2 ho hg1 hk hb hw
  | new o t1 t2 hb hw hq => exact ginv_new t hS hG hl ho hb hw hq

/-- **The invariant of C10** for the shared state `g`, the thread locals `ls`, the ghost log `lg` emitted so far and
the number `n` of steps taken so far. -/
def WInv (cfg : Config) (n : Nat) (lg : List (Tid × Obs)) (g : CG) (ls : Tid → L) : Prop :=
  SInv g ∧ WGInv cfg n lg g ∧ ∀ tid, LOk cfg g (ls tid)

theorem winv_init (cfg : Config) (t1 t2 : Int) (h1 : TB t1) : WInv cfg 0 [] (initG t1 t2) (fun _ => L.idle) :=
  ⟨sinv_init t1 t2, ginv_init cfg t1 t2 h1, fun _ => trivial⟩

theorem winv_step {cfg : Config} {n : Nat} {lg : List (Tid × Obs)} {g g' : CG} {ls : Tid → L} {t : Tid} {a : Act}
    {l' : L} {obs : List Obs} (hcfg : WNoWrap cfg) (hn : n < 2^61) (h : WInv cfg n lg g ls) (ha : TickOK a)
    (hs : step cfg t g (ls t) a = some (g', l', obs)) : WInv cfg (n + 1) (lg ++ tag t obs) g' (upd ls t l') := by
  obtain ⟨hS, hG, hL⟩ := h
  obtain ⟨ho, he⟩ := step_eff hs
  refine ⟨sinv_step hS he, ginv_step t hcfg hn hS hG (hL t) ho he, fun tid => ?_⟩
  by_cases e : tid = t
  · subst e; rw [upd_same]
    exact step_lok hcfg hS hG.objw hG.ts (hL tid) ha hs
  · rw [upd_other _ _ _ _ e]
    exact lok_mono (mono_of_eff he) (hL tid)

theorem Wrun_cons_none {M : Machine} {c : Conc.Config M} {t : Tid} {a : M.Act} {rest : List (Tid × M.Act)}
    (h : M.step t c.g (c.l t) a = none) : run M c ((t, a) :: rest) = run M c rest := by
  simp only [run, h]

theorem Wrun_cons_some {M : Machine} {c : Conc.Config M} {t : Tid} {a : M.Act} {rest : List (Tid × M.Act)}
    {g' : M.G} {l' : M.L} {obs : List M.Obs} (h : M.step t c.g (c.l t) a = some (g', l', obs)) :
    run M c ((t, a) :: rest) =
      ((run M ⟨g', upd c.l t l'⟩ rest).1, obs.map (fun o => (t, o)) ++ (run M ⟨g', upd c.l t l'⟩ rest).2) := by
  simp only [run, h]

/-- forward induction along a run, carrying the log emitted so far and the number of steps taken so far
(`N` bounds the length of the schedule) -/
theorem run_ind_n (M : Machine) (N : Nat) (A : Tid → M.Act → Prop)
    (P : Nat → List (Tid × M.Obs) → Conc.Config M → Prop)
    (hstep : ∀ n lg c t a g' l' obs, n < N → P n lg c → A t a → M.step t c.g (c.l t) a = some (g', l', obs) →
      P (n + 1) (lg ++ obs.map (fun o => (t, o))) ⟨g', upd c.l t l'⟩) :
    ∀ (s : List (Tid × M.Act)) (c : Conc.Config M) (lg : List (Tid × M.Obs)) (n : Nat), n + s.length ≤ N → P n lg c →
      (∀ e ∈ s, A e.1 e.2) → ∃ m, m ≤ N ∧ P m (lg ++ (run M c s).2) (run M c s).1 := by
  intro s
  induction s with
  | nil => intro c lg n hn hP _; exact ⟨n, by simpa using hn, by simpa [run] using hP⟩
  | cons ta rest ih =>
    intro c lg n hn hP hA
    obtain ⟨t, a⟩ := ta
    simp only [List.length_cons] at hn
    cases h : M.step t c.g (c.l t) a with
    | none =>
      rw [Wrun_cons_none h]
      exact ih c lg n (by omega) hP (fun e he => hA e (List.mem_cons_of_mem _ he))
    | some r =>
      obtain ⟨g', l', obs⟩ := r
      rw [Wrun_cons_some h]
      have h1 := hstep n lg c t a g' l' obs (by omega) hP (hA (t, a) (List.mem_cons_self ..)) h
      obtain ⟨m, hm, h2⟩ := ih _ _ (n + 1) (by omega) h1 (fun e he => hA e (List.mem_cons_of_mem _ he))
      exact ⟨m, hm, by simpa [List.append_assoc] using h2⟩

/-- **`WInv` holds along every guarded run**, with the log of the run and some step count below `2^61`. -/
theorem winv_run (cfg : Config) (t1 t2 : Int) (s : List (Tid × Act)) (hcfg : WNoWrap cfg) (hs : SchedOK t1 t2 s) :
    ∃ n, n < 2^61 ∧
      WInv cfg n (run (M cfg t1 t2) (Conc.Config.init _) s).2 (run (M cfg t1 t2) (Conc.Config.init _) s).1.g
        (run (M cfg t1 t2) (Conc.Config.init _) s).1.l := by
  have := run_ind_n (M cfg t1 t2) s.length (fun _ a => TickOK a) (fun n lg c => WInv cfg n lg c.g c.l)
    (fun n lg c t a g' l' obs hn hP ha hstep =>
      winv_step hcfg (Nat.lt_trans hn hs.len) hP ha hstep)
    s (Conc.Config.init _) [] 0 (Nat.le_of_eq (Nat.zero_add _)) (winv_init cfg t1 t2 hs.t1) (fun e he => hs.ticks e he)
  obtain ⟨m, hm, h⟩ := this
  exact ⟨m, Nat.lt_of_le_of_lt hm hs.len, by simpa using h⟩

/-! ## I. One `recorded` per report (per-thread control flow) -/

/-- number of `recorded` observations of one step -/
def nrecObs (obs : List Obs) : Nat := obs.countP Obs.isRec

/-- `recorded` entries the operation in progress still owes: one while the report is before its recording step -/
def pend : L → Nat
  | .w0 .. => 1
  | .w1 .. => 1
  | .w2 .. => 1
  | _ => 0

def L.isB0 : L → Bool | .b0 _ => true | _ => false

theorem nrecObs_quiet {obs : List Obs} (h : noW obs = true) : nrecObs obs = 0 := by
  unfold nrecObs
  rw [List.countP_eq_zero]
  intro o ho
  simp [(noW_mem h ho).1]

set_option linter.unusedSimpArgs false in
/-- every step emits at most one `recorded`; a step of a report in progress conserves "emitted + owed";
the dispatch step `b0` emits none (and is the only step that creates a debt) -/
theorem recorded_once_step {cfg : Config} {t : Tid} {g g' : CG} {l l' : L} {a : Act} {obs : List Obs}
    (hs : step cfg t g l a = some (g', l', obs)) :
    nrecObs obs ≤ 1 ∧ (l.isB0 = true → nrecObs obs = 0) ∧ (l.isB0 = false → nrecObs obs + pend l' = pend l) ∧
    (l.isB0 = false → l'.isB0 = true → l = .idle) := by
  unfold step at hs
  split at hs
  case h_2 =>
    dsimp only at hs
    split at hs <;> (try split at hs) <;>
      (simp only [Option.some.injEq, Prod.mk.injEq] at hs; obtain ⟨rfl, rfl, rfl⟩ := hs) <;>
      simp [nrecObs, L.isB0, Obs.isRec, List.countP_cons, List.countP_nil]
  case h_7 =>
    dsimp only at hs
    split at hs
    · simp only [Option.some.injEq, Prod.mk.injEq] at hs; obtain ⟨rfl, rfl, rfl⟩ := hs
      simp [nrecObs, L.isB0, Obs.isRec, pend, List.countP_cons, List.countP_nil]
    · split at hs <;> (simp only [Option.some.injEq, Prod.mk.injEq] at hs; obtain ⟨rfl, rfl, rfl⟩ := hs) <;>
        simp [nrecObs, L.isB0, Obs.isRec, pend, List.countP_cons, List.countP_nil]
  case h_8 =>
    dsimp only at hs
    split at hs <;> (simp only [Option.some.injEq, Prod.mk.injEq] at hs; obtain ⟨rfl, rfl, rfl⟩ := hs) <;>
      simp [nrecObs, L.isB0, Obs.isRec, pend, List.countP_cons, List.countP_nil]
  case h_9 c o w e =>
    dsimp only at hs
    have h1 := nrecObs_quiet (afterReport_noW cfg c o (some e))
    have h2 : pend (afterReport cfg c o (some e)).1 = 0 ∧ (afterReport cfg c o (some e)).1.isB0 = false := by
      unfold afterReport
      dsimp only
      split <;> (try split) <;> exact ⟨rfl, rfl⟩
    generalize afterReport cfg c o (some e) = r at hs h1 h2
    obtain ⟨l1, ob1⟩ := r
    simp only [Option.some.injEq, Prod.mk.injEq] at hs
    obtain ⟨rfl, rfl, rfl⟩ := hs
    simp only at h1 h2
    refine ⟨by omega, fun h => by simp [L.isB0] at h, fun _ => ?_, fun _ h => by rw [h2.2] at h; cases h⟩
    show nrecObs ob1 + pend l1 = 0
    omega
  case h_18 => cases hs
  all_goals
    (try split at hs) <;>
    (simp only [Option.some.injEq, Prod.mk.injEq] at hs; obtain ⟨rfl, rfl, rfl⟩ := hs) <;>
    simp [nrecObs, L.isB0, Obs.isRec, pend, List.countP_cons, List.countP_nil]

/-- the steps of ONE operation of one thread (its own steps; the shared state may change arbitrarily in between):
an operation's steps are those taken from a non-idle local state -/
inductive OpPath (cfg : Config) : L → List Obs → L → Prop
  | done (l : L) : OpPath cfg l [] l
  | step {t g a g' l l' l'' obs obs'} : l ≠ .idle → step cfg t g l a = some (g', l', obs) →
      OpPath cfg l' obs' l'' → OpPath cfg l (obs ++ obs') l''

theorem opPath_conserves {cfg : Config} {l l' : L} {obs : List Obs} (h : OpPath cfg l obs l') (hl : l.isB0 = false) :
    nrecObs obs + pend l' = pend l := by
  induction h with
  | done l => simp [nrecObs]
  | @step t g a g' l l' l'' obs obs' hne hs _ ih =>
    obtain ⟨_, _, h3, h4⟩ := recorded_once_step hs
    have hb : l'.isB0 = false := by
      cases hb : l'.isB0 with
      | false => rfl
      | true => exact absurd (h4 hl hb) hne
    have := ih hb
    have := h3 hl
    simp only [nrecObs, List.countP_append] at *
    omega

/-! ## J. Losers of the roll race and reporters that saw the ticker step back -/

/-- a reporter whose tick is before the current bucket's timestamp records its event, stamped with its own tick,
in a fresh bucket appended to the reservoir -/
theorem backstep_step {cfg : Config} {t : Tid} {g g' : CG} {c : Call} {o w : Nat} {tt : Int} {l' : L} {obs : List Obs}
    (hw : w < g.wins.length) (hlt : tt < (g.bucket (g.win w).cur).ts)
    (hs : step cfg t g (.w1 c o w tt) .tau = some (g', l', obs)) :
    l' = .idle ∧ obs = [.recorded w tt (decide (c = .succ)), .ret none] ∧
    g'.bucket g.buckets.length = mkBucket tt (decide (c = .succ)) ∧
    (g'.win w).res = (g.win w).res ++ [g.buckets.length] ∧ (g'.win w).cur = (g.win w).cur := by
  simp only [step, hlt, if_true, Option.some.injEq, Prod.mk.injEq] at hs
  obtain ⟨rfl, rfl, rfl⟩ := hs
  refine ⟨rfl, rfl, bucket_app_eq rfl, ?_, ?_⟩ <;> rw [win_set_eq rfl hw]

/-- a reporter that loses the CAS on the current-bucket pointer records its event, stamped with its own tick,
in its own fresh bucket appended to the reservoir -/
theorem loser_step {cfg : Config} {t : Tid} {g g' : CG} {c : Call} {o w : Nat} {tt : Int} {b : Nat} {l' : L}
    {obs : List Obs} (hw : w < g.wins.length) (hne : (g.win w).cur ≠ b)
    (hs : step cfg t g (.w2 c o w tt b) .tau = some (g', l', obs)) :
    l' = .idle ∧ obs = [.recorded w tt (decide (c = .succ)), .ret none] ∧
    g'.bucket g.buckets.length = mkBucket tt (decide (c = .succ)) ∧
    (g'.win w).res = (g.win w).res ++ [g.buckets.length] ∧ (g'.win w).cur = (g.win w).cur := by
  simp only [step, hne, if_false, Option.some.injEq, Prod.mk.injEq] at hs
  obtain ⟨rfl, rfl, rfl⟩ := hs
  refine ⟨rfl, rfl, bucket_app_eq rfl, ?_, ?_⟩ <;> rw [win_set_eq rfl hw]

/-! ## K. Bucket timestamps are ticker readings -/

/-- the readings held in a thread's locals satisfy `R` -/
def LR (R : Int → Prop) : L → Prop
  | .w1 _ _ _ t => R t
  | .w2 _ _ _ t _ => R t
  | .h1s _ t1 => R t1
  | .h2 _ t1 => R t1
  | .h3 _ _ t1 _ => R t1
  | _ => True

def ActR (R : Int → Prop) : Act → Prop
  | .tick t => R t
  | _ => True

theorem step_lr {R : Int → Prop} {cfg : Config} {t : Tid} {g g' : CG} {l l' : L} {a : Act} {obs : List Obs}
    (hl : LR R l) (ha : ActR R a) (hs : step cfg t g l a = some (g', l', obs)) : LR R l' := by
  unfold step at hs
  split at hs
  case h_2 =>
    dsimp only at hs
    split at hs <;> (try split at hs) <;>
      (simp only [Option.some.injEq, Prod.mk.injEq] at hs; obtain ⟨rfl, rfl, rfl⟩ := hs) <;> trivial
  case h_7 =>
    dsimp only at hs
    split at hs
    · simp only [Option.some.injEq, Prod.mk.injEq] at hs; obtain ⟨rfl, rfl, rfl⟩ := hs; trivial
    · split at hs <;> (simp only [Option.some.injEq, Prod.mk.injEq] at hs; obtain ⟨rfl, rfl, rfl⟩ := hs)
      · trivial
      · exact hl
  case h_8 =>
    dsimp only at hs
    split at hs <;> (simp only [Option.some.injEq, Prod.mk.injEq] at hs; obtain ⟨rfl, rfl, rfl⟩ := hs) <;> trivial
  case h_9 c o w e =>
    dsimp only at hs
    have : LR R (afterReport cfg c o (some e)).1 := by
      unfold afterReport
      dsimp only
      split <;> (try split) <;> trivial
    generalize afterReport cfg c o (some e) = r at hs this
    obtain ⟨l1, ob1⟩ := r
    simp only [Option.some.injEq, Prod.mk.injEq] at hs
    obtain ⟨rfl, rfl, rfl⟩ := hs
    exact this
  case h_18 => cases hs
  all_goals
    (try split at hs) <;>
    (simp only [Option.some.injEq, Prod.mk.injEq] at hs; obtain ⟨rfl, rfl, rfl⟩ := hs) <;>
    (first | trivial | exact hl | exact ha)

theorem ts_step {R : Int → Prop} {cfg : Config} {g g' : CG} {l : L} {obs : List Obs}
    (hts : ∀ b, b < g.buckets.length → R (g.bucket b).ts) (hl : LR R l) (he : WEff cfg g l g' obs) :
    ∀ b, b < g'.buckets.length → R (g'.bucket b).ts := by
  have happ : ∀ (bk : Bucket), g'.buckets = g.buckets ++ [bk] → R bk.ts →
      ∀ b, b < g'.buckets.length → R (g'.bucket b).ts := by
    intro bk hb hR b hlt
    rw [hb] at hlt; simp at hlt
    by_cases e : b < g.buckets.length
    · rw [bucket_app_lt hb e]; exact hts b e
    · have : b = g.buckets.length := by omega
      subst this; rw [bucket_app_eq hb]; exact hR
  cases he with
  | quiet hb hw _ =>
    intro b hlt
    have : g'.bucket b = g.bucket b := by simp [CG.bucket, hb]
    rw [this]; rw [hb] at hlt; exact hts b hlt
  | back c o w t _ hb hw => exact happ _ hb (by rw [ts_mk]; exact hl)
  | lose c o w t b _ hb hw => exact happ _ hb (by rw [ts_mk]; exact hl)
  | add c o w t _ _ hb hw =>
    intro b hlt
    have hlt' : b < g.buckets.length := by simpa [hb, setAt] using hlt
    by_cases e : (g.win w).cur = b
    · subst e; rw [bucket_set_eq hb hlt', ts_add]; exact hts _ hlt'
    · rw [bucket_set_ne hb e]; exact hts b hlt'
  | roll c o w t g1 kept hg1 hk hb hw => exact happ _ (hb.trans hg1) (by rw [ts_mk]; exact hl)
  | new o t1 t2 hb hw _ => exact happ _ hb hl

theorem tsinv_step {R : Int → Prop} {cfg : Config} {g g' : CG} {ls : Tid → L} {t : Tid} {a : Act} {l' : L}
    {obs : List Obs} (h : (∀ b, b < g.buckets.length → R (g.bucket b).ts) ∧ ∀ tid, LR R (ls tid)) (ha : ActR R a)
    (hs : step cfg t g (ls t) a = some (g', l', obs)) :
    (∀ b, b < g'.buckets.length → R (g'.bucket b).ts) ∧ ∀ tid, LR R (upd ls t l' tid) := by
  refine ⟨ts_step h.1 (h.2 t) (step_eff hs).2, fun tid => ?_⟩
  by_cases e : tid = t
  · subst e; rw [upd_same]; exact step_lr (h.2 tid) ha hs
  · rw [upd_other _ _ _ _ e]; exact h.2 tid

/-- **Every bucket timestamp is a ticker reading**: the constructor's first reading or a `tick` of the schedule. -/
theorem bucket_ts_is_reading (cfg : Config) (t1 t2 : Int) (s : List (Tid × Act)) :
    let g := (run (M cfg t1 t2) (Conc.Config.init _) s).1.g
    ∀ b, b < g.buckets.length → (g.bucket b).ts = t1 ∨ ∃ tid, (tid, Act.tick (g.bucket b).ts) ∈ s := by
  let R : Int → Prop := fun x => x = t1 ∨ ∃ tid, (tid, Act.tick x) ∈ s
  have := run_ind_n (M cfg t1 t2) s.length (fun _ a => ActR R a)
    (fun _ _ c => (∀ b, b < c.g.buckets.length → R (c.g.bucket b).ts) ∧ ∀ tid, LR R (c.l tid))
    (fun n lg c t a g' l' obs _ hP ha hstep => tsinv_step hP ha hstep)
    s (Conc.Config.init _) [] 0 (Nat.le_of_eq (Nat.zero_add _))
    ⟨fun b hb => by
        have : b = 0 := by simp [Conc.Config.init, M, initG] at hb; omega
        subst this; exact Or.inl rfl,
      fun _ => trivial⟩
    (fun e he => by
      obtain ⟨tid, a⟩ := e
      cases a with
      | tick x => exact Or.inr ⟨tid, he⟩
      | _ => trivial)
  obtain ⟨_, _, h, _⟩ := this
  exact h

/-! ## L. The stored snapshot is the count of the same operation's roll -/

def rollBy (tid : Tid) (e : Tid × Obs) : Option (Nat × Int × Int) :=
  if e.1 = tid then (match e.2 with | .rolled w _ s f => some (w, s, f) | _ => none) else none

/-- window and count of the last `rolled` entry emitted by thread `tid` -/
def lastRollBy (tid : Tid) (lg : List (Tid × Obs)) : Option (Nat × Int × Int) := (lg.filterMap (rollBy tid)).getLast?

/-- a step that leads to `w3` (snapshot store pending) is the winning roll, and the count carried to `w3` is the
count of its `rolled` observation -/
theorem step_to_w3 {cfg : Config} {t : Tid} {g g' : CG} {l l' : L} {a : Act} {obs : List Obs}
    (hs : step cfg t g l a = some (g', l', obs)) :
    ∀ c o w e, l' = .w3 c o w e → ∃ tt sc, obs = [.rolled w tt e.1 e.2, .recorded w tt sc] := by
  unfold step at hs
  split at hs
  case h_2 =>
    dsimp only at hs
    split at hs <;> (try split at hs) <;>
      (simp only [Option.some.injEq, Prod.mk.injEq] at hs; obtain ⟨rfl, rfl, rfl⟩ := hs) <;>
      (intro c o w e h; cases h)
  case h_7 =>
    dsimp only at hs
    split at hs
    · simp only [Option.some.injEq, Prod.mk.injEq] at hs; obtain ⟨rfl, rfl, rfl⟩ := hs
      intro c o w e h; cases h
    · split at hs <;> (simp only [Option.some.injEq, Prod.mk.injEq] at hs; obtain ⟨rfl, rfl, rfl⟩ := hs) <;>
        (intro c o w e h; cases h)
  case h_8 =>
    dsimp only at hs
    split at hs <;> (simp only [Option.some.injEq, Prod.mk.injEq] at hs; obtain ⟨rfl, rfl, rfl⟩ := hs) <;>
      (intro c o w e h; cases h)
    exact ⟨_, _, rfl⟩
  case h_9 c o w e =>
    dsimp only at hs
    have : ∀ c' o' w' e', (afterReport cfg c o (some e)).1 ≠ .w3 c' o' w' e' := by
      intro c' o' w' e'
      unfold afterReport
      dsimp only
      split <;> (try split) <;> (intro h; cases h)
    generalize afterReport cfg c o (some e) = r at hs this
    obtain ⟨l1, ob1⟩ := r
    simp only [Option.some.injEq, Prod.mk.injEq] at hs
    obtain ⟨rfl, rfl, rfl⟩ := hs
    intro c' o' w' e' h
    exact absurd h (this c' o' w' e')
  case h_18 => cases hs
  all_goals
    (try split at hs) <;>
    (simp only [Option.some.injEq, Prod.mk.injEq] at hs; obtain ⟨rfl, rfl, rfl⟩ := hs) <;>
    (intro c o w e h; cases h)

theorem lastRollBy_other (lg : List (Tid × Obs)) {t tid : Tid} (h : t ≠ tid) (obs : List Obs) :
    lastRollBy tid (lg ++ tag t obs) = lastRollBy tid lg := by
  have : (tag t obs).filterMap (rollBy tid) = [] := by
    rw [List.filterMap_eq_nil_iff]
    intro e he
    obtain ⟨o, _, rfl⟩ := List.mem_map.mp he
    simp [rollBy, h]
  simp only [lastRollBy, List.filterMap_append, this, List.append_nil]

theorem lastRollBy_roll (lg : List (Tid × Obs)) (t : Tid) (w : Nat) (tt s f : Int) (sc : Bool) :
    lastRollBy t (lg ++ tag t [.rolled w tt s f, .recorded w tt sc]) = some (w, s, f) := by
  have : (tag t [.rolled w tt s f, .recorded w tt sc]).filterMap (rollBy t) = [(w, s, f)] := by
    simp [tag, rollBy]
  simp only [lastRollBy, List.filterMap_append, this, List.getLast?_append]
  rfl

/-- a thread about to store a snapshot carries the count of the last roll it emitted -/
def SnapInv (lg : List (Tid × Obs)) (ls : Tid → L) : Prop :=
  ∀ tid c o w e, ls tid = .w3 c o w e → lastRollBy tid lg = some (w, e.1, e.2)

theorem snapInv_step {cfg : Config} {lg : List (Tid × Obs)} {g g' : CG} {ls : Tid → L} {t : Tid} {a : Act} {l' : L}
    {obs : List Obs} (h : SnapInv lg ls) (hs : step cfg t g (ls t) a = some (g', l', obs)) :
    SnapInv (lg ++ tag t obs) (upd ls t l') := by
  intro tid c o w e hl
  by_cases e1 : tid = t
  · subst e1
    rw [upd_same] at hl
    obtain ⟨tt, sc, rfl⟩ := step_to_w3 hs c o w e hl
    exact lastRollBy_roll lg tid w tt e.1 e.2 sc
  · rw [upd_other _ _ _ _ e1] at hl
    rw [lastRollBy_other lg (fun h => e1 h.symm)]
    exact h tid c o w e hl

theorem snapInv_run (cfg : Config) (t1 t2 : Int) (s : List (Tid × Act)) :
    SnapInv (run (M cfg t1 t2) (Conc.Config.init _) s).2 (run (M cfg t1 t2) (Conc.Config.init _) s).1.l := by
  have := run_ind_n (M cfg t1 t2) s.length (fun _ _ => True) (fun _ lg c => SnapInv lg c.l)
    (fun n lg c t a g' l' obs _ hP _ hstep => snapInv_step hP hstep)
    s (Conc.Config.init _) [] 0 (Nat.le_of_eq (Nat.zero_add _))
    (fun tid c o w e h => by cases h) (fun _ _ => trivial)
  obtain ⟨_, _, h⟩ := this
  simpa using h

/-- the snapshot store writes the carried count into the window -/
theorem w3_step_snap {cfg : Config} {t : Tid} {g g' : CG} {c : Call} {o w : Nat} {e : Int × Int} {a : Act} {l' : L}
    {obs : List Obs} (hw : w < g.wins.length) (hs : step cfg t g (.w3 c o w e) a = some (g', l', obs)) :
    (g'.win w).snap = e := by
  cases a <;> simp only [step] at hs
  · cases hs
  · generalize afterReport cfg c o (some e) = r at hs
    obtain ⟨l1, ob1⟩ := r
    simp only [Option.some.injEq, Prod.mk.injEq] at hs
    obtain ⟨rfl, rfl, rfl⟩ := hs
    rw [win_set_eq rfl hw]
  · cases hs

end Garr.Breaker
