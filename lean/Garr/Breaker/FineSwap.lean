import Garr.Breaker.FineMono
/-!
# Full-stack window counter: the bucket swapped out by the CAS winner is offered by that winner

`SwapInv`: for every `swapped b _` entry of thread `tid`, either `tid` is still inside its `Offer(b)` before the linking
CAS (it holds `b`; nobody else does, `b` is not in the reservoir: `Own`), or `tid` has linked `b`.
-/
namespace Garr.Breaker.Fine
open Garr Garr.Conc

def SwapInv (g : G) (ls : Tid → L) : Prop :=
  ∀ tid b nw, (tid, Ev.swapped b nw) ∈ g.w.log →
    (∃ t, (ls tid).w = .winOffer t b ∧ held (ls tid) = some b) ∨ ∃ pos, (tid, Ev.linked b pos) ∈ g.w.log

/-- a step of the winner while it holds the swapped-out bucket: it keeps holding it, or links it -/
theorem winner_step {cfg : Cfg} {tid : Tid} {g g' : G} {l l' : L} {t : Int} {b : Nat} (hwf : Wf l)
    (hw : l.w = .winOffer t b) (hh : held l = some b) (he : Eff cfg tid g l g' l') :
    (l'.w = .winOffer t b ∧ held l' = some b) ∨ ∃ pos, (tid, Ev.linked b pos) ∈ g'.w.log := by
  have hin : InOffer b l.q := by simpa [Wf, hw] using hwf
  have hh' : offVal l.q = some b := by simpa [held, hw] using hh
  cases he <;> try (simp_all; done)
  case offerCont b' gq1 ql1 o hw' hs hne =>
    have hb : b' = b := by rcases hw' with h | h | ⟨t', h⟩ <;> simp [hw] at h; exact h.2.symm
    subst hb
    rcases offer_tau_eff hin hs with ⟨_, h2, _, _⟩ | ⟨_, _, _, h4⟩ | ⟨h1, _⟩
    · exact Or.inl ⟨hw, by simp [held, hw, h2]⟩
    · exact Or.inr ⟨g.q.n, by simp [linkedEv, h4]⟩
    · rw [h1] at hh'; cases hh'
  case winRet t' b' gq1 o hw' hs =>
    have hb : b' = b := by simp [hw] at hw'; exact hw'.2.symm
    subst hb
    rcases offer_tau_eff hin hs with ⟨_, h2, _, _⟩ | ⟨_, _, _, h4⟩ | ⟨h1, _⟩
    · simp [offVal] at h2
    · exact Or.inr ⟨g.q.n, by simp [linkedEv, h4]⟩
    · rw [h1] at hh'; cases hh'

theorem leff_swapped {cfg : Cfg} {tid : Tid} {g g' : G} {l l' : L} (he : LEff cfg tid g l g' l') {u : Tid} {b nw : Nat}
    (hm : (u, Ev.swapped b nw) ∈ g'.w.log) :
    (u, Ev.swapped b nw) ∈ g.w.log ∨ (u = tid ∧ ∃ t, l' = ⟨.winOffer t b, .o0 b⟩) := by
  cases he with
  | quiet es a b' c =>
    rw [a] at hm
    rcases List.mem_append.1 hm with h | h
    · exact Or.inl h
    · have := mem_tagE_inert b' h; simp [Ev.inert] at this
  | swap t old nw' hw hcur a b' c =>
    rw [a] at hm
    rcases List.mem_append.1 hm with h | h
    · exact Or.inl h
    · simp at h; obtain ⟨rfl, rfl, rfl⟩ := h; exact Or.inr ⟨rfl, t, c⟩
  | link b' es' hh a hes hn hvn hv hln hlv =>
    rw [a] at hm
    rcases List.mem_append.1 hm with h | h
    · exact Or.inl h
    · rcases hes with rfl | ⟨t, rfl, _⟩ <;> simp [tagE] at h
  | start t a b' c => rw [a] at hm; exact Or.inl (by simpa using hm)
  | cntS r b' hw a c => rw [a] at hm; exact Or.inl (by simpa using hm)
  | cntF r b' hw a c => rw [a] at hm; exact Or.inl (by simpa using hm)
  | kill r b' it k hw hq a c =>
    rw [c] at hm
    rcases List.mem_append.1 hm with h | h
    · exact Or.inl h
    · split at h <;> simp at h
  | roll r it hw hq hnn a c => rw [a] at hm; exact Or.inl (by simpa using hm)

theorem swap_pres {cfg : Cfg} {tid : Tid} {g g' : G} {ls : Tid → L} {l' : L} (hb : Base g ls) (hf : Full cfg g ls)
    (hs : SwapInv g ls) (he : Eff cfg tid g (ls tid) g' l') : SwapInv g' (upd ls tid l') := by
  have hg := eff_guar hb hf.own hf.cnt he
  obtain ⟨es, hlog⟩ := hg.log
  intro u b nw hm
  rcases leff_swapped (eff_leff hb he) hm with h | ⟨rfl, t, rfl⟩
  · rcases hs u b nw h with ⟨t, h1, h2⟩ | ⟨pos, h1⟩
    · by_cases hu : u = tid
      · subst hu
        rcases winner_step (hb.wf u) h1 h2 he with ⟨k1, k2⟩ | k
        · exact Or.inl ⟨t, by simpa using k1, by simpa using k2⟩
        · exact Or.inr k
      · exact Or.inl ⟨t, by simpa [upd, hu] using h1, by simpa [upd, hu] using h2⟩
    · exact Or.inr ⟨pos, by rw [hlog]; exact List.mem_append_left _ h1⟩
  · exact Or.inl ⟨t, by simp, by simp [held, offVal]⟩

/-- all invariants in every reachable configuration -/
theorem reach_all {cfg : Cfg} (h0 : 0 ≤ cfg.interval) {t0 : Int} (c : Config (M cfg t0)) (h : Reach (M cfg t0) c) :
    Base c.g c.l ∧ Full cfg c.g c.l ∧ Mono cfg c.g c.l ∧ SwapInv c.g c.l :=
  reach_ind (cfg := cfg) (t0 := t0) (fun g ls => Full cfg g ls ∧ Mono cfg g ls ∧ SwapInv g ls)
    ⟨full_init cfg t0, mono_init cfg t0, fun _ _ _ h => by simp [initW] at h⟩
    (fun _ _ _ _ _ hb _ ⟨hf, hm, hs⟩ he => ⟨full_eff hb hf he, mono_eff h0 hb hf hm he, swap_pres hb hf hs he⟩) c h

/-- the invariants that do not need `0 ≤ interval` -/
theorem reach_swap {cfg : Cfg} {t0 : Int} (c : Config (M cfg t0)) (h : Reach (M cfg t0) c) :
    Base c.g c.l ∧ Full cfg c.g c.l ∧ SwapInv c.g c.l :=
  reach_ind (cfg := cfg) (t0 := t0) (fun g ls => Full cfg g ls ∧ SwapInv g ls)
    ⟨full_init cfg t0, fun _ _ _ h => by simp [initW] at h⟩
    (fun _ _ _ _ _ hb _ ⟨hf, hs⟩ he => ⟨full_eff hb hf he, swap_pres hb hf hs he⟩) c h

end Garr.Breaker.Fine
