import Garr.Num.F64
import Garr.Num.Wrap
/-!
# Sequential model of the circuit breaker and its sliding-window counter

Transcribes `circuit-breaker/nonBlockingCircuitBreaker.go` (`CanRequest`, `OnSuccess`, `OnFailure`, constructor)
and `slidingWindowCounter.go` (`onEvent`, `trimAndSum`) as pure functions for single-threaded use.
Ticker readings are inputs, consumed from a list in exactly the order and number the code calls
`Tick()`; `int64` additions wrap (`wrap64`); the failure rate is computed in the exact binary64 model.
Listener callbacks are returned as a log (fan-out to `k` listeners in registration order).
-/
namespace Garr.Breaker
open Garr

structure Config where
  thr : F64
  minReq : Int
  trial : Int
  openW : Int
  window : Int
  interval : Int
  listeners : Nat
deriving Repr

structure Bucket where
  ts : Int
  s : Int
  f : Int
deriving Repr, DecidableEq

/-- the sliding-window counter: current bucket, reservoir (queue order), last snapshot -/
structure Win where
  cur : Bucket
  res : List Bucket
  snap : Int × Int
deriving Repr, DecidableEq

inductive Kind | closed | opn | half
deriving Repr, DecidableEq

structure St where
  kind : Kind
  timeout : Int      -- deadline of OPEN / HALF_OPEN
  dur : Int          -- timedOutTimeNanos of the state object (0 for CLOSED)
  win : Win          -- counter of the CLOSED state object (unused otherwise: noopCounter)
deriving Repr, DecidableEq

inductive Cb
  | state (listener : Nat) (k : Kind)
  | count (listener : Nat) (s f : Int)
  | rejected (listener : Nat)
deriving Repr, DecidableEq

/-- next ticker reading (0 if the script is exhausted — the driver reports that separately) -/
def pop : List Int → Int × List Int
  | [] => (0, [])
  | t :: ts => (t, ts)

def mkBucket (t : Int) (succ : Bool) : Bucket := if succ then ⟨t, 1, 0⟩ else ⟨t, 0, 1⟩
def Bucket.add (b : Bucket) (succ : Bool) : Bucket := if succ then { b with s := wrap64 (b.s + 1) } else { b with f := wrap64 (b.f + 1) }

def sumS (bs : List Bucket) : Int := bs.foldl (fun acc b => wrap64 (acc + b.s)) 0
def sumF (bs : List Bucket) : Int := bs.foldl (fun acc b => wrap64 (acc + b.f)) 0

/-- `trimAndSum(t)`: drop buckets older than `t - window`, sum the rest -/
def trimAndSum (window t : Int) (res : List Bucket) : List Bucket × Int × Int :=
  let oldLimit := wrap64 (t - window)
  let kept := res.filter (fun b => !(decide (b.ts < oldLimit)))
  (kept, sumS kept, sumF kept)

/-- `onEvent(succ)` given the ticker reading `t` -/
def onEvent (window interval : Int) (w : Win) (t : Int) (succ : Bool) : Win × Option (Int × Int) :=
  if t < w.cur.ts then ({ w with res := w.res ++ [mkBucket t succ] }, none)
  else if t < wrap64 (w.cur.ts + interval) then ({ w with cur := w.cur.add succ }, none)
  else
    let r := trimAndSum window t (w.res ++ [w.cur])
    ({ cur := mkBucket t succ, res := r.1, snap := (r.2.1, r.2.2) }, some (r.2.1, r.2.2))

def newWin (t : Int) : Win := { cur := ⟨t, 0, 0⟩, res := [], snap := (0, 0) }

/-- `checkIfExceedingFailureThreshold(count)` -/
def exceeds (cfg : Config) (s f : Int) : Bool :=
  let total := wrap64 (s + f)
  decide (0 < total) && decide (cfg.minReq ≤ total) &&
    (if total = 0 then F64.lt cfg.thr (F64.neg F64.one)
     else F64.lt cfg.thr (F64.div (F64.ofInt f) (F64.ofInt total)))

def fanState (k : Nat) (kd : Kind) : List Cb :=
  (List.range k).flatMap (fun i => [Cb.state i kd, Cb.count i 0 0])
def fanCount (k : Nat) (s f : Int) : List Cb := (List.range k).map (fun i => Cb.count i s f)
def fanRejected (k : Nat) : List Cb := (List.range k).map Cb.rejected

/-- `newClosedState()`: two readings (counter's first bucket, then the state object) -/
def newClosed (ts : List Int) : St × List Int :=
  let (t1, ts1) := pop ts
  let (t2, ts2) := pop ts1
  ({ kind := .closed, timeout := wrap64 (t2 + 0), dur := 0, win := newWin t1 }, ts2)

def newTimed (kd : Kind) (dur : Int) (old : St) (ts : List Int) : St × List Int :=
  let (t, ts1) := pop ts
  ({ kind := kd, timeout := wrap64 (t + dur), dur := dur, win := old.win }, ts1)

/-- constructor: initial CLOSED state + notification -/
def create (cfg : Config) (ts : List Int) : St × List Int × List Cb :=
  let (st, ts1) := newClosed ts
  (st, ts1, fanState cfg.listeners .closed)

/-- `CanRequest()` -/
def canRequest (cfg : Config) (st : St) (ts : List Int) : St × List Int × Bool × List Cb :=
  match st.kind with
  | .closed => (st, ts, true, [])
  | _ =>
    if st.dur > 0 then
      let (t1, ts1) := pop ts
      if st.timeout ≤ t1 then
        let (st', ts2) := newTimed .half cfg.trial st ts1
        (st', ts2, true, fanState cfg.listeners .half)
      else (st, ts1, false, fanRejected cfg.listeners)
    else (st, ts, false, fanRejected cfg.listeners)

/-- `OnSuccess()` -/
def onSuccess (cfg : Config) (st : St) (ts : List Int) : St × List Int × List Cb :=
  match st.kind with
  | .closed =>
    let (t, ts1) := pop ts
    let (w, e) := onEvent cfg.window cfg.interval st.win t true
    match e with
    | some (s, f) => ({ st with win := w }, ts1, fanCount cfg.listeners s f)
    | none => ({ st with win := w }, ts1, [])
  | .half =>
    let (st', ts1) := newClosed ts
    (st', ts1, fanState cfg.listeners .closed)
  | .opn => (st, ts, [])

/-- `OnFailure()` -/
def onFailure (cfg : Config) (st : St) (ts : List Int) : St × List Int × List Cb :=
  match st.kind with
  | .closed =>
    let (t, ts1) := pop ts
    let (w, e) := onEvent cfg.window cfg.interval st.win t false
    match e with
    | some (s, f) =>
      if exceeds cfg s f then
        let (st', ts2) := newTimed .opn cfg.openW { st with win := w } ts1
        (st', ts2, fanState cfg.listeners .opn)
      else ({ st with win := w }, ts1, fanCount cfg.listeners s f)
    | none => ({ st with win := w }, ts1, [])
  | .half =>
    let (st', ts1) := newTimed .opn cfg.openW st ts
    (st', ts1, fanState cfg.listeners .opn)
  | .opn => (st, ts, [])

inductive Op | can | succ | fail
deriving Repr, DecidableEq

/-- result of one call: the admission decision (for `CanRequest`) and the callback log -/
structure Out where
  admit : Option Bool
  cbs : List Cb
deriving Repr, DecidableEq

def stepOp (cfg : Config) (st : St) (ts : List Int) : Op → St × List Int × Out
  | .can => let r := canRequest cfg st ts; (r.1, r.2.1, ⟨some r.2.2.1, r.2.2.2⟩)
  | .succ => let r := onSuccess cfg st ts; (r.1, r.2.1, ⟨none, r.2.2⟩)
  | .fail => let r := onFailure cfg st ts; (r.1, r.2.1, ⟨none, r.2.2⟩)

def runOps (cfg : Config) : St → List Int → List Op → List Out × St × List Int
  | st, ts, [] => ([], st, ts)
  | st, ts, op :: ops =>
    let r := stepOp cfg st ts op
    let rest := runOps cfg r.1 r.2.1 ops
    (r.2.2 :: rest.1, rest.2.1, rest.2.2)

end Garr.Breaker
