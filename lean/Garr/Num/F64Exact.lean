import Garr.Num.F64Bits
import Garr.Num.F64Lemmas
/-!
# IEEE-754 binary64 addition is exact whenever the exact result is representable

* `Representable q`: the rational `q` is the value of a finite (canonical) binary64.
* `add_exact`: for finite `x y`, if `val x + val y` is representable then `F64.add x y` is a finite canonical
  value with `val (add x y) = val x + val y` (no NaN, no infinity, no rounding).  Signed zeros are handled on
  `val`, where `+0` and `-0` coincide.
* bit level: `ofBits_isF64` (every bit pattern decodes to a canonical value), `ofBits_toBits` (round trip on
  finite canonical values); `bval`/`fval`/`IsFinBits` read a stored `Int` bit pattern;
  `addBits_exact` is `add_exact` for the bit-pattern addition used by the adders' float algebra.

(Proof file: imports single Mathlib modules through `F64Lemmas`.)
-/
namespace Garr.F64Exact
open Garr Garr.F64

/-- `q` is the value of a finite binary64 (a canonical `±m·2^e`) -/
def Representable (q : ℚ) : Prop := ∃ (n : Bool) (m : ℕ) (e : ℤ), Canon m e ∧ val (.fin n m e) = q

/-- `x` is a finite value in canonical form -/
def FinCanon (x : F64) : Prop := ∃ (n : Bool) (m : ℕ) (e : ℤ), Canon m e ∧ x = .fin n m e

theorem representable_zero : Representable 0 :=
  ⟨false, 0, -1074, by decide, by simp [val]⟩

theorem FinCanon.representable {x : F64} (h : FinCanon x) : Representable (val x) := by
  obtain ⟨n, m, e, hc, rfl⟩ := h
  exact ⟨n, m, e, hc, rfl⟩

theorem FinCanon.isF64 {x : F64} (h : FinCanon x) : IsF64 x := by
  obtain ⟨n, m, e, hc, rfl⟩ := h
  exact hc

theorem val_fin (n : Bool) (m : ℕ) (e : ℤ) :
    val (.fin n m e) = (if n then -1 else 1) * (m : ℚ) * (2:ℚ)^e := rfl

/-- `add` on finite values, unfolded -/
theorem add_fin_fin (n1 : Bool) (m1 : ℕ) (e1 : ℤ) (n2 : Bool) (m2 : ℕ) (e2 : ℤ) :
    add (.fin n1 m1 e1) (.fin n2 m2 e2) =
      (if scaled n1 m1 e1 (if e1 ≤ e2 then e1 else e2) + scaled n2 m2 e2 (if e1 ≤ e2 then e1 else e2) = 0
        then zero (n1 && n2)
        else ofFin (decide (scaled n1 m1 e1 (if e1 ≤ e2 then e1 else e2) + scaled n2 m2 e2 (if e1 ≤ e2 then e1 else e2) < 0))
          (scaled n1 m1 e1 (if e1 ≤ e2 then e1 else e2) + scaled n2 m2 e2 (if e1 ≤ e2 then e1 else e2)).natAbs
          (if e1 ≤ e2 then e1 else e2)) := rfl

/-- the exact integer sum at the common exponent is the exact rational sum -/
theorem scaled_sum (n1 : Bool) (m1 : ℕ) (e1 : ℤ) (n2 : Bool) (m2 : ℕ) (e2 : ℤ) :
    ((scaled n1 m1 e1 (if e1 ≤ e2 then e1 else e2) + scaled n2 m2 e2 (if e1 ≤ e2 then e1 else e2) : ℤ) : ℚ)
      * (2:ℚ)^(if e1 ≤ e2 then e1 else e2) = val (.fin n1 m1 e1) + val (.fin n2 m2 e2) := by
  have he1 : (if e1 ≤ e2 then e1 else e2) ≤ e1 := by split <;> omega
  have he2 : (if e1 ≤ e2 then e1 else e2) ≤ e2 := by split <;> omega
  have hp := two_zpow_pos (if e1 ≤ e2 then e1 else e2)
  rw [Int.cast_add, scaled_cast _ _ he1, scaled_cast _ _ he2, ← add_mul, mul_assoc,
    inv_mul_cancel₀ (ne_of_gt hp), mul_one]

/-- rounding the signed dyadic `S·2^E` (`S ≠ 0`) whose value is representable returns that value -/
theorem ofFin_signed_exact {S : ℤ} {E : ℤ} (hS : S ≠ 0) {q : ℚ} (hq : (S : ℚ) * (2:ℚ)^E = q)
    (hr : Representable q) :
    ∃ (n : Bool) (m : ℕ) (e : ℤ), Canon m e ∧ ofFin (decide (S < 0)) S.natAbs E = .fin n m e ∧
      val (.fin n m e) = q := by
  obtain ⟨n, m, e, hc, hv⟩ := hr
  have hpE := two_zpow_pos E
  have hpe := two_zpow_pos e
  have hm0 : (0:ℚ) ≤ (m : ℚ) := Nat.cast_nonneg m
  rw [val_fin] at hv
  rw [← hq] at hv
  by_cases hneg : S < 0
  · -- negative sum
    have hSq : (S : ℚ) < 0 := by exact_mod_cast hneg
    have hlt : (S : ℚ) * (2:ℚ)^E < 0 := mul_neg_of_neg_of_pos hSq hpE
    have hn : n = true := by
      cases n
      · exfalso
        simp only [Bool.false_eq_true, if_false, one_mul] at hv
        have : (0:ℚ) ≤ (m : ℚ) * (2:ℚ)^e := by positivity
        linarith
      · rfl
    subst hn
    simp only [if_true] at hv
    have habs : ((S.natAbs : ℕ) : ℚ) = -(S : ℚ) := by
      rw [Nat.cast_natAbs, abs_of_neg hneg]; push_cast; ring
    have hmag : ((S.natAbs : ℕ) : ℚ) * (2:ℚ)^E = (m : ℚ) * (2:ℚ)^e := by
      rw [habs]; linarith
    refine ⟨true, m, e, hc, ?_, ?_⟩
    · rw [decide_eq_true hneg]; exact ofFin_exact true hc hmag
    · rw [val_fin, ← hq]; simp only [if_true]; linarith
  · -- positive sum
    have hpos : 0 < S := by omega
    have hSq : (0:ℚ) < (S : ℚ) := by exact_mod_cast hpos
    have hgt : 0 < (S : ℚ) * (2:ℚ)^E := mul_pos hSq hpE
    have hn : n = false := by
      cases n
      · rfl
      · exfalso
        simp only [if_true] at hv
        have : (0:ℚ) ≤ (m : ℚ) * (2:ℚ)^e := by positivity
        linarith
    subst hn
    simp only [Bool.false_eq_true, if_false, one_mul] at hv
    have habs : ((S.natAbs : ℕ) : ℚ) = (S : ℚ) := by
      rw [Nat.cast_natAbs, abs_of_pos hpos]
    have hmag : ((S.natAbs : ℕ) : ℚ) * (2:ℚ)^E = (m : ℚ) * (2:ℚ)^e := by
      rw [habs]; linarith
    refine ⟨false, m, e, hc, ?_, ?_⟩
    · rw [decide_eq_false hneg]; exact ofFin_exact false hc hmag
    · rw [val_fin, ← hq]; simp only [Bool.false_eq_true, if_false, one_mul]; linarith

/-- **IEEE addition is exact whenever the exact result is representable** (finite operands, in any — not
    necessarily canonical — form): the result is a finite canonical value whose rational value is the exact
    sum.  In particular it is neither NaN nor an infinity. -/
theorem add_exact_fin (n1 : Bool) (m1 : ℕ) (e1 : ℤ) (n2 : Bool) (m2 : ℕ) (e2 : ℤ)
    (hr : Representable (val (.fin n1 m1 e1) + val (.fin n2 m2 e2))) :
    FinCanon (add (.fin n1 m1 e1) (.fin n2 m2 e2)) ∧
      val (add (.fin n1 m1 e1) (.fin n2 m2 e2)) = val (.fin n1 m1 e1) + val (.fin n2 m2 e2) := by
  have hs := scaled_sum n1 m1 e1 n2 m2 e2
  rw [add_fin_fin]
  generalize (if e1 ≤ e2 then e1 else e2) = E at hs ⊢
  generalize scaled n1 m1 e1 E + scaled n2 m2 e2 E = S at hs ⊢
  by_cases h0 : S = 0
  · subst h0
    simp only [if_true]
    refine ⟨⟨n1 && n2, 0, -1074, by decide, rfl⟩, ?_⟩
    rw [← hs]; simp [zero, val]
  · simp only [if_neg h0]
    obtain ⟨n, m, e, hc, heq, hv⟩ := ofFin_signed_exact h0 hs hr
    rw [heq]
    exact ⟨⟨n, m, e, hc, rfl⟩, hv⟩

/-- `x` is finite (not NaN, not an infinity) -/
def IsFin (x : F64) : Prop := ∃ (n : Bool) (m : ℕ) (e : ℤ), x = .fin n m e

theorem FinCanon.isFin {x : F64} (h : FinCanon x) : IsFin x := by
  obtain ⟨n, m, e, _, rfl⟩ := h
  exact ⟨n, m, e, rfl⟩

/-- **`add_exact`.**  For finite `x`, `y`: if the exact sum `val x + val y` is the value of a finite binary64,
    then `F64.add x y` is finite, canonical, and `val (add x y) = val x + val y`. -/
theorem add_exact {x y : F64} (hx : IsFin x) (hy : IsFin y) (hr : Representable (val x + val y)) :
    FinCanon (add x y) ∧ val (add x y) = val x + val y := by
  obtain ⟨n1, m1, e1, rfl⟩ := hx
  obtain ⟨n2, m2, e2, rfl⟩ := hy
  exact add_exact_fin n1 m1 e1 n2 m2 e2 hr

/-- the same with an explicit witness `z` for the representable sum -/
theorem add_exact_witness {x y z : F64} (hx : IsFin x) (hy : IsFin y) (hz : FinCanon z)
    (h : val z = val x + val y) : FinCanon (add x y) ∧ val (add x y) = val z := by
  rw [h]
  exact add_exact hx hy (h ▸ hz.representable)

/-- without signed zeros in the way the result is the witness itself: two canonical finite values with the
    same non-zero rational value are equal -/
theorem add_exact_ne_nan {x y : F64} (hx : IsFin x) (hy : IsFin y) (hr : Representable (val x + val y)) :
    add x y ≠ .nan ∧ ∀ s, add x y ≠ .inf s := by
  obtain ⟨⟨n, m, e, _, h⟩, _⟩ := add_exact hx hy hr
  rw [h]
  exact ⟨by simp, fun s => by simp⟩

/-! ## Bit patterns -/

theorem ofBits_isF64 (b : ℕ) : IsF64 (ofBits b) := by
  unfold ofBits
  simp only
  split
  · split <;> trivial
  · split
    · show Canon _ _
      unfold Canon
      have : b % 2^52 < 2^52 := Nat.mod_lt _ (by decide)
      omega
    · show Canon _ _
      unfold Canon
      have h1 : b % 2^52 < 2^52 := Nat.mod_lt _ (by decide)
      have h2 : b / 2^52 % 2048 < 2048 := Nat.mod_lt _ (by decide)
      omega

/-- decoding the encoding of a finite canonical value gives it back -/
theorem ofBits_toBits_fin (n : Bool) {m : ℕ} {e : ℤ} (hc : Canon m e) :
    ofBits (toBits (.fin n m e)) = .fin n m e := by
  obtain ⟨h1, h2, h3, h4⟩ := hc
  have p63 : (2:ℕ)^63 = 9223372036854775808 := by norm_num
  have p52 : (2:ℕ)^52 = 4503599627370496 := by norm_num
  have p53 : (2:ℕ)^53 = 9007199254740992 := by norm_num
  rw [p53] at h1
  rw [p52] at h4
  unfold toBits ofBits
  simp only [p63, p52]
  by_cases hm : m < 4503599627370496
  · have he : e = -1074 := by omega
    subst he
    simp only [if_pos hm]
    cases n
    · simp only [Bool.false_eq_true, if_false, Nat.zero_add]
      have a1 : m / 9223372036854775808 % 2 = 0 := by omega
      have a2 : m / 4503599627370496 % 2048 = 0 := by omega
      have a3 : m % 4503599627370496 = m := by omega
      simp [a1, a2, a3]
    · simp only [if_true]
      have a1 : (9223372036854775808 + m) / 9223372036854775808 % 2 = 1 := by omega
      have a2 : (9223372036854775808 + m) / 4503599627370496 % 2048 = 0 := by omega
      have a3 : (9223372036854775808 + m) % 4503599627370496 = m := by omega
      simp [a2, a3]
      omega
  · simp only [if_neg hm]
    have hE : ∃ E : ℕ, (e + 1075).toNat = E ∧ 1 ≤ E ∧ E ≤ 2046 ∧ (E : ℤ) = e + 1075 :=
      ⟨(e + 1075).toNat, rfl, by omega, by omega, by omega⟩
    obtain ⟨E, hE1, hE2, hE3, hE4⟩ := hE
    rw [hE1]
    have hF : ∃ F : ℕ, m - 4503599627370496 = F ∧ F < 4503599627370496 ∧ m = 4503599627370496 + F :=
      ⟨m - 4503599627370496, rfl, by omega, by omega⟩
    obtain ⟨F, hF1, hF2, hF3⟩ := hF
    rw [hF1]
    have he : e = (E : ℤ) - 1075 := by omega
    cases n
    · simp only [Bool.false_eq_true, if_false, Nat.zero_add]
      have a1 : (E * 4503599627370496 + F) / 9223372036854775808 % 2 = 0 := by omega
      have a2 : (E * 4503599627370496 + F) / 4503599627370496 % 2048 = E := by omega
      have a3 : (E * 4503599627370496 + F) % 4503599627370496 = F := by omega
      have a4 : ¬ E = 2047 := by omega
      have a5 : ¬ E = 0 := by omega
      simp [a1, a2, a3, a4, a5, hF3, he]
    · simp only [if_true]
      have a1 : (9223372036854775808 + (E * 4503599627370496 + F)) / 9223372036854775808 % 2 = 1 := by omega
      have a2 : (9223372036854775808 + (E * 4503599627370496 + F)) / 4503599627370496 % 2048 = E := by omega
      have a3 : (9223372036854775808 + (E * 4503599627370496 + F)) % 4503599627370496 = F := by omega
      have a4 : ¬ E = 2047 := by omega
      have a5 : ¬ E = 0 := by omega
      simp [a2, a3, a4, a5, hF3, he]
      omega

theorem ofBits_toBits {x : F64} (h : FinCanon x) : ofBits (toBits x) = x := by
  obtain ⟨n, m, e, hc, rfl⟩ := h
  exact ofBits_toBits_fin n hc

/-- the float stored as the bit pattern `b` (stored values are non-negative integers `< 2^64`) -/
def bval (b : ℤ) : F64 := ofBits b.toNat

/-- the rational value of a stored bit pattern (`0` for NaN / ±∞ — always used together with `IsFinBits`) -/
def fval (b : ℤ) : ℚ := val (bval b)

/-- the stored bit pattern is a finite float -/
def IsFinBits (b : ℤ) : Prop := IsFin (bval b)

/-- bit-pattern addition, as performed by the adders' float algebra (`Garr.Adder.floatAlg.add`) -/
def addBits (a b : ℤ) : ℤ := ((toBits (add (bval a) (bval b)) : ℕ) : ℤ)

theorem bval_isF64 (b : ℤ) : IsF64 (bval b) := ofBits_isF64 _

theorem IsFinBits.finCanon {b : ℤ} (h : IsFinBits b) : FinCanon (bval b) := by
  obtain ⟨n, m, e, he⟩ := h
  have := bval_isF64 b
  rw [he] at this
  exact ⟨n, m, e, this, he⟩

theorem IsFinBits.representable {b : ℤ} (h : IsFinBits b) : Representable (fval b) :=
  h.finCanon.representable

theorem bval_zero : bval 0 = .fin false 0 (-1074) := by
  unfold bval ofBits; simp

theorem isFinBits_zero : IsFinBits 0 := ⟨false, 0, -1074, bval_zero⟩

theorem fval_zero : fval 0 = 0 := by
  unfold fval; rw [bval_zero]; simp [val]

theorem bval_addBits {a b : ℤ} (h : FinCanon (add (bval a) (bval b))) :
    bval (addBits a b) = add (bval a) (bval b) := by
  unfold addBits
  show ofBits (Int.toNat ((toBits (add (bval a) (bval b)) : ℕ) : ℤ)) = _
  rw [Int.toNat_natCast]
  exact ofBits_toBits h

/-- **Bit-level exactness.**  If `a`, `b` hold finite floats and the exact sum of their values is
    representable, the stored result of the IEEE addition is a finite float whose value is that exact sum. -/
theorem addBits_exact {a b : ℤ} (ha : IsFinBits a) (hb : IsFinBits b) (hr : Representable (fval a + fval b)) :
    IsFinBits (addBits a b) ∧ fval (addBits a b) = fval a + fval b := by
  obtain ⟨hc, hv⟩ := add_exact ha hb hr
  have e := bval_addBits hc
  refine ⟨?_, ?_⟩
  · show IsFin (bval (addBits a b))
    rw [e]; exact hc.isFin
  · show val (bval (addBits a b)) = _
    rw [e]; exact hv

/-! ## A sufficient condition: small integer multiples of a power of two -/

/-- `k·2^e` with `|k| < 2^53` and `e` in the exponent range is the value of a finite binary64 -/
theorem representable_int_mul_pow {k : ℤ} {e : ℤ} (hk : k.natAbs < 2^53) (he1 : -1074 ≤ e) (he2 : e ≤ 971) :
    Representable ((k : ℚ) * (2:ℚ)^e) := by
  by_cases hm : k.natAbs = 0
  · have : k = 0 := by omega
    subst this
    simp only [Int.cast_zero, zero_mul]
    exact representable_zero
  · -- normalise the significand
    have hL : k.natAbs.log2 < 53 := (Nat.log2_lt hm).2 hk
    have hlo : 2^k.natAbs.log2 ≤ k.natAbs := Nat.log2_self_le hm
    have hhi : k.natAbs < 2^(k.natAbs.log2 + 1) := Nat.lt_log2_self
    obtain ⟨d, hd1, hd2, hd3⟩ : ∃ d : ℕ, d ≤ 52 - k.natAbs.log2 ∧ (d : ℤ) ≤ e + 1074 ∧
        (d = 52 - k.natAbs.log2 ∨ (d : ℤ) = e + 1074) := by
      by_cases h : (52 - k.natAbs.log2 : ℕ) ≤ (e + 1074).toNat
      · exact ⟨52 - k.natAbs.log2, le_refl _, by omega, Or.inl rfl⟩
      · exact ⟨(e + 1074).toNat, by omega, by omega, Or.inr (by omega)⟩
    have hc : Canon (k.natAbs * 2^d) (e - d) := by
      refine ⟨?_, by omega, by omega, ?_⟩
      · calc k.natAbs * 2^d < 2^(k.natAbs.log2 + 1) * 2^d := Nat.mul_lt_mul_of_pos_right hhi (Nat.two_pow_pos d)
          _ = 2^(k.natAbs.log2 + 1 + d) := (Nat.pow_add _ _ _).symm
          _ ≤ 2^53 := Nat.pow_le_pow_right (by decide) (by omega)
      · rcases hd3 with h | h
        · left
          calc 2^52 = 2^k.natAbs.log2 * 2^d := by rw [← Nat.pow_add]; congr 1; omega
            _ ≤ k.natAbs * 2^d := Nat.mul_le_mul_right _ hlo
        · right; omega
    have hval : ((k.natAbs * 2^d : ℕ) : ℚ) * (2:ℚ)^(e - d) = (k.natAbs : ℚ) * (2:ℚ)^e := by
      push_cast
      rw [zpow_sub₀ (by norm_num : (2:ℚ) ≠ 0), zpow_natCast]
      have : ((2:ℚ)^d) ≠ 0 := by positivity
      field_simp
    refine ⟨decide (k < 0), _, _, hc, ?_⟩
    rw [val_fin, mul_assoc, hval]
    by_cases hneg : k < 0
    · rw [decide_eq_true hneg]
      simp only [if_true]
      have : ((k.natAbs : ℕ) : ℚ) = -(k : ℚ) := by
        rw [Nat.cast_natAbs, abs_of_neg hneg]; push_cast; ring
      rw [this]; ring
    · rw [decide_eq_false hneg]
      simp only [Bool.false_eq_true, if_false, one_mul]
      have : ((k.natAbs : ℕ) : ℚ) = (k : ℚ) := by
        rw [Nat.cast_natAbs, abs_of_nonneg (by omega)]
      rw [this]

end Garr.F64Exact
