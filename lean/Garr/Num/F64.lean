/-!
# Exact model of IEEE-754 binary64 on `Nat`/`Int`

A value is NaN, ±∞ or `±m·2^e`.  All operations are "exact rational result, then one
round-to-nearest-even, overflow to ∞, gradual underflow".  Canonical finite values satisfy
`Canon m e` (what `decode` of 64 raw bits produces); every operation returns canonical values.
The bit-level `encode`/`decode` live in `Driver/F64Bits.lean` (glue, validated differentially).
Core-only: this file is compiled into the driver.
-/
namespace Garr

inductive F64 where
  | nan
  | inf (neg : Bool)
  | fin (neg : Bool) (m : Nat) (e : Int)   -- value = (-1)^neg * m * 2^e
deriving Repr, DecidableEq, Inhabited

namespace F64

/-- canonical (decoded) form of a finite binary64 -/
def Canon (m : Nat) (e : Int) : Prop :=
  m < 2^53 ∧ -1074 ≤ e ∧ e ≤ 971 ∧ (2^52 ≤ m ∨ e = -1074)

instance (m : Nat) (e : Int) : Decidable (Canon m e) := by unfold Canon; infer_instance

/-- `x` is (the decoding of) some binary64 bit pattern -/
def IsF64 : F64 → Prop
  | .nan => True
  | .inf _ => True
  | .fin _ m e => Canon m e

instance : (x : F64) → Decidable (IsF64 x)
  | .nan => isTrue trivial
  | .inf _ => isTrue trivial
  | .fin _ m e => inferInstanceAs (Decidable (Canon m e))

def zero (neg : Bool) : F64 := .fin neg 0 (-1074)

/-- nearest-even rounding of `N / D` to a natural number -/
def rne (N D : Nat) : Nat :=
  let m0 := N / D
  let r := N % D
  if 2 * r > D ∨ (2 * r = D ∧ m0 % 2 = 1) then m0 + 1 else m0

/-- floor(log2 (num/den)) for num, den > 0 -/
def ilog2q (num den : Nat) : Int :=
  let e0 : Int := (Nat.log2 num : Int) - (Nat.log2 den : Int)
  let ge : Bool := if e0 ≥ 0 then num ≥ den * 2^e0.toNat else num * 2^(-e0).toNat ≥ den
  if ge then e0 else e0 - 1

/-- round the exact rational `±num/den` (`den > 0`) to binary64 -/
def roundQ (neg : Bool) (num den : Nat) : F64 :=
  if num = 0 then zero neg else
  let e := ilog2q num den
  let q : Int := if e - 52 < -1074 then -1074 else e - 52
  let N : Nat := if q ≥ 0 then num else num * 2^(-q).toNat
  let D : Nat := if q ≥ 0 then den * 2^q.toNat else den
  let m1 := rne N D
  let m : Nat := if m1 = 2^53 then 2^52 else m1
  let q' : Int := if m1 = 2^53 then q + 1 else q
  if 2^52 ≤ m ∧ q' > 971 then .inf neg else .fin neg m q'

/-- round `±m·2^e` -/
def ofFin (neg : Bool) (m : Nat) (e : Int) : F64 :=
  if e ≥ 0 then roundQ neg (m * 2^e.toNat) 1 else roundQ neg m (2^(-e).toNat)

def ofInt (i : Int) : F64 := if i = 0 then zero false else roundQ (i < 0) i.natAbs 1

/-- signed integer numerator of a finite value at exponent `e ≤ own exponent` -/
def scaled (neg : Bool) (m : Nat) (em e : Int) : Int :=
  (if neg then -1 else 1) * ((m * 2^(em - e).toNat : Nat) : Int)

def mul : F64 → F64 → F64
  | .nan, _ | _, .nan => .nan
  | .inf n1, .inf n2 => .inf (n1 != n2)
  | .inf n1, .fin n2 m _ | .fin n2 m _, .inf n1 => if m = 0 then .nan else .inf (n1 != n2)
  | .fin n1 m1 e1, .fin n2 m2 e2 => ofFin (n1 != n2) (m1*m2) (e1+e2)

def div : F64 → F64 → F64
  | .nan, _ | _, .nan => .nan
  | .inf _, .inf _ => .nan
  | .inf n1, .fin n2 _ _ => .inf (n1 != n2)
  | .fin n1 _ _, .inf n2 => zero (n1 != n2)
  | .fin n1 m1 e1, .fin n2 m2 e2 =>
    if m2 = 0 then (if m1 = 0 then .nan else .inf (n1 != n2))
    else
      let e := e1 - e2
      if e ≥ 0 then roundQ (n1 != n2) (m1 * 2^e.toNat) m2 else roundQ (n1 != n2) m1 (m2 * 2^(-e).toNat)

def add : F64 → F64 → F64
  | .nan, _ | _, .nan => .nan
  | .inf n1, .inf n2 => if n1 = n2 then .inf n1 else .nan
  | .inf n1, .fin _ _ _ | .fin _ _ _, .inf n1 => .inf n1
  | .fin n1 m1 e1, .fin n2 m2 e2 =>
    let e := if e1 ≤ e2 then e1 else e2
    let s := scaled n1 m1 e1 e + scaled n2 m2 e2 e
    if s = 0 then zero (n1 && n2) else ofFin (s < 0) s.natAbs e

def neg : F64 → F64
  | .nan => .nan
  | .inf n => .inf (!n)
  | .fin n m e => .fin (!n) m e

/-- IEEE `<` (false if either is NaN; -0 = +0) -/
def lt : F64 → F64 → Bool
  | .nan, _ | _, .nan => false
  | .inf n1, .inf n2 => n1 && !n2
  | .inf n1, .fin _ _ _ => n1
  | .fin _ _ _, .inf n2 => !n2
  | .fin n1 m1 e1, .fin n2 m2 e2 =>
    let e := if e1 ≤ e2 then e1 else e2
    scaled n1 m1 e1 e < scaled n2 m2 e2 e

/-- IEEE `<=` -/
def le : F64 → F64 → Bool
  | .nan, _ | _, .nan => false
  | .inf n1, .inf n2 => n1 || !n2
  | .inf n1, .fin _ _ _ => n1
  | .fin _ _ _, .inf n2 => !n2
  | .fin n1 m1 e1, .fin n2 m2 e2 =>
    let e := if e1 ≤ e2 then e1 else e2
    scaled n1 m1 e1 e ≤ scaled n2 m2 e2 e

def isNaN : F64 → Bool
  | .nan => true
  | _ => false

/-- Go on amd64 (`CVTTSD2SQ`): `int64(f)` truncates; NaN / out of range gives `-2^63`. -/
def toInt64 : F64 → Int
  | .nan | .inf _ => -(2^63)
  | .fin neg m e =>
    let mag : Nat := if e ≥ 0 then m * 2^e.toNat else m / 2^(-e).toNat
    let v : Int := if neg then -(mag : Int) else mag
    if v ≥ 2^63 ∨ v < -(2^63) then -(2^63) else v

def one : F64 := .fin false (2^52) (-52)
def two63 : F64 := .fin false (2^52) 11     -- float64(math.MaxInt64) = 2^63

end F64
end Garr
