/-! Two's-complement wrap into int64, shared by the models. -/
namespace Garr

/-- two's-complement wrap into int64 -/
def wrap64 (x : Int) : Int := (x + 2^63) % 2^64 - 2^63

theorem wrap64_range (x : Int) : -(2^63) ≤ wrap64 x ∧ wrap64 x < 2^63 := by
  unfold wrap64; omega

theorem wrap64_idem (x : Int) : wrap64 (wrap64 x) = wrap64 x := by
  unfold wrap64; omega

theorem wrap64_add (a b : Int) : wrap64 (wrap64 a + b) = wrap64 (a + b) := by
  unfold wrap64; omega

theorem wrap64_add' (a b : Int) : wrap64 (a + wrap64 b) = wrap64 (a + b) := by
  unfold wrap64; omega

end Garr
