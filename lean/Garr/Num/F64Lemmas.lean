import Garr.Num.F64
import Mathlib.Tactic.Ring
import Mathlib.Tactic.Linarith
import Mathlib.Tactic.Positivity
import Mathlib.Tactic.FieldSimp
import Mathlib.Tactic.GCongr
import Mathlib.Tactic.NormNum
import Mathlib.Algebra.Order.Field.Power
import Mathlib.Algebra.Order.Field.Rat
/-!
# Lemma library for the exact binary64 model `Garr.F64`

* `rne` (nearest-even): floor bounds, monotone, exact on multiples, scale invariant.
* `ofFin neg M E` (round the dyadic `±M·2^E`, the rounding used by `mul`, `add`, `ofInt`): closed form
  `ofFin_eq` (`pack`/`rneS`/`qOf`), scale invariance `ofFin_scale`, canonical output `ofFin_isF64`,
  exactness on representable values `ofFin_canon`/`ofFin_exact`, monotonicity `ofFin_mono`, one-ulp lower
  bound `ofFin_lower`, sign symmetry `ofFin_neg`.
* semantic value `val : F64 → ℚ`; `le`/`lt` are the order of `val` on finite values (`le_fin_iff`,
  `lt_fin_iff`).
* `sat` (= `toInt64` guarded by `lt · two63`, the tail of `saturatedMultiply`): `sat_range`, `sat_mono`.
* `mul_mono_right`, `add_one_mono`; `ofInt_pos_spec`, `ofInt_exact_small`; the float core of the C05
  clauses `satmul_mono`, `satmul_nonneg`, `satmul_ge`, `satmul_ge_small`.
* closure under `IsF64`: `mul_isF64`, `add_isF64`, `ofInt_isF64`, `div_isF64`.
* general `roundQ` (arbitrary denominators): `ilog2q_spec`, `roundQ_isF64`, `roundQ_mono`, `roundQ_exact`.

(Proof file: imports single Mathlib tactic modules; the model files stay core-only.)
-/
namespace Garr.F64

/-! ## `rne` -/

theorem rne_ge_floor (N D : Nat) : N / D ≤ rne N D := by
  unfold rne; simp only; split <;> omega

theorem rne_le_floor_succ (N D : Nat) : rne N D ≤ N / D + 1 := by
  unfold rne; simp only; split <;> omega

theorem rne_mono {N1 N2 D : Nat} (h : N1 ≤ N2) : rne N1 D ≤ rne N2 D := by
  have hdiv : N1 / D ≤ N2 / D := Nat.div_le_div_right h
  by_cases heq : N1 / D = N2 / D
  · have hr : N1 % D ≤ N2 % D := by
      have e1 := Nat.div_add_mod N1 D
      have e2 := Nat.div_add_mod N2 D
      rw [heq] at e1
      omega
    unfold rne; simp only
    rw [heq]
    split
    · rename_i h1
      split
      · omega
      · rename_i h2
        exfalso; apply h2
        rcases h1 with h1 | ⟨h1, h1'⟩
        · left; omega
        · by_cases hgt : 2 * (N2 % D) > D
          · left; exact hgt
          · right; exact ⟨by omega, h1'⟩
    · split <;> omega
  · have hlt : N1 / D < N2 / D := by omega
    calc rne N1 D ≤ N1 / D + 1 := rne_le_floor_succ N1 D
      _ ≤ N2 / D := hlt
      _ ≤ rne N2 D := rne_ge_floor N2 D

/-- exact multiples are fixed points -/
theorem rne_exact (m D : Nat) (hD : 0 < D) : rne (m * D) D = m := by
  unfold rne; simp only
  have h1 : m * D / D = m := Nat.mul_div_cancel m hD
  have h2 : m * D % D = 0 := Nat.mul_mod_left m D
  rw [h1, h2]; simp; omega

/-- scaling numerator and denominator by the same factor does not change the result -/
theorem rne_scale (N D k : Nat) (hk : 0 < k) : rne (N * k) (D * k) = rne N D := by
  unfold rne; simp only
  have h1 : N * k / (D * k) = N / D := Nat.mul_div_mul_right N D hk
  have h2 : N * k % (D * k) = (N % D) * k := Nat.mul_mod_mul_right k N D
  rw [h1, h2]
  have e1 : (2 * (N % D * k) > D * k) ↔ (2 * (N % D) > D) := by
    constructor
    · intro h
      have : D * k < (2 * (N % D)) * k := by rw [Nat.mul_assoc]; exact h
      exact Nat.lt_of_mul_lt_mul_right this
    · intro h
      have : D * k < (2 * (N % D)) * k := Nat.mul_lt_mul_of_pos_right h hk
      rw [Nat.mul_assoc] at this; exact this
  have e2 : (2 * (N % D * k) = D * k) ↔ (2 * (N % D) = D) := by
    constructor
    · intro h
      have : (2 * (N % D)) * k = D * k := by rw [Nat.mul_assoc]; exact h
      exact Nat.eq_of_mul_eq_mul_right hk this
    · intro h; rw [← Nat.mul_assoc, h]
  simp only [e1, e2]

theorem rne_one (N : Nat) : rne N 1 = N := by
  have := rne_exact N 1 (by decide); simpa using this

/-- `(m+1)·D > N`: the rounded value is above the floor -/
theorem rne_succ_mul_gt (N D : Nat) (hD : 0 < D) : N < (rne N D + 1) * D := by
  have h1 := rne_ge_floor N D
  have h2 : N < (N / D + 1) * D := by
    have := Nat.div_add_mod N D
    have := Nat.mod_lt N hD
    rw [Nat.add_mul, Nat.mul_comm]; omega
  calc N < (N / D + 1) * D := h2
    _ ≤ (rne N D + 1) * D := Nat.mul_le_mul_right D (by omega)

/-- "shift by `s` bits with nearest-even": `rne (M·2^a) (2^b)` with `b - a = s` -/
def rneS (M : Nat) (s : Int) : Nat := rne (M * 2^(-s).toNat) (2^s.toNat)

theorem rne_pow_eq (M a b : Nat) (s : Int) (h : (b : Int) - a = s) :
    rne (M * 2^a) (2^b) = rneS M s := by
  unfold rneS
  by_cases hs : 0 ≤ s
  · have hb : b = s.toNat + a := by omega
    have h0 : (-s).toNat = 0 := by omega
    rw [h0, hb, Nat.pow_add, rne_scale _ _ _ (Nat.two_pow_pos a)]
    simp
  · have ha : a = (-s).toNat + b := by omega
    have h0 : s.toNat = 0 := by omega
    rw [h0, ha, Nat.pow_add, ← Nat.mul_assoc]
    have : rne (M * 2 ^ (-s).toNat * 2 ^ b) (2^b) = rne (M * 2 ^ (-s).toNat * 2 ^ b) (1 * 2^b) := by simp
    rw [this, rne_scale _ _ _ (Nat.two_pow_pos b)]
    simp

/-! ## `Nat.log2`, `ilog2q` -/

theorem log2_mul_pow {M : Nat} (hM : M ≠ 0) (a : Nat) : (M * 2^a).log2 = M.log2 + a := by
  have hne : M * 2^a ≠ 0 := Nat.mul_ne_zero hM (Nat.ne_of_gt (Nat.two_pow_pos a))
  have h1 : 2^M.log2 ≤ M := Nat.log2_self_le hM
  have h2 : M < 2^(M.log2 + 1) := Nat.lt_log2_self
  apply Nat.le_antisymm
  · have : (M * 2^a).log2 < M.log2 + a + 1 := by
      rw [Nat.log2_lt hne]
      have : 2^(M.log2 + a + 1) = 2^(M.log2+1) * 2^a := by
        rw [← Nat.pow_add]; congr 1; omega
      rw [this]
      exact Nat.mul_lt_mul_of_pos_right h2 (Nat.two_pow_pos a)
    omega
  · rw [Nat.le_log2 hne, Nat.pow_add]
    exact Nat.mul_le_mul_right _ h1

theorem log2_mono {M1 M2 : Nat} (h1 : M1 ≠ 0) (h : M1 ≤ M2) : M1.log2 ≤ M2.log2 := by
  have h2 : M2 ≠ 0 := by omega
  rw [Nat.le_log2 h2]
  exact Nat.le_trans (Nat.log2_self_le h1) h

theorem ilog2q_one {n : Nat} (hn : n ≠ 0) : ilog2q n 1 = n.log2 := by
  unfold ilog2q
  have h1 : Nat.log2 1 = 0 := by decide
  simp only [h1]
  have h2 : 2^n.log2 ≤ n := Nat.log2_self_le hn
  simp [h2]

theorem ilog2q_pow {M : Nat} (hM : M ≠ 0) (k : Nat) : ilog2q M (2^k) = (M.log2 : Int) - k := by
  unfold ilog2q
  simp only [Nat.log2_two_pow]
  have h2 : 2^M.log2 ≤ M := Nat.log2_self_le hM
  have hge : (if (M.log2 : Int) - k ≥ 0 then decide (M ≥ 2^k * 2^((M.log2 : Int) - k).toNat)
      else decide (M * 2^(-((M.log2 : Int) - k)).toNat ≥ 2^k)) = true := by
    split
    · rename_i h
      have : k + ((M.log2 : Int) - k).toNat = M.log2 := by omega
      rw [← Nat.pow_add, this]; simpa using h2
    · rename_i h
      have : k = M.log2 + (-((M.log2 : Int) - k)).toNat := by omega
      have h3 : 2^k = 2^M.log2 * 2^(-((M.log2 : Int) - k)).toNat := by
        rw [← Nat.pow_add, ← this]
      simp only [decide_eq_true_eq, ge_iff_le]
      rw [h3]; exact Nat.mul_le_mul_right _ h2
  simp only [hge, if_true]

/-! ## closed form of `roundQ` / `ofFin` -/

/-- renormalise a carry out of the significand, overflow to infinity -/
def pm (m1 : Nat) : Nat := if m1 = 2^53 then 2^52 else m1
def pq (m1 : Nat) (q : Int) : Int := if m1 = 2^53 then q + 1 else q
def pack (neg : Bool) (m1 : Nat) (q : Int) : F64 :=
  if 2^52 ≤ pm m1 ∧ pq m1 q > 971 then .inf neg else .fin neg (pm m1) (pq m1 q)

theorem pm_pq (m1 : Nat) (q : Int) :
    (m1 = 2^53 ∧ pm m1 = 2^52 ∧ pq m1 q = q + 1) ∨ (m1 ≠ 2^53 ∧ pm m1 = m1 ∧ pq m1 q = q) := by
  unfold pm pq; split <;> simp_all

/-- quantum exponent chosen for a value with `floor(log2) = e` -/
def qOfE (e : Int) : Int := if e - 52 < -1074 then -1074 else e - 52

/-- quantum exponent of `M·2^E` -/
def qOf (M : Nat) (E : Int) : Int := qOfE ((M.log2 : Int) + E)

theorem roundQ_eq (neg : Bool) {num : Nat} (den : Nat) (h : num ≠ 0) :
    roundQ neg num den =
      pack neg (rne (if qOfE (ilog2q num den) ≥ 0 then num else num * 2^(-(qOfE (ilog2q num den))).toNat)
                    (if qOfE (ilog2q num den) ≥ 0 then den * 2^(qOfE (ilog2q num den)).toNat else den))
        (qOfE (ilog2q num den)) := by
  unfold roundQ pack pm pq qOfE
  simp only [if_neg h]

theorem ofFin_zero (neg : Bool) (E : Int) : ofFin neg 0 E = zero neg := by
  unfold ofFin roundQ; simp

/-- closed form: `ofFin` shifts the significand to the quantum `qOf M E` with nearest-even -/
theorem ofFin_eq (neg : Bool) {M : Nat} (E : Int) (hM : M ≠ 0) :
    ofFin neg M E = pack neg (rneS M (qOf M E - E)) (qOf M E) := by
  unfold ofFin
  by_cases hE : E ≥ 0
  · simp only [if_pos hE]
    have hne : M * 2^E.toNat ≠ 0 := Nat.mul_ne_zero hM (Nat.ne_of_gt (Nat.two_pow_pos _))
    rw [roundQ_eq neg 1 hne, ilog2q_one hne, log2_mul_pow hM]
    have hq : qOfE (((M.log2 + E.toNat : Nat) : Int)) = qOf M E := by
      unfold qOf; congr 1; omega
    rw [hq]
    congr 1
    by_cases hq0 : qOf M E ≥ 0
    · simp only [if_pos hq0, Nat.one_mul]
      exact rne_pow_eq M _ _ _ (by omega)
    · simp only [if_neg hq0]
      rw [Nat.mul_assoc, ← Nat.pow_add]
      have : (1 : Nat) = 2^0 := rfl
      rw [this]
      exact rne_pow_eq M _ _ _ (by omega)
  · simp only [if_neg hE]
    rw [roundQ_eq neg _ hM, ilog2q_pow hM]
    have hq : qOfE ((M.log2 : Int) - ((-E).toNat : Nat)) = qOf M E := by
      unfold qOf; congr 1; omega
    rw [hq]
    congr 1
    by_cases hq0 : qOf M E ≥ 0
    · simp only [if_pos hq0]
      rw [← Nat.pow_add]
      have := rne_pow_eq M 0 ((-E).toNat + (qOf M E).toNat) (qOf M E - E) (by omega)
      simpa using this
    · simp only [if_neg hq0]
      exact rne_pow_eq M _ _ _ (by omega)

/-! ## scale invariance -/

theorem rneS_scale (M k : Nat) (s : Int) : rneS (M * 2^k) (s + k) = rneS M s := by
  have h := rne_pow_eq M (k + (-(s + k)).toNat) ((s + k).toNat) s (by omega)
  rw [← h]
  unfold rneS
  rw [Nat.pow_add, Nat.mul_assoc]

theorem qOf_scale {M : Nat} (hM : M ≠ 0) (k : Nat) (E : Int) : qOf (M * 2^k) (E - k) = qOf M E := by
  unfold qOf
  rw [log2_mul_pow hM]
  congr 1; omega

/-- `M·2^k · 2^(E-k)` rounds like `M·2^E` -/
theorem ofFin_scale (neg : Bool) (M k : Nat) (E : Int) : ofFin neg (M * 2^k) (E - k) = ofFin neg M E := by
  by_cases hM : M = 0
  · subst hM; simp [ofFin_zero]
  · have hne : M * 2^k ≠ 0 := Nat.mul_ne_zero hM (Nat.ne_of_gt (Nat.two_pow_pos k))
    rw [ofFin_eq neg _ hne, ofFin_eq neg _ hM, qOf_scale hM]
    have : qOf M E - (E - k) = (qOf M E - E) + k := by omega
    rw [this, rneS_scale]

/-! ## bounds on the shifted significand -/

theorem rneS_mono {M1 M2 : Nat} (s : Int) (h : M1 ≤ M2) : rneS M1 s ≤ rneS M2 s := by
  unfold rneS
  exact rne_mono (Nat.mul_le_mul_right _ h)

theorem rneS_le {M : Nat} (s : Int) (hs : (M.log2 : Int) - 52 ≤ s) : rneS M s ≤ 2^53 := by
  unfold rneS
  have h2 : M < 2^(M.log2 + 1) := Nat.lt_log2_self
  have h3 : M * 2^(-s).toNat ≤ 2^53 * 2^s.toNat := by
    have : M * 2^(-s).toNat ≤ 2^(M.log2 + 1) * 2^(-s).toNat := Nat.mul_le_mul_right _ (Nat.le_of_lt h2)
    refine Nat.le_trans this ?_
    rw [← Nat.pow_add, ← Nat.pow_add]
    exact Nat.pow_le_pow_right (by decide) (by omega)
  have := rne_mono (D := 2^s.toNat) h3
  rwa [rne_exact _ _ (Nat.two_pow_pos _)] at this

theorem rneS_ge {M : Nat} (hM : M ≠ 0) (s : Int) (hs : s ≤ (M.log2 : Int) - 52) : 2^52 ≤ rneS M s := by
  unfold rneS
  have h2 : 2^M.log2 ≤ M := Nat.log2_self_le hM
  have h3 : 2^52 * 2^s.toNat ≤ M * 2^(-s).toNat := by
    have : 2^M.log2 * 2^(-s).toNat ≤ M * 2^(-s).toNat := Nat.mul_le_mul_right _ h2
    refine Nat.le_trans ?_ this
    rw [← Nat.pow_add, ← Nat.pow_add]
    exact Nat.pow_le_pow_right (by decide) (by omega)
  have := rne_mono (D := 2^s.toNat) h3
  rwa [rne_exact _ _ (Nat.two_pow_pos _)] at this

theorem qOfE_ge (e : Int) : -1074 ≤ qOfE e ∧ e - 52 ≤ qOfE e := by
  unfold qOfE; split <;> omega

theorem qOfE_mono {e1 e2 : Int} (h : e1 ≤ e2) : qOfE e1 ≤ qOfE e2 := by
  unfold qOfE; split <;> split <;> omega

theorem qOfE_gt {e : Int} (h : -1074 < qOfE e) : qOfE e = e - 52 := by
  unfold qOfE at h ⊢; split <;> simp_all

/-- the three structural facts about the pre-normalisation significand -/
theorem rneS_qOf {M : Nat} (hM : M ≠ 0) (E : Int) :
    rneS M (qOf M E - E) ≤ 2^53 ∧ (-1074 < qOf M E → 2^52 ≤ rneS M (qOf M E - E)) ∧ -1074 ≤ qOf M E := by
  have hq := qOfE_ge ((M.log2 : Int) + E)
  refine ⟨rneS_le _ (by unfold qOf; omega), ?_, by unfold qOf; exact hq.1⟩
  intro h
  have := qOfE_gt (e := (M.log2 : Int) + E) h
  exact rneS_ge hM _ (by unfold qOf; omega)

/-! ## canonical outputs -/

theorem pack_isF64 (neg : Bool) {m1 : Nat} {q : Int} (h1 : m1 ≤ 2^53) (h2 : -1074 < q → 2^52 ≤ m1)
    (h3 : -1074 ≤ q) : IsF64 (pack neg m1 q) := by
  unfold pack
  have hp := pm_pq m1 q
  split
  · trivial
  · rename_i h
    unfold IsF64 Canon
    omega

theorem ofFin_isF64 (neg : Bool) (M : Nat) (E : Int) : IsF64 (ofFin neg M E) := by
  by_cases hM : M = 0
  · subst hM; rw [ofFin_zero]; show Canon 0 (-1074); decide
  · rw [ofFin_eq neg E hM]
    obtain ⟨h1, h2, h3⟩ := rneS_qOf hM E
    exact pack_isF64 neg h1 h2 h3

/-- the result keeps the sign flag and is never NaN -/
theorem pack_sign (neg : Bool) (m1 : Nat) (q : Int) :
    pack neg m1 q = .inf neg ∨ ∃ m q', pack neg m1 q = .fin neg m q' := by
  unfold pack; split
  · left; rfl
  · right; exact ⟨_, _, rfl⟩

theorem ofFin_sign (neg : Bool) (M : Nat) (E : Int) :
    ofFin neg M E = .inf neg ∨ ∃ m q, ofFin neg M E = .fin neg m q := by
  by_cases hM : M = 0
  · subst hM; rw [ofFin_zero]; right; exact ⟨_, _, rfl⟩
  · rw [ofFin_eq neg E hM]; exact pack_sign _ _ _

theorem pack_neg (neg : Bool) (m1 : Nat) (q : Int) : pack (!neg) m1 q = F64.neg (pack neg m1 q) := by
  unfold pack; split <;> rfl

theorem ofFin_neg (neg : Bool) (M : Nat) (E : Int) : ofFin (!neg) M E = F64.neg (ofFin neg M E) := by
  by_cases hM : M = 0
  · subst hM; simp [ofFin_zero, zero, F64.neg]
  · rw [ofFin_eq _ E hM, ofFin_eq _ E hM, pack_neg]

/-! ## exactness on canonical values -/

theorem log2_of_normal {m : Nat} (h1 : 2^52 ≤ m) (h2 : m < 2^53) : m.log2 = 52 := by
  have hne : m ≠ 0 := by omega
  apply Nat.le_antisymm
  · have : m.log2 < 53 := (Nat.log2_lt hne).2 h2
    omega
  · exact (Nat.le_log2 hne).2 h1

theorem rneS_zero (M : Nat) : rneS M 0 = M := by
  unfold rneS; simp [rne_one]

theorem ofFin_canon (neg : Bool) {m : Nat} {e : Int} (h : Canon m e) : ofFin neg m e = .fin neg m e := by
  obtain ⟨h1, h2, h3, h4⟩ := h
  by_cases hm : m = 0
  · subst hm
    rw [ofFin_zero]
    have : e = -1074 := by omega
    subst this; rfl
  · rw [ofFin_eq neg e hm]
    have hq : qOf m e = e := by
      unfold qOf qOfE
      by_cases hn : 2^52 ≤ m
      · rw [log2_of_normal hn h1]; split <;> omega
      · have : m.log2 < 52 := (Nat.log2_lt hm).2 (by omega)
        have he : e = -1074 := by omega
        split <;> omega
    rw [hq]
    have : e - e = 0 := by omega
    rw [this, rneS_zero]
    unfold pack
    have hp := pm_pq m e
    have hne : m ≠ 2^53 := by omega
    have h5 : pm m = m := by omega
    have h6 : pq m e = e := by omega
    rw [h5, h6]
    have : ¬ (2^52 ≤ m ∧ e > 971) := by omega
    simp only [if_neg this]

/-! ## semantic value; `le`/`lt` on finite values -/

/-- the rational value of a finite float (0 for NaN/∞) -/
def val : F64 → ℚ
  | .fin neg m e => (if neg then -1 else 1) * (m : ℚ) * (2:ℚ)^e
  | _ => 0

theorem two_zpow_pos (e : ℤ) : (0:ℚ) < (2:ℚ)^e := by positivity

theorem cast_scale (M : ℕ) {E c : ℤ} (h : c ≤ E) :
    ((M * 2^(E - c).toNat : ℕ) : ℚ) = (M : ℚ) * (2:ℚ)^E * ((2:ℚ)^c)⁻¹ := by
  push_cast
  rw [← zpow_natCast, Int.toNat_of_nonneg (by omega), zpow_sub₀ (by norm_num : (2:ℚ) ≠ 0)]
  ring

theorem scaled_cast (neg : Bool) (m : ℕ) {em e : ℤ} (h : e ≤ em) :
    ((scaled neg m em e : ℤ) : ℚ) = val (.fin neg m em) * ((2:ℚ)^e)⁻¹ := by
  unfold scaled val
  rw [Int.cast_mul, Int.cast_natCast, cast_scale m h]
  cases neg <;> simp

theorem le_fin_iff (n1 : Bool) (m1 : ℕ) (e1 : ℤ) (n2 : Bool) (m2 : ℕ) (e2 : ℤ) :
    le (.fin n1 m1 e1) (.fin n2 m2 e2) = true ↔ val (.fin n1 m1 e1) ≤ val (.fin n2 m2 e2) := by
  simp only [le, decide_eq_true_eq]
  have he1 : (if e1 ≤ e2 then e1 else e2) ≤ e1 := by split <;> omega
  have he2 : (if e1 ≤ e2 then e1 else e2) ≤ e2 := by split <;> omega
  rw [← Int.cast_le (R := ℚ), scaled_cast _ _ he1, scaled_cast _ _ he2]
  have hpos : (0:ℚ) < ((2:ℚ)^(if e1 ≤ e2 then e1 else e2))⁻¹ := by positivity
  constructor
  · intro h; exact le_of_mul_le_mul_right h hpos
  · intro h; exact mul_le_mul_of_nonneg_right h (le_of_lt hpos)

theorem lt_fin_iff (n1 : Bool) (m1 : ℕ) (e1 : ℤ) (n2 : Bool) (m2 : ℕ) (e2 : ℤ) :
    lt (.fin n1 m1 e1) (.fin n2 m2 e2) = true ↔ val (.fin n1 m1 e1) < val (.fin n2 m2 e2) := by
  simp only [lt, decide_eq_true_eq]
  have he1 : (if e1 ≤ e2 then e1 else e2) ≤ e1 := by split <;> omega
  have he2 : (if e1 ≤ e2 then e1 else e2) ≤ e2 := by split <;> omega
  rw [← Int.cast_lt (R := ℚ), scaled_cast _ _ he1, scaled_cast _ _ he2]
  have hpos : (0:ℚ) < ((2:ℚ)^(if e1 ≤ e2 then e1 else e2))⁻¹ := by positivity
  constructor
  · intro h; exact lt_of_mul_lt_mul_right h (le_of_lt hpos)
  · intro h; exact mul_lt_mul_of_pos_right h hpos

/-- comparison of dyadics in `ℚ` is comparison of the scaled significands -/
theorem dy_le_iff (M1 M2 : ℕ) {E1 E2 c : ℤ} (h1 : c ≤ E1) (h2 : c ≤ E2) :
    (M1 : ℚ) * (2:ℚ)^E1 ≤ (M2 : ℚ) * (2:ℚ)^E2 ↔ M1 * 2^(E1 - c).toNat ≤ M2 * 2^(E2 - c).toNat := by
  rw [← Nat.cast_le (α := ℚ), cast_scale M1 h1, cast_scale M2 h2]
  have hpos : (0:ℚ) < ((2:ℚ)^c)⁻¹ := by positivity
  constructor
  · intro h; exact mul_le_mul_of_nonneg_right h (le_of_lt hpos)
  · intro h; exact le_of_mul_le_mul_right h hpos

theorem dy_eq_iff (M1 M2 : ℕ) {E1 E2 c : ℤ} (h1 : c ≤ E1) (h2 : c ≤ E2) :
    (M1 : ℚ) * (2:ℚ)^E1 = (M2 : ℚ) * (2:ℚ)^E2 ↔ M1 * 2^(E1 - c).toNat = M2 * 2^(E2 - c).toNat := by
  constructor
  · intro h
    exact Nat.le_antisymm ((dy_le_iff M1 M2 h1 h2).1 (le_of_eq h)) ((dy_le_iff M2 M1 h2 h1).1 (le_of_eq h.symm))
  · intro h
    exact le_antisymm ((dy_le_iff M1 M2 h1 h2).2 (le_of_eq h)) ((dy_le_iff M2 M1 h2 h1).2 (le_of_eq h.symm))

/-! ## monotonicity of rounding -/

theorem le_fin_of {m1 m2 : ℕ} {q1 q2 : ℤ} (h : (q1 = q2 ∧ m1 ≤ m2) ∨ (q1 < q2 ∧ m1 ≤ 2 * m2)) :
    le (.fin false m1 q1) (.fin false m2 q2) = true := by
  rw [le_fin_iff]; unfold val
  simp only [Bool.false_eq_true, if_false, one_mul]
  rcases h with ⟨rfl, h⟩ | ⟨hq, h⟩
  · have : (m1 : ℚ) ≤ m2 := by exact_mod_cast h
    gcongr
  · have h2 : (2:ℚ)^(q1+1) ≤ (2:ℚ)^q2 := zpow_le_zpow_right₀ (by norm_num) (by omega)
    have h3 : (m1 : ℚ) ≤ 2 * m2 := by exact_mod_cast h
    have hp := two_zpow_pos q1
    calc (m1 : ℚ) * 2^q1 ≤ (2 * m2) * 2^q1 := by gcongr
      _ = m2 * (2:ℚ)^(q1+1) := by rw [zpow_add₀ (by norm_num : (2:ℚ) ≠ 0)]; ring
      _ ≤ m2 * (2:ℚ)^q2 := by gcongr

theorem pack_le {m1 m2 : ℕ} {q1 q2 : ℤ} (h1 : m1 ≤ 2^53) (h2 : m2 ≤ 2^53) (hq : q1 ≤ q2)
    (hn : -1074 < q2 → 2^52 ≤ m2) (he : q1 = q2 → m1 ≤ m2) (hq1 : -1074 ≤ q1) :
    le (pack false m1 q1) (pack false m2 q2) = true := by
  unfold pack
  have hp1 := pm_pq m1 q1
  have hp2 := pm_pq m2 q2
  split <;> split
  · rfl
  · exfalso; omega
  · rfl
  · apply le_fin_of; omega

theorem zero_le_ofFin (M : ℕ) (E : ℤ) : le (zero false) (ofFin false M E) = true := by
  rcases ofFin_sign false M E with h | ⟨m, q, h⟩ <;> rw [h]
  · rfl
  · rw [zero, le_fin_iff]; unfold val; simp; positivity

/-- monotone at a common exponent -/
theorem ofFin_mono_nat {M1 M2 : ℕ} (E : ℤ) (h : M1 ≤ M2) :
    le (ofFin false M1 E) (ofFin false M2 E) = true := by
  by_cases h1 : M1 = 0
  · subst h1; rw [ofFin_zero]; exact zero_le_ofFin M2 E
  · have h2 : M2 ≠ 0 := by omega
    rw [ofFin_eq false E h1, ofFin_eq false E h2]
    obtain ⟨a1, _, a3⟩ := rneS_qOf h1 E
    obtain ⟨b1, b2, _⟩ := rneS_qOf h2 E
    have hq : qOf M1 E ≤ qOf M2 E := by
      unfold qOf; exact qOfE_mono (by have := log2_mono h1 h; omega)
    refine pack_le a1 b1 hq b2 ?_ a3
    intro heq; rw [heq]; exact rneS_mono _ h

theorem ofFin_rescale (neg : Bool) (M : ℕ) {E c : ℤ} (h : c ≤ E) :
    ofFin neg M E = ofFin neg (M * 2^(E - c).toNat) c := by
  have := ofFin_scale neg M (E - c).toNat E
  rw [← this]; congr 1; omega

/-- **rounding is monotone**: `M1·2^E1 ≤ M2·2^E2` implies `fl(M1·2^E1) ≤ fl(M2·2^E2)` (in the float order,
`+∞` on overflow) -/
theorem ofFin_mono {M1 M2 : ℕ} {E1 E2 : ℤ} (h : (M1 : ℚ) * (2:ℚ)^E1 ≤ (M2 : ℚ) * (2:ℚ)^E2) :
    le (ofFin false M1 E1) (ofFin false M2 E2) = true := by
  have h1 : min E1 E2 ≤ E1 := min_le_left _ _
  have h2 : min E1 E2 ≤ E2 := min_le_right _ _
  rw [ofFin_rescale false M1 h1, ofFin_rescale false M2 h2]
  exact ofFin_mono_nat _ ((dy_le_iff M1 M2 h1 h2).1 h)

/-- **rounding a representable value is the identity** -/
theorem ofFin_exact (neg : Bool) {M m : ℕ} {E e : ℤ} (hc : Canon m e)
    (h : (M : ℚ) * (2:ℚ)^E = (m : ℚ) * (2:ℚ)^e) : ofFin neg M E = .fin neg m e := by
  have h1 : min E e ≤ E := min_le_left _ _
  have h2 : min E e ≤ e := min_le_right _ _
  rw [ofFin_rescale neg M h1, (dy_eq_iff M m h1 h2).1 h, ← ofFin_rescale neg m h2]
  exact ofFin_canon neg hc

/-! ## one-sided error bound: the result is less than one quantum below the exact value -/

theorem rneS_upper (M : ℕ) (s : ℤ) : (M : ℚ) < ((rneS M s : ℕ) + 1 : ℚ) * (2:ℚ)^s := by
  have h := rne_succ_mul_gt (M * 2^(-s).toNat) (2^s.toNat) (Nat.two_pow_pos _)
  have h' : ((M * 2^(-s).toNat : ℕ) : ℚ) < (((rneS M s + 1) * 2^s.toNat : ℕ) : ℚ) := by
    unfold rneS; exact_mod_cast h
  push_cast at h'
  by_cases hs : 0 ≤ s
  · have h0 : (-s).toNat = 0 := by omega
    rw [h0] at h'
    rw [← zpow_natCast (2:ℚ) s.toNat, Int.toNat_of_nonneg hs] at h'
    simpa using h'
  · have h0 : s.toNat = 0 := by omega
    rw [h0] at h'
    rw [← zpow_natCast (2:ℚ) (-s).toNat, Int.toNat_of_nonneg (by omega), zpow_neg] at h'
    have hp := two_zpow_pos s
    simp only [pow_zero, mul_one] at h'
    have := mul_lt_mul_of_pos_right h' hp
    rwa [mul_assoc, inv_mul_cancel₀ (ne_of_gt hp), mul_one] at this

theorem ofFin_lower {M : ℕ} (E : ℤ) (hM : M ≠ 0) :
    ofFin false M E = .inf false ∨
      ∃ m q, ofFin false M E = .fin false m q ∧ (M : ℚ) * (2:ℚ)^E < ((m : ℚ) + 1) * (2:ℚ)^q := by
  rw [ofFin_eq false E hM]
  have hu := rneS_upper M (qOf M E - E)
  generalize rneS M (qOf M E - E) = m1 at hu
  generalize qOf M E = q at hu
  have hE := two_zpow_pos E
  have hq := two_zpow_pos q
  have h1 : (M : ℚ) * (2:ℚ)^E < ((m1 : ℚ) + 1) * (2:ℚ)^q := by
    have := mul_lt_mul_of_pos_right hu hE
    rwa [mul_assoc, ← zpow_add₀ (by norm_num : (2:ℚ) ≠ 0), sub_add_cancel] at this
  unfold pack
  split
  · left; rfl
  · right
    refine ⟨_, _, rfl, lt_of_lt_of_le h1 ?_⟩
    rcases pm_pq m1 q with ⟨a, b, c⟩ | ⟨a, b, c⟩
    · rw [b, c, a, zpow_add₀ (by norm_num : (2:ℚ) ≠ 0)]
      push_cast
      nlinarith
    · rw [b, c]

/-! ## truncation to `int64` behind the `< 2^63` guard (`saturatedMultiply`'s tail) -/

/-- `if tmp < MaxInt64 then int64(tmp) else MaxInt64` -/
def sat (x : F64) : Int := if lt x two63 then toInt64 x else 2^63 - 1

/-- `floor (m·2^e)` -/
def mag (m : ℕ) (e : ℤ) : ℕ := if e ≥ 0 then m * 2^e.toNat else m / 2^(-e).toNat

theorem mag_bounds (m : ℕ) (e : ℤ) :
    (mag m e : ℚ) ≤ (m : ℚ) * (2:ℚ)^e ∧ (m : ℚ) * (2:ℚ)^e < (mag m e : ℚ) + 1 := by
  unfold mag
  by_cases he : e ≥ 0
  · simp only [if_pos he]
    have : ((m * 2^e.toNat : ℕ) : ℚ) = (m : ℚ) * (2:ℚ)^e := by
      push_cast; rw [← zpow_natCast (2:ℚ) e.toNat, Int.toNat_of_nonneg he]
    rw [this]; constructor <;> linarith
  · simp only [if_neg he]
    have hd : (0:ℚ) < ((2^(-e).toNat : ℕ) : ℚ) := by positivity
    have hv : (m : ℚ) * (2:ℚ)^e = (m : ℚ) / ((2^(-e).toNat : ℕ) : ℚ) := by
      have : (2:ℚ)^e = (((2^(-e).toNat : ℕ) : ℚ))⁻¹ := by
        push_cast
        rw [← zpow_natCast (2:ℚ) (-e).toNat, Int.toNat_of_nonneg (by omega), zpow_neg, inv_inv]
      rw [this]; rfl
    rw [hv]
    have hdn : 0 < 2^(-e).toNat := Nat.two_pow_pos _
    constructor
    · rw [le_div_iff₀ hd]
      have := Nat.div_mul_le_self m (2^(-e).toNat)
      exact_mod_cast this
    · rw [div_lt_iff₀ hd]
      have : m < (m / 2^(-e).toNat + 1) * 2^(-e).toNat := by
        have h1 := Nat.div_add_mod m (2^(-e).toNat)
        have h2 := Nat.mod_lt m hdn
        rw [Nat.add_mul, Nat.mul_comm]; omega
      exact_mod_cast this

theorem mag_mono {m1 m2 : ℕ} {e1 e2 : ℤ} (h : (m1 : ℚ) * (2:ℚ)^e1 ≤ (m2 : ℚ) * (2:ℚ)^e2) :
    mag m1 e1 ≤ mag m2 e2 := by
  have a := mag_bounds m1 e1
  have b := mag_bounds m2 e2
  have : (mag m1 e1 : ℚ) < (mag m2 e2 : ℚ) + 1 := by linarith
  have : mag m1 e1 < mag m2 e2 + 1 := by exact_mod_cast this
  omega

theorem le_mag {n m : ℕ} {e : ℤ} (h : (n : ℚ) ≤ (m : ℚ) * (2:ℚ)^e) : n ≤ mag m e := by
  have b := mag_bounds m e
  have : (n : ℚ) < (mag m e : ℚ) + 1 := by linarith
  have : n < mag m e + 1 := by exact_mod_cast this
  omega

theorem val_two63 : val two63 = 2^63 := by
  unfold two63 val; norm_num

theorem toInt64_fin (neg : Bool) (m : ℕ) (e : ℤ) :
    toInt64 (.fin neg m e) =
      if (if neg then -(mag m e : ℤ) else (mag m e : ℤ)) ≥ 2^63 ∨ (if neg then -(mag m e : ℤ) else (mag m e : ℤ)) < -(2^63)
      then -(2^63) else (if neg then -(mag m e : ℤ) else (mag m e : ℤ)) := rfl

theorem toInt64_range (x : F64) : -(2^63) ≤ toInt64 x ∧ toInt64 x ≤ 2^63 - 1 := by
  cases x with
  | nan => simp [toInt64]
  | inf n => simp [toInt64]
  | fin neg m e => rw [toInt64_fin]; split <;> omega

theorem sat_range (x : F64) : -(2^63) ≤ sat x ∧ sat x ≤ 2^63 - 1 := by
  unfold sat; split
  · exact toInt64_range x
  · omega

theorem sat_fin_pos (m : ℕ) (e : ℤ) : sat (.fin false m e) = min (mag m e : ℤ) (2^63 - 1) := by
  have b := mag_bounds m e
  unfold sat
  by_cases h : lt (.fin false m e) two63 = true
  · rw [if_pos h, toInt64_fin]
    rw [two63, lt_fin_iff, ← two63, val_two63] at h
    unfold val at h
    simp only [Bool.false_eq_true, if_false, one_mul] at h
    have : (mag m e : ℚ) < 2^63 := by linarith
    have : mag m e < 2^63 := by exact_mod_cast this
    simp only [Bool.false_eq_true, if_false]
    split <;> omega
  · rw [if_neg h]
    rw [two63, lt_fin_iff, ← two63, val_two63] at h
    unfold val at h
    simp only [Bool.false_eq_true, if_false, one_mul, not_lt] at h
    have : (2:ℚ)^63 < (mag m e : ℚ) + 1 := by linarith
    have : 2^63 < mag m e + 1 := by exact_mod_cast this
    omega

theorem sat_fin_neg (m : ℕ) (e : ℤ) : sat (.fin true m e) = max (-(mag m e : ℤ)) (-(2^63)) := by
  unfold sat
  have h : lt (.fin true m e) two63 = true := by
    rw [two63, lt_fin_iff, ← two63, val_two63]
    unfold val
    have := two_zpow_pos e
    have hm : (0:ℚ) ≤ (m : ℚ) := Nat.cast_nonneg m
    simp only [if_true]
    have : (0:ℚ) ≤ (m : ℚ) * (2:ℚ)^e := by positivity
    nlinarith
  rw [if_pos h, toInt64_fin]
  simp only [if_true]
  split <;> omega

theorem sat_inf_true : sat (.inf true) = -(2^63) := by simp [sat, lt, two63, toInt64]
theorem sat_inf_false : sat (.inf false) = 2^63 - 1 := by simp [sat, lt, two63]
theorem sat_nan : sat .nan = 2^63 - 1 := by simp [sat, lt]

/-- **the guarded truncation is monotone** with respect to the float order -/
theorem sat_mono {a b : F64} (h : le a b = true) : sat a ≤ sat b := by
  have ra := sat_range a
  have rb := sat_range b
  cases a with
  | nan => simp [le] at h
  | inf n1 =>
    cases b with
    | nan => simp [le] at h
    | inf n2 =>
      cases n1 <;> cases n2 <;> simp [le] at h <;> simp [sat_inf_true, sat_inf_false]
    | fin n2 m2 e2 =>
      have : n1 = true := by simpa [le] using h
      subst this
      have := sat_inf_true
      omega
  | fin n1 m1 e1 =>
    cases b with
    | nan => simp [le] at h
    | inf n2 =>
      have : n2 = false := by simpa [le] using h
      subst this
      have := sat_inf_false
      omega
    | fin n2 m2 e2 =>
      rw [le_fin_iff] at h
      unfold val at h
      have p1 := two_zpow_pos e1
      have p2 := two_zpow_pos e2
      have c1 : (0:ℚ) ≤ (m1 : ℚ) * (2:ℚ)^e1 := by positivity
      have c2 : (0:ℚ) ≤ (m2 : ℚ) * (2:ℚ)^e2 := by positivity
      cases n1 <;> cases n2 <;> simp only [Bool.false_eq_true, if_false, if_true, one_mul] at h
      · rw [sat_fin_pos, sat_fin_pos]
        have := mag_mono h
        omega
      · rw [sat_fin_pos, sat_fin_neg]
        have h1 : (m1 : ℚ) * (2:ℚ)^e1 ≤ ((0:ℕ):ℚ) * (2:ℚ)^(0:ℤ) := by simp; nlinarith
        have h2 : (m2 : ℚ) * (2:ℚ)^e2 ≤ ((0:ℕ):ℚ) * (2:ℚ)^(0:ℤ) := by simp; nlinarith
        have := mag_mono h1
        have := mag_mono h2
        have : mag 0 0 = 0 := by decide
        omega
      · rw [sat_fin_neg, sat_fin_pos]; omega
      · rw [sat_fin_neg, sat_fin_neg]
        have h' : (m2 : ℚ) * (2:ℚ)^e2 ≤ (m1 : ℚ) * (2:ℚ)^e1 := by nlinarith
        have := mag_mono h'
        omega

/-- a finite non-negative value that is at least the integer `n ≤ MaxInt64` converts to at least `n` -/
theorem le_sat {n m : ℕ} {e : ℤ} (hn : (n : ℤ) ≤ 2^63 - 1) (h : (n : ℚ) ≤ (m : ℚ) * (2:ℚ)^e) :
    (n : ℤ) ≤ sat (.fin false m e) := by
  rw [sat_fin_pos]
  have := le_mag h
  omega

/-! ## order facts across signs -/

theorem val_neg (x : F64) : val (F64.neg x) = - val x := by
  cases x with
  | nan => simp [F64.neg, val]
  | inf n => simp [F64.neg, val]
  | fin n m e => cases n <;> simp [F64.neg, val]

theorem le_neg_neg (a b : F64) : le (F64.neg a) (F64.neg b) = le b a := by
  cases a with
  | nan => cases b <;> simp [F64.neg, le]
  | inf n1 =>
    cases b with
    | nan => simp [F64.neg, le]
    | inf n2 => cases n1 <;> cases n2 <;> simp [F64.neg, le]
    | fin n2 m2 e2 => simp [F64.neg, le]
  | fin n1 m1 e1 =>
    cases b with
    | nan => simp [F64.neg, le]
    | inf n2 => simp [F64.neg, le]
    | fin n2 m2 e2 =>
      rw [Bool.eq_iff_iff]
      have h1 := le_fin_iff (!n1) m1 e1 (!n2) m2 e2
      have h2 := le_fin_iff n2 m2 e2 n1 m1 e1
      have v1 := val_neg (.fin n1 m1 e1)
      have v2 := val_neg (.fin n2 m2 e2)
      simp only [F64.neg] at v1 v2 ⊢
      rw [h1, h2, v1, v2]
      constructor <;> intro h <;> linarith

/-- anything with the sign flag set is `≤` anything with it clear (no NaN) -/
theorem le_of_signs {a b : F64} (ha : a = .inf true ∨ ∃ m q, a = .fin true m q)
    (hb : b = .inf false ∨ ∃ m q, b = .fin false m q) : le a b = true := by
  rcases ha with rfl | ⟨m1, q1, rfl⟩ <;> rcases hb with rfl | ⟨m2, q2, rfl⟩
  · rfl
  · rfl
  · rfl
  · rw [le_fin_iff]; unfold val
    have p1 := two_zpow_pos q1
    have p2 := two_zpow_pos q2
    have c1 : (0:ℚ) ≤ (m1 : ℚ) * (2:ℚ)^q1 := by positivity
    have c2 : (0:ℚ) ≤ (m2 : ℚ) * (2:ℚ)^q2 := by positivity
    simp only [Bool.false_eq_true, if_false, if_true, one_mul]
    nlinarith

theorem le_inf_false {a : F64} (ha : a ≠ .nan) : le a (.inf false) = true := by
  cases a with
  | nan => exact absurd rfl ha
  | inf n => simp [le]
  | fin n m e => simp [le]

theorem inf_true_le {a : F64} (ha : a ≠ .nan) : le (.inf true) a = true := by
  cases a with
  | nan => exact absurd rfl ha
  | inf n => simp [le]
  | fin n m e => simp [le]

theorem ofFin_ne_nan (neg : Bool) (M : ℕ) (E : ℤ) : ofFin neg M E ≠ .nan := by
  rcases ofFin_sign neg M E with h | ⟨m, q, h⟩ <;> rw [h] <;> simp

/-! ## `mul` by a positive finite value is monotone -/

theorem mul_fin_fin (n1 : Bool) (m1 : ℕ) (e1 : ℤ) (n2 : Bool) (m2 : ℕ) (e2 : ℤ) :
    mul (.fin n1 m1 e1) (.fin n2 m2 e2) = ofFin (n1 != n2) (m1 * m2) (e1 + e2) := rfl

theorem mul_fin_inf (n2 : Bool) (m : ℕ) (e : ℤ) (n1 : Bool) :
    mul (.fin n2 m e) (.inf n1) = if m = 0 then .nan else .inf (n1 != n2) := rfl

theorem mul_mono_right {m : ℕ} (q : ℤ) (hm : 0 < m) {p p' : F64} (h : le p p' = true) :
    le (mul (.fin false m q) p) (mul (.fin false m q) p') = true := by
  have hm0 : m ≠ 0 := by omega
  have hq := two_zpow_pos q
  have hmq : (0:ℚ) < (m : ℚ) * (2:ℚ)^q := by
    have : (0:ℚ) < (m : ℚ) := by exact_mod_cast hm
    positivity
  cases p with
  | nan => simp [le] at h
  | inf n =>
    cases p' with
    | nan => simp [le] at h
    | inf n' =>
      rw [mul_fin_inf, mul_fin_inf, if_neg hm0, if_neg hm0]
      simpa [le] using h
    | fin n2' m2' e2' =>
      have : n = true := by simpa [le] using h
      subst this
      rw [mul_fin_inf, if_neg hm0, mul_fin_fin]
      exact inf_true_le (ofFin_ne_nan _ _ _)
  | fin n2 m2 e2 =>
    cases p' with
    | nan => simp [le] at h
    | inf n' =>
      have : n' = false := by simpa [le] using h
      subst this
      rw [mul_fin_inf, if_neg hm0, mul_fin_fin]
      exact le_inf_false (ofFin_ne_nan _ _ _)
    | fin n2' m2' e2' =>
      rw [mul_fin_fin, mul_fin_fin]
      rw [le_fin_iff] at h
      unfold val at h
      have p2 := two_zpow_pos e2
      have p2' := two_zpow_pos e2'
      have c2 : (0:ℚ) ≤ (m2 : ℚ) * (2:ℚ)^e2 := by positivity
      have c2' : (0:ℚ) ≤ (m2' : ℚ) * (2:ℚ)^e2' := by positivity
      have key : ∀ (a b : ℕ) (ea eb : ℤ), (a : ℚ) * (2:ℚ)^ea ≤ (b : ℚ) * (2:ℚ)^eb →
          ((m * a : ℕ) : ℚ) * (2:ℚ)^(q + ea) ≤ ((m * b : ℕ) : ℚ) * (2:ℚ)^(q + eb) := by
        intro a b ea eb hab
        rw [zpow_add₀ (by norm_num : (2:ℚ) ≠ 0), zpow_add₀ (by norm_num : (2:ℚ) ≠ 0)]
        push_cast
        have := mul_le_mul_of_nonneg_left hab (le_of_lt hmq)
        calc (m : ℚ) * a * ((2:ℚ)^q * (2:ℚ)^ea) = (m : ℚ) * (2:ℚ)^q * ((a : ℚ) * (2:ℚ)^ea) := by ring
          _ ≤ (m : ℚ) * (2:ℚ)^q * ((b : ℚ) * (2:ℚ)^eb) := this
          _ = (m : ℚ) * b * ((2:ℚ)^q * (2:ℚ)^eb) := by ring
      cases n2 <;> cases n2' <;> simp only [Bool.false_eq_true, if_false, if_true, one_mul] at h
      · exact ofFin_mono (key _ _ _ _ h)
      · -- `+a ≤ -b`: both are zero
        have h2 : (m2 : ℚ) = 0 := by
          have : (m2 : ℚ) * (2:ℚ)^e2 ≤ 0 := by nlinarith
          have : (m2 : ℚ) ≤ 0 := by
            by_contra hc
            have : (0:ℚ) < (m2 : ℚ) * (2:ℚ)^e2 := by
              have : (0:ℚ) < (m2 : ℚ) := lt_of_not_ge hc
              positivity
            linarith
          have := Nat.cast_nonneg (α := ℚ) m2
          linarith
        have h2' : (m2' : ℚ) = 0 := by
          have : (m2' : ℚ) * (2:ℚ)^e2' ≤ 0 := by nlinarith
          have : (m2' : ℚ) ≤ 0 := by
            by_contra hc
            have : (0:ℚ) < (m2' : ℚ) * (2:ℚ)^e2' := by
              have : (0:ℚ) < (m2' : ℚ) := lt_of_not_ge hc
              positivity
            linarith
          have := Nat.cast_nonneg (α := ℚ) m2'
          linarith
        have e1 : m2 = 0 := by exact_mod_cast h2
        have e2 : m2' = 0 := by exact_mod_cast h2'
        subst e1; subst e2
        simp only [Nat.mul_zero, ofFin_zero]
        decide
      · exact le_of_signs (ofFin_sign _ _ _) (ofFin_sign _ _ _)
      · have h' : (m2' : ℚ) * (2:ℚ)^e2' ≤ (m2 : ℚ) * (2:ℚ)^e2 := by nlinarith
        have := ofFin_mono (key _ _ _ _ h')
        have e : (false != true) = !false := rfl
        rw [e, ofFin_neg, ofFin_neg, le_neg_neg]
        exact this

/-! ## `ofInt` on positive `int64` values -/

theorem ofInt_pos {i : ℤ} (h : 0 < i) : ofInt i = ofFin false i.natAbs 0 := by
  unfold ofInt ofFin
  have h1 : i ≠ 0 := by omega
  have h2 : ¬ i < 0 := by omega
  simp [h1, h2]

/-- a normal-range value rounds to a normal float whose exponent is `floor(log2) - 52` (or one more
after a carry) -/
theorem ofFin_normal (neg : Bool) {M : ℕ} (hM : M ≠ 0) (E : ℤ)
    (hlo : -1074 < (M.log2 : ℤ) + E - 52) (hhi : (M.log2 : ℤ) + E - 52 < 971) :
    ∃ m q, ofFin neg M E = .fin neg m q ∧ 2^52 ≤ m ∧ m < 2^53 ∧
      ((M.log2 : ℤ) + E - 52 ≤ q ∧ q ≤ (M.log2 : ℤ) + E - 51) := by
  rw [ofFin_eq neg E hM]
  obtain ⟨a1, a2, _⟩ := rneS_qOf hM E
  have hq : qOf M E = (M.log2 : ℤ) + E - 52 := by
    unfold qOf qOfE; split <;> omega
  have a2' := a2 (by omega)
  unfold pack
  have hp := pm_pq (rneS M (qOf M E - E)) (qOf M E)
  have : ¬ (2^52 ≤ pm (rneS M (qOf M E - E)) ∧ pq (rneS M (qOf M E - E)) (qOf M E) > 971) := by omega
  rw [if_neg this]
  exact ⟨_, _, rfl, by omega, by omega, by omega, by omega⟩

/-- `float64(i)` for `0 < i ≤ MaxInt64`: a normal float `m·2^q`, `2^52 ≤ m < 2^53`, `-52 ≤ q ≤ 11`,
less than one ulp below `i` -/
theorem ofInt_pos_spec {i : ℤ} (h0 : 0 < i) (h1 : i ≤ 2^63 - 1) :
    ∃ m q, ofInt i = .fin false m q ∧ 2^52 ≤ m ∧ m < 2^53 ∧ -52 ≤ q ∧ q ≤ 11 ∧
      (i : ℚ) < ((m : ℚ) + 1) * (2:ℚ)^q := by
  rw [ofInt_pos h0]
  have hn : i.natAbs ≠ 0 := by omega
  have hL : i.natAbs.log2 < 63 := (Nat.log2_lt hn).2 (by omega)
  obtain ⟨m, q, hx, hm1, hm2, hq1, hq2⟩ := ofFin_normal false hn 0 (by omega) (by omega)
  refine ⟨m, q, hx, hm1, hm2, by omega, by omega, ?_⟩
  rcases ofFin_lower 0 hn with h | ⟨m', q', h, hup⟩
  · rw [hx] at h; cases h
  · rw [hx] at h
    injection h with _ hm hq
    subst hm; subst hq
    have : ((i.natAbs : ℕ) : ℚ) = (i : ℚ) := by
      rw [Nat.cast_natAbs, abs_of_nonneg (le_of_lt h0)]
    rw [this] at hup
    simpa using hup

/-! ## `add` with a non-negative exact sum -/

theorem val_one : val one = 1 := by
  unfold one val; norm_num

theorem add_fin_nonneg (m1 : ℕ) (e1 : ℤ) (n2 : Bool) (m2 : ℕ) (e2 : ℤ)
    (h : 0 ≤ val (.fin false m1 e1) + val (.fin n2 m2 e2)) :
    ∃ S E, add (.fin false m1 e1) (.fin n2 m2 e2) = ofFin false S E ∧
      (S : ℚ) * (2:ℚ)^E = val (.fin false m1 e1) + val (.fin n2 m2 e2) := by
  have he1 : (if e1 ≤ e2 then e1 else e2) ≤ e1 := by split <;> omega
  have he2 : (if e1 ≤ e2 then e1 else e2) ≤ e2 := by split <;> omega
  have hadd : add (.fin false m1 e1) (.fin n2 m2 e2) =
      (if scaled false m1 e1 (if e1 ≤ e2 then e1 else e2) + scaled n2 m2 e2 (if e1 ≤ e2 then e1 else e2) = 0
        then zero (false && n2)
        else ofFin (decide (scaled false m1 e1 (if e1 ≤ e2 then e1 else e2) + scaled n2 m2 e2 (if e1 ≤ e2 then e1 else e2) < 0))
          (scaled false m1 e1 (if e1 ≤ e2 then e1 else e2) + scaled n2 m2 e2 (if e1 ≤ e2 then e1 else e2)).natAbs
          (if e1 ≤ e2 then e1 else e2)) := rfl
  have hs : ((scaled false m1 e1 (if e1 ≤ e2 then e1 else e2) + scaled n2 m2 e2 (if e1 ≤ e2 then e1 else e2) : ℤ) : ℚ)
      * (2:ℚ)^(if e1 ≤ e2 then e1 else e2) = val (.fin false m1 e1) + val (.fin n2 m2 e2) := by
    have hp := two_zpow_pos (if e1 ≤ e2 then e1 else e2)
    rw [Int.cast_add, scaled_cast _ _ he1, scaled_cast _ _ he2, ← add_mul, mul_assoc,
      inv_mul_cancel₀ (ne_of_gt hp), mul_one]
  rw [hadd]
  generalize (if e1 ≤ e2 then e1 else e2) = E at hs ⊢
  generalize scaled false m1 e1 E + scaled n2 m2 e2 E = S at hs ⊢
  have hp := two_zpow_pos E
  have hnn : 0 ≤ S := by
    by_contra hc
    have : (S : ℚ) < 0 := by exact_mod_cast (lt_of_not_ge hc)
    nlinarith
  refine ⟨S.natAbs, E, ?_, ?_⟩
  · by_cases h0 : S = 0
    · subst h0; simp [ofFin_zero]
    · have : ¬ S < 0 := by omega
      simp [h0, this]
  · rw [← hs, Nat.cast_natAbs, abs_of_nonneg hnn]

theorem add_one_fin {n : Bool} {m : ℕ} {e : ℤ} (h : -1 ≤ val (.fin n m e)) :
    ∃ S E, add one (.fin n m e) = ofFin false S E ∧ (S : ℚ) * (2:ℚ)^E = 1 + val (.fin n m e) := by
  have := add_fin_nonneg (2^52) (-52) n m e (by rw [← one, val_one]; linarith)
  rw [← one, val_one] at this
  exact this

/-- `1 + r` is monotone in `r ≥ -1` and non-negative -/
theorem add_one_mono {a b : F64} (ha : le (F64.neg one) a = true) (hab : le a b = true)
    (hb : le b one = true) : le (add one a) (add one b) = true ∧ le (zero false) (add one a) = true := by
  have hneg : F64.neg one = .fin true (2^52) (-52) := rfl
  have hone : one = .fin false (2^52) (-52) := rfl
  have vneg : val (.fin true (2^52) (-52)) = -1 := by unfold val; norm_num
  rw [hneg] at ha
  cases a with
  | nan => simp [le] at hab
  | inf n1 => cases n1 <;> cases b <;> simp_all [le]
  | fin n1 m1 e1 =>
    cases b with
    | nan => simp [le] at hab
    | inf n2 => cases n2 <;> simp_all [le]
    | fin n2 m2 e2 =>
      have va : -1 ≤ val (.fin n1 m1 e1) := by
        have := (le_fin_iff _ _ _ _ _ _).1 ha
        rw [vneg] at this; exact this
      have vab := (le_fin_iff _ _ _ _ _ _).1 hab
      obtain ⟨S1, E1, h1, v1⟩ := add_one_fin va
      obtain ⟨S2, E2, h2, v2⟩ := add_one_fin (le_trans va vab)
      rw [h1, h2]
      exact ⟨ofFin_mono (by rw [v1, v2]; linarith), zero_le_ofFin _ _⟩

/-! ## `saturatedMultiply` at the float level: `sat (mul (ofInt i) ·)` -/

theorem mul_zero_right (m : ℕ) (q : ℤ) : mul (.fin false m q) (zero false) = zero false := by
  unfold zero; rw [mul_fin_fin]; simp [ofFin_zero, zero]

theorem sat_zero : sat (zero false) = 0 := by
  unfold zero; rw [sat_fin_pos]
  have : mag 0 (-1074) = 0 := by unfold mag; rw [if_neg (by decide)]; exact Nat.zero_div _
  rw [this]; decide

/-- monotone in the multiplier -/
theorem satmul_mono {i : ℤ} (h0 : 0 < i) (h1 : i ≤ 2^63 - 1) {p p' : F64} (h : le p p' = true) :
    sat (mul (ofInt i) p) ≤ sat (mul (ofInt i) p') := by
  obtain ⟨m, q, hx, hm1, _⟩ := ofInt_pos_spec h0 h1
  rw [hx]
  exact sat_mono (mul_mono_right q (by omega) h)

/-- non-negative for a non-negative multiplier -/
theorem satmul_nonneg {i : ℤ} (h0 : 0 < i) (h1 : i ≤ 2^63 - 1) {p : F64} (h : le (zero false) p = true) :
    0 ≤ sat (mul (ofInt i) p) := by
  have := satmul_mono h0 h1 h
  obtain ⟨m, q, hx, _⟩ := ofInt_pos_spec h0 h1
  rw [hx, mul_zero_right, sat_zero] at this
  rw [hx]; exact this

/-- **never below the left operand** when the multiplier is at least `nextUp(1) = 1 + 2^-52` -/
theorem satmul_ge {i : ℤ} (h0 : 0 < i) (h1 : i ≤ 2^63 - 1) {p : F64}
    (h : le (.fin false (2^52 + 1) (-52)) p = true) : i ≤ sat (mul (ofInt i) p) := by
  obtain ⟨m, q, hx, hm1, hm2, hq1, hq2, hup⟩ := ofInt_pos_spec h0 h1
  rw [hx]
  have hm0 : m ≠ 0 := by omega
  cases p with
  | nan => simp [le] at h
  | inf n =>
    have : n = false := by simpa [le] using h
    subst this
    rw [mul_fin_inf, if_neg hm0]
    have := sat_inf_false
    simp only [bne_self_eq_false] at *
    omega
  | fin n2 p f =>
    rw [le_fin_iff] at h
    unfold val at h
    have pf := two_zpow_pos f
    have pq := two_zpow_pos q
    have cp : (0:ℚ) ≤ (p : ℚ) * (2:ℚ)^f := by positivity
    have hc : (2:ℚ)^(-52:ℤ) * 2^52 = 1 := by norm_num
    cases n2
    · simp only [Bool.false_eq_true, if_false, one_mul] at h
      rw [mul_fin_fin]
      -- the representable value `x + ulp(x)` lies between `i` and the exact product
      have hprod : (((m + 1 : ℕ) : ℚ)) * (2:ℚ)^q ≤ ((m * p : ℕ) : ℚ) * (2:ℚ)^(q + f) := by
        rw [zpow_add₀ (by norm_num : (2:ℚ) ≠ 0)]
        push_cast at h ⊢
        have hm : (2:ℚ)^52 ≤ (m : ℚ) := by exact_mod_cast hm1
        have ht : 1 + (2:ℚ)^(-52:ℤ) ≤ (p : ℚ) * (2:ℚ)^f := by nlinarith
        have hmc : 1 ≤ (m : ℚ) * (2:ℚ)^(-52:ℤ) := by nlinarith [two_zpow_pos (-52)]
        have hmp : (m : ℚ) + 1 ≤ (m : ℚ) * ((p : ℚ) * (2:ℚ)^f) := by nlinarith
        calc ((m : ℚ) + 1) * (2:ℚ)^q ≤ (m : ℚ) * ((p : ℚ) * (2:ℚ)^f) * (2:ℚ)^q :=
              mul_le_mul_of_nonneg_right hmp (le_of_lt pq)
          _ = (m : ℚ) * p * ((2:ℚ)^q * (2:ℚ)^f) := by ring
      have hle := ofFin_mono hprod
      have hi : ((i.toNat : ℕ) : ℚ) = (i : ℚ) := by
        have : ((i.toNat : ℕ) : ℤ) = i := by omega
        exact_mod_cast this
      have hin : ((i.toNat : ℕ) : ℤ) = i := by omega
      by_cases hc53 : m + 1 < 2^53
      · have hcan : Canon (m + 1) q := by unfold Canon; omega
        rw [ofFin_canon false hcan] at hle
        have := sat_mono hle
        have h2 := le_sat (n := i.toNat) (m := m + 1) (e := q) (by omega)
          (by rw [hi]; push_cast; exact le_of_lt hup)
        simp only [bne_self_eq_false] at *
        omega
      · have hm53 : m + 1 = 2^53 := by omega
        have hcan : Canon (2^52) (q + 1) := by unfold Canon; omega
        have hval : (((m + 1 : ℕ) : ℚ)) * (2:ℚ)^q = ((2^52 : ℕ) : ℚ) * (2:ℚ)^(q + 1) := by
          rw [hm53, zpow_add₀ (by norm_num : (2:ℚ) ≠ 0)]; push_cast; ring
        rw [ofFin_exact false hcan hval] at hle
        have := sat_mono hle
        have h2 := le_sat (n := i.toNat) (m := 2^52) (e := q + 1) (by omega)
          (by rw [hi, ← hval]; push_cast; exact le_of_lt hup)
        simp only [bne_self_eq_false] at *
        omega
    · simp only [Bool.false_eq_true, if_false, if_true, one_mul] at h
      have : (0:ℚ) < ((2^52 + 1 : ℕ) : ℚ) * (2:ℚ)^(-52:ℤ) := by positivity
      linarith

/-! ## small integers are exact: a multiplier `≥ 1` suffices below `2^53` -/

/-- integers below `2^53` convert exactly -/
theorem ofInt_exact_small {i : ℤ} (h0 : 0 < i) (h1 : i < 2^53) :
    ∃ m q, ofInt i = .fin false m q ∧ Canon m q ∧ 0 < m ∧ (m : ℚ) * (2:ℚ)^q = (i : ℚ) := by
  rw [ofInt_pos h0]
  have hn : i.natAbs ≠ 0 := by omega
  have hL : i.natAbs.log2 < 53 := (Nat.log2_lt hn).2 (by omega)
  have hlo : 2^i.natAbs.log2 ≤ i.natAbs := Nat.log2_self_le hn
  have hhi : i.natAbs < 2^(i.natAbs.log2 + 1) := Nat.lt_log2_self
  have hcast : ((i.natAbs : ℕ) : ℚ) = (i : ℚ) := by
    rw [Nat.cast_natAbs, abs_of_nonneg (le_of_lt h0)]
  have hk : i.natAbs.log2 + (52 - i.natAbs.log2) = 52 := by omega
  have hk1 : (i.natAbs.log2 + 1) + (52 - i.natAbs.log2) = 53 := by omega
  have hpos : 0 < 2^(52 - i.natAbs.log2) := Nat.two_pow_pos _
  have hcan : Canon (i.natAbs * 2^(52 - i.natAbs.log2)) ((i.natAbs.log2 : ℤ) - 52) := by
    unfold Canon
    refine ⟨?_, by omega, by omega, Or.inl ?_⟩
    · calc i.natAbs * 2^(52 - i.natAbs.log2) < 2^(i.natAbs.log2 + 1) * 2^(52 - i.natAbs.log2) :=
            Nat.mul_lt_mul_of_pos_right hhi hpos
        _ = 2^53 := by rw [← Nat.pow_add, hk1]
    · calc 2^52 = 2^i.natAbs.log2 * 2^(52 - i.natAbs.log2) := by rw [← Nat.pow_add, hk]
        _ ≤ i.natAbs * 2^(52 - i.natAbs.log2) := Nat.mul_le_mul_right _ hlo
  have hval : ((i.natAbs : ℕ) : ℚ) * (2:ℚ)^(0:ℤ) =
      ((i.natAbs * 2^(52 - i.natAbs.log2) : ℕ) : ℚ) * (2:ℚ)^((i.natAbs.log2 : ℤ) - 52) := by
    have e : (i.natAbs.log2 : ℤ) - 52 = -((52 - i.natAbs.log2 : ℕ) : ℤ) := by omega
    rw [e, zpow_neg, zpow_natCast]
    push_cast
    have : ((2:ℚ)^(52 - i.natAbs.log2)) ≠ 0 := by positivity
    field_simp
  refine ⟨_, _, ofFin_exact false hcan hval, hcan, Nat.mul_pos (by omega) hpos, ?_⟩
  rw [← hval, hcast]; simp

/-- for `i < 2^53` (converted exactly) a multiplier `≥ 1.0` is enough to stay at or above `i` -/
theorem satmul_ge_small {i : ℤ} (h0 : 0 < i) (h1 : i < 2^53) {p : F64} (h : le one p = true) :
    i ≤ sat (mul (ofInt i) p) := by
  obtain ⟨m, q, hx, hcan, hm, hv⟩ := ofInt_exact_small h0 h1
  rw [hx]
  have hm0 : m ≠ 0 := by omega
  have hin : ((i.toNat : ℕ) : ℤ) = i := by omega
  have hi : ((i.toNat : ℕ) : ℚ) = (i : ℚ) := by exact_mod_cast hin
  unfold one at h
  cases p with
  | nan => simp [le] at h
  | inf n =>
    have : n = false := by simpa [le] using h
    subst this
    rw [mul_fin_inf, if_neg hm0]
    have := sat_inf_false
    simp only [bne_self_eq_false] at *
    omega
  | fin n2 pm f =>
    rw [le_fin_iff] at h
    have v1 : val (.fin false (2^52) (-52)) = 1 := by unfold val; norm_num
    rw [v1] at h
    unfold val at h
    have pf := two_zpow_pos f
    have pq := two_zpow_pos q
    have cp : (0:ℚ) ≤ (pm : ℚ) * (2:ℚ)^f := by positivity
    cases n2
    · simp only [Bool.false_eq_true, if_false, one_mul] at h
      rw [mul_fin_fin]
      have hprod : ((m : ℕ) : ℚ) * (2:ℚ)^q ≤ ((m * pm : ℕ) : ℚ) * (2:ℚ)^(q + f) := by
        rw [zpow_add₀ (by norm_num : (2:ℚ) ≠ 0)]
        push_cast
        have hmq : (0:ℚ) ≤ (m : ℚ) * (2:ℚ)^q := by positivity
        calc (m : ℚ) * (2:ℚ)^q = (m : ℚ) * (2:ℚ)^q * 1 := by ring
          _ ≤ (m : ℚ) * (2:ℚ)^q * ((pm : ℚ) * (2:ℚ)^f) := mul_le_mul_of_nonneg_left h hmq
          _ = (m : ℚ) * pm * ((2:ℚ)^q * (2:ℚ)^f) := by ring
      have hle := ofFin_mono hprod
      rw [ofFin_canon false hcan] at hle
      have := sat_mono hle
      have h2 := le_sat (n := i.toNat) (m := m) (e := q) (by omega) (by rw [hi, hv])
      simp only [bne_self_eq_false] at *
      omega
    · simp only [if_true] at h
      linarith


/-! ## `nextUp(1)`; closure of the operations under `IsF64` -/

/-- `nextUp(1.0) = 1 + 2^-52`, the smallest float above 1 -/
def nextUpOne : F64 := .fin false (2^52 + 1) (-52)

/-- a float `> 1` is `≥ nextUp(1)` (what the exponential constructor's check `multiplier > 1` gives) -/
theorem nextUpOne_le_of_one_lt {mu : F64} (hc : IsF64 mu) (h : lt one mu = true) :
    le nextUpOne mu = true := by
  cases mu with
  | nan => simp [lt, one] at h
  | inf n => cases n <;> simp_all [lt, le, one, nextUpOne]
  | fin n m e =>
    have hm : m < 2^53 := hc.1
    unfold one at h; unfold nextUpOne
    simp only [lt, le, decide_eq_true_eq] at h ⊢
    by_cases he : -52 ≤ e
    · simp only [if_pos he] at h ⊢
      unfold scaled at h ⊢
      have : ((-52:ℤ) - -52).toNat = 0 := by decide
      simp only [this, Nat.pow_zero, Nat.mul_one] at h ⊢
      simp only [Bool.false_eq_true, if_false, Int.one_mul] at h ⊢
      omega
    · simp only [if_neg he] at h
      exfalso
      unfold scaled at h
      have hk : 2 ≤ 2^((-52:ℤ) - e).toNat := by
        have : 1 ≤ ((-52:ℤ) - e).toNat := by omega
        calc 2 = 2^1 := rfl
          _ ≤ _ := Nat.pow_le_pow_right (by decide) this
      have h0 : (e - e).toNat = 0 := by omega
      rw [h0] at h
      simp only [Bool.false_eq_true, if_false, Int.one_mul, Nat.pow_zero, Nat.mul_one] at h
      have h2 : 2^52 * 2 ≤ 2^52 * 2^((-52:ℤ) - e).toNat := Nat.mul_le_mul_left _ hk
      have h3 : ((2^52 * 2^((-52:ℤ) - e).toNat : ℕ) : ℤ) < (m : ℤ) := by
        cases n
        · simpa using h
        · simp only [if_true] at h; omega
      omega

theorem mul_isF64 (x y : F64) : IsF64 (mul x y) := by
  cases x with
  | nan => cases y <;> trivial
  | inf n1 =>
    cases y with
    | nan => trivial
    | inf n2 => trivial
    | fin n2 m2 e2 => show IsF64 (if m2 = 0 then .nan else .inf (n1 != n2)); split <;> trivial
  | fin n1 m1 e1 =>
    cases y with
    | nan => trivial
    | inf n2 => show IsF64 (if m1 = 0 then .nan else .inf (n2 != n1)); split <;> trivial
    | fin n2 m2 e2 => exact ofFin_isF64 _ _ _

theorem zero_isF64 (neg : Bool) : IsF64 (zero neg) := by
  show Canon 0 (-1074); decide

theorem add_isF64 (x y : F64) : IsF64 (add x y) := by
  cases x with
  | nan => cases y <;> trivial
  | inf n1 =>
    cases y with
    | nan => trivial
    | inf n2 => show IsF64 (if n1 = n2 then .inf n1 else .nan); split <;> trivial
    | fin n2 m2 e2 => trivial
  | fin n1 m1 e1 =>
    cases y with
    | nan => trivial
    | inf n2 => trivial
    | fin n2 m2 e2 =>
      have key : ∀ (E S : ℤ), IsF64 (if S = 0 then zero (n1 && n2) else ofFin (decide (S < 0)) S.natAbs E) := by
        intro E S; split
        · exact zero_isF64 _
        · exact ofFin_isF64 _ _ _
      exact key _ _

theorem ofInt_isF64 (i : ℤ) : IsF64 (ofInt i) := by
  unfold ofInt
  split
  · exact zero_isF64 _
  · have : roundQ (decide (i < 0)) i.natAbs 1 = ofFin (decide (i < 0)) i.natAbs 0 := by
      unfold ofFin; simp
    rw [this]; exact ofFin_isF64 _ _ _


/-! ## general `roundQ` (arbitrary denominators, as used by `div`) -/

/-- `ilog2q` is `floor(log2(num/den))` -/
theorem ilog2q_spec {num den : ℕ} (hn : 0 < num) (hd : 0 < den) :
    (2:ℚ)^(ilog2q num den) * (den : ℚ) ≤ (num : ℚ) ∧
      (num : ℚ) < (2:ℚ)^(ilog2q num den + 1) * (den : ℚ) := by
  have hn0 : num ≠ 0 := by omega
  have hd0 : den ≠ 0 := by omega
  have a1 : ((2^num.log2 : ℕ) : ℚ) ≤ (num : ℚ) := by exact_mod_cast Nat.log2_self_le hn0
  have a2 : (num : ℚ) < ((2^(num.log2 + 1) : ℕ) : ℚ) := by exact_mod_cast (Nat.lt_log2_self (n := num))
  have b1 : ((2^den.log2 : ℕ) : ℚ) ≤ (den : ℚ) := by exact_mod_cast Nat.log2_self_le hd0
  have b2 : (den : ℚ) < ((2^(den.log2 + 1) : ℕ) : ℚ) := by exact_mod_cast (Nat.lt_log2_self (n := den))
  push_cast at a1 a2 b1 b2
  rw [pow_succ] at a2 b2
  have two_ne : (2:ℚ) ≠ 0 := by norm_num
  have hT : (2:ℚ)^((num.log2 : ℤ) - (den.log2 : ℤ)) * (2:ℚ)^den.log2 = (2:ℚ)^num.log2 := by
    rw [zpow_sub₀ two_ne, zpow_natCast, zpow_natCast]
    field_simp
  have hTpos := two_zpow_pos ((num.log2 : ℤ) - (den.log2 : ℤ))
  have hX : (0:ℚ) < (num : ℚ) := by exact_mod_cast hn
  have hY : (0:ℚ) < (den : ℚ) := by exact_mod_cast hd
  have hge : ((if (num.log2 : ℤ) - (den.log2 : ℤ) ≥ 0
        then decide (num ≥ den * 2^((num.log2 : ℤ) - (den.log2 : ℤ)).toNat)
        else decide (num * 2^(-((num.log2 : ℤ) - (den.log2 : ℤ))).toNat ≥ den)) = true) ↔
      (den : ℚ) * (2:ℚ)^((num.log2 : ℤ) - (den.log2 : ℤ)) ≤ (num : ℚ) := by
    split
    · rename_i h0
      rw [decide_eq_true_eq, ge_iff_le, ← Nat.cast_le (α := ℚ)]
      push_cast
      rw [← zpow_natCast (2:ℚ) ((num.log2 : ℤ) - (den.log2 : ℤ)).toNat, Int.toNat_of_nonneg h0]
    · rename_i h0
      rw [decide_eq_true_eq, ge_iff_le, ← Nat.cast_le (α := ℚ)]
      push_cast
      rw [← zpow_natCast (2:ℚ) (-((num.log2 : ℤ) - (den.log2 : ℤ))).toNat,
        Int.toNat_of_nonneg (by omega), zpow_neg]
      rw [le_mul_inv_iff₀ hTpos]
  unfold ilog2q
  simp only
  by_cases hg : (den : ℚ) * (2:ℚ)^((num.log2 : ℤ) - (den.log2 : ℤ)) ≤ (num : ℚ)
  · rw [if_pos (hge.2 hg)]
    refine ⟨by linarith, ?_⟩
    rw [zpow_add_one₀ two_ne]
    nlinarith
  · rw [if_neg (fun h => hg (hge.1 h))]
    rw [sub_add_cancel]
    refine ⟨?_, by linarith [not_le.1 hg]⟩
    have : (2:ℚ)^((num.log2 : ℤ) - (den.log2 : ℤ) - 1) * 2 = (2:ℚ)^((num.log2 : ℤ) - (den.log2 : ℤ)) := by
      rw [← zpow_add_one₀ two_ne, sub_add_cancel]
    have hpos := two_zpow_pos ((num.log2 : ℤ) - (den.log2 : ℤ) - 1)
    nlinarith

/-- uniqueness of the binade -/
theorem binade_unique {x : ℚ} {e1 e2 : ℤ} (h1 : (2:ℚ)^e1 ≤ x) (h2 : x < (2:ℚ)^(e2 + 1)) : e1 ≤ e2 := by
  have : (2:ℚ)^e1 < (2:ℚ)^(e2 + 1) := lt_of_le_of_lt h1 h2
  have := (zpow_lt_zpow_iff_right₀ (by norm_num : (1:ℚ) < 2)).1 this
  omega

/-- numerator / denominator handed to `rne` by `roundQ` at quantum exponent `q` -/
def rqN (num : ℕ) (q : ℤ) : ℕ := if q ≥ 0 then num else num * 2^(-q).toNat
def rqD (den : ℕ) (q : ℤ) : ℕ := if q ≥ 0 then den * 2^q.toNat else den

theorem rqD_pos {den : ℕ} (hd : 0 < den) (q : ℤ) : 0 < rqD den q := by
  unfold rqD; split
  · exact Nat.mul_pos hd (Nat.two_pow_pos _)
  · exact hd

/-- `N / D = (num/den) / 2^q`, cross-multiplied -/
theorem rq_ratio (num den : ℕ) (q : ℤ) :
    (rqN num q : ℚ) * ((den : ℚ) * (2:ℚ)^q) = (num : ℚ) * (rqD den q : ℚ) := by
  unfold rqN rqD
  split
  · rename_i h
    push_cast
    rw [← zpow_natCast (2:ℚ) q.toNat, Int.toNat_of_nonneg h]
  · rename_i h
    push_cast
    rw [← zpow_natCast (2:ℚ) (-q).toNat, Int.toNat_of_nonneg (by omega), zpow_neg]
    have := two_zpow_pos q
    field_simp

theorem roundQ_eq' (neg : Bool) {num : ℕ} (den : ℕ) (h : num ≠ 0) :
    roundQ neg num den = pack neg (rne (rqN num (qOfE (ilog2q num den))) (rqD den (qOfE (ilog2q num den))))
      (qOfE (ilog2q num den)) := roundQ_eq neg den h

/-- the structural facts about the pre-normalisation significand, general denominators -/
theorem rq_bounds {num den : ℕ} (hn : 0 < num) (hd : 0 < den) :
    rne (rqN num (qOfE (ilog2q num den))) (rqD den (qOfE (ilog2q num den))) ≤ 2^53 ∧
    (-1074 < qOfE (ilog2q num den) →
      2^52 ≤ rne (rqN num (qOfE (ilog2q num den))) (rqD den (qOfE (ilog2q num den)))) := by
  obtain ⟨s1, s2⟩ := ilog2q_spec hn hd
  have hq := qOfE_ge (ilog2q num den)
  have hr := rq_ratio num den (qOfE (ilog2q num den))
  have hD := rqD_pos hd (qOfE (ilog2q num den))
  have hqgt : -1074 < qOfE (ilog2q num den) → qOfE (ilog2q num den) = ilog2q num den - 52 := qOfE_gt
  generalize ilog2q num den = e at *
  generalize qOfE e = q at *
  generalize rqN num q = N at *
  generalize rqD den q = D at *
  have two_ne : (2:ℚ) ≠ 0 := by norm_num
  have hY : (0:ℚ) < (den : ℚ) := by exact_mod_cast hd
  have hDq : (0:ℚ) < (D : ℚ) := by exact_mod_cast hD
  have pq := two_zpow_pos q
  have hc : (0:ℚ) < (den : ℚ) * (2:ℚ)^q := by positivity
  constructor
  · have h1 : (2:ℚ)^(e + 1) ≤ (2:ℚ)^(q + 53) := zpow_le_zpow_right₀ (by norm_num) (by omega)
    have h2 : (2:ℚ)^(q + 53) = (2:ℚ)^q * 2^53 := by
      rw [zpow_add₀ two_ne]; norm_num
    have h3 : (N : ℚ) * ((den : ℚ) * (2:ℚ)^q) ≤ ((2^53 * D : ℕ) : ℚ) * ((den : ℚ) * (2:ℚ)^q) := by
      rw [hr]; push_cast
      have : (num : ℚ) ≤ (2:ℚ)^q * 2^53 * (den : ℚ) := by
        have := mul_le_mul_of_nonneg_right h1 (le_of_lt hY)
        rw [h2] at this; linarith
      calc (num : ℚ) * D ≤ ((2:ℚ)^q * 2^53 * (den : ℚ)) * D := mul_le_mul_of_nonneg_right this (le_of_lt hDq)
        _ = 2^53 * (D : ℚ) * ((den : ℚ) * (2:ℚ)^q) := by ring
    have h4 : (N : ℚ) ≤ ((2^53 * D : ℕ) : ℚ) := le_of_mul_le_mul_right h3 hc
    have h5 : N ≤ 2^53 * D := by exact_mod_cast h4
    have := rne_mono (D := D) h5
    rwa [rne_exact _ _ hD] at this
  · intro hgt
    have hqe : q = e - 52 := hqgt hgt
    have h2 : (2:ℚ)^e = (2:ℚ)^q * 2^52 := by
      rw [hqe, ← zpow_natCast (2:ℚ) 52, ← zpow_add₀ two_ne]; congr 1; omega
    have h3 : ((2^52 * D : ℕ) : ℚ) * ((den : ℚ) * (2:ℚ)^q) ≤ (N : ℚ) * ((den : ℚ) * (2:ℚ)^q) := by
      rw [hr]; push_cast
      have : (2:ℚ)^q * 2^52 * (den : ℚ) ≤ (num : ℚ) := by rw [← h2]; exact s1
      calc 2^52 * (D : ℚ) * ((den : ℚ) * (2:ℚ)^q) = ((2:ℚ)^q * 2^52 * (den : ℚ)) * D := by ring
        _ ≤ (num : ℚ) * D := mul_le_mul_of_nonneg_right this (le_of_lt hDq)
    have h4 : ((2^52 * D : ℕ) : ℚ) ≤ (N : ℚ) := le_of_mul_le_mul_right h3 hc
    have h5 : 2^52 * D ≤ N := by exact_mod_cast h4
    have := rne_mono (D := D) h5
    rwa [rne_exact _ _ hD] at this

/-- **every result of `roundQ` is a canonical binary64** -/
theorem roundQ_isF64 (neg : Bool) (num : ℕ) {den : ℕ} (hd : 0 < den) : IsF64 (roundQ neg num den) := by
  by_cases hn : num = 0
  · subst hn; unfold roundQ; simp only [if_true]; exact zero_isF64 neg
  · rw [roundQ_eq' neg den hn]
    obtain ⟨b1, b2⟩ := rq_bounds (Nat.pos_of_ne_zero hn) hd
    exact pack_isF64 neg b1 b2 (qOfE_ge _).1

theorem roundQ_sign (neg : Bool) (num den : ℕ) :
    roundQ neg num den = .inf neg ∨ ∃ m q, roundQ neg num den = .fin neg m q := by
  by_cases hn : num = 0
  · subst hn; right; unfold roundQ; simp only [if_true]; exact ⟨_, _, rfl⟩
  · rw [roundQ_eq' neg den hn]; exact pack_sign _ _ _

/-- **`roundQ` is monotone in the rational** (`num1/den1 ≤ num2/den2`, cross-multiplied) -/
theorem roundQ_mono {num1 den1 num2 den2 : ℕ} (hd1 : 0 < den1) (hd2 : 0 < den2)
    (h : num1 * den2 ≤ num2 * den1) : le (roundQ false num1 den1) (roundQ false num2 den2) = true := by
  by_cases hn1 : num1 = 0
  · subst hn1
    have : roundQ false 0 den1 = zero false := by unfold roundQ; simp
    rw [this]
    rcases roundQ_sign false num2 den2 with h | ⟨m, q, h⟩ <;> rw [h]
    · rfl
    · rw [zero, le_fin_iff]; unfold val; simp; positivity
  · have hp1 : 0 < num1 := Nat.pos_of_ne_zero hn1
    have hp2 : 0 < num2 := by
      rcases Nat.eq_zero_or_pos num2 with h0 | h0
      · subst h0
        have : 0 < num1 * den2 := Nat.mul_pos hp1 hd2
        omega
      · exact h0
    have hn2 : num2 ≠ 0 := by omega
    rw [roundQ_eq' false den1 hn1, roundQ_eq' false den2 hn2]
    obtain ⟨a1, _⟩ := rq_bounds hp1 hd1
    obtain ⟨b1, b2⟩ := rq_bounds hp2 hd2
    obtain ⟨s1, _⟩ := ilog2q_spec hp1 hd1
    obtain ⟨_, t2⟩ := ilog2q_spec hp2 hd2
    have hX1 : (0:ℚ) < (den1 : ℚ) := by exact_mod_cast hd1
    have hX2 : (0:ℚ) < (den2 : ℚ) := by exact_mod_cast hd2
    have hq : (num1 : ℚ) * den2 ≤ (num2 : ℚ) * den1 := by exact_mod_cast h
    have he : ilog2q num1 den1 ≤ ilog2q num2 den2 := by
      apply binade_unique (x := (num1 : ℚ) / den1)
      · rw [le_div_iff₀ hX1]; exact s1
      · rw [div_lt_iff₀ hX1]
        have : (num1 : ℚ) * den2 < (2:ℚ)^(ilog2q num2 den2 + 1) * den1 * den2 := by
          calc (num1 : ℚ) * den2 ≤ (num2 : ℚ) * den1 := hq
            _ < (2:ℚ)^(ilog2q num2 den2 + 1) * den2 * den1 := mul_lt_mul_of_pos_right t2 hX1
            _ = (2:ℚ)^(ilog2q num2 den2 + 1) * den1 * den2 := by ring
        exact lt_of_mul_lt_mul_right this (le_of_lt hX2)
    refine pack_le a1 b1 (qOfE_mono he) b2 ?_ (qOfE_ge _).1
    intro heq
    have r1 := rq_ratio num1 den1 (qOfE (ilog2q num1 den1))
    have r2 := rq_ratio num2 den2 (qOfE (ilog2q num2 den2))
    have hD1 := rqD_pos hd1 (qOfE (ilog2q num1 den1))
    have hD2 := rqD_pos hd2 (qOfE (ilog2q num2 den2))
    rw [← heq] at r2 hD2 ⊢
    generalize qOfE (ilog2q num1 den1) = q at *
    generalize rqN num1 q = N1 at *
    generalize rqD den1 q = D1 at *
    generalize rqN num2 q = N2 at *
    generalize rqD den2 q = D2 at *
    have pq := two_zpow_pos q
    have hD1q : (0:ℚ) < (D1 : ℚ) := by exact_mod_cast hD1
    have hD2q : (0:ℚ) < (D2 : ℚ) := by exact_mod_cast hD2
    have hc : (0:ℚ) < (den1 : ℚ) * (den2 : ℚ) * (2:ℚ)^q := by positivity
    have hND : ((N1 * D2 : ℕ) : ℚ) * ((den1 : ℚ) * (den2 : ℚ) * (2:ℚ)^q) ≤
        ((N2 * D1 : ℕ) : ℚ) * ((den1 : ℚ) * (den2 : ℚ) * (2:ℚ)^q) := by
      push_cast
      have hDD : (0:ℚ) ≤ (D1 : ℚ) * (D2 : ℚ) := by positivity
      calc (N1 : ℚ) * D2 * ((den1 : ℚ) * den2 * (2:ℚ)^q)
          = ((N1 : ℚ) * ((den1 : ℚ) * (2:ℚ)^q)) * (D2 * den2) := by ring
        _ = ((num1 : ℚ) * D1) * (D2 * den2) := by rw [r1]
        _ = ((num1 : ℚ) * den2) * ((D1 : ℚ) * D2) := by ring
        _ ≤ ((num2 : ℚ) * den1) * ((D1 : ℚ) * D2) := mul_le_mul_of_nonneg_right hq hDD
        _ = ((num2 : ℚ) * D2) * (D1 * den1) := by ring
        _ = ((N2 : ℚ) * ((den2 : ℚ) * (2:ℚ)^q)) * (D1 * den1) := by rw [r2]
        _ = (N2 : ℚ) * D1 * ((den1 : ℚ) * den2 * (2:ℚ)^q) := by ring
    have h4 : ((N1 * D2 : ℕ) : ℚ) ≤ ((N2 * D1 : ℕ) : ℚ) := le_of_mul_le_mul_right hND hc
    have h5 : N1 * D2 ≤ N2 * D1 := by exact_mod_cast h4
    calc rne N1 D1 = rne (N1 * D2) (D1 * D2) := (rne_scale _ _ _ hD2).symm
      _ ≤ rne (N2 * D1) (D1 * D2) := rne_mono h5
      _ = rne (N2 * D1) (D2 * D1) := by rw [Nat.mul_comm D1 D2]
      _ = rne N2 D2 := rne_scale _ _ _ hD1

/-- **`roundQ` of a representable value is that value** -/
theorem roundQ_exact (neg : Bool) {num den m : ℕ} {e : ℤ} (hd : 0 < den) (hc : Canon m e)
    (h : (num : ℚ) = (m : ℚ) * (2:ℚ)^e * (den : ℚ)) : roundQ neg num den = .fin neg m e := by
  have hY : (0:ℚ) < (den : ℚ) := by exact_mod_cast hd
  have pe := two_zpow_pos e
  by_cases hm : m = 0
  · subst hm
    have : num = 0 := by
      have : (num : ℚ) = 0 := by rw [h]; simp
      exact_mod_cast this
    subst this
    obtain ⟨_, h2, _, h4⟩ := hc
    have : e = -1074 := by omega
    subst this
    unfold roundQ; simp [zero]
  · have hmpos : (0:ℚ) < (m : ℚ) := by exact_mod_cast Nat.pos_of_ne_zero hm
    have hnq : (0:ℚ) < (num : ℚ) := by rw [h]; positivity
    have hn : 0 < num := by exact_mod_cast hnq
    have hn0 : num ≠ 0 := by omega
    obtain ⟨s1, s2⟩ := ilog2q_spec hn hd
    -- the binade of `m·2^e`
    have m1 : ((2^m.log2 : ℕ) : ℚ) ≤ (m : ℚ) := by exact_mod_cast Nat.log2_self_le hm
    have m2 : (m : ℚ) < ((2^(m.log2 + 1) : ℕ) : ℚ) := by exact_mod_cast (Nat.lt_log2_self (n := m))
    push_cast at m1 m2
    have two_ne : (2:ℚ) ≠ 0 := by norm_num
    have hx1 : (2:ℚ)^((m.log2 : ℤ) + e) ≤ (m : ℚ) * (2:ℚ)^e := by
      rw [zpow_add₀ two_ne, zpow_natCast]; exact mul_le_mul_of_nonneg_right m1 (le_of_lt pe)
    have hx2 : (m : ℚ) * (2:ℚ)^e < (2:ℚ)^((m.log2 : ℤ) + e + 1) := by
      have : (m.log2 : ℤ) + e + 1 = ((m.log2 + 1 : ℕ) : ℤ) + e := by push_cast; ring
      rw [this, zpow_add₀ two_ne, zpow_natCast]; exact mul_lt_mul_of_pos_right m2 pe
    have y1 : (2:ℚ)^(ilog2q num den) ≤ (m : ℚ) * (2:ℚ)^e := by
      have : (2:ℚ)^(ilog2q num den) * den ≤ (m : ℚ) * (2:ℚ)^e * den := by rw [← h]; exact s1
      exact le_of_mul_le_mul_right this hY
    have y2 : (m : ℚ) * (2:ℚ)^e < (2:ℚ)^(ilog2q num den + 1) := by
      have : (m : ℚ) * (2:ℚ)^e * den < (2:ℚ)^(ilog2q num den + 1) * den := by rw [← h]; exact s2
      exact lt_of_mul_lt_mul_right this (le_of_lt hY)
    have hil : ilog2q num den = (m.log2 : ℤ) + e :=
      le_antisymm (binade_unique y1 hx2) (binade_unique hx1 y2)
    obtain ⟨c1, c2, c3, c4⟩ := hc
    have hq : qOfE (ilog2q num den) = e := by
      rw [hil]; unfold qOfE
      by_cases hnm : 2^52 ≤ m
      · rw [log2_of_normal hnm c1]; split <;> omega
      · have : m.log2 < 52 := (Nat.log2_lt hm).2 (by omega)
        have he : e = -1074 := by omega
        split <;> omega
    rw [roundQ_eq' neg den hn0, hq]
    have r := rq_ratio num den e
    have hD := rqD_pos hd e
    have hN : rqN num e = m * rqD den e := by
      have hDq : (0:ℚ) < (rqD den e : ℚ) := by exact_mod_cast hD
      have hcpos : (0:ℚ) < (den : ℚ) * (2:ℚ)^e := by positivity
      have : (rqN num e : ℚ) * ((den : ℚ) * (2:ℚ)^e) = ((m * rqD den e : ℕ) : ℚ) * ((den : ℚ) * (2:ℚ)^e) := by
        rw [r, h]; push_cast; ring
      have := mul_right_cancel₀ (ne_of_gt hcpos) this
      exact_mod_cast this
    rw [hN, rne_exact _ _ hD]
    unfold pack
    have hp := pm_pq m e
    have hne : m ≠ 2^53 := by omega
    have h5 : pm m = m := by omega
    have h6 : pq m e = e := by omega
    rw [h5, h6]
    have : ¬ (2^52 ≤ m ∧ e > 971) := by omega
    simp only [if_neg this]

theorem div_isF64 (x y : F64) : IsF64 (div x y) := by
  cases x with
  | nan => cases y <;> trivial
  | inf n1 => cases y <;> trivial
  | fin n1 m1 e1 =>
    cases y with
    | nan => trivial
    | inf n2 => exact zero_isF64 _
    | fin n2 m2 e2 =>
      show IsF64 (if m2 = 0 then (if m1 = 0 then .nan else .inf (n1 != n2)) else
        (if e1 - e2 ≥ 0 then roundQ (n1 != n2) (m1 * 2^(e1 - e2).toNat) m2
          else roundQ (n1 != n2) m1 (m2 * 2^(-(e1 - e2)).toNat)))
      split
      · split <;> trivial
      · rename_i hm2
        have hp : 0 < m2 := Nat.pos_of_ne_zero hm2
        split
        · exact roundQ_isF64 _ _ hp
        · exact roundQ_isF64 _ _ (Nat.mul_pos hp (Nat.two_pow_pos _))

end Garr.F64
