import Garr.Num.F64
/-! Bit patterns of binary64 ↔ `F64` (validated differentially against the hardware on every run). -/
namespace Garr.F64

/-- decode 64 raw bits -/
def ofBits (b : Nat) : F64 :=
  let neg : Bool := decide ((b / 2^63) % 2 = 1)
  let E : Nat := (b / 2^52) % 2048
  let F : Nat := b % 2^52
  if E = 2047 then (if F = 0 then .inf neg else .nan)
  else if E = 0 then .fin neg F (-1074)
  else .fin neg (2^52 + F) ((E : Int) - 1075)

def canonNaN : Nat := 0x7FF8000000000001

/-- encode a canonical value (all NaNs map to one pattern) -/
def toBits : F64 → Nat
  | .nan => canonNaN
  | .inf neg => (if neg then 2^63 else 0) + 2047 * 2^52
  | .fin neg m e =>
    (if neg then 2^63 else 0) +
      (if m < 2^52 then m else ((e + 1075).toNat) * 2^52 + (m - 2^52))

end Garr.F64
