import Garr.Num.F64
/-!
# An independent mathematical meaning of the binary64 comparisons

`F64.lt` / `F64.le` (in `Garr/Num/F64.lean`) are *computed*: they align both operands at the smaller
of the two exponents (`scaled`) and dispatch on the operand shapes.  This file gives the order a
meaning that does not mention either.

Every canonical binary64 `±m·2^e` has `e ≥ -1074`, so `value · 2^1074 = ±m·2^(e+1074)` is an
*integer* (`num`).  Multiplication by the positive constant `2^1074` is strictly monotone, hence
`x ↦ value x · 2^1074` is an order embedding of the finite binary64 values into `ℤ`, and of the
binary64 numbers (finite or infinite) into `ℤ ∪ {-∞, +∞}` (`EInt`, with its usual linear order).
`ext : F64 → EInt` is that embedding; `+0` and `-0` both map to `0`.

Main results (for canonical operands, `IsF64`):
* `lt_iff : F64.lt a b = true ↔ a ≠ nan ∧ b ≠ nan ∧ ext a < ext b`
* `le_iff : F64.le a b = true ↔ a ≠ nan ∧ b ≠ nan ∧ ext a ≤ ext b`
* `ext_one`, `ext_zero`, `ext_neg_one`: the constants `1`, `±0`, `-1` are `EInt.ofInt 1/0/(-1)`,
  i.e. the integers `2^1074`, `0`, `-2^1074`.
* `lt_irrefl`, `lt_asymm`, `lt_trans`, `le_refl`, `le_trans`, `le_total`, `lt_iff_not_le`,
  `le_iff_lt_or_ext_eq` for numbers, as corollaries of the embedding.
-/
namespace Garr
namespace F64

/-! ## Integers extended by `-∞`, `+∞` and their linear order -/

/-- `ℤ ∪ {-∞, +∞}` -/
inductive EInt where
  | negInf
  | fin (z : Int)
  | posInf
deriving DecidableEq, Repr

namespace EInt

/-- `-∞ <` every integer `< +∞`; integers are ordered as usual -/
protected def lt : EInt → EInt → Prop
  | .negInf, .negInf => False
  | .negInf, _ => True
  | .fin _, .negInf => False
  | .fin a, .fin b => a < b
  | .fin _, .posInf => True
  | .posInf, _ => False

protected def le : EInt → EInt → Prop
  | .negInf, _ => True
  | .fin _, .negInf => False
  | .fin a, .fin b => a ≤ b
  | .fin _, .posInf => True
  | .posInf, .posInf => True
  | .posInf, _ => False

instance : LT EInt := ⟨EInt.lt⟩
instance : LE EInt := ⟨EInt.le⟩

instance : (x y : EInt) → Decidable (x < y)
  | .negInf, .negInf => isFalse (fun h => h)
  | .negInf, .fin _ => isTrue trivial
  | .negInf, .posInf => isTrue trivial
  | .fin _, .negInf => isFalse (fun h => h)
  | .fin a, .fin b => inferInstanceAs (Decidable (a < b))
  | .fin _, .posInf => isTrue trivial
  | .posInf, .negInf => isFalse (fun h => h)
  | .posInf, .fin _ => isFalse (fun h => h)
  | .posInf, .posInf => isFalse (fun h => h)

instance : (x y : EInt) → Decidable (x ≤ y)
  | .negInf, .negInf => isTrue trivial
  | .negInf, .fin _ => isTrue trivial
  | .negInf, .posInf => isTrue trivial
  | .fin _, .negInf => isFalse (fun h => h)
  | .fin a, .fin b => inferInstanceAs (Decidable (a ≤ b))
  | .fin _, .posInf => isTrue trivial
  | .posInf, .negInf => isFalse (fun h => h)
  | .posInf, .fin _ => isFalse (fun h => h)
  | .posInf, .posInf => isTrue trivial

@[simp] theorem fin_lt_fin (a b : Int) : (EInt.fin a < EInt.fin b) ↔ a < b := Iff.rfl
@[simp] theorem fin_le_fin (a b : Int) : (EInt.fin a ≤ EInt.fin b) ↔ a ≤ b := Iff.rfl
@[simp] theorem negInf_lt_fin (a : Int) : EInt.negInf < EInt.fin a := trivial
@[simp] theorem negInf_lt_posInf : EInt.negInf < EInt.posInf := trivial
@[simp] theorem fin_lt_posInf (a : Int) : EInt.fin a < EInt.posInf := trivial
@[simp] theorem not_lt_negInf (x : EInt) : ¬ x < EInt.negInf := by cases x <;> exact fun h => h
@[simp] theorem not_posInf_lt (x : EInt) : ¬ EInt.posInf < x := by cases x <;> exact fun h => h
@[simp] theorem negInf_le (x : EInt) : EInt.negInf ≤ x := by cases x <;> trivial
@[simp] theorem le_posInf (x : EInt) : x ≤ EInt.posInf := by cases x <;> trivial
@[simp] theorem not_fin_le_negInf (a : Int) : ¬ EInt.fin a ≤ EInt.negInf := fun h => h
@[simp] theorem not_posInf_le_fin (a : Int) : ¬ EInt.posInf ≤ EInt.fin a := fun h => h
@[simp] theorem not_posInf_le_negInf : ¬ EInt.posInf ≤ EInt.negInf := fun h => h

/-! `EInt` is a linear order -/

protected theorem lt_irrefl (x : EInt) : ¬ x < x := by
  cases x <;> simp

protected theorem lt_trans {x y z : EInt} : x < y → y < z → x < z := by
  cases x <;> cases y <;> cases z <;> simp <;> omega

protected theorem lt_asymm {x y : EInt} : x < y → ¬ y < x := by
  cases x <;> cases y <;> simp <;> omega

protected theorem le_refl (x : EInt) : x ≤ x := by
  cases x <;> simp

protected theorem le_trans {x y z : EInt} : x ≤ y → y ≤ z → x ≤ z := by
  cases x <;> cases y <;> cases z <;> simp <;> omega

protected theorem le_antisymm {x y : EInt} : x ≤ y → y ≤ x → x = y := by
  cases x <;> cases y <;> simp <;> omega

protected theorem le_total (x y : EInt) : x ≤ y ∨ y ≤ x := by
  cases x <;> cases y <;> simp <;> omega

protected theorem not_lt {x y : EInt} : ¬ x < y ↔ y ≤ x := by
  cases x <;> cases y <;> simp

protected theorem not_le {x y : EInt} : ¬ x ≤ y ↔ y < x := by
  cases x <;> cases y <;> simp

protected theorem le_iff_lt_or_eq {x y : EInt} : x ≤ y ↔ x < y ∨ x = y := by
  cases x <;> cases y <;> simp <;> omega

protected theorem lt_iff_le_and_ne {x y : EInt} : x < y ↔ x ≤ y ∧ x ≠ y := by
  cases x <;> cases y <;> simp <;> omega

protected theorem lt_of_lt_of_le {x y z : EInt} : x < y → y ≤ z → x < z := by
  cases x <;> cases y <;> cases z <;> simp <;> omega

protected theorem lt_of_le_of_lt {x y z : EInt} : x ≤ y → y < z → x < z := by
  cases x <;> cases y <;> cases z <;> simp <;> omega

/-- the integer `n`, as a value scaled by `2^1074` -/
def ofInt (n : Int) : EInt := .fin (n * 2 ^ 1074)

theorem ofInt_lt_ofInt (a b : Int) : ofInt a < ofInt b ↔ a < b := by
  have h : (0 : Int) < 2 ^ 1074 := Int.pow_pos (by decide)
  simp only [ofInt, fin_lt_fin]
  exact ⟨fun hlt => Int.lt_of_mul_lt_mul_right hlt (Int.le_of_lt h), fun hlt => Int.mul_lt_mul_of_pos_right hlt h⟩

theorem ofInt_le_ofInt (a b : Int) : ofInt a ≤ ofInt b ↔ a ≤ b := by
  have h : (0 : Int) < 2 ^ 1074 := Int.pow_pos (by decide)
  simp only [ofInt, fin_le_fin]
  exact ⟨fun hle => Int.le_of_mul_le_mul_right hle h, fun hle => Int.mul_le_mul_of_nonneg_right hle (Int.le_of_lt h)⟩

@[simp] theorem negInf_lt_ofInt (n : Int) : EInt.negInf < ofInt n := trivial
@[simp] theorem ofInt_lt_posInf (n : Int) : ofInt n < EInt.posInf := trivial
@[simp] theorem not_ofInt_le_negInf (n : Int) : ¬ ofInt n ≤ EInt.negInf := fun h => h
@[simp] theorem not_posInf_le_ofInt (n : Int) : ¬ EInt.posInf ≤ ofInt n := fun h => h

end EInt

/-! ## The embedding -/

/-- `(±m·2^e) · 2^1074` as an integer.  For `e ≥ -1074` (all canonical values) the exponent
`e + 1074` is non-negative, `toNat` is exact (`toNat_shift`) and this is the exact scaled value. -/
def num (neg : Bool) (m : Nat) (e : Int) : Int :=
  (if neg then -(m : Int) else (m : Int)) * 2 ^ (e + 1074).toNat

/-- no truncation in `num` on canonical exponents -/
theorem toNat_shift {e : Int} (h : -1074 ≤ e) : (((e + 1074).toNat : Nat) : Int) = e + 1074 := by
  omega

/-- `num` depends only on the represented value `±m·2^e`, not on the (mantissa, exponent) pair:
`(m·2^k)·2^e` and `m·2^(e+k)` have the same image. -/
theorem num_shift (s : Bool) (m k : Nat) {e : Int} (h : -1074 ≤ e) :
    num s (m * 2 ^ k) e = num s m (e + k) := by
  have hsplit : (e + (k : Int) + 1074).toNat = k + (e + 1074).toNat := by omega
  unfold num
  rw [hsplit, Int.pow_add, Int.natCast_mul, Int.natCast_pow, show ((2 : Nat) : Int) = 2 from rfl]
  cases s <;> simp [Int.mul_assoc, Int.neg_mul]

/-- sign symmetry: `num` of `-x` is `-num x` -/
theorem num_not (s : Bool) (m : Nat) (e : Int) : num (!s) m e = -num s m e := by
  cases s <;> simp [num, Int.neg_mul]

/-- non-negative sign bit gives a non-negative image, which is `0` only for `m = 0` -/
theorem num_false_pos {m : Nat} (e : Int) (hm : 0 < m) : 0 < num false m e := by
  simp only [num, Bool.false_eq_true, if_false]
  exact Int.mul_pos (by omega) (Int.pow_pos (by decide))

/-- the extended integer `value x · 2^1074` of a binary64 number.  NaN is not a number: its image
is a placeholder, every statement below excludes NaN explicitly. -/
def ext : F64 → EInt
  | .nan => .fin 0
  | .inf true => .negInf
  | .inf false => .posInf
  | .fin neg m e => .fin (num neg m e)

/-! ## Constants -/

theorem isF64_one : IsF64 one := by
  simp only [IsF64, Canon, one]; omega

theorem isF64_neg_one : IsF64 (neg one) := by
  simp only [IsF64, Canon, one, neg]; omega

theorem isF64_zero (s : Bool) : IsF64 (zero s) :=
  ⟨by decide, by decide, by decide, Or.inr rfl⟩

theorem isF64_neg {x : F64} (h : IsF64 x) : IsF64 (neg x) := by
  cases x <;> simp [neg, IsF64] <;> exact h

theorem num_one : num false (2 ^ 52) (-52) = 2 ^ 1074 := by
  have h : ((-52 : Int) + 1074).toNat = 1022 := by decide
  simp only [num, h, Bool.false_eq_true, if_false]
  rw [Int.natCast_pow, show ((2 : Nat) : Int) = 2 from rfl, ← Int.pow_add]

/-- `1.0 ↦ 2^1074` -/
theorem ext_one : ext one = EInt.fin (2 ^ 1074) := by
  simp only [ext, one, num_one]

/-- `-1.0 ↦ -2^1074` -/
theorem ext_neg_one : ext (neg one) = EInt.fin (-(2 ^ 1074)) := by
  have h : ((-52 : Int) + 1074).toNat = 1022 := by decide
  simp only [ext, one, neg, num, h, Bool.not_false, if_true]
  rw [Int.natCast_pow, show ((2 : Nat) : Int) = 2 from rfl, Int.neg_mul, ← Int.pow_add]

/-- `+0` and `-0` both `↦ 0` -/
theorem ext_zero (s : Bool) : ext (zero s) = EInt.fin 0 := by
  cases s <;> simp [ext, zero, num]

theorem ext_one_eq_ofInt : ext one = EInt.ofInt 1 := by
  rw [ext_one, EInt.ofInt, Int.one_mul]

theorem ext_neg_one_eq_ofInt : ext (neg one) = EInt.ofInt (-1) := by
  rw [ext_neg_one, EInt.ofInt, Int.neg_mul, Int.one_mul]

theorem ext_zero_eq_ofInt (s : Bool) : ext (zero s) = EInt.ofInt 0 := by
  rw [ext_zero, EInt.ofInt, Int.zero_mul]

theorem ext_inf_neg : ext (.inf true) = EInt.negInf := rfl
theorem ext_inf_pos : ext (.inf false) = EInt.posInf := rfl

/-! ## `scaled` at any common exponent is `num` divided by a positive power of two -/

/-- For ANY alignment exponent `k` with `-1074 ≤ k ≤ em`, the aligned numerator used by `lt`/`le`
times `2^(k+1074)` is `num`. -/
theorem scaled_mul (s : Bool) (m : Nat) (em k : Int) (hk : -1074 ≤ k) (hke : k ≤ em) :
    scaled s m em k * 2 ^ (k + 1074).toNat = num s m em := by
  have hsplit : (em + 1074).toNat = (em - k).toNat + (k + 1074).toNat := by omega
  unfold scaled num
  rw [hsplit, Int.pow_add, Int.natCast_mul, Int.natCast_pow]
  cases s <;> simp [Int.mul_assoc, Int.neg_mul]

theorem pow_shift_pos (k : Int) : (0 : Int) < 2 ^ (k + 1074).toNat := Int.pow_pos (by decide)

/-- cross-multiplication: comparing at any common exponent `k ≥ -1074` below both operands'
exponents is the same as comparing the `2^1074`-scaled integers -/
theorem scaled_lt_iff (s₁ s₂ : Bool) (m₁ m₂ : Nat) (e₁ e₂ k : Int)
    (hk : -1074 ≤ k) (h₁ : k ≤ e₁) (h₂ : k ≤ e₂) :
    scaled s₁ m₁ e₁ k < scaled s₂ m₂ e₂ k ↔ num s₁ m₁ e₁ < num s₂ m₂ e₂ := by
  rw [← scaled_mul s₁ m₁ e₁ k hk h₁, ← scaled_mul s₂ m₂ e₂ k hk h₂]
  have hp := pow_shift_pos k
  exact ⟨fun h => Int.mul_lt_mul_of_pos_right h hp,
         fun h => Int.lt_of_mul_lt_mul_right h (Int.le_of_lt hp)⟩

theorem scaled_le_iff (s₁ s₂ : Bool) (m₁ m₂ : Nat) (e₁ e₂ k : Int)
    (hk : -1074 ≤ k) (h₁ : k ≤ e₁) (h₂ : k ≤ e₂) :
    scaled s₁ m₁ e₁ k ≤ scaled s₂ m₂ e₂ k ↔ num s₁ m₁ e₁ ≤ num s₂ m₂ e₂ := by
  rw [← scaled_mul s₁ m₁ e₁ k hk h₁, ← scaled_mul s₂ m₂ e₂ k hk h₂]
  have hp := pow_shift_pos k
  exact ⟨fun h => Int.mul_le_mul_of_nonneg_right h (Int.le_of_lt hp),
         fun h => Int.le_of_mul_le_mul_right h hp⟩

/-! ## The comparisons mean the mathematical order -/

/-- IEEE `<` on canonical binary64 values is the strict order of the represented extended reals
(and false exactly when an operand is NaN). -/
theorem lt_iff {a b : F64} (ha : IsF64 a) (hb : IsF64 b) :
    F64.lt a b = true ↔ a ≠ .nan ∧ b ≠ .nan ∧ ext a < ext b := by
  cases a with
  | nan => simp [lt]
  | inf n1 =>
    cases b with
    | nan => simp [lt]
    | inf n2 => cases n1 <;> cases n2 <;> simp [lt, ext]
    | fin n2 m2 e2 => cases n1 <;> simp [lt, ext]
  | fin n1 m1 e1 =>
    cases b with
    | nan => simp [lt]
    | inf n2 => cases n2 <;> simp [lt, ext]
    | fin n2 m2 e2 =>
      have h1 : -1074 ≤ e1 := ha.2.1
      have h2 : -1074 ≤ e2 := hb.2.1
      simp only [lt, ext, decide_eq_true_eq, ne_eq, reduceCtorEq, not_false_eq_true, true_and,
        EInt.fin_lt_fin]
      apply scaled_lt_iff <;> split <;> omega

/-- IEEE `<=` on canonical binary64 values is the order of the represented extended reals
(and false exactly when an operand is NaN). -/
theorem le_iff {a b : F64} (ha : IsF64 a) (hb : IsF64 b) :
    F64.le a b = true ↔ a ≠ .nan ∧ b ≠ .nan ∧ ext a ≤ ext b := by
  cases a with
  | nan => simp [le]
  | inf n1 =>
    cases b with
    | nan => simp [le]
    | inf n2 => cases n1 <;> cases n2 <;> simp [le, ext]
    | fin n2 m2 e2 => cases n1 <;> simp [le, ext]
  | fin n1 m1 e1 =>
    cases b with
    | nan => simp [le]
    | inf n2 => cases n2 <;> simp [le, ext]
    | fin n2 m2 e2 =>
      have h1 : -1074 ≤ e1 := ha.2.1
      have h2 : -1074 ≤ e2 := hb.2.1
      simp only [le, ext, decide_eq_true_eq, ne_eq, reduceCtorEq, not_false_eq_true, true_and,
        EInt.fin_le_fin]
      apply scaled_le_iff <;> split <;> omega

/-- `IsF64` cannot be dropped: below exponent `-1074` (never produced by decoding 64 bits) the
`2^1074`-scaled value is no longer an integer and `num` truncates. -/
example : F64.lt (.fin false 1 (-2000)) (.fin false 1 (-1999)) = true ∧
    ¬ ext (.fin false 1 (-2000)) < ext (.fin false 1 (-1999)) := by decide +kernel

/-- for numbers: `lt` is exactly `<` of the images -/
theorem lt_iff_ext {a b : F64} (ha : IsF64 a) (hb : IsF64 b) (na : a ≠ .nan) (nb : b ≠ .nan) :
    F64.lt a b = true ↔ ext a < ext b := by
  rw [lt_iff ha hb]; exact ⟨fun h => h.2.2, fun h => ⟨na, nb, h⟩⟩

theorem le_iff_ext {a b : F64} (ha : IsF64 a) (hb : IsF64 b) (na : a ≠ .nan) (nb : b ≠ .nan) :
    F64.le a b = true ↔ ext a ≤ ext b := by
  rw [le_iff ha hb]; exact ⟨fun h => h.2.2, fun h => ⟨na, nb, h⟩⟩

/-- for numbers: `!(a < b)` is `b ≤ a` -/
theorem lt_eq_false_iff {a b : F64} (ha : IsF64 a) (hb : IsF64 b) (na : a ≠ .nan) (nb : b ≠ .nan) :
    F64.lt a b = false ↔ ext b ≤ ext a := by
  rw [← EInt.not_lt, ← lt_iff_ext ha hb na nb]; simp

/-! ## Order laws of the IEEE comparisons on numbers (corollaries of the embedding) -/

theorem lt_irrefl (a : F64) (ha : IsF64 a) : F64.lt a a = false := by
  cases h : F64.lt a a
  · rfl
  · exact absurd ((lt_iff ha ha).1 h).2.2 (EInt.lt_irrefl _)

theorem lt_asymm {a b : F64} (ha : IsF64 a) (hb : IsF64 b) (h : F64.lt a b = true) :
    F64.lt b a = false := by
  cases h' : F64.lt b a
  · rfl
  · exact absurd ((lt_iff hb ha).1 h').2.2 (EInt.lt_asymm ((lt_iff ha hb).1 h).2.2)

theorem lt_trans {a b c : F64} (ha : IsF64 a) (hb : IsF64 b) (hc : IsF64 c)
    (h₁ : F64.lt a b = true) (h₂ : F64.lt b c = true) : F64.lt a c = true := by
  have ⟨na, _, l₁⟩ := (lt_iff ha hb).1 h₁
  have ⟨_, nc, l₂⟩ := (lt_iff hb hc).1 h₂
  exact (lt_iff ha hc).2 ⟨na, nc, EInt.lt_trans l₁ l₂⟩

theorem le_refl {a : F64} (ha : IsF64 a) (na : a ≠ .nan) : F64.le a a = true :=
  (le_iff ha ha).2 ⟨na, na, EInt.le_refl _⟩

theorem le_trans {a b c : F64} (ha : IsF64 a) (hb : IsF64 b) (hc : IsF64 c)
    (h₁ : F64.le a b = true) (h₂ : F64.le b c = true) : F64.le a c = true := by
  have ⟨na, _, l₁⟩ := (le_iff ha hb).1 h₁
  have ⟨_, nc, l₂⟩ := (le_iff hb hc).1 h₂
  exact (le_iff ha hc).2 ⟨na, nc, EInt.le_trans l₁ l₂⟩

theorem lt_of_lt_of_le {a b c : F64} (ha : IsF64 a) (hb : IsF64 b) (hc : IsF64 c)
    (h₁ : F64.lt a b = true) (h₂ : F64.le b c = true) : F64.lt a c = true := by
  have ⟨na, _, l₁⟩ := (lt_iff ha hb).1 h₁
  have ⟨_, nc, l₂⟩ := (le_iff hb hc).1 h₂
  exact (lt_iff ha hc).2 ⟨na, nc, EInt.lt_of_lt_of_le l₁ l₂⟩

theorem lt_of_le_of_lt {a b c : F64} (ha : IsF64 a) (hb : IsF64 b) (hc : IsF64 c)
    (h₁ : F64.le a b = true) (h₂ : F64.lt b c = true) : F64.lt a c = true := by
  have ⟨na, _, l₁⟩ := (le_iff ha hb).1 h₁
  have ⟨_, nc, l₂⟩ := (lt_iff hb hc).1 h₂
  exact (lt_iff ha hc).2 ⟨na, nc, EInt.lt_of_le_of_lt l₁ l₂⟩

theorem le_total {a b : F64} (ha : IsF64 a) (hb : IsF64 b) (na : a ≠ .nan) (nb : b ≠ .nan) :
    F64.le a b = true ∨ F64.le b a = true := by
  rw [le_iff_ext ha hb na nb, le_iff_ext hb ha nb na]; exact EInt.le_total _ _

/-- for numbers, `a < b` is the negation of `b ≤ a` (fails for NaN, where both are false) -/
theorem lt_iff_not_le {a b : F64} (ha : IsF64 a) (hb : IsF64 b) (na : a ≠ .nan) (nb : b ≠ .nan) :
    F64.lt a b = true ↔ F64.le b a = false := by
  rw [lt_iff_ext ha hb na nb, ← EInt.not_le, ← le_iff_ext hb ha nb na]; simp

/-- `a ≤ b` iff `a < b` or both denote the same extended real (`+0`/`-0` are identified) -/
theorem le_iff_lt_or_ext_eq {a b : F64} (ha : IsF64 a) (hb : IsF64 b) (na : a ≠ .nan)
    (nb : b ≠ .nan) : F64.le a b = true ↔ (F64.lt a b = true ∨ ext a = ext b) := by
  rw [le_iff_ext ha hb na nb, lt_iff_ext ha hb na nb]; exact EInt.le_iff_lt_or_eq

theorem lt_le {a b : F64} (ha : IsF64 a) (hb : IsF64 b) (h : F64.lt a b = true) :
    F64.le a b = true := by
  have ⟨na, nb, l⟩ := (lt_iff ha hb).1 h
  exact (le_iff ha hb).2 ⟨na, nb, EInt.le_iff_lt_or_eq.2 (Or.inl l)⟩

/-- NaN compares false with everything -/
theorem lt_nan_left (x : F64) : F64.lt .nan x = false := by cases x <;> rfl
theorem lt_nan_right (x : F64) : F64.lt x .nan = false := by cases x <;> rfl
theorem le_nan_left (x : F64) : F64.le .nan x = false := by cases x <;> rfl
theorem le_nan_right (x : F64) : F64.le x .nan = false := by cases x <;> rfl

end F64
end Garr
