import Garr.Adder.SumBounds
/-!
# C09 for unit increments: a concurrent `Sum` of the striped adder is linearizable as an atomic read

`Garr/Adder/SumBounds.lean` proves that a `Sum` racing with updates returns the wrapped total of a
duplicate-free set `counted` of updates with `must ⊆ counted ⊆ lped-at-the-response`, `must` = the updates
linearized when the `Sum` was invoked.  Here we add the step the breaker models rely on
(`Garr/Breaker/Conc.lean`, `Garr/Breaker/Fine.lean`: "the buckets receive unit increments only; for those a
striped `Sum` is equivalent to an atomic read, because the exact total passes through every integer
between the bounds"):

* *instants* are literal run prefixes: `cfgAt M s k` / `logAt M s k` are the configuration / the log after
  the first `k` entries of the schedule `s` (`s.take k`), for both the instrumented machine `MG mc` and the
  plain machine `M intAlg mc` (`proj_cfgAt`, `proj_logAt`: the former projects onto the latter);
* the *exact abstract total* at an instant is `tot c = Σ xOf u, u ∈ lped` (`tot`), which is the ghost field
  `applied` of the heap (`applied_eq_tot`), hence `base + Σ cells` (`total_conserved`, from `conservation`),
  and, when every operand is `1`, the number of linearized updates (`tot_unit`);
* one step changes the total by the operand of the (at most one) linearization point it emits (`tot_step`,
  `StepLp`); so with operands `≤ 1` it grows by at most `1` per step (`tot_succ_le`), with operands `≥ 0`
  it never decreases (`tot_mono`);
* a `Sum` *span* `SumSpanG mc s t i j r counted must` (instrumented) / `SumSpan mc s t i j r` (plain):
  entry `i` of the schedule is `t`'s invocation of `Sum`, taken while `t` is idle; `t` is inside the
  operation at every instant in `(i, j]`; entry `j` is a step of `t` that emits the response `r`.
  `span_must`: the ghost `must` of the response is `lped` at instant `i`; `span_iff`: the two notions agree;
  coverage: every value-carrying response is logged by an identified position (`mem_run_log`) and closes
  exactly one span (`span_exists`, `span_exists_plain`, `span_unique`);
* `sum_between` (operands `≥ 0`): `r = wrap64 n` with `tot-at-i ≤ n ≤ tot-at-j`;
  `sum_card` (operands `= 1`): the same with cardinalities, `n = counted.length`;
* discrete intermediate value (`discrete_ivt`) ⇒ `sum_instant` (operands in `{0, 1}`), `sum_instant_unit`:
  there is an instant `k`, `i < k ≤ j`, at which the exact total is `n`;
* the same on the plain machine, with no ghost in the statement: `sum_atomic` / `sum_atomic_unit`
  (the response is the value `ctrOf` of an abstract atomic int64 counter, replayed from the
  linearization-point markers of the log prefix, read at instant `k`); `sum_reads_monotone` (non-overlapping
  `Sum`s -- in particular two `Sum`s of the same thread, `same_thread_disjoint` -- read at ordered instants,
  the second counts a superset (`sum_monotone`) and returns at least as much);
* `spanB` / `respB` (`spanB_sound`), `noMaint_of_all`, `opsP_of_all`, `forall_instants`: executable checkers for
  the kernel-checked examples of `Garr/Props/C09Unit.lean`.
-/
namespace Garr.Adder.UnitSum
open Garr Garr.Conc Garr.Adder

-- `(MG mc).Act` / `(M intAlg mc).Act` are `Act` (etc.) only after unfolding `MG` / `M`
set_option backward.isDefEq.respectTransparency false

/-! ## Run prefixes (any machine) -/

section Prefix
variable {M : Machine}

theorem run_append (c : Config M) (s1 s2 : List (Tid × M.Act)) :
    run M c (s1 ++ s2) = ((run M (run M c s1).1 s2).1, (run M c s1).2 ++ (run M (run M c s1).1 s2).2) := by
  induction s1 generalizing c with
  | nil => simp [run]
  | cons ta rest ih =>
    obtain ⟨t, a⟩ := ta
    cases h : M.step t c.g (c.l t) a with
    | none => simp only [List.cons_append, run_cons_none h]; exact ih c
    | some r =>
      obtain ⟨g', l', obs⟩ := r
      simp only [List.cons_append, run_cons_some h, ih, List.append_assoc]

/-- the configuration after the first `k` entries of the schedule `s` ("instant `k`") -/
def cfgAt (M : Machine) (s : List (Tid × M.Act)) (k : Nat) : Config M :=
  (run M (Config.init M) (s.take k)).1

/-- the observation log after the first `k` entries of the schedule `s` -/
def logAt (M : Machine) (s : List (Tid × M.Act)) (k : Nat) : List (Tid × M.Obs) :=
  (run M (Config.init M) (s.take k)).2

theorem cfgAt_zero (s : List (Tid × M.Act)) : cfgAt M s 0 = Config.init M := rfl

theorem reach_cfgAt (s : List (Tid × M.Act)) (k : Nat) : Reach M (cfgAt M s k) :=
  reach_run M _ Reach.init _

/-- from instant `k` on, the rest of the schedule is run from `cfgAt M s k` -/
theorem cfgAt_add (s : List (Tid × M.Act)) (k d : Nat) :
    cfgAt M s (k + d) = (run M (cfgAt M s k) ((s.drop k).take d)).1 := by
  unfold cfgAt
  rw [List.take_add, run_append]

theorem cfgAt_length (s : List (Tid × M.Act)) {k : Nat} (h : s.length ≤ k) :
    cfgAt M s k = (run M (Config.init M) s).1 := by
  unfold cfgAt; rw [List.take_of_length_le h]

theorem logAt_length (s : List (Tid × M.Act)) {k : Nat} (h : s.length ≤ k) :
    logAt M s k = (run M (Config.init M) s).2 := by
  unfold logAt; rw [List.take_of_length_le h]

/-- beyond the end of the schedule nothing happens -/
theorem cfgAt_succ_end {s : List (Tid × M.Act)} {k : Nat} (h : s[k]? = none) :
    cfgAt M s (k + 1) = cfgAt M s k ∧ logAt M s (k + 1) = logAt M s k := by
  unfold cfgAt logAt
  rw [List.take_add_one, h]
  simp

/-- a disabled entry is skipped -/
theorem cfgAt_succ_none {s : List (Tid × M.Act)} {k : Nat} {t : Tid} {a : M.Act} (h : s[k]? = some (t, a))
    (hn : M.step t (cfgAt M s k).g ((cfgAt M s k).l t) a = none) :
    cfgAt M s (k + 1) = cfgAt M s k ∧ logAt M s (k + 1) = logAt M s k := by
  have e : s.take (k + 1) = s.take k ++ [(t, a)] := by rw [List.take_add_one, h]; rfl
  have hn' : M.step t (run M (Config.init M) (s.take k)).1.g ((run M (Config.init M) (s.take k)).1.l t) a = none := hn
  unfold cfgAt logAt
  rw [e, run_append, run_cons_none hn']
  simp [run]

/-- an enabled entry is executed -/
theorem cfgAt_succ_some {s : List (Tid × M.Act)} {k : Nat} {t : Tid} {a : M.Act} (h : s[k]? = some (t, a))
    {g' : M.G} {l' : M.L} {obs : List M.Obs}
    (hs : M.step t (cfgAt M s k).g ((cfgAt M s k).l t) a = some (g', l', obs)) :
    cfgAt M s (k + 1) = ⟨g', upd (cfgAt M s k).l t l'⟩ ∧
    logAt M s (k + 1) = logAt M s k ++ obs.map (fun o => (t, o)) := by
  have e : s.take (k + 1) = s.take k ++ [(t, a)] := by rw [List.take_add_one, h]; rfl
  have hs' : M.step t (run M (Config.init M) (s.take k)).1.g ((run M (Config.init M) (s.take k)).1.l t) a =
      some (g', l', obs) := hs
  unfold cfgAt logAt
  rw [e, run_append, run_cons_some hs']
  simp [run]

/-- a property of (configuration, log) that holds at every instant up to the end of the schedule holds at
    every instant -/
theorem forall_instants {s : List (Tid × M.Act)} (P : Config M → List (Tid × M.Obs) → Prop)
    (h : ∀ k, k < s.length + 1 → P (cfgAt M s k) (logAt M s k)) : ∀ k, P (cfgAt M s k) (logAt M s k) := by
  intro k
  by_cases hk : k < s.length + 1
  · exact h k hk
  · rw [cfgAt_length s (by omega), logAt_length s (by omega), ← cfgAt_length s (Nat.le_refl _),
      ← logAt_length s (Nat.le_refl _)]
    exact h _ (Nat.lt_succ_self _)

/-- entry `k` of the schedule is `(t, a)`, it is enabled at instant `k` and its effect is `(g', l', obs)` -/
def StepAt (M : Machine) (s : List (Tid × M.Act)) (k : Nat) (t : Tid) (a : M.Act) (g' : M.G) (l' : M.L)
    (obs : List M.Obs) : Prop :=
  s[k]? = some (t, a) ∧ M.step t (cfgAt M s k).g ((cfgAt M s k).l t) a = some (g', l', obs)

/-- every logged observation was emitted by an enabled entry of the schedule, at an identified position -/
theorem mem_logAt {s : List (Tid × M.Act)} {k : Nat} {t : Tid} {o : M.Obs} (h : (t, o) ∈ logAt M s k) :
    ∃ j a g' l' obs, j < k ∧ StepAt M s j t a g' l' obs ∧ o ∈ obs := by
  induction k with
  | zero => cases h
  | succ k ih =>
    have lift : (∃ j a g' l' obs, j < k ∧ StepAt M s j t a g' l' obs ∧ o ∈ obs) →
        ∃ j a g' l' obs, j < k + 1 ∧ StepAt M s j t a g' l' obs ∧ o ∈ obs := by
      rintro ⟨j, a, g', l', obs, h1, h2⟩
      exact ⟨j, a, g', l', obs, by omega, h2⟩
    cases hk : s[k]? with
    | none => rw [(cfgAt_succ_end hk).2] at h; exact lift (ih h)
    | some ta =>
      obtain ⟨t', a'⟩ := ta
      cases hstep : M.step t' (cfgAt M s k).g ((cfgAt M s k).l t') a' with
      | none => rw [(cfgAt_succ_none hk hstep).2] at h; exact lift (ih h)
      | some R =>
        obtain ⟨g', l', obs⟩ := R
        rw [(cfgAt_succ_some hk hstep).2] at h
        rcases List.mem_append.1 h with h | h
        · exact lift (ih h)
        · obtain ⟨o', ho', e⟩ := List.mem_map.1 h
          cases e
          exact ⟨k, a', g', l', obs, Nat.lt_succ_self _, ⟨hk, hstep⟩, ho'⟩

/-- ... in particular every observation in the log of the whole run -/
theorem mem_run_log {s : List (Tid × M.Act)} {t : Tid} {o : M.Obs} (h : (t, o) ∈ (run M (Config.init M) s).2) :
    ∃ j a g' l' obs, j < s.length ∧ StepAt M s j t a g' l' obs ∧ o ∈ obs := by
  rw [← logAt_length s (Nat.le_refl _)] at h
  exact mem_logAt h

/-- a property of configurations that every step of the schedule preserves or increases along `≤`-chains:
    the generic induction over instants -/
theorem cfgAt_le_induction {s : List (Tid × M.Act)} (R : Config M → Config M → Prop)
    (hrefl : ∀ c, R c c) (htrans : ∀ a b c, R a b → R b c → R a c)
    (hstep : ∀ k, R (cfgAt M s k) (cfgAt M s (k + 1))) {k k' : Nat} (h : k ≤ k') :
    R (cfgAt M s k) (cfgAt M s k') := by
  induction k' with
  | zero =>
    have : k = 0 := by omega
    subst this; exact hrefl _
  | succ n ih =>
    by_cases hk : k = n + 1
    · subst hk; exact hrefl _
    · exact htrans _ _ _ (ih (by omega)) (hstep n)

end Prefix

/-! ## One step of the instrumented machine: linearized updates and the exact total -/

section Step
variable {mc : Nat}

/-- **the exact abstract total** of an instrumented configuration: the sum of the operands of the updates
    whose linearization point has occurred -/
def tot (c : Config (MG mc)) : Int := lsum (ghostOf c).xOf (ghostOf c).lped

/-- number of linearization-point markers in an observation list -/
def nLp : List Obs → Nat
  | [] => 0
  | .lp _ :: r => nLp r + 1
  | .ret _ :: r => nLp r

theorem lpSum_append (a b : List Obs) : lpSum (a ++ b) = lpSum a + lpSum b := by
  induction a with
  | nil => simp [lpSum]
  | cons o r ih => cases o <;> simp [lpSum, ih]; omega

theorem nLp_append (a b : List Obs) : nLp (a ++ b) = nLp a + nLp b := by
  induction a with
  | nil => simp [nLp]
  | cons o r ih => cases o <;> simp [nLp, ih]; omega

/-- what a step does to `lped`: nothing (and it emits no linearization point), or exactly one fresh,
    already allocated update is linearized (and the step emits exactly one marker, carrying its operand) -/
inductive StepLp (gh gh' : Ghost) (obs : List Obs) : Prop
  | silent : gh'.lped = gh.lped → lpSum obs = 0 → nLp obs = 0 → StepLp gh gh' obs
  | lp (u : Nat) : gh'.lped = u :: gh.lped → u ∉ gh.lped → u < gh.nupd → lpSum obs = gh.xOf u → nLp obs = 1 →
      StepLp gh gh' obs

theorem ghostG_lped_silent (g : G) (gh : Ghost) (l : L) (lg : LGhost) (a : Act) (obs : List Obs)
    (h : obs.any isLp = false) : (ghostG g gh l lg a obs).lped = gh.lped := by
  unfold ghostG
  cases l with
  | idle => cases a <;> rfl
  | run pc v =>
    cases lg with
    | none => rfl
    | sum _ _ => rfl
    | upd u =>
      simp only [h, Bool.false_eq_true, if_false]
      split <;> rfl

theorem stepLp_run {t : Tid} {g : G} {gh : Ghost} {pc : PC} {v : V} {lg : LGhost} {w : Nat}
    {g' : G} {l' : L} {obs : List Obs} (a : Act) (hGh : GhInv g gh) (hT : TInv g gh (.run pc v) lg)
    (hs : stepRun intAlg mc t g pc v w = (g', l', obs)) : StepLp gh (ghostG g gh (.run pc v) lg a obs) obs := by
  cases hp : preLP pc
  · rcases stepRun_obs hs with ⟨rfl, _⟩ | ⟨_, _, hpc⟩ | ⟨_, hpc⟩ | ⟨r, rfl, _⟩
    · exact .silent (ghostG_lped_silent _ _ _ _ _ _ rfl) rfl rfl
    · rcases hpc with rfl | rfl | rfl | rfl <;> cases hp
    · rcases hpc with ⟨rfl, _⟩ | ⟨rfl, _⟩ <;> cases hp
    · exact .silent (ghostG_lped_silent _ _ _ _ _ _ rfl) rfl rfl
  · obtain ⟨u, rfl, hu, hn, hx⟩ := hT.2.1 hp
    have hnot : u ∉ gh.lped := fun h => (hGh.lped_iff u).1 h hn
    rcases add_pre_step hp hs with ⟨rfl, _⟩ | ⟨rfl, _⟩ | ⟨rfl, _⟩
    · exact .silent rfl rfl rfl
    · rw [ghostG_upd_lpret]
      exact .lp u rfl hnot hu (by simp [lpSum, hx]) rfl
    · rw [ghostG_upd_lp]
      exact .lp u rfl hnot hu (by simp [lpSum, hx]) rfl

theorem stepLp_raw {t : Tid} {g : G} {gh : Ghost} {l : L} {lg : LGhost} {a : Act}
    {g' : G} {l' : L} {obs : List Obs} (hGh : GhInv g gh) (hT : TInv g gh l lg)
    (hst : step intAlg mc t g l a = some (g', l', obs)) : StepLp gh (ghostG g gh l lg a obs) obs := by
  cases l <;> cases a <;> simp only [step] at hst <;> try contradiction
  case idle.add x =>
    split at hst; · cases hst
    cases hst; exact .silent rfl rfl rfl
  case idle.sum =>
    split at hst; · cases hst
    cases hst; exact .silent rfl rfl rfl
  case idle.store x => split at hst <;> cases hst; exact .silent rfl rfl rfl
  case idle.reset => split at hst <;> cases hst; exact .silent rfl rfl rfl
  case idle.sumAndReset => split at hst <;> cases hst; exact .silent rfl rfl rfl
  case run.tau pc v =>
    split at hst; · cases hst
    simp only [Option.some.injEq] at hst
    exact stepLp_run _ hGh hT hst
  case run.rnd pc v w =>
    split at hst
    · simp only [Option.some.injEq] at hst
      exact stepLp_run _ hGh hT hst
    · cases hst

/-- **one step, one linearization point at most** (instrumented machine, reachable configurations) -/
theorem step_lp {c : Config (MG mc)} (hr : Reach (MG mc) c) {t : Tid} {a : Act}
    {G' : (MG mc).G} {L' : (MG mc).L} {obs : List (MG mc).Obs}
    (hs : (MG mc).step t c.g (c.l t) a = some (G', L', obs)) :
    StepLp (ghostOf c) (Prod.snd G') (obs.map Prod.fst) := by
  have hI := sinv_reach c hr
  obtain ⟨ha, g1, l1, obsM, hst, hR⟩ :=
    gstep_iff (g := Prod.fst c.g) (gh := Prod.snd c.g) (l := Prod.fst (c.l t)) (lg := Prod.snd (c.l t)) |>.1 hs
  have hobs : obs = obsM.map (fun o => (o, tagOf (Prod.snd c.g) (Prod.fst (c.l t)) (Prod.snd (c.l t)) a)) :=
    congrArg (fun R => R.2.2) hR
  have hgh : Prod.snd G' = ghostG (Prod.fst c.g) (Prod.snd c.g) (Prod.fst (c.l t)) (Prod.snd (c.l t)) a obsM :=
    congrArg (fun R => R.1.2) hR
  rw [hobs, hgh, map_fst_tag]
  exact stepLp_raw hI.ghinv (hI.tinv t) hst

/-- the total changes by exactly the operands of the linearization points the step emits -/
theorem tot_step {c : Config (MG mc)} (hr : Reach (MG mc) c) {t : Tid} {a : Act}
    {G' : (MG mc).G} {L' : (MG mc).L} {obs : List (MG mc).Obs}
    (hs : (MG mc).step t c.g (c.l t) a = some (G', L', obs)) :
    tot (mc := mc) ⟨G', upd c.l t L'⟩ = tot c + lpSum (obs.map Prod.fst) := by
  have hE := step_ext hr hs
  have hkeep : lsum (Prod.snd G').xOf (ghostOf c).lped = lsum (ghostOf c).xOf (ghostOf c).lped :=
    lsum_congr (fun u hu => hE.xOf_keep u ((lped_spec hr).2.2 u hu))
  show lsum (Prod.snd G').xOf (Prod.snd G').lped = _
  cases step_lp hr hs with
  | silent h1 h2 _ => rw [h1, h2, hkeep]; simp [tot]
  | lp u h1 _ h3 h4 _ =>
    rw [h1, h4]
    simp only [lsum]
    rw [hkeep, hE.xOf_keep u h3]
    simp only [tot]; omega

/-- no update is linearized twice -/
theorem lped_nodup {c : Config (MG mc)} (hr : Reach (MG mc) c) : (ghostOf c).lped.Nodup := by
  induction hr with
  | init => exact List.nodup_nil
  | @step c t a G' L' obs hr hs ih =>
    show (Prod.snd G').lped.Nodup
    cases step_lp hr hs with
    | silent h1 _ _ => rw [h1]; exact ih
    | lp u h1 h2 _ _ _ => rw [h1]; exact List.nodup_cons.2 ⟨h2, ih⟩

/-- **the exact total is the ghost field `applied` of the heap** (C02's total) -/
theorem applied_eq_tot {c : Config (MG mc)} (hr : Reach (MG mc) c) : (heapOf c).applied = tot c := by
  induction hr with
  | init => rfl
  | @step c t a G' L' obs hr hs ih =>
    rw [tot_step hr hs, ← ih]
    obtain ⟨g', gh'⟩ := G'
    obtain ⟨l', lg'⟩ := L'
    have hp : step intAlg mc t (Prod.fst c.g) (Prod.fst (c.l t)) a = some (g', l', obs.map Prod.fst) :=
      proj_step (gh := Prod.snd c.g) (lg := Prod.snd (c.l t)) hs
    exact applied_step (c := projC c) (reach_proj hr) hp ((sinv_maint hr).2 t)

/-- ... hence `base + Σ cells` (`conservation`) -/
theorem total_conserved {c : Config (MG mc)} (hr : Reach (MG mc) c) :
    (heapOf c).base + tableSum (heapOf c) = tot c := by
  rw [← applied_eq_tot hr]
  exact conservation (c := projC c) (reach_proj hr)

/-! ### Operands -/

/-- every `Add` invocation of the schedule has an operand satisfying `P` -/
def OpsP (P : Int → Prop) (s : List (Tid × Act)) : Prop := ∀ p ∈ s, ∀ x, p.2 = Act.add x → P x

/-- every allocated update has an operand satisfying `P` -/
def AllP (P : Int → Prop) (gh : Ghost) : Prop := ∀ u, u < gh.nupd → P (gh.xOf u)

/-- every `Add` of the schedule is an `Inc` -/
abbrev UnitOps (s : List (Tid × Act)) : Prop := OpsP (· = 1) s
/-- every `Add` of the schedule has operand `0` or `1` -/
abbrev ZeroOneOps (s : List (Tid × Act)) : Prop := OpsP (fun x => 0 ≤ x ∧ x ≤ 1) s
/-- every `Add` of the schedule has a non-negative operand -/
abbrev NonNegOps (s : List (Tid × Act)) : Prop := OpsP (0 ≤ ·) s

theorem OpsP.take {P : Int → Prop} {s : List (Tid × Act)} (h : OpsP P s) (k : Nat) : OpsP P (s.take k) :=
  fun p hp => h p (List.mem_of_mem_take hp)

theorem OpsP.mono {P Q : Int → Prop} {s : List (Tid × Act)} (hPQ : ∀ x, P x → Q x) (h : OpsP P s) : OpsP Q s :=
  fun p hp x hx => hPQ x (h p hp x hx)

theorem allP_ghostG {P : Int → Prop} (g : G) (gh : Ghost) (l : L) (lg : LGhost) (a : Act) (obs : List Obs)
    (h : AllP P gh) (ha : ∀ x, a = Act.add x → P x) : AllP P (ghostG g gh l lg a obs) := by
  unfold ghostG
  cases l with
  | idle =>
    cases a <;> try exact h
    rename_i x
    intro u hu
    have hu' : u < gh.nupd + 1 := hu
    show P (if u = gh.nupd then x else gh.xOf u)
    by_cases e : u = gh.nupd
    · rw [if_pos e]; exact ha x rfl
    · rw [if_neg e]; exact h u (by omega)
  | run pc v =>
    cases lg with
    | none => exact h
    | sum _ _ => exact h
    | upd u => dsimp only; split <;> split <;> exact h

theorem allP_step {P : Int → Prop} {c : Config (MG mc)} {t : Tid} {a : Act}
    {G' : (MG mc).G} {L' : (MG mc).L} {obs : List (MG mc).Obs}
    (hs : (MG mc).step t c.g (c.l t) a = some (G', L', obs))
    (h : AllP P (ghostOf c)) (ha : ∀ x, a = Act.add x → P x) : AllP P (Prod.snd G') := by
  obtain ⟨_, g1, l1, obsM, hst, hR⟩ :=
    gstep_iff (g := Prod.fst c.g) (gh := Prod.snd c.g) (l := Prod.fst (c.l t)) (lg := Prod.snd (c.l t)) |>.1 hs
  have hgh : Prod.snd G' = ghostG (Prod.fst c.g) (Prod.snd c.g) (Prod.fst (c.l t)) (Prod.snd (c.l t)) a obsM :=
    congrArg (fun R => R.1.2) hR
  rw [hgh]
  exact allP_ghostG _ _ _ _ _ _ h ha

theorem allP_run {P : Int → Prop} (s : List (Tid × (MG mc).Act)) (hs : OpsP P s) : ∀ c : Config (MG mc),
    AllP P (ghostOf c) → AllP P (ghostOf (run (MG mc) c s).1) := by
  induction s with
  | nil => intro c h; exact h
  | cons ta rest ih =>
    intro c h
    obtain ⟨t, a⟩ := ta
    have ih' := ih (fun p hp => hs p (List.mem_cons_of_mem _ hp))
    cases hstep : (MG mc).step t c.g (c.l t) a with
    | none => rw [run_cons_none hstep]; exact ih' c h
    | some R =>
      obtain ⟨G', L', obs⟩ := R
      rw [run_cons_some hstep]
      exact ih' _ (allP_step hstep h (fun x hx => hs (t, a) List.mem_cons_self x hx))

end Step

/-! ## Along a run of the instrumented machine -/

section Along
variable {mc : Nat}

/-- ghosts only grow from instant to instant -/
theorem ext_cfgAt (s : List (Tid × Act)) {k k' : Nat} (h : k ≤ k') :
    Ext (ghostOf (cfgAt (MG mc) s k)) (ghostOf (cfgAt (MG mc) s k')) := by
  obtain ⟨d, rfl⟩ : ∃ d, k' = k + d := ⟨k' - k, by omega⟩
  rw [cfgAt_add]
  exact run_ext _ _ (reach_cfgAt (M := MG mc) s k)

theorem allP_cfgAt {P : Int → Prop} {s : List (Tid × Act)} (hs : OpsP P s) (k : Nat) :
    AllP P (ghostOf (cfgAt (MG mc) s k)) :=
  allP_run (mc := mc) (s.take k) (hs.take k) (Config.init (MG mc)) (fun u hu => absurd hu (Nat.not_lt_zero u))

/-- from one instant to the next the total is unchanged, or grows by the operand of one allocated update -/
theorem tot_succ (s : List (Tid × Act)) (k : Nat) :
    tot (cfgAt (MG mc) s (k + 1)) = tot (cfgAt (MG mc) s k) ∨
    ∃ u, u < (ghostOf (cfgAt (MG mc) s k)).nupd ∧
      tot (cfgAt (MG mc) s (k + 1)) = tot (cfgAt (MG mc) s k) + (ghostOf (cfgAt (MG mc) s k)).xOf u := by
  cases hk : s[k]? with
  | none => rw [(cfgAt_succ_end (M := MG mc) hk).1]; exact Or.inl rfl
  | some ta =>
    obtain ⟨t, a⟩ := ta
    cases hstep : (MG mc).step t (cfgAt (MG mc) s k).g ((cfgAt (MG mc) s k).l t) a with
    | none => rw [(cfgAt_succ_none (M := MG mc) hk hstep).1]; exact Or.inl rfl
    | some R =>
      obtain ⟨G', L', obs⟩ := R
      have hr := reach_cfgAt (M := MG mc) s k
      rw [(cfgAt_succ_some (M := MG mc) hk hstep).1, tot_step hr hstep]
      cases step_lp hr hstep with
      | silent _ h2 _ => rw [h2]; exact Or.inl (by omega)
      | lp u _ _ h3 h4 _ => rw [h4]; exact Or.inr ⟨u, h3, rfl⟩

/-- operands `≤ 1`: the total grows by at most one per step -/
theorem tot_succ_le {s : List (Tid × Act)} (hs : OpsP (· ≤ 1) s) (k : Nat) :
    tot (cfgAt (MG mc) s (k + 1)) ≤ tot (cfgAt (MG mc) s k) + 1 := by
  rcases tot_succ (mc := mc) s k with h | ⟨u, hu, h⟩
  · omega
  · have : (ghostOf (cfgAt (MG mc) s k)).xOf u ≤ 1 := allP_cfgAt hs k u hu
    omega

/-- operands `≥ 0`: the total never decreases -/
theorem tot_succ_ge {s : List (Tid × Act)} (hs : OpsP (0 ≤ ·) s) (k : Nat) :
    tot (cfgAt (MG mc) s k) ≤ tot (cfgAt (MG mc) s (k + 1)) := by
  rcases tot_succ (mc := mc) s k with h | ⟨u, hu, h⟩
  · omega
  · have : 0 ≤ (ghostOf (cfgAt (MG mc) s k)).xOf u := allP_cfgAt hs k u hu
    omega

theorem tot_mono {s : List (Tid × Act)} (hs : OpsP (0 ≤ ·) s) {k k' : Nat} (h : k ≤ k') :
    tot (cfgAt (MG mc) s k) ≤ tot (cfgAt (MG mc) s k') :=
  cfgAt_le_induction (M := MG mc) (s := s) (fun a b => tot a ≤ tot b) (fun _ => Int.le_refl _)
    (fun _ _ _ h1 h2 => Int.le_trans h1 h2) (tot_succ_ge hs) h

theorem lsum_unit {f : Nat → Int} {l : List Nat} (h : ∀ u ∈ l, f u = 1) : lsum f l = l.length := by
  induction l with
  | nil => rfl
  | cons u us ih =>
    simp only [lsum, List.length_cons]
    rw [h u (by simp), ih (fun w hw => h w (by simp [hw]))]
    omega

/-- unit operands: the exact total is the number of linearized updates -/
theorem tot_unit {s : List (Tid × Act)} (hs : OpsP (· = 1) s) (k : Nat) :
    tot (cfgAt (MG mc) s k) = (ghostOf (cfgAt (MG mc) s k)).lped.length :=
  lsum_unit (fun u hu => allP_cfgAt hs k u ((lped_spec (reach_cfgAt (M := MG mc) s k)).2.2 u hu))

/-! ### `Sum` spans -/

/-- **A `Sum` span of the instrumented run.**  Entry `i` of the schedule is thread `t`'s invocation of `Sum`,
    met while `t` is idle; `t` is inside the operation at every instant `m`, `i < m ≤ j` (so the invocation was
    enabled, and the operation running at `j` is the one invoked at `i`); entry `j` is a step of `t` that
    emits the response `r`, tagged with the `Sum` ghosts `counted`, `must`. -/
structure SumSpanG (mc : Nat) (s : List (Tid × Act)) (t : Tid) (i j : Nat) (r : Int)
    (counted must : List Nat) : Prop where
  lt : i < j
  inv : s[i]? = some (t, Act.sum)
  idle : Prod.fst ((cfgAt (MG mc) s i).l t) = L.idle
  busy : ∀ m, i < m → m ≤ j → Prod.fst ((cfgAt (MG mc) s m).l t) ≠ L.idle
  resp : ∃ a G' L' obs, StepAt (MG mc) s j t a G' L' obs ∧ (Obs.ret (some r), LGhost.sum counted must) ∈ obs

/-- a step of an in-flight `Sum`: its ghost afterwards, and the tag of its observations -/
theorem sum_run_step {t : Tid} {g : G} {gh : Ghost} {pc : PC} {v : V} {counted must : List Nat} {a : Act}
    {G' : (MG mc).G} {L' : (MG mc).L} {obs : List (MG mc).Obs}
    (hs : (MG mc).step t (g, gh) (L.run pc v, LGhost.sum counted must) a = some (G', L', obs)) :
    Prod.snd L' = lgNext (Prod.fst L') (.sum (readHist gh pc v counted) must) ∧
    ∀ o ∈ obs, Prod.snd o = LGhost.sum (readHist gh pc v counted) must := by
  have hs' : gstep mc t (g, gh) (L.run pc v, LGhost.sum counted must) a = some (G', L', obs) := hs
  obtain ⟨_, g1, l1, obsM, _, hR⟩ := gstep_iff.1 hs'
  have h1 : L' = (l1, lgNext l1 (tagOf gh (.run pc v) (.sum counted must) a)) := congrArg (fun R => R.2.1) hR
  have h2 : obs = obsM.map (fun o => (o, tagOf gh (.run pc v) (.sum counted must) a)) :=
    congrArg (fun R => R.2.2) hR
  subst h1 h2
  refine ⟨rfl, ?_⟩
  intro o ho
  obtain ⟨o', _, rfl⟩ := List.mem_map.1 ho
  rfl

/-- inside a span, the thread carries `Sum` ghosts whose `must` is `lped` at the invocation instant -/
theorem span_inside {s : List (Tid × Act)} {t : Tid} {i j : Nat} {r : Int} {counted must : List Nat}
    (h : SumSpanG mc s t i j r counted must) : ∀ d, i + 1 + d ≤ j →
    ∃ pc v cnt, (cfgAt (MG mc) s (i + 1 + d)).l t =
      (L.run pc v, LGhost.sum cnt (ghostOf (cfgAt (MG mc) s i)).lped) := by
  intro d
  induction d with
  | zero =>
    intro hd
    have hb := h.busy (i + 1) (by omega) hd
    cases hl : (cfgAt (MG mc) s i).l t with
    | mk l0 lg0 =>
      have hidle : l0 = L.idle := by have := h.idle; rw [hl] at this; exact this
      subst hidle
      cases hstep : (MG mc).step t (cfgAt (MG mc) s i).g ((cfgAt (MG mc) s i).l t) Act.sum with
      | none =>
        rw [(cfgAt_succ_none (M := MG mc) h.inv hstep).1, hl] at hb
        exact absurd rfl hb
      | some R =>
        obtain ⟨⟨g', gh'⟩, ⟨l', lg'⟩, obs⟩ := R
        have e := (cfgAt_succ_some (M := MG mc) h.inv hstep).1
        rw [e] at hb
        simp only [upd_same] at hb
        rw [hl] at hstep
        obtain ⟨_, h2, _⟩ := sum_invoke (g := Prod.fst (cfgAt (MG mc) s i).g)
          (gh := Prod.snd (cfgAt (MG mc) s i).g) hstep
        cases l' with
        | idle => exact absurd rfl hb
        | run pc v =>
          refine ⟨pc, v, [], ?_⟩
          show (cfgAt (MG mc) s (i + 1)).l t = _
          rw [e]; simp only [upd_same]; rw [h2]
  | succ d ih =>
    intro hd
    obtain ⟨pc, v, cnt, hl⟩ := ih (by omega)
    have hb := h.busy (i + 1 + d + 1) (by omega) (by omega)
    show ∃ pc v cnt, (cfgAt (MG mc) s (i + 1 + d + 1)).l t = _
    cases hk : s[i + 1 + d]? with
    | none => rw [(cfgAt_succ_end (M := MG mc) hk).1]; exact ⟨pc, v, cnt, hl⟩
    | some ta =>
      obtain ⟨t', a'⟩ := ta
      cases hstep : (MG mc).step t' (cfgAt (MG mc) s (i + 1 + d)).g ((cfgAt (MG mc) s (i + 1 + d)).l t') a' with
      | none => rw [(cfgAt_succ_none (M := MG mc) hk hstep).1]; exact ⟨pc, v, cnt, hl⟩
      | some R =>
        obtain ⟨G', L', obs⟩ := R
        have e := (cfgAt_succ_some (M := MG mc) hk hstep).1
        rw [e] at hb ⊢
        by_cases htt : t = t'
        · subst htt
          simp only [upd_same] at hb ⊢
          rw [hl] at hstep
          obtain ⟨h1, _⟩ := sum_run_step (g := Prod.fst (cfgAt (MG mc) s (i + 1 + d)).g)
            (gh := Prod.snd (cfgAt (MG mc) s (i + 1 + d)).g) hstep
          obtain ⟨l', lg'⟩ := L'
          cases l' with
          | idle => exact absurd rfl hb
          | run pc' v' => exact ⟨pc', v', _, by rw [show lg' = _ from h1]; rfl⟩
        · simp only [upd_other _ _ _ _ htt]
          exact ⟨pc, v, cnt, hl⟩

/-- **the ghost `must` of a span's response is the list of updates linearized at the invocation instant** -/
theorem span_must {s : List (Tid × Act)} {t : Tid} {i j : Nat} {r : Int} {counted must : List Nat}
    (h : SumSpanG mc s t i j r counted must) : must = (ghostOf (cfgAt (MG mc) s i)).lped := by
  obtain ⟨pc, v, cnt, hl⟩ := span_inside h (j - (i + 1)) (by have := h.lt; omega)
  have hj : i + 1 + (j - (i + 1)) = j := by have := h.lt; omega
  rw [hj] at hl
  obtain ⟨a, G', L', obs, ⟨_, hstep⟩, ho⟩ := h.resp
  rw [hl] at hstep
  obtain ⟨_, h2⟩ := sum_run_step (g := Prod.fst (cfgAt (MG mc) s j).g) (gh := Prod.snd (cfgAt (MG mc) s j).g) hstep
  have := h2 _ ho
  cases this
  rfl

/-! ### Coverage: every `Sum` response closes a span -/

/-- a step of an in-flight `Add`: its ghost afterwards, and the tag of its observations -/
theorem upd_run_step {t : Tid} {g : G} {gh : Ghost} {pc : PC} {v : V} {u : Nat} {a : Act}
    {G' : (MG mc).G} {L' : (MG mc).L} {obs : List (MG mc).Obs}
    (hs : (MG mc).step t (g, gh) (L.run pc v, LGhost.upd u) a = some (G', L', obs)) :
    Prod.snd L' = lgNext (Prod.fst L') (.upd u) ∧ ∀ o ∈ obs, Prod.snd o = LGhost.upd u := by
  have hs' : gstep mc t (g, gh) (L.run pc v, LGhost.upd u) a = some (G', L', obs) := hs
  obtain ⟨_, g1, l1, obsM, _, hR⟩ := gstep_iff.1 hs'
  have h1 : L' = (l1, lgNext l1 (tagOf gh (.run pc v) (.upd u) a)) := congrArg (fun R => R.2.1) hR
  have h2 : obs = obsM.map (fun o => (o, tagOf gh (.run pc v) (.upd u) a)) := congrArg (fun R => R.2.2) hR
  subst h1 h2
  refine ⟨rfl, ?_⟩
  intro o ho
  obtain ⟨o', _, rfl⟩ := List.mem_map.1 ho
  rfl

/-- at every instant a thread is idle, or inside an operation whose invocation is an identified earlier entry
    of the schedule; if that invocation is not `Sum`, the thread carries an update ghost -/
theorem inside_exists (s : List (Tid × Act)) (t : Tid) (m : Nat) :
    Prod.fst ((cfgAt (MG mc) s m).l t) = L.idle ∨
    ∃ i a, i < m ∧ s[i]? = some (t, a) ∧ Prod.fst ((cfgAt (MG mc) s i).l t) = L.idle ∧
      (∀ m', i < m' → m' ≤ m → Prod.fst ((cfgAt (MG mc) s m').l t) ≠ L.idle) ∧
      (a = Act.sum ∨ ∃ u, Prod.snd ((cfgAt (MG mc) s m).l t) = LGhost.upd u) := by
  induction m with
  | zero => exact Or.inl rfl
  | succ m ih =>
    by_cases hnext : Prod.fst ((cfgAt (MG mc) s (m + 1)).l t) = L.idle
    · exact Or.inl hnext
    · refine Or.inr ?_
      -- the configuration at `m + 1` differs from the one at `m` only by an executed entry
      cases hk : s[m]? with
      | none =>
        rw [(cfgAt_succ_end (M := MG mc) hk).1] at hnext ⊢
        rcases ih with h | ⟨i, a, h1, h2, h3, h4, h5⟩
        · exact absurd h hnext
        · refine ⟨i, a, by omega, h2, h3, fun m' a1 a2 => ?_, h5⟩
          by_cases e : m' = m + 1
          · rw [e, (cfgAt_succ_end (M := MG mc) hk).1]; exact hnext
          · exact h4 m' a1 (by omega)
      | some ta =>
        obtain ⟨t', a'⟩ := ta
        cases hstep : (MG mc).step t' (cfgAt (MG mc) s m).g ((cfgAt (MG mc) s m).l t') a' with
        | none =>
          rw [(cfgAt_succ_none (M := MG mc) hk hstep).1] at hnext ⊢
          rcases ih with h | ⟨i, a, h1, h2, h3, h4, h5⟩
          · exact absurd h hnext
          · refine ⟨i, a, by omega, h2, h3, fun m' a1 a2 => ?_, h5⟩
            by_cases e : m' = m + 1
            · rw [e, (cfgAt_succ_none (M := MG mc) hk hstep).1]; exact hnext
            · exact h4 m' a1 (by omega)
        | some R =>
          obtain ⟨⟨g', gh'⟩, ⟨l', lg'⟩, obs⟩ := R
          have e := (cfgAt_succ_some (M := MG mc) hk hstep).1
          by_cases htt : t = t'
          · subst htt
            have hl' : (cfgAt (MG mc) s (m + 1)).l t = (l', lg') := by rw [e]; simp only [upd_same]
            rw [hl'] at hnext ⊢
            rcases ih with h | ⟨i, a, h1, h2, h3, h4, h5⟩
            · -- the thread was idle: entry `m` is its invocation
              refine ⟨m, a', Nat.lt_succ_self _, hk, h, fun m' a1 a2 => ?_, ?_⟩
              · have : m' = m + 1 := by omega
                rw [this, hl']; exact hnext
              · cases hl : (cfgAt (MG mc) s m).l t with
                | mk l0 lg0 =>
                  have hl0 : l0 = L.idle := by rw [hl] at h; exact h
                  subst hl0
                  rw [hl] at hstep
                  have hstep' : gstep mc t (Prod.fst (cfgAt (MG mc) s m).g, Prod.snd (cfgAt (MG mc) s m).g)
                      (L.idle, lg0) a' = some ((g', gh'), (l', lg'), obs) := hstep
                  obtain ⟨hnm, g1, l1, obsM, hst, _⟩ := gstep_iff.1 hstep'
                  cases a' with
                  | sum => exact Or.inl rfl
                  | add x =>
                    obtain ⟨_, h2, _⟩ := add_invoke (g := Prod.fst (cfgAt (MG mc) s m).g)
                      (gh := Prod.snd (cfgAt (MG mc) s m).g) hstep
                    exact Or.inr ⟨_, h2⟩
                  | store _ => cases hnm
                  | reset => cases hnm
                  | sumAndReset => cases hnm
                  | tau => simp [step] at hst
                  | rnd _ => simp [step] at hst
            · -- the thread was inside an operation and has made a step of it
              refine ⟨i, a, by omega, h2, h3, fun m' a1 a2 => ?_, ?_⟩
              · by_cases e' : m' = m + 1
                · rw [e', hl']; exact hnext
                · exact h4 m' a1 (by omega)
              · rcases h5 with h5 | ⟨u, h5⟩
                · exact Or.inl h5
                · refine Or.inr ⟨u, ?_⟩
                  cases hl : (cfgAt (MG mc) s m).l t with
                  | mk l0 lg0 =>
                    have hlg : lg0 = LGhost.upd u := by rw [hl] at h5; exact h5
                    subst hlg
                    have hbusy := h4 m h1 (Nat.le_refl _)
                    rw [hl] at hbusy hstep
                    cases l0 with
                    | idle => exact absurd rfl hbusy
                    | run pc v =>
                      obtain ⟨k1, _⟩ := upd_run_step (g := Prod.fst (cfgAt (MG mc) s m).g)
                        (gh := Prod.snd (cfgAt (MG mc) s m).g) hstep
                      cases l' with
                      | idle => exact absurd rfl hnext
                      | run pc' v' => exact k1
          · have hl' : (cfgAt (MG mc) s (m + 1)).l t = (cfgAt (MG mc) s m).l t := by
              rw [e]; simp only [upd_other _ _ _ _ htt]
            rw [hl'] at hnext ⊢
            rcases ih with h | ⟨i, a, h1, h2, h3, h4, h5⟩
            · exact absurd h hnext
            · refine ⟨i, a, by omega, h2, h3, fun m' a1 a2 => ?_, h5⟩
              by_cases e' : m' = m + 1
              · rw [e', hl']; exact hnext
              · exact h4 m' a1 (by omega)

/-- **Coverage.**  Every `Sum` response emitted at position `j` closes a span: there is an earlier position `i`
    at which the thread, idle, invoked this `Sum`. -/
theorem span_exists {s : List (Tid × Act)} {t : Tid} {j : Nat} {r : Int} {counted must : List Nat}
    (h : ∃ a G' L' obs, StepAt (MG mc) s j t a G' L' obs ∧ (Obs.ret (some r), LGhost.sum counted must) ∈ obs) :
    ∃ i, SumSpanG mc s t i j r counted must := by
  obtain ⟨a, G', L', obs, ⟨hj, hstep⟩, ho⟩ := h
  cases hl : (cfgAt (MG mc) s j).l t with
  | mk l0 lg0 =>
    have hstep0 := hstep
    rw [hl] at hstep
    have hstep' : gstep mc t (Prod.fst (cfgAt (MG mc) s j).g, Prod.snd (cfgAt (MG mc) s j).g) (l0, lg0) a =
        some (G', L', obs) := hstep
    rcases inside_exists (mc := mc) s t j with hidle | ⟨i, ai, h1, h2, h3, h4, h5⟩
    · -- an idle thread emits nothing
      exfalso
      rw [hl] at hidle
      have hidle' : l0 = L.idle := hidle
      subst hidle'
      obtain ⟨_, g1, l1, obsM, hst, hR⟩ := gstep_iff.1 hstep'
      have h2 : obs = obsM.map (fun o => (o, tagOf (Prod.snd (cfgAt (MG mc) s j).g) .idle lg0 a)) :=
        congrArg (fun R => R.2.2) hR
      have hnil : obsM = [] := by
        cases a <;> simp only [step] at hst <;> (try contradiction) <;> (split at hst <;> cases hst; rfl)
      rw [h2, hnil] at ho
      cases ho
    · rcases h5 with rfl | ⟨u, h5⟩
      · exact ⟨i, h1, h2, h3, h4, a, G', L', obs, ⟨hj, hstep0⟩, ho⟩
      · exfalso
        rw [hl] at h5
        have hlg : lg0 = LGhost.upd u := h5
        subst hlg
        have hbusy := h4 j h1 (Nat.le_refl _)
        rw [hl] at hbusy
        cases l0 with
        | idle => exact hbusy rfl
        | run pc v =>
          obtain ⟨_, k2⟩ := upd_run_step (g := Prod.fst (cfgAt (MG mc) s j).g)
            (gh := Prod.snd (cfgAt (MG mc) s j).g) hstep
          have := k2 _ ho
          cases this

/-! ### Between the bounds -/

theorem lsum_erase {f : Nat → Int} {a : Nat} {l : List Nat} (h : a ∈ l) : lsum f l = f a + lsum f (l.erase a) := by
  induction l with
  | nil => cases h
  | cons b r ih =>
    by_cases e : b = a
    · subst e; simp [lsum]
    · have ha : a ∈ r := by
        rcases List.mem_cons.1 h with h | h
        · exact absurd h.symm e
        · exact h
      rw [List.erase_cons_tail (by simpa using e)]
      simp only [lsum]
      rw [ih ha]; omega

theorem lsum_nonneg {f : Nat → Int} {l : List Nat} (h : ∀ u ∈ l, 0 ≤ f u) : 0 ≤ lsum f l := by
  induction l with
  | nil => exact Int.le_refl _
  | cons b r ih =>
    have h1 := h b (by simp)
    have h2 := ih (fun u hu => h u (by simp [hu]))
    simp only [lsum]; omega

/-- a duplicate-free sub-collection of non-negative terms sums to at most the whole -/
theorem lsum_le_of_subset {f : Nat → Int} : ∀ {l1 l2 : List Nat}, l1.Nodup → (∀ u ∈ l1, u ∈ l2) →
    (∀ u ∈ l2, 0 ≤ f u) → lsum f l1 ≤ lsum f l2 := by
  intro l1
  induction l1 with
  | nil => intro l2 _ _ hpos; exact lsum_nonneg hpos
  | cons a r ih =>
    intro l2 hnd hsub hpos
    obtain ⟨hna, hnd'⟩ := List.nodup_cons.1 hnd
    have ha : a ∈ l2 := hsub a (by simp)
    have hsub' : ∀ u ∈ r, u ∈ l2.erase a := by
      intro u hu
      have hne : u ≠ a := fun e => hna (e ▸ hu)
      exact (List.mem_erase_of_ne hne).2 (hsub u (by simp [hu]))
    have := ih hnd' hsub' (fun u hu => hpos u (List.mem_of_mem_erase hu))
    rw [lsum_erase ha]
    simp only [lsum]; omega

theorem length_le_of_subset {l1 l2 : List Nat} (hnd : l1.Nodup) (hsub : ∀ u ∈ l1, u ∈ l2) :
    l1.length ≤ l2.length := by
  have h := lsum_le_of_subset (f := fun _ => 1) hnd hsub (fun _ _ => by omega)
  rw [lsum_unit (fun _ _ => rfl), lsum_unit (fun _ _ => rfl)] at h
  omega

/-- what `sum_bounds` gives for the response of a span, with `must` identified -/
theorem span_bounds {s : List (Tid × Act)} {t : Tid} {i j : Nat} {r : Int} {counted must : List Nat}
    (h : SumSpanG mc s t i j r counted must) :
    r = wrap64 (lsum (ghostOf (cfgAt (MG mc) s j)).xOf counted) ∧ counted.Nodup ∧
    (∀ u ∈ (ghostOf (cfgAt (MG mc) s i)).lped, u ∈ counted) ∧
    (∀ u ∈ counted, u ∈ (ghostOf (cfgAt (MG mc) s j)).lped ∧ u < (ghostOf (cfgAt (MG mc) s j)).nupd) := by
  have hm := span_must h
  obtain ⟨a, G', L', obs, ⟨_, hstep⟩, ho⟩ := h.resp
  obtain ⟨f1, f2, f3, f4⟩ := sum_bounds (reach_cfgAt (M := MG mc) s j) hstep ho
  exact ⟨f1, f2, fun u hu => f3 u (hm ▸ hu), fun u hu => ⟨(f4 u hu).2.1, (f4 u hu).2.2⟩⟩

/-- **Between the bounds (operands `≥ 0`).**  The response of a span is `wrap64 n` where `n` -- the total of
    the counted updates -- lies between the exact total at the invocation instant and the exact total at the
    response instant. -/
theorem sum_between {s : List (Tid × Act)} (hs : OpsP (0 ≤ ·) s) {t : Tid} {i j : Nat} {r : Int}
    {counted must : List Nat} (h : SumSpanG mc s t i j r counted must) :
    r = wrap64 (lsum (ghostOf (cfgAt (MG mc) s j)).xOf counted) ∧
    tot (cfgAt (MG mc) s i) ≤ lsum (ghostOf (cfgAt (MG mc) s j)).xOf counted ∧
    lsum (ghostOf (cfgAt (MG mc) s j)).xOf counted ≤ tot (cfgAt (MG mc) s j) := by
  obtain ⟨f1, f2, f3, f4⟩ := span_bounds h
  have hE := ext_cfgAt (mc := mc) s (Nat.le_of_lt h.lt)
  have hri := reach_cfgAt (M := MG mc) s i
  have hpos : ∀ u ∈ (ghostOf (cfgAt (MG mc) s j)).lped, 0 ≤ (ghostOf (cfgAt (MG mc) s j)).xOf u :=
    fun u hu => allP_cfgAt hs j u ((lped_spec (reach_cfgAt (M := MG mc) s j)).2.2 u hu)
  refine ⟨f1, ?_, lsum_le_of_subset f2 (fun u hu => (f4 u hu).1) hpos⟩
  have e : tot (cfgAt (MG mc) s i) =
      lsum (ghostOf (cfgAt (MG mc) s j)).xOf (ghostOf (cfgAt (MG mc) s i)).lped :=
    lsum_congr (fun u hu => (hE.xOf_keep u ((lped_spec hri).2.2 u hu)).symm)
  rw [e]
  exact lsum_le_of_subset (lped_nodup hri) f3 (fun u hu => hpos u (f4 u hu).1)

/-- **Part 1 (operands `= 1`), with cardinalities.**  The response of a span is `wrap64 n`, `n` the number
    of counted updates, and `(number of updates linearized at the invocation instant) ≤ n ≤ (number of
    updates linearized at the response instant)`. -/
theorem sum_card {s : List (Tid × Act)} (hs : OpsP (· = 1) s) {t : Tid} {i j : Nat} {r : Int}
    {counted must : List Nat} (h : SumSpanG mc s t i j r counted must) :
    r = wrap64 (counted.length : Int) ∧
    (ghostOf (cfgAt (MG mc) s i)).lped.length ≤ counted.length ∧
    counted.length ≤ (ghostOf (cfgAt (MG mc) s j)).lped.length := by
  obtain ⟨f1, f2, f3, f4⟩ := span_bounds h
  refine ⟨?_, length_le_of_subset (lped_nodup (reach_cfgAt (M := MG mc) s i)) f3,
    length_le_of_subset f2 (fun u hu => (f4 u hu).1)⟩
  rw [f1, lsum_unit (fun u hu => allP_cfgAt hs j u (f4 u hu).2)]

/-! ### The instant -/

/-- **discrete intermediate value**: a sequence of integers that grows by at most one per step takes every
    value between an earlier and a later term (no monotonicity needed) -/
theorem discrete_ivt (f : Nat → Int) {i j : Nat} (hij : i ≤ j) (hstep : ∀ k, i ≤ k → k < j → f (k + 1) ≤ f k + 1)
    {n : Int} (hlo : f i ≤ n) (hhi : n ≤ f j) : ∃ k, i ≤ k ∧ k ≤ j ∧ f k = n := by
  induction j with
  | zero =>
    have : i = 0 := by omega
    subst this; exact ⟨0, Nat.le_refl _, Nat.le_refl _, by omega⟩
  | succ m ih =>
    by_cases him : i = m + 1
    · subst him; exact ⟨m + 1, Nat.le_refl _, Nat.le_refl _, by omega⟩
    · have him' : i ≤ m := by omega
      by_cases hn : n ≤ f m
      · obtain ⟨k, h1, h2, h3⟩ := ih him' (fun k hk1 hk2 => hstep k hk1 (by omega)) hn
        exact ⟨k, h1, by omega, h3⟩
      · have := hstep m him' (by omega)
        exact ⟨m + 1, by omega, Nat.le_refl _, by omega⟩

/-- the invocation step of a span does not change the total -/
theorem span_inv_tot {s : List (Tid × Act)} {t : Tid} {i j : Nat} {r : Int} {counted must : List Nat}
    (h : SumSpanG mc s t i j r counted must) : tot (cfgAt (MG mc) s (i + 1)) = tot (cfgAt (MG mc) s i) := by
  cases hstep : (MG mc).step t (cfgAt (MG mc) s i).g ((cfgAt (MG mc) s i).l t) Act.sum with
  | none => rw [(cfgAt_succ_none (M := MG mc) h.inv hstep).1]
  | some R =>
    obtain ⟨⟨g', gh'⟩, ⟨l', lg'⟩, obs⟩ := R
    rw [(cfgAt_succ_some (M := MG mc) h.inv hstep).1, tot_step (reach_cfgAt (M := MG mc) s i) hstep]
    cases hl : (cfgAt (MG mc) s i).l t with
    | mk l0 lg0 =>
      have hidle : l0 = L.idle := by have := h.idle; rw [hl] at this; exact this
      subst hidle
      rw [hl] at hstep
      obtain ⟨_, _, h3⟩ := sum_invoke (g := Prod.fst (cfgAt (MG mc) s i).g)
        (gh := Prod.snd (cfgAt (MG mc) s i).g) hstep
      rw [h3]; simp [lpSum]

/-- **Part 2 (operands in `{0, 1}`).**  The response of a span is `wrap64 n`, `n` between the exact totals at
    the invocation and at the response instant, and there is an instant `k` strictly after the invocation
    step and not after the response step (`i < k ≤ j`) at which the exact total IS `n`. -/
theorem sum_instant {s : List (Tid × Act)} (hs : OpsP (fun x => 0 ≤ x ∧ x ≤ 1) s) {t : Tid} {i j : Nat} {r : Int}
    {counted must : List Nat} (h : SumSpanG mc s t i j r counted must) :
    ∃ (n : Int) (k : Nat), r = wrap64 n ∧ tot (cfgAt (MG mc) s i) ≤ n ∧ n ≤ tot (cfgAt (MG mc) s j) ∧
      i < k ∧ k ≤ j ∧ tot (cfgAt (MG mc) s k) = n := by
  obtain ⟨h1, h2, h3⟩ := sum_between (hs.mono (fun _ hx => hx.1)) h
  obtain ⟨k, hk1, hk2, hk3⟩ := discrete_ivt (fun k => tot (cfgAt (MG mc) s k)) (i := i + 1) (j := j) h.lt
    (fun k _ _ => tot_succ_le (hs.mono (fun _ hx => hx.2)) k) (by rw [span_inv_tot h]; exact h2) h3
  exact ⟨_, k, h1, h2, h3, hk1, hk2, hk3⟩

/-- **Part 2 (operands `= 1`).**  The same with cardinalities: `n` is the number of updates linearized at
    instant `k`. -/
theorem sum_instant_unit {s : List (Tid × Act)} (hs : OpsP (· = 1) s) {t : Tid} {i j : Nat} {r : Int}
    {counted must : List Nat} (h : SumSpanG mc s t i j r counted must) :
    ∃ n k : Nat, r = wrap64 (n : Int) ∧ (ghostOf (cfgAt (MG mc) s i)).lped.length ≤ n ∧
      n ≤ (ghostOf (cfgAt (MG mc) s j)).lped.length ∧
      i < k ∧ k ≤ j ∧ (ghostOf (cfgAt (MG mc) s k)).lped.length = n := by
  obtain ⟨n, k, h1, h2, h3, h4, h5, h6⟩ := sum_instant (hs.mono (fun x hx => by subst hx; omega)) h
  rw [tot_unit hs] at h2 h3 h6
  subst h6
  exact ⟨_, k, h1, by omega, by omega, h4, h5, rfl⟩

/-- **Monotone reads (instrumented).**  A span that returns before another is invoked (`j₁ < i₂`): the
    second counts every update the first counted (`sum_monotone`), the instants are ordered, and so are the
    exact totals read. -/
theorem sum_reads_monotoneG {s : List (Tid × Act)} (hs : OpsP (fun x => 0 ≤ x ∧ x ≤ 1) s)
    {t1 t2 : Tid} {i1 j1 i2 j2 : Nat} {r1 r2 : Int} {counted1 must1 counted2 must2 : List Nat}
    (h1 : SumSpanG mc s t1 i1 j1 r1 counted1 must1) (h2 : SumSpanG mc s t2 i2 j2 r2 counted2 must2)
    (h12 : j1 < i2) :
    (∀ u ∈ counted1, u ∈ counted2) ∧
    ∃ k1 k2, i1 < k1 ∧ k1 ≤ j1 ∧ i2 < k2 ∧ k2 ≤ j2 ∧ k1 < k2 ∧
      r1 = wrap64 (tot (cfgAt (MG mc) s k1)) ∧ r2 = wrap64 (tot (cfgAt (MG mc) s k2)) ∧
      tot (cfgAt (MG mc) s k1) ≤ tot (cfgAt (MG mc) s k2) := by
  constructor
  · obtain ⟨a1, G1, L1, obs1, ⟨_, hs1⟩, ho1⟩ := h1.resp
    obtain ⟨a2, G2, L2, obs2, ⟨_, hs2⟩, ho2⟩ := h2.resp
    exact sum_monotone (c2 := cfgAt (MG mc) s i2) (reach_cfgAt (M := MG mc) s j1) (reach_cfgAt (M := MG mc) s j2)
      hs1 hs2 ho1 ho2 (ext_cfgAt s (Nat.le_of_lt h12)) (span_must h2)
  · obtain ⟨n1, k1, e1, _, _, a1, b1, c1⟩ := sum_instant hs h1
    obtain ⟨n2, k2, e2, _, _, a2, b2, c2⟩ := sum_instant hs h2
    refine ⟨k1, k2, a1, b1, a2, b2, by omega, by rw [c1]; exact e1, by rw [c2]; exact e2, ?_⟩
    exact tot_mono (hs.mono (fun _ hx => hx.1)) (by omega)

end Along

/-! ## The plain machine `M intAlg mc`: no ghosts in the statements -/

section Plain
variable {mc : Nat}

/-- the schedule contains no maintenance invocation (`Store` / `Reset` / `SumAndReset`) -/
def NoMaint (s : List (Tid × Act)) : Prop := ∀ p ∈ s, noMaint p.2 = true

theorem NoMaint.take {s : List (Tid × Act)} (h : NoMaint s) (k : Nat) : NoMaint (s.take k) :=
  fun p hp => h p (List.mem_of_mem_take hp)

/-- at every instant the instrumented configuration projects onto the plain one -/
theorem proj_cfgAt {s : List (Tid × Act)} (hs : NoMaint s) (k : Nat) :
    projC (cfgAt (MG mc) s k) = cfgAt (M intAlg mc) s k :=
  (run_lift (mc := mc) (s.take k) (hs.take k) (Config.init (MG mc))).1

/-- ... and so does the log, once the ghost tags are dropped -/
theorem proj_logAt {s : List (Tid × Act)} (hs : NoMaint s) (k : Nat) :
    (logAt (MG mc) s k).map (fun p => (p.1, Prod.fst p.2)) = logAt (M intAlg mc) s k :=
  (run_lift (mc := mc) (s.take k) (hs.take k) (Config.init (MG mc))).2

def isIdle : L → Bool
  | .idle => true
  | _ => false

theorem isIdle_iff {l : L} : isIdle l = true ↔ l = .idle := by
  cases l <;> simp [isIdle]

/-- **A `Sum` span of the plain run** (the definition of `SumSpanG`, ghosts dropped): entry `i` of the schedule
    is thread `t`'s invocation of `Sum`, met while `t` is idle; `t` is inside the operation at every instant
    `m`, `i < m ≤ j`; entry `j` is a step of `t` that emits the response `r`. -/
structure SumSpan (mc : Nat) (s : List (Tid × Act)) (t : Tid) (i j : Nat) (r : Int) : Prop where
  lt : i < j
  inv : s[i]? = some (t, Act.sum)
  idle : isIdle ((cfgAt (M intAlg mc) s i).l t) = true
  busy : ∀ m, i < m → m ≤ j → isIdle ((cfgAt (M intAlg mc) s m).l t) = false
  resp : ∃ a g' l' obs, StepAt (M intAlg mc) s j t a g' l' obs ∧ Obs.ret (some r) ∈ obs

/-- a value-carrying response of the plain run is, in the instrumented run, tagged with `Sum` ghosts -/
theorem resp_lift {s : List (Tid × Act)} (hs : NoMaint s) {t : Tid} {j : Nat} {r : Int}
    (h : ∃ a g' l' obs, StepAt (M intAlg mc) s j t a g' l' obs ∧ Obs.ret (some r) ∈ obs) :
    ∃ counted must a G' L' obs, StepAt (MG mc) s j t a G' L' obs ∧
      (Obs.ret (some r), LGhost.sum counted must) ∈ obs := by
  obtain ⟨a, g', l', obs, ⟨hj, hstep⟩, ho⟩ := h
  have ha : noMaint a = true := hs (t, a) (List.mem_of_getElem? hj)
  have hstep' : step intAlg mc t (Prod.fst (cfgAt (MG mc) s j).g) (Prod.fst ((cfgAt (MG mc) s j).l t)) a =
      some (g', l', obs) := by
    have := hstep
    rw [← proj_cfgAt hs j] at this
    exact this
  obtain ⟨gh', lg', obs', hG, hobs⟩ :=
    lift_step hstep' ha (Prod.snd (cfgAt (MG mc) s j).g) (Prod.snd ((cfgAt (MG mc) s j).l t))
  have hG' : (MG mc).step t (cfgAt (MG mc) s j).g ((cfgAt (MG mc) s j).l t) a = some ((g', gh'), (l', lg'), obs') := hG
  rw [← hobs] at ho
  obtain ⟨o', ho', e⟩ := List.mem_map.1 ho
  obtain ⟨o1, tag⟩ := o'
  have e' : o1 = Obs.ret (some r) := e
  subst e'
  obtain ⟨counted, must, rfl⟩ := sum_ret_tagged (reach_cfgAt (M := MG mc) s j) hG' ho'
  exact ⟨counted, must, a, _, _, obs', ⟨hj, hG'⟩, ho'⟩

/-- every span of the plain run is a span of the instrumented run, for some `Sum` ghosts -/
theorem span_lift {s : List (Tid × Act)} (hs : NoMaint s) {t : Tid} {i j : Nat} {r : Int}
    (h : SumSpan mc s t i j r) : ∃ counted must, SumSpanG mc s t i j r counted must := by
  obtain ⟨counted, must, hresp⟩ := resp_lift hs h.resp
  refine ⟨counted, must, h.lt, h.inv, ?_, ?_, hresp⟩
  · have := h.idle
    rw [← proj_cfgAt hs i] at this
    exact isIdle_iff.1 this
  · intro m h1 h2 hidle
    have := h.busy m h1 h2
    rw [← proj_cfgAt hs m] at this
    have h' : isIdle (Prod.fst ((cfgAt (MG mc) s m).l t)) = false := this
    rw [hidle] at h'
    cases h'

/-- ... and conversely -/
theorem span_proj {s : List (Tid × Act)} (hs : NoMaint s) {t : Tid} {i j : Nat} {r : Int}
    {counted must : List Nat} (h : SumSpanG mc s t i j r counted must) : SumSpan mc s t i j r := by
  refine ⟨h.lt, h.inv, ?_, ?_, ?_⟩
  · rw [← proj_cfgAt hs i]
    show isIdle (Prod.fst ((cfgAt (MG mc) s i).l t)) = true
    rw [h.idle]; rfl
  · intro m h1 h2
    rw [← proj_cfgAt hs m]
    show isIdle (Prod.fst ((cfgAt (MG mc) s m).l t)) = false
    have := h.busy m h1 h2
    cases hl : Prod.fst ((cfgAt (MG mc) s m).l t) with
    | idle => exact absurd hl this
    | run _ _ => rfl
  · obtain ⟨a, ⟨g', gh'⟩, ⟨l', lg'⟩, obs, ⟨hj, hstep⟩, ho⟩ := h.resp
    have hp : step intAlg mc t (Prod.fst (cfgAt (MG mc) s j).g) (Prod.fst ((cfgAt (MG mc) s j).l t)) a =
        some (g', l', obs.map Prod.fst) :=
      proj_step (gh := Prod.snd (cfgAt (MG mc) s j).g) (lg := Prod.snd ((cfgAt (MG mc) s j).l t)) hstep
    refine ⟨a, g', l', obs.map Prod.fst, ⟨hj, ?_⟩, List.mem_map.2 ⟨_, ho, rfl⟩⟩
    rw [← proj_cfgAt hs j]
    exact hp

theorem span_iff {s : List (Tid × Act)} (hs : NoMaint s) {t : Tid} {i j : Nat} {r : Int} :
    SumSpan mc s t i j r ↔ ∃ counted must, SumSpanG mc s t i j r counted must :=
  ⟨span_lift hs, fun ⟨_, _, h⟩ => span_proj hs h⟩

/-- **Coverage, plain machine.**  Every value-carrying response emitted at position `j` closes a `Sum` span:
    there is an earlier position `i` at which the thread, idle, invoked this `Sum`. -/
theorem span_exists_plain {s : List (Tid × Act)} (hs : NoMaint s) {t : Tid} {j : Nat} {r : Int}
    (h : ∃ a g' l' obs, StepAt (M intAlg mc) s j t a g' l' obs ∧ Obs.ret (some r) ∈ obs) :
    ∃ i, SumSpan mc s t i j r := by
  obtain ⟨counted, must, hresp⟩ := resp_lift hs h
  obtain ⟨i, hi⟩ := span_exists hresp
  exact ⟨i, span_proj hs hi⟩

/-- the heap of the plain run is the heap of the instrumented run -/
theorem heap_cfgAt {s : List (Tid × Act)} (hs : NoMaint s) (k : Nat) :
    (cfgAt (M intAlg mc) s k).g = heapOf (cfgAt (MG mc) s k) := by
  rw [← proj_cfgAt hs k]; rfl

/-- the exact total of the plain run: the ghost field `applied` (= `base + Σ cells`, `conservation`)
    is the exact total of the instrumented run -/
theorem applied_cfgAt {s : List (Tid × Act)} (hs : NoMaint s) (k : Nat) :
    G.applied (cfgAt (M intAlg mc) s k).g = tot (cfgAt (MG mc) s k) := by
  rw [heap_cfgAt hs k]; exact applied_eq_tot (reach_cfgAt (M := MG mc) s k)

/-- `conservation` at an instant of the plain run -/
theorem conserved_cfgAt (s : List (Tid × Act)) (k : Nat) :
    G.base (cfgAt (M intAlg mc) s k).g + tableSum (cfgAt (M intAlg mc) s k).g =
      G.applied (cfgAt (M intAlg mc) s k).g :=
  conservation (reach_cfgAt (M := M intAlg mc) s k)

/-! ### The log, and the abstract atomic counter -/

/-- the observations of a log, thread ids dropped -/
def obsOf (log : List (Tid × Obs)) : List Obs := log.map Prod.snd

/-- at every instant, the exact total is the sum of the operands of the linearization-point markers logged
    so far, and the number of linearized updates is the number of markers -/
theorem tot_log (s : List (Tid × Act)) (k : Nat) :
    tot (cfgAt (MG mc) s k) = lpSum ((logAt (MG mc) s k).map (fun p => Prod.fst p.2)) ∧
    (ghostOf (cfgAt (MG mc) s k)).lped.length = nLp ((logAt (MG mc) s k).map (fun p => Prod.fst p.2)) := by
  induction k with
  | zero => exact ⟨rfl, rfl⟩
  | succ k ih =>
    cases hk : s[k]? with
    | none => rw [(cfgAt_succ_end (M := MG mc) hk).1, (cfgAt_succ_end (M := MG mc) hk).2]; exact ih
    | some ta =>
      obtain ⟨t, a⟩ := ta
      cases hstep : (MG mc).step t (cfgAt (MG mc) s k).g ((cfgAt (MG mc) s k).l t) a with
      | none =>
        rw [(cfgAt_succ_none (M := MG mc) hk hstep).1, (cfgAt_succ_none (M := MG mc) hk hstep).2]; exact ih
      | some R =>
        obtain ⟨G', L', obs⟩ := R
        have hr := reach_cfgAt (M := MG mc) s k
        have hmap : (obs.map (fun o => (t, o))).map (fun p => Prod.fst p.2) = obs.map Prod.fst := by
          rw [List.map_map]; rfl
        rw [(cfgAt_succ_some (M := MG mc) hk hstep).1, (cfgAt_succ_some (M := MG mc) hk hstep).2,
          List.map_append, lpSum_append, nLp_append, hmap, tot_step hr hstep, ih.1]
        refine ⟨rfl, ?_⟩
        show (Prod.snd G').lped.length = _
        cases step_lp hr hstep with
        | silent h1 _ h3 => rw [h1, h3, ih.2]; rfl
        | lp u h1 _ _ _ h5 => rw [h1, h5, List.length_cons, ih.2]

/-- **the abstract atomic counter** (an int64 number, as the bucket counters of the breaker models): every
    linearization point `lp x` performs `ctr := wrap64 (ctr + x)` atomically; responses do not touch it -/
def ctrStep (ctr : Int) : Obs → Int
  | .lp x => wrap64 (ctr + x)
  | .ret _ => ctr

/-- the value of the abstract atomic counter after a log (starting from `0`): what an atomic read returns
    at that instant -/
def ctrOf (log : List Obs) : Int := log.foldl ctrStep 0

theorem ctrOf_eq (log : List Obs) : ctrOf log = wrap64 (lpSum log) := by
  have key : ∀ (log : List Obs) (a b : Int), a = wrap64 b → log.foldl ctrStep a = wrap64 (b + lpSum log) := by
    intro log
    induction log with
    | nil => intro a b h; simp [lpSum, h]
    | cons o r ih =>
      intro a b h
      cases o with
      | lp x =>
        simp only [List.foldl_cons, ctrStep, lpSum]
        rw [ih (wrap64 (a + x)) (b + x) (by rw [h, wrap64_add])]
        congr 1; omega
      | ret v =>
        simp only [List.foldl_cons, ctrStep, lpSum]
        exact ih a b h
  have := key log 0 0 (by unfold wrap64; omega)
  simpa [ctrOf] using this

/-- on the plain run: `applied` is the sum over the markers of the plain log -/
theorem applied_log {s : List (Tid × Act)} (hs : NoMaint s) (k : Nat) :
    G.applied (cfgAt (M intAlg mc) s k).g = lpSum (obsOf (logAt (M intAlg mc) s k)) := by
  rw [applied_cfgAt hs k, (tot_log s k).1, ← proj_logAt hs k, obsOf, List.map_map]
  rfl

/-- ... so an atomic read of the abstract counter at instant `k` returns the wrapped exact total -/
theorem ctr_cfgAt {s : List (Tid × Act)} (hs : NoMaint s) (k : Nat) :
    ctrOf (obsOf (logAt (M intAlg mc) s k)) = wrap64 (G.applied (cfgAt (M intAlg mc) s k).g) := by
  rw [ctrOf_eq, applied_log hs k]

/-- unit operands: `applied` is the number of markers of the plain log -/
theorem applied_unit {s : List (Tid × Act)} (hs : NoMaint s) (hu : OpsP (· = 1) s) (k : Nat) :
    G.applied (cfgAt (M intAlg mc) s k).g = (nLp (obsOf (logAt (M intAlg mc) s k)) : Int) := by
  rw [applied_cfgAt hs k, tot_unit hu k, (tot_log s k).2, ← proj_logAt hs k, obsOf, List.map_map]
  rfl

/-! ### The results -/

/-- **Between the bounds (operands `≥ 0`), plain machine.** -/
theorem sum_between_plain {s : List (Tid × Act)} (hm : NoMaint s) (hs : OpsP (0 ≤ ·) s) {t : Tid} {i j : Nat}
    {r : Int} (h : SumSpan mc s t i j r) :
    ∃ n : Int, r = wrap64 n ∧ G.applied (cfgAt (M intAlg mc) s i).g ≤ n ∧
      n ≤ G.applied (cfgAt (M intAlg mc) s j).g := by
  obtain ⟨counted, must, hG⟩ := span_lift hm h
  obtain ⟨h1, h2, h3⟩ := sum_between hs hG
  rw [applied_cfgAt hm i, applied_cfgAt hm j]
  exact ⟨_, h1, h2, h3⟩

/-- **A concurrent `Sum` is an atomic read (operands in `{0, 1}`), plain machine.**  For every span there is an
    instant `k`, strictly after the invocation step and not after the response step, such that the response
    is what an atomic read of the abstract counter returns at instant `k`; the abstract counter holds the
    (wrapped) exact total `applied = base + Σ cells` of that instant. -/
theorem sum_atomic {s : List (Tid × Act)} (hm : NoMaint s) (hs : OpsP (fun x => 0 ≤ x ∧ x ≤ 1) s)
    {t : Tid} {i j : Nat} {r : Int} (h : SumSpan mc s t i j r) :
    ∃ k, i < k ∧ k ≤ j ∧ r = ctrOf (obsOf (logAt (M intAlg mc) s k)) ∧
      r = wrap64 (G.applied (cfgAt (M intAlg mc) s k).g) ∧
      G.applied (cfgAt (M intAlg mc) s i).g ≤ G.applied (cfgAt (M intAlg mc) s k).g ∧
      G.applied (cfgAt (M intAlg mc) s k).g ≤ G.applied (cfgAt (M intAlg mc) s j).g := by
  obtain ⟨counted, must, hG⟩ := span_lift hm h
  obtain ⟨n, k, h1, h2, h3, h4, h5, h6⟩ := sum_instant hs hG
  refine ⟨k, h4, h5, ?_, ?_, ?_, ?_⟩
  · rw [ctr_cfgAt hm k, applied_cfgAt hm k, h6]; exact h1
  · rw [applied_cfgAt hm k, h6]; exact h1
  · rw [applied_cfgAt hm i, applied_cfgAt hm k, h6]; exact h2
  · rw [applied_cfgAt hm j, applied_cfgAt hm k, h6]; exact h3

/-- **Unit increments, plain machine, with counts.**  `r = wrap64 n`; `n` lies between the number of updates
    linearized before the invocation and the number linearized before the response (markers in the log
    prefixes); at some instant `k`, `i < k ≤ j`, exactly `n` updates have been linearized, the exact total
    `applied` is `n`, and an atomic read of the abstract counter returns `r`. -/
theorem sum_atomic_unit {s : List (Tid × Act)} (hm : NoMaint s) (hs : OpsP (· = 1) s)
    {t : Tid} {i j : Nat} {r : Int} (h : SumSpan mc s t i j r) :
    ∃ n k : Nat, r = wrap64 (n : Int) ∧
      nLp (obsOf (logAt (M intAlg mc) s i)) ≤ n ∧ n ≤ nLp (obsOf (logAt (M intAlg mc) s j)) ∧
      i < k ∧ k ≤ j ∧ nLp (obsOf (logAt (M intAlg mc) s k)) = n ∧
      G.applied (cfgAt (M intAlg mc) s k).g = (n : Int) ∧
      r = ctrOf (obsOf (logAt (M intAlg mc) s k)) := by
  obtain ⟨counted, must, hG⟩ := span_lift hm h
  obtain ⟨n, k, h1, h2, h3, h4, h5, h6⟩ := sum_instant_unit hs hG
  have e : ∀ m, nLp (obsOf (logAt (M intAlg mc) s m)) = (ghostOf (cfgAt (MG mc) s m)).lped.length := by
    intro m
    rw [(tot_log s m).2, ← proj_logAt hm m, obsOf, List.map_map]; rfl
  have hk : G.applied (cfgAt (M intAlg mc) s k).g = (n : Int) := by
    rw [applied_unit hm hs k, e k, h6]
  refine ⟨n, k, h1, by rw [e i]; exact h2, by rw [e j]; exact h3, h4, h5, by rw [e k]; exact h6, hk, ?_⟩
  rw [ctr_cfgAt hm k, hk]; exact h1

/-- two spans of the same thread do not overlap: the one invoked first has returned before the other is
    invoked -/
theorem same_thread_disjoint {s : List (Tid × Act)} {t : Tid} {i1 j1 i2 j2 : Nat} {r1 r2 : Int}
    (h1 : SumSpan mc s t i1 j1 r1) (h2 : SumSpan mc s t i2 j2 r2) (h : i1 < i2) : j1 < i2 := by
  apply Classical.byContradiction
  intro hn
  have hb := h1.busy i2 h (by omega)
  rw [h2.idle] at hb
  cases hb

/-- the invocation position of a span is determined by its response position -/
theorem span_unique {s : List (Tid × Act)} {t : Tid} {i1 i2 j : Nat} {r1 r2 : Int}
    (h1 : SumSpan mc s t i1 j r1) (h2 : SumSpan mc s t i2 j r2) : i1 = i2 := by
  apply Classical.byContradiction
  intro hne
  rcases Nat.lt_or_gt_of_ne hne with h | h
  · have := same_thread_disjoint h1 h2 h; have := h2.lt; omega
  · have := same_thread_disjoint h2 h1 h; have := h1.lt; omega

/-- **Monotone reads, plain machine (operands in `{0, 1}`).**  If a span returns before another is invoked
    (in particular: two spans of one thread, `same_thread_disjoint`), the two `Sum`s are atomic reads at
    ordered instants `k₁ < k₂`, each inside its own span, and the exact totals read are ordered. -/
theorem sum_reads_monotone {s : List (Tid × Act)} (hm : NoMaint s) (hs : OpsP (fun x => 0 ≤ x ∧ x ≤ 1) s)
    {t1 t2 : Tid} {i1 j1 i2 j2 : Nat} {r1 r2 : Int}
    (h1 : SumSpan mc s t1 i1 j1 r1) (h2 : SumSpan mc s t2 i2 j2 r2) (h12 : j1 < i2) :
    ∃ k1 k2, i1 < k1 ∧ k1 ≤ j1 ∧ i2 < k2 ∧ k2 ≤ j2 ∧ k1 < k2 ∧
      r1 = ctrOf (obsOf (logAt (M intAlg mc) s k1)) ∧ r2 = ctrOf (obsOf (logAt (M intAlg mc) s k2)) ∧
      r1 = wrap64 (G.applied (cfgAt (M intAlg mc) s k1).g) ∧
      r2 = wrap64 (G.applied (cfgAt (M intAlg mc) s k2).g) ∧
      G.applied (cfgAt (M intAlg mc) s k1).g ≤ G.applied (cfgAt (M intAlg mc) s k2).g := by
  obtain ⟨c1, m1, hG1⟩ := span_lift hm h1
  obtain ⟨c2, m2, hG2⟩ := span_lift hm h2
  obtain ⟨_, k1, k2, a1, b1, a2, b2, hk, e1, e2, hle⟩ := sum_reads_monotoneG hs hG1 hG2 h12
  refine ⟨k1, k2, a1, b1, a2, b2, hk, ?_, ?_, ?_, ?_, ?_⟩
  · rw [ctr_cfgAt hm k1, applied_cfgAt hm k1]; exact e1
  · rw [ctr_cfgAt hm k2, applied_cfgAt hm k2]; exact e2
  · rw [applied_cfgAt hm k1]; exact e1
  · rw [applied_cfgAt hm k2]; exact e2
  · rw [applied_cfgAt hm k1, applied_cfgAt hm k2]; exact hle

/-! ### Executable checkers (for kernel-checked examples) -/

def isSumAct : Act → Bool
  | .sum => true
  | _ => false

/-- the response part of a span, as a computation -/
def respB (mc : Nat) (s : List (Tid × Act)) (t : Tid) (j : Nat) (r : Int) : Bool :=
  match s[j]? with
  | some (t', a) =>
    t' == t &&
      (match step intAlg mc t (cfgAt (M intAlg mc) s j).g ((cfgAt (M intAlg mc) s j).l t) a with
       | some (_, _, obs) => obs.contains (Obs.ret (some r))
       | none => false)
  | none => false

/-- `SumSpan`, as a computation -/
def spanB (mc : Nat) (s : List (Tid × Act)) (t : Tid) (i j : Nat) (r : Int) : Bool :=
  decide (i < j) &&
  (match s[i]? with
   | some (t', a) => t' == t && isSumAct a
   | none => false) &&
  isIdle ((cfgAt (M intAlg mc) s i).l t) &&
  (List.range (j - i)).all (fun d => !isIdle ((cfgAt (M intAlg mc) s (i + 1 + d)).l t)) &&
  respB mc s t j r

theorem respB_sound {s : List (Tid × Act)} {t : Tid} {j : Nat} {r : Int} (h : respB mc s t j r = true) :
    ∃ a g' l' obs, StepAt (M intAlg mc) s j t a g' l' obs ∧ Obs.ret (some r) ∈ obs := by
  unfold respB at h
  cases hj : s[j]? with
  | none => rw [hj] at h; cases h
  | some ta =>
    obtain ⟨t', a⟩ := ta
    rw [hj] at h
    simp only [Bool.and_eq_true, beq_iff_eq] at h
    obtain ⟨rfl, h⟩ := h
    cases hstep : step intAlg mc t' (cfgAt (M intAlg mc) s j).g ((cfgAt (M intAlg mc) s j).l t') a with
    | none => rw [hstep] at h; cases h
    | some R =>
      obtain ⟨g', l', obs⟩ := R
      rw [hstep] at h
      exact ⟨a, g', l', obs, ⟨hj, hstep⟩, List.contains_iff_mem.1 h⟩

theorem spanB_sound {s : List (Tid × Act)} {t : Tid} {i j : Nat} {r : Int} (h : spanB mc s t i j r = true) :
    SumSpan mc s t i j r := by
  unfold spanB at h
  simp only [Bool.and_eq_true, decide_eq_true_eq] at h
  obtain ⟨⟨⟨⟨h1, h2⟩, h3⟩, h4⟩, h5⟩ := h
  refine ⟨h1, ?_, h3, ?_, respB_sound h5⟩
  · cases hi : s[i]? with
    | none => rw [hi] at h2; cases h2
    | some ta =>
      obtain ⟨t', a⟩ := ta
      rw [hi] at h2
      simp only [Bool.and_eq_true, beq_iff_eq] at h2
      obtain ⟨rfl, ha⟩ := h2
      cases a <;> first | rfl | cases ha
  · intro m hm1 hm2
    have := List.all_eq_true.1 h4 (m - (i + 1)) (List.mem_range.2 (by omega))
    rw [show i + 1 + (m - (i + 1)) = m by omega] at this
    simpa using this

/-- `NoMaint`, as a computation -/
theorem noMaint_of_all {s : List (Tid × Act)} (h : s.all (fun p => noMaint p.2) = true) : NoMaint s :=
  fun p hp => List.all_eq_true.1 h p hp

/-- `OpsP`, as a computation -/
theorem opsP_of_all {P : Int → Prop} (f : Int → Bool) (hf : ∀ x, f x = true → P x) {s : List (Tid × Act)}
    (h : s.all (fun p => match p.2 with | .add x => f x | _ => true) = true) : OpsP P s := by
  intro p hp x hx
  have := List.all_eq_true.1 h p hp
  rw [hx] at this
  exact hf x this

end Plain

end Garr.Adder.UnitSum
