import Garr.Adder.Model
/-!
# Invariants of the striped-adder model (integer instance)

`AInv` is the machine-level invariant of `M intAlg mc`: the heap invariant `GInv`, the per-thread
invariant `LInv` (relative to the heap), the lock discipline of `cellsBusy`, and the maintenance
discipline of the ghost fields `actv` / `maint`.  The proof is rely/guarantee: every step preserves
`GInv`, re-establishes the acting thread's `LInv`, and obeys a guarantee (`Frame` for a thread that
does not hold the lock, `Mono` for the holder) under which the other threads' `LInv` is stable.
`ainv_reach` lifts it to every reachable configuration; `conservation` and `applied_step` (C02) follow.
-/
namespace Garr.Adder
open Garr.Conc

/-! ## The integer instance -/

theorem casBaseA_int (g : G) (x : Int) : casBaseA intAlg g x = casBase g x := rfl
theorem casCellA_int (g : G) (c : Nat) (x : Int) : casCellA intAlg g c x = casCell g c x := rfl
theorem intAlg_float : intAlg.float = false := rfl
theorem intAlg_view (x : Int) : intAlg.view x = wrap64 x := rfl
theorem intAlg_add (a b : Int) : intAlg.add a b = a + b := rfl

theorem mask_le (i : BitVec 64) (n : Nat) : mask i n ≤ n := by
  unfold mask
  rw [BitVec.toNat_and, BitVec.toNat_ofNat]
  exact Nat.le_trans Nat.and_le_right (Nat.mod_le _ _)

theorem mask_lt (i : BitVec 64) (n : Nat) (h : 2 ≤ n) : mask i (n - 1) < n := by
  have := mask_le i (n - 1); omega

/-! ## `leave` only touches ghost fields -/

@[simp] theorem leave_base (t : Tid) (g : G) (v : V) : (leave t g v).base = g.base := by unfold leave; split <;> rfl
@[simp] theorem leave_busy (t : Tid) (g : G) (v : V) : (leave t g v).busy = g.busy := by unfold leave; split <;> rfl
@[simp] theorem leave_narr (t : Tid) (g : G) (v : V) : (leave t g v).narr = g.narr := by unfold leave; split <;> rfl
@[simp] theorem leave_arr (t : Tid) (g : G) (v : V) : (leave t g v).arr = g.arr := by unfold leave; split <;> rfl
@[simp] theorem leave_tbl (t : Tid) (g : G) (v : V) : (leave t g v).tbl = g.tbl := by unfold leave; split <;> rfl
@[simp] theorem leave_ncell (t : Tid) (g : G) (v : V) : (leave t g v).ncell = g.ncell := by unfold leave; split <;> rfl
@[simp] theorem leave_cell (t : Tid) (g : G) (v : V) : (leave t g v).cell = g.cell := by unfold leave; split <;> rfl
@[simp] theorem leave_applied (t : Tid) (g : G) (v : V) : (leave t g v).applied = g.applied := by unfold leave; split <;> rfl

/-- `GInv` does not mention `busy`, `actv`, `maint` -/
theorem GInv_ghost {g g' : G} (h : GInv g) (hb : g'.base = g.base) (hn : g'.narr = g.narr) (ha : g'.arr = g.arr)
    (ht : g'.tbl = g.tbl) (hc : g'.ncell = g.ncell) (hce : g'.cell = g.cell) (hap : g'.applied = g.applied) :
    GInv g' := by
  obtain ⟨b, bu, n, ar, tb, nc, ce, ap, ac, ma⟩ := g'
  simp only at hb hn ha ht hc hce hap
  subst hb hn ha ht hc hce hap
  exact ⟨h.tbl_wf, h.slot_valid, h.all_in, h.inj, h.conserve⟩

theorem GInv_leave {g : G} (h : GInv g) (t : Tid) (v : V) : GInv (leave t g v) :=
  GInv_ghost h (by simp) (by simp) (by simp) (by simp) (by simp) (by simp) (by simp)

theorem GInv_busy {g : G} (h : GInv g) (b : Bool) : GInv { g with busy := b } :=
  GInv_ghost h rfl rfl rfl rfl rfl rfl rfl

/-- growth by reallocation copying `n ≥ len` slots (those beyond `len` are empty) -/
theorem inv_growRealloc' {g : G} (h : GInv g) (a len n : Nat) (ht : g.tbl = some (a, len)) (hn : len ≤ n) :
    GInv (growRealloc g a n) := by
  obtain ⟨ha, h2, hcap, hbeyond⟩ := h.tbl_wf a len ht
  refine ⟨?_, ?_, ?_, ?_, h.conserve⟩
  · intro a' len' ht'
    simp only [growRealloc] at ht' ⊢
    cases ht'
    simp only [ite_true]
    refine ⟨by omega, by omega, by omega, fun j hj => ?_⟩
    have : ¬ j < n := by omega
    simp [this]
  · intro a' j c ha' hs
    simp only [growRealloc] at ha' hs ⊢
    by_cases haa : a' = g.narr
    · subst haa
      simp only [ite_true] at hs
      split at hs
      · exact h.slot_valid a j c ha hs
      · cases hs
    · simp [haa] at hs; exact h.slot_valid a' j c (by omega) hs
  · intro c hc
    obtain ⟨a', len', i, ht', hi, hs⟩ := h.all_in c hc
    rw [ht] at ht'; cases ht'
    have hin : i < n := by omega
    exact ⟨g.narr, 2*n, i, rfl, by omega, by simp [growRealloc, hin, hs]⟩
  · intro a' len' j1 j2 c ht' h1 h2'
    simp only [growRealloc] at ht' h1 h2'
    cases ht'
    simp only [ite_true] at h1 h2'
    split at h1 <;> split at h2' <;> try contradiction
    exact h.inj a len j1 j2 c ht h1 h2'

/-! ## Lock holders, maintainers, thread-local invariant -/

/-- pcs between a successful `casCellsBusy` and the releasing store -/
def holdsPC : PC → Bool
  | .c5a | .c5b | .c5c | .c5d | .c5e | .c11 | .c12 | .c13
  | .k3 | .k3b | .k3f | .k4a | .k4b | .k4c => true
  | _ => false

def holds : L → Bool
  | .idle => false
  | .run pc _ => holdsPC pc

def isMnt : L → Bool
  | .idle => false
  | .run _ v => v.mnt

/-- thread-local invariant at a pc, relative to the heap -/
def LInvPC (g : G) (v : V) : PC → Prop
  | .ar | .a3 | .c1 => v.as.1 < g.narr
  | .a4 | .a5 | .c6 | .c7 => v.a < g.ncell
  | .c5b => g.tbl = some v.rs ∧ v.j < v.rs.2
  | .c5c => g.tbl = some v.rs ∧ v.j < v.rs.2 ∧ (g.arr v.rs.1).slot v.j = none
  | .c12 => g.tbl = some v.rs ∧ v.rs.1 = v.as.1
  | .k3f | .k4a | .k4b => g.tbl = none ∧ v.j < 2
  | .s0 | .s1 => (v.sar = true → v.mnt = true)
  | .s2 => (v.sar = true → v.mnt = true) ∧ v.as.1 < g.narr
  | .s3 => (v.sar = true → v.mnt = true) ∧ v.as.1 < g.narr ∧ v.a < g.ncell
  | .t0 | .t1 => v.mnt = true
  | .t2 | .t3 => v.mnt = true ∧ 2 ≤ v.as.2
  | _ => True

def LInv (g : G) : L → Prop
  | .idle => True
  | .run pc v => LInvPC g v pc

/-- guarantee of a thread that does not hold the lock (and is not a maintainer): the table
    structure is untouched -/
structure Frame (g g' : G) : Prop where
  tbl : g'.tbl = g.tbl
  arr : g'.arr = g.arr
  narr : g'.narr = g.narr
  ncell : g'.ncell = g.ncell

/-- guarantee of the lock holder: arrays and cells are only added -/
structure Mono (g g' : G) : Prop where
  narr : g.narr ≤ g'.narr
  ncell : g.ncell ≤ g'.ncell

theorem Frame.refl (g : G) : Frame g g := ⟨rfl, rfl, rfl, rfl⟩
theorem Mono.refl (g : G) : Mono g g := ⟨Nat.le_refl _, Nat.le_refl _⟩
theorem Frame.mono {g g' : G} (h : Frame g g') : Mono g g' := ⟨by rw [h.narr]; exact Nat.le_refl _, by rw [h.ncell]; exact Nat.le_refl _⟩

theorem Frame.leave {g g' : G} (h : Frame g g') (t : Tid) (v : V) : Frame g (leave t g' v) :=
  ⟨by simp [h.tbl], by simp [h.arr], by simp [h.narr], by simp [h.ncell]⟩

theorem LInv_frame {g g' : G} (hF : Frame g g') (l : L) (h : LInv g l) : LInv g' l := by
  cases l with
  | idle => trivial
  | run pc v =>
    cases pc <;> simp only [LInv, LInvPC, hF.tbl, hF.arr, hF.narr, hF.ncell] at h ⊢ <;> exact h

theorem LInv_mono {g g' : G} (hM : Mono g g') (l : L) (hh : holds l = false) (h : LInv g l) : LInv g' l := by
  have h1 := hM.narr
  have h2 := hM.ncell
  cases l with
  | idle => trivial
  | run pc v =>
    cases pc <;> simp only [holds, holdsPC] at hh <;> simp only [LInv, LInvPC] at h ⊢ <;>
      first
      | trivial
      | exact h
      | omega
      | exact ⟨h.1, by omega⟩
      | exact ⟨h.1, by omega, by omega⟩
      | cases hh

/-! ## One `stepRun` step: heap invariant, acting thread's invariant, guarantee -/

/-- what one `stepRun` step guarantees about the heap and the acting thread -/
structure StepOK (g : G) (pc : PC) (v : V) (g' : G) (l' : L) : Prop where
  ginv : GInv g'
  linv : LInv g' l'
  mono : v.mnt = false → Mono g g'
  frame : v.mnt = false → holdsPC pc = false → Frame g g'

theorem StepOK.ofSame {g : G} {pc : PC} {v : V} {l' : L} (hG : GInv g) (hl : LInv g l') : StepOK g pc v g l' :=
  ⟨hG, hl, fun _ => Mono.refl _, fun _ _ => Frame.refl _⟩

theorem StepOK.ofFrame {g g' : G} {pc : PC} {v : V} {l' : L} (hG : GInv g') (hF : Frame g g') (hl : LInv g' l') :
    StepOK g pc v g' l' :=
  ⟨hG, hl, fun _ => hF.mono, fun _ _ => hF⟩

theorem StepOK.ofHolder {g g' : G} {pc : PC} {v : V} {l' : L} (hh : holdsPC pc = true) (hG : GInv g')
    (hM : Mono g g') (hl : LInv g' l') : StepOK g pc v g' l' :=
  ⟨hG, hl, fun _ => hM, fun _ h => by rw [hh] at h; cases h⟩

theorem Frame.busy (g : G) (b : Bool) : Frame g { g with busy := b } := ⟨rfl, rfl, rfl, rfl⟩
theorem Frame.casBase (g : G) (x : Int) : Frame g (casBase g x) := ⟨rfl, rfl, rfl, rfl⟩
theorem Frame.casCell (g : G) (c : Nat) (x : Int) : Frame g (casCell g c x) := ⟨rfl, rfl, rfl, rfl⟩
theorem Frame.storeBase (g : G) (x : Int) : Frame g (storeBase g x) := ⟨rfl, rfl, rfl, rfl⟩

local macro "fin " h:ident : tactic =>
  `(tactic| (simp only [Prod.mk.injEq] at $h:ident; obtain ⟨h1, h2, h3⟩ := $h:ident; subst h1 h2 h3))

set_option maxHeartbeats 400000 in
theorem stepRun_heap {mc : Nat} {t : Tid} {g : G} {pc : PC} {v : V} {w : Nat} {g' : G} {l' : L} {obs : List Obs}
    (hG : GInv g) (hL : LInvPC g v pc) (hs : stepRun intAlg mc t g pc v w = (g', l', obs)) :
    StepOK g pc v g' l' := by
  cases pc <;> simp only [LInvPC] at hL <;>
    simp only [stepRun, intAlg_float, casBaseA_int, casCellA_int, retAdd, slotAt,
      Bool.false_eq_true, if_false] at hs
  case a0 =>
    split at hs <;> fin hs
    · exact .ofSame hG trivial
    · rename_i tb htb; exact .ofSame hG (hG.tbl_wf tb.1 tb.2 htb).1
  case a1 => fin hs; exact .ofSame hG trivial
  case a2 =>
    split at hs <;> fin hs
    · exact .ofFrame (GInv_leave (inv_casBase hG _) _ _) (Frame.leave (Frame.casBase _ _) _ _) trivial
    · exact .ofSame hG trivial
  case ar => fin hs; exact .ofSame hG hL
  case a3 =>
    split at hs <;> fin hs
    · exact .ofSame hG (by split <;> trivial)
    · rename_i c hc; exact .ofSame hG (hG.slot_valid _ _ c hL hc)
  case a4 => fin hs; exact .ofSame hG hL
  case a5 =>
    split at hs <;> fin hs
    · exact .ofFrame (GInv_leave (inv_casCell hG _ _ hL) _ _) (Frame.leave (Frame.casCell _ _ _) _ _) trivial
    · exact .ofSame hG (by split <;> trivial)
  case enter1 => fin hs; exact .ofSame hG (by split <;> trivial)
  case enter2 => fin hs; exact .ofSame hG trivial
  case c0 =>
    split at hs <;> fin hs
    · exact .ofSame hG trivial
    · rename_i tb htb; exact .ofSame hG (hG.tbl_wf tb.1 tb.2 htb).1
  case c1 =>
    split at hs
    · fin hs; exact .ofSame hG trivial
    · rename_i c hc
      split at hs <;> fin hs
      · exact .ofSame hG trivial
      · exact .ofSame hG (hG.slot_valid _ _ c hL hc)
  case c2 => split at hs <;> fin hs <;> exact .ofSame hG trivial
  case c2f => fin hs; exact .ofSame hG trivial
  case c3 => split at hs <;> fin hs <;> exact .ofSame hG trivial
  case c4 =>
    split at hs <;> fin hs
    · exact .ofSame hG trivial
    · exact .ofFrame (GInv_busy hG _) (Frame.busy _ _) trivial
  case c5a =>
    split at hs <;> fin hs
    · exact .ofSame hG trivial
    · rename_i tb htb
      exact .ofSame hG ⟨htb, mask_lt _ _ (hG.tbl_wf tb.1 tb.2 htb).2.1⟩
  case c5b =>
    split at hs <;> fin hs
    · rename_i hn; exact .ofSame hG ⟨hL.1, hL.2, hn⟩
    · exact .ofSame hG trivial
  case c5c =>
    fin hs
    exact .ofHolder rfl (inv_attach hG v.rs.1 v.rs.2 v.j v.x hL.1 hL.2.1 hL.2.2)
      ⟨Nat.le_refl _, Nat.le_succ _⟩ trivial
  case c5d =>
    fin hs
    exact .ofFrame (GInv_leave (GInv_busy hG _) _ _) (Frame.leave (Frame.busy _ _) _ _) trivial
  case c5e => fin hs; exact .ofFrame (GInv_busy hG _) (Frame.busy _ _) trivial
  case c6 => fin hs; exact .ofSame hG hL
  case c7 =>
    split at hs
    · fin hs
      exact .ofFrame (GInv_leave (inv_casCell hG _ _ hL) _ _) (Frame.leave (Frame.casCell _ _ _) _ _) trivial
    · split at hs <;> fin hs <;> exact .ofSame hG trivial
  case c8 => (repeat' split at hs) <;> fin hs <;> exact .ofSame hG trivial
  case c9 => split at hs <;> fin hs <;> exact .ofSame hG trivial
  case c10 =>
    split at hs <;> fin hs
    · exact .ofSame hG trivial
    · exact .ofFrame (GInv_busy hG _) (Frame.busy _ _) trivial
  case c11 =>
    split at hs
    · fin hs; exact .ofSame hG trivial
    · rename_i tb htb
      split at hs <;> fin hs
      · rename_i he; exact .ofSame hG ⟨htb, he⟩
      · exact .ofSame hG trivial
  case c12 =>
    have htb : g.tbl = some (v.as.1, v.rs.2) := by rw [hL.1, ← hL.2]
    split at hs <;> fin hs
    · exact .ofHolder rfl (inv_growReslice hG _ _ htb) ⟨Nat.le_refl _, Nat.le_refl _⟩ trivial
    · exact .ofHolder rfl (inv_growRealloc' hG _ _ _ htb (hG.tbl_wf _ _ htb).2.2.1)
        ⟨Nat.le_succ _, Nat.le_refl _⟩ trivial
  case c13 => fin hs; exact .ofFrame (GInv_busy hG _) (Frame.busy _ _) trivial
  case k0 => split at hs <;> fin hs <;> exact .ofSame hG trivial
  case k1 => split at hs <;> fin hs <;> exact .ofSame hG trivial
  case k2 =>
    split at hs <;> fin hs
    · exact .ofSame hG trivial
    · exact .ofFrame (GInv_busy hG _) (Frame.busy _ _) trivial
  case k3 =>
    split at hs <;> fin hs
    · rename_i hn
      exact .ofSame hG ⟨hn, by have := mask_le v.idx 1; show mask v.idx 1 < 2; omega⟩
    · exact .ofSame hG trivial
  case k3b => fin hs; exact .ofFrame (GInv_busy hG _) (Frame.busy _ _) trivial
  case k3f => fin hs; exact .ofSame hG hL
  case k4a => fin hs; exact .ofSame hG hL
  case k4b =>
    fin hs
    exact .ofHolder rfl (inv_initTable hG v.j v.x hL.1 hL.2) ⟨Nat.le_succ _, Nat.le_succ _⟩ trivial
  case k4c =>
    fin hs
    exact .ofFrame (GInv_leave (GInv_busy hG _) _ _) (Frame.leave (Frame.busy _ _) _ _) trivial
  case kb => fin hs; exact .ofSame hG trivial
  case kb2 =>
    split at hs <;> fin hs
    · exact .ofFrame (GInv_leave (inv_casBase hG _) _ _) (Frame.leave (Frame.casBase _ _) _ _) trivial
    · exact .ofSame hG trivial
  case s0 => fin hs; exact .ofSame hG hL
  case s1 =>
    split at hs
    · split at hs <;> fin hs
      · rename_i hsar; exact .ofSame hG (hL hsar)
      · exact .ofFrame (GInv_leave hG _ _) (Frame.leave (Frame.refl _) _ _) trivial
    · rename_i tb htb
      fin hs; exact .ofSame hG ⟨hL, (hG.tbl_wf tb.1 tb.2 htb).1⟩
  case s2 =>
    split at hs
    · split at hs
      · fin hs; exact .ofSame hG hL
      · split at hs <;> fin hs
        · rename_i hsar; exact .ofSame hG (hL.1 hsar)
        · exact .ofFrame (GInv_leave hG _ _) (Frame.leave (Frame.refl _) _ _) trivial
    · rename_i c hc
      fin hs; exact .ofSame hG ⟨hL.1, hL.2, hG.slot_valid _ _ c hL.2 hc⟩
  case s3 =>
    split at hs
    · fin hs; exact .ofSame hG ⟨hL.1, hL.2.1⟩
    · split at hs <;> fin hs
      · rename_i hsar; exact .ofSame hG (hL.1 hsar)
      · exact .ofFrame (GInv_leave hG _ _) (Frame.leave (Frame.refl _) _ _) trivial
  case t0 => fin hs; exact .ofFrame (inv_storeBase hG _) (Frame.storeBase _ _) hL
  case t1 =>
    split at hs <;> fin hs
    · exact .ofFrame (GInv_leave hG _ _) (Frame.leave (Frame.refl _) _ _) trivial
    · rename_i tb htb; exact .ofSame hG ⟨hL, (hG.tbl_wf tb.1 tb.2 htb).2.1⟩
  case t2 => split at hs <;> fin hs <;> exact .ofSame hG hL
  case t3 =>
    fin hs
    exact ⟨GInv_leave (inv_storeTable _ hL.2) _ _, trivial,
      fun h => (by rw [hL.1] at h; cases h), fun h => (by rw [hL.1] at h; cases h)⟩


/-! ## Lock and ghost transitions of a step -/

/-- how a step moves the spin lock -/
inductive LockTr (g : G) (l : L) (g' : G) (l' : L) : Prop
  | keep : holds l = true → holds l' = true → g'.busy = g.busy → LockTr g l g' l'
  | release : holds l = true → holds l' = false → g'.busy = false → LockTr g l g' l'
  | out : holds l = false → holds l' = false → g'.busy = g.busy → LockTr g l g' l'
  | acquire : holds l = false → holds l' = true → g.busy = false → g'.busy = true → LockTr g l g' l'

/-- how a step moves the ghost maintenance state -/
inductive GhostTr (t : Tid) (g : G) (l : L) (g' : G) (l' : L) : Prop
  | stay : l ≠ .idle → l' ≠ .idle → isMnt l' = isMnt l → g'.actv = g.actv → g'.maint = g.maint → GhostTr t g l g' l'
  | leaveM : isMnt l = true → l' = .idle → g'.actv = [] → g'.maint = false → GhostTr t g l g' l'
  | leaveN : isMnt l = false → l ≠ .idle → l' = .idle → g'.actv = g.actv.filter (· ≠ t) → g'.maint = g.maint →
      GhostTr t g l g' l'
  | startN : l = .idle → l' ≠ .idle → isMnt l' = false → g.maint = false → g'.actv = t :: g.actv →
      g'.maint = false → GhostTr t g l g' l'
  | startM : l = .idle → l' ≠ .idle → isMnt l' = true → g.maint = false → g.actv = [] → g'.actv = [t] →
      g'.maint = true → GhostTr t g l g' l'

theorem ghost_stay {t : Tid} {g g' : G} {pc pc' : PC} {v v' : V} (ha : g'.actv = g.actv) (hm : g'.maint = g.maint)
    (hv : v'.mnt = v.mnt) : GhostTr t g (.run pc v) g' (.run pc' v') :=
  .stay (fun h => by cases h) (fun h => by cases h) hv ha hm

theorem ghost_leave {t : Tid} {g : G} {pc : PC} {v : V} (g'' : G) (ha : g''.actv = g.actv) (hm : g''.maint = g.maint) :
    GhostTr t g (.run pc v) (leave t g'' v) .idle := by
  cases hv : v.mnt
  · exact .leaveN hv (fun h => by cases h) rfl (by simp [leave, hv, ha]) (by simp [leave, hv, hm])
  · exact .leaveM hv rfl (by simp [leave, hv]) (by simp [leave, hv])

set_option maxHeartbeats 1000000 in
theorem stepRun_ghost {mc : Nat} {t : Tid} {g : G} {pc : PC} {v : V} {w : Nat} {g' : G} {l' : L} {obs : List Obs}
    (hs : stepRun intAlg mc t g pc v w = (g', l', obs)) : GhostTr t g (.run pc v) g' l' := by
  cases pc <;> simp only [stepRun, intAlg_float, retAdd, Bool.false_eq_true, if_false] at hs <;>
    (repeat' split at hs) <;> fin hs <;>
    first
    | exact ghost_stay rfl rfl rfl
    | exact ghost_leave _ rfl rfl

set_option maxHeartbeats 1000000 in
theorem stepRun_lock {mc : Nat} {t : Tid} {g : G} {pc : PC} {v : V} {w : Nat} {g' : G} {l' : L} {obs : List Obs}
    (hs : stepRun intAlg mc t g pc v w = (g', l', obs)) : LockTr g (.run pc v) g' l' := by
  cases pc <;> simp only [stepRun, intAlg_float, retAdd, Bool.false_eq_true, if_false] at hs <;>
    (repeat' split at hs) <;> fin hs <;>
    first
    | exact .out rfl rfl rfl
    | exact .out rfl rfl (leave_busy _ _ _)
    | exact .keep rfl rfl rfl
    | exact .release rfl rfl rfl
    | exact .release rfl rfl (leave_busy _ _ _)
    | exact .acquire rfl rfl (by simpa using ‹¬ g.busy = true›) rfl


/-! ## One machine step -/

/-- everything a machine step guarantees -/
structure StepSum (t : Tid) (g : G) (l : L) (g' : G) (l' : L) : Prop where
  ginv : GInv g'
  linv : LInv g' l'
  mono : isMnt l = false → Mono g g'
  frame : isMnt l = false → holds l = false → Frame g g'
  lock : LockTr g l g' l'
  ghost : GhostTr t g l g' l'

theorem StepSum.ofRun {mc : Nat} {t : Tid} {g : G} {pc : PC} {v : V} {w : Nat} {g' : G} {l' : L} {obs : List Obs}
    (hG : GInv g) (hL : LInv g (.run pc v)) (hs : stepRun intAlg mc t g pc v w = (g', l', obs)) :
    StepSum t g (.run pc v) g' l' :=
  have h := stepRun_heap hG hL hs
  ⟨h.ginv, h.linv, h.mono, h.frame, stepRun_lock hs, stepRun_ghost hs⟩

theorem maint_guard {g : G} (h : ¬ (g.maint || !g.actv.isEmpty) = true) : g.maint = false ∧ g.actv = [] := by
  cases hm : g.maint <;> cases ha : g.actv <;> simp_all

theorem StepSum.startN {t : Tid} {g : G} {pc : PC} {v : V} (hm : ¬ g.maint = true) (hv : v.mnt = false)
    (hh : holdsPC pc = false) (hl : LInvPC g v pc) (hG : GInv g) :
    StepSum t g .idle { g with actv := t :: g.actv } (.run pc v) :=
  ⟨GInv_ghost hG rfl rfl rfl rfl rfl rfl rfl, hl, fun _ => ⟨Nat.le_refl _, Nat.le_refl _⟩, fun _ _ => ⟨rfl, rfl, rfl, rfl⟩,
    .out rfl hh rfl,
    .startN rfl (fun h => by cases h) hv (by simpa using hm) rfl (by simpa using hm)⟩

theorem StepSum.startM {t : Tid} {g : G} {pc : PC} {v : V} (hm : ¬ (g.maint || !g.actv.isEmpty) = true)
    (hv : v.mnt = true) (hh : holdsPC pc = false) (hl : LInvPC g v pc) (hG : GInv g) :
    StepSum t g .idle { g with actv := [t], maint := true } (.run pc v) :=
  ⟨GInv_ghost hG rfl rfl rfl rfl rfl rfl rfl, hl, fun _ => ⟨Nat.le_refl _, Nat.le_refl _⟩, fun _ _ => ⟨rfl, rfl, rfl, rfl⟩,
    .out rfl hh rfl,
    .startM rfl (fun h => by cases h) hv (maint_guard hm).1 (maint_guard hm).2 rfl rfl⟩

theorem step_sum {mc : Nat} {t : Tid} {g : G} {l : L} {a : Act} {g' : G} {l' : L} {obs : List Obs}
    (hG : GInv g) (hL : LInv g l) (hs : step intAlg mc t g l a = some (g', l', obs)) : StepSum t g l g' l' := by
  cases l <;> cases a <;> simp only [step] at hs <;> try contradiction
  case idle.add x =>
    split at hs; · cases hs
    rename_i hm; cases hs
    exact .startN hm rfl rfl trivial hG
  case idle.sum =>
    split at hs; · cases hs
    rename_i hm; cases hs
    exact .startN hm rfl rfl (fun h => by cases h) hG
  case idle.store x =>
    split at hs; · cases hs
    rename_i hm; cases hs
    exact .startM hm rfl rfl rfl hG
  case idle.reset =>
    split at hs; · cases hs
    rename_i hm; cases hs
    exact .startM hm rfl rfl rfl hG
  case idle.sumAndReset =>
    split at hs; · cases hs
    rename_i hm; cases hs
    exact .startM hm rfl rfl (fun _ => rfl) hG
  case run.tau pc v =>
    split at hs; · cases hs
    simp only [Option.some.injEq] at hs
    exact .ofRun hG hL hs
  case run.rnd pc v w =>
    split at hs
    · simp only [Option.some.injEq] at hs
      exact .ofRun hG hL hs
    · cases hs

/-! ## The machine invariant -/

/-- the invariant, on the raw components of a configuration -/
structure AInvAt (g : G) (l : Tid → L) : Prop where
  /-- heap invariant -/
  ginv : GInv g
  /-- thread-local invariants (holder-local facts, valid array / cell references, maintainer facts) -/
  linv : ∀ t, LInv g (l t)
  /-- lock discipline -/
  lock_busy : ∀ t, holds (l t) = true → g.busy = true
  lock_excl : ∀ t u, holds (l t) = true → holds (l u) = true → t = u
  busy_held : g.busy = true → ∃ t, holds (l t) = true
  /-- maintenance discipline -/
  actv_iff : ∀ t, t ∈ g.actv ↔ l t ≠ L.idle
  maint_iff : g.maint = true ↔ ∃ t, isMnt (l t) = true
  mnt_excl : ∀ t u, isMnt (l t) = true → u ≠ t → l u = L.idle

/-- the machine-level invariant of `M intAlg mc` -/
def AInv {mc : Nat} (c : Config (M intAlg mc)) : Prop := AInvAt c.g c.l


theorem ainv_init (mc : Nat) : AInv (Config.init (M intAlg mc)) := by
  refine ⟨⟨?_, ?_, ?_, ?_, ?_⟩, fun _ => trivial, ?_, ?_, ?_, ?_, ?_, ?_⟩
  · intro a len h; cases h
  · intro a j c h; exact absurd h (Nat.not_lt_zero _)
  · intro c h; exact absurd h (Nat.not_lt_zero _)
  · intro a len j1 j2 c h; cases h
  · rfl
  · intro t h; cases h
  · intro t u h; cases h
  · intro h; cases h
  · intro t; constructor
    · intro h; cases h
    · intro h; exact absurd rfl h
  · constructor
    · intro h; cases h
    · intro ⟨t, h⟩; cases h
  · intro t u h; cases h

theorem ainv_step {mc : Nat} {g : G} {l : Tid → L} {t : Tid} {a : Act} {g' : G} {l' : L} {obs : List Obs}
    (hI : AInvAt g l) (hs : step intAlg mc t g (l t) a = some (g', l', obs)) :
    AInvAt g' (upd l t l') := by
  have S := step_sum hI.ginv (hI.linv t) hs
  refine ⟨S.ginv, ?_, ?_, ?_, ?_, ?_, ?_, ?_⟩
  · -- thread-local invariants
    intro u
    by_cases hut : u = t
    · subst hut; simp only [upd_same]; exact S.linv
    · simp only [upd_other _ _ _ _ hut]
      cases hm : isMnt (l t)
      · cases hh : holds (l t)
        · exact LInv_frame (S.frame hm hh) _ (hI.linv u)
        · refine LInv_mono (S.mono hm) _ ?_ (hI.linv u)
          cases hu : holds (l u)
          · rfl
          · exact absurd (hI.lock_excl u t hu hh) hut
      · rw [hI.mnt_excl t u hm hut]; trivial
  · -- a holder sees busy
    intro u hu
    show g'.busy = true
    by_cases hut : u = t
    · subst hut; simp only [upd_same] at hu
      cases S.lock with
      | keep h1 h2 h3 => rw [h3]; exact hI.lock_busy u h1
      | release h1 h2 h3 => rw [h2] at hu; cases hu
      | out h1 h2 h3 => rw [h2] at hu; cases hu
      | acquire h1 h2 h3 h4 => exact h4
    · simp only [upd_other _ _ _ _ hut] at hu
      cases S.lock with
      | keep h1 h2 h3 => rw [h3]; exact hI.lock_busy u hu
      | release h1 h2 h3 => exact absurd (hI.lock_excl u t hu h1) hut
      | out h1 h2 h3 => rw [h3]; exact hI.lock_busy u hu
      | acquire h1 h2 h3 h4 => exact h4
  · -- mutual exclusion
    intro u w hu hw
    have key : ∀ x, x ≠ t → holds (l x) = true → holds (l t) = true ∨ g.busy = false → False := by
      intro x hx hhx hor
      rcases hor with h | h
      · exact hx (hI.lock_excl x t hhx h)
      · have := hI.lock_busy x hhx; rw [h] at this; cases this
    have hpost : holds l' = true → holds (l t) = true ∨ g.busy = false := by
      intro h
      cases S.lock with
      | keep h1 h2 h3 => exact Or.inl h1
      | release h1 h2 h3 => rw [h2] at h; cases h
      | out h1 h2 h3 => rw [h2] at h; cases h
      | acquire h1 h2 h3 h4 => exact Or.inr h3
    by_cases hut : u = t <;> by_cases hwt : w = t
    · rw [hut, hwt]
    · subst hut; simp only [upd_same] at hu; simp only [upd_other _ _ _ _ hwt] at hw
      exact absurd (hpost hu) (fun h => key w hwt hw h)
    · subst hwt; simp only [upd_same] at hw; simp only [upd_other _ _ _ _ hut] at hu
      exact absurd (hpost hw) (fun h => key u hut hu h)
    · simp only [upd_other _ _ _ _ hut] at hu; simp only [upd_other _ _ _ _ hwt] at hw
      exact hI.lock_excl u w hu hw
  · -- busy is held by someone
    intro hb
    have hb : g'.busy = true := hb
    cases S.lock with
    | keep h1 h2 h3 => exact ⟨t, by simp only [upd_same]; exact h2⟩
    | release h1 h2 h3 => rw [h3] at hb; cases hb
    | out h1 h2 h3 =>
      rw [h3] at hb
      obtain ⟨u, hu⟩ := hI.busy_held hb
      have hut : u ≠ t := fun h => by subst h; rw [h1] at hu; cases hu
      exact ⟨u, by simp only [upd_other _ _ _ _ hut]; exact hu⟩
    | acquire h1 h2 h3 h4 => exact ⟨t, by simp only [upd_same]; exact h2⟩
  · -- actv lists exactly the non-idle threads
    intro u
    show u ∈ g'.actv ↔ _
    have hA := hI.actv_iff
    by_cases hut : u = t
    · subst hut; simp only [upd_same]
      cases S.ghost with
      | stay h1 h2 h3 h4 h5 => rw [h4]; exact ⟨fun _ => h2, fun _ => (hA u).2 h1⟩
      | leaveM h1 h2 h3 h4 => rw [h3, h2]; simp
      | leaveN h1 h2 h3 h4 h5 => rw [h4, h3]; simp
      | startN h1 h2 h3 h4 h5 h6 => rw [h5]; simp [h2]
      | startM h1 h2 h3 h4 h5 h6 h7 => rw [h6]; simp [h2]
    · simp only [upd_other _ _ _ _ hut]
      cases S.ghost with
      | stay h1 h2 h3 h4 h5 => rw [h4]; exact hA u
      | leaveM h1 h2 h3 h4 => rw [h3, hI.mnt_excl t u h1 hut]; simp
      | leaveN h1 h2 h3 h4 h5 => rw [h4]; simp [hut, hA u]
      | startN h1 h2 h3 h4 h5 h6 => rw [h5]; simp [hut, hA u]
      | startM h1 h2 h3 h4 h5 h6 h7 =>
        rw [h6]
        have : l u = L.idle := by
          have := (hA u); rw [h5] at this
          cases hl : l u with
          | idle => rfl
          | run pc v => exact absurd (this.2 (by rw [hl]; intro h; cases h)) (by simp)
        simp [hut, this]
  · -- maint flags the maintainer
    show g'.maint = true ↔ _
    have hM := hI.maint_iff
    have same : isMnt l' = isMnt (l t) →
        ((∃ u, isMnt (upd l t l' u) = true) ↔ ∃ u, isMnt (l u) = true) := by
      intro he
      constructor
      · intro ⟨u, hu⟩
        by_cases hut : u = t
        · subst hut; simp only [upd_same] at hu; exact ⟨u, by rw [← he]; exact hu⟩
        · simp only [upd_other _ _ _ _ hut] at hu; exact ⟨u, hu⟩
      · intro ⟨u, hu⟩
        by_cases hut : u = t
        · subst hut; exact ⟨u, by simp only [upd_same]; rw [he]; exact hu⟩
        · exact ⟨u, by simp only [upd_other _ _ _ _ hut]; exact hu⟩
    cases S.ghost with
    | stay h1 h2 h3 h4 h5 => rw [h5, same h3]; exact hM
    | leaveM h1 h2 h3 h4 =>
      rw [h4]
      constructor
      · intro h; cases h
      · intro ⟨u, hu⟩
        by_cases hut : u = t
        · subst hut; simp only [upd_same] at hu; rw [h2] at hu; cases hu
        · simp only [upd_other _ _ _ _ hut] at hu; rw [hI.mnt_excl t u h1 hut] at hu; cases hu
    | leaveN h1 h2 h3 h4 h5 => rw [h5, same (by rw [h3, h1]; rfl)]; exact hM
    | startN h1 h2 h3 h4 h5 h6 =>
      rw [h6, same (by rw [h3, h1]; rfl), ← hM, h4]
    | startM h1 h2 h3 h4 h5 h6 h7 =>
      rw [h7]
      exact ⟨fun _ => ⟨t, by simp only [upd_same]; exact h3⟩, fun _ => rfl⟩
  · -- a maintainer runs alone
    intro u w hu hwu
    have hA := hI.actv_iff
    have nomnt : g.maint = false → ∀ x, isMnt (l x) = true → False := by
      intro hf x hx
      have := hI.maint_iff.2 ⟨x, hx⟩
      rw [hf] at this; cases this
    have notidle : ∀ x, isMnt (l x) = true → l x ≠ L.idle := by
      intro x hx h; rw [h] at hx; cases hx
    by_cases hut : u = t
    · subst hut; simp only [upd_same] at hu; simp only [upd_other _ _ _ _ hwu]
      cases S.ghost with
      | stay h1 h2 h3 h4 h5 => exact hI.mnt_excl u w (by rw [← h3]; exact hu) hwu
      | leaveM h1 h2 h3 h4 => rw [h2] at hu; cases hu
      | leaveN h1 h2 h3 h4 h5 => rw [h3] at hu; cases hu
      | startN h1 h2 h3 h4 h5 h6 => rw [h3] at hu; cases hu
      | startM h1 h2 h3 h4 h5 h6 h7 =>
        cases hl : l w with
        | idle => rfl
        | run pc v =>
          have := (hA w).2 (by rw [hl]; intro h; cases h)
          rw [h5] at this; cases this
    · simp only [upd_other _ _ _ _ hut] at hu
      have htidle : l t = L.idle := hI.mnt_excl u t hu (fun h => hut h.symm)
      cases S.ghost with
      | stay h1 h2 h3 h4 h5 => exact absurd htidle h1
      | leaveM h1 h2 h3 h4 => rw [htidle] at h1; cases h1
      | leaveN h1 h2 h3 h4 h5 => exact absurd htidle h2
      | startN h1 h2 h3 h4 h5 h6 => exact absurd hu (fun h => nomnt h4 u h)
      | startM h1 h2 h3 h4 h5 h6 h7 => exact absurd hu (fun h => nomnt h4 u h)

/-- **Every reachable configuration of the integer striped adder satisfies `AInv`.** -/
theorem ainv_reach : ∀ (mc : Nat) (c : Config (M intAlg mc)), Reach (M intAlg mc) c → AInv c := by
  intro mc
  apply inv_of_reach
  · exact ainv_init mc
  · intro c t a g' l' obs hI hs
    exact ainv_step hI hs

/-- at most one maintainer -/
theorem AInvAt.mnt_unique {g : G} {l : Tid → L} (h : AInvAt g l) {t u : Tid}
    (ht : isMnt (l t) = true) (hu : isMnt (l u) = true) : t = u := by
  by_cases hut : u = t
  · exact hut.symm
  · rw [h.mnt_excl t u ht hut] at hu; cases hu

/-- while a maintenance operation runs, no other operation is in progress -/
theorem AInvAt.maint_all {g : G} {l : Tid → L} (h : AInvAt g l) (hm : g.maint = true) (u : Tid)
    (hu : l u ≠ L.idle) : isMnt (l u) = true := by
  obtain ⟨t, ht⟩ := h.maint_iff.1 hm
  by_cases hut : u = t
  · rw [hut]; exact ht
  · exact absurd (h.mnt_excl t u ht hut) hu

/-- a maintenance step happens only when all other threads are idle -/
theorem AInvAt.maint_alone {g : G} {l : Tid → L} (h : AInvAt g l) {t : Tid} (ht : isMnt (l t) = true) :
    ∀ u, u ≠ t → l u = L.idle := fun u hu => h.mnt_excl t u ht hu

/-! ## Conservation (C02) -/

/-- in every reachable configuration, base plus the cells of the published table is the ghost total -/
theorem conservation {mc : Nat} {c : Config (M intAlg mc)} (h : Reach (M intAlg mc) c) :
    G.base c.g + tableSum c.g = G.applied c.g :=
  quiescent_sum (ainv_reach mc c h).ginv

/-- Σ x over the linearization-point markers of an observation list -/
def lpSum : List Obs → Int
  | [] => 0
  | .lp x :: r => x + lpSum r
  | .ret _ :: r => lpSum r

set_option maxHeartbeats 1000000 in
theorem stepRun_applied {mc : Nat} {t : Tid} {g : G} {pc : PC} {v : V} {w : Nat} {g' : G} {l' : L} {obs : List Obs}
    (hL : LInvPC g v pc) (hm : v.mnt = false) (hs : stepRun intAlg mc t g pc v w = (g', l', obs)) :
    g'.applied = g.applied + lpSum obs := by
  cases pc <;> simp only [LInvPC] at hL <;>
    simp only [stepRun, intAlg_float, retAdd, casBaseA_int, casCellA_int, Bool.false_eq_true, if_false] at hs <;>
    (repeat' split at hs) <;> fin hs <;>
    first
    | simp [lpSum]; done
    | simp [lpSum, casBase]; done
    | simp [lpSum, casCell]; done
    | simp [lpSum, attach]; done
    | simp [lpSum, initTable]; done
    | simp [lpSum, growReslice]; done
    | simp [lpSum, growRealloc]; done
    | exact absurd hL (by simp [hm])

/-- **C02, step form.**  A step of a thread that is not running a maintenance operation changes the
    ghost total by exactly the operands of the linearization points it emits. -/
theorem applied_step {mc : Nat} {c : Config (M intAlg mc)} {t : Tid} {a : Act} {g' : G} {l' : L} {obs : List Obs}
    (hr : Reach (M intAlg mc) c) (hs : step intAlg mc t c.g (c.l t) a = some (g', l', obs))
    (hm : isMnt (c.l t) = false) : g'.applied = G.applied c.g + lpSum obs := by
  have hI := ainv_reach mc c hr
  have hL := hI.linv t
  revert hs hm hL
  generalize c.l t = l
  generalize c.g = g
  intro hs hm hL
  cases l <;> cases a <;> simp only [step] at hs <;> try contradiction
  case idle.add x => split at hs <;> cases hs; simp [lpSum]
  case idle.sum => split at hs <;> cases hs; simp [lpSum]
  case idle.store x => split at hs <;> cases hs; simp [lpSum]
  case idle.reset => split at hs <;> cases hs; simp [lpSum]
  case idle.sumAndReset => split at hs <;> cases hs; simp [lpSum]
  case run.tau pc v =>
    split at hs; · cases hs
    simp only [Option.some.injEq] at hs
    exact stepRun_applied hL hm hs
  case run.rnd pc v w =>
    split at hs
    · simp only [Option.some.injEq] at hs
      exact stepRun_applied hL hm hs
    · cases hs

/-- shape of what a step of a running operation makes observable: a linearization point `lp x` is
    emitted exactly by a successful base / cell CAS (together with the response), by the attaching
    slot store `c5c` and by the initial table publication `k4b` (each followed by the pure response
    steps `c5d` / `k4c`); `x` is the operand carried by the thread. -/
theorem stepRun_obs {mc : Nat} {t : Tid} {g : G} {pc : PC} {v : V} {w : Nat} {g' : G} {l' : L} {obs : List Obs}
    (hs : stepRun intAlg mc t g pc v w = (g', l', obs)) :
    (obs = [] ∧ ∃ pc' v', l' = .run pc' v' ∧ (v'.x = v.x ∨ pc' = .t0)) ∨
    (obs = [.lp v.x, .ret none] ∧ l' = .idle ∧ (pc = .a2 ∨ pc = .a5 ∨ pc = .c7 ∨ pc = .kb2)) ∨
    (obs = [.lp v.x] ∧ ((pc = .c5c ∧ l' = .run .c5d v) ∨ (pc = .k4b ∧ l' = .run .k4c v))) ∨
    (∃ r, obs = [.ret r] ∧ l' = .idle ∧
      ((r = none ∧ (pc = .c5d ∨ pc = .k4c)) ∨ pc = .s1 ∨ pc = .s2 ∨ pc = .s3 ∨ pc = .t1 ∨ pc = .t3)) := by
  cases pc <;> simp only [stepRun, intAlg_float, retAdd, Bool.false_eq_true, if_false] at hs <;>
    (repeat' split at hs) <;> fin hs <;>
    first
    | exact Or.inl ⟨rfl, _, _, rfl, Or.inl rfl⟩
    | exact Or.inl ⟨rfl, _, _, rfl, Or.inr rfl⟩
    | simp

/-! ### Exactly one linearization point per `Add`

An `Add x` starts at `a0` with `v.x = x` (a `preLP` pc).  `preLP` pcs are closed under silent steps,
which keep `x`; the only other steps from a `preLP` pc emit exactly `lp x`, either together with the
response, or moving to a `postLP` pc (`c5d` / `k4c`), whose only step emits the response alone. -/

/-- pcs of `Add` before its linearization point -/
def preLP : PC → Bool
  | .a0 | .a1 | .a2 | .ar | .a3 | .a4 | .a5 | .enter1 | .enter2
  | .c0 | .c1 | .c2 | .c2f | .c3 | .c4 | .c5a | .c5b | .c5c | .c5e
  | .c6 | .c7 | .c8 | .c9 | .c10 | .c11 | .c12 | .c13
  | .k0 | .k1 | .k2 | .k3 | .k3b | .k3f | .k4a | .k4b | .kb | .kb2 => true
  | _ => false

/-- pcs of `Add` after its linearization point -/
def postLP : PC → Bool
  | .c5d | .k4c => true
  | _ => false

theorem add_start {mc : Nat} {t : Tid} {g g' : G} {l' : L} {obs : List Obs} {x : Int}
    (hs : step intAlg mc t g .idle (.add x) = some (g', l', obs)) :
    obs = [] ∧ l' = .run .a0 { x := x } := by
  simp only [step] at hs
  split at hs
  · cases hs
  · cases hs; exact ⟨rfl, rfl⟩

set_option maxHeartbeats 1000000 in
theorem add_pre_step {mc : Nat} {t : Tid} {g : G} {pc : PC} {v : V} {w : Nat} {g' : G} {l' : L} {obs : List Obs}
    (hp : preLP pc = true) (hs : stepRun intAlg mc t g pc v w = (g', l', obs)) :
    (obs = [] ∧ ∃ pc' v', l' = .run pc' v' ∧ preLP pc' = true ∧ v'.x = v.x) ∨
    (obs = [.lp v.x, .ret none] ∧ l' = .idle) ∨
    (obs = [.lp v.x] ∧ ∃ pc', l' = .run pc' v ∧ postLP pc' = true) := by
  cases pc <;> simp only [preLP] at hp <;> try (cases hp; done)
  all_goals
    simp only [stepRun, intAlg_float, retAdd, Bool.false_eq_true, if_false] at hs <;>
    (repeat' split at hs) <;> fin hs <;>
    first
    | exact Or.inl ⟨rfl, _, _, rfl, rfl, rfl⟩
    | exact Or.inr (Or.inl ⟨rfl, rfl⟩)
    | exact Or.inr (Or.inr ⟨rfl, _, rfl, rfl⟩)

theorem add_post_step {mc : Nat} {t : Tid} {g : G} {pc : PC} {v : V} {w : Nat} {g' : G} {l' : L} {obs : List Obs}
    (hp : postLP pc = true) (hs : stepRun intAlg mc t g pc v w = (g', l', obs)) :
    obs = [.ret none] ∧ l' = .idle := by
  cases pc <;> simp only [postLP] at hp <;> try (cases hp; done)
  all_goals
    simp only [stepRun] at hs <;> fin hs <;> exact ⟨rfl, rfl⟩

end Garr.Adder
