import Garr.Adder.Inv
import Garr.Adder.Solo
/-!
# C09: what a `Sum` that races with updates returns (integer striped adder)

A ghost-instrumented machine `MG mc` runs EXACTLY the steps of `M intAlg mc` on the first components
of its shared state `G × Ghost` and local state `L × LGhost` (`gstep` calls `step intAlg mc` and then
updates the ghosts from what the step did), so the projection is a simulation by construction, in both
directions: `proj_step`, `lift_step` (ghosts never block), `reach_proj`, `run_lift`.

**Restriction.**  `MG` DISABLES the maintenance invocations `Act.store / reset / sumAndReset`
(`gstep` returns `none` for them): the property is about runs whose operations are `Add` and `Sum`
only.  Consequently no thread ever runs a maintenance operation (`sinv_maint`: `maint = false` and
`isMnt (l t) = false` for all `t`), `storeBase` / `storeTable` never run and cells are never renumbered.

Ghosts:
* every `Add x` gets a fresh update id `u` at its invocation (`LGhost.upd u`, `Ghost.xOf u = x`; `add_invoke`);
* at the step that emits `Obs.lp x` the update lands at a location (`Loc.base` for a base CAS `a2/kb2`,
  `Loc.cell v.a` for a cell CAS `a5/c7`, `Loc.cell g.ncell` -- the new cell -- for the attach `c5c` and
  the table initialisation `k4b`; that this is where the heap really changes is `stepRun_eff`):
  `Ghost.loc u`, `Ghost.hist ℓ` (ids landed at `ℓ`, oldest first), `Ghost.lped` (all ids whose
  linearization point has occurred);
* `Ghost.completed`: ids whose `Add` has returned (`ghost_meaning`: exactly the ids for which the tagged
  response has been emitted); always a sublist of `lped` (`lped_spec`);
* an in-flight `Sum` carries `LGhost.sum counted must`: `must` is `Ghost.lped` at its invocation
  (`sum_invoke`) and never changes (`sum_ghost_step`); `counted` grows by `hist base` at the read of
  `base` (`s0`) and by `hist (cell v.a)` at the read of a cell (`s3`);
* every observation of `MG` is the observation of `M` tagged with the ghost of the acting thread after
  the step (`LGhost.upd u` for an update, `LGhost.sum counted must` for a `Sum`; `sum_ret_tagged`).

Invariants (`SInvAt`, `sinv_reach`): the invariant `AInvAt` of `M`; `GhInv` (exact value of `base` / of
every materialised cell = total of its history, `u ∈ hist ℓ ↔ loc u = some ℓ`, histories duplicate-free,
located ids allocated and at live locations, every backing array -- published or superseded -- holds a
cell in at most one slot); `TInv` per thread (an `Add` before its linearization point owns an
allocated, unlocated id carrying its operand; a `Sum` satisfies `SumInv`: accumulator ≡ total of
`counted` mod 2^64, `counted` duplicate-free and located at `base` or in already visited slots of the
loaded array, every `must` id counted or sitting in a slot still to be visited); in-flight ids distinct.
Stability of the `Sum` invariant under the other threads (`Guar`, `SumInv.stable`) needs only that ghost
maps grow and that slots are write-once; that every located cell is in the table the `Sum` loads at
`s1` is `GInv.all_in` (every materialised cell is in the currently published table).

Main results: `sum_bounds` (the response of a `Sum` is the wrapped total of a duplicate-free list
`counted` of update ids whose linearization point has occurred, containing every id whose linearization
point -- a fortiori whose return -- preceded the invocation of the `Sum`); `sum_is_set` (the same shape
for every in-flight `Sum`); `no_double_count`, `value_eq_hist`; `run_sum_bounds` / `sum_bounds_run` (along
every run, tied to the runs of the un-instrumented `M intAlg mc`); `sum_monotone` (successive `Sum`s
count growing sets).
-/
namespace Garr.Adder
open Garr.Conc

/-! ## Ghost state -/

inductive Loc
  | base
  | cell (c : Nat)
deriving DecidableEq, Repr

structure Ghost where
  nupd : Nat                    -- next fresh update id
  xOf : Nat → Int               -- operand of update `u`
  loc : Nat → Option Loc        -- where update `u` landed (`none`: linearization point not yet passed)
  hist : Loc → List Nat         -- ids landed at a location, oldest first
  lped : List Nat               -- ids whose linearization point has occurred
  completed : List Nat          -- ids whose `Add` has returned

def Ghost.init : Ghost := ⟨0, fun _ => 0, fun _ => none, fun _ => [], [], []⟩

inductive LGhost
  | none
  | upd (u : Nat)
  | sum (counted must : List Nat)

def lsum (xOf : Nat → Int) : List Nat → Int
  | [] => 0
  | u :: us => xOf u + lsum xOf us

theorem lsum_append (xOf : Nat → Int) (a b : List Nat) : lsum xOf (a ++ b) = lsum xOf a + lsum xOf b := by
  induction a with
  | nil => simp [lsum]
  | cons u us ih => simp [lsum, ih]; omega

theorem lsum_congr {f g : Nat → Int} {l : List Nat} (h : ∀ u ∈ l, f u = g u) : lsum f l = lsum g l := by
  induction l with
  | nil => rfl
  | cons u us ih =>
    simp only [lsum]
    rw [h u (by simp), ih (fun v hv => h v (by simp [hv]))]

def isLp : Obs → Bool
  | .lp _ => true
  | _ => false

def isRet : Obs → Bool
  | .ret _ => true
  | _ => false

/-- where the update of a thread at `pc` lands if this step is its linearization point -/
def lpLoc (g : G) (pc : PC) (v : V) : Loc :=
  match pc with
  | .a5 | .c7 => .cell v.a
  | .c5c | .k4b => .cell g.ncell
  | _ => .base

/-- what a `Sum` at `pc` adds to its `counted` list in this step -/
def readHist (gh : Ghost) (pc : PC) (v : V) (counted : List Nat) : List Nat :=
  match pc with
  | .s0 => counted ++ gh.hist .base
  | .s3 => counted ++ gh.hist (.cell v.a)
  | _ => counted

def Ghost.alloc (gh : Ghost) (x : Int) : Ghost :=
  { gh with xOf := fun u => if u = gh.nupd then x else gh.xOf u, nupd := gh.nupd + 1 }

def Ghost.land (gh : Ghost) (u : Nat) (ℓ : Loc) : Ghost :=
  { gh with loc := fun w => if w = u then some ℓ else gh.loc w,
            hist := fun k => if k = ℓ then gh.hist k ++ [u] else gh.hist k,
            lped := u :: gh.lped }

def Ghost.complete (gh : Ghost) (u : Nat) : Ghost := { gh with completed := u :: gh.completed }

/-- `Add`, `Sum` and the internal actions; the maintenance invocations are excluded -/
def noMaint : Act → Bool
  | .store _ | .reset | .sumAndReset => false
  | _ => true

/-- the ghost state after a step of `M` from `(g, l)` with action `a` that emitted `obs` -/
def ghostG (g : G) (gh : Ghost) (l : L) (lg : LGhost) (a : Act) (obs : List Obs) : Ghost :=
  match l with
  | .idle =>
    match a with
    | .add x => gh.alloc x
    | _ => gh
  | .run pc v =>
    match lg with
    | .upd u =>
      let gh1 := if obs.any isLp then gh.land u (lpLoc g pc v) else gh
      if obs.any isRet then gh1.complete u else gh1
    | _ => gh

/-- the ghost of the acting thread after the step (also the tag of the step's observations) -/
def tagOf (gh : Ghost) (l : L) (lg : LGhost) (a : Act) : LGhost :=
  match l with
  | .idle =>
    match a with
    | .add _ => .upd gh.nupd
    | _ => .sum [] gh.lped
  | .run pc v =>
    match lg with
    | .sum counted must => .sum (readHist gh pc v counted) must
    | lg => lg

def lgNext (l' : L) (tag : LGhost) : LGhost :=
  match l' with
  | .idle => .none
  | _ => tag

/-- one step of the instrumented machine: the step of `M intAlg mc`, then the ghost updates -/
def gstep (mc : Nat) (t : Tid) (s : G × Ghost) (ll : L × LGhost) (a : Act) :
    Option ((G × Ghost) × (L × LGhost) × List (Obs × LGhost)) :=
  if noMaint a then
    match step intAlg mc t s.1 ll.1 a with
    | none => none
    | some (g', l', obs) =>
        some ((g', ghostG s.1 s.2 ll.1 ll.2 a obs), (l', lgNext l' (tagOf s.2 ll.1 ll.2 a)),
              obs.map (fun o => (o, tagOf s.2 ll.1 ll.2 a)))
  else none

def MG (mc : Nat) : Machine where
  G := G × Ghost
  L := L × LGhost
  Act := Act
  Obs := Obs × LGhost
  init := (initG, Ghost.init)
  idle := (.idle, .none)
  step := gstep mc

/-! ## Stage 1: the projection is a simulation, both ways -/

theorem gstep_iff {mc : Nat} {t : Tid} {g : G} {gh : Ghost} {l : L} {lg : LGhost} {a : Act}
    {R : (G × Ghost) × (L × LGhost) × List (Obs × LGhost)} :
    gstep mc t (g, gh) (l, lg) a = some R ↔
      noMaint a = true ∧ ∃ g' l' obs, step intAlg mc t g l a = some (g', l', obs) ∧
        R = ((g', ghostG g gh l lg a obs), (l', lgNext l' (tagOf gh l lg a)),
             obs.map (fun o => (o, tagOf gh l lg a))) := by
  unfold gstep
  cases hn : noMaint a
  · simp
  · cases hs : step intAlg mc t g l a with
    | none => simp
    | some r =>
      obtain ⟨g', l', obs⟩ := r
      simp only [if_true, Option.some.injEq, true_and]
      constructor
      · intro h; exact ⟨g', l', obs, rfl, h.symm⟩
      · rintro ⟨g1, l1, o1, h1, h2⟩
        simp only [Prod.mk.injEq] at h1
        obtain ⟨rfl, rfl, rfl⟩ := h1
        exact h2.symm

theorem map_fst_tag (obs : List Obs) (tag : LGhost) : (obs.map (fun o => (o, tag))).map Prod.fst = obs := by
  induction obs with
  | nil => rfl
  | cons o r ih => simp [ih]

/-- every step of `MG` is a step of `M` on the projections, with the projected observations -/
theorem proj_step {mc : Nat} {t : Tid} {g : G} {gh : Ghost} {l : L} {lg : LGhost} {a : Act}
    {g' : G} {gh' : Ghost} {l' : L} {lg' : LGhost} {obs' : List (Obs × LGhost)}
    (h : (MG mc).step t (g, gh) (l, lg) a = some ((g', gh'), (l', lg'), obs')) :
    step intAlg mc t g l a = some (g', l', obs'.map Prod.fst) := by
  obtain ⟨_, g1, l1, o1, hs, hR⟩ := gstep_iff.1 h
  simp only [Prod.mk.injEq] at hR
  obtain ⟨⟨rfl, _⟩, ⟨rfl, _⟩, rfl⟩ := hR
  rw [map_fst_tag]; exact hs

/-- conversely, the ghosts never block: every `Add`/`Sum`/internal step of `M` is matched by `MG`
    from any ghost state, with the same observations -/
theorem lift_step {mc : Nat} {t : Tid} {g : G} {l : L} {a : Act} {g' : G} {l' : L} {obs : List Obs}
    (h : step intAlg mc t g l a = some (g', l', obs)) (ha : noMaint a = true) (gh : Ghost) (lg : LGhost) :
    ∃ gh' lg' obs', (MG mc).step t (g, gh) (l, lg) a = some ((g', gh'), (l', lg'), obs') ∧
      obs'.map Prod.fst = obs :=
  ⟨_, _, _, gstep_iff.2 ⟨ha, g', l', obs, h, rfl⟩, map_fst_tag _ _⟩

/-- the un-instrumented configuration under an instrumented one -/
def projC {mc : Nat} (c : Config (MG mc)) : Config (M intAlg mc) := ⟨Prod.fst c.g, fun t => Prod.fst (c.l t)⟩

theorem projC_init (mc : Nat) : projC (Config.init (MG mc)) = Config.init (M intAlg mc) := rfl

theorem proj_upd {α β : Type} (l : Tid → α × β) (t : Tid) (p : α × β) :
    (fun u => Prod.fst (upd l t p u)) = upd (fun u => Prod.fst (l u)) t p.1 := by
  funext u; unfold upd; split <;> rfl

theorem projC_upd {mc : Nat} (c : Config (MG mc)) (t : Tid) (g' : G) (gh' : Ghost) (l' : L) (lg' : LGhost) :
    projC (mc := mc) ⟨(g', gh'), upd c.l t (l', lg')⟩ = ⟨g', upd (projC c).l t l'⟩ :=
  congrArg (fun f => (⟨g', f⟩ : Config (M intAlg mc))) (proj_upd (α := L) (β := LGhost) c.l t (l', lg'))

theorem reach_proj {mc : Nat} {c : Config (MG mc)} (h : Reach (MG mc) c) : Reach (M intAlg mc) (projC c) := by
  induction h with
  | init => exact Reach.init
  | @step c t a G' L' obs _ hs ih =>
    obtain ⟨g', gh'⟩ := G'
    obtain ⟨l', lg'⟩ := L'
    have hp : step intAlg mc t (Prod.fst c.g) (Prod.fst (c.l t)) a = some (g', l', obs.map Prod.fst) :=
      proj_step (gh := Prod.snd c.g) (lg := Prod.snd (c.l t)) hs
    have := Reach.step (M := M intAlg mc) (c := projC c) ih hp
    rw [projC_upd]
    exact this

theorem map_tid_fst (t : Tid) (obs' : List (Obs × LGhost)) :
    (obs'.map (fun o => (t, o))).map (fun p => (p.1, Prod.fst p.2)) = (obs'.map Prod.fst).map (fun o => (t, o)) := by
  induction obs' with
  | nil => rfl
  | cons o r ih => simp only [List.map_cons, ih]

/-- the instrumented machine performs, on any schedule of non-maintenance actions, exactly the run of
    the un-instrumented machine: same configurations (projected), same observations (tags dropped) -/
theorem run_lift {mc : Nat} (s : List (Tid × Act)) (hs : ∀ p ∈ s, noMaint p.2 = true) :
    ∀ c : Config (MG mc),
      projC (run (MG mc) c s).1 = (run (M intAlg mc) (projC c) s).1 ∧
      (run (MG mc) c s).2.map (fun p => (p.1, Prod.fst p.2)) = (run (M intAlg mc) (projC c) s).2 := by
  induction s with
  | nil => intro c; exact ⟨rfl, rfl⟩
  | cons ta rest ih =>
    intro c
    obtain ⟨t, a⟩ := ta
    have ha : noMaint a = true := hs (t, a) (by simp)
    have ih' := ih (fun p hp => hs p (by simp [hp]))
    cases hm : step intAlg mc t (Prod.fst c.g) (Prod.fst (c.l t)) a with
    | none =>
      have hg : (MG mc).step t c.g (c.l t) a = none := by
        cases hgs : (MG mc).step t c.g (c.l t) a with
        | none => rfl
        | some R =>
          obtain ⟨⟨g', gh'⟩, ⟨l', lg'⟩, obs'⟩ := R
          have := proj_step (g := Prod.fst c.g) (gh := Prod.snd c.g) (l := Prod.fst (c.l t))
            (lg := Prod.snd (c.l t)) hgs
          rw [hm] at this; cases this
      have hm' : (M intAlg mc).step t (projC c).g ((projC c).l t) a = none := hm
      simp only [run, hg, hm']
      exact ih' c
    | some r =>
      obtain ⟨g', l', obs⟩ := r
      obtain ⟨gh', lg', obs', hgs, hobs⟩ := lift_step hm ha (Prod.snd c.g) (Prod.snd (c.l t))
      have hgs' : (MG mc).step t c.g (c.l t) a = some ((g', gh'), (l', lg'), obs') := hgs
      have hm' : (M intAlg mc).step t (projC c).g ((projC c).l t) a = some (g', l', obs) := hm
      simp only [run, hgs', hm']
      obtain ⟨h1, h2⟩ := ih' ⟨(g', gh'), upd c.l t (l', lg')⟩
      rw [projC_upd] at h1 h2
      refine ⟨h1, ?_⟩
      rw [List.map_append, h2, ← hobs]
      exact congrArg (fun z : List (Tid × (M intAlg mc).Obs) => z ++ (run (M intAlg mc) ⟨g', upd (projC c).l t l'⟩ rest).2)
        (map_tid_fst t obs')

/-! ## Stage 2: what one step does to the heap, as seen by the ghosts -/

def valAt (g : G) : Loc → Int
  | .base => g.base
  | .cell c => g.cell c

/-- the locations that exist: `base`, and the cells materialised so far -/
def live (g : G) : Loc → Prop
  | .base => True
  | .cell c => c < g.ncell

/-- every backing array (published or superseded) holds each cell in at most one slot -/
def AllInj (g : G) : Prop :=
  ∀ a, a < g.narr → ∀ j1 j2 c, (g.arr a).slot j1 = some c → (g.arr a).slot j2 = some c → j1 = j2

/-- slots are write-once -/
def SlotKeep (g g' : G) : Prop :=
  ∀ a, a < g.narr → ∀ j c, (g.arr a).slot j = some c → (g'.arr a).slot j = some c

/-- a step that is not a linearization point: the values are untouched, arrays only grow -/
structure Still (g g' : G) : Prop where
  base : g'.base = g.base
  cell : g'.cell = g.cell
  ncell : g'.ncell = g.ncell
  narr : g.narr ≤ g'.narr
  keep : SlotKeep g g'
  inj : AllInj g → AllInj g'

theorem Still.ofEq {g g' : G} (hb : g'.base = g.base) (hc : g'.cell = g.cell) (hn : g'.ncell = g.ncell)
    (hna : g'.narr = g.narr) (har : g'.arr = g.arr) : Still g g' := by
  refine ⟨hb, hc, hn, by rw [hna]; exact Nat.le_refl _, ?_, ?_⟩
  · intro a _ j c h; rw [har]; exact h
  · intro h a ha
    rw [hna] at ha
    rw [har]; exact h a ha

theorem Still.refl (g : G) : Still g g := .ofEq rfl rfl rfl rfl rfl
theorem Still.busy (g : G) (b : Bool) : Still g { g with busy := b } := .ofEq rfl rfl rfl rfl rfl
theorem Still.actv (g : G) (l : List Nat) : Still g { g with actv := l } := .ofEq rfl rfl rfl rfl rfl
theorem Still.leave' (t : Tid) (g : G) (v : V) : Still g (leave t g v) :=
  .ofEq (by simp) (by simp) (by simp) (by simp) (by simp)

theorem Still.trans {g g1 g2 : G} (h1 : Still g g1) (h2 : Still g1 g2) : Still g g2 :=
  ⟨h2.base.trans h1.base, h2.cell.trans h1.cell, h2.ncell.trans h1.ncell, Nat.le_trans h1.narr h2.narr,
   fun a ha j c hs => h2.keep a (Nat.lt_of_lt_of_le ha h1.narr) j c (h1.keep a ha j c hs),
   fun hi => h2.inj (h1.inj hi)⟩

theorem Still.leave {g g' : G} (h : Still g g') (t : Tid) (v : V) : Still g (leave t g' v) :=
  h.trans (Still.leave' t g' v)

theorem valAt_still {g g' : G} (s : Still g g') (k : Loc) : valAt g' k = valAt g k := by
  cases k <;> simp [valAt, s.base, s.cell]

theorem live_still {g g' : G} (s : Still g g') (k : Loc) : live g' k ↔ live g k := by
  cases k <;> simp [live, s.ncell]

/-- a linearization point: an update by `x` lands at location `ℓ` (which may be created by this step) -/
structure Landed (g g' : G) (ℓ : Loc) (x : Int) : Prop where
  lv : live g' ℓ
  other : ∀ k, k ≠ ℓ → live g' k → live g k ∧ valAt g' k = valAt g k
  val_live : live g ℓ → valAt g' ℓ = valAt g ℓ + x
  val_new : ¬ live g ℓ → valAt g' ℓ = x
  mono : ∀ k, live g k → live g' k
  narr : g.narr ≤ g'.narr
  keep : SlotKeep g g'
  inj : AllInj g → AllInj g'

theorem Landed.still {g g1 g2 : G} {ℓ : Loc} {x : Int} (h : Landed g g1 ℓ x) (s : Still g1 g2) : Landed g g2 ℓ x :=
  ⟨(live_still s ℓ).2 h.lv,
   fun k hk hl => by rw [valAt_still s k]; exact h.other k hk ((live_still s k).1 hl),
   fun hl => by rw [valAt_still s ℓ]; exact h.val_live hl,
   fun hl => by rw [valAt_still s ℓ]; exact h.val_new hl,
   fun k hk => (live_still s k).2 (h.mono k hk), Nat.le_trans h.narr s.narr,
   fun a ha j c hs => s.keep a (Nat.lt_of_lt_of_le ha h.narr) j c (h.keep a ha j c hs),
   fun hi => s.inj (h.inj hi)⟩

theorem Landed.leave {g g' : G} {ℓ : Loc} {x : Int} (h : Landed g g' ℓ x) (t : Tid) (v : V) :
    Landed g (leave t g' v) ℓ x := h.still (Still.leave' t g' v)

theorem Landed_casBase (g : G) (x : Int) : Landed g (casBase g x) .base x := by
  refine ⟨trivial, ?_, fun _ => rfl, fun h => absurd trivial h, ?_, Nat.le_refl _, fun a _ j c hs => hs, fun hi => hi⟩
  · intro k hk hl
    cases k with
    | base => exact absurd rfl hk
    | cell c => exact ⟨hl, rfl⟩
  · intro k hk; cases k <;> exact hk

theorem Landed_casCell (g : G) (c : Nat) (x : Int) (hc : c < g.ncell) : Landed g (casCell g c x) (.cell c) x := by
  refine ⟨hc, ?_, fun _ => by simp [valAt, casCell], fun h => absurd hc h, ?_, Nat.le_refl _,
    fun a _ j c hs => hs, fun hi => hi⟩
  · intro k hk hl
    cases k with
    | base => exact ⟨trivial, rfl⟩
    | cell c' =>
      have : c' ≠ c := fun h => hk (by rw [h])
      exact ⟨hl, by simp [valAt, casCell, this]⟩
  · intro k hk; cases k <;> exact hk

theorem Landed_attach {g : G} (hG : GInv g) {a len j : Nat} (x : Int) (ht : g.tbl = some (a, len))
    (hnone : (g.arr a).slot j = none) : Landed g (attach g a j x) (.cell g.ncell) x := by
  obtain ⟨ha, _, _, _⟩ := hG.tbl_wf a len ht
  refine ⟨Nat.lt_succ_self _, ?_, fun h => absurd h (Nat.lt_irrefl _), fun _ => by simp [valAt, attach], ?_,
    Nat.le_refl _, ?_, ?_⟩
  · intro k hk hl
    cases k with
    | base => exact ⟨trivial, rfl⟩
    | cell c =>
      have hne : c ≠ g.ncell := fun h => hk (by rw [h])
      have hl' : c < g.ncell + 1 := hl
      exact ⟨show c < g.ncell by omega, by simp [valAt, attach, hne]⟩
  · intro k hk
    cases k with
    | base => trivial
    | cell c => exact Nat.lt_succ_of_lt hk
  · intro a' ha' i c hs
    simp only [attach]
    by_cases haa : a' = a
    · subst haa
      have : i ≠ j := fun hij => by subst hij; rw [hnone] at hs; cases hs
      simp [setSlot, this, hs]
    · simp [haa, hs]
  · intro hi a' ha' j1 j2 c h1 h2
    simp only [attach] at ha' h1 h2
    by_cases haa : a' = a
    · subst haa
      simp only [ite_true, setSlot] at h1 h2
      by_cases e1 : j1 = j <;> by_cases e2 : j2 = j
      · omega
      · simp [e1, e2] at h1 h2
        have := hG.slot_valid a' j2 c ha h2; omega
      · simp [e1, e2] at h1 h2
        have := hG.slot_valid a' j1 c ha h1; omega
      · simp [e1, e2] at h1 h2
        exact hi a' ha j1 j2 c h1 h2
    · simp [haa] at h1 h2
      exact hi a' ha' j1 j2 c h1 h2

theorem Landed_initTable (g : G) (j : Nat) (x : Int) : Landed g (initTable g j x) (.cell g.ncell) x := by
  refine ⟨Nat.lt_succ_self _, ?_, fun h => absurd h (Nat.lt_irrefl _), fun _ => by simp [valAt, initTable], ?_,
    Nat.le_succ _, ?_, ?_⟩
  · intro k hk hl
    cases k with
    | base => exact ⟨trivial, rfl⟩
    | cell c =>
      have hne : c ≠ g.ncell := fun h => hk (by rw [h])
      have hl' : c < g.ncell + 1 := hl
      exact ⟨show c < g.ncell by omega, by simp [valAt, initTable, hne]⟩
  · intro k hk
    cases k with
    | base => trivial
    | cell c => exact Nat.lt_succ_of_lt hk
  · intro a' ha' i c hs
    have : a' ≠ g.narr := by omega
    simp [initTable, this, hs]
  · intro hi a' ha' j1 j2 c h1 h2
    simp only [initTable] at ha' h1 h2
    by_cases haa : a' = g.narr
    · subst haa
      simp only [ite_true] at h1 h2
      split at h1 <;> split at h2 <;> try contradiction
      omega
    · simp [haa] at h1 h2
      exact hi a' (by omega) j1 j2 c h1 h2

theorem Still_growReslice (g : G) (a : Nat) : Still g (growReslice g a) := .ofEq rfl rfl rfl rfl rfl

theorem Still_growRealloc {g : G} {a : Nat} (ha : a < g.narr) (n : Nat) : Still g (growRealloc g a n) := by
  refine ⟨rfl, rfl, rfl, Nat.le_succ _, ?_, ?_⟩
  · intro a' ha' i c hs
    have : a' ≠ g.narr := by omega
    simp [growRealloc, this, hs]
  · intro hi a' ha' j1 j2 c h1 h2
    simp only [growRealloc] at ha' h1 h2
    by_cases haa : a' = g.narr
    · subst haa
      simp only [ite_true] at h1 h2
      split at h1 <;> split at h2 <;> try contradiction
      exact hi a ha j1 j2 c h1 h2
    · simp [haa] at h1 h2
      exact hi a' (by omega) j1 j2 c h1 h2

/-- the effect of one `stepRun` step of a non-maintenance thread on the heap -/
inductive Eff (g : G) (pc : PC) (v : V) (g' : G) (obs : List Obs) : Prop
  | silent : obs.any isLp = false → Still g g' → Eff g pc v g' obs
  | lp : obs.any isLp = true → Landed g g' (lpLoc g pc v) v.x → Eff g pc v g' obs

local macro "fin " h:ident : tactic =>
  `(tactic| (simp only [Prod.mk.injEq] at $h:ident; obtain ⟨h1, h2, h3⟩ := $h:ident; subst h1 h2 h3))

set_option maxHeartbeats 1000000 in
theorem stepRun_eff {mc : Nat} {t : Tid} {g : G} {pc : PC} {v : V} {w : Nat} {g' : G} {l' : L} {obs : List Obs}
    (hG : GInv g) (hL : LInvPC g v pc) (hm : v.mnt = false) (hs : stepRun intAlg mc t g pc v w = (g', l', obs)) :
    Eff g pc v g' obs := by
  cases pc <;> simp only [LInvPC] at hL <;>
    simp only [stepRun, intAlg_float, retAdd, casBaseA_int, casCellA_int, Bool.false_eq_true, if_false] at hs <;>
    (repeat' split at hs) <;> fin hs <;>
    first
    | exact .silent rfl (Still.refl _)
    | exact .silent rfl (Still.busy _ _)
    | exact .silent rfl (Still.leave' _ _ _)
    | exact .silent rfl ((Still.busy _ _).leave _ _)
    | exact .lp rfl ((Landed_casBase _ _).leave _ _)
    | exact .lp rfl ((Landed_casCell _ _ _ hL).leave _ _)
    | exact .lp rfl (Landed_attach hG _ hL.1 hL.2.2)
    | exact .lp rfl (Landed_initTable _ _ _)
    | exact .silent rfl (Still_growReslice _ _)
    | exact .silent rfl (Still_growRealloc (hL.2 ▸ (hG.tbl_wf _ _ hL.1).1) _)
    | exact absurd hL (by simp [hm])


/-! ## Global ghost invariant -/

structure GhInv (g : G) (gh : Ghost) : Prop where
  /-- the exact (unwrapped) value of every location is the total of the updates landed there -/
  val_hist : ∀ ℓ, live g ℓ → valAt g ℓ = lsum gh.xOf (gh.hist ℓ)
  hist_loc : ∀ ℓ u, u ∈ gh.hist ℓ ↔ gh.loc u = some ℓ
  hist_nodup : ∀ ℓ, (gh.hist ℓ).Nodup
  loc_lt : ∀ u ℓ, gh.loc u = some ℓ → u < gh.nupd
  loc_live : ∀ u ℓ, gh.loc u = some ℓ → live g ℓ
  lped_iff : ∀ u, u ∈ gh.lped ↔ gh.loc u ≠ none
  completed_loc : ∀ u, u ∈ gh.completed → gh.loc u ≠ none
  all_inj : AllInj g

theorem GhInv.completed_lped {g : G} {gh : Ghost} (h : GhInv g gh) : ∀ u, u ∈ gh.completed → u ∈ gh.lped :=
  fun u hu => (h.lped_iff u).2 (h.completed_loc u hu)

theorem GhInv.hist_dead {g : G} {gh : Ghost} (h : GhInv g gh) {ℓ : Loc} (hl : ¬ live g ℓ) : gh.hist ℓ = [] := by
  apply List.eq_nil_iff_forall_not_mem.2
  intro u hu
  exact hl (h.loc_live u ℓ ((h.hist_loc ℓ u).1 hu))

/-- an update is counted at most once, and only whole: the histories are pairwise disjoint -/
theorem GhInv.no_double_count {g : G} {gh : Ghost} (h : GhInv g gh) {ℓ1 ℓ2 : Loc} {u : Nat}
    (h1 : u ∈ gh.hist ℓ1) (h2 : u ∈ gh.hist ℓ2) : ℓ1 = ℓ2 := by
  have e1 := (h.hist_loc ℓ1 u).1 h1
  have e2 := (h.hist_loc ℓ2 u).1 h2
  rw [e1] at e2; cases e2; rfl

theorem ghinv_init : GhInv initG Ghost.init := by
  refine ⟨?_, ?_, ?_, ?_, ?_, ?_, ?_, ?_⟩
  · intro ℓ hl
    cases ℓ with
    | base => rfl
    | cell c => exact absurd hl (Nat.not_lt_zero _)
  · intro ℓ u; simp [Ghost.init]
  · intro ℓ; simp [Ghost.init]
  · intro u ℓ h; cases h
  · intro u ℓ h; cases h
  · intro u; simp [Ghost.init]
  · intro u h; cases h
  · intro a ha; exact absurd ha (Nat.not_lt_zero _)

theorem ghinv_still {g g' : G} {gh : Ghost} (h : GhInv g gh) (s : Still g g') : GhInv g' gh :=
  ⟨fun ℓ hl => by rw [valAt_still s]; exact h.val_hist ℓ ((live_still s ℓ).1 hl), h.hist_loc, h.hist_nodup, h.loc_lt,
   fun u ℓ hu => (live_still s ℓ).2 (h.loc_live u ℓ hu), h.lped_iff, h.completed_loc, s.inj h.all_inj⟩

theorem ghinv_alloc {g : G} {gh : Ghost} (h : GhInv g gh) (x : Int) : GhInv g (gh.alloc x) := by
  refine ⟨?_, h.hist_loc, h.hist_nodup, ?_, h.loc_live, h.lped_iff, h.completed_loc, h.all_inj⟩
  · intro ℓ hl
    rw [h.val_hist ℓ hl]
    apply lsum_congr
    intro u hu
    have := h.loc_lt u ℓ ((h.hist_loc ℓ u).1 hu)
    have hne : u ≠ gh.nupd := by omega
    simp [Ghost.alloc, hne]
  · intro u ℓ hu
    have := h.loc_lt u ℓ hu
    show u < gh.nupd + 1
    omega

theorem ghinv_complete {g : G} {gh : Ghost} {u : Nat} (h : GhInv g gh) (hu : gh.loc u ≠ none) :
    GhInv g (gh.complete u) := by
  refine ⟨h.val_hist, h.hist_loc, h.hist_nodup, h.loc_lt, h.loc_live, h.lped_iff, ?_, h.all_inj⟩
  intro w hw
  show gh.loc w ≠ none
  have hw' : w ∈ u :: gh.completed := hw
  rcases List.mem_cons.1 hw' with rfl | hw''
  · exact hu
  · exact h.completed_loc w hw''

theorem ghinv_land {g g' : G} {gh : Ghost} {u : Nat} {ℓ : Loc} (h : GhInv g gh) (hu : u < gh.nupd)
    (hn : gh.loc u = none) (hl : Landed g g' ℓ (gh.xOf u)) : GhInv g' (gh.land u ℓ) := by
  have hnotin : ∀ k, u ∉ gh.hist k := fun k hk => by
    have := (h.hist_loc k u).1 hk; rw [hn] at this; cases this
  refine ⟨?_, ?_, ?_, ?_, ?_, ?_, ?_, hl.inj h.all_inj⟩
  · intro k hk
    show valAt g' k = lsum gh.xOf (if k = ℓ then gh.hist k ++ [u] else gh.hist k)
    by_cases hkl : k = ℓ
    · subst hkl
      rw [if_pos rfl, lsum_append]
      simp only [lsum]
      by_cases hlv : live g k
      · rw [hl.val_live hlv, h.val_hist k hlv]; omega
      · rw [hl.val_new hlv, h.hist_dead hlv]; simp [lsum]
    · rw [if_neg hkl]
      obtain ⟨h1, h2⟩ := hl.other k hkl hk
      rw [h2, h.val_hist k h1]
  · intro k w
    show w ∈ (if k = ℓ then gh.hist k ++ [u] else gh.hist k) ↔ (if w = u then some ℓ else gh.loc w) = some k
    by_cases hw : w = u
    · subst hw
      by_cases hk : k = ℓ
      · subst hk; simp
      · rw [if_neg hk, if_pos rfl]
        constructor
        · intro hh; exact absurd hh (hnotin k)
        · intro hh; cases hh; exact absurd rfl hk
    · rw [if_neg hw]
      by_cases hk : k = ℓ
      · subst hk; rw [if_pos rfl]; simp [hw]; exact h.hist_loc _ w
      · rw [if_neg hk]; exact h.hist_loc k w
  · intro k
    show (if k = ℓ then gh.hist k ++ [u] else gh.hist k).Nodup
    by_cases hk : k = ℓ
    · subst hk; rw [if_pos rfl, List.nodup_append]
      refine ⟨h.hist_nodup _, by simp, ?_⟩
      intro a ha b hb
      simp at hb; subst hb
      intro hab; subst hab; exact hnotin _ ha
    · rw [if_neg hk]; exact h.hist_nodup k
  · intro w k hw
    show w < gh.nupd
    have hw' : (if w = u then some ℓ else gh.loc w) = some k := hw
    by_cases e : w = u
    · subst e; exact hu
    · rw [if_neg e] at hw'; exact h.loc_lt w k hw'
  · intro w k hw
    have hw' : (if w = u then some ℓ else gh.loc w) = some k := hw
    by_cases e : w = u
    · rw [if_pos e] at hw'; cases hw'; exact hl.lv
    · rw [if_neg e] at hw'; exact hl.mono k (h.loc_live w k hw')
  · intro w
    show w ∈ u :: gh.lped ↔ (if w = u then some ℓ else gh.loc w) ≠ none
    by_cases e : w = u
    · subst e; simp
    · rw [if_neg e, List.mem_cons]
      constructor
      · rintro (hh | hh)
        · exact absurd hh e
        · exact (h.lped_iff w).1 hh
      · intro hh; exact Or.inr ((h.lped_iff w).2 hh)
  · intro w hw
    show (if w = u then some ℓ else gh.loc w) ≠ none
    by_cases e : w = u
    · rw [if_pos e]; simp
    · rw [if_neg e]; exact h.completed_loc w hw

/-! ## Guarantee of a step (rely of the other threads) -/

/-- ghost maps only grow, operands of allocated ids never change, only the acting update (`who`) may land,
    occupied slots stay -/
structure Guar (who : Option Nat) (g : G) (gh : Ghost) (g' : G) (gh' : Ghost) : Prop where
  nupd_mono : gh.nupd ≤ gh'.nupd
  xOf_keep : ∀ u, u < gh.nupd → gh'.xOf u = gh.xOf u
  loc_keep : ∀ u ℓ, gh.loc u = some ℓ → gh'.loc u = some ℓ
  loc_only : ∀ w, gh'.loc w ≠ gh.loc w → who = some w
  lped_mono : ∀ u, u ∈ gh.lped → u ∈ gh'.lped
  keep : SlotKeep g g'

theorem Guar.ofKeep {g g' : G} (gh : Ghost) (k : SlotKeep g g') (w : Option Nat) : Guar w g gh g' gh :=
  ⟨Nat.le_refl _, fun _ _ => rfl, fun _ _ h => h, fun _ h => absurd rfl h, fun _ h => h, k⟩

theorem Guar.alloc {g g' : G} (gh : Ghost) (k : SlotKeep g g') (x : Int) : Guar none g gh g' (gh.alloc x) := by
  refine ⟨Nat.le_succ _, ?_, fun _ _ h => h, fun _ h => absurd rfl h, fun _ h => h, k⟩
  intro u hu
  have : u ≠ gh.nupd := by omega
  simp [Ghost.alloc, this]

theorem Guar.complete {w : Option Nat} {g g' : G} {gh gh' : Ghost} (h : Guar w g gh g' gh') (u : Nat) :
    Guar w g gh g' (gh'.complete u) :=
  ⟨h.nupd_mono, h.xOf_keep, h.loc_keep, h.loc_only, h.lped_mono, h.keep⟩

theorem Guar.land {g g' : G} {gh : Ghost} {u : Nat} (ℓ : Loc) (hn : gh.loc u = none) (k : SlotKeep g g') :
    Guar (some u) g gh g' (gh.land u ℓ) := by
  refine ⟨Nat.le_refl _, fun _ _ => rfl, ?_, ?_, fun w hw => List.mem_cons_of_mem _ hw, k⟩
  · intro w k' hw
    have : w ≠ u := fun e => by subst e; rw [hn] at hw; cases hw
    show (if w = u then some ℓ else gh.loc w) = some k'
    rw [if_neg this]; exact hw
  · intro w hw
    have hw' : (if w = u then some ℓ else gh.loc w) ≠ gh.loc w := hw
    by_cases e : w = u
    · rw [e]
    · rw [if_neg e] at hw'; exact absurd rfl hw'


/-! ## Stage 3: thread-local ghost invariants -/

/-- accumulator of an in-flight `Sum` (the model accumulates wrapped loads, hence modulo 2^64) -/
def SumCore (gh : Ghost) (v : V) (counted : List Nat) : Prop :=
  wrap64 v.acc = wrap64 (lsum gh.xOf counted) ∧ counted.Nodup

/-- everything counted so far sits at `base` or in a cell of an already visited slot of the loaded array -/
def Cnt (g : G) (gh : Ghost) (v : V) (counted : List Nat) : Prop :=
  ∀ u ∈ counted, gh.loc u = some .base ∨
    ∃ c j, j < v.i ∧ (g.arr v.as.1).slot j = some c ∧ gh.loc u = some (.cell c)

/-- everything that must be counted is counted or sits in a cell of a slot still to be visited -/
def Must (g : G) (gh : Ghost) (v : V) (counted must : List Nat) : Prop :=
  ∀ u ∈ must, u ∈ counted ∨
    ∃ c j, v.i ≤ j ∧ j < v.as.2 ∧ (g.arr v.as.1).slot j = some c ∧ gh.loc u = some (.cell c)

def SumInv (g : G) (gh : Ghost) (v : V) (counted must : List Nat) : PC → Prop
  | .s0 => counted = [] ∧ v.acc = 0 ∧ ∀ u ∈ must, gh.loc u ≠ none
  | .s1 => SumCore gh v counted ∧ (∀ u ∈ counted, gh.loc u = some .base) ∧
           (∀ u ∈ must, u ∈ counted ∨ ∃ c, gh.loc u = some (.cell c))
  | .s2 => SumCore gh v counted ∧ Cnt g gh v counted ∧ Must g gh v counted must
  | .s3 => SumCore gh v counted ∧ Cnt g gh v counted ∧ Must g gh v counted must ∧
           (g.arr v.as.1).slot v.i = some v.a
  | _ => False

/-- what a returning `Sum` has established -/
def Final (gh : Ghost) (r : Int) (counted must : List Nat) : Prop :=
  r = wrap64 (lsum gh.xOf counted) ∧ counted.Nodup ∧ (∀ u ∈ must, u ∈ counted) ∧
    (∀ u ∈ counted, gh.loc u ≠ none)

def TInv (g : G) (gh : Ghost) : L → LGhost → Prop
  | .idle, lg => lg = .none
  | .run pc v, lg => v.mnt = false ∧
      (preLP pc = true → ∃ u, lg = .upd u ∧ u < gh.nupd ∧ gh.loc u = none ∧ gh.xOf u = v.x) ∧
      (postLP pc = true → ∃ u, lg = .upd u ∧ u < gh.nupd ∧ gh.loc u ≠ none) ∧
      (preLP pc = false → postLP pc = false →
        ∃ counted must, lg = .sum counted must ∧ SumInv g gh v counted must pc)

theorem pre_not_post {pc : PC} (h : preLP pc = true) : postLP pc = false := by
  cases pc <;> simp [preLP, postLP] at h ⊢

theorem SumInv.pc {g : G} {gh : Ghost} {v : V} {counted must : List Nat} {pc : PC}
    (h : SumInv g gh v counted must pc) : preLP pc = false ∧ postLP pc = false := by
  cases pc <;> simp [SumInv, preLP, postLP] at h ⊢

theorem TInv.ofPre {g : G} {gh : Ghost} {pc : PC} {v : V} {u : Nat} (hm : v.mnt = false) (hp : preLP pc = true)
    (hu : u < gh.nupd) (hn : gh.loc u = none) (hx : gh.xOf u = v.x) : TInv g gh (.run pc v) (.upd u) :=
  ⟨hm, fun _ => ⟨u, rfl, hu, hn, hx⟩, fun h => (by rw [pre_not_post hp] at h; cases h),
   fun h => (by rw [hp] at h; cases h)⟩

theorem TInv.ofPost {g : G} {gh : Ghost} {pc : PC} {v : V} {u : Nat} (hm : v.mnt = false) (hp : postLP pc = true)
    (hu : u < gh.nupd) (hn : gh.loc u ≠ none) : TInv g gh (.run pc v) (.upd u) :=
  ⟨hm, fun h => (by rw [pre_not_post h] at hp; cases hp), fun _ => ⟨u, rfl, hu, hn⟩,
   fun _ h => (by rw [hp] at h; cases h)⟩

theorem TInv.ofSum {g : G} {gh : Ghost} {pc : PC} {v : V} {counted must : List Nat} (hm : v.mnt = false)
    (h : SumInv g gh v counted must pc) : TInv g gh (.run pc v) (.sum counted must) :=
  ⟨hm, fun hp => (by rw [h.pc.1] at hp; cases hp), fun hp => (by rw [h.pc.2] at hp; cases hp),
   fun _ _ => ⟨counted, must, rfl, h⟩⟩

/-- an update ghost belongs to an `Add` and its id has been allocated -/
theorem TInv.upd_lt {g : G} {gh : Ghost} {l : L} {u : Nat} (h : TInv g gh l (.upd u)) : u < gh.nupd := by
  cases l with
  | idle => cases h
  | run pc v =>
    obtain ⟨_, h1, h2, h3⟩ := h
    cases hp : preLP pc
    · cases hq : postLP pc
      · obtain ⟨_, _, e, _⟩ := h3 hp hq; cases e
      · obtain ⟨u', e, hu, _⟩ := h2 hq; cases e; exact hu
    · obtain ⟨u', e, hu, _⟩ := h1 hp; cases e; exact hu

def whoOf : LGhost → Option Nat
  | .upd u => some u
  | _ => none

theorem Guar.loc_ne_none {w : Option Nat} {g g' : G} {gh gh' : Ghost} (h : Guar w g gh g' gh') {u : Nat}
    (hu : gh.loc u ≠ none) : gh'.loc u ≠ none := by
  cases hl : gh.loc u with
  | none => exact absurd hl hu
  | some ℓ => rw [h.loc_keep u ℓ hl]; simp

theorem SumCore.stable {w : Option Nat} {g g' : G} {gh gh' : Ghost} {v : V} {counted : List Nat}
    (hGh : GhInv g gh) (hGu : Guar w g gh g' gh') (hl : ∀ u ∈ counted, gh.loc u ≠ none)
    (h : SumCore gh v counted) : SumCore gh' v counted := by
  refine ⟨?_, h.2⟩
  rw [h.1]
  congr 1
  apply lsum_congr
  intro u hu
  cases hlu : gh.loc u with
  | none => exact absurd hlu (hl u hu)
  | some ℓ => exact (hGu.xOf_keep u (hGh.loc_lt u ℓ hlu)).symm

theorem Cnt.located {g : G} {gh : Ghost} {v : V} {counted : List Nat} (h : Cnt g gh v counted) :
    ∀ u ∈ counted, gh.loc u ≠ none := by
  intro u hu
  rcases h u hu with e | ⟨c, j, _, _, e⟩ <;> rw [e] <;> simp

theorem Cnt.stable {w : Option Nat} {g g' : G} {gh gh' : Ghost} {v : V} {counted : List Nat}
    (hGu : Guar w g gh g' gh') (hn : v.as.1 < g.narr) (h : Cnt g gh v counted) : Cnt g' gh' v counted := by
  intro u hu
  rcases h u hu with e | ⟨c, j, hj, hs, e⟩
  · exact Or.inl (hGu.loc_keep u _ e)
  · exact Or.inr ⟨c, j, hj, hGu.keep _ hn j c hs, hGu.loc_keep u _ e⟩

theorem Must.stable {w : Option Nat} {g g' : G} {gh gh' : Ghost} {v : V} {counted must : List Nat}
    (hGu : Guar w g gh g' gh') (hn : v.as.1 < g.narr) (h : Must g gh v counted must) :
    Must g' gh' v counted must := by
  intro u hu
  rcases h u hu with e | ⟨c, j, h1, h2, hs, e⟩
  · exact Or.inl e
  · exact Or.inr ⟨c, j, h1, h2, hGu.keep _ hn j c hs, hGu.loc_keep u _ e⟩

theorem SumInv.stable {w : Option Nat} {g g' : G} {gh gh' : Ghost} {v : V} {counted must : List Nat} {pc : PC}
    (hGh : GhInv g gh) (hGu : Guar w g gh g' gh') (hL : LInvPC g v pc)
    (h : SumInv g gh v counted must pc) : SumInv g' gh' v counted must pc := by
  cases pc <;> simp only [SumInv] at h ⊢ <;> try exact h
  case s0 => exact ⟨h.1, h.2.1, fun u hu => hGu.loc_ne_none (h.2.2 u hu)⟩
  case s1 =>
    obtain ⟨h1, h2, h3⟩ := h
    refine ⟨h1.stable hGh hGu (fun u hu => by rw [h2 u hu]; simp), fun u hu => hGu.loc_keep u _ (h2 u hu), ?_⟩
    intro u hu
    rcases h3 u hu with e | ⟨c, e⟩
    · exact Or.inl e
    · exact Or.inr ⟨c, hGu.loc_keep u _ e⟩
  case s2 =>
    obtain ⟨h1, h2, h3⟩ := h
    have hn : v.as.1 < g.narr := hL.2
    exact ⟨h1.stable hGh hGu h2.located, h2.stable hGu hn, h3.stable hGu hn⟩
  case s3 =>
    obtain ⟨h1, h2, h3, h4⟩ := h
    have hn : v.as.1 < g.narr := hL.2.1
    exact ⟨h1.stable hGh hGu h2.located, h2.stable hGu hn, h3.stable hGu hn, hGu.keep _ hn _ _ h4⟩

/-- the other threads' invariants are stable under a step that obeys the guarantee -/
theorem TInv.stable {w : Option Nat} {g g' : G} {gh gh' : Ghost} {l : L} {lg : LGhost}
    (hGh : GhInv g gh) (hGu : Guar w g gh g' gh') (hL : LInv g l) (hw : ∀ u, lg = .upd u → w ≠ some u)
    (h : TInv g gh l lg) : TInv g' gh' l lg := by
  cases l with
  | idle => exact h
  | run pc v =>
    obtain ⟨hm, h1, h2, h3⟩ := h
    refine ⟨hm, ?_, ?_, ?_⟩
    · intro hp
      obtain ⟨u, e, hu, hn, hx⟩ := h1 hp
      refine ⟨u, e, Nat.lt_of_lt_of_le hu hGu.nupd_mono, ?_, by rw [hGu.xOf_keep u hu]; exact hx⟩
      apply Classical.byContradiction
      intro hne
      exact hw u e (hGu.loc_only u (by rw [hn]; exact hne))
    · intro hp
      obtain ⟨u, e, hu, hn⟩ := h2 hp
      exact ⟨u, e, Nat.lt_of_lt_of_le hu hGu.nupd_mono, hGu.loc_ne_none hn⟩
    · intro hp hq
      obtain ⟨counted, must, e, hS⟩ := h3 hp hq
      exact ⟨counted, must, e, hS.stable hGh hGu hL⟩


/-! ## One step of an in-flight `Sum` -/

theorem wrap64_congr_add' {x y : Int} (h : wrap64 x = wrap64 y) (z : Int) :
    wrap64 (x + wrap64 z) = wrap64 (y + z) := by
  unfold wrap64 at *; omega

theorem sar_false {v : V} (hL : v.sar = true → v.mnt = true) (hm : v.mnt = false) : v.sar = false := by
  cases h : v.sar
  · rfl
  · rw [hL h] at hm; cases hm

theorem sum_step {mc : Nat} {t : Tid} {g : G} {gh : Ghost} {pc : PC} {v : V} {w : Nat} {g' : G} {l' : L}
    {obs : List Obs} {counted must : List Nat}
    (hG : GInv g) (hGh : GhInv g gh) (hL : LInvPC g v pc) (hm : v.mnt = false)
    (hS : SumInv g gh v counted must pc) (hs : stepRun intAlg mc t g pc v w = (g', l', obs)) :
    Still g g' ∧
    ((obs = [] ∧ ∃ pc' v', l' = .run pc' v' ∧ SumInv g' gh v' (readHist gh pc v counted) must pc') ∨
     (∃ r, obs = [.ret (some r)] ∧ l' = .idle ∧ Final gh r (readHist gh pc v counted) must)) := by
  cases pc <;> simp only [SumInv] at hS
  case s0 =>
    simp only [stepRun, intAlg_view] at hs; fin hs
    obtain ⟨rfl, _, hmust⟩ := hS
    refine ⟨Still.refl _, Or.inl ⟨rfl, .s1, _, rfl, ?_⟩⟩
    show SumInv g gh _ ([] ++ gh.hist .base) must .s1
    simp only [SumInv, List.nil_append]
    refine ⟨⟨?_, hGh.hist_nodup _⟩, fun u hu => (hGh.hist_loc _ u).1 hu, ?_⟩
    · show wrap64 (wrap64 g.base) = _
      rw [wrap64_idem]; congr 1; exact hGh.val_hist .base trivial
    · intro u hu
      cases hl : gh.loc u with
      | none => exact absurd hl (hmust u hu)
      | some ℓ =>
        cases ℓ with
        | base => exact Or.inl ((hGh.hist_loc _ u).2 hl)
        | cell c => exact Or.inr ⟨c, rfl⟩
  case s1 =>
    simp only [LInvPC] at hL
    have hsar := sar_false hL hm
    obtain ⟨hcore, hcnt, hmust⟩ := hS
    simp only [stepRun, intAlg_view] at hs
    split at hs
    · rename_i htb
      simp only [hsar, Bool.false_eq_true, if_false] at hs
      fin hs
      refine ⟨Still.leave' _ _ _, Or.inr ⟨_, rfl, rfl, ?_⟩⟩
      show Final gh (wrap64 v.acc) counted must
      refine ⟨hcore.1, hcore.2, ?_, fun u hu => by rw [hcnt u hu]; simp⟩
      intro u hu
      rcases hmust u hu with e | ⟨c, e⟩
      · exact e
      · obtain ⟨a, len, j, ht, _, _⟩ := hG.all_in c (hGh.loc_live u _ e)
        rw [htb] at ht; cases ht
    · rename_i tb htb
      fin hs
      refine ⟨Still.refl _, Or.inl ⟨rfl, .s2, _, rfl, ?_⟩⟩
      show SumInv g gh { v with as := tb, i := 0 } counted must .s2
      simp only [SumInv]
      refine ⟨hcore, fun u hu => Or.inl (hcnt u hu), ?_⟩
      intro u hu
      rcases hmust u hu with e | ⟨c, e⟩
      · exact Or.inl e
      · obtain ⟨a, len, j, ht, hj, hsl⟩ := hG.all_in c (hGh.loc_live u _ e)
        rw [htb] at ht; cases ht
        exact Or.inr ⟨c, j, Nat.zero_le _, hj, hsl, e⟩
  case s2 =>
    simp only [LInvPC] at hL
    have hsar := sar_false hL.1 hm
    obtain ⟨hcore, hcnt, hmust⟩ := hS
    simp only [stepRun, slotAt, intAlg_view] at hs
    split at hs
    · rename_i hsl
      split at hs
      · fin hs
        refine ⟨Still.refl _, Or.inl ⟨rfl, .s2, _, rfl, ?_⟩⟩
        show SumInv g gh { v with i := v.i + 1 } counted must .s2
        simp only [SumInv]
        refine ⟨hcore, ?_, ?_⟩
        · intro u hu
          rcases hcnt u hu with e | ⟨c, j, hj, hs', e⟩
          · exact Or.inl e
          · exact Or.inr ⟨c, j, Nat.lt_succ_of_lt hj, hs', e⟩
        · intro u hu
          rcases hmust u hu with e | ⟨c, j, h1, h2, hs', e⟩
          · exact Or.inl e
          · have hne : j ≠ v.i := fun h => by subst h; rw [hsl] at hs'; cases hs'
            exact Or.inr ⟨c, j, (by show v.i + 1 ≤ j; omega), h2, hs', e⟩
      · rename_i hlast
        simp only [hsar, Bool.false_eq_true, if_false] at hs
        fin hs
        refine ⟨Still.leave' _ _ _, Or.inr ⟨_, rfl, rfl, ?_⟩⟩
        show Final gh (wrap64 v.acc) counted must
        refine ⟨hcore.1, hcore.2, ?_, hcnt.located⟩
        intro u hu
        rcases hmust u hu with e | ⟨c, j, h1, h2, hs', e⟩
        · exact e
        · have hne : j ≠ v.i := fun h => by subst h; rw [hsl] at hs'; cases hs'
          omega
    · rename_i c hsl
      fin hs
      refine ⟨Still.refl _, Or.inl ⟨rfl, .s3, _, rfl, ?_⟩⟩
      show SumInv g gh { v with a := c } counted must .s3
      simp only [SumInv]
      exact ⟨hcore, hcnt, hmust, hsl⟩
  case s3 =>
    simp only [LInvPC] at hL
    have hsar := sar_false hL.1 hm
    obtain ⟨hcore, hcnt, hmust, hslot⟩ := hS
    have hval : g.cell v.a = lsum gh.xOf (gh.hist (.cell v.a)) := hGh.val_hist (.cell v.a) hL.2.2
    have hacc' : wrap64 (v.acc + wrap64 (g.cell v.a)) =
        wrap64 (lsum gh.xOf (counted ++ gh.hist (.cell v.a))) := by
      rw [lsum_append, ← hval]; exact wrap64_congr_add' hcore.1 _
    have hnd' : (counted ++ gh.hist (.cell v.a)).Nodup := by
      rw [List.nodup_append]
      refine ⟨hcore.2, hGh.hist_nodup _, ?_⟩
      intro a ha b hb hab
      subst hab
      have hla := (hGh.hist_loc _ a).1 hb
      rcases hcnt a ha with e | ⟨c, j, hj, hs', e⟩
      · rw [e] at hla; cases hla
      · rw [e] at hla; cases hla
        have := hGh.all_inj _ hL.2.1 j v.i _ hs' hslot
        omega
    have hcnt' : ∀ u ∈ counted ++ gh.hist (.cell v.a), gh.loc u = some .base ∨
        ∃ c j, j < v.i + 1 ∧ (g.arr v.as.1).slot j = some c ∧ gh.loc u = some (.cell c) := by
      intro u hu
      rcases List.mem_append.1 hu with hu | hu
      · rcases hcnt u hu with e | ⟨c, j, hj, hs', e⟩
        · exact Or.inl e
        · exact Or.inr ⟨c, j, Nat.lt_succ_of_lt hj, hs', e⟩
      · exact Or.inr ⟨v.a, v.i, Nat.lt_succ_self _, hslot, (hGh.hist_loc _ u).1 hu⟩
    have hmust' : ∀ u ∈ must, u ∈ counted ++ gh.hist (.cell v.a) ∨
        ∃ c j, v.i + 1 ≤ j ∧ j < v.as.2 ∧ (g.arr v.as.1).slot j = some c ∧ gh.loc u = some (.cell c) := by
      intro u hu
      rcases hmust u hu with e | ⟨c, j, h1, h2, hs', e⟩
      · exact Or.inl (List.mem_append.2 (Or.inl e))
      · by_cases hji : j = v.i
        · subst hji
          rw [hslot] at hs'; cases hs'
          exact Or.inl (List.mem_append.2 (Or.inr ((hGh.hist_loc _ u).2 e)))
        · exact Or.inr ⟨c, j, by omega, h2, hs', e⟩
    simp only [stepRun, intAlg_view, intAlg_add] at hs
    split at hs
    · fin hs
      refine ⟨Still.refl _, Or.inl ⟨rfl, .s2, _, rfl, ?_⟩⟩
      show SumInv g gh { v with acc := v.acc + wrap64 (g.cell v.a), i := v.i + 1 }
        (counted ++ gh.hist (.cell v.a)) must .s2
      simp only [SumInv]
      exact ⟨⟨hacc', hnd'⟩, hcnt', hmust'⟩
    · rename_i hlast
      simp only [hsar, Bool.false_eq_true, if_false] at hs
      fin hs
      refine ⟨Still.leave' _ _ _, Or.inr ⟨_, rfl, rfl, ?_⟩⟩
      show Final gh (wrap64 (v.acc + wrap64 (g.cell v.a))) (counted ++ gh.hist (.cell v.a)) must
      refine ⟨hacc', hnd', ?_, ?_⟩
      · intro u hu
        rcases hmust' u hu with e | ⟨c, j, h1, h2, _, _⟩
        · exact e
        · have hlast' : ¬ v.i + 1 < v.as.2 := hlast
          omega
      · intro u hu
        rcases hcnt' u hu with e | ⟨c, j, _, _, e⟩ <;> rw [e] <;> simp


/-! ## One step of an in-flight `Add` -/

theorem ghostG_upd_nil (g : G) (gh : Ghost) (pc : PC) (v : V) (u : Nat) (a : Act) :
    ghostG g gh (.run pc v) (.upd u) a [] = gh := rfl
theorem ghostG_upd_lpret (g : G) (gh : Ghost) (pc : PC) (v : V) (u : Nat) (a : Act) (x : Int) (r : Option Int) :
    ghostG g gh (.run pc v) (.upd u) a [.lp x, .ret r] = (gh.land u (lpLoc g pc v)).complete u := rfl
theorem ghostG_upd_lp (g : G) (gh : Ghost) (pc : PC) (v : V) (u : Nat) (a : Act) (x : Int) :
    ghostG g gh (.run pc v) (.upd u) a [.lp x] = gh.land u (lpLoc g pc v) := rfl
theorem ghostG_upd_ret (g : G) (gh : Ghost) (pc : PC) (v : V) (u : Nat) (a : Act) (r : Option Int) :
    ghostG g gh (.run pc v) (.upd u) a [.ret r] = gh.complete u := rfl

theorem mnt_step {mc : Nat} {t : Tid} {g : G} {pc : PC} {v : V} {w : Nat} {g' : G} {l' : L} {obs : List Obs}
    (hm : v.mnt = false) (hs : stepRun intAlg mc t g pc v w = (g', l', obs)) : isMnt l' = false := by
  cases stepRun_ghost hs with
  | stay _ _ h3 _ _ => rw [h3]; exact hm
  | leaveM _ h2 _ _ => rw [h2]; rfl
  | leaveN _ _ h3 _ _ => rw [h3]; rfl
  | startN h1 => cases h1
  | startM h1 => cases h1

theorem add_step {mc : Nat} {t : Tid} {g : G} {gh : Ghost} {pc : PC} {v : V} {w : Nat} {g' : G} {l' : L}
    {obs : List Obs} {u : Nat} {a : Act}
    (hG : GInv g) (hGh : GhInv g gh) (hL : LInvPC g v pc) (hm : v.mnt = false) (hu : u < gh.nupd)
    (hpc : (preLP pc = true ∧ gh.loc u = none ∧ gh.xOf u = v.x) ∨ (postLP pc = true ∧ gh.loc u ≠ none))
    (hs : stepRun intAlg mc t g pc v w = (g', l', obs)) :
    GhInv g' (ghostG g gh (.run pc v) (.upd u) a obs) ∧
    Guar (some u) g gh g' (ghostG g gh (.run pc v) (.upd u) a obs) ∧
    TInv g' (ghostG g gh (.run pc v) (.upd u) a obs) l' (lgNext l' (.upd u)) ∧
    (∀ r, Obs.ret (some r) ∉ obs) := by
  have E := stepRun_eff hG hL hm hs
  have hm' := mnt_step hm hs
  rcases hpc with ⟨hp, hn, hx⟩ | ⟨hp, hn⟩
  · rcases add_pre_step hp hs with ⟨rfl, pc', v', rfl, hp', hx'⟩ | ⟨rfl, rfl⟩ | ⟨rfl, pc', rfl, hp'⟩
    · rw [ghostG_upd_nil]
      cases E with
      | lp h _ => simp at h
      | silent _ st =>
        exact ⟨ghinv_still hGh st, Guar.ofKeep gh st.keep _, TInv.ofPre hm' hp' hu hn (hx.trans hx'.symm), by simp⟩
    · rw [ghostG_upd_lpret]
      cases E with
      | silent h _ => simp [isLp] at h
      | lp _ ld =>
        have hI := ghinv_land hGh hu hn (hx ▸ ld)
        have hloc : (gh.land u (lpLoc g pc v)).loc u ≠ none := by simp [Ghost.land]
        exact ⟨ghinv_complete hI hloc, (Guar.land _ hn ld.keep).complete u, rfl, by simp⟩
    · rw [ghostG_upd_lp]
      cases E with
      | silent h _ => simp [isLp] at h
      | lp _ ld =>
        have hI := ghinv_land hGh hu hn (hx ▸ ld)
        have hloc : (gh.land u (lpLoc g pc v)).loc u ≠ none := by simp [Ghost.land]
        exact ⟨hI, Guar.land _ hn ld.keep, TInv.ofPost hm' hp' hu hloc, by simp⟩
  · obtain ⟨rfl, rfl⟩ := add_post_step hp hs
    rw [ghostG_upd_ret]
    cases E with
    | lp h _ => simp [isLp] at h
    | silent _ st =>
      exact ⟨ghinv_complete (ghinv_still hGh st) hn, (Guar.ofKeep gh st.keep _).complete u, rfl, by simp⟩

/-! ## One step of any thread -/

/-- what a step of thread-state `(l, lg)` establishes: the global ghost invariant, the guarantee, the
    acting thread's invariant, and the result of a returning `Sum` -/
def StepG (g : G) (gh : Ghost) (l : L) (lg : LGhost) (a : Act) (g' : G) (l' : L) (obs : List Obs) : Prop :=
  GhInv g' (ghostG g gh l lg a obs) ∧
  Guar (whoOf lg) g gh g' (ghostG g gh l lg a obs) ∧
  TInv g' (ghostG g gh l lg a obs) l' (lgNext l' (tagOf gh l lg a)) ∧
  (∀ r counted must, Obs.ret (some r) ∈ obs → tagOf gh l lg a = .sum counted must → Final gh r counted must)

theorem run_thread {mc : Nat} {t : Tid} {g : G} {gh : Ghost} {pc : PC} {v : V} {lg : LGhost} {w : Nat}
    {g' : G} {l' : L} {obs : List Obs} (a : Act)
    (hG : GInv g) (hGh : GhInv g gh) (hL : LInvPC g v pc) (hT : TInv g gh (.run pc v) lg)
    (hs : stepRun intAlg mc t g pc v w = (g', l', obs)) : StepG g gh (.run pc v) lg a g' l' obs := by
  obtain ⟨hm, h1, h2, h3⟩ := hT
  cases hp : preLP pc
  · cases hq : postLP pc
    · obtain ⟨counted, must, rfl, hS⟩ := h3 hp hq
      obtain ⟨st, hcase⟩ := sum_step hG hGh hL hm hS hs
      have hm' := mnt_step hm hs
      show GhInv g' gh ∧ Guar none g gh g' gh ∧
        TInv g' gh l' (lgNext l' (.sum (readHist gh pc v counted) must)) ∧ _
      refine ⟨ghinv_still hGh st, Guar.ofKeep gh st.keep _, ?_, ?_⟩
      · rcases hcase with ⟨_, pc', v', rfl, hS'⟩ | ⟨r, _, rfl, _⟩
        · exact TInv.ofSum hm' hS'
        · rfl
      · intro r cnt mst hr htag
        have htag' : LGhost.sum (readHist gh pc v counted) must = .sum cnt mst := htag
        cases htag'
        rcases hcase with ⟨rfl, _⟩ | ⟨r', rfl, _, hF⟩
        · simp at hr
        · simp at hr; subst hr; exact hF
    · obtain ⟨u, rfl, hu, hn⟩ := h2 hq
      obtain ⟨a1, a2, a3, a4⟩ := add_step (a := a) hG hGh hL hm hu (Or.inr ⟨hq, hn⟩) hs
      exact ⟨a1, a2, a3, fun r _ _ hr _ => absurd hr (a4 r)⟩
  · obtain ⟨u, rfl, hu, hn, hx⟩ := h1 hp
    obtain ⟨a1, a2, a3, a4⟩ := add_step (a := a) hG hGh hL hm hu (Or.inl ⟨hp, hn, hx⟩) hs
    exact ⟨a1, a2, a3, fun r _ _ hr _ => absurd hr (a4 r)⟩

theorem thread_step {mc : Nat} {t : Tid} {g : G} {gh : Ghost} {l : L} {lg : LGhost} {a : Act}
    {g' : G} {l' : L} {obs : List Obs}
    (hG : GInv g) (hGh : GhInv g gh) (hL : LInv g l) (hT : TInv g gh l lg) (ha : noMaint a = true)
    (hs : step intAlg mc t g l a = some (g', l', obs)) : StepG g gh l lg a g' l' obs := by
  cases l <;> cases a <;> simp only [step] at hs <;> try contradiction
  case idle.add x =>
    have hlg : lg = .none := hT
    subst hlg
    split at hs; · cases hs
    cases hs
    have hloc : gh.loc gh.nupd = none := by
      cases h : gh.loc gh.nupd with
      | none => rfl
      | some ℓ => have := hGh.loc_lt _ _ h; omega
    exact ⟨ghinv_alloc (ghinv_still hGh (Still.actv _ _)) x, Guar.alloc gh (Still.actv _ _).keep x,
      TInv.ofPre rfl rfl (Nat.lt_succ_self _) hloc (show (gh.alloc x).xOf gh.nupd = x by simp [Ghost.alloc]),
      by simp⟩
  case idle.sum =>
    have hlg : lg = .none := hT
    subst hlg
    split at hs; · cases hs
    cases hs
    refine ⟨ghinv_still hGh (Still.actv _ _), Guar.ofKeep gh (Still.actv _ _).keep _, ?_, by simp⟩
    exact TInv.ofSum rfl (show SumInv _ gh {} [] gh.lped .s0 from ⟨rfl, rfl, fun u hu => (hGh.lped_iff u).1 hu⟩)
  case run.tau pc v =>
    split at hs; · cases hs
    simp only [Option.some.injEq] at hs
    exact run_thread _ hG hGh hL hT hs
  case run.rnd pc v w =>
    split at hs
    · simp only [Option.some.injEq] at hs
      exact run_thread _ hG hGh hL hT hs
    · cases hs

/-! ## The invariant of the instrumented machine -/

structure SInvAt (g : G) (gh : Ghost) (l : Tid → L × LGhost) : Prop where
  /-- the invariant of the un-instrumented machine -/
  ainv : AInvAt g (fun t => (l t).1)
  ghinv : GhInv g gh
  /-- thread-local ghost invariants; in particular no thread runs a maintenance operation -/
  tinv : ∀ t, TInv g gh (l t).1 (l t).2
  /-- in-flight updates own distinct ids -/
  distinct : ∀ t1 t2 u, (l t1).2 = .upd u → (l t2).2 = .upd u → t1 = t2

def SInv {mc : Nat} (c : Config (MG mc)) : Prop := SInvAt (Prod.fst c.g) (Prod.snd c.g) c.l

theorem whoOf_some {lg : LGhost} {w : Nat} (h : whoOf lg = some w) : lg = .upd w := by
  cases lg <;> simp [whoOf] at h
  rw [h]

theorem lgNext_tag_upd {gh : Ghost} {l l' : L} {lg : LGhost} {a : Act} {u : Nat}
    (h : lgNext l' (tagOf gh l lg a) = .upd u) : lg = .upd u ∨ (l = .idle ∧ u = gh.nupd) := by
  cases l' with
  | idle => cases h
  | run pc' v' =>
    have h' : tagOf gh l lg a = .upd u := h
    cases l with
    | idle =>
      cases a <;> simp [tagOf] at h'
      exact Or.inr ⟨rfl, h'.symm⟩
    | run pc v =>
      cases lg <;> simp [tagOf] at h'
      exact Or.inl (by rw [h'])

theorem sinv_init (mc : Nat) : SInv (Config.init (MG mc)) :=
  ⟨ainv_init mc, ghinv_init, fun _ => rfl, fun _ _ _ h => by cases h⟩

theorem sinv_step {mc : Nat} {g : G} {gh : Ghost} {l : Tid → L × LGhost} {t : Tid} {a : Act}
    {g' : G} {gh' : Ghost} {l' : L} {lg' : LGhost} {obs' : List (Obs × LGhost)}
    (hI : SInvAt g gh l) (hs : gstep mc t (g, gh) (l t) a = some ((g', gh'), (l', lg'), obs')) :
    SInvAt g' gh' (upd l t (l', lg')) := by
  obtain ⟨ha, g1, l1, obs, hst, hR⟩ := gstep_iff (l := (l t).1) (lg := (l t).2) |>.1 hs
  simp only [Prod.mk.injEq] at hR
  obtain ⟨⟨rfl, rfl⟩, ⟨rfl, rfl⟩, rfl⟩ := hR
  have hA' := ainv_step hI.ainv hst
  obtain ⟨hGh', hGu, hT', _⟩ := thread_step hI.ainv.ginv hI.ghinv (hI.ainv.linv t) (hI.tinv t) ha hst
  refine ⟨by rw [proj_upd]; exact hA', hGh', ?_, ?_⟩
  · intro u
    by_cases hut : u = t
    · subst hut; simp only [upd_same]; exact hT'
    · simp only [upd_other _ _ _ _ hut]
      apply TInv.stable hI.ghinv hGu (hI.ainv.linv u) ?_ (hI.tinv u)
      intro w hw hwho
      exact hut (hI.distinct u t w hw (whoOf_some hwho))
  · intro t1 t2 u h1 h2
    have key : ∀ x lnew, x ≠ t → (l x).2 = .upd u →
        lgNext lnew (tagOf gh (l t).1 (l t).2 a) = .upd u → False := by
      intro x lnew hx hxu hnew
      rcases lgNext_tag_upd hnew with e | ⟨_, e⟩
      · exact hx (hI.distinct x t u hxu e)
      · have h := hI.tinv x
        rw [hxu] at h
        have := h.upd_lt
        omega
    by_cases e1 : t1 = t <;> by_cases e2 : t2 = t
    · rw [e1, e2]
    · subst e1; simp only [upd_same] at h1; simp only [upd_other _ _ _ _ e2] at h2
      exact absurd (key t2 _ e2 h2 h1) id
    · subst e2; simp only [upd_same] at h2; simp only [upd_other _ _ _ _ e1] at h1
      exact absurd (key t1 _ e1 h1 h2) id
    · simp only [upd_other _ _ _ _ e1] at h1; simp only [upd_other _ _ _ _ e2] at h2
      exact hI.distinct t1 t2 u h1 h2

/-- **Every reachable configuration of the instrumented machine satisfies `SInv`.** -/
theorem sinv_reach {mc : Nat} : ∀ c : Config (MG mc), Reach (MG mc) c → SInv c := by
  apply inv_of_reach
  · exact sinv_init mc
  · intro c t a G' L' obs hI hs
    obtain ⟨g', gh'⟩ := G'
    obtain ⟨l', lg'⟩ := L'
    exact sinv_step (g := Prod.fst c.g) (gh := Prod.snd c.g) hI hs


/-! ## Stage 4: the results -/

section Results
variable {mc : Nat}

/-- the ghost state of an instrumented configuration -/
abbrev ghostOf (c : Config (MG mc)) : Ghost := Prod.snd c.g
/-- the heap of an instrumented configuration -/
abbrev heapOf (c : Config (MG mc)) : G := Prod.fst c.g

/-- the invariant of the un-instrumented machine transfers -/
theorem ainv_of_reach {c : Config (MG mc)} (hr : Reach (MG mc) c) : AInv (projC c) :=
  ainv_reach mc (projC c) (reach_proj hr)

/-- no maintenance operation ever runs in `MG` -/
theorem sinv_maint {c : Config (MG mc)} (hr : Reach (MG mc) c) :
    (heapOf c).maint = false ∧ ∀ t, isMnt (Prod.fst (c.l t)) = false := by
  have hI := sinv_reach c hr
  have hall : ∀ t, isMnt (Prod.fst (c.l t)) = false := by
    intro t
    have hT := hI.tinv t
    revert hT
    generalize Prod.fst (c.l t) = l
    generalize Prod.snd (c.l t) = lg
    intro hT
    cases l with
    | idle => rfl
    | run pc v => exact hT.1
  refine ⟨?_, hall⟩
  cases hm : (heapOf c).maint with
  | false => rfl
  | true =>
    obtain ⟨t, ht⟩ := hI.ainv.maint_iff.1 hm
    rw [hall t] at ht; cases ht

/-- the exact value of `base` and of every materialised cell is the total of the updates landed there -/
theorem value_eq_hist {c : Config (MG mc)} (hr : Reach (MG mc) c) :
    (heapOf c).base = lsum (ghostOf c).xOf ((ghostOf c).hist .base) ∧
    ∀ k, k < (heapOf c).ncell → (heapOf c).cell k = lsum (ghostOf c).xOf ((ghostOf c).hist (.cell k)) :=
  ⟨(sinv_reach c hr).ghinv.val_hist .base trivial, fun k hk => (sinv_reach c hr).ghinv.val_hist (.cell k) hk⟩

/-- an update lands at exactly one location, exactly once -/
theorem no_double_count {c : Config (MG mc)} (hr : Reach (MG mc) c) :
    (∀ ℓ, ((ghostOf c).hist ℓ).Nodup) ∧
    (∀ ℓ1 ℓ2 u, u ∈ (ghostOf c).hist ℓ1 → u ∈ (ghostOf c).hist ℓ2 → ℓ1 = ℓ2) ∧
    (∀ ℓ u, u ∈ (ghostOf c).hist ℓ ↔ (ghostOf c).loc u = some ℓ) :=
  ⟨(sinv_reach c hr).ghinv.hist_nodup, fun _ _ _ h1 h2 => (sinv_reach c hr).ghinv.no_double_count h1 h2,
   (sinv_reach c hr).ghinv.hist_loc⟩

/-- the ids whose linearization point has occurred are the located ones; they include the completed ones -/
theorem lped_spec {c : Config (MG mc)} (hr : Reach (MG mc) c) :
    (∀ u, u ∈ (ghostOf c).lped ↔ (ghostOf c).loc u ≠ none) ∧
    (∀ u, u ∈ (ghostOf c).completed → u ∈ (ghostOf c).lped) ∧
    (∀ u, u ∈ (ghostOf c).lped → u < (ghostOf c).nupd) := by
  have h := (sinv_reach c hr).ghinv
  refine ⟨h.lped_iff, h.completed_lped, ?_⟩
  intro u hu
  cases hl : (ghostOf c).loc u with
  | none => exact absurd hl ((h.lped_iff u).1 hu)
  | some ℓ => exact h.loc_lt u ℓ hl

/-- **C09, every in-flight `Sum`.**  The accumulator is (modulo 2^64) the total of a duplicate-free list
    of updates whose linearization point has occurred. -/
theorem sum_is_set {c : Config (MG mc)} (hr : Reach (MG mc) c) {t : Tid} {pc : PC} {v : V}
    {counted must : List Nat} (h : c.l t = (L.run pc v, LGhost.sum counted must)) :
    wrap64 v.acc = wrap64 (lsum (ghostOf c).xOf counted) ∧ counted.Nodup ∧
    (∀ u ∈ counted, (ghostOf c).loc u ≠ none) := by
  have hT := (sinv_reach c hr).tinv t
  rw [h] at hT
  obtain ⟨_, h1, h2, h3⟩ := hT
  cases hp : preLP pc
  · cases hq : postLP pc
    · obtain ⟨cnt, mst, e, hS⟩ := h3 hp hq
      cases e
      cases pc <;> simp only [SumInv] at hS
      case s0 => obtain ⟨rfl, h0, _⟩ := hS; rw [h0]; exact ⟨rfl, List.nodup_nil, fun u hu => by cases hu⟩
      case s1 => exact ⟨hS.1.1, hS.1.2, fun u hu => by rw [hS.2.1 u hu]; simp⟩
      case s2 => exact ⟨hS.1.1, hS.1.2, hS.2.1.located⟩
      case s3 => exact ⟨hS.1.1, hS.1.2, hS.2.1.located⟩
    · obtain ⟨_, e, _⟩ := h2 hq; cases e
  · obtain ⟨_, e, _⟩ := h1 hp; cases e

/-- **C09.**  Whenever a step of `MG` from a reachable configuration emits the response `r` of a `Sum`
    whose ghosts are `counted` and `must`:
    * `r` is the (two's-complement wrapped) total of the operands of the updates in `counted`;
    * `counted` has no duplicates (no update is counted twice, and each is counted whole);
    * every update in `must` -- the updates whose linearization point had occurred when the `Sum` was
      invoked (`sum_invoke`), in particular all that had returned (`lped_spec`) -- is counted;
    * every counted update has passed its linearization point (so it was invoked before the `Sum`
      returned: its id is below the next fresh id). -/
theorem sum_bounds {c : Config (MG mc)} (hr : Reach (MG mc) c) {t : Tid} {a : Act}
    {G' : (MG mc).G} {L' : (MG mc).L} {obs : List (MG mc).Obs}
    (hs : (MG mc).step t c.g (c.l t) a = some (G', L', obs)) {r : Int} {counted must : List Nat}
    (ho : (Obs.ret (some r), LGhost.sum counted must) ∈ obs) :
    r = wrap64 (lsum (ghostOf c).xOf counted) ∧ counted.Nodup ∧ (∀ u ∈ must, u ∈ counted) ∧
    (∀ u ∈ counted, (ghostOf c).loc u ≠ none ∧ u ∈ (ghostOf c).lped ∧ u < (ghostOf c).nupd) := by
  have hI := sinv_reach c hr
  obtain ⟨ha, g1, l1, obsM, hst, hR⟩ :=
    gstep_iff (g := Prod.fst c.g) (gh := Prod.snd c.g) (l := Prod.fst (c.l t)) (lg := Prod.snd (c.l t)) |>.1 hs
  have hobs : obs = obsM.map (fun o => (o, tagOf (Prod.snd c.g) (Prod.fst (c.l t)) (Prod.snd (c.l t)) a)) :=
    congrArg (fun R => R.2.2) hR
  subst hobs
  obtain ⟨o, ho1, ho2⟩ := List.mem_map.1 ho
  simp only [Prod.mk.injEq] at ho2
  obtain ⟨rfl, htag⟩ := ho2
  obtain ⟨_, _, _, hF⟩ := thread_step hI.ainv.ginv hI.ghinv (hI.ainv.linv t) (hI.tinv t) ha hst
  obtain ⟨f1, f2, f3, f4⟩ := hF r counted must ho1 htag
  refine ⟨f1, f2, f3, fun u hu => ⟨f4 u hu, (hI.ghinv.lped_iff u).2 (f4 u hu), ?_⟩⟩
  exact (lped_spec hr).2.2 u ((hI.ghinv.lped_iff u).2 (f4 u hu))

/-! ### What the ghosts mean -/

/-- invocation of `Sum`: `must` is the list of updates whose linearization point has occurred -/
theorem sum_invoke {t : Tid} {g : G} {gh : Ghost} {lg : LGhost} {g' : G} {gh' : Ghost} {l' : L} {lg' : LGhost}
    {obs : List (Obs × LGhost)}
    (hs : (MG mc).step t (g, gh) (L.idle, lg) Act.sum = some ((g', gh'), (l', lg'), obs)) :
    gh' = gh ∧ lg' = .sum [] gh.lped ∧ obs = [] := by
  have hs' : gstep mc t (g, gh) (L.idle, lg) Act.sum = some ((g', gh'), (l', lg'), obs) := hs
  obtain ⟨_, g1, l1, obsM, hst, hR⟩ := gstep_iff.1 hs'
  simp only [Prod.mk.injEq] at hR
  obtain ⟨⟨rfl, rfl⟩, ⟨rfl, rfl⟩, rfl⟩ := hR
  simp only [step] at hst
  split at hst
  · cases hst
  · cases hst; exact ⟨rfl, rfl, rfl⟩

/-- invocation of `Add x`: a fresh id is allocated and records `x` -/
theorem add_invoke {t : Tid} {g : G} {gh : Ghost} {lg : LGhost} {x : Int} {g' : G} {gh' : Ghost} {l' : L}
    {lg' : LGhost} {obs : List (Obs × LGhost)}
    (hs : (MG mc).step t (g, gh) (L.idle, lg) (Act.add x) = some ((g', gh'), (l', lg'), obs)) :
    gh' = gh.alloc x ∧ lg' = .upd gh.nupd ∧ obs = [] := by
  have hs' : gstep mc t (g, gh) (L.idle, lg) (Act.add x) = some ((g', gh'), (l', lg'), obs) := hs
  obtain ⟨_, g1, l1, obsM, hst, hR⟩ := gstep_iff.1 hs'
  simp only [Prod.mk.injEq] at hR
  obtain ⟨⟨rfl, rfl⟩, ⟨rfl, rfl⟩, rfl⟩ := hR
  simp only [step] at hst
  split at hst
  · cases hst
  · cases hst; exact ⟨rfl, rfl, rfl⟩

/-- a step of an in-flight `Sum` never changes its `must`, nor the shared ghosts; its observations are
    tagged with its ghost after the step -/
theorem sum_ghost_step {t : Tid} {g : G} {gh : Ghost} {pc : PC} {v : V} {counted must : List Nat} {a : Act}
    {g' : G} {gh' : Ghost} {l' : L} {lg' : LGhost} {obs : List (Obs × LGhost)}
    (hs : (MG mc).step t (g, gh) (L.run pc v, LGhost.sum counted must) a = some ((g', gh'), (l', lg'), obs)) :
    gh' = gh ∧ (lg' = .none ∨ lg' = .sum (readHist gh pc v counted) must) ∧
    ∀ o ∈ obs, o.2 = .sum (readHist gh pc v counted) must := by
  have hs' : gstep mc t (g, gh) (L.run pc v, LGhost.sum counted must) a = some ((g', gh'), (l', lg'), obs) := hs
  obtain ⟨_, g1, l1, obsM, hst, hR⟩ := gstep_iff.1 hs'
  simp only [Prod.mk.injEq] at hR
  obtain ⟨⟨rfl, rfl⟩, ⟨rfl, rfl⟩, rfl⟩ := hR
  refine ⟨rfl, ?_, ?_⟩
  · cases l' with
    | idle => exact Or.inl rfl
    | run _ _ => exact Or.inr rfl
  · intro o ho
    obtain ⟨o', _, rfl⟩ := List.mem_map.1 ho
    rfl

/-! ### The ghost lists, read off the tagged observations

`completed` is exactly the list of ids for which the tagged response `(ret none, upd u)` has been
emitted, `lped` the list of ids for which a tagged `(lp x, upd u)` has been emitted, and then
`x = xOf u`. -/

theorem upd_obs_shapes {mc : Nat} {t : Tid} {g : G} {gh : Ghost} {pc : PC} {v : V} {u : Nat} {w : Nat}
    {g' : G} {l' : L} {obs : List Obs} (hT : TInv g gh (.run pc v) (.upd u))
    (hs : stepRun intAlg mc t g pc v w = (g', l', obs)) :
    obs = [] ∨ (obs = [.lp v.x, .ret none] ∧ gh.xOf u = v.x) ∨ (obs = [.lp v.x] ∧ gh.xOf u = v.x) ∨
      obs = [.ret none] := by
  obtain ⟨_, h1, h2, h3⟩ := hT
  cases hp : preLP pc
  · cases hq : postLP pc
    · obtain ⟨_, _, e, _⟩ := h3 hp hq; cases e
    · exact Or.inr (Or.inr (Or.inr (add_post_step hq hs).1))
  · obtain ⟨u', e, _, _, hx⟩ := h1 hp
    cases e
    rcases add_pre_step hp hs with ⟨h, _⟩ | ⟨h, _⟩ | ⟨h, _⟩
    · exact Or.inl h
    · exact Or.inr (Or.inl ⟨h, hx⟩)
    · exact Or.inr (Or.inr (Or.inl ⟨h, hx⟩))

theorem ghost_meaning_run {mc : Nat} {t : Tid} {g : G} {gh : Ghost} {pc : PC} {v : V} {lg : LGhost} {w : Nat}
    {g' : G} {l' : L} {obsM : List Obs} (a : Act) (hT : TInv g gh (.run pc v) lg)
    (hs : stepRun intAlg mc t g pc v w = (g', l', obsM)) :
    (∀ u, u ∈ (ghostG g gh (.run pc v) lg a obsM).completed ↔
      u ∈ gh.completed ∨ (Obs.ret none, LGhost.upd u) ∈ obsM.map (fun o => (o, tagOf gh (.run pc v) lg a))) ∧
    (∀ u, u ∈ (ghostG g gh (.run pc v) lg a obsM).lped ↔
      u ∈ gh.lped ∨ ∃ x, (Obs.lp x, LGhost.upd u) ∈ obsM.map (fun o => (o, tagOf gh (.run pc v) lg a))) ∧
    (∀ u x, (Obs.lp x, LGhost.upd u) ∈ obsM.map (fun o => (o, tagOf gh (.run pc v) lg a)) → gh.xOf u = x) := by
  cases lg with
  | none =>
    exfalso
    obtain ⟨_, h1, h2, h3⟩ := hT
    cases hp : preLP pc
    · cases hq : postLP pc
      · obtain ⟨_, _, e, _⟩ := h3 hp hq; cases e
      · obtain ⟨_, e, _⟩ := h2 hq; cases e
    · obtain ⟨_, e, _⟩ := h1 hp; cases e
  | sum counted must =>
    refine ⟨?_, ?_, ?_⟩ <;> simp [ghostG, tagOf]
  | upd u0 =>
    have htag : tagOf gh (.run pc v) (.upd u0) a = .upd u0 := rfl
    rw [htag]
    rcases upd_obs_shapes hT hs with rfl | ⟨rfl, hx⟩ | ⟨rfl, hx⟩ | rfl
    · rw [ghostG_upd_nil]; simp
    · rw [ghostG_upd_lpret]
      refine ⟨?_, ?_, ?_⟩
      · intro u; simp [Ghost.complete, Ghost.land]; exact Or.comm
      · intro u; simp [Ghost.complete, Ghost.land]; exact Or.comm
      · intro u x; simp; intro h1 h2; rw [h2, h1]; exact hx
    · rw [ghostG_upd_lp]
      refine ⟨?_, ?_, ?_⟩
      · intro u; simp [Ghost.land]
      · intro u; simp [Ghost.land]; exact Or.comm
      · intro u x; simp; intro h1 h2; rw [h2, h1]; exact hx
    · rw [ghostG_upd_ret]
      refine ⟨?_, ?_, ?_⟩
      · intro u; simp [Ghost.complete]; exact Or.comm
      · intro u; simp [Ghost.complete]
      · intro u x; simp

theorem ghost_meaning_raw {mc : Nat} {t : Tid} {g : G} {gh : Ghost} {l : L} {lg : LGhost} {a : Act}
    {g' : G} {l' : L} {obsM : List Obs} (hT : TInv g gh l lg) (ha : noMaint a = true)
    (hst : step intAlg mc t g l a = some (g', l', obsM)) :
    (∀ u, u ∈ (ghostG g gh l lg a obsM).completed ↔
      u ∈ gh.completed ∨ (Obs.ret none, LGhost.upd u) ∈ obsM.map (fun o => (o, tagOf gh l lg a))) ∧
    (∀ u, u ∈ (ghostG g gh l lg a obsM).lped ↔
      u ∈ gh.lped ∨ ∃ x, (Obs.lp x, LGhost.upd u) ∈ obsM.map (fun o => (o, tagOf gh l lg a))) ∧
    (∀ u x, (Obs.lp x, LGhost.upd u) ∈ obsM.map (fun o => (o, tagOf gh l lg a)) → gh.xOf u = x) := by
  cases l <;> cases a <;> simp only [step] at hst <;> try contradiction
  case idle.add x =>
    split at hst; · cases hst
    cases hst
    refine ⟨?_, ?_, ?_⟩ <;> simp [ghostG, Ghost.alloc]
  case idle.sum =>
    split at hst; · cases hst
    cases hst
    refine ⟨?_, ?_, ?_⟩ <;> simp [ghostG]
  case run.tau pc v =>
    split at hst; · cases hst
    simp only [Option.some.injEq] at hst
    exact ghost_meaning_run _ hT hst
  case run.rnd pc v w =>
    split at hst
    · simp only [Option.some.injEq] at hst
      exact ghost_meaning_run _ hT hst
    · cases hst

theorem ghost_meaning {mc : Nat} {c : Config (MG mc)} (hr : Reach (MG mc) c) {t : Tid} {a : Act}
    {G' : (MG mc).G} {L' : (MG mc).L} {obs : List (MG mc).Obs}
    (hs : (MG mc).step t c.g (c.l t) a = some (G', L', obs)) :
    (∀ u, u ∈ (Prod.snd G').completed ↔ u ∈ (ghostOf c).completed ∨ (Obs.ret none, LGhost.upd u) ∈ obs) ∧
    (∀ u, u ∈ (Prod.snd G').lped ↔ u ∈ (ghostOf c).lped ∨ ∃ x, (Obs.lp x, LGhost.upd u) ∈ obs) ∧
    (∀ u x, (Obs.lp x, LGhost.upd u) ∈ obs → (ghostOf c).xOf u = x) := by
  have hI := sinv_reach c hr
  obtain ⟨ha, g1, l1, obsM, hst, hR⟩ :=
    gstep_iff (g := Prod.fst c.g) (gh := Prod.snd c.g) (l := Prod.fst (c.l t)) (lg := Prod.snd (c.l t)) |>.1 hs
  have hobs : obs = obsM.map (fun o => (o, tagOf (Prod.snd c.g) (Prod.fst (c.l t)) (Prod.snd (c.l t)) a)) :=
    congrArg (fun R => R.2.2) hR
  have hgh : Prod.snd G' = ghostG (Prod.fst c.g) (Prod.snd c.g) (Prod.fst (c.l t)) (Prod.snd (c.l t)) a obsM :=
    congrArg (fun R => R.1.2) hR
  rw [hobs, hgh]
  exact ghost_meaning_raw (hI.tinv t) ha hst

/-- coverage: every value-carrying response emitted from a reachable configuration is tagged with the
    ghosts of a `Sum`, so `sum_bounds` speaks about every `Sum` response -/
theorem sum_ret_tagged {mc : Nat} {c : Config (MG mc)} (hr : Reach (MG mc) c) {t : Tid} {a : Act}
    {G' : (MG mc).G} {L' : (MG mc).L} {obs : List (MG mc).Obs}
    (hs : (MG mc).step t c.g (c.l t) a = some (G', L', obs)) {r : Int} {tag : LGhost}
    (ho : (Obs.ret (some r), tag) ∈ obs) : ∃ counted must, tag = .sum counted must := by
  have hI := sinv_reach c hr
  obtain ⟨ha, g1, l1, obsM, hst, hR⟩ :=
    gstep_iff (g := Prod.fst c.g) (gh := Prod.snd c.g) (l := Prod.fst (c.l t)) (lg := Prod.snd (c.l t)) |>.1 hs
  have hobs : obs = obsM.map (fun o => (o, tagOf (Prod.snd c.g) (Prod.fst (c.l t)) (Prod.snd (c.l t)) a)) :=
    congrArg (fun R => R.2.2) hR
  subst hobs
  obtain ⟨o, ho1, ho2⟩ := List.mem_map.1 ho
  simp only [Prod.mk.injEq] at ho2
  obtain ⟨rfl, htag⟩ := ho2
  have hT := hI.tinv t
  revert hT hst htag
  generalize Prod.fst (c.l t) = l
  generalize Prod.snd (c.l t) = lg
  generalize Prod.fst c.g = g
  generalize Prod.snd c.g = gh
  intro hst htag hT
  have key : ∀ pc v w, l = .run pc v → stepRun intAlg mc t g pc v w = (g1, l1, obsM) →
      ∃ counted must, tag = .sum counted must := by
    intro pc v w hl hrun
    subst hl
    cases lg with
    | sum counted must => exact ⟨_, _, htag.symm⟩
    | none =>
      exfalso
      obtain ⟨_, h1, h2, h3⟩ := hT
      cases hp : preLP pc
      · cases hq : postLP pc
        · obtain ⟨_, _, e, _⟩ := h3 hp hq; cases e
        · obtain ⟨_, e, _⟩ := h2 hq; cases e
      · obtain ⟨_, e, _⟩ := h1 hp; cases e
    | upd u =>
      exfalso
      rcases upd_obs_shapes hT hrun with h | ⟨h, _⟩ | ⟨h, _⟩ | h <;> rw [h] at ho1 <;> simp at ho1
  cases l <;> cases a <;> simp only [step] at hst <;> try contradiction
  case idle.add x =>
    split at hst; · cases hst
    cases hst; cases ho1
  case idle.sum =>
    split at hst; · cases hst
    cases hst; cases ho1
  case run.tau pc v =>
    split at hst; · cases hst
    simp only [Option.some.injEq] at hst
    exact key pc v 0 rfl hst
  case run.rnd pc v w =>
    split at hst
    · simp only [Option.some.injEq] at hst
      exact key pc v w rfl hst
    · cases hst

/-! ### Runs: ghosts only grow, and the result holds along every run -/

/-- ghost state `gh'` extends `gh` -/
structure Ext (gh gh' : Ghost) : Prop where
  nupd_mono : gh.nupd ≤ gh'.nupd
  xOf_keep : ∀ u, u < gh.nupd → gh'.xOf u = gh.xOf u
  loc_keep : ∀ u ℓ, gh.loc u = some ℓ → gh'.loc u = some ℓ
  lped_mono : ∀ u, u ∈ gh.lped → u ∈ gh'.lped

theorem Ext.refl (gh : Ghost) : Ext gh gh := ⟨Nat.le_refl _, fun _ _ => rfl, fun _ _ h => h, fun _ h => h⟩

theorem Ext.trans {a b c : Ghost} (h1 : Ext a b) (h2 : Ext b c) : Ext a c :=
  ⟨Nat.le_trans h1.nupd_mono h2.nupd_mono,
   fun u hu => (h2.xOf_keep u (Nat.lt_of_lt_of_le hu h1.nupd_mono)).trans (h1.xOf_keep u hu),
   fun u ℓ h => h2.loc_keep u ℓ (h1.loc_keep u ℓ h), fun u h => h2.lped_mono u (h1.lped_mono u h)⟩

theorem step_ext {mc : Nat} {c : Config (MG mc)} (hr : Reach (MG mc) c) {t : Tid} {a : Act}
    {G' : (MG mc).G} {L' : (MG mc).L} {obs : List (MG mc).Obs}
    (hs : (MG mc).step t c.g (c.l t) a = some (G', L', obs)) : Ext (ghostOf c) (Prod.snd G') := by
  have hI := sinv_reach c hr
  obtain ⟨ha, g1, l1, obsM, hst, hR⟩ :=
    gstep_iff (g := Prod.fst c.g) (gh := Prod.snd c.g) (l := Prod.fst (c.l t)) (lg := Prod.snd (c.l t)) |>.1 hs
  have hgh : Prod.snd G' = ghostG (Prod.fst c.g) (Prod.snd c.g) (Prod.fst (c.l t)) (Prod.snd (c.l t)) a obsM :=
    congrArg (fun R => R.1.2) hR
  rw [hgh]
  obtain ⟨_, hGu, _, _⟩ := thread_step hI.ainv.ginv hI.ghinv (hI.ainv.linv t) (hI.tinv t) ha hst
  exact ⟨hGu.nupd_mono, hGu.xOf_keep, hGu.loc_keep, hGu.lped_mono⟩

theorem run_ext {mc : Nat} (s : List (Tid × (MG mc).Act)) : ∀ c : Config (MG mc), Reach (MG mc) c →
    Ext (ghostOf c) (ghostOf (run (MG mc) c s).1) := by
  induction s with
  | nil => intro c _; exact Ext.refl _
  | cons ta rest ih =>
    intro c hr
    obtain ⟨t, a⟩ := ta
    simp only [run]
    split
    · exact ih c hr
    · rename_i G' L' obs hstep
      exact (step_ext hr hstep).trans (ih _ (Reach.step hr hstep))

theorem run_cons_none {M : Machine} {c : Config M} {t : Tid} {a : M.Act} {rest : List (Tid × M.Act)}
    (h : M.step t c.g (c.l t) a = none) : run M c ((t, a) :: rest) = run M c rest := by
  simp only [run, h]

theorem run_cons_some {M : Machine} {c : Config M} {t : Tid} {a : M.Act} {rest : List (Tid × M.Act)}
    {g' : M.G} {l' : M.L} {obs : List M.Obs} (h : M.step t c.g (c.l t) a = some (g', l', obs)) :
    run M c ((t, a) :: rest) =
      ((run M ⟨g', upd c.l t l'⟩ rest).1, obs.map (fun o => (t, o)) ++ (run M ⟨g', upd c.l t l'⟩ rest).2) := by
  simp only [run, h]

/-- the result of a returned `Sum`, relative to a (later) ghost state -/
def FinalAt (gh : Ghost) (r : Int) (counted must : List Nat) : Prop :=
  r = wrap64 (lsum gh.xOf counted) ∧ counted.Nodup ∧ (∀ u ∈ must, u ∈ counted) ∧
    (∀ u ∈ counted, u ∈ gh.lped ∧ u < gh.nupd)

theorem FinalAt.ext {gh gh' : Ghost} {r : Int} {counted must : List Nat} (h : FinalAt gh r counted must)
    (e : Ext gh gh') : FinalAt gh' r counted must := by
  obtain ⟨h1, h2, h3, h4⟩ := h
  refine ⟨?_, h2, h3, fun u hu => ⟨e.lped_mono u (h4 u hu).1, Nat.lt_of_lt_of_le (h4 u hu).2 e.nupd_mono⟩⟩
  rw [h1]
  congr 1
  exact lsum_congr (fun u hu => (e.xOf_keep u (h4 u hu).2).symm)

/-- **C09 along runs.**  In the run of the instrumented machine on any schedule, from any reachable
    configuration, every `Sum` response in the log satisfies the bounds (relative to the final ghosts). -/
theorem run_sum_bounds {mc : Nat} (s : List (Tid × (MG mc).Act)) : ∀ c : Config (MG mc), Reach (MG mc) c →
    ∀ t r counted must, (t, (Obs.ret (some r), LGhost.sum counted must)) ∈ (run (MG mc) c s).2 →
      FinalAt (ghostOf (run (MG mc) c s).1) r counted must := by
  induction s with
  | nil => intro c _ t r counted must h; cases h
  | cons ta rest ih =>
    intro c hr t r counted must h
    obtain ⟨t0, a⟩ := ta
    cases hstep : (MG mc).step t0 c.g (c.l t0) a with
    | none =>
      rw [run_cons_none hstep] at h ⊢
      exact ih c hr t r counted must h
    | some R =>
      obtain ⟨G', L', obs⟩ := R
      rw [run_cons_some hstep] at h ⊢
      have hr1 := Reach.step hr hstep
      rcases List.mem_append.1 h with h | h
      · obtain ⟨o, ho, e⟩ := List.mem_map.1 h
        cases e
        obtain ⟨f1, f2, f3, f4⟩ := sum_bounds hr hstep ho
        have hF : FinalAt (ghostOf c) r counted must := ⟨f1, f2, f3, fun u hu => ⟨(f4 u hu).2.1, (f4 u hu).2.2⟩⟩
        exact hF.ext ((step_ext hr hstep).trans (run_ext rest _ hr1))
      · exact ih _ hr1 t r counted must h

/-- **C09 for the un-instrumented machine.**  Every run of `M intAlg mc` on a schedule of `Add` / `Sum`
    invocations and internal steps is the projection of the run of `MG mc` on the same schedule (same
    observations once the ghost tags are dropped), and in that run every `Sum` response satisfies the bounds. -/
theorem sum_bounds_run {mc : Nat} (s : List (Tid × Act)) (hs : ∀ p ∈ s, noMaint p.2 = true) :
    (run (MG mc) (Config.init (MG mc)) s).2.map (fun p => (p.1, Prod.fst p.2)) =
      (run (M intAlg mc) (Config.init (M intAlg mc)) s).2 ∧
    ∀ t r counted must,
      (t, (Obs.ret (some r), LGhost.sum counted must)) ∈ (run (MG mc) (Config.init (MG mc)) s).2 →
      FinalAt (ghostOf (run (MG mc) (Config.init (MG mc)) s).1) r counted must :=
  ⟨(run_lift s hs (Config.init (MG mc))).2, run_sum_bounds s _ Reach.init⟩

/-- **Successive `Sum`s count growing sets.**  If a `Sum` returns `counted₁` in configuration `c₁`, and a
    `Sum` whose `must` is the `lped` list of a configuration `c₂` whose ghosts extend those of `c₁`
    (i.e. it was invoked in `c₂`, `sum_invoke`; any configuration reached later qualifies, `step_ext`,
    `run_ext`) returns `counted₂`, then `counted₁ ⊆ counted₂`. -/
theorem sum_monotone {mc : Nat} {c1 c2 c3 : Config (MG mc)} (hr1 : Reach (MG mc) c1) (hr3 : Reach (MG mc) c3)
    {t1 t3 : Tid} {a1 a3 : Act} {G1 G3 : (MG mc).G} {L1 L3 : (MG mc).L} {obs1 obs3 : List (MG mc).Obs}
    (hs1 : (MG mc).step t1 c1.g (c1.l t1) a1 = some (G1, L1, obs1))
    (hs3 : (MG mc).step t3 c3.g (c3.l t3) a3 = some (G3, L3, obs3))
    {r1 r3 : Int} {counted1 must1 counted3 must3 : List Nat}
    (ho1 : (Obs.ret (some r1), LGhost.sum counted1 must1) ∈ obs1)
    (ho3 : (Obs.ret (some r3), LGhost.sum counted3 must3) ∈ obs3)
    (h12 : Ext (ghostOf c1) (ghostOf c2)) (hinv : must3 = (ghostOf c2).lped) :
    ∀ u ∈ counted1, u ∈ counted3 := by
  intro u hu
  obtain ⟨_, _, _, f4⟩ := sum_bounds hr1 hs1 ho1
  obtain ⟨_, _, g3, _⟩ := sum_bounds hr3 hs3 ho3
  apply g3 u
  rw [hinv]
  exact h12.lped_mono u (f4 u hu).2.1


end Results

end Garr.Adder
