import Garr.Adder.Inv
/-!
# Solo runs of `Sum`, `Store`, `Reset`, `SumAndReset` from a quiescent configuration (C02 / C16)

`soloTau` is one `.tau` step of a thread, `soloRun` iterates it and concatenates the observations.
From a reachable configuration in which every thread is idle:
* `sum_solo`: `Sum` run alone returns `wrap64 applied` and restores the configuration;
* `store_solo` / `reset_solo` / `sumAndReset_solo`: the maintenance operations run alone end in a
  reachable all-idle configuration whose ghost total is `w` / `0` / `0` (whatever the table size),
  `SumAndReset` returning `wrap64 applied`.
-/
namespace Garr.Adder
open Garr.Conc

/-! ## Solo execution (generic in the machine; `tau` is the action that advances a running operation) -/

section Generic
variable (Mch : Machine) (tau : Mch.Act)

/-- one `tau` step of thread `t` (nothing happens if it is not enabled) -/
def soloTau (t : Tid) (c : Config Mch) : Config Mch × List Mch.Obs :=
  match Mch.step t c.g (c.l t) tau with
  | none => (c, [])
  | some (g', l', obs) => (⟨g', upd c.l t l'⟩, obs)

/-- `k` consecutive `tau` steps of thread `t`, with the concatenated observations -/
def soloRun (t : Tid) : Nat → Config Mch → Config Mch × List Mch.Obs
  | 0, c => (c, [])
  | k+1, c => ((soloRun t k (soloTau Mch tau t c).1).1, (soloTau Mch tau t c).2 ++ (soloRun t k (soloTau Mch tau t c).1).2)

theorem reach_soloTau {t : Tid} {c : Config Mch} (h : Reach Mch c) : Reach Mch (soloTau Mch tau t c).1 := by
  unfold soloTau
  split
  · exact h
  · rename_i g' l' obs hs
    exact Reach.step h hs

theorem reach_soloRun {t : Tid} (k : Nat) : ∀ {c : Config Mch}, Reach Mch c → Reach Mch (soloRun Mch tau t k c).1 := by
  induction k with
  | zero => intro c h; exact h
  | succ k ih => intro c h; exact ih (reach_soloTau Mch tau h)

/-- thread-level view: `k` `tau` steps of `t` take heap `g` and local state `l` to `g'`, `l'`, emitting `obs` -/
inductive TauN (t : Tid) : Nat → Mch.G → Mch.L → Mch.G → Mch.L → List Mch.Obs → Prop
  | zero (g : Mch.G) (l : Mch.L) : TauN t 0 g l g l []
  | succ {k : Nat} {g : Mch.G} {l : Mch.L} {g1 : Mch.G} {l1 : Mch.L} {o1 : List Mch.Obs} {g2 : Mch.G} {l2 : Mch.L}
      {o2 : List Mch.Obs} :
      Mch.step t g l tau = some (g1, l1, o1) → TauN t k g1 l1 g2 l2 o2 → TauN t (k+1) g l g2 l2 (o1 ++ o2)

variable {Mch tau}

theorem TauN.one {t : Tid} {g : Mch.G} {l : Mch.L} {g1 : Mch.G} {l1 : Mch.L} {o1 : List Mch.Obs}
    (h : Mch.step t g l tau = some (g1, l1, o1)) : TauN Mch tau t 1 g l g1 l1 o1 := by
  have := TauN.succ h (TauN.zero g1 l1)
  rwa [List.append_nil] at this

theorem TauN.trans {t : Tid} {k1 k2 : Nat} {g g1 g2 : Mch.G} {l l1 l2 : Mch.L} {o1 o2 : List Mch.Obs}
    (h1 : TauN Mch tau t k1 g l g1 l1 o1) (h2 : TauN Mch tau t k2 g1 l1 g2 l2 o2) :
    TauN Mch tau t (k2 + k1) g l g2 l2 (o1 ++ o2) := by
  induction h1 with
  | zero g l => exact h2
  | succ hs _ ih =>
    rw [List.append_assoc]
    exact TauN.succ hs (ih h2)

theorem upd_self {α : Type} (f : Tid → α) (t : Tid) : upd f t (f t) = f := by
  funext u; unfold upd; split
  · rename_i h; rw [h]
  · rfl

theorem upd_upd {α : Type} (f : Tid → α) (t : Tid) (a b : α) : upd (upd f t a) t b = upd f t b := by
  funext u; unfold upd; split <;> rfl

theorem soloRun_of_TauN {t : Tid} {k : Nat} {g g' : Mch.G} {l l' : Mch.L} {obs : List Mch.Obs}
    (h : TauN Mch tau t k g l g' l' obs) :
    ∀ (gc : Mch.G) (lc : Tid → Mch.L), gc = g → lc t = l →
      soloRun Mch tau t k ⟨gc, lc⟩ = (⟨g', upd lc t l'⟩, obs) := by
  induction h with
  | zero g l =>
    intro gc lc hg hl
    subst hg hl
    simp only [soloRun, upd_self]
  | @succ k g l g1 l1 o1 g2 l2 o2 hs _ ih =>
    intro gc lc hg hl
    subst hg hl
    have hst : soloTau Mch tau t ⟨gc, lc⟩ = (⟨g1, upd lc t l1⟩, o1) := by
      simp only [soloTau, hs]
    simp only [soloRun, hst]
    rw [ih g1 (upd lc t l1) rfl (upd_same _ _ _), upd_upd]

end Generic

/-! ## Thread-level runs of the adder -/

/-- `k` `.tau` steps of thread `t` of the integer adder -/
abbrev ATau (mc : Nat) (t : Tid) (k : Nat) (g : G) (l : L) (g' : G) (l' : L) (obs : List Obs) : Prop :=
  TauN (M intAlg mc) Act.tau t k g l g' l' obs

theorem wrap64_zero : wrap64 0 = 0 := by unfold wrap64; omega

theorem wrap64_congr_add {x y : Int} (h : wrap64 x = wrap64 y) (z : Int) : wrap64 (x + z) = wrap64 (y + z) := by
  unfold wrap64 at *; omega

/-- slot `j` of array `a`, as `Sum` reads it: the wrapped cell value, `0` for an empty slot -/
def wslot (g : G) (a : Nat) (j : Nat) : Int := slotVal (g.arr a).slot (fun c => wrap64 (g.cell c)) j

/-- published table length (`0` if there is none) -/
def tlen (g : G) : Nat := match g.tbl with | none => 0 | some tb => tb.2

/-- what a solo `Sum` adds to the wrapped base -/
def wsum (g : G) : Int := match g.tbl with | none => 0 | some tb => sumTo (wslot g tb.1) tb.2

theorem wrap_sum_slots (s : Nat → Option Nat) (f : Nat → Int) (a : Int) (n : Nat) :
    wrap64 (a + sumTo (slotVal s (fun c => wrap64 (f c))) n) = wrap64 (a + sumTo (slotVal s f) n) := by
  induction n with
  | zero => rfl
  | succ n ih =>
    simp only [sumTo]
    have e1 : slotVal s (fun c => wrap64 (f c)) n = wrap64 (slotVal s f n) := by
      unfold slotVal; cases s n <;> simp [wrap64_zero]
    rw [e1, ← Int.add_assoc, ← Int.add_assoc, wrap64_add']
    exact wrap64_congr_add ih _

theorem wrap_wsum (g : G) : wrap64 (wrap64 g.base + wsum g) = wrap64 (g.base + tableSum g) := by
  rw [wrap64_add]
  unfold wsum tableSum
  cases g.tbl with
  | none => rfl
  | some tb => exact wrap_sum_slots _ _ _ _

theorem step_tau {mc : Nat} {t : Tid} {g : G} {pc : PC} {v : V} (h : draws pc = false) :
    (M intAlg mc).step t g (.run pc v) Act.tau = some (stepRun intAlg mc t g pc v 0) := by
  show step intAlg mc t g (.run pc v) Act.tau = _
  simp [step, h]

/-- how the `Sum` phase ends: the response of `Sum`, or the hand-over to the `Store 0` half of `SumAndReset` -/
inductive SumExit (t : Tid) (g : G) (sar mnt : Bool) (acc : Int) : G → L → List Obs → Prop
  | ret (v' : V) : sar = false → v'.mnt = mnt →
      SumExit t g sar mnt acc (leave t g v') .idle [.ret (some (wrap64 acc))]
  | cont (v' : V) : sar = true → v'.x = 0 → v'.acc = acc → v'.sar = true → v'.mnt = mnt →
      SumExit t g sar mnt acc g (.run .t0 v') []

/-- the `Sum` phase from local state `l`: at most `K` steps to an exit with accumulator `acc` -/
def SumRuns (mc : Nat) (t : Tid) (g : G) (K : Nat) (l : L) (sar mnt : Bool) (acc : Int) : Prop :=
  ∃ k g' l' obs, k ≤ K ∧ ATau mc t k g l g' l' obs ∧ SumExit t g sar mnt acc g' l' obs

/-- what happens after slot `u.i` has been accounted for -/
def sumNext (t : Tid) (g : G) (u : V) : G × L × List Obs :=
  if u.i + 1 < u.as.2 then (g, .run .s2 { u with i := u.i + 1 }, [])
  else if u.sar then (g, .run .t0 { u with x := 0 }, [])
  else (leave t g u, .idle, [.ret (some (wrap64 u.acc))])

theorem stepRun_s2_none {mc : Nat} {t : Tid} {g : G} {v : V} (h : (g.arr v.as.1).slot v.i = none) :
    stepRun intAlg mc t g .s2 v 0 = sumNext t g v := by
  simp only [stepRun, slotAt, h, sumNext, intAlg_view]

theorem stepRun_s2_some {mc : Nat} {t : Tid} {g : G} {v : V} {c : Nat} (h : (g.arr v.as.1).slot v.i = some c) :
    stepRun intAlg mc t g .s2 v 0 = (g, .run .s3 { v with a := c }, []) := by
  simp only [stepRun, slotAt, h]

theorem stepRun_s3 {mc : Nat} {t : Tid} {g : G} {v : V} :
    stepRun intAlg mc t g .s3 v 0 = sumNext t g { v with acc := v.acc + wrap64 (g.cell v.a) } := by
  simp only [stepRun, sumNext, intAlg_view, intAlg_add, leave]


theorem SumRuns.prepend {mc : Nat} {t : Tid} {g : G} {K : Nat} {l l1 : L} {sar mnt : Bool} {acc : Int}
    (hs : (M intAlg mc).step t g l Act.tau = some (g, l1, [])) (h : SumRuns mc t g K l1 sar mnt acc) :
    SumRuns mc t g (K + 1) l sar mnt acc := by
  obtain ⟨k, g', l', obs, hk, hr, he⟩ := h
  exact ⟨k + 1, g', l', obs, by omega, TauN.succ hs hr, he⟩

/-- after slot `u.i`: exit if it was the last one -/
theorem sum_after_last {mc : Nat} {t : Tid} {g : G} {u : V} {l0 : L} (hlast : u.i + 1 = u.as.2)
    (hs : (M intAlg mc).step t g l0 Act.tau = some (sumNext t g u)) :
    SumRuns mc t g 1 l0 u.sar u.mnt u.acc := by
  have hn : ¬ u.i + 1 < u.as.2 := by omega
  unfold sumNext at hs
  rw [if_neg hn] at hs
  cases hsar : u.sar
  · have hf : ¬ u.sar = true := by rw [hsar]; exact Bool.false_ne_true
    rw [if_neg hf] at hs
    exact ⟨1, _, _, _, Nat.le_refl _, TauN.one hs, .ret u rfl rfl⟩
  · rw [if_pos hsar] at hs
    exact ⟨1, _, _, _, Nat.le_refl _, TauN.one hs, .cont { u with x := 0 } rfl rfl rfl hsar rfl⟩

theorem sum_loop (mc : Nat) (t : Tid) (g : G) : ∀ (n : Nat) (v : V) (acc : Int), v.i + n + 1 = v.as.2 →
    acc = v.acc + (sumTo (wslot g v.as.1) v.as.2 - sumTo (wslot g v.as.1) v.i) →
    SumRuns mc t g (2 * n + 2) (.run .s2 v) v.sar v.mnt acc := by
  -- `after n`: the run after slot `u.i` has been accounted for, `n` slots remaining
  have after : ∀ (n : Nat), (∀ (v : V) (acc : Int), v.i + n + 1 = v.as.2 →
        acc = v.acc + (sumTo (wslot g v.as.1) v.as.2 - sumTo (wslot g v.as.1) v.i) →
        SumRuns mc t g (2 * n + 2) (.run .s2 v) v.sar v.mnt acc) →
      ∀ (u : V) (l0 : L) (acc : Int), u.i + (n + 1) + 1 = u.as.2 →
        acc = u.acc + (sumTo (wslot g u.as.1) u.as.2 - sumTo (wslot g u.as.1) (u.i + 1)) →
        (M intAlg mc).step t g l0 Act.tau = some (sumNext t g u) →
        SumRuns mc t g (2 * n + 3) l0 u.sar u.mnt acc := by
    intro n ih u l0 acc hlen hacc hs
    have hlt : u.i + 1 < u.as.2 := by omega
    unfold sumNext at hs
    rw [if_pos hlt] at hs
    exact SumRuns.prepend hs (ih { u with i := u.i + 1 } acc (by show u.i + 1 + n + 1 = u.as.2; omega) hacc)
  have after0 : ∀ (u : V) (l0 : L) (acc : Int), u.i + 0 + 1 = u.as.2 →
        acc = u.acc + (sumTo (wslot g u.as.1) u.as.2 - sumTo (wslot g u.as.1) (u.i + 1)) →
        (M intAlg mc).step t g l0 Act.tau = some (sumNext t g u) →
        SumRuns mc t g 1 l0 u.sar u.mnt acc := by
    intro u l0 acc hlen hacc hs
    have : acc = u.acc := by
      have e : u.as.2 = u.i + 1 := by omega
      rw [hacc, e]; omega
    rw [this]
    exact sum_after_last (by omega) hs
  -- one slot: `s2` (and `s3` if it is occupied), then `after`
  have slot : ∀ (n K : Nat), (∀ (u : V) (l0 : L) (acc : Int), u.i + n + 1 = u.as.2 →
        acc = u.acc + (sumTo (wslot g u.as.1) u.as.2 - sumTo (wslot g u.as.1) (u.i + 1)) →
        (M intAlg mc).step t g l0 Act.tau = some (sumNext t g u) →
        SumRuns mc t g K l0 u.sar u.mnt acc) →
      ∀ (v : V) (acc : Int), v.i + n + 1 = v.as.2 →
        acc = v.acc + (sumTo (wslot g v.as.1) v.as.2 - sumTo (wslot g v.as.1) v.i) →
        SumRuns mc t g (K + 1) (.run .s2 v) v.sar v.mnt acc := by
    intro n K hafter v acc hlen hacc
    have hS : sumTo (wslot g v.as.1) (v.i + 1) = sumTo (wslot g v.as.1) v.i + wslot g v.as.1 v.i := rfl
    cases hsl : (g.arr v.as.1).slot v.i with
    | none =>
      have hw : wslot g v.as.1 v.i = 0 := by unfold wslot slotVal; rw [hsl]
      have hstep : (M intAlg mc).step t g (.run .s2 v) Act.tau = some (sumNext t g v) :=
        (step_tau rfl).trans (congrArg some (stepRun_s2_none hsl))
      obtain ⟨k, g', l', obs, hk, hr, he⟩ := hafter v _ acc hlen (by rw [hacc, hS, hw]; omega) hstep
      exact ⟨k, g', l', obs, by omega, hr, he⟩
    | some c =>
      have hw : wslot g v.as.1 v.i = wrap64 (g.cell c) := by unfold wslot slotVal; rw [hsl]
      have hstep : (M intAlg mc).step t g (.run .s2 v) Act.tau = some (g, .run .s3 { v with a := c }, []) := 
        (step_tau rfl).trans (congrArg some (stepRun_s2_some hsl))
      have hstep3 : (M intAlg mc).step t g (.run .s3 { v with a := c }) Act.tau =
          some (sumNext t g { v with a := c, acc := v.acc + wrap64 (g.cell c) }) := 
        (step_tau rfl).trans (congrArg some stepRun_s3)
      exact SumRuns.prepend hstep
        (hafter { v with a := c, acc := v.acc + wrap64 (g.cell c) } _ acc hlen
          (by show acc = v.acc + wrap64 (g.cell c) +
                (sumTo (wslot g v.as.1) v.as.2 - sumTo (wslot g v.as.1) (v.i + 1))
              rw [hacc, hS, hw]; omega) hstep3)
  intro n
  induction n with
  | zero => intro v acc hlen hacc; exact slot 0 1 after0 v acc hlen hacc
  | succ n ih =>
    intro v acc hlen hacc
    have := slot (n + 1) (2 * n + 3) (after n ih) v acc hlen hacc
    exact this


theorem stepRun_s0 {mc : Nat} {t : Tid} {g : G} {v : V} :
    stepRun intAlg mc t g .s0 v 0 = (g, .run .s1 { v with acc := wrap64 g.base }, []) := by
  simp only [stepRun, intAlg_view]

theorem stepRun_s1_none {mc : Nat} {t : Tid} {g : G} {v : V} (h : g.tbl = none) :
    stepRun intAlg mc t g .s1 v 0 =
      if v.sar then (g, .run .t0 { v with x := 0 }, []) else (leave t g v, .idle, [.ret (some (wrap64 v.acc))]) := by
  simp only [stepRun, h, intAlg_view]

theorem stepRun_s1_some {mc : Nat} {t : Tid} {g : G} {v : V} {tb : Tbl} (h : g.tbl = some tb) :
    stepRun intAlg mc t g .s1 v 0 = (g, .run .s2 { v with as := tb, i := 0 }, []) := by
  simp only [stepRun, h]

/-- the whole `Sum` phase: at most `2·len + 2` steps, accumulating `wrap64 base + Σ wrapped cells` -/
theorem sum_phase {mc : Nat} {t : Tid} {g : G} (hG : GInv g) (v : V) :
    SumRuns mc t g (2 * tlen g + 2) (.run .s0 v) v.sar v.mnt (wrap64 g.base + wsum g) := by
  have h0 : (M intAlg mc).step t g (.run .s0 v) Act.tau = some (g, .run .s1 { v with acc := wrap64 g.base }, []) :=
    (step_tau rfl).trans (congrArg some stepRun_s0)
  cases htb : g.tbl with
  | none =>
    have hw : wsum g = 0 := by unfold wsum; rw [htb]
    have hl : tlen g = 0 := by unfold tlen; rw [htb]
    rw [hw, hl, Int.add_zero]
    have h1 := (step_tau (mc := mc) (t := t) (g := g) (pc := .s1) (v := { v with acc := wrap64 g.base }) rfl).trans
      (congrArg some (stepRun_s1_none htb))
    cases hsar : v.sar
    · have hf : ¬ ({ v with acc := wrap64 g.base } : V).sar = true := by
        show ¬ v.sar = true; rw [hsar]; exact Bool.false_ne_true
      rw [if_neg hf] at h1
      exact ⟨2, _, _, _, Nat.le_refl _, TauN.succ h0 (TauN.one h1), .ret _ rfl rfl⟩
    · rw [if_pos (show ({ v with acc := wrap64 g.base } : V).sar = true from hsar)] at h1
      exact ⟨2, _, _, _, Nat.le_refl _, TauN.succ h0 (TauN.one h1), .cont _ rfl rfl rfl hsar rfl⟩
  | some tb =>
    have h1 := (step_tau (mc := mc) (t := t) (g := g) (pc := .s1) (v := { v with acc := wrap64 g.base }) rfl).trans
      (congrArg some (stepRun_s1_some htb))
    have hlen := (hG.tbl_wf tb.1 tb.2 htb).2.1
    have hw : wsum g = sumTo (wslot g tb.1) tb.2 := by unfold wsum; rw [htb]
    have hl : tlen g = tb.2 := by unfold tlen; rw [htb]
    have hloop := sum_loop mc t g (tb.2 - 1) { v with acc := wrap64 g.base, as := tb, i := 0 }
      (wrap64 g.base + wsum g) (by show 0 + (tb.2 - 1) + 1 = tb.2; omega)
      (by show _ = wrap64 g.base + (sumTo (wslot g tb.1) tb.2 - sumTo (wslot g tb.1) 0)
          rw [hw]; simp only [sumTo]; omega)
    have := SumRuns.prepend h0 (SumRuns.prepend h1 hloop)
    obtain ⟨k, g', l', obs, hk, hr, he⟩ := this
    exact ⟨k, g', l', obs, by rw [hl]; omega, hr, he⟩

/-! ### `Store` -/

theorem stepRun_t0 {mc : Nat} {t : Tid} {g : G} {v : V} :
    stepRun intAlg mc t g .t0 v 0 = (storeBase g v.x, .run .t1 v, []) := by
  simp only [stepRun]

theorem stepRun_t1_none {mc : Nat} {t : Tid} {g : G} {v : V} (h : g.tbl = none) :
    stepRun intAlg mc t g .t1 v 0 =
      (leave t g v, .idle, [.ret (if v.sar then some (wrap64 v.acc) else none)]) := by
  simp only [stepRun, h, intAlg_view]

theorem stepRun_t1_some {mc : Nat} {t : Tid} {g : G} {v : V} {tb : Tbl} (h : g.tbl = some tb) :
    stepRun intAlg mc t g .t1 v 0 = (g, .run .t2 { v with as := tb, i := 0 }, []) := by
  simp only [stepRun, h]

theorem stepRun_t2_lt {mc : Nat} {t : Tid} {g : G} {v : V} (h : v.i + 1 < v.as.2) :
    stepRun intAlg mc t g .t2 v 0 = (g, .run .t2 { v with i := v.i + 1 }, []) := by
  simp only [stepRun, if_pos h]

theorem stepRun_t2_ge {mc : Nat} {t : Tid} {g : G} {v : V} (h : ¬ v.i + 1 < v.as.2) :
    stepRun intAlg mc t g .t2 v 0 = (g, .run .t3 v, []) := by
  simp only [stepRun, if_neg h]

theorem stepRun_t3 {mc : Nat} {t : Tid} {g : G} {v : V} :
    stepRun intAlg mc t g .t3 v 0 =
      (leave t (storeTable g v.as.2) v, .idle, [.ret (if v.sar then some (wrap64 v.acc) else none)]) := by
  simp only [stepRun, intAlg_view]

/-- the `t2` loop walks the `len` slots -/
theorem store_loop (mc : Nat) (t : Tid) (g : G) : ∀ (n : Nat) (v : V), v.i + n + 1 = v.as.2 →
    ∃ v', v'.as = v.as ∧ v'.sar = v.sar ∧ v'.acc = v.acc ∧ v'.mnt = v.mnt ∧
      ATau mc t (n + 1) g (.run .t2 v) g (.run .t3 v') [] := by
  intro n
  induction n with
  | zero =>
    intro v h
    have hn : ¬ v.i + 1 < v.as.2 := by omega
    exact ⟨v, rfl, rfl, rfl, rfl, TauN.one ((step_tau rfl).trans (congrArg some (stepRun_t2_ge hn)))⟩
  | succ n ih =>
    intro v h
    have hlt : v.i + 1 < v.as.2 := by omega
    obtain ⟨v', h1, h2, h3, h4, hr⟩ := ih { v with i := v.i + 1 } (by show v.i + 1 + n + 1 = v.as.2; omega)
    exact ⟨v', h1, h2, h3, h4, TauN.succ ((step_tau rfl).trans (congrArg some (stepRun_t2_lt hlt))) hr⟩

/-- the whole `Store` phase (also the second half of `SumAndReset`): at most `len + 3` steps, ending
    outside the operation with ghost total `v.x` -/
theorem store_phase {mc : Nat} {t : Tid} {g : G} (hG : GInv g) (v : V) (hm : v.mnt = true) :
    ∃ k g', k ≤ tlen g + 3 ∧
      ATau mc t k g (.run .t0 v) g' .idle [.ret (if v.sar then some (wrap64 v.acc) else none)] ∧
      g'.applied = v.x ∧ g'.actv = [] ∧ g'.maint = false := by
  have h0 : (M intAlg mc).step t g (.run .t0 v) Act.tau = some (storeBase g v.x, .run .t1 v, []) :=
    (step_tau rfl).trans (congrArg some stepRun_t0)
  cases htb : g.tbl with
  | none =>
    have htb' : (storeBase g v.x).tbl = none := htb
    have h1 := (step_tau (mc := mc) (t := t) (g := storeBase g v.x) (pc := .t1) (v := v) rfl).trans
      (congrArg some (stepRun_t1_none htb'))
    refine ⟨2, _, by omega, TauN.succ h0 (TauN.one h1), ?_, ?_, ?_⟩
    · have hq := quiescent_sum hG
      have : tableSum g = 0 := by unfold tableSum; rw [htb]
      simp only [leave_applied, storeBase]; omega
    · simp [leave, hm]
    · simp [leave, hm]
  | some tb =>
    have htb' : (storeBase g v.x).tbl = some tb := htb
    have hlen := (hG.tbl_wf tb.1 tb.2 htb).2.1
    have hl : tlen g = tb.2 := by unfold tlen; rw [htb]
    have h1 := (step_tau (mc := mc) (t := t) (g := storeBase g v.x) (pc := .t1) (v := v) rfl).trans
      (congrArg some (stepRun_t1_some htb'))
    obtain ⟨v', e1, e2, e3, e4, hloop⟩ := store_loop mc t (storeBase g v.x) (tb.2 - 1) { v with as := tb, i := 0 }
      (by show 0 + (tb.2 - 1) + 1 = tb.2; omega)
    have h3 := (step_tau (mc := mc) (t := t) (g := storeBase g v.x) (pc := .t3) (v := v') rfl).trans
      (congrArg some stepRun_t3)
    have e2' : v'.sar = v.sar := e2
    have e3' : v'.acc = v.acc := e3
    have e4' : v'.mnt = true := by rw [e4]; exact hm
    rw [e2', e3'] at h3
    have hrun := TauN.succ h0 (TauN.succ h1 (TauN.trans hloop (TauN.one h3)))
    refine ⟨_, _, ?_, hrun, ?_, ?_, ?_⟩
    · rw [hl]; omega
    · simp only [leave_applied, storeTable, storeBase]
    · simp [leave, e4']
    · simp [leave, e4']

/-! ## Solo runs from a quiescent reachable configuration -/

/-- in a reachable configuration with every thread idle the ghost maintenance state is clear -/
theorem quiet_of_idle {g : G} {l : Tid → L} (hI : AInvAt g l) (hidle : ∀ u, l u = L.idle) :
    g.actv = [] ∧ g.maint = false := by
  constructor
  · apply List.eq_nil_iff_forall_not_mem.2
    intro u hu
    exact (hI.actv_iff u).1 hu (hidle u)
  · cases hm : g.maint
    · rfl
    · obtain ⟨u, hu⟩ := hI.maint_iff.1 hm
      rw [hidle u] at hu; cases hu

theorem leave_after_start {g : G} {t : Tid} {v : V} (ha : g.actv = []) (hv : v.mnt = false) :
    leave t { g with actv := t :: g.actv } v = g := by
  obtain ⟨b, bu, n, ar, tb, nc, ce, ap, ac, ma⟩ := g
  simp only at ha
  subst ha
  simp [leave, hv]

theorem upd_back {α : Type} (l : Tid → α) (t : Tid) (a b : α) (h : l t = b) : upd (upd l t a) t b = l := by
  rw [upd_upd, ← h, upd_self]

theorem solo_result_eq {Mch : Machine} {g g' : Mch.G} {l l' : Tid → Mch.L} {o o' : List Mch.Obs}
    (hg : g = g') (hl : l = l') (ho : o = o') : ((⟨g, l⟩ : Config Mch), o) = (⟨g', l'⟩, o') := by
  subst hg hl ho; rfl

theorem sum_solo_raw {mc : Nat} {g : G} {l : Tid → L} (hI : AInvAt g l) (hidle : ∀ u, l u = L.idle) (t : Tid) :
    ∃ g1 l1, step intAlg mc t g (l t) Act.sum = some (g1, l1, []) ∧
      ∃ k, k ≤ 2 * tlen g + 2 ∧
        soloRun (M intAlg mc) Act.tau t k ⟨g1, upd l t l1⟩ =
          (⟨g, l⟩, [Obs.ret (some (wrap64 g.applied))]) := by
  obtain ⟨ha, hm⟩ := quiet_of_idle hI hidle
  refine ⟨{ g with actv := t :: g.actv }, .run .s0 {}, ?_, ?_⟩
  · rw [hidle t]; simp [step, hm]
  · have hG1 : GInv { g with actv := t :: g.actv } := GInv_ghost hI.ginv rfl rfl rfl rfl rfl rfl rfl
    obtain ⟨k, g', l', obs, hk, hrun, hexit⟩ := sum_phase (mc := mc) (t := t) hG1 {}
    refine ⟨k, hk, ?_⟩
    have hsolo := soloRun_of_TauN hrun { g with actv := t :: g.actv } (upd l t (.run .s0 {})) rfl (upd_same _ _ _)
    cases hexit with
    | ret v' _ hv' =>
      have hval : wrap64 (wrap64 g.base + wsum { g with actv := t :: g.actv }) = wrap64 g.applied := by
        have := wrap_wsum { g with actv := t :: g.actv }
        rw [this]
        show wrap64 (g.base + tableSum g) = _
        rw [quiescent_sum hI.ginv]
      rw [hsolo]
      exact solo_result_eq (leave_after_start ha hv') (upd_back l t _ _ (hidle t))
        (congrArg (fun z => [Obs.ret (some z)]) hval)
    | cont v' h => cases h

/-- **C02, quiescent read.**  From a reachable configuration in which every thread is idle, `Sum`
    run alone returns `wrap64 applied` (in at most `2·len + 2` steps) and restores the configuration. -/
theorem sum_solo {mc : Nat} {c : Config (M intAlg mc)} (hr : Reach (M intAlg mc) c)
    (hidle : ∀ u, c.l u = L.idle) (t : Tid) :
    ∃ g1 l1, (M intAlg mc).step t c.g (c.l t) Act.sum = some (g1, l1, []) ∧
      ∃ k, k ≤ 2 * tlen c.g + 2 ∧
        soloRun (M intAlg mc) Act.tau t k ⟨g1, upd c.l t l1⟩ =
          (c, [Obs.ret (some (wrap64 (G.applied c.g)))]) :=
  sum_solo_raw (ainv_reach mc c hr) hidle t


/-! ### Maintenance operations (C16) -/

/-- common part: a maintenance run from a quiescent configuration, given its thread-level run -/
theorem maint_solo_raw {mc : Nat} {l : Tid → L} (hidle : ∀ u, l u = L.idle) (t : Tid)
    {g1 g' : G} {l1 : L} {k : Nat} {obs : List Obs} (hrun : ATau mc t k g1 l1 g' L.idle obs) :
    soloRun (M intAlg mc) Act.tau t k ⟨g1, upd l t l1⟩ = (⟨g', l⟩, obs) := by
  rw [soloRun_of_TauN hrun g1 (upd l t l1) rfl (upd_same _ _ _)]
  exact solo_result_eq rfl (upd_back l t _ _ (hidle t)) rfl

theorem store_solo_raw {mc : Nat} {g : G} {l : Tid → L} (hI : AInvAt g l) (hidle : ∀ u, l u = L.idle) (t : Tid)
    (w : Int) :
    ∃ g1 l1, step intAlg mc t g (l t) (Act.store w) = some (g1, l1, []) ∧
      ∃ k g', k ≤ tlen g + 3 ∧
        soloRun (M intAlg mc) Act.tau t k ⟨g1, upd l t l1⟩ = (⟨g', l⟩, [Obs.ret none]) ∧ g'.applied = w := by
  obtain ⟨ha, hm⟩ := quiet_of_idle hI hidle
  refine ⟨{ g with actv := [t], maint := true }, .run .t0 { x := w, mnt := true }, ?_, ?_⟩
  · rw [hidle t]; simp [step, ha, hm]
  · have hG1 : GInv { g with actv := [t], maint := true } := GInv_ghost hI.ginv rfl rfl rfl rfl rfl rfl rfl
    obtain ⟨k, g', hk, hrun, happ, _, _⟩ := store_phase (mc := mc) (t := t) hG1 { x := w, mnt := true } rfl
    exact ⟨k, g', hk, maint_solo_raw hidle t hrun, happ⟩

theorem reset_solo_raw {mc : Nat} {g : G} {l : Tid → L} (hI : AInvAt g l) (hidle : ∀ u, l u = L.idle) (t : Tid) :
    ∃ g1 l1, step intAlg mc t g (l t) Act.reset = some (g1, l1, []) ∧
      ∃ k g', k ≤ tlen g + 3 ∧
        soloRun (M intAlg mc) Act.tau t k ⟨g1, upd l t l1⟩ = (⟨g', l⟩, [Obs.ret none]) ∧ g'.applied = 0 := by
  obtain ⟨ha, hm⟩ := quiet_of_idle hI hidle
  refine ⟨{ g with actv := [t], maint := true }, .run .t0 { x := 0, mnt := true }, ?_, ?_⟩
  · rw [hidle t]; simp [step, ha, hm]
  · have hG1 : GInv { g with actv := [t], maint := true } := GInv_ghost hI.ginv rfl rfl rfl rfl rfl rfl rfl
    obtain ⟨k, g', hk, hrun, happ, _, _⟩ := store_phase (mc := mc) (t := t) hG1 { x := 0, mnt := true } rfl
    exact ⟨k, g', hk, maint_solo_raw hidle t hrun, happ⟩

theorem sumAndReset_solo_raw {mc : Nat} {g : G} {l : Tid → L} (hI : AInvAt g l) (hidle : ∀ u, l u = L.idle)
    (t : Tid) :
    ∃ g1 l1, step intAlg mc t g (l t) Act.sumAndReset = some (g1, l1, []) ∧
      ∃ k g', k ≤ 3 * tlen g + 5 ∧
        soloRun (M intAlg mc) Act.tau t k ⟨g1, upd l t l1⟩ = (⟨g', l⟩, [Obs.ret (some (wrap64 g.applied))]) ∧
        g'.applied = 0 := by
  obtain ⟨ha, hm⟩ := quiet_of_idle hI hidle
  refine ⟨{ g with actv := [t], maint := true }, .run .s0 { sar := true, mnt := true }, ?_, ?_⟩
  · rw [hidle t]; simp [step, ha, hm]
  · have hG1 : GInv { g with actv := [t], maint := true } := GInv_ghost hI.ginv rfl rfl rfl rfl rfl rfl rfl
    obtain ⟨k1, g', l', obs, hk1, hrun1, hexit⟩ :=
      sum_phase (mc := mc) (t := t) hG1 { sar := true, mnt := true }
    have hval : wrap64 (wrap64 g.base + wsum { g with actv := [t], maint := true }) = wrap64 g.applied := by
      have := wrap_wsum { g with actv := [t], maint := true }
      rw [this]
      show wrap64 (g.base + tableSum g) = _
      rw [quiescent_sum hI.ginv]
    cases hexit with
    | ret v' h => cases h
    | cont v' _ hx hacc hsar hmnt =>
      obtain ⟨k2, g2, hk2, hrun2, happ, _, _⟩ := store_phase (mc := mc) (t := t) hG1 v' hmnt
      rw [if_pos hsar, hacc] at hrun2
      have hrun := TauN.trans hrun1 hrun2
      have hlen : tlen { g with actv := [t], maint := true } = tlen g := rfl
      refine ⟨k2 + k1, g2, by rw [hlen] at hk1 hk2; omega, ?_, by rw [happ, hx]⟩
      rw [maint_solo_raw hidle t hrun]
      exact solo_result_eq rfl rfl (congrArg (fun z => [Obs.ret (some z)]) hval)

/-- a maintenance run that ends in `c'`: that configuration is reachable and all-idle again, so
    everything proved for reachable quiescent configurations applies to it -/
theorem maint_end {mc : Nat} {c : Config (M intAlg mc)} (hr : Reach (M intAlg mc) c) (hidle : ∀ u, c.l u = L.idle)
    {t : Tid} {a : Act} {g1 : G} {l1 : L} {k : Nat} {g' : G} {obs : List Obs}
    (hs : (M intAlg mc).step t c.g (c.l t) a = some (g1, l1, []))
    (hrun : soloRun (M intAlg mc) Act.tau t k ⟨g1, upd c.l t l1⟩ = (⟨g', c.l⟩, obs)) :
    Reach (M intAlg mc) ⟨g', c.l⟩ ∧ ∀ u, (⟨g', c.l⟩ : Config (M intAlg mc)).l u = L.idle := by
  refine ⟨?_, hidle⟩
  have h1 : Reach (M intAlg mc) ⟨g1, upd c.l t l1⟩ := Reach.step hr hs
  have := reach_soloRun (M intAlg mc) Act.tau (t := t) k h1
  rw [hrun] at this
  exact this

/-- **C16, `Store`.**  From a reachable quiescent configuration, `Store w` run alone (at most `len + 3`
    steps, whatever the table size) ends in a reachable quiescent configuration with ghost total `w`. -/
theorem store_solo {mc : Nat} {c : Config (M intAlg mc)} (hr : Reach (M intAlg mc) c)
    (hidle : ∀ u, c.l u = L.idle) (t : Tid) (w : Int) :
    ∃ g1 l1, (M intAlg mc).step t c.g (c.l t) (Act.store w) = some (g1, l1, []) ∧
      ∃ k c', k ≤ tlen c.g + 3 ∧
        soloRun (M intAlg mc) Act.tau t k ⟨g1, upd c.l t l1⟩ = (c', [Obs.ret none]) ∧
        Reach (M intAlg mc) c' ∧ (∀ u, c'.l u = L.idle) ∧ G.applied c'.g = w := by
  obtain ⟨g1, l1, hs, k, g', hk, hrun, happ⟩ := store_solo_raw (mc := mc) (ainv_reach mc c hr) hidle t w
  obtain ⟨h1, h2⟩ := maint_end hr hidle hs hrun
  exact ⟨g1, l1, hs, k, ⟨g', c.l⟩, hk, hrun, h1, h2, happ⟩

/-- **C16, `Reset`.** -/
theorem reset_solo {mc : Nat} {c : Config (M intAlg mc)} (hr : Reach (M intAlg mc) c)
    (hidle : ∀ u, c.l u = L.idle) (t : Tid) :
    ∃ g1 l1, (M intAlg mc).step t c.g (c.l t) Act.reset = some (g1, l1, []) ∧
      ∃ k c', k ≤ tlen c.g + 3 ∧
        soloRun (M intAlg mc) Act.tau t k ⟨g1, upd c.l t l1⟩ = (c', [Obs.ret none]) ∧
        Reach (M intAlg mc) c' ∧ (∀ u, c'.l u = L.idle) ∧ G.applied c'.g = 0 := by
  obtain ⟨g1, l1, hs, k, g', hk, hrun, happ⟩ := reset_solo_raw (mc := mc) (ainv_reach mc c hr) hidle t
  obtain ⟨h1, h2⟩ := maint_end hr hidle hs hrun
  exact ⟨g1, l1, hs, k, ⟨g', c.l⟩, hk, hrun, h1, h2, happ⟩

/-- **C16, `SumAndReset`.**  Returns `wrap64 applied` and leaves ghost total `0`. -/
theorem sumAndReset_solo {mc : Nat} {c : Config (M intAlg mc)} (hr : Reach (M intAlg mc) c)
    (hidle : ∀ u, c.l u = L.idle) (t : Tid) :
    ∃ g1 l1, (M intAlg mc).step t c.g (c.l t) Act.sumAndReset = some (g1, l1, []) ∧
      ∃ k c', k ≤ 3 * tlen c.g + 5 ∧
        soloRun (M intAlg mc) Act.tau t k ⟨g1, upd c.l t l1⟩ = (c', [Obs.ret (some (wrap64 (G.applied c.g)))]) ∧
        Reach (M intAlg mc) c' ∧ (∀ u, c'.l u = L.idle) ∧ G.applied c'.g = 0 := by
  obtain ⟨g1, l1, hs, k, g', hk, hrun, happ⟩ := sumAndReset_solo_raw (mc := mc) (ainv_reach mc c hr) hidle t
  obtain ⟨h1, h2⟩ := maint_end hr hidle hs hrun
  exact ⟨g1, l1, hs, k, ⟨g', c.l⟩, hk, hrun, h1, h2, happ⟩

/-- the maintenance results compose with `sum_solo`: after a solo `Store w`, a solo `Sum` (by any
    thread) returns `wrap64 w` -/
theorem store_then_sum {mc : Nat} {c : Config (M intAlg mc)} (hr : Reach (M intAlg mc) c)
    (hidle : ∀ u, c.l u = L.idle) (t u : Tid) (w : Int) :
    ∃ g1 l1 k c', (M intAlg mc).step t c.g (c.l t) (Act.store w) = some (g1, l1, []) ∧
      soloRun (M intAlg mc) Act.tau t k ⟨g1, upd c.l t l1⟩ = (c', [Obs.ret none]) ∧
      ∃ g2 l2 k2, (M intAlg mc).step u c'.g (c'.l u) Act.sum = some (g2, l2, []) ∧
        soloRun (M intAlg mc) Act.tau u k2 ⟨g2, upd c'.l u l2⟩ = (c', [Obs.ret (some (wrap64 w))]) := by
  obtain ⟨g1, l1, hs, k, c', _, hrun, hr', hidle', happ⟩ := store_solo hr hidle t w
  obtain ⟨g2, l2, hs2, k2, _, hrun2⟩ := sum_solo hr' hidle' u
  rw [happ] at hrun2
  exact ⟨g1, l1, k, c', hs, hrun, g2, l2, k2, hs2, hrun2⟩

end Garr.Adder
