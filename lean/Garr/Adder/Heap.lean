/-!
# Heap of the striped adder (`adder/striped64.go`): base, spin flag, backing arrays with capacity,
published table = (backing array, len), cells; ghost `applied` = Σ x over updates whose
linearization point has occurred.  Arrays and cells are materialised at publication time
(array at the `cells.Store`, cell at the slot store that attaches it).  Invariants `GInv` and their
preservation by every state-changing operation, incl. both Go-specific growth forms.
-/
namespace Garr.Adder

structure Arr where
  cap : Nat
  slot : Nat → Option Nat          -- cell id; total function, `none` beyond the exposed length

structure G where
  base : Int
  busy : Bool
  narr : Nat
  arr : Nat → Arr
  tbl : Option (Nat × Nat)          -- published table: (backing array id, len)
  ncell : Nat                       -- cells materialised so far (at attachment time)
  cell : Nat → Int
  applied : Int                     -- ghost: Σ x over updates whose linearization point has occurred
  actv : List Nat := []             -- ghost: ids of the threads inside an operation
  maint : Bool := false             -- ghost: a maintenance operation (Store/Reset/SumAndReset) is running

def sumTo (f : Nat → Int) : Nat → Int
  | 0 => 0
  | n+1 => sumTo f n + f n

theorem sumTo_congr {f g : Nat → Int} {n : Nat} (h : ∀ k, k < n → f k = g k) : sumTo f n = sumTo g n := by
  induction n with
  | zero => rfl
  | succ n ih =>
    simp only [sumTo]
    rw [ih (fun k hk => h k (by omega)), h n (by omega)]

theorem sumTo_update (f : Nat → Int) (n c : Nat) (d : Int) (hc : c < n) :
    sumTo (fun k => if k = c then f k + d else f k) n = sumTo f n + d := by
  induction n with
  | zero => omega
  | succ n ih =>
    simp only [sumTo]
    by_cases hcn : c = n
    · subst hcn
      have : sumTo (fun k => if k = c then f k + d else f k) c = sumTo f c :=
        sumTo_congr (fun k hk => by have : k ≠ c := by omega
                                    simp [this])
      rw [this]; simp; omega
    · rw [ih (by omega)]
      have : n ≠ c := fun h => hcn h.symm
      simp [this]; omega

def inTable (g : G) (c : Nat) : Prop :=
  ∃ a len j, g.tbl = some (a, len) ∧ j < len ∧ (g.arr a).slot j = some c

structure GInv (g : G) : Prop where
  tbl_wf : ∀ a len, g.tbl = some (a, len) → a < g.narr ∧ 2 ≤ len ∧ len ≤ (g.arr a).cap ∧
            (∀ j, len ≤ j → (g.arr a).slot j = none)
  slot_valid : ∀ a j c, a < g.narr → (g.arr a).slot j = some c → c < g.ncell
  all_in : ∀ c, c < g.ncell → inTable g c
  inj : ∀ a len j1 j2 c, g.tbl = some (a, len) → (g.arr a).slot j1 = some c → (g.arr a).slot j2 = some c → j1 = j2
  conserve : g.base + sumTo g.cell g.ncell = g.applied

/-- successful CAS on base (linearization point of an update by `x`) -/
def casBase (g : G) (x : Int) : G := { g with base := g.base + x, applied := g.applied + x }

/-- successful CAS on an existing cell -/
def casCell (g : G) (c : Nat) (x : Int) : G :=
  { g with cell := fun k => if k = c then g.cell k + x else g.cell k, applied := g.applied + x }

def setSlot (ar : Arr) (j : Nat) (c : Nat) : Arr := { ar with slot := fun k => if k = j then some c else ar.slot k }

/-- attach a pre-filled cell to empty slot `j` of the published backing array `a` -/
def attach (g : G) (a j : Nat) (x : Int) : G :=
  { g with arr := fun k => if k = a then setSlot (g.arr a) j g.ncell else g.arr k,
           ncell := g.ncell + 1,
           cell := fun k => if k = g.ncell then x else g.cell k,
           applied := g.applied + x }

/-- growth, Go style 1: same backing array, resliced to its capacity -/
def growReslice (g : G) (a : Nat) : G := { g with tbl := some (a, (g.arr a).cap) }

/-- growth, Go style 2: fresh backing array of len 2n / cap 4n holding a copy of the n slots -/
def growRealloc (g : G) (a n : Nat) : G :=
  { g with narr := g.narr + 1,
           arr := fun k => if k = g.narr then { cap := 4*n, slot := fun j => if j < n then (g.arr a).slot j else none } else g.arr k,
           tbl := some (g.narr, 2*n) }

/-- initial publication: fresh array len 2 / cap 4 with one pre-filled cell at slot `j` (j < 2) -/
def initTable (g : G) (j : Nat) (x : Int) : G :=
  { g with narr := g.narr + 1,
           arr := fun k => if k = g.narr then { cap := 4, slot := fun i => if i = j then some g.ncell else none } else g.arr k,
           tbl := some (g.narr, 2),
           ncell := g.ncell + 1,
           cell := fun k => if k = g.ncell then x else g.cell k,
           applied := g.applied + x }

theorem inv_casBase {g : G} (h : GInv g) (x : Int) : GInv (casBase g x) := by
  refine ⟨h.tbl_wf, h.slot_valid, h.all_in, h.inj, ?_⟩
  have := h.conserve
  simp only [casBase]; omega

theorem inv_casCell {g : G} (h : GInv g) (c : Nat) (x : Int) (hc : c < g.ncell) : GInv (casCell g c x) := by
  refine ⟨h.tbl_wf, h.slot_valid, h.all_in, h.inj, ?_⟩
  have := h.conserve
  simp only [casCell]
  rw [sumTo_update g.cell g.ncell c x hc]; omega

theorem inv_attach {g : G} (h : GInv g) (a len j : Nat) (x : Int)
    (ht : g.tbl = some (a, len)) (hj : j < len) (hnone : (g.arr a).slot j = none) : GInv (attach g a j x) := by
  obtain ⟨ha, h2, hcap, hbeyond⟩ := h.tbl_wf a len ht
  refine ⟨?_, ?_, ?_, ?_, ?_⟩
  · intro a' len' ht'
    simp only [attach] at ht' ⊢
    rw [ht] at ht'; cases ht'
    simp only [ite_true, setSlot]
    refine ⟨ha, h2, hcap, fun i hi => ?_⟩
    have : i ≠ j := by omega
    simp [this]; exact hbeyond i hi
  · intro a' i c ha' hs
    simp only [attach] at ha' hs ⊢
    by_cases haa : a' = a
    · subst haa
      simp only [ite_true, setSlot] at hs
      by_cases hij : i = j
      · subst hij; simp at hs; omega
      · simp [hij] at hs; have := h.slot_valid a' i c ha hs; omega
    · simp [haa] at hs; have := h.slot_valid a' i c ha' hs; omega
  · intro c hc
    simp only [attach] at hc
    by_cases hcn : c = g.ncell
    · subst hcn
      exact ⟨a, len, j, by simp [attach, ht], hj, by simp [attach, setSlot]⟩
    · obtain ⟨a', len', i, ht', hi, hs⟩ := h.all_in c (by omega)
      rw [ht] at ht'; cases ht'
      refine ⟨a, len, i, by simp [attach, ht], hi, ?_⟩
      have : i ≠ j := fun hij => by subst hij; rw [hnone] at hs; cases hs
      simp [attach, setSlot, this, hs]
  · intro a' len' j1 j2 c ht' h1 h2'
    simp only [attach] at ht' h1 h2'
    rw [ht] at ht'; cases ht'
    simp only [ite_true, setSlot] at h1 h2'
    by_cases e1 : j1 = j <;> by_cases e2 : j2 = j
    · omega
    · simp [e1, e2] at h1 h2'
      have := h.slot_valid a j2 c ha h2'; omega
    · simp [e1, e2] at h1 h2'
      have := h.slot_valid a j1 c ha h1; omega
    · simp [e1, e2] at h1 h2'
      exact h.inj a len j1 j2 c ht h1 h2'
  · have := h.conserve
    simp only [attach, sumTo]
    have : sumTo (fun k => if k = g.ncell then x else g.cell k) g.ncell = sumTo g.cell g.ncell :=
      sumTo_congr (fun k hk => by have : k ≠ g.ncell := by omega
                                  simp [this])
    rw [this]; simp; omega

theorem inv_growReslice {g : G} (h : GInv g) (a len : Nat) (ht : g.tbl = some (a, len)) : GInv (growReslice g a) := by
  obtain ⟨ha, h2, hcap, hbeyond⟩ := h.tbl_wf a len ht
  refine ⟨?_, h.slot_valid, ?_, ?_, h.conserve⟩
  · intro a' len' ht'
    simp only [growReslice] at ht' ⊢
    cases ht'
    exact ⟨ha, by omega, Nat.le_refl _, fun j hj => hbeyond j (by omega)⟩
  · intro c hc
    obtain ⟨a', len', i, ht', hi, hs⟩ := h.all_in c hc
    rw [ht] at ht'; cases ht'
    exact ⟨a, (g.arr a).cap, i, rfl, by omega, hs⟩
  · intro a' len' j1 j2 c ht' h1 h2'
    simp only [growReslice] at ht' h1 h2'
    cases ht'
    exact h.inj a len j1 j2 c ht h1 h2'

theorem inv_growRealloc {g : G} (h : GInv g) (a len : Nat) (ht : g.tbl = some (a, len)) :
    GInv (growRealloc g a len) := by
  obtain ⟨ha, h2, hcap, hbeyond⟩ := h.tbl_wf a len ht
  refine ⟨?_, ?_, ?_, ?_, h.conserve⟩
  · intro a' len' ht'
    simp only [growRealloc] at ht' ⊢
    cases ht'
    simp only [ite_true]
    refine ⟨by omega, by omega, by omega, fun j hj => ?_⟩
    have : ¬ j < len := by omega
    simp [this]
  · intro a' j c ha' hs
    simp only [growRealloc] at ha' hs ⊢
    by_cases haa : a' = g.narr
    · subst haa
      simp only [ite_true] at hs
      split at hs
      · exact h.slot_valid a j c ha hs
      · cases hs
    · simp [haa] at hs; exact h.slot_valid a' j c (by omega) hs
  · intro c hc
    obtain ⟨a', len', i, ht', hi, hs⟩ := h.all_in c hc
    rw [ht] at ht'; cases ht'
    exact ⟨g.narr, 2*len, i, rfl, by omega, by simp [growRealloc, hi, hs]⟩
  · intro a' len' j1 j2 c ht' h1 h2'
    simp only [growRealloc] at ht' h1 h2'
    cases ht'
    simp only [ite_true] at h1 h2'
    split at h1 <;> split at h2' <;> try contradiction
    exact h.inj a len j1 j2 c ht h1 h2'

theorem inv_initTable {g : G} (h : GInv g) (j : Nat) (x : Int) (ht : g.tbl = none) (hj : j < 2) :
    GInv (initTable g j x) := by
  have hn0 : g.ncell = 0 := by
    cases hn : g.ncell with
    | zero => rfl
    | succ m =>
      obtain ⟨a, len, i, ht', _, _⟩ := h.all_in 0 (by omega)
      rw [ht] at ht'; cases ht'
  refine ⟨?_, ?_, ?_, ?_, ?_⟩
  · intro a' len' ht'
    simp only [initTable] at ht' ⊢
    cases ht'
    simp only [ite_true]
    refine ⟨by omega, by omega, by omega, fun i hi => ?_⟩
    have : i ≠ j := by omega
    simp [this]
  · intro a' i c ha' hs
    simp only [initTable] at ha' hs ⊢
    by_cases haa : a' = g.narr
    · subst haa
      simp only [ite_true] at hs
      split at hs
      · cases hs; omega
      · cases hs
    · simp [haa] at hs; have := h.slot_valid a' i c (by omega) hs; omega
  · intro c hc
    simp only [initTable] at hc
    have : c = g.ncell := by omega
    subst this
    exact ⟨g.narr, 2, j, rfl, hj, by simp [initTable]⟩
  · intro a' len' j1 j2 c ht' h1 h2'
    simp only [initTable] at ht' h1 h2'
    cases ht'
    simp only [ite_true] at h1 h2'
    split at h1 <;> split at h2' <;> try contradiction
    omega
  · have := h.conserve
    simp only [initTable, sumTo]
    have : sumTo (fun k => if k = g.ncell then x else g.cell k) g.ncell = sumTo g.cell g.ncell :=
      sumTo_congr (fun k hk => by have : k ≠ g.ncell := by omega
                                  simp [this])
    rw [this]; simp; omega

end Garr.Adder
namespace Garr.Adder

def slotVal (s : Nat → Option Nat) (f : Nat → Int) (j : Nat) : Int :=
  match s j with | none => 0 | some c => f c

/-- Summing cell values slot by slot equals summing over all cell ids, when the slots form a
    bijection between the occupied indices below `len` and the ids below `n`. -/
theorem sum_slots_eq (f : Nat → Int) : ∀ (n : Nat) (s : Nat → Option Nat) (len : Nat),
    (∀ j c, s j = some c → c < n) →
    (∀ j1 j2 c, s j1 = some c → s j2 = some c → j1 = j2) →
    (∀ c, c < n → ∃ j, j < len ∧ s j = some c) →
    sumTo (slotVal s f) len = sumTo f n := by
  intro n
  induction n with
  | zero =>
    intro s len hv _ _
    have : ∀ j, j < len → slotVal s f j = (fun _ => (0:Int)) j := by
      intro j _
      unfold slotVal
      cases hs : s j with
      | none => rfl
      | some c => exact absurd (hv j c hs) (by omega)
    rw [sumTo_congr this]
    clear this
    induction len with
    | zero => rfl
    | succ m ih => simp [sumTo, ih]
  | succ n ih =>
    intro s len hv hinj hsurj
    obtain ⟨j0, hj0, hs0⟩ := hsurj n (by omega)
    let s' : Nat → Option Nat := fun j => if j = j0 then none else s j
    have hv' : ∀ j c, s' j = some c → c < n := by
      intro j c hs
      simp only [s'] at hs
      split at hs
      · cases hs
      · rename_i hne
        have h1 := hv j c hs
        have : c ≠ n := fun hcn => by subst hcn; exact hne (hinj j j0 _ hs hs0)
        omega
    have hinj' : ∀ j1 j2 c, s' j1 = some c → s' j2 = some c → j1 = j2 := by
      intro j1 j2 c h1 h2
      simp only [s'] at h1 h2
      split at h1
      · cases h1
      · split at h2
        · cases h2
        · exact hinj j1 j2 c h1 h2
    have hsurj' : ∀ c, c < n → ∃ j, j < len ∧ s' j = some c := by
      intro c hc
      obtain ⟨j, hj, hs⟩ := hsurj c (by omega)
      refine ⟨j, hj, ?_⟩
      have : j ≠ j0 := fun h => by subst h; rw [hs0] at hs; cases hs; omega
      simp [s', this, hs]
    have ih' := ih s' len hv' hinj' hsurj'
    -- relate the two slot sums: they differ exactly at j0 by f n
    have hrel : sumTo (slotVal s f) len = sumTo (slotVal s' f) len + f n := by
      have : ∀ k, k < len → slotVal s f k = (fun k => if k = j0 then slotVal s' f k + f n else slotVal s' f k) k := by
        intro k _
        by_cases hk : k = j0
        · subst hk; simp [slotVal, s', hs0]
        · simp [slotVal, s', hk]
      rw [sumTo_congr this, sumTo_update (slotVal s' f) len j0 (f n) hj0]
    rw [hrel, ih']
    rfl

def tableSum (g : G) : Int :=
  match g.tbl with
  | none => 0
  | some (a, len) => sumTo (slotVal (g.arr a).slot g.cell) len

/-- What a solo `Sum` computes (base plus every slot's cell) is the abstract value. -/
theorem quiescent_sum {g : G} (h : GInv g) : g.base + tableSum g = g.applied := by
  rw [← h.conserve]
  congr 1
  unfold tableSum
  cases ht : g.tbl with
  | none =>
    have hn0 : g.ncell = 0 := by
      cases hn : g.ncell with
      | zero => rfl
      | succ m =>
        obtain ⟨a, len, i, ht', _, _⟩ := h.all_in 0 (by omega)
        rw [ht] at ht'; cases ht'
    simp [hn0, sumTo]
  | some p =>
    obtain ⟨a, len⟩ := p
    obtain ⟨ha, _, _, _⟩ := h.tbl_wf a len ht
    apply sum_slots_eq
    · intro j c hs; exact h.slot_valid a j c ha hs
    · intro j1 j2 c h1 h2; exact h.inj a len j1 j2 c ht h1 h2
    · intro c hc
      obtain ⟨a', len', i, ht', hi, hs⟩ := h.all_in c hc
      rw [ht] at ht'; cases ht'
      exact ⟨i, hi, hs⟩

end Garr.Adder

namespace Garr.Adder

/-- `Store(v)`, first access: `base := v`.  The abstract value changes by `v - base`. -/
def storeBase (g : G) (v : Int) : G := { g with base := v, applied := g.applied - g.base + v }

/-- `Store(v)`, publication of a fresh table of the same length whose slots all hold fresh zero cells.
Runs only at quiescence, so the old arrays and cells are unreachable garbage: the heap is renumbered. -/
def storeTable (g : G) (len : Nat) : G :=
  { g with narr := 1,
           arr := fun _ => { cap := len, slot := fun j => if j < len then some j else none },
           tbl := some (0, len),
           ncell := len,
           cell := fun _ => 0,
           applied := g.base }

theorem sumTo_zero (n : Nat) : sumTo (fun _ => (0 : Int)) n = 0 := by
  induction n with
  | zero => rfl
  | succ n ih => simp [sumTo, ih]

theorem inv_storeBase {g : G} (h : GInv g) (v : Int) : GInv (storeBase g v) := by
  refine ⟨h.tbl_wf, h.slot_valid, h.all_in, h.inj, ?_⟩
  have := h.conserve
  simp only [storeBase]; omega

theorem inv_storeTable {g : G} (len : Nat) (h2 : 2 ≤ len) : GInv (storeTable g len) := by
  refine ⟨?_, ?_, ?_, ?_, ?_⟩
  · intro a l ht
    simp only [storeTable] at ht ⊢
    cases ht
    refine ⟨by omega, h2, Nat.le_refl _, fun j hj => ?_⟩
    have : ¬ j < len := by omega
    simp [this]
  · intro a j c _ hs
    simp only [storeTable] at hs ⊢
    split at hs
    · cases hs; assumption
    · cases hs
  · intro c hc
    simp only [storeTable] at hc
    exact ⟨0, len, c, rfl, hc, by simp [storeTable, hc]⟩
  · intro a l j1 j2 c _ h1 h2'
    simp only [storeTable] at h1 h2'
    split at h1 <;> split at h2' <;> try contradiction
    cases h1; cases h2'; rfl
  · simp only [storeTable]
    rw [sumTo_zero]; omega

end Garr.Adder
